/-
`LogBase2` is monotone (integer-level proof): squaring with half-even rounding and floor halving are
monotone, and the remaining bit weights never add up to more than the weight of the current bit.
-/
import OsmoVerif.Proofs.MathLog

set_option linter.unusedSimpArgs false

namespace OsmoVerif.MathM
open OsmoVerif.Num OsmoVerif.Gen OsmoVerif.Spec

theorem sq_range {x x2 : Int} (hx1 : P36 ≤ x) (hx2 : x < 2 * P36) (h : BigDec.mul x x = some x2) :
    P36 ≤ x2 ∧ x2 < 4 * P36 := by
  obtain ⟨a, b', _⟩ := bigMul_self_spec h
  have hP := P36_pos
  have hsq1 : P36 * P36 ≤ x * x := by nlinarith
  have hsq2 : x * x ≤ (2 * P36 - 1) * (2 * P36 - 1) := by nlinarith
  constructor
  · by_contra hc
    have : x2 * P36 ≤ (P36 - 1) * P36 := Int.mul_le_mul_of_nonneg_right (by omega) (by omega)
    nlinarith
  · by_contra hc
    have : (4 * P36) * P36 ≤ x2 * P36 := Int.mul_le_mul_of_nonneg_right (by omega) (by omega)
    nlinarith

theorem log2Iter_mono : ∀ (f : Nat) (x x' y b r r' : Int), P36 ≤ x → x ≤ x' → x' < 2 * P36 → 0 ≤ b →
    log2Iter f x y b = some r → log2Iter f x' y b = some r' → r ≤ r' := by
  intro f
  induction f with
  | zero =>
    intro x x' y b r r' _ _ _ _ h h'
    obtain rfl := Option.some.inj h; obtain rfl := Option.some.inj h'; exact Int.le_refl _
  | succ f ih =>
    intro x x' y b r r' h1 hle h2 hb h h'
    unfold log2Iter at h h'
    obtain ⟨x2, hm, h⟩ := Option.bind_eq_some_iff.mp h
    obtain ⟨x2', hm', h'⟩ := Option.bind_eq_some_iff.mp h'
    have hsq : x * x ≤ x' * x' := by nlinarith [P36_pos]
    have hx2le : x2 ≤ x2' := (bigMul_self_spec hm).mono P36_pos (bigMul_self_spec hm') hsq
    obtain ⟨r1, r2⟩ := sq_range h1 (by omega) hm
    obtain ⟨r1', r2'⟩ := sq_range (by omega) h2 hm'
    by_cases hge : x2 ≥ 2 * P36
    · rw [if_pos hge] at h
      rw [if_pos (by omega)] at h'
      obtain ⟨y1, hy1, h⟩ := Option.bind_eq_some_iff.mp h
      obtain ⟨y1', hy1', h'⟩ := Option.bind_eq_some_iff.mp h'
      obtain ⟨rfl, _⟩ := chk_some hy1
      obtain ⟨rfl, _⟩ := chk_some hy1'
      exact ih _ _ _ _ _ _ (by omega) (by omega) (by omega) (by omega) h h'
    · rw [if_neg hge] at h
      by_cases hge' : x2' ≥ 2 * P36
      · rw [if_pos hge'] at h'
        obtain ⟨y1', hy1', h'⟩ := Option.bind_eq_some_iff.mp h'
        obtain ⟨rfl, _⟩ := chk_some hy1'
        have u1 := (log2Iter_range _ _ _ _ _ (by omega) h).2
        have u2 := (log2Iter_range _ _ _ _ _ (by omega) h').1
        omega
      · rw [if_neg hge'] at h'
        exact ih _ _ _ _ _ _ r1 hx2le (by omega) (by omega) h h'

/-- comparison of two normalised states. -/
theorem normSpec_mono {x x' x2 y2 x2' y2' : Int} (hx : 0 < x) (hle : x ≤ x') (h : NormSpec x x2 y2)
    (h' : NormSpec x' x2' y2') : y2 + P36 ≤ y2' ∨ (y2 = y2' ∧ x2 ≤ x2') := by
  obtain ⟨a1, a2, m, hm⟩ := h
  obtain ⟨b1, b2, m', hm'⟩ := h'
  have hP := P36_pos
  have p2 : ∀ k : Nat, (0 : Int) < 2 ^ k := fun k => by positivity
  have pmono : ∀ {a b : Nat}, a < b → (2 : Int) * 2 ^ a ≤ 2 ^ b := by
    intro a b hab
    calc (2 : Int) * 2 ^ a = 2 ^ (a + 1) := by ring
      _ ≤ 2 ^ b := pow_le_pow_right₀ (by norm_num) hab
  have castlt : ∀ {a b : Nat}, a < b → (a : Int) * P36 + P36 ≤ b * P36 := by
    intro a b hab
    have : ((a : Int) + 1) * P36 ≤ b * P36 := Int.mul_le_mul_of_nonneg_right (by omega) (by omega)
    rw [Int.add_mul] at this; omega
  rcases hm with ⟨rfl, rfl⟩ | ⟨rfl, rfl⟩ <;> rcases hm' with ⟨rfl, rfl⟩ | ⟨rfl, rfl⟩
  · -- up / up
    rcases Nat.lt_trichotomy m m' with hlt | rfl | hgt
    · exfalso
      have := pmono hlt
      have h3 : x * (2 * 2 ^ m) ≤ x' * 2 ^ m' := by
        calc x * (2 * 2 ^ m) ≤ x * 2 ^ m' := Int.mul_le_mul_of_nonneg_left this (by omega)
          _ ≤ x' * 2 ^ m' := Int.mul_le_mul_of_nonneg_right hle (by have := p2 m'; omega)
      have e : x * (2 * 2 ^ m) = 2 * (x * 2 ^ m) := by ring
      omega
    · exact Or.inr ⟨rfl, Int.mul_le_mul_of_nonneg_right hle (by have := p2 m; omega)⟩
    · left; have := castlt hgt; omega
  · -- up / down
    rcases Nat.eq_zero_or_pos m with rfl | hm0
    · rcases Nat.eq_zero_or_pos m' with rfl | hm0'
      · right; simp only [Nat.cast_zero, Int.zero_mul, Int.neg_zero, Int.zero_add, pow_zero, Int.mul_one, Int.ediv_one]; exact ⟨trivial, hle⟩
      · left; have := castlt hm0'; simp only [Nat.cast_zero, Int.zero_mul, Int.neg_zero, Int.zero_add, pow_zero, Int.mul_one, Int.ediv_one] at this ⊢; omega
    · left
      have := castlt hm0
      have : (0 : Int) ≤ m' * P36 := Int.mul_nonneg (by omega) (by omega)
      omega
  · -- down / up
    rcases Nat.eq_zero_or_pos m with rfl | hm0
    · rcases Nat.eq_zero_or_pos m' with rfl | hm0'
      · right; simp only [Nat.cast_zero, Int.zero_mul, Int.neg_zero, Int.zero_add, pow_zero, Int.mul_one, Int.ediv_one]; exact ⟨trivial, hle⟩
      · exfalso
        -- x ≥ P36 but x'·2^m' < 2·P36 with m' ≥ 1
        have := pmono hm0'
        simp only [Nat.cast_zero, Int.zero_mul, Int.neg_zero, Int.zero_add, pow_zero, Int.mul_one, Int.ediv_one] at a1
        have h3 : x' * (2 * 2 ^ 0) ≤ x' * 2 ^ m' := Int.mul_le_mul_of_nonneg_left this (by omega)
        simp only [Nat.cast_zero, Int.zero_mul, Int.neg_zero, Int.zero_add, pow_zero, Int.mul_one, Int.ediv_one] at h3; omega
    · exfalso
      -- x ≥ 2·P36 (m ≥ 1) but x' ≤ x'·2^m' < 2·P36
      have h4 : x / 2 ^ m * 2 ^ m ≤ x := Int.ediv_mul_le _ (by have := p2 m; omega)
      have := pmono hm0
      have h5 : P36 * (2 * 2 ^ 0) ≤ x / 2 ^ m * 2 ^ m := by
        calc P36 * (2 * 2 ^ 0) ≤ P36 * 2 ^ m := Int.mul_le_mul_of_nonneg_left this (by omega)
          _ ≤ x / 2 ^ m * 2 ^ m := Int.mul_le_mul_of_nonneg_right a1 (by have := p2 m; omega)
      have h6 : x' * 1 ≤ x' * 2 ^ m' := Int.mul_le_mul_of_nonneg_left (by have := p2 m'; omega) (by omega)
      simp only [Nat.cast_zero, Int.zero_mul, Int.neg_zero, Int.zero_add, pow_zero, Int.mul_one, Int.ediv_one] at h5; omega
  · -- down / down
    rcases Nat.lt_trichotomy m m' with hlt | rfl | hgt
    · left; exact castlt hlt
    · exact Or.inr ⟨rfl, Int.ediv_le_ediv (p2 m) hle⟩
    · exfalso
      have h4 : x / 2 ^ m * 2 ^ m ≤ x := Int.ediv_mul_le _ (by have := p2 m; omega)
      have h4' : x' < (x' / 2 ^ m' + 1) * 2 ^ m' := Int.lt_ediv_add_one_mul_self _ (p2 m')
      have := pmono hgt
      have h5 : P36 * (2 * 2 ^ m') ≤ x / 2 ^ m * 2 ^ m := by
        calc P36 * (2 * 2 ^ m') ≤ P36 * 2 ^ m := Int.mul_le_mul_of_nonneg_left this (by omega)
          _ ≤ x / 2 ^ m * 2 ^ m := Int.mul_le_mul_of_nonneg_right a1 (by have := p2 m; omega)
      have h6 : (x' / 2 ^ m' + 1) * 2 ^ m' ≤ (2 * P36) * 2 ^ m' :=
        Int.mul_le_mul_of_nonneg_right (by omega) (by have := p2 m'; omega)
      have e : P36 * (2 * 2 ^ m') = (2 * P36) * 2 ^ m' := by ring
      omega

theorem logBase2_monotone {x x' r r' : Int} (hle : x ≤ x') (h : logBase2 x = some r)
    (h' : logBase2 x' = some r') : r ≤ r' := by
  obtain ⟨hx, x2, y2, hn, hit⟩ := logBase2_unfold h
  obtain ⟨hx', x2', y2', hn', hit'⟩ := logBase2_unfold h'
  have hb : (0 : Int) ≤ oneHalf36 := by decide +kernel
  have h2b : 2 * oneHalf36 = P36 := by decide +kernel
  rcases normSpec_mono hx hle hn hn' with hfar | ⟨rfl, hxx⟩
  · have u1 := (log2Iter_range _ _ _ _ _ hb hit).2
    have u2 := (log2Iter_range _ _ _ _ _ hb hit').1
    omega
  · exact log2Iter_mono _ _ _ _ _ _ _ hn.1 hxx hn'.2.1 hb hit hit'

end OsmoVerif.MathM
