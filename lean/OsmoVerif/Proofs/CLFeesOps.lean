/-
C08 helpers, part 4: the history model of the pool WITH spread-reward bookkeeping (`FOp`, `applyF`, `stepF`, `runF`)
and what each successful operation is made of: the `CLPool` operation on the pool component (so the C07 invariant
carries over verbatim: `applyF_pool`, `FInvPool`) plus `Acc.updPos` / `Acc.prepareClaim` / `foldTrace` on the
accumulator component.  Core only.
-/
import OsmoVerif.Proofs.CLFeesRec
import OsmoVerif.Proofs.CLBookMono

namespace OsmoVerif.CLFeesP
open OsmoVerif.CLPool OsmoVerif.CL OsmoVerif.CLBook OsmoVerif.Num OsmoVerif.CLFees OsmoVerif.CLRewards

/-! ## histories -/

inductive FOp where
  | create (owner : String) (lower upper amount0 amount1 : Int)
  | withdraw (owner : String) (id : Nat) (liq : Int)
  | add (owner : String) (id : Nat) (amount0 amount1 : Int)
  | transfer (sender : String) (id : Nat) (newOwner : String)
  | swap (outGivenIn zfo : Bool) (specified : Int)
  | collect (sender : String) (id : Nat)
  deriving Repr, DecidableEq

def applyF (f : Fees) : FOp → Option Fees
  | .create o l u a0 a1 => (CLFees.createPosition f o l u a0 a1).map (·.1)
  | .withdraw o id liq => (CLFees.withdrawPosition f o id liq).map (·.1)
  | .add o id a0 a1 => (CLFees.addToPosition f o id a0 a1).map (·.1)
  | .transfer s id n => CLFees.transferPosition f s id n
  | .swap og zfo spec => (CLFees.swap f og zfo spec).map (·.1)
  | .collect s id => (CLFees.collect f s id).map (·.1)

/-- a failed message leaves the state unchanged. -/
def stepF (f : Fees) (op : FOp) : Fees :=
  match applyF f op with
  | some f' => f'
  | none => f

def runF (f : Fees) : List FOp → Fees
  | [] => f
  | op :: ops => runF (stepF f op) ops

def initF (spacing spf scale : Int) : Fees := { pool := { spacing := spacing, spf := spf, scale := scale } }

/-- the pool-level operation behind a message (`collect` does not touch the pool model). -/
def FOp.toBook : FOp → Option Op
  | .create o l u a0 a1 => some (.create o l u a0 a1)
  | .withdraw o id liq => some (.withdraw o id liq)
  | .add o id a0 a1 => some (.add o id a0 a1)
  | .transfer s id n => some (.transfer s id n)
  | .swap og zfo spec => some (.swap og zfo spec)
  | .collect _ _ => none

theorem stepF_cases (f : Fees) (op : FOp) : stepF f op = f ∨ ∃ f', applyF f op = some f' ∧ stepF f op = f' := by
  unfold stepF
  cases h : applyF f op with
  | none => exact Or.inl rfl
  | some f' => exact Or.inr ⟨f', rfl, rfl⟩

/-! ## what a successful operation is made of -/

theorem payOut_spec {f f' : Fees} {c : Int × Int} (h : payOut f c = some f') :
    f'.pool = f.pool ∧ f'.acc = f.acc ∧ f'.out0 = f.out0 + c.1 ∧ f'.out1 = f.out1 + c.2 ∧
    c.1 ≤ f.pool.fee0 - f.out0 ∧ c.2 ≤ f.pool.fee1 - f.out1 ∨
    f' = f ∧ c.1 = 0 ∧ c.2 = 0 := by
  unfold payOut at h
  split at h
  · rename_i hz
    injection h with h
    exact Or.inr ⟨h.symm, hz.1, hz.2⟩
  · split at h
    · cases h
    · rename_i hb
      injection h with h
      subst h
      exact Or.inl ⟨rfl, rfl, rfl, rfl, by omega, by omega⟩

theorem payOut_frame {f f' : Fees} {c : Int × Int} (h : payOut f c = some f') :
    f'.pool = f.pool ∧ f'.acc = f.acc ∧ f'.out0 = f.out0 + c.1 ∧ f'.out1 = f.out1 + c.2 := by
  rcases payOut_spec h with ⟨a, b, c1, c2, _⟩ | ⟨e, z1, z2⟩
  · exact ⟨a, b, c1, c2⟩
  · subst e; exact ⟨rfl, rfl, by omega, by omega⟩

theorem createMin_spec {f f' : Fees} {owner : String} {lower upper a0 a1 m0 m1 : Int} {id : Nat} {x0 x1 liq lo up : Int}
    (h : CLFees.createPositionMin f owner lower upper a0 a1 m0 m1 = some (f', id, x0, x1, liq, lo, up)) :
    CLPool.createPositionMin f.pool owner lower upper a0 a1 m0 m1 = some (f'.pool, id, x0, x1, liq, lo, up) ∧
    Acc.updPos { f.acc with outs := initTick (initTick f.acc.outs f'.pool.tick f.acc.global lo) f'.pool.tick f.acc.global up }
      f'.pool.tick lo up id liq = some f'.acc ∧
    f'.out0 = f.out0 ∧ f'.out1 = f.out1 := by
  unfold CLFees.createPositionMin at h
  simp only [Option.bind_eq_some_iff, Option.map_eq_some_iff, Prod.mk.injEq] at h
  obtain ⟨⟨p', id', y0, y1, liq', lo', up'⟩, hp, a', ha, e1, e2, e3, e4, e5, e6, e7⟩ := h
  simp only at ha e1 e2 e3 e4 e5 e6 e7
  subst e1; subst e2; subst e3; subst e4; subst e5; subst e6; subst e7
  exact ⟨hp, ha, rfl, rfl⟩

theorem withdraw_spec {f f' : Fees} {owner : String} {id : Nat} {req o0 o1 : Int}
    (h : CLFees.withdrawPosition f owner id req = some (f', o0, o1)) :
    ∃ (pos : Position) (a1 : Acc),
      f.pool.positions.find? (fun x => decide (x.id = id)) = some pos ∧
      CLPool.withdrawPosition f.pool owner id req = some (f'.pool, o0, o1) ∧
      Acc.updPos f.acc f.pool.tick pos.lower pos.upper id (-req) = some a1 ∧
      ((req ≠ pos.liq ∧ f'.acc = { a1 with outs := syncOuts a1.outs f'.pool.ticks } ∧ f'.out0 = f.out0 ∧ f'.out1 = f.out1) ∨
       (req = pos.liq ∧ ∃ (a2 : Acc) (c : Int × Int),
          Acc.prepareClaim a1 f.pool.scale f.pool.tick pos.lower pos.upper id = some (a2, c) ∧
          f'.acc = { a2 with outs := syncOuts a2.outs f'.pool.ticks } ∧
          f'.out0 = f.out0 + c.1 ∧ f'.out1 = f.out1 + c.2 ∧
          ((c.1 = 0 ∧ c.2 = 0) ∨ (c.1 ≤ f'.pool.fee0 - f.out0 ∧ c.2 ≤ f'.pool.fee1 - f.out1)))) := by
  unfold CLFees.withdrawPosition findPos at h
  simp only [Option.bind_eq_some_iff, Option.map_eq_some_iff, Prod.mk.injEq] at h
  obtain ⟨pos, hfind, ⟨p', w0, w1⟩, hw, a1, ha1, f2, hf2, e1, e2, e3⟩ := h
  simp only at hf2 e1 e2 e3
  subst e2; subst e3
  by_cases hreq : req = pos.liq
  · rw [if_pos hreq] at hf2
    simp only [Option.bind_eq_some_iff] at hf2
    obtain ⟨⟨a2, c⟩, hcl, hpay⟩ := hf2
    simp only at hpay
    have hb : (c.1 = 0 ∧ c.2 = 0) ∨ (c.1 ≤ p'.fee0 - f.out0 ∧ c.2 ≤ p'.fee1 - f.out1) := by
      rcases payOut_spec hpay with ⟨_, _, _, _, g5, g6⟩ | ⟨_, g2, g3⟩
      · exact Or.inr ⟨g5, g6⟩
      · exact Or.inl ⟨g2, g3⟩
    obtain ⟨g1, g2, g3, g4⟩ := payOut_frame hpay
    simp only at g1 g2 g3 g4
    refine ⟨pos, a1, hfind, ?_, ha1, Or.inr ⟨hreq, a2, c, hcl, ?_⟩⟩
    · rw [← e1]; simp only; rw [g1]; exact hw
    · rw [← e1]; simp only; rw [g1, g2]; exact ⟨rfl, g3, g4, hb⟩
  · rw [if_neg hreq] at hf2
    injection hf2 with hf2
    subst hf2
    refine ⟨pos, a1, hfind, ?_, ha1, Or.inl ⟨hreq, ?_, ?_, ?_⟩⟩ <;> rw [← e1]
    exact hw

theorem swap_spec {f f' : Fees} {og zfo : Bool} {spec ain aout fee : Int}
    (h : CLFees.swap f og zfo spec = some (f', ain, aout, fee)) :
    CLPool.swap f.pool og zfo spec = some (f'.pool, ain, aout, fee) ∧
    ∃ (trs : List StepTrace) (g : Int),
      swapTrace f.pool.scale og zfo f.pool.spf (execPriceLimit zfo) ⟨f.pool.sqrtPrice, f.pool.tick, f.pool.liquidity⟩
        (f.pool.ticks.map fun t => (t.tick, t.net)) spec = some trs ∧
      foldTrace f.pool.scale zfo f.acc.global trs 0 f.acc.outs = some (g, f'.acc.outs) ∧ 0 ≤ g ∧
      V2.add f.acc.global (V2.ofIn zfo g) = some f'.acc.global ∧
      f'.acc.recs = f.acc.recs ∧ f'.acc.totalShares = f.acc.totalShares ∧ f'.out0 = f.out0 ∧ f'.out1 = f.out1 := by
  unfold CLFees.swap at h
  simp only [Option.bind_eq_some_iff] at h
  obtain ⟨⟨p', ai, ao, fe⟩, hp, trs, htr, ⟨g, outs'⟩, hfold, h⟩ := h
  simp only at h
  split at h
  · cases h
  · rename_i hg
    simp only [Option.map_eq_some_iff, Prod.mk.injEq] at h
    obtain ⟨global', hadd, e1, e2, e3, e4⟩ := h
    subst e1; subst e2; subst e3; subst e4
    exact ⟨hp, trs, g, htr, hfold, by omega, hadd, rfl, rfl, rfl, rfl⟩

theorem collect_spec {f f' : Fees} {sender : String} {id : Nat} {c0 c1 : Int}
    (h : CLFees.collect f sender id = some (f', c0, c1)) :
    ∃ pos : Position, f.pool.positions.find? (fun x => decide (x.id = id)) = some pos ∧ sender = pos.owner ∧
      Acc.prepareClaim f.acc f.pool.scale f.pool.tick pos.lower pos.upper id = some (f'.acc, (c0, c1)) ∧
      f'.pool = f.pool ∧ f'.out0 = f.out0 + c0 ∧ f'.out1 = f.out1 + c1 ∧
      ((c0 = 0 ∧ c1 = 0) ∨ (c0 ≤ f.pool.fee0 - f.out0 ∧ c1 ≤ f.pool.fee1 - f.out1)) := by
  unfold CLFees.collect findPos at h
  simp only [Option.bind_eq_some_iff] at h
  obtain ⟨pos, hfind, h⟩ := h
  split at h
  · cases h
  · rename_i hown
    simp only [Option.bind_eq_some_iff, Option.map_eq_some_iff, Prod.mk.injEq] at h
    obtain ⟨⟨a1, c⟩, hcl, f1, hpay, e1, e2, e3⟩ := h
    simp only at hpay e1 e2 e3
    subst e1; subst e2; subst e3
    have hb : (c.1 = 0 ∧ c.2 = 0) ∨ (c.1 ≤ f.pool.fee0 - f.out0 ∧ c.2 ≤ f.pool.fee1 - f.out1) := by
      rcases payOut_spec hpay with ⟨_, _, _, _, g5, g6⟩ | ⟨_, g2, g3⟩
      · exact Or.inr ⟨g5, g6⟩
      · exact Or.inl ⟨g2, g3⟩
    obtain ⟨g1, g2, g3, g4⟩ := payOut_frame hpay
    simp only at g1 g2 g3 g4
    refine ⟨pos, hfind, Decidable.not_not.mp hown, ?_, g1, g3, g4, hb⟩
    rw [g2]; exact hcl

theorem add_spec {f f' : Fees} {owner : String} {id nid : Nat} {add0 add1 x0 x1 : Int}
    (h : CLFees.addToPosition f owner id add0 add1 = some (f', nid, x0, x1)) :
    ∃ (pos : Position) (f1 : Fees) (w0 w1 liq lo up : Int),
      f.pool.positions.find? (fun x => decide (x.id = id)) = some pos ∧ owner = pos.owner ∧
      ¬ (add0 < 0 ∨ add1 < 0) ∧ ¬ (add0 = 0 ∧ add1 = 0) ∧
      CLFees.withdrawPosition f owner id pos.liq = some (f1, w0, w1) ∧ f1.pool.positions ≠ [] ∧
      CLFees.createPositionMin f1 owner pos.lower pos.upper (w0 + add0) (w1 + add1) w0 w1 = some (f', nid, x0, x1, liq, lo, up) := by
  unfold CLFees.addToPosition findPos at h
  simp only [Option.bind_eq_some_iff] at h
  obtain ⟨pos, hfind, h⟩ := h
  split at h
  · cases h
  · rename_i hown
    split at h
    · cases h
    · rename_i hneg
      split at h
      · cases h
      · rename_i hz
        simp only [Option.bind_eq_some_iff] at h
        obtain ⟨⟨f1, w0, w1⟩, hw, h⟩ := h
        simp only at h
        split at h
        · cases h
        · rename_i hemp
          simp only [Option.map_eq_some_iff, Prod.mk.injEq] at h
          obtain ⟨⟨f2, nid', y0, y1, liq, lo, up⟩, hc, e1, e2, e3, e4⟩ := h
          simp only at e1 e2 e3 e4
          subst e1; subst e2; subst e3; subst e4
          exact ⟨pos, f1, w0, w1, liq, lo, up, hfind, Decidable.not_not.mp hown, hneg, hz, hw,
            fun e => hemp (List.isEmpty_iff.mpr e), hc⟩

/-! ## the pool component is the `CLPool` operation -/

theorem add_pool {f f' : Fees} {owner : String} {id nid : Nat} {add0 add1 x0 x1 : Int}
    (h : CLFees.addToPosition f owner id add0 add1 = some (f', nid, x0, x1)) :
    CLPool.addToPosition f.pool owner id add0 add1 = some (f'.pool, nid, x0, x1) := by
  obtain ⟨pos, f1, w0, w1, liq, lo, up, hfind, hown, hneg, hz, hw, hne, hc⟩ := add_spec h
  obtain ⟨_, _, _, hw', _, _⟩ := withdraw_spec hw
  obtain ⟨hc', _, _, _⟩ := createMin_spec hc
  subst hown
  unfold CLPool.addToPosition
  have hemp : ¬ (f1.pool.positions.isEmpty = true) := fun e => hne (List.isEmpty_iff.mp e)
  simp only [Option.bind_eq_bind, hfind, Option.bind_some, ne_eq, not_true_eq_false, ↓reduceIte, hneg, hz,
    Option.pure_def, hw', hemp, Bool.false_eq_true, hc']

/-- a successful message acts on the pool component as the corresponding `CLPool` operation. -/
theorem applyF_pool {f f' : Fees} {op : FOp} (h : applyF f op = some f') :
    match op.toBook with
    | some b => apply f.pool b = some f'.pool
    | none => f'.pool = f.pool := by
  cases op with
  | create o l u a0 a1 =>
    simp only [applyF, Option.map_eq_some_iff] at h
    obtain ⟨⟨f1, id, x0, x1, liq, lo, up⟩, h, e⟩ := h
    simp only at e; subst e
    simp only [FOp.toBook, apply, CLPool.createPosition]
    unfold CLFees.createPosition at h
    rw [(createMin_spec h).1]; rfl
  | withdraw o id liq =>
    simp only [applyF, Option.map_eq_some_iff] at h
    obtain ⟨⟨f1, o0, o1⟩, h, e⟩ := h
    simp only at e; subst e
    obtain ⟨_, _, _, hw, _, _⟩ := withdraw_spec h
    simp only [FOp.toBook, apply]
    rw [hw]; rfl
  | add o id a0 a1 =>
    simp only [applyF, Option.map_eq_some_iff] at h
    obtain ⟨⟨f1, nid, x0, x1⟩, h, e⟩ := h
    simp only at e; subst e
    simp only [FOp.toBook, apply]
    rw [add_pool h]; rfl
  | transfer s id n =>
    simp only [applyF, CLFees.transferPosition, Option.map_eq_some_iff] at h
    obtain ⟨p', h, e⟩ := h
    subst e
    simp only [FOp.toBook, apply]
    exact h
  | swap og zfo spec =>
    simp only [applyF, Option.map_eq_some_iff] at h
    obtain ⟨⟨f1, ain, aout, fee⟩, h, e⟩ := h
    simp only at e; subst e
    simp only [FOp.toBook, apply]
    rw [(swap_spec h).1]; rfl
  | collect s id =>
    simp only [applyF, Option.map_eq_some_iff] at h
    obtain ⟨⟨f1, c0, c1⟩, h, e⟩ := h
    simp only at e; subst e
    obtain ⟨_, _, _, _, hp, _⟩ := collect_spec h
    exact hp

/-- the C07 invariant of the pool component is preserved by every message (spread factor in `[0, 1/2]`). -/
theorem applyF_inv {f f' : Fees} {op : FOp} (hi : Inv f.pool) (hspf : SpfOK f.pool.spf) (h : applyF f op = some f') :
    Inv f'.pool ∧ f'.pool.spf = f.pool.spf ∧ f'.pool.spacing = f.pool.spacing := by
  have hp := applyF_pool h
  cases hb : op.toBook with
  | none => rw [hb] at hp; simp only at hp; rw [hp]; exact ⟨hi, rfl, rfl⟩
  | some b =>
    rw [hb] at hp; simp only at hp
    have hs : step f.pool b = f'.pool := by unfold step; rw [hp]
    have := hi.step b hspf
    rw [hs] at this
    obtain ⟨_, e1, e2, _⟩ := apply_inv hi.core hp
    exact ⟨this, e2, e1⟩

end OsmoVerif.CLFeesP
