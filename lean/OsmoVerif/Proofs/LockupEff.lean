/- The invariant of the lockup model and the numeric effect summary (`Eff`) of a transition. Core only. -/
import OsmoVerif.Proofs.LockupBasics
namespace OsmoVerif.Lockup

def amt (dn : Denom) (l : Lock) : Int := amountOf l.coins dn
/-- amount of `dn` in a lock if its duration is at least `d`. -/
def fDur (dn : Denom) (d : Int) (l : Lock) : Int := if d ≤ l.duration then amt dn l else 0
def fOwner (o : Addr) (dn : Denom) (l : Lock) : Int := if l.owner = o then amt dn l else 0
/-- the lock has begun unlocking and its end time has been reached at block time `t`. -/
def matured (t : Int) (l : Lock) : Bool := match l.endTime with | none => false | some e => decide (e ≤ t)
/-- amount of `dn` in a lock of owner `o` that is not matured at block time `t`. -/
def fUnm (t : Int) (o : Addr) (dn : Denom) (l : Lock) : Int :=
  if l.owner = o ∧ matured t l = false then amt dn l else 0

/-- every lock holds one denomination, a positive amount. -/
def SingleCoin (l : Lock) : Prop := ∃ dn a, l.coins = [(dn, a)] ∧ 0 < a ∧ dn ≠ ""

/-- The invariant.  `o = some id`: lock `id` was just created by `SplitLock` and has no index entry yet
(a transient state inside a transaction); reachable states have `o = none`. -/
structure InvG (o : Option Nat) (s : State) : Prop where
  nodup : (ids s.locks).Nodup
  idle : ∀ l ∈ s.locks, l.id ≤ s.lastLockId
  single : ∀ l ∈ s.locks, SingleCoin l
  durpos : ∀ l ∈ s.locks, 0 < l.duration
  modbal : ∀ dn, aget s.modBal dn = lsum (amt dn) s.locks
  accum : ∀ dn, dn ≠ "" → ∀ d, accSumGE s.accum dn d = lsum (fDur dn d) s.locks
  refsNodup : s.refs.Nodup
  refsOK : RefsOK o s.refs s.locks

abbrev Inv (s : State) : Prop := InvG none s

/-- the lock "began unlocking now": its end time is block time + its (positive) duration. -/
def Began (t : Int) (l : Lock) : Prop := l.endTime = some (t + l.duration) ∧ 0 < l.duration

/-- lock-level summary of a transition at block time `t` from lock store `L` (last issued id `last`) to `L'`. -/
structure FrzD (t : Int) (force : Bool) (L : List Lock) (last : Nat) (L' : List Lock) : Prop where
  idle : ∀ l ∈ L, l.id ≤ last
  /-- every lock afterwards continues a lock id of before, or has a newly issued id -/
  back : ∀ l' ∈ L', (∃ l ∈ L, l.id = l'.id) ∨ last < l'.id
  /-- a lock id keeps its owner; once unlocking, its end time and duration are frozen; a not-unlocking lock
  stays so or begins unlocking now -/
  keep : ∀ l ∈ L, ∀ l' ∈ L', l'.id = l.id → l'.owner = l.owner ∧
    (∀ e, l.endTime = some e → l'.endTime = some e ∧ l'.duration = l.duration) ∧
    (l.endTime = none → l'.endTime = none ∨ Began t l')
  /-- a lock with a newly issued id is not unlocking or began unlocking now (a forced split of an unlocking
  lock excepted) -/
  fresh : ∀ l' ∈ L', last < l'.id → l'.endTime = none ∨ Began t l' ∨ force = true
  /-- a lock that disappears was matured -/
  gone : force = false → ∀ l ∈ L, (∀ l' ∈ L', l'.id ≠ l.id) → matured t l = true

/-- numeric summary of a transition: `Δ f` is the change of `Σ_locks f`. -/
structure EffD (t : Int) (force : Bool) (s s' : State) (Δ : (Lock → Int) → Int) : Prop where
  locks : ∀ f, lsum f s'.locks = lsum f s.locks + Δ f
  modbal : ∀ dn, aget s'.modBal dn = aget s.modBal dn + Δ (amt dn)
  accum : ∀ dn, dn ≠ "" → ∀ d, accSumGE s'.accum dn d = accSumGE s.accum dn d + Δ (fDur dn d)
  /-- an account pays for what it locks and is paid what it had locked — except CL shares -/
  bal : ∀ o dn, isCLDenom dn = false → aget s'.bal (o, dn) = aget s.bal (o, dn) - Δ (fOwner o dn)
  /-- CL shares are minted into locks and burned out of them: no account balance of such a denomination ever grows -/
  balCL : ∀ o dn, isCLDenom dn = true → aget s'.bal (o, dn) ≤ aget s.bal (o, dn)
  time : force = false → ∀ o dn, 0 ≤ Δ (fUnm t o dn)
  last : s.lastLockId ≤ s'.lastLockId
  allowed : s'.forceAllowed = s.forceAllowed
  frz : FrzD t force s.locks s.lastLockId s'.locks

def Eff (t : Int) (force : Bool) (s s' : State) : Prop := ∃ Δ, EffD t force s s' Δ

theorem FrzD.refl (t : Int) (force : Bool) {L : List Lock} {last : Nat} (hidle : ∀ l ∈ L, l.id ≤ last)
    (hn : (ids L).Nodup) : FrzD t force L last L := by
  refine ⟨hidle, fun l' hl' => Or.inl ⟨l', hl', rfl⟩, ?_, ?_, ?_⟩
  · intro l hl l' hl' hid
    have := mem_unique hn hl' hl hid
    subst this
    exact ⟨rfl, fun e he => ⟨he, rfl⟩, fun he => Or.inl he⟩
  · intro l' hl' hlt; have := hidle l' hl'; omega
  · intro _ l hl hno; exact absurd rfl (hno l hl)

theorem matured_of_endTime {t : Int} {l l' : Lock} (h : l'.endTime = l.endTime) : matured t l' = matured t l := by
  unfold matured; rw [h]

theorem FrzD.trans {t : Int} {force : Bool} {L L1 L2 : List Lock} {last last1 : Nat} (hl : last ≤ last1)
    (h1 : FrzD t force L last L1) (h2 : FrzD t force L1 last1 L2) : FrzD t force L last L2 := by
  have notMat : ∀ l1 : Lock, (l1.endTime = none ∨ Began t l1) → matured t l1 = true → False := by
    intro l1 h hm
    rcases h with h | ⟨h, hp⟩
    · simp [matured, h] at hm
    · simp only [matured, h, decide_eq_true_eq] at hm; omega
  refine ⟨h1.idle, ?_, ?_, ?_, ?_⟩
  · intro l2 hl2
    rcases h2.back l2 hl2 with ⟨l1, hl1, hid⟩ | hlt
    · rcases h1.back l1 hl1 with ⟨l, hl0, hid0⟩ | hlt
      · exact Or.inl ⟨l, hl0, by rw [hid0, hid]⟩
      · exact Or.inr (by rw [← hid]; exact hlt)
    · exact Or.inr (by omega)
  · intro l hl0 l2 hl2 hid
    have hex : ∃ l1 ∈ L1, l1.id = l2.id := by
      rcases h2.back l2 hl2 with ex | hlt
      · exact ex
      · have := h1.idle l hl0; omega
    obtain ⟨l1, hl1, hid1⟩ := hex
    obtain ⟨a1, a2, a3⟩ := h1.keep l hl0 l1 hl1 (by rw [hid1, hid])
    obtain ⟨b1, b2, b3⟩ := h2.keep l1 hl1 l2 hl2 hid1.symm
    refine ⟨by rw [b1, a1], ?_, ?_⟩
    · intro e he
      obtain ⟨c1, c2⟩ := a2 e he
      obtain ⟨d1, d2⟩ := b2 e c1
      exact ⟨d1, by rw [d2, c2]⟩
    · intro he
      rcases a3 he with hn | ⟨hb, hp⟩
      · exact b3 hn
      · obtain ⟨d1, d2⟩ := b2 _ hb
        exact Or.inr ⟨by rw [d1, d2], by rw [d2]; exact hp⟩
  · intro l2 hl2 hlt
    rcases h2.back l2 hl2 with ⟨l1, hl1, hid1⟩ | hlt1
    · have hf := h1.fresh l1 hl1 (by rw [hid1]; exact hlt)
      obtain ⟨_, b2, b3⟩ := h2.keep l1 hl1 l2 hl2 hid1.symm
      rcases hf with hn | ⟨hb, hp⟩ | hf
      · rcases b3 hn with x | x
        · exact Or.inl x
        · exact Or.inr (Or.inl x)
      · obtain ⟨d1, d2⟩ := b2 _ hb
        exact Or.inr (Or.inl ⟨by rw [d1, d2], by rw [d2]; exact hp⟩)
      · exact Or.inr (Or.inr hf)
    · exact h2.fresh l2 hl2 hlt1
  · intro hf l hl0 hno
    by_cases hex : ∃ l1 ∈ L1, l1.id = l.id
    · obtain ⟨l1, hl1, hid1⟩ := hex
      have hm := h2.gone hf l1 hl1 (fun l2 hl2 => by rw [hid1]; exact hno l2 hl2)
      obtain ⟨_, a2, a3⟩ := h1.keep l hl0 l1 hl1 hid1
      cases he : l.endTime with
      | none => exact absurd hm (fun hm => notMat l1 (a3 he) hm)
      | some e => rw [← matured_of_endTime (t := t) (l := l) (l' := l1) (by rw [(a2 e he).1, he])]; exact hm
    · exact h1.gone hf l hl0 (fun l1 hl1 e => hex ⟨l1, hl1, e⟩)

theorem Eff.refl (t : Int) (force : Bool) {s : State} (hidle : ∀ l ∈ s.locks, l.id ≤ s.lastLockId)
    (hn : (ids s.locks).Nodup) : Eff t force s s :=
  ⟨fun _ => 0, ⟨by intro f; omega, by intro dn; omega, by intro dn _ d; omega, by intro o dn _; omega,
    by intro o dn _; omega, by intro _ o dn; omega, Nat.le_refl _, rfl, FrzD.refl t force hidle hn⟩⟩

theorem Eff.trans {t : Int} {force : Bool} {s s1 s2 : State} (h1 : Eff t force s s1) (h2 : Eff t force s1 s2) :
    Eff t force s s2 := by
  obtain ⟨Δ1, e1⟩ := h1
  obtain ⟨Δ2, e2⟩ := h2
  refine ⟨fun f => Δ1 f + Δ2 f, ⟨?_, ?_, ?_, ?_, ?_, ?_, ?_, ?_, ?_⟩⟩
  · intro f; rw [e2.locks, e1.locks]; omega
  · intro dn; rw [e2.modbal, e1.modbal]; omega
  · intro dn hdn d; rw [e2.accum dn hdn, e1.accum dn hdn]; omega
  · intro o dn hcl; rw [e2.bal o dn hcl, e1.bal o dn hcl]; omega
  · intro o dn hcl; have := e1.balCL o dn hcl; have := e2.balCL o dn hcl; omega
  · intro hf o dn; have := e1.time hf o dn; have := e2.time hf o dn; omega
  · exact Nat.le_trans e1.last e2.last
  · rw [e2.allowed, e1.allowed]
  · exact FrzD.trans e1.last e1.frz e2.frz

/-- lock-level summary of replacing the record of one lock id. -/
theorem frzD_put_same {t : Int} {force : Bool} {L L' : List Lock} {last : Nat} {l new : Lock}
    (hidle : ∀ l ∈ L, l.id ≤ last) (hn : (ids L).Nodup) (hp : Put L L' (some l) new) (hl : l ∈ L) (hid : new.id = l.id)
    (ho : new.owner = l.owner) (hfz : ∀ e, l.endTime = some e → new.endTime = some e ∧ new.duration = l.duration)
    (hbg : l.endTime = none → new.endTime = none ∨ Began t new) : FrzD t force L last L' := by
  refine ⟨hidle, ?_, ?_, ?_, ?_⟩
  · intro l' hl'
    rcases (hp.mem l').mp hl' with e | ⟨e, _⟩
    · subst e; exact Or.inl ⟨l, hl, hid.symm⟩
    · exact Or.inl ⟨l', e, rfl⟩
  · intro x hx l' hl' hxid
    rcases (hp.mem l').mp hl' with e | ⟨e, _⟩
    · subst e
      have := mem_unique hn hx hl (by rw [← hxid, hid])
      subst this
      exact ⟨ho, hfz, hbg⟩
    · have := mem_unique hn e hx hxid
      subst this
      exact ⟨rfl, fun e he => ⟨he, rfl⟩, fun he => Or.inl he⟩
  · intro l' hl' hlt
    rcases (hp.mem l').mp hl' with e | ⟨e, _⟩
    · subst e; have := hidle l hl; omega
    · have := hidle l' e; omega
  · intro _ x hx hno
    by_cases e : x.id = new.id
    · exact absurd e.symm (hno new ((hp.mem new).mpr (Or.inl rfl)))
    · exact absurd rfl (hno x ((hp.mem x).mpr (Or.inr ⟨hx, e⟩)))

/-- lock-level summary of storing a lock under a newly issued id. -/
theorem frzD_put_fresh {t : Int} {force : Bool} {L L' : List Lock} {last : Nat} {new : Lock}
    (hidle : ∀ l ∈ L, l.id ≤ last) (hn : (ids L).Nodup) (hp : Put L L' none new) (hid : last < new.id)
    (hf : new.endTime = none ∨ Began t new ∨ force = true) : FrzD t force L last L' := by
  refine ⟨hidle, ?_, ?_, ?_, ?_⟩
  · intro l' hl'
    rcases (hp.mem l').mp hl' with e | ⟨e, _⟩
    · subst e; exact Or.inr hid
    · exact Or.inl ⟨l', e, rfl⟩
  · intro x hx l' hl' hxid
    rcases (hp.mem l').mp hl' with e | ⟨e, _⟩
    · subst e; have := hidle x hx; omega
    · have := mem_unique hn e hx hxid
      subst this
      exact ⟨rfl, fun e he => ⟨he, rfl⟩, fun he => Or.inl he⟩
  · intro l' hl' hlt
    rcases (hp.mem l').mp hl' with e | ⟨e, _⟩
    · subst e; exact hf
    · have := hidle l' e; omega
  · intro _ x hx hno
    have : x.id ≠ new.id := by have := hidle x hx; omega
    exact absurd rfl (hno x ((hp.mem x).mpr (Or.inr ⟨hx, this⟩)))

/-- lock-level summary of deleting a lock. -/
theorem frzD_del {t : Int} {force : Bool} {L L' : List Lock} {last : Nat} {old : Lock}
    (hidle : ∀ l ∈ L, l.id ≤ last) (hn : (ids L).Nodup) (hd : Del L L' old) (ho : old ∈ L)
    (hm : force = false → matured t old = true) : FrzD t force L last L' := by
  refine ⟨hidle, ?_, ?_, ?_, ?_⟩
  · intro l' hl'; exact Or.inl ⟨l', ((hd.mem l').mp hl').1, rfl⟩
  · intro x hx l' hl' hxid
    have := mem_unique hn ((hd.mem l').mp hl').1 hx hxid
    subst this
    exact ⟨rfl, fun e he => ⟨he, rfl⟩, fun he => Or.inl he⟩
  · intro l' hl' hlt; have := hidle l' ((hd.mem l').mp hl').1; omega
  · intro hf x hx hno
    by_cases e : x.id = old.id
    · have := mem_unique hn hx ho e
      subst this; exact hm hf
    · exact absurd rfl (hno x ((hd.mem x).mpr ⟨hx, e⟩))

/-- assemble the invariant after a transition from its numeric summary and the structural facts. -/
theorem invG_of_eff {o o' : Option Nat} {t : Int} {force : Bool} {s s' : State} (h : InvG o s) (e : Eff t force s s')
    (hn : (ids s'.locks).Nodup) (hidle : ∀ l ∈ s'.locks, l.id ≤ s'.lastLockId)
    (hsingle : ∀ l ∈ s'.locks, SingleCoin l) (hdur : ∀ l ∈ s'.locks, 0 < l.duration)
    (hrn : s'.refs.Nodup) (hr : RefsOK o' s'.refs s'.locks) : InvG o' s' := by
  obtain ⟨Δ, e⟩ := e
  refine ⟨hn, hidle, hsingle, hdur, ?_, ?_, hrn, hr⟩
  · intro dn; rw [e.modbal, e.locks, h.modbal]
  · intro dn hdn d; rw [e.accum dn hdn, e.locks, h.accum dn hdn]

/-! ## small facts -/

theorem delRefsL_nil (refs : List (RefKey × Nat)) (id : Nat) : delRefsL refs [] id = refs := by
  simp [delRefsL]

theorem amt_single (dn dn' : Denom) (a : Int) (l : Lock) (h : l.coins = [(dn, a)]) :
    amt dn' l = if dn = dn' then a else 0 := by
  simp only [amt, h, amountOf]; split <;> omega

/-- the index keys of a lock depend only on owner, duration, end time and the denominations. -/
theorem indexKeys_congr {l l' : Lock} (ho : l'.owner = l.owner) (hd : l'.duration = l.duration)
    (he : l'.endTime = l.endTime) (hc : l'.coins.map (·.1) = l.coins.map (·.1)) : indexKeys l' = indexKeys l := by
  have h1 : ∀ (f : Denom → List IdxKey) (c : Coins), c.flatMap (fun x => f x.1) = (c.map (·.1)).flatMap f := by
    intro f c; induction c with
    | nil => rfl
    | cons x xs ih => simp only [List.flatMap_cons, List.map_cons, ih]
  unfold indexKeys lockRefKeys durationLockRefKeys Lock.isUnlocking
  rw [ho, hd, he]
  rw [h1 (fun dn => [IdxKey.denomDur dn (durKey l.duration), IdxKey.ownerDenomDur l.owner dn (durKey l.duration)]) l'.coins,
      h1 (fun dn => [IdxKey.denomDur dn (durKey l.duration), IdxKey.ownerDenomDur l.owner dn (durKey l.duration)]) l.coins,
      h1 (fun dn => [IdxKey.denomTime dn l.endTime, IdxKey.ownerDenomTime l.owner dn l.endTime]) l'.coins,
      h1 (fun dn => [IdxKey.denomTime dn l.endTime, IdxKey.ownerDenomTime l.owner dn l.endTime]) l.coins, hc]

theorem sendCoinToModule_some {s s1 : State} {o : Addr} {dn : Denom} {a : Int} (h : sendCoinToModule s o dn a = some s1) :
    dn ≠ "" ∧ 0 < a ∧ s1 = { s with bal := aadd s.bal (o, dn) (-a), modBal := aadd s.modBal dn a } := by
  unfold sendCoinToModule at h
  split at h
  · cases h
  · rename_i h1
    split at h
    · cases h
    · injection h with h
      exact ⟨fun e => h1 (Or.inl e), by omega, h.symm⟩

theorem mintCoinToModule_some {s s1 : State} {dn : Denom} {a : Int} (h : mintCoinToModule s dn a = some s1) :
    dn ≠ "" ∧ 0 < a ∧ s1 = { s with modBal := aadd s.modBal dn a } := by
  unfold mintCoinToModule at h
  split at h
  · cases h
  · rename_i h1
    injection h with h
    exact ⟨fun e => h1 (Or.inl e), by omega, h.symm⟩

theorem burnCoinFromModule_some {s s1 : State} {dn : Denom} {a : Int} (h : burnCoinFromModule s dn a = some s1) :
    s1 = { s with modBal := aadd s.modBal dn (-a) } := by
  unfold burnCoinFromModule at h
  split at h
  · cases h
  · split at h
    · cases h
    · injection h with h; exact h.symm

theorem sendCoinFromModule_some {s s1 : State} {o : Addr} {dn : Denom} {a : Int} (h : sendCoinFromModule s o dn a = some s1) :
    s1 = { s with bal := aadd s.bal (o, dn) a, modBal := aadd s.modBal dn (-a) } := by
  unfold sendCoinFromModule at h
  split at h
  · cases h
  · split at h
    · cases h
    · injection h with h; exact h.symm

end OsmoVerif.Lockup
