/- Balancer swaps: conditional accuracy against the EXACT constant-weighted-product formula, the unconditional
equal-weight corollaries (`Pow(y, 1) = y`), and the weighted product after an exact-in swap. -/
import OsmoVerif.Proofs.GammRealSwap

namespace OsmoVerif.GammMath
open OsmoVerif.Num OsmoVerif.MathM OsmoVerif.Gen OsmoVerif.Spec

/-! ### exact-in -/

theorem outBase_pos_le_one {Rin amt spread : Int} (hR : 0 < Rin) (ha : 0 ≤ amt) (hs : spread ≤ P18) :
    0 < outBase Rin amt spread ∧ outBase Rin amt spread ≤ 1 := by
  have hR' : (0 : ℝ) < Rin := by exact_mod_cast hR
  have ha' : (0 : ℝ) ≤ amt := by exact_mod_cast ha
  have hs' : dv spread ≤ 1 := by have := dv_le hs; rwa [dv_P18] at this
  have hm : 0 ≤ (amt : ℝ) * (1 - dv spread) := mul_nonneg ha' (by linarith)
  unfold outBase
  constructor
  · apply div_pos hR'; linarith
  · rw [div_le_one (by linarith)]; linarith

/-- `1 − R_in/(R_in + a') = a'/(R_in + a')`. -/
theorem one_sub_outBase {Rin amt spread : Int} (h : (Rin : ℝ) + (amt : ℝ) * (1 - dv spread) ≠ 0) :
    1 - outBase Rin amt spread = (amt : ℝ) * (1 - dv spread) / ((Rin : ℝ) + (amt : ℝ) * (1 - dv spread)) := by
  unfold outBase; field_simp; ring

/-- from the two-sided floor bounds to an absolute error. -/
theorem abs_of_floor_bounds {t R X η : ℝ} (h1 : R * (1 - X - η) - 1 < t) (h2 : t ≤ R * (1 - X + η)) :
    |t - R * (1 - X)| ≤ R * η + 1 := by
  rw [abs_le]; constructor <;> nlinarith

/-- CONDITIONAL exact-in accuracy against the exact formula `R_out·(1 − B^E)`, `B = R_in/(R_in + a(1−spread))`,
`E = w_in/w_out`. -/
theorem swapOut_vs_exact {p : BalPool} {dIn dOut : String} {amt spread t : Int} {aIn aOut : BalAsset} {wr y pw : Int}
    (hc : SwapOutCall p dIn dOut amt spread aIn aOut wr y pw) (ht : t = ⌊(aOut.amount : ℝ) * (1 - dv pw)⌋)
    {ε β M : ℝ} (hacc : |dv pw - dv y ^ dv wr| ≤ ε)
    (hRo : 0 ≤ aOut.amount) (hRi : 0 < aIn.amount) (ha : 0 ≤ amt) (hs1 : spread ≤ P18)
    (hwi : 0 < aIn.weight) (hwo : 0 < aOut.weight)
    (hβ : 0 < β) (hβ1 : β ≤ 1) (hβy : β ≤ dv y) (hβB : β ≤ outBase aIn.amount amt spread)
    (heM : dv wr ≤ M) (hEM : wRatio aIn.weight aOut.weight ≤ M) :
    |(t : ℝ) - (aOut.amount : ℝ) * (1 - outBase aIn.amount amt spread ^ wRatio aIn.weight aOut.weight)| ≤
      (aOut.amount : ℝ) * (ε + powDelta β M) + 1 := by
  obtain ⟨_, hy2⟩ := pow_base_dv hc.hpw
  obtain ⟨_, hB1⟩ := outBase_pos_le_one hRi ha hs1
  have hwr0 : 0 ≤ dv wr := dv_nonneg (Dec_quo_nonneg hc.hwr
    (Int.mul_nonneg (by omega) (Int.le_of_lt P18_pos)) (Int.mul_pos hwo P18_pos))
  have hE0 : 0 ≤ wRatio aIn.weight aOut.weight := by
    unfold wRatio
    have : (0 : ℝ) < aIn.weight := by exact_mod_cast hwi
    have : (0 : ℝ) < aOut.weight := by exact_mod_cast hwo
    positivity
  have hδ := pow_used_vs_exact hβ hβ1 hβy hβB hy2.le (by linarith) hwr0 hE0 heM hEM
    (outBase_error hc.hy) (wRatio_error hc.hwr)
  have hacc' := accuracy_transfer hacc hδ
  obtain ⟨b1, b2⟩ := floor_of_pow_accuracy ht hRo hacc'
  exact abs_of_floor_bounds b1 b2

/-! ### exact-out -/

theorem inBase_ge_one_le_two {Rout amt : Int} (ha : 0 ≤ amt) (h2 : 2 * amt ≤ Rout) (hR : 0 < Rout) :
    1 ≤ inBase Rout amt ∧ inBase Rout amt ≤ 2 := by
  have ha' : (0 : ℝ) ≤ amt := by exact_mod_cast ha
  have h2' : ((2 * amt : Int) : ℝ) ≤ Rout := by exact_mod_cast h2
  have hR' : (0 : ℝ) < Rout := by exact_mod_cast hR
  push_cast at h2'
  have hd : (0 : ℝ) < (Rout : ℝ) - amt := by linarith
  unfold inBase
  constructor
  · rw [le_div_iff₀ hd]; linarith
  · rw [div_le_iff₀ hd]; linarith

/-- CONDITIONAL exact-out accuracy against the exact formula `R_in·(B^E − 1)/(1 − spread)`, `B = R_out/(R_out − a)`,
`E = w_out/w_in`; here every base is ≥ 1 so the perturbation bound is `powDelta 1 M`. -/
theorem swapIn_vs_exact {p : BalPool} {dIn dOut : String} {amt spread t : Int} {aOut aIn : BalAsset}
    {wr y pw q : Int}
    (hc : SwapInCall p dIn dOut amt spread aOut aIn wr y pw q) (ht : t = ⌈dv q⌉)
    (hq : |dv q - (dv pw - 1) * (aIn.amount : ℝ) / (1 - dv spread)| ≤ quoErr)
    {ε M : ℝ} (hacc : |dv pw - dv y ^ dv wr| ≤ ε)
    (hRi : 0 ≤ aIn.amount) (hRo : 0 < aOut.amount) (ha : 0 ≤ amt) (h2 : 2 * amt ≤ aOut.amount)
    (hs1 : spread < P18) (hwi : 0 < aIn.weight) (hwo : 0 < aOut.weight)
    (heM : dv wr ≤ M) (hEM : wRatio aOut.weight aIn.weight ≤ M) :
    |(t : ℝ) - (inBase aOut.amount amt ^ wRatio aOut.weight aIn.weight - 1) * (aIn.amount : ℝ) / (1 - dv spread)| ≤
      (ε + powDelta 1 M) * (aIn.amount : ℝ) / (1 - dv spread) + quoErr + 1 := by
  obtain ⟨_, hy2⟩ := pow_base_dv hc.hpw
  obtain ⟨hB1, hB2⟩ := inBase_ge_one_le_two ha h2 hRo
  have hwr0 : 0 ≤ dv wr := dv_nonneg (Dec_quo_nonneg hc.hwr
    (Int.mul_nonneg (by omega) (Int.le_of_lt P18_pos)) (Int.mul_pos hwi P18_pos))
  have hE0 : 0 ≤ wRatio aOut.weight aIn.weight := by
    unfold wRatio
    have : (0 : ℝ) < aIn.weight := by exact_mod_cast hwi
    have : (0 : ℝ) < aOut.weight := by exact_mod_cast hwo
    positivity
  have hy1 : 1 ≤ dv y := by
    have hb : 0 < toDec aOut.amount - toDec amt := by
      unfold toDec; rw [← Int.sub_mul]; exact Int.mul_pos (by omega) P18_pos
    have := Dec_quo_ge (q := 1) hc.hy hb (by unfold toDec; have := Int.mul_nonneg ha (Int.le_of_lt P18_pos); omega)
    have := dv_le this
    rwa [Int.one_mul, dv_P18] at this
  have hδ := pow_used_vs_exact (β := 1) one_pos le_rfl hy1 hB1 hy2.le hB2 hwr0 hE0 heM hEM
    (inBase_error hc.hy) (wRatio_error hc.hwr)
  have hacc' := accuracy_transfer hacc hδ
  have hs' : dv spread < 1 := by have := dv_lt hs1; rwa [dv_P18] at this
  obtain ⟨b1, b2⟩ := ceil_of_pow_accuracy ht hq hRi hs' hacc'
  have hd : 0 < 1 - dv spread := by linarith
  generalize inBase aOut.amount amt ^ wRatio aOut.weight aIn.weight = X at *
  generalize powDelta 1 M = δ at *
  have e1 : (X - (ε + δ) - 1) * (aIn.amount : ℝ) / (1 - dv spread) =
      (X - 1) * (aIn.amount : ℝ) / (1 - dv spread) - (ε + δ) * (aIn.amount : ℝ) / (1 - dv spread) := by ring
  have e2 : (X + (ε + δ) - 1) * (aIn.amount : ℝ) / (1 - dv spread) =
      (X - 1) * (aIn.amount : ℝ) / (1 - dv spread) + (ε + δ) * (aIn.amount : ℝ) / (1 - dv spread) := by ring
  rw [e1] at b1; rw [e2] at b2
  rw [abs_le]; constructor <;> linarith

/-! ### equal weights: `Pow(y, 1) = y`, nothing conditional is left -/

/-- equal (non-zero) weights: the exponent is exactly one and `Pow` returns its base. -/
theorem equal_weights_pow {w1 w2 wr y pw : Int} (hw : w1 = w2) (hwr : Dec.quo (toDec w1) (toDec w2) = some wr)
    (hpw : pow y wr = some pw) : wr = P18 ∧ pw = y := by
  subst hw
  have h1 := Dec_quo_self hwr
  subst h1
  obtain ⟨h0, h2⟩ := pow_some_domain hpw
  rw [pow_exp_one h0 h2] at hpw
  injection hpw with hpw
  exact ⟨rfl, hpw.symm⟩

theorem rpow_dv_P18 (x : ℝ) : x ^ dv P18 = x := by rw [dv_P18, Real.rpow_one]

/-! ### the weighted product after an exact-in swap -/

/-- real kernel: if the in-reserve ratio is at least `1/B` and the out-reserve ratio at least `X ≥ 0`, then
`rIn^(w_in/W)·rOut^(w_out/W) ≥ (X / B^(w_in/w_out))^(w_out/W)`. -/
theorem weighted_product_lower {rIn rOut B X wi wo W : ℝ} (hB : 0 < B) (hX : 0 ≤ X) (hwi : 0 < wi) (hwo : 0 < wo)
    (hW : 0 < W) (h1 : B⁻¹ ≤ rIn) (h2 : X ≤ rOut) :
    (X / B ^ (wi / wo)) ^ (wo / W) ≤ rIn ^ (wi / W) * rOut ^ (wo / W) := by
  have e1 : (X / B ^ (wi / wo)) ^ (wo / W) = (B⁻¹) ^ (wi / W) * X ^ (wo / W) := by
    rw [Real.div_rpow hX (Real.rpow_nonneg hB.le _), ← Real.rpow_mul hB.le, Real.inv_rpow hB.le]
    have : wi / wo * (wo / W) = wi / W := by field_simp
    rw [this]; ring
  rw [e1]
  have hBi : 0 ≤ B⁻¹ := (inv_pos.mpr hB).le
  apply mul_le_mul
  · exact Real.rpow_le_rpow hBi h1 (by positivity)
  · exact Real.rpow_le_rpow hX h2 (by positivity)
  · exact Real.rpow_nonneg hX _
  · exact Real.rpow_nonneg (le_trans hBi h1) _

/-- the in-reserve ratio of an exact-in swap is at least `1/B` (equality iff the spread factor is zero). -/
theorem inv_outBase_le_ratio {Rin amt spread : Int} (hR : 0 < Rin) (ha : 0 ≤ amt) (hs0 : 0 ≤ spread) :
    (outBase Rin amt spread)⁻¹ ≤ ((Rin + amt : Int) : ℝ) / (Rin : ℝ) := by
  have hR' : (0 : ℝ) < Rin := by exact_mod_cast hR
  have ha' : (0 : ℝ) ≤ amt := by exact_mod_cast ha
  have hs' : 0 ≤ dv spread := dv_nonneg hs0
  unfold outBase
  rw [inv_div]
  push_cast
  apply div_le_div_of_nonneg_right _ hR'.le
  nlinarith

/-- exact-out: the in-reserve ratio is at least `x − ε − quoErr/R_in` (the ceiling and a spread factor ≥ 0 only help). -/
theorem swapIn_reserve_ratio {R t pw q : Int} {x ε sp : ℝ} (ht : t = ⌈dv q⌉)
    (hq : |dv q - (dv pw - 1) * (R : ℝ) / (1 - sp)| ≤ quoErr) (hR : 0 < R) (ht0 : 0 < t) (hs0 : 0 ≤ sp) (hs1 : sp < 1)
    (hacc : |dv pw - x| ≤ ε) :
    x - ε - quoErr / (R : ℝ) ≤ ((R + t : Int) : ℝ) / (R : ℝ) := by
  have hR' : (0 : ℝ) < R := by exact_mod_cast hR
  have ht0' : (0 : ℝ) < t := by exact_mod_cast ht0
  have a1 := (abs_le.mp hacc).1
  have hqp := quoErr_pos
  have hd : 0 < 1 - sp := by linarith
  have key : (R : ℝ) * dv pw - quoErr ≤ ((R + t : Int) : ℝ) := by
    push_cast
    rcases le_total 1 (dv pw) with h1 | h1
    · have f1 := Int.le_ceil (dv q)
      rw [← ht] at f1
      have b1 := (abs_le.mp hq).1
      have h2 : (dv pw - 1) * (R : ℝ) ≤ (dv pw - 1) * (R : ℝ) / (1 - sp) := by
        rw [le_div_iff₀ hd]
        have : 0 ≤ (dv pw - 1) * (R : ℝ) := mul_nonneg (by linarith) hR'.le
        nlinarith
      nlinarith
    · nlinarith
  rw [le_div_iff₀ hR']
  have e : (x - ε - quoErr / (R : ℝ)) * (R : ℝ) = (R : ℝ) * (x - ε) - quoErr := by field_simp
  rw [e]
  nlinarith

theorem inBase_pos {Rout amt : Int} (h : amt < Rout) (hR : 0 < Rout) : 0 < inBase Rout amt := by
  have h' : (amt : ℝ) < Rout := by exact_mod_cast h
  have hR' : (0 : ℝ) < Rout := by exact_mod_cast hR
  unfold inBase
  apply div_pos hR'; linarith

theorem inv_inBase {Rout amt : Int} : (inBase Rout amt)⁻¹ = ((Rout - amt : Int) : ℝ) / (Rout : ℝ) := by
  unfold inBase; rw [inv_div]; push_cast; rfl

end OsmoVerif.GammMath
