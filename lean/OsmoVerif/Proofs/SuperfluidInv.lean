/- C11: the state invariant of Model/Superfluid.lean and its preservation by every primitive. Core only. -/
import OsmoVerif.Proofs.SuperfluidBasic

namespace OsmoVerif.Superfluid
open OsmoVerif.Num

/-- the staking marker of a lock delegated through `k`. -/
def mkB (ub : Int) (k : AccKey) : Synth := { kind := .bonding, key := k, endTime := none, duration := ub }
/-- the unstaking marker created at time `e - ub`. -/
def mkU (ub : Int) (k : AccKey) (e : Int) : Synth := { kind := .unbonding, key := k, endTime := some e, duration := ub }

/-- per lock id: the lock, its synthetic locks and its connection agree — a lock is either plain, or
delegated (exactly one staking marker, a connection to the same account, not unlocking, long enough), or
undelegating (exactly one unstaking marker that ends no later than the lock itself can end). -/
def LockOK (ub now : Int) (lk : Option Lock) (sy : List Synth) (cn : Option AccKey) : Prop :=
  match lk with
  | none => sy = [] ∧ cn = none
  | some l => 0 < l.amount ∧
      ((sy = [] ∧ cn = none) ∨
       (∃ k, sy = [mkB ub k] ∧ cn = some k ∧ l.single = true ∧ ub ≤ l.duration ∧ k.1 = l.denom ∧ l.endTime = none) ∨
       (∃ k e, sy = [mkU ub k e] ∧ cn = none ∧ l.single = true ∧ ub ≤ l.duration ∧ e ≤ now + ub ∧
          ∀ le, l.endTime = some le → e ≤ le))

structure Inv (s : State) : Prop where
  rf0 : 0 ≤ s.riskFactor
  rf1 : s.riskFactor ≤ P18
  ub0 : 0 ≤ s.unbondingTime
  mult0 : ∀ d, 0 ≤ s.mult d
  bound : ∀ id, (id = 0 ∨ s.lastLockId < id) → s.locks id = none
  lockOK : ∀ id, LockOK s.unbondingTime s.now (s.locks id) (s.synths id) (s.conns id)
  connAcc : ∀ id k, s.conns id = some k → k.2 ∈ s.validators ∧ (findAcc s.accs k).isSome = true
  accumEq : ∀ k, accFrom (s.accum (.bonding, k)) s.unbondingTime = sumConn s k s.lastLockId

theorem LockOK.mono {ub now now' : Int} {lk sy cn} (h : LockOK ub now lk sy cn) (hn : now ≤ now') :
    LockOK ub now' lk sy cn := by
  unfold LockOK at *
  split
  · simpa using h
  · simp only at h
    refine ⟨h.1, ?_⟩
    rcases h.2 with h1 | h2 | ⟨k, e, h3, h4, h5, h6, h7, h8⟩
    · exact Or.inl h1
    · exact Or.inr (Or.inl h2)
    · exact Or.inr (Or.inr ⟨k, e, h3, h4, h5, h6, by omega, h8⟩)

/-- a lock that exists has an id in `1..lastLockId`. -/
theorem Inv.id_range {s : State} (h : Inv s) {id : Nat} {l : Lock} (hl : s.locks id = some l) :
    1 ≤ id ∧ id ≤ s.lastLockId := by
  have := h.bound id
  constructor
  · rcases Nat.eq_zero_or_pos id with h0 | h0
    · rw [this (Or.inl h0)] at hl; cases hl
    · exact h0
  · rcases Nat.lt_or_ge s.lastLockId id with h0 | h0
    · rw [this (Or.inr h0)] at hl; cases hl
    · exact h0

theorem Inv.conn_lock {s : State} (h : Inv s) {id : Nat} {k : AccKey} (hc : s.conns id = some k) :
    ∃ l, s.locks id = some l ∧ s.synths id = [mkB s.unbondingTime k] ∧ l.single = true ∧
      s.unbondingTime ≤ l.duration ∧ k.1 = l.denom ∧ l.endTime = none ∧ 0 < l.amount := by
  have := h.lockOK id
  unfold LockOK at this
  split at this
  · rw [hc] at this; cases this.2
  · rename_i l hl
    refine ⟨l, hl, ?_⟩
    rcases this.2 with h1 | ⟨k', h2, h3, h4, h5, h6, h7⟩ | ⟨k', e, _, h3, _⟩
    · rw [hc] at h1; cases h1.2
    · rw [hc] at h3; injection h3 with h3; subst h3
      exact ⟨h2, h4, h5, h6, h7, this.1⟩
    · rw [hc] at h3; cases h3

theorem Inv.nosynth_noconn {s : State} (h : Inv s) {id : Nat} (hs : s.synths id = []) : s.conns id = none := by
  have := h.lockOK id
  unfold LockOK at this
  split at this
  · exact this.2
  · rcases this.2 with h1 | ⟨k', h2, _⟩ | ⟨k', e, h2, _⟩
    · exact h1.2
    · rw [hs] at h2; cases h2
    · rw [hs] at h2; cases h2

/-- the invariant does not mention the staking ledger, the bank supply or its offset. -/
theorem Inv.ledger_frame {s : State} (h : Inv s) (d : AccKey → Option Int) (a b : Int) :
    Inv { s with deleg := d, supply := a, offset := b } :=
  ⟨h.rf0, h.rf1, h.ub0, h.mult0, h.bound, h.lockOK, h.connAcc, h.accumEq⟩

theorem connAmt_of_noconn {s : State} {k : AccKey} {id : Nat} (h : s.conns id = none) : connAmt s k id = 0 := by
  unfold connAmt; rw [h]

theorem connAmt_nonneg {s : State} (h : Inv s) (k : AccKey) (id : Nat) : 0 ≤ connAmt s k id := by
  unfold connAmt
  split
  · rename_i k' l hc hl
    obtain ⟨l', hl', _, _, _, _, _, hp⟩ := h.conn_lock hc
    rw [hl] at hl'; injection hl' with hl'; subst hl'
    split <;> omega
  · omega

theorem sumTo_nonneg {f : Nat → Int} (h : ∀ i, 0 ≤ f i) : ∀ n, 0 ≤ sumTo f n
  | 0 => by simp [sumTo]
  | n + 1 => by unfold sumTo; have := sumTo_nonneg h n; have := h (n + 1); omega

theorem sumConn_nonneg {s : State} (h : Inv s) (k : AccKey) (n : Nat) : 0 ≤ sumConn s k n :=
  sumTo_nonneg (connAmt_nonneg h k) n

/-! ## lockup primitives -/

theorem inv_createLock {s s' : State} {o d : Nat} {a du : Int} {sg : Bool} {id : Nat} (h : Inv s)
    (hc : createLock s o d a du sg = .ok (s', id)) : Inv s' := by
  unfold createLock at hc
  split at hc
  · cases hc
  · rename_i ha
    injection hc with hc
    injection hc with hc _
    subst hc
    have hnone : s.locks (s.lastLockId + 1) = none := h.bound _ (Or.inr (by omega))
    have hok := h.lockOK (s.lastLockId + 1)
    rw [hnone] at hok
    simp only [LockOK] at hok
    refine ⟨h.rf0, h.rf1, h.ub0, h.mult0, ?_, ?_, h.connAcc, ?_⟩
    · intro id hid
      dsimp only at hid ⊢
      simp only [upd]
      rw [if_neg (by omega)]
      exact h.bound id (by omega)
    · intro id
      dsimp only
      simp only [upd]
      by_cases e : id = s.lastLockId + 1
      · subst e
        simp only [if_true, LockOK]
        exact ⟨by omega, Or.inl hok⟩
      · rw [if_neg e]; exact h.lockOK id
    · intro k
      have h1 : connAmt { s with locks := upd s.locks (s.lastLockId + 1) (some ⟨o, d, a, sg, du, none⟩), lastLockId := s.lastLockId + 1 } k (s.lastLockId + 1) = 0 :=
        connAmt_of_noconn hok.2
      have h2 : sumTo (connAmt { s with locks := upd s.locks (s.lastLockId + 1) (some ⟨o, d, a, sg, du, none⟩), lastLockId := s.lastLockId + 1 } k) s.lastLockId
          = sumTo (connAmt s k) s.lastLockId := by
        apply sumTo_congr
        intro i _ hi
        unfold connAmt
        dsimp only
        simp only [upd]
        rw [if_neg (by omega)]
      show accFrom (s.accum (.bonding, k)) s.unbondingTime = sumTo _ (s.lastLockId + 1)
      unfold sumTo
      rw [h1, h2, h.accumEq k]
      simp [sumConn]

theorem sumConn_congr {s s' : State} {k : AccKey} {n : Nat}
    (h : ∀ i, 1 ≤ i → i ≤ n → connAmt s' k i = connAmt s k i) : sumConn s' k n = sumConn s k n :=
  sumTo_congr n h

theorem sumConn_update {s s' : State} {k : AccKey} {n : Nat} (id : Nat) (h1 : 1 ≤ id) (h2 : id ≤ n)
    (h : ∀ i, i ≠ id → connAmt s' k i = connAmt s k i) :
    sumConn s' k n = sumConn s k n - connAmt s k id + connAmt s' k id :=
  sumTo_update id h1 n h2 (fun i hi => (h i hi).symm)

/-- `beginUnlock` on a lock that is not delegated. -/
theorem inv_beginUnlock {s s' : State} {id nid : Nat} {coins : Option Int} (h : Inv s) (hnc : s.conns id = none)
    (hc : beginUnlock s id coins = .ok (s', nid)) : Inv s' := by
  obtain ⟨l, hl, hend, hcase⟩ := beginUnlock_ok hc
  have hrange := h.id_range hl
  have hok := h.lockOK id
  rw [hl, hnc] at hok
  simp only [LockOK] at hok
  rcases hcase with ⟨_, _, hs'⟩ | ⟨a, _, ha0, hal, hsg, _, hs'⟩
  · subst hs'
    refine ⟨h.rf0, h.rf1, h.ub0, h.mult0, ?_, ?_, h.connAcc, ?_⟩
    · intro i hi
      dsimp only at hi ⊢
      simp only [upd]
      rw [if_neg (by omega)]
      exact h.bound i hi
    · intro i
      dsimp only
      simp only [upd]
      by_cases e : i = id
      · subst e
        rw [if_pos rfl, hnc]
        simp only [LockOK]
        refine ⟨hok.1, ?_⟩
        rcases hok.2 with h1 | ⟨k, _, h3, _⟩ | ⟨k, e, h2, h3, h4, h5, h6, h7⟩
        · exact Or.inl h1
        · cases h3
        · refine Or.inr (Or.inr ⟨k, e, h2, h3, h4, h5, h6, ?_⟩)
          intro le hle
          injection hle with hle
          omega
      · rw [if_neg e]; exact h.lockOK i
    · intro k
      rw [h.accumEq k]
      symm
      apply sumConn_congr
      intro i _ _
      unfold connAmt
      dsimp only
      simp only [upd]
      by_cases e : i = id
      · subst e; rw [hnc]
      · rw [if_neg e]
  · subst hs'
    have hnone : s.locks (s.lastLockId + 1) = none := h.bound _ (Or.inr (by omega))
    have hok2 := h.lockOK (s.lastLockId + 1)
    rw [hnone] at hok2
    simp only [LockOK] at hok2
    refine ⟨h.rf0, h.rf1, h.ub0, h.mult0, ?_, ?_, h.connAcc, ?_⟩
    · intro i hi
      dsimp only at hi ⊢
      simp only [upd]
      rw [if_neg (by omega), if_neg (by omega)]
      exact h.bound i (by omega)
    · intro i
      dsimp only
      simp only [upd]
      by_cases e2 : i = s.lastLockId + 1
      · subst e2
        rw [if_pos rfl, hok2.1, hok2.2]
        simp only [LockOK]
        exact ⟨ha0, Or.inl (by simp)⟩
      · rw [if_neg e2]
        by_cases e : i = id
        · subst e
          rw [if_pos rfl, hnc]
          simp only [LockOK]
          refine ⟨by omega, ?_⟩
          rcases hok.2 with h1 | ⟨k, _, h3, _⟩ | ⟨k, e, h2, h3, h4, h5, h6, h7⟩
          · exact Or.inl h1
          · cases h3
          · exact Or.inr (Or.inr ⟨k, e, h2, h3, h4, h5, h6, h7⟩)
        · rw [if_neg e]; exact h.lockOK i
    · intro k
      have h1 : connAmt { s with
          locks := upd (upd s.locks id (some { l with amount := l.amount - a })) (s.lastLockId + 1)
                    (some { l with amount := a, endTime := some (s.now + l.duration) }),
          lastLockId := s.lastLockId + 1 } k (s.lastLockId + 1) = 0 := connAmt_of_noconn hok2.2
      show accFrom (s.accum (.bonding, k)) s.unbondingTime = sumTo _ (s.lastLockId + 1)
      unfold sumTo
      rw [h1, h.accumEq k]
      have : sumTo (connAmt { s with
          locks := upd (upd s.locks id (some { l with amount := l.amount - a })) (s.lastLockId + 1)
                    (some { l with amount := a, endTime := some (s.now + l.duration) }),
          lastLockId := s.lastLockId + 1 } k) s.lastLockId = sumTo (connAmt s k) s.lastLockId := by
        apply sumTo_congr
        intro i _ hi
        unfold connAmt
        dsimp only
        simp only [upd]
        rw [if_neg (by omega)]
        by_cases e : i = id
        · subst e; rw [hnc]
        · rw [if_neg e]
      rw [this]
      simp [sumConn]

/-- `UnlockMaturedLock` of a lock without synthetic lock. -/
theorem inv_unlockMatured {s s' : State} {id : Nat} (h : Inv s) (hs : s.synths id = [])
    (hc : unlockMatured s id = .ok s') : Inv s' := by
  obtain ⟨l, e, hl, _, _, hs'⟩ := unlockMatured_ok hc
  subst hs'
  have hnc := h.nosynth_noconn hs
  refine ⟨h.rf0, h.rf1, h.ub0, h.mult0, ?_, ?_, h.connAcc, ?_⟩
  · intro i hi
    dsimp only at hi ⊢
    simp only [upd]
    by_cases e : i = id
    · rw [if_pos e]
    · rw [if_neg e]; exact h.bound i hi
  · intro i
    dsimp only
    simp only [upd]
    by_cases e : i = id
    · subst e
      rw [if_pos rfl, hs, hnc]
      simp [LockOK]
    · rw [if_neg e]; exact h.lockOK i
  · intro k
    rw [h.accumEq k]
    symm
    apply sumConn_congr
    intro i _ _
    unfold connAmt
    dsimp only
    simp only [upd]
    by_cases e : i = id
    · subst e; rw [hnc]
    · rw [if_neg e]

/-- time passes. -/
theorem inv_advance {s s' : State} {dt : Int} (h : Inv s) (hc : advance s dt = .ok s') : Inv s' := by
  unfold advance at hc
  split at hc
  · cases hc
  · injection hc with hc
    subst hc
    exact ⟨h.rf0, h.rf1, h.ub0, h.mult0, h.bound, fun i => (h.lockOK i).mono (by dsimp only; omega), h.connAcc, h.accumEq⟩

/-! ## intermediary accounts -/

theorem findAcc_append (accs : List (AccKey × Nat)) (k k' : AccKey) (g : Nat) :
    findAcc (accs ++ [(k', g)]) k =
      match findAcc accs k with
      | some x => some x
      | none => if k' = k then some g else none := by
  induction accs with
  | nil => simp [findAcc]
  | cons x r ih =>
    obtain ⟨k'', g''⟩ := x
    simp only [List.cons_append, findAcc]
    by_cases e : k'' = k
    · simp [e]
    · simp only [e, if_false]; exact ih

theorem getOrCreateAcc_findAcc (s : State) (key : AccKey) :
    (findAcc (getOrCreateAcc s key).accs key).isSome = true := by
  unfold getOrCreateAcc
  split
  · rename_i g hg; rw [hg]; rfl
  · rename_i hg
    dsimp only
    rw [findAcc_append, hg]
    simp

theorem getOrCreateAcc_mono (s : State) (key k : AccKey) (h : (findAcc s.accs k).isSome = true) :
    (findAcc (getOrCreateAcc s key).accs k).isSome = true := by
  unfold getOrCreateAcc
  split
  · exact h
  · dsimp only
    rw [findAcc_append]
    cases hk : findAcc s.accs k with
    | none => rw [hk] at h; cases h
    | some x => rfl

theorem inv_getOrCreateAcc {s : State} (h : Inv s) (key : AccKey) : Inv (getOrCreateAcc s key) := by
  refine ⟨?_, ?_, ?_, ?_, ?_, ?_, ?_, ?_⟩
  all_goals (unfold getOrCreateAcc; split)
  all_goals first
    | exact h.rf0 | exact h.rf1 | exact h.ub0 | exact h.mult0 | exact h.bound | exact h.lockOK
    | exact h.connAcc | exact h.accumEq | skip
  intro id k hc
  rename_i hg
  have := h.connAcc id k hc
  refine ⟨this.1, ?_⟩
  have hm := getOrCreateAcc_mono s key k this.2
  unfold getOrCreateAcc at hm
  rw [hg] at hm
  exact hm

/-! ## superfluid primitives -/

/-- connecting a plain lock to `key` and creating its staking marker (`SuperfluidDelegate` up to the mint). -/
theorem inv_connectBonding {s s3 : State} {id : Nat} {l : Lock} {val : Nat} (h : Inv s)
    (hl : s.locks id = some l) (hend : l.endTime = none) (hdur : s.unbondingTime ≤ l.duration)
    (hval : val ∈ s.validators)
    (hc : createSynth { getOrCreateAcc s (l.denom, val) with
            conns := upd (getOrCreateAcc s (l.denom, val)).conns id (some (l.denom, val)) } id .bonding (l.denom, val) = .ok s3) :
    Inv s3 := by
  have hg := inv_getOrCreateAcc h (l.denom, val)
  have hfa := getOrCreateAcc_findAcc s (l.denom, val)
  -- the fields of `getOrCreateAcc s key` other than accs / lastGauge are those of `s`
  have hfields : (getOrCreateAcc s (l.denom, val)).locks = s.locks ∧ (getOrCreateAcc s (l.denom, val)).synths = s.synths ∧
      (getOrCreateAcc s (l.denom, val)).conns = s.conns ∧ (getOrCreateAcc s (l.denom, val)).accum = s.accum ∧
      (getOrCreateAcc s (l.denom, val)).unbondingTime = s.unbondingTime ∧ (getOrCreateAcc s (l.denom, val)).now = s.now ∧
      (getOrCreateAcc s (l.denom, val)).lastLockId = s.lastLockId ∧ (getOrCreateAcc s (l.denom, val)).validators = s.validators := by
    unfold getOrCreateAcc; split <;> simp
  generalize getOrCreateAcc s (l.denom, val) = g at hc hg hfa hfields
  obtain ⟨f1, f2, f3, f4, f5, f6, f7, f8⟩ := hfields
  obtain ⟨hsy, l', hl', hsg, _, hs3⟩ := createSynth_ok hc
  dsimp only at hsy hl'
  rw [f1, hl] at hl'
  injection hl' with hl'
  subst hl'
  rw [f2] at hsy
  have hnc := h.nosynth_noconn hsy
  have hrange := h.id_range hl
  have hpos : 0 < l.amount := by
    have := h.lockOK id; rw [hl] at this; simp only [LockOK] at this; exact this.1
  subst hs3
  refine ⟨hg.rf0, hg.rf1, hg.ub0, hg.mult0, hg.bound, ?_, ?_, ?_⟩
  · intro i
    dsimp only
    simp only [upd]
    by_cases e : i = id
    · subst e
      rw [if_pos rfl, if_pos rfl, f1, hl]
      simp only [LockOK]
      refine ⟨hpos, Or.inr (Or.inl ⟨(l.denom, val), ?_, rfl, hsg, by rw [f5]; exact hdur, rfl, hend⟩)⟩
      simp [mkB]
    · rw [if_neg e, if_neg e]; exact hg.lockOK i
  · intro i k hik
    dsimp only at hik ⊢
    simp only [upd] at hik
    by_cases e : i = id
    · subst e
      rw [if_pos rfl] at hik
      injection hik with hik
      subst hik
      exact ⟨by rw [f8]; exact hval, hfa⟩
    · rw [if_neg e] at hik
      exact hg.connAcc i k hik
  · intro k
    dsimp only
    by_cases ek : k = (l.denom, val)
    · subst ek
      simp only [updK, if_true]
      rw [accFrom_accAdd, if_pos (Int.le_refl _), hg.accumEq]
      refine Eq.trans ?_ (sumConn_update (s := g) id hrange.1 (by rw [f7]; exact hrange.2) ?_).symm
      · have c0 : connAmt g (l.denom, val) id = 0 := connAmt_of_noconn (by rw [f3]; exact hnc)
        rw [c0]
        unfold connAmt
        dsimp only
        simp only [upd, if_true]
        rw [f1, hl]
        simp
      · intro i hi
        unfold connAmt
        dsimp only
        simp only [upd]
        rw [if_neg hi]
    · have : ((SKind.bonding, k) = (SKind.bonding, (l.denom, val))) = False := by
        simp only [eq_iff_iff, iff_false]; intro hh; injection hh with _ hh; exact ek hh
      simp only [updK, this, if_false]
      rw [hg.accumEq]
      symm
      apply sumConn_congr
      intro i _ _
      unfold connAmt
      dsimp only
      simp only [upd]
      by_cases e : i = id
      · subst e
        rw [if_pos rfl, f3, hnc, f1, hl]
        dsimp only
        rw [if_neg (fun hh => ek hh.symm)]
      · rw [if_neg e]

theorem bkey_ne {k k' : AccKey} (h : k ≠ k') : ((SKind.bonding, k) = (SKind.bonding, k')) = False := by
  simp only [eq_iff_iff, iff_false]; intro hh; injection hh with _ hh; exact h hh

theorem ukey_ne (k k' : AccKey) : ((SKind.bonding, k) = (SKind.unbonding, k')) = False := by
  simp only [eq_iff_iff, iff_false]; intro hh; injection hh with hh _; cases hh

/-- removing the connection of a delegated lock and its staking marker (`undelegateCommon` up to the burn). -/
theorem inv_disconnectBonding {s s2 : State} {id : Nat} {l : Lock} {key : AccKey} (h : Inv s)
    (hl : s.locks id = some l) (hcn : s.conns id = some key)
    (hc : deleteSynth { s with conns := upd s.conns id none } id .bonding (l.denom, key.2) = .ok s2) :
    Inv s2 := by
  obtain ⟨l', hl', hsy, hsg, hdur, hden, hend, hpos⟩ := h.conn_lock hcn
  rw [hl] at hl'; injection hl' with hl'; subst hl'
  have hrange := h.id_range hl
  have hkey : (l.denom, key.2) = key := by rw [← hden]
  rw [hkey] at hc
  obtain ⟨_, l', hl', _, hs2⟩ := deleteSynth_ok hc
  dsimp only at hl' hs2
  rw [hl] at hl'; injection hl' with hl'; subst hl'
  subst hs2
  refine ⟨h.rf0, h.rf1, h.ub0, h.mult0, h.bound, ?_, ?_, ?_⟩
  · intro i
    dsimp only
    simp only [upd]
    by_cases e : i = id
    · subst e
      rw [if_pos rfl, if_pos rfl, hl, hsy]
      simp only [LockOK]
      refine ⟨hpos, Or.inl ⟨?_, trivial⟩⟩
      simp [synthMatch, mkB]
    · rw [if_neg e, if_neg e]; exact h.lockOK i
  · intro i k hik
    dsimp only at hik ⊢
    simp only [upd] at hik
    by_cases e : i = id
    · subst e; rw [if_pos rfl] at hik; cases hik
    · rw [if_neg e] at hik; exact h.connAcc i k hik
  · intro k
    dsimp only
    by_cases ek : k = key
    · subst ek
      simp only [updK, if_true]
      rw [accFrom_accAdd, if_pos hdur, h.accumEq]
      refine Eq.trans ?_ (sumConn_update (s := s) id hrange.1 hrange.2 ?_).symm
      · have c1 : connAmt s k id = l.amount := by
          unfold connAmt; rw [hcn, hl]; simp
        rw [c1]
        unfold connAmt
        dsimp only
        simp only [upd, if_true]
        omega
      · intro i hi
        unfold connAmt
        dsimp only
        simp only [upd]
        rw [if_neg hi]
    · simp only [updK, bkey_ne ek, if_false]
      rw [h.accumEq]
      symm
      apply sumConn_congr
      intro i _ _
      unfold connAmt
      dsimp only
      simp only [upd]
      by_cases e : i = id
      · subst e
        rw [if_pos rfl, hcn, hl]
        dsimp only
        rw [if_neg (fun hh => ek hh.symm)]
      · rw [if_neg e]

/-- creating the unstaking marker on a lock without marker whose end (if it is already unlocking) is not
earlier than the marker's. -/
theorem inv_createUnbonding {s s' : State} {id : Nat} {key : AccKey} (h : Inv s)
    (hle : ∀ l le, s.locks id = some l → l.endTime = some le → s.now + s.unbondingTime ≤ le)
    (hc : createSynth s id .unbonding key = .ok s') : Inv s' := by
  obtain ⟨hsy, l, hl, hsg, hdur, hs'⟩ := createSynth_ok hc
  have hnc := h.nosynth_noconn hsy
  have hpos : 0 < l.amount := by
    have := h.lockOK id; rw [hl] at this; simp only [LockOK] at this; exact this.1
  subst hs'
  refine ⟨h.rf0, h.rf1, h.ub0, h.mult0, h.bound, ?_, h.connAcc, ?_⟩
  · intro i
    dsimp only
    simp only [upd]
    by_cases e : i = id
    · subst e
      rw [if_pos rfl, hl, hnc]
      simp only [LockOK]
      refine ⟨hpos, Or.inr (Or.inr ⟨key, s.now + s.unbondingTime, ?_, trivial, hsg, hdur rfl, Int.le_refl _, fun le h2 => hle l le hl h2⟩)⟩
      simp [mkU]
    · rw [if_neg e]; exact h.lockOK i
  · intro k
    dsimp only
    simp only [updK, ukey_ne, if_false]
    exact h.accumEq k

/-- deleting an unstaking marker. -/
theorem inv_deleteUnbonding {s s' : State} {id : Nat} {key : AccKey} (h : Inv s)
    (hc : deleteSynth s id .unbonding key = .ok s') : Inv s' := by
  obtain ⟨⟨sy, hfind⟩, l, hl, _, hs'⟩ := deleteSynth_ok hc
  have hok := h.lockOK id
  rw [hl] at hok
  simp only [LockOK] at hok
  have hmem := List.mem_of_find?_eq_some hfind
  have hmatch := List.find?_some hfind
  subst hs'
  refine ⟨h.rf0, h.rf1, h.ub0, h.mult0, h.bound, ?_, h.connAcc, ?_⟩
  · intro i
    dsimp only
    simp only [upd]
    by_cases e : i = id
    · subst e
      rw [if_pos rfl, hl]
      simp only [LockOK]
      refine ⟨hok.1, Or.inl ?_⟩
      rcases hok.2 with h1 | ⟨k, h2, _⟩ | ⟨k, e, h2, h3, _⟩
      · rw [h1.1] at hmem; cases hmem
      · rw [h2] at hmem
        simp only [List.mem_singleton] at hmem
        subst hmem
        simp [synthMatch, mkB] at hmatch
      · rw [h2] at hmem ⊢
        simp only [List.mem_singleton] at hmem
        subst hmem
        refine ⟨?_, h3⟩
        simp only [synthMatch, mkU, decide_eq_true_eq] at hmatch
        simp [synthMatch, mkU, hmatch.2]
    · rw [if_neg e]; exact h.lockOK i
  · intro k
    dsimp only
    simp only [updK, ukey_ne, if_false]
    exact h.accumEq k

end OsmoVerif.Superfluid
