/-
C08 (incentives, histories) helpers, part 6: `WithdrawPosition` on the incentive side — the pipeline
sync → claim → pay → settle the record → re-deposit the forfeited part → drop the trackers of removed ticks, per accumulator
index, and the preservation of the invariant.  Core only.
-/
import OsmoVerif.Proofs.CLIncHist5

namespace OsmoVerif.CLIncP
open OsmoVerif.Num OsmoVerif.CL OsmoVerif.CLPool OsmoVerif.CLFees OsmoVerif.CLInc OsmoVerif.CLFeesP OsmoVerif.CLBook
open OsmoVerif.Accum (amt sorted hev)

/-! ## claimed coins are non-negative -/

theorem coinsAdd_nonneg : ∀ (tc : Coins) (d : String) (t : Int) (r : Coins), (∀ c ∈ tc, 0 ≤ c.2) → 0 ≤ t →
    Accum.coinsAdd tc d t = some r → ∀ c ∈ r, 0 ≤ c.2 := by
  intro tc
  induction tc with
  | nil =>
    intro d t r _ ht h c hc
    simp only [Accum.coinsAdd, Option.some.injEq] at h; subst h
    simp only [List.mem_singleton] at hc; subst hc; exact ht
  | cons x rest ih =>
    obtain ⟨e, y⟩ := x
    intro d t r hall ht h c hc
    have hy : 0 ≤ y := hall (e, y) List.mem_cons_self
    have hrest : ∀ c ∈ rest, 0 ≤ c.2 := fun c hc => hall c (List.mem_cons_of_mem _ hc)
    unfold Accum.coinsAdd at h
    split at h
    · injection h with h; subst h
      rcases List.mem_cons.mp hc with rfl | hc
      · exact ht
      · exact hall c hc
    · split at h
      · unfold chkInt at h
        split at h
        · simp only [Option.map_some, Option.some.injEq] at h; subst h
          rcases List.mem_cons.mp hc with rfl | hc
          · simp only; omega
          · exact hrest c hc
        · cases h
      · simp only [Option.map_eq_some_iff] at h
        obtain ⟨r', hr', e'⟩ := h
        subst e'
        rcases List.mem_cons.mp hc with rfl | hc
        · exact hy
        · exact ih d t r' hrest ht hr' c hc

theorem truncGo_nonneg : ∀ (cs : DC) (tc : Coins) (cc : DC) (tc' : Coins) (cc' : DC),
    Accum.truncGo tc cc cs = some (tc', cc') → (∀ c ∈ tc, 0 ≤ c.2) → ∀ c ∈ tc', 0 ≤ c.2 := by
  intro cs
  induction cs with
  | nil =>
    intro tc cc tc' cc' h hall
    simp only [Accum.truncGo, Option.some.injEq, Prod.mk.injEq] at h
    rw [← h.1]; exact hall
  | cons x t ih =>
    obtain ⟨e, y⟩ := x
    intro tc cc tc' cc' h hall
    unfold Accum.truncGo at h
    split at h
    · cases h
    · next q hq =>
      split at h
      · cases h
      · next ch hch =>
        split at h
        · cases h
        · next hnn =>
          split at h
          · cases h
          · next tcn htc =>
            split at h
            · cases h
            · next ccn hcc =>
              refine ih _ _ _ _ h ?_
              split at htc
              · injection htc with htc; subst htc; exact hall
              · exact coinsAdd_nonneg tc e q tcn hall (by omega) htc

theorem claimOne_coins_nonneg {a a' : UAcc} {id : Nat} {o : DC} {coins : Coins} (h : claimOne a id o = some (a', coins)) :
    ∀ c ∈ coins, 0 ≤ c.2 := by
  cases hr : getURec a.recs id with
  | none => rw [(claimOne_none hr h).2]; intro c hc; cases hc
  | some r =>
    obtain ⟨_, total, dust, _, _, htr, _⟩ := claimOne_some hr h
    exact truncGo_nonneg total [] [] coins dust htr (fun c hc => by cases hc)

/-! ## the withdrawal pipeline -/

/-- what the withdrawal does to accumulator `k` (see the file header). `X` = growth inside the position's range after sync. -/
structure WChain (s s' : Full) (i1 : Inc) (pos : Position) (req joinT : Int) (byUp : List Coins) (k : Nat) : Prop where
  ex : ∃ (a0 a1 a4 : UAcc) (r : URec) (total ins rew : DC) (scaled down : Coins) (up : Int),
    s.inc.accs[k]? = some a0 ∧ i1.accs[k]? = some a1 ∧ Grew a0 a1 ∧ s'.inc.accs[k]? = some a4 ∧
    getURec a0.recs pos.id = some r ∧ r.shares = pos.liq ∧ uptimesNs[k]? = some up ∧
    (∀ d, amt total d = amt r.unclaimed d + hev r.shares (insU i1 s.fees.pool.tick k d pos.lower pos.upper - amt r.snap d) ∧
      0 ≤ insU i1 s.fees.pool.tick k d pos.lower pos.upper - amt r.snap d ∧ amt scaled d = (amt total d).tdiv P18 ∧ 0 ≤ amt total d) ∧
    scaleDownCoins i1.factor scaled = some down ∧ (∀ c ∈ scaled, 0 ≤ c.2) ∧
    byUp[k]? = some (if i1.now - joinT < up then scaled else []) ∧
    getURec a4.recs pos.id = some ⟨pos.id, pos.liq - req, ins, rew⟩ ∧ sorted ins = true ∧ sorted rew = true ∧
    (∀ d, amt ins d = insU i1 s.fees.pool.tick k d pos.lower pos.upper ∧ amt rew d = 0) ∧
    (∀ x, x ≠ pos.id → getURec a4.recs x = getURec a0.recs x) ∧ a4.total = a0.total - req ∧
    (sorted a4.value = true) ∧
    (∀ d, amt a1.value d ≤ amt a4.value d ∧
      (amt a4.value d - amt a1.value d) * s'.fees.pool.liquidity ≤
        amt (if i1.now - joinT < up then scaled else []) d * (P18 * P18)) ∧
    (s'.fees.pool.liquidity < P18 → a4.value = a1.value)

theorem withdrawI_part {s s' : Full} {owner : String} {id : Nat} {req o0 o1 : Int}
    (hf : FullInv s.fees) (hf' : FullInv s'.fees) (hp : IncPart s.fees s.inc)
    (h : CLInc.withdrawPosition s owner id req = some (s', o0, o1)) :
    ∃ (pos : Position) (i1 i2 : Inc) (coll forf : Coins) (byUp : List Coins) (b : Coins) (i3 i4 : Inc) (joinT : Int),
      pos ∈ s.fees.pool.positions ∧ pos.id = id ∧ 0 ≤ req ∧ req ≤ pos.liq ∧
      sync s.inc s.fees.pool.liquidity = some i1 ∧
      claimAll i1 s.fees.pool.tick pos.lower pos.upper id = some (i2, coll, forf, byUp) ∧
      (i1.join.find? (·.1 = id)).map (·.2) = some joinT ∧ 0 ≤ i1.now - joinT ∧
      claimLoop i1.factor (i1.now - joinT) id i1.accs ((outsideAll i1 s.fees.pool.tick pos.lower pos.upper).getD []) uptimesNs =
        some (i2.accs, coll, forf, byUp) ∧
      coinsSubAll i1.bal coll = some b ∧
      redeposit i3 s'.fees.pool.liquidity forf byUp = some i4 ∧ i3.bal = b ∧
      s'.inc = { i4 with trackers := syncTrackers i1.trackers s'.fees.pool.ticks } ∧
      i4.records = i1.records ∧ i4.now = i1.now ∧ i4.factor = i1.factor ∧ i4.join = i1.join ∧ i4.last = i1.last ∧
      (s'.fees.pool.positions ≠ [] → s'.fees.pool.tick = s.fees.pool.tick) ∧
      IncPart s'.fees s'.inc ∧
      ∀ k, k < 6 → WChain s s' i1 pos req joinT byUp k := by
  have hfee := withdrawI_fees h
  obtain ⟨sf, _, pos0, r0, rew0, hmem0, hid0, _, _, _, hreq0, hreq1, _, hcaseF⟩ := withdraw_facts hf.pool.core hf.acc hfee
  have ets : s'.fees.acc.totalShares = s.fees.acc.totalShares - req := by
    rcases hcaseF with ⟨_, _, _, _, _, e⟩ | ⟨_, _, _, _, e, _⟩ <;> exact e
  unfold CLInc.withdrawPosition at h
  simp only [Option.bind_eq_some_iff, Option.map_eq_some_iff, Prod.mk.injEq] at h
  obtain ⟨pos, hfind, ⟨f', w0, w1⟩, hfe, i1, hsync, ⟨i2, coll, forf, byUp⟩, hclaim, b, hb, i3, hupd, i4, hred, e1, e2, e3⟩ := h
  simp only at hb hupd hred e1 e2 e3
  subst e1
  obtain ⟨hmem, hid⟩ := find_id hfind
  have hposeq : pos0 = pos := mem_eq_of_id hf.pool.core.pos.uniq hmem0 hmem (by rw [hid0, hid])
  subst hposeq
  obtain ⟨_, _, epos, enext, etick⟩ := withdraw_positions hfind (by
    obtain ⟨_, _, _, hw, _⟩ := withdraw_spec hfe; exact hw)
  simp only at ets hf' epos enext etick ⊢
  have hlu := hf.pool.core.pos.range pos0 hmem
  have hliqpos := hf.pool.core.pos.liqPos pos0 hmem
  obtain ⟨hp1, t1, n1, fa1, j1, b1, _, g1, _, _, _⟩ := sync_part hp hsync
  have hs1 := hp1.sortedInc
  obtain ⟨sl, su⟩ := hp1.stored pos0 hmem
  obtain ⟨tl, htl⟩ := Option.isSome_iff_exists.mp sl
  obtain ⟨tu, htu⟩ := Option.isSome_iff_exists.mp su
  obtain ⟨e2c, l2, joinT, hj, hage, hloop, g2⟩ := claimAll_stage hlu hs1 htl htu hclaim
  -- stage 2, per index
  have st2 : ∀ k, k < 6 → ∃ (a0 a1 a2 : UAcc) (r : URec) (total ins : DC) (scaled down : Coins) (up : Int),
      s.inc.accs[k]? = some a0 ∧ i1.accs[k]? = some a1 ∧ Grew a0 a1 ∧ i2.accs[k]? = some a2 ∧
      getURec a0.recs id = some r ∧ r.shares = pos0.liq ∧ uptimesNs[k]? = some up ∧
      (∀ d, amt total d = amt r.unclaimed d + hev r.shares (insU i1 s.fees.pool.tick k d pos0.lower pos0.upper - amt r.snap d) ∧
        0 ≤ insU i1 s.fees.pool.tick k d pos0.lower pos0.upper - amt r.snap d ∧ amt scaled d = (amt total d).tdiv P18 ∧ 0 ≤ amt total d) ∧
      scaleDownCoins i1.factor scaled = some down ∧ (∀ c ∈ scaled, 0 ≤ c.2) ∧
      byUp[k]? = some (if i1.now - joinT < up then scaled else []) ∧
      getURec a2.recs id = some ⟨id, r.shares, ins, []⟩ ∧ sorted ins = true ∧
      (∀ d, amt ins d = insU i1 s.fees.pool.tick k d pos0.lower pos0.upper) ∧
      (∀ x, x ≠ id → getURec a2.recs x = getURec a0.recs x) ∧ a2.value = a1.value ∧ a2.total = a0.total := by
    intro k hk
    obtain ⟨a0, ha0, hm0⟩ := hp.get hk
    obtain ⟨a1, ha1, gr⟩ := g1 k a0 ha0
    obtain ⟨a2, o, up, scaled, down, h1, h2, h3, h4, h5, h6, h7⟩ := g2 k a1 ha1
    have ok0 := hp.accs a0 hm0
    have ok1 := hp1.accs a1 (mem_of_getElem? ha1)
    obtain ⟨r, hr, hsh⟩ := ok0.recs pos0 hmem
    rw [hid] at hr
    have hr1 : getURec a1.recs id = some r := by rw [gr.1]; exact hr
    obtain ⟨ss, su'⟩ := ok1.sortedR id r hr1
    obtain ⟨total, ins, c1, c2, c3, c4, c5, c6, c7⟩ := claimOne_eff hr1 (by omega) ok1.sortedV ss su' h3 h4 h5
    have hsome : (getURec a1.recs id).isSome = true := by rw [hr1]; rfl
    simp only [hsome, true_and] at h7
    exact ⟨a0, a1, a2, r, total, ins, scaled, down, up, ha0, ha1, gr, h1, hr, hsh, h2, c7, h6, claimOne_coins_nonneg h5, h7,
      c1, c3, c4, fun x hx => by rw [c2 x hx, gr.1], c5, by rw [c6, gr.2.1]⟩
  -- the state the record update runs on
  have hs2 : SortedInc { i2 with bal := b } := by
    refine ⟨fun a ha => ?_, fun a ha x r hr => ?_, fun t tl' ht => ?_⟩
    · obtain ⟨k, hk⟩ := getElem?_of_mem ha
      have hk6 : k < 6 := by have := lt_of_getElem? hk; simp only at this; rw [l2, hp1.len] at this; exact this
      obtain ⟨a0, a1, a2, r, total, ins, scaled, down, up, _, ha1, _, ha2, _, _, _, _, _, _, _, _, _, _, _, ev, _⟩ := st2 k hk6
      have : a = a2 := by have hk' : i2.accs[k]? = some a := hk; rw [ha2] at hk'; injection hk' with hk'; exact hk'.symm
      subst this
      rw [ev]; exact (hp1.accs a1 (mem_of_getElem? ha1)).sortedV
    · obtain ⟨k, hk⟩ := getElem?_of_mem ha
      have hk6 : k < 6 := by have := lt_of_getElem? hk; simp only at this; rw [l2, hp1.len] at this; exact this
      obtain ⟨a0, a1, a2, r0', total, ins, scaled, down, up, ha0, ha1, _, ha2, _, _, _, _, _, _, _, hrec, hsi, _, hoth, _, _⟩ := st2 k hk6
      have : a = a2 := by have hk' : i2.accs[k]? = some a := hk; rw [ha2] at hk'; injection hk' with hk'; exact hk'.symm
      subst this
      by_cases hx : x = id
      · subst hx
        rw [hrec] at hr; injection hr with hr; subst hr
        exact ⟨hsi, rfl⟩
      · rw [hoth x hx] at hr
        exact (hp.accs a0 (mem_of_getElem? ha0)).sortedR x r hr
    · have : getTr i1.trackers t = some tl' := by rw [e2c] at ht; exact ht
      exact (hp1.trOK t tl' this).2
  have htl2 : getTr ({ i2 with bal := b } : Inc).trackers pos0.lower = some tl := by rw [e2c]; exact htl
  have htu2 : getTr ({ i2 with bal := b } : Inc).trackers pos0.upper = some tu := by rw [e2c]; exact htu
  obtain ⟨e3c, l3, g3⟩ := updPosition_stage hlu hs2 htl2 htu2 hupd
  have insU2 : ∀ k d, insU ({ i2 with bal := b } : Inc) s.fees.pool.tick k d pos0.lower pos0.upper =
      insU i1 s.fees.pool.tick k d pos0.lower pos0.upper → True := fun _ _ _ => trivial
  -- stage 3, per index
  have st3 : ∀ k, k < 6 → ∃ (a0 a1 a3 : UAcc) (r : URec) (ins rew : DC),
      s.inc.accs[k]? = some a0 ∧ i1.accs[k]? = some a1 ∧ i3.accs[k]? = some a3 ∧ getURec a0.recs id = some r ∧
      getURec a3.recs id = some ⟨id, pos0.liq - req, ins, rew⟩ ∧ sorted ins = true ∧ sorted rew = true ∧
      (∀ d, amt ins d = insU i1 s.fees.pool.tick k d pos0.lower pos0.upper ∧ amt rew d = 0) ∧
      (∀ x, x ≠ id → getURec a3.recs x = getURec a0.recs x) ∧ a3.value = a1.value ∧ a3.total = a0.total - req := by
    intro k hk
    obtain ⟨a0, a1, a2, r, total, ins2, scaled, down, up, ha0, ha1, gr, ha2, hr, hsh, _, _, _, _, _, hrec2, hsi2, hins2, hoth2, ev2, et2⟩ := st2 k hk
    obtain ⟨a3, ins, o, h1, h2, h3, h4, h5, h6⟩ := g3 k a2 ha2
    have hv2 : sorted a2.value = true := hs2.vals a2 (mem_of_getElem? (show ({ i2 with bal := b } : Inc).accs[k]? = some a2 from ha2))
    -- growth inside is the same in i1 and in the claimed state (values and trackers untouched)
    have hX : ∀ d, insU ({ i2 with bal := b } : Inc) s.fees.pool.tick k d pos0.lower pos0.upper =
        insU i1 s.fees.pool.tick k d pos0.lower pos0.upper := by
      intro d
      unfold insU trAt
      show insideI _ (amt (valAt i2.accs k) d) (amt (((getTr i2.trackers pos0.lower).bind (·[k]?)).getD []) d)
        (amt (((getTr i2.trackers pos0.upper).bind (·[k]?)).getD []) d) _ _ = _
      rw [valAt_of ha2, valAt_of ha1, ev2]
      have : i2.trackers = i1.trackers := by rw [e2c]
      rw [this]
    obtain ⟨rew, c1, c2, c3, c4, c5, _, _, c8⟩ := updOne_eff (X := fun d => insU i1 s.fees.pool.tick k d pos0.lower pos0.upper)
      hrec2 hv2 hsi2 rfl h4 (fun d => by rw [h5 d, hX d]) h6
    refine ⟨a0, a1, a3, r, ins, rew, ha0, ha1, h1, hr, ?_, h2, c3, fun d => ⟨by rw [h3 d, hX d], ?_⟩,
      fun x hx => by rw [c2 x hx, hoth2 x hx], by rw [c4, ev2], by rw [c5, et2]; omega⟩
    · rw [c1, hsh]; congr 1
    · have := (c8 d).1
      simp only at this
      rw [hins2 d, Int.sub_self, Accum.hev_zero] at this
      rw [this]; rfl
  -- stage 4
  have hlen3 : i3.accs.length = 6 := by rw [l3]; show i2.accs.length = 6; rw [l2, hp1.len]
  have e3fr : i3.trackers = i1.trackers ∧ i3.records = i1.records ∧ i3.now = i1.now ∧ i3.factor = i1.factor ∧ i3.join = i1.join ∧
      i3.last = i1.last ∧ i3.bal = b := by
    rw [e3c, e2c]; exact ⟨rfl, rfl, rfl, rfl, rfl, rfl, rfl⟩
  have hbyNN : ∀ cs ∈ byUp, ∀ c ∈ cs, 0 ≤ c.2 := by
    intro cs hcs c hc
    obtain ⟨k, hk⟩ := getElem?_of_mem hcs
    have hk6 : k < 6 := by
      have := lt_of_getElem? hk
      obtain ⟨_, _, _, l4, _⟩ := claimLoop_get hloop
      rw [l4, hp1.len] at this; exact this
    obtain ⟨a0, a1, a2, r, total, ins, scaled, down, up, _, _, _, _, _, _, _, _, _, hnn, hby, _⟩ := st2 k hk6
    rw [hk] at hby; injection hby with hby
    subst hby
    split at hc
    · exact hnn c hc
    · cases hc
  have st4 : i4.trackers = i1.trackers ∧ i4.records = i1.records ∧ i4.now = i1.now ∧ i4.factor = i1.factor ∧ i4.join = i1.join ∧
      i4.last = i1.last ∧ i4.accs.length = 6 ∧
      ∀ k, k < 6 → ∃ (a3 a4 : UAcc) (cs : Coins), i3.accs[k]? = some a3 ∧ i4.accs[k]? = some a4 ∧ byUp[k]? = some cs ∧
        a4.recs = a3.recs ∧ a4.total = a3.total ∧ (sorted a3.value = true → sorted a4.value = true) ∧
        (∀ d, amt a3.value d ≤ amt a4.value d ∧ (amt a4.value d - amt a3.value d) * f'.pool.liquidity ≤ amt cs d * (P18 * P18)) ∧
        (f'.pool.liquidity < P18 → a4.value = a3.value) := by
    obtain ⟨q1, q2, q3, q4, q5, q6, _⟩ := e3fr
    unfold redeposit at hred
    split at hred
    · rename_i hlt
      simp only [Option.map_eq_some_iff] at hred
      obtain ⟨b', _, e⟩ := hred
      subst e
      refine ⟨q1, q2, q3, q4, q5, q6, hlen3, fun k hk => ?_⟩
      obtain ⟨a3, ha3⟩ := getElem?_of_lt (l := i3.accs) (k := k) (by rw [hlen3]; exact hk)
      obtain ⟨a0, a1, a2, r, total, ins, scaled, down, up, _, _, _, _, _, _, _, _, _, hnn, hby, _⟩ := st2 k hk
      refine ⟨a3, a3, _, ha3, ha3, hby, rfl, rfl, fun hh => hh, fun d => ⟨Int.le_refl _, ?_⟩, fun _ => rfl⟩
      rw [Int.sub_self, Int.zero_mul]
      have : 0 ≤ amt (if i1.now - joinT < up then scaled else []) d := by
        apply amt_nonneg_of_all
        intro c hc
        split at hc
        · exact hnn c hc
        · cases hc
      exact Int.mul_nonneg this (Int.mul_nonneg (Int.le_of_lt P18_pos) (Int.le_of_lt P18_pos))
    · rename_i hge
      simp only [Option.map_eq_some_iff] at hred
      obtain ⟨accs4, hloop4, e⟩ := hred
      subst e
      have hP := P18_pos
      obtain ⟨m1, m2, mget⟩ := redepositLoop_get (by omega) hloop4 hbyNN
      refine ⟨q1, q2, q3, q4, q5, q6, by rw [m1, hlen3], fun k hk => ?_⟩
      obtain ⟨a3, ha3⟩ := getElem?_of_lt (l := i3.accs) (k := k) (by rw [hlen3]; exact hk)
      obtain ⟨a4, cs, h1, h2, h3, h4, h5, h6⟩ := mget k a3 ha3
      exact ⟨a3, a4, cs, ha3, h1, h2, h3, h4, h5, h6, fun hlt => absurd hlt hge⟩
  obtain ⟨q1, q2, q3, q4, q5, q6, hlen4, g4⟩ := st4
  -- the chain
  have chain : ∀ k, k < 6 → WChain s ⟨f', { i4 with trackers := syncTrackers i4.trackers f'.pool.ticks }⟩ i1 pos0 req joinT byUp k := by
    intro k hk
    obtain ⟨a0, a1, a2, r, total, ins2, scaled, down, up, ha0, ha1, gr, ha2, hr, hsh, hup, htot, hdown, hnn, hby, _⟩ := st2 k hk
    obtain ⟨a0', a1', a3, r', ins, rew, ha0', ha1', ha3, hr', hrec3, hsi, hsr, hamt3, hoth3, ev3, et3⟩ := st3 k hk
    rw [ha0] at ha0'; injection ha0' with ha0'; subst ha0'
    rw [ha1] at ha1'; injection ha1' with ha1'; subst ha1'
    obtain ⟨a3', a4, cs, ha3', ha4, hcs, er4, et4, es4, hv4, hz4⟩ := g4 k hk
    rw [ha3] at ha3'; injection ha3' with ha3'; subst ha3'
    rw [hby] at hcs; injection hcs with hcs; subst hcs
    have hv1 : sorted a1.value = true := (hp1.accs a1 (mem_of_getElem? ha1)).sortedV
    refine ⟨a0, a1, a4, r, total, ins, rew, scaled, down, up, ha0, ha1, gr, ha4, by rw [hid]; exact hr, hsh, hup, htot, hdown, hnn, hby,
      by rw [er4, hid]; exact hrec3, hsi, hsr, hamt3, fun x hx => by rw [er4]; exact hoth3 x (by rw [← hid]; exact hx), by rw [et4, et3],
      es4 (by rw [ev3]; exact hv1), fun d => ?_, fun hlt => by rw [hz4 hlt, ev3]⟩
    have := hv4 d
    rw [ev3] at this
    exact this
  have eacc' : ∀ k a4, i4.accs[k]? = some a4 → k < 6 := fun k a4 h => by have := lt_of_getElem? h; omega
  refine ⟨pos0, i1, i2, coll, forf, byUp, b, i3, i4, joinT, hmem, hid, hreq0, hreq1, hsync, hclaim, hj, hage, hloop,
    by rw [← show i2.bal = i1.bal by rw [e2c]]; exact hb, hred, e3fr.2.2.2.2.2.2, by rw [q1], q2, q3, q4, q5, q6,
    fun hne => (etick hne), ?_, chain⟩
  -- the invariant
  have hc' : InvCore f'.pool := hf'.pool.core
  refine ⟨hlen4, fun a4 ha4 => ?_, fun q' hq' => ?_, fun t tl' ht => ?_, fun t ht => ?_, by show RecsOK i4.records; rw [q2]; exact hp1.recsOK,
    by show 0 < i4.factor; rw [q4]; exact hp1.factor, fun e he => ?_, fun q' hq' => ?_⟩
  · obtain ⟨k, hk⟩ := getElem?_of_mem ha4
    have hk6 := eacc' k a4 hk
    obtain ⟨⟨a0, a1, a4', r, total, ins, rew, scaled, down, up, ha0, ha1, gr, ha4', hr, hsh, hup, htot, hdown, hnn, hby, hrec4, hsi, hsr, hamt4,
      hoth4, et4, hsv4, _⟩⟩ := chain k hk6
    have : a4' = a4 := by have h' : i4.accs[k]? = some a4' := ha4'; rw [hk] at h'; injection h' with h'; exact h'.symm
    subst this
    have ok0 := hp.accs a0 (mem_of_getElem? ha0)
    refine ⟨fun q' hq' => ?_, fun x hx => ?_, hsv4, fun x r' hr' => ?_, by rw [et4, ok0.total, ets]⟩
    · rw [epos] at hq'
      split at hq'
      · obtain ⟨hq, hne⟩ := List.mem_filter.mp hq'
        simp only [ne_eq, decide_not, Bool.not_eq_eq_eq_not, Bool.not_true, decide_eq_false_iff_not] at hne
        obtain ⟨rq, hrq, e⟩ := ok0.recs q' hq
        exact ⟨rq, by rw [hoth4 _ (by rw [hid]; exact hne)]; exact hrq, e⟩
      · obtain ⟨q, hq, e⟩ := List.mem_map.mp hq'
        by_cases hx : q.id = id
        · rw [if_pos hx] at e
          subst e
          have : q = pos0 := mem_eq_of_id hf.pool.core.pos.uniq hq hmem (by rw [hx, hid])
          subst this
          exact ⟨_, hrec4, by simp only; omega⟩
        · rw [if_neg hx] at e
          subst e
          obtain ⟨rq, hrq, e⟩ := ok0.recs q hq
          exact ⟨rq, by rw [hoth4 _ (by rw [hid]; exact hx)]; exact hrq, e⟩
    · rw [enext]
      by_cases e : x = pos0.id
      · subst e; exact ok0.recIds _ (by rw [hr]; rfl)
      · rw [hoth4 x e] at hx; exact ok0.recIds x hx
    · by_cases e : x = pos0.id
      · subst e
        rw [hrec4] at hr'; injection hr' with hr'; subst hr'
        exact ⟨hsi, hsr⟩
      · rw [hoth4 x e] at hr'; exact ok0.sortedR x r' hr'
  · -- stored
    show (getTr (syncTrackers i4.trackers f'.pool.ticks) q'.lower).isSome ∧ (getTr (syncTrackers i4.trackers f'.pool.ticks) q'.upper).isSome
    rw [getTr_syncTrackers, getTr_syncTrackers,
      if_pos (any_tick_of_stored ((hc'.stored q'.lower).mpr ⟨q', hq', Or.inl rfl⟩)),
      if_pos (any_tick_of_stored ((hc'.stored q'.upper).mpr ⟨q', hq', Or.inr rfl⟩)), q1]
    -- q' descends from a position of s
    rcases sf.desc q' hq' with ⟨q, hq, _, e2', e3'⟩ | hge
    · rw [← e2', ← e3']; exact hp1.stored q hq
    · exfalso
      have := hc'.pos.idsLt q' hq'
      rw [enext] at this; omega
  · have ht' : getTr (syncTrackers i4.trackers f'.pool.ticks) t = some tl' := ht
    rw [getTr_syncTrackers] at ht'
    split at ht'
    · rw [q1] at ht'; exact hp1.trOK t tl' ht'
    · cases ht'
  · have ht' : (getTr (syncTrackers i4.trackers f'.pool.ticks) t).isSome := ht
    rw [getTr_syncTrackers] at ht'
    split at ht'
    · rename_i hany
      rw [List.any_eq_true] at hany
      obtain ⟨x, hx, e⟩ := hany
      exact ⟨x, hx, by simpa using e⟩
    · cases ht'
  · rw [enext]; have he' : e ∈ i4.join := he; rw [q5] at he'; exact hp1.joinIds e he'
  · show (i4.join.find? (·.1 = q'.id)).isSome
    rw [q5]
    rcases sf.desc q' hq' with ⟨q, hq, e0, _, _⟩ | hge
    · rw [← e0]; exact hp1.joined q hq
    · exfalso
      have := hc'.pos.idsLt q' hq'
      rw [enext] at this; omega

end OsmoVerif.CLIncP
