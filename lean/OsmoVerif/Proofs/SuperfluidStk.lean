/- C11 over the staking model (Model/SuperfluidStaking.lean): shape of the staking primitives, and the state
invariant `Inv` of the lockup / marker part `SState.b` is preserved by every entry point, slashes included.
Core only.  The lockup / marker primitives are those of Model/Superfluid.lean, so every lemma of
Proofs/SuperfluidInv.lean … SuperfluidFrames.lean about them is reused as is. -/
import OsmoVerif.Model.SuperfluidStaking
import OsmoVerif.Proofs.SuperfluidFrames

namespace OsmoVerif.Superfluid
open OsmoVerif.Num

/-- the staking primitives touch, of the lockup / superfluid / bank state, only the bank supply and its offset, and
they keep the reported supply `supply + offset`. -/
structure BankOnly (b b' : State) : Prop where
  eq : ∃ x y, b' = { b with supply := x, offset := y }
  tot : tot b' = tot b

theorem BankOnly.refl (b : State) : BankOnly b b := ⟨⟨b.supply, b.offset, rfl⟩, rfl⟩

theorem BankOnly.trans {a b c : State} (h1 : BankOnly a b) (h2 : BankOnly b c) : BankOnly a c := by
  obtain ⟨⟨x, y, e1⟩, t1⟩ := h1
  obtain ⟨⟨x', y', e2⟩, t2⟩ := h2
  refine ⟨⟨x', y', ?_⟩, t2.trans t1⟩
  rw [e2, e1]

theorem BankOnly.inv {b b' : State} (f : BankOnly b b') (h : Inv b) : Inv b' := by
  obtain ⟨⟨x, y, e⟩, _⟩ := f
  subst e
  exact h.ledger_frame _ _ _

theorem BankOnly.same {b b' : State} (f : BankOnly b b') : SameLockup b b' := by
  obtain ⟨⟨x, y, e⟩, _⟩ := f
  subst e; exact ⟨rfl, rfl, rfl, rfl, rfl, rfl, rfl⟩

theorem BankOnly.core {b b' : State} (f : BankOnly b b') : SameCore b b' :=
  ⟨f.same.locks, f.same.now, f.same.ub, f.same.last⟩

theorem BankOnly.fields {b b' : State} (f : BankOnly b b') :
    b'.accs = b.accs ∧ b'.accum = b.accum ∧ b'.mult = b.mult ∧ b'.assets = b.assets ∧ b'.riskFactor = b.riskFactor ∧
    b'.lastGauge = b.lastGauge ∧ b'.deleg = b.deleg := by
  obtain ⟨⟨x, y, e⟩, _⟩ := f
  subst e; exact ⟨rfl, rfl, rfl, rfl, rfl, rfl, rfl⟩

/-! ## the staking primitives -/

/-- **mint offsets exactly the minted amount**: `mintS` adds `a` to the bank supply and subtracts `a` from the
offset; the validator and the delegation change as `AddTokensFromDel` says. -/
theorem mintS_ok {s s' : SState} {a : Int} {key : AccKey} (h : mintS s a key = .ok s') :
    key.2 ∈ s.b.validators ∧ 0 < a ∧ ¬ ((s.k.val key.2).tokens = 0 ∧ 0 < (s.k.val key.2).shares) ∧
    ∃ v' issued d', (s.k.val key.2).addTokensFromDel a = some (v', issued) ∧
      Dec.add (match s.k.dsh key with | some x => x | none => 0) issued = some d' ∧
      s' = { b := { s.b with supply := s.b.supply + a, offset := s.b.offset - a },
             k := setDsh (setVal s.k key.2 v') key (some d') } := by
  unfold mintS at h
  split at h
  · cases h
  · rename_i h1
    split at h
    · cases h
    · rename_i h2
      dsimp only at h
      split at h
      · cases h
      · rename_i h3
        split at h
        · cases h
        · rename_i v' issued hadd
          split at h
          · cases h
          · split at h
            · cases h
            · rename_i d' hd
              injection h with h
              exact ⟨by simpa using h1, by omega, h3, v', issued, d', hadd, hd, h.symm⟩

/-- the power threshold in tokens: `2⁶³` power units. -/
def powLimit : Int := 2 ^ 63 * powerReduction

theorem powLimit_lit : powLimit = 9223372036854775808000000 := by decide

/-- `tokens.Quo(powerReduction)` is not an `int64` exactly from `2⁶³ · powerReduction` tokens on. -/
theorem powerOverflows_iff (t : Int) : powerOverflows t = true ↔ powLimit ≤ t := by
  unfold powerOverflows
  rw [decide_eq_true_iff, powLimit_lit]
  show (2 : Int) ^ 63 ≤ Int.tdiv t 1000000 ↔ _
  rcases Int.lt_or_le t 0 with h | h
  · have h1 := Int.neg_tdiv t 1000000
    have h2 : 0 ≤ Int.tdiv (-t) 1000000 := Int.tdiv_nonneg (by omega) (by decide)
    constructor <;> intro h' <;> omega
  · rw [Int.tdiv_eq_ediv_of_nonneg h]
    constructor <;> intro h' <;> omega

/-- a successful mint leaves the validator below the power threshold. -/
theorem mintS_ok_power {s s' : SState} {a : Int} {key : AccKey} (h : mintS s a key = .ok s') :
    (s'.k.val key.2).tokens < powLimit := by
  unfold mintS at h
  split at h
  · cases h
  · split at h
    · cases h
    · dsimp only at h
      split at h
      · cases h
      · split at h
        · cases h
        · rename_i v' issued hadd
          split at h
          · cases h
          · rename_i hp
            split at h
            · cases h
            · injection h with h
              subst h
              have : ¬ powLimit ≤ v'.tokens := fun hh => hp ((powerOverflows_iff _).2 hh)
              show ((setDsh (setVal s.k key.2 v') key _).val key.2).tokens < powLimit
              simp only [setDsh, setVal, upd, if_true]
              omega

/-- a failing mint is an error of the branch (a panic there is recovered by `ApplyFuncIfNoError`), never a panic of the
caller. -/
theorem mintS_no_panic {s : SState} {a : Int} {key : AccKey} : mintS s a key ≠ .error .panic := by
  unfold mintS
  split
  · intro h; cases h
  · split
    · intro h; cases h
    · dsimp only
      split
      · intro h; cases h
      · split
        · intro h; cases h
        · split
          · intro h; cases h
          · split
            · intro h; cases h
            · intro h; cases h

theorem mintS_bank {s s' : SState} {a : Int} {key : AccKey} (h : mintS s a key = .ok s') : BankOnly s.b s'.b := by
  obtain ⟨_, _, _, v', issued, d', _, _, hs'⟩ := mintS_ok h
  subst hs'
  refine ⟨⟨_, _, rfl⟩, ?_⟩
  show s.b.supply + a + (s.b.offset - a) = s.b.supply + s.b.offset
  omega

/-- **burn offsets exactly the burnt amount**: `burnS` either finds no delegation record and does nothing, or
removes `got` — what `RemoveDelShares` actually paid out — from the supply and adds the same `got` to the offset. -/
theorem burnS_ok {s s' : SState} {a : Int} {key : AccKey} (h : burnS s a key = .ok s') :
    key.2 ∈ s.b.validators ∧
    ((s.k.dsh key = none ∧ s' = s) ∨
     ∃ d sh d' v' got, s.k.dsh key = some d ∧ 0 ≤ a ∧ validateUnbondAmount (s.k.val key.2) d a = .ok sh ∧ sh ≤ d ∧
       Dec.sub d sh = some d' ∧ (s.k.val key.2).removeDelShares sh = some (v', got) ∧
       s' = { b := { s.b with supply := s.b.supply - got, offset := s.b.offset + got },
              k := setDsh (setVal s.k key.2 v') key (if d' = 0 then none else some d') }) := by
  unfold burnS at h
  split at h
  · cases h
  · rename_i h1
    refine ⟨by simpa using h1, ?_⟩
    split at h
    · rename_i hn
      injection h with h
      exact Or.inl ⟨hn, h.symm⟩
    · rename_i d hd
      split at h
      · cases h
      · rename_i h2
        dsimp only at h
        split at h
        · cases h
        · rename_i sh hv
          split at h
          · cases h
          · rename_i h3
            split at h
            · rename_i d' v' got e1 e2
              injection h with h
              exact Or.inr ⟨d, sh, d', v', got, hd, by omega, hv, by omega, e1, e2, h.symm⟩
            · cases h

theorem burnS_bank {s s' : SState} {a : Int} {key : AccKey} (h : burnS s a key = .ok s') : BankOnly s.b s'.b := by
  rcases (burnS_ok h).2 with ⟨_, hs'⟩ | ⟨d, sh, d', v', got, _, _, _, _, _, _, hs'⟩
  · subst hs'; exact BankOnly.refl _
  · subst hs'
    refine ⟨⟨_, _, rfl⟩, ?_⟩
    show s.b.supply - got + (s.b.offset + got) = s.b.supply + s.b.offset
    omega

/-! ## SuperfluidDelegate -/

theorem superfluidDelegateS_ok {s s' : SState} {sender id val : Nat} (hc : superfluidDelegateS s sender id val = .ok s') :
    ∃ l s3 amt, s.b.locks id = some l ∧ l.owner = sender ∧ l.single = true ∧ l.denom ∈ s.b.assets ∧ l.endTime = none ∧
      s.b.unbondingTime ≤ l.duration ∧ alreadyStaking s.b id = false ∧
      createSynth { getOrCreateAcc s.b (l.denom, val) with
            conns := upd (getOrCreateAcc s.b (l.denom, val)).conns id (some (l.denom, val)) } id .bonding (l.denom, val) = .ok s3 ∧
      osmoTokens s3 l.denom l.amount = .ok amt ∧ amt ≠ 0 ∧ mintS { s with b := s3 } amt (l.denom, val) = .ok s' := by
  unfold superfluidDelegateS at hc
  split at hc
  · cases hc
  · rename_i l hl
    split at hc
    · cases hc
    · rename_i h1
      split at hc
      · cases hc
      · rename_i h2
        split at hc
        · cases hc
        · rename_i h3
          split at hc
          · cases hc
          · rename_i h4
            split at hc
            · cases hc
            · rename_i h5
              split at hc
              · cases hc
              · rename_i h6
                dsimp only at hc
                split at hc
                · cases hc
                · rename_i s3 h7
                  split at hc
                  · cases hc
                  · rename_i amt h8
                    split at hc
                    · cases hc
                    · rename_i h9
                      refine ⟨l, s3, amt, hl, by simpa using h1, ?_, by simpa using h3, ?_, by omega, by simpa using h6, h7, h8, h9, hc⟩
                      · cases hb : l.single with
                        | true => rfl
                        | false => exact absurd hb h2
                      · cases hh : l.endTime with
                        | none => rfl
                        | some e => rw [hh] at h4; exact absurd rfl h4

theorem inv_superfluidDelegateS {s s' : SState} {sender id val : Nat} (h : Inv s.b)
    (hc : superfluidDelegateS s sender id val = .ok s') : Inv s'.b := by
  obtain ⟨l, s3, amt, hl, _, _, _, hend, hdur, _, h7, _, _, h10⟩ := superfluidDelegateS_ok hc
  have hval := (mintS_ok h10).1
  have hv : s3.validators = s.b.validators := by
    obtain ⟨_, _, _, _, _, hs3⟩ := createSynth_ok h7
    subst hs3
    dsimp only
    unfold getOrCreateAcc; split <;> rfl
  exact (mintS_bank h10).inv (inv_connectBonding h hl hend hdur (by rw [← hv]; exact hval) h7)

theorem superfluidDelegateS_core {s s' : SState} {sender id val : Nat} (hc : superfluidDelegateS s sender id val = .ok s') :
    SameCore s.b s'.b := by
  obtain ⟨l, s3, amt, _, _, _, _, _, _, _, h7, _, _, h10⟩ := superfluidDelegateS_ok hc
  have c1 := getOrCreateAcc_core s.b (l.denom, val)
  have c2 := createSynth_core h7
  have c3 := (mintS_bank h10).core
  exact ⟨c3.locks.trans (c2.locks.trans c1.locks), c3.now.trans (c2.now.trans c1.now), c3.ub.trans (c2.ub.trans c1.ub),
    c3.last.trans (c2.last.trans c1.last)⟩

/-! ## SuperfluidUndelegate -/

theorem undelegateCommonS_ok {s s' : SState} {sender id : Nat} {key : AccKey}
    (hc : undelegateCommonS s sender id = .ok (s', key)) :
    ∃ l s2 amt, s.b.locks id = some l ∧ l.owner = sender ∧ l.single = true ∧ s.b.conns id = some key ∧
      deleteSynth { s.b with conns := upd s.b.conns id none } id .bonding (l.denom, key.2) = .ok s2 ∧
      osmoTokens s2 key.1 l.amount = .ok amt ∧ burnS { s with b := s2 } amt key = .ok s' := by
  unfold undelegateCommonS at hc
  split at hc
  · cases hc
  · rename_i l hl
    split at hc
    · cases hc
    · rename_i h1
      split at hc
      · cases hc
      · rename_i h2
        split at hc
        · cases hc
        · rename_i k hk
          dsimp only at hc
          split at hc
          · cases hc
          · rename_i s2 h3
            split at hc
            · cases hc
            · rename_i amt h4
              split at hc
              · cases hc
              · rename_i s3 h5
                injection hc with hc
                injection hc with e1 e2
                subst e1; subst e2
                refine ⟨l, s2, amt, hl, by simpa using h1, ?_, hk, h3, h4, h5⟩
                cases hb : l.single with
                | true => rfl
                | false => exact absurd hb h2

theorem inv_undelegateCommonS {s s' : SState} {sender id : Nat} {key : AccKey} (h : Inv s.b)
    (hc : undelegateCommonS s sender id = .ok (s', key)) : Inv s'.b := by
  obtain ⟨l, s2, amt, hl, _, _, hk, h3, _, h5⟩ := undelegateCommonS_ok hc
  exact (burnS_bank h5).inv (inv_disconnectBonding h hl hk h3)

theorem undelegateCommonS_lock {s s' : SState} {sender id : Nat} {key : AccKey} (h : Inv s.b)
    (hc : undelegateCommonS s sender id = .ok (s', key)) :
    s'.b.locks = s.b.locks ∧ s'.b.now = s.b.now ∧ s'.b.unbondingTime = s.b.unbondingTime ∧ s'.b.lastLockId = s.b.lastLockId ∧
    ∃ l, s.b.locks id = some l ∧ l.endTime = none := by
  obtain ⟨l, s2, amt, hl, _, _, hk, h3, _, h5⟩ := undelegateCommonS_ok hc
  obtain ⟨_, _, _, hs2⟩ := (deleteSynth_ok h3).2
  have hb := (burnS_bank h5).same
  obtain ⟨l', hl', _, _, _, _, hend, _⟩ := h.conn_lock hk
  rw [hl] at hl'; injection hl' with hl'; subst hl'
  subst hs2
  exact ⟨hb.locks, hb.now, hb.ub, hb.last, l, hl, hend⟩

theorem liftB_ok {s s' : SState} {r : Except Err State} (h : liftB s r = .ok s') : ∃ b', r = .ok b' ∧ s' = { s with b := b' } := by
  cases r with
  | error e => cases h
  | ok b' =>
    simp only [liftB] at h
    injection h with h
    exact ⟨b', rfl, h.symm⟩

theorem superfluidUndelegateS_ok {s s' : SState} {sender id : Nat} (hc : superfluidUndelegateS s sender id = .ok s') :
    ∃ s1 key b', undelegateCommonS s sender id = .ok (s1, key) ∧ createSynth s1.b id .unbonding key = .ok b' ∧
      s' = { s1 with b := b' } := by
  unfold superfluidUndelegateS at hc
  split at hc
  · cases hc
  · rename_i s1 key h1
    obtain ⟨b', hb, hs'⟩ := liftB_ok hc
    exact ⟨s1, key, b', h1, hb, hs'⟩

theorem inv_superfluidUndelegateS {s s' : SState} {sender id : Nat} (h : Inv s.b)
    (hc : superfluidUndelegateS s sender id = .ok s') : Inv s'.b := by
  obtain ⟨s1, key, b', h1, hb, hs'⟩ := superfluidUndelegateS_ok hc
  subst hs'
  have hi := inv_undelegateCommonS h h1
  obtain ⟨f1, _, _, _, l, hl, hend⟩ := undelegateCommonS_lock h h1
  refine inv_createUnbonding hi ?_ hb
  intro l' le hl' hle
  rw [f1, hl] at hl'; injection hl' with hl'; subst hl'
  rw [hend] at hle; cases hle

theorem superfluidUndelegateS_core {s s' : SState} {sender id : Nat} (h : Inv s.b)
    (hc : superfluidUndelegateS s sender id = .ok s') : SameCore s.b s'.b := by
  obtain ⟨s1, key, b', h1, hb, hs'⟩ := superfluidUndelegateS_ok hc
  subst hs'
  obtain ⟨f1, f2, f3, f4, _⟩ := undelegateCommonS_lock h h1
  exact (SameCore.mk f1 f2 f3 f4).trans (createSynth_core hb)

end OsmoVerif.Superfluid
