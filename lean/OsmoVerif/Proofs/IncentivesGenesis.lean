/-
x/incentives genesis over `Model/IncentivesGenesis.lean`: on every state satisfying the C09 invariants whose active
gauges have started (block times are monotone on a chain), export → import at block time `now` is EXACTLY
"activate the due upcoming gauges (what the next epoch would do first) and forget the finished gauges".
Core only.
-/
import OsmoVerif.Proofs.IncentivesGenesisWF
namespace OsmoVerif.Incentives

def gkey (g : Gauge) : Int × Nat := (g.start, g.id)

def putAll (L G : List Gauge) : List Gauge := G.foldl putGauge L

/-! ## the import loop -/

theorem setGaugesWithRefKey_append (now : Int) : ∀ (A B : List Gauge) (s : State),
    setGaugesWithRefKey now s (A ++ B) = (setGaugesWithRefKey now s A).bind fun s1 => setGaugesWithRefKey now s1 B
  | [], _, _ => rfl
  | g :: A, B, s => by
    simp only [List.cons_append, setGaugesWithRefKey]
    cases setGaugeWithRefKey now s g with
    | none => rfl
    | some s1 => exact setGaugesWithRefKey_append now A B s1

/-- gauges that are active by their fields at `now` are filed in the active store, in order. -/
theorem import_allActive (now : Int) : ∀ (G : List Gauge) (s : State),
    (∀ g ∈ G, g.isUpcomingAt now = false ∧ g.isActiveAt now = true) →
    setGaugesWithRefKey now s G =
      (addPairs s.active (G.map gkey)).map fun r => { s with gauges := putAll s.gauges G, active := r }
  | [], s, _ => rfl
  | g :: G, s, h => by
    obtain ⟨h1, h2⟩ := h g List.mem_cons_self
    simp only [setGaugesWithRefKey, setGaugeWithRefKey, h1, h2, Bool.false_eq_true, if_false, if_true, List.map_cons,
      gkey, addPairs]
    cases refsAdd s.active g.start g.id with
    | none => rfl
    | some r1 =>
      simp only [Option.map_some]
      rw [import_allActive now G _ (fun x hx => h x (List.mem_cons_of_mem _ hx))]
      rfl

/-- gauges that are upcoming by their fields at `now` are filed in the upcoming store, in order. -/
theorem import_allUpcoming (now : Int) : ∀ (G : List Gauge) (s : State),
    (∀ g ∈ G, g.isUpcomingAt now = true) →
    setGaugesWithRefKey now s G =
      (addPairs s.upcoming (G.map gkey)).map fun r => { s with gauges := putAll s.gauges G, upcoming := r }
  | [], s, _ => rfl
  | g :: G, s, h => by
    have h1 := h g List.mem_cons_self
    simp only [setGaugesWithRefKey, setGaugeWithRefKey, h1, if_true, List.map_cons, gkey, addPairs]
    cases refsAdd s.upcoming g.start g.id with
    | none => rfl
    | some r1 =>
      simp only [Option.map_some]
      rw [import_allUpcoming now G _ (fun x hx => h x (List.mem_cons_of_mem _ hx))]
      rfl

theorem mem_pairs {r : Refs} {p : Int × Nat} : p ∈ pairs r ↔ ∃ kv ∈ r, p.1 = kv.1 ∧ p.2 ∈ kv.2 := by
  unfold pairs
  simp only [List.mem_flatMap, List.mem_map]
  constructor
  · rintro ⟨kv, hkv, i, hi, rfl⟩; exact ⟨kv, hkv, rfl, hi⟩
  · rintro ⟨kv, hkv, h1, h2⟩; exact ⟨kv, hkv, p.2, h2, by rw [← h1]⟩

theorem pairs_cons (t : Int) (l : List Nat) (r : Refs) : pairs ((t, l) :: r) = (l.map fun i => (t, i)) ++ pairs r := by
  simp [pairs]

theorem activate_none_due {now : Int} : ∀ (up act : Refs), (∀ kv ∈ up, now < kv.1) → activate now up act = some (up, act)
  | [], _, _ => rfl
  | (t, l) :: r, act, h => by
    have h1 : ¬ t ≤ now := by have := h (t, l) List.mem_cons_self; simp only at this; omega
    simp only [activate, if_neg h1, activate_none_due r act (fun kv hkv => h kv (List.mem_cons_of_mem _ hkv)),
      Option.map_some]

/-- importing the gauges of a well-formed upcoming store (in store order) into a state with an empty upcoming store
does what `activate now` does: keys that are due go to the active store (appended per key), the others are rebuilt. -/
theorem import_upcomingStore (now : Int) : ∀ (up : Refs) (G : List Gauge) (s : State), RefsWF up → (refsIds up).Nodup →
    G.map gkey = pairs up → (∀ g ∈ G, g.perpetual = true ∨ g.filled < g.numEpochs) → s.upcoming = [] →
    setGaugesWithRefKey now s G =
      (activate now up s.active).map fun ua => { s with gauges := putAll s.gauges G, upcoming := ua.1, active := ua.2 }
  | [], G, s, _, _, hG, _, hs => by
    have : G = [] := by simpa [pairs] using hG
    subst this
    simp only [setGaugesWithRefKey, activate, Option.map_some, putAll, List.foldl_nil]
    rw [← hs]
  | (t, l) :: r, G, s, hw, hn, hG, hact, hs => by
    by_cases ht : t ≤ now
    · rw [pairs_cons, List.map_eq_append_iff] at hG
      obtain ⟨G1, G2, rfl, hG1, hG2⟩ := hG
      have hall : ∀ g ∈ G1, g.isUpcomingAt now = false ∧ g.isActiveAt now = true := by
        intro g hg
        have : gkey g ∈ G1.map gkey := List.mem_map_of_mem hg
        rw [hG1] at this
        obtain ⟨i, _, e⟩ := List.mem_map.mp this
        have hst : g.start = t := by simp only [gkey, Prod.mk.injEq] at e; exact e.1.symm
        have ha := hact g (List.mem_append_left _ hg)
        simp only [Gauge.isUpcomingAt, Gauge.isActiveAt, hst, decide_eq_false_iff_not, Bool.and_eq_true,
          decide_eq_true_eq, Bool.or_eq_true]
        exact ⟨by omega, ht, ha⟩
      rw [setGaugesWithRefKey_append, import_allActive now G1 s hall, hG1, addPairs_key]
      simp only [activate, if_pos ht]
      cases hx : refsAddAll s.active t l with
      | none => rfl
      | some a1 =>
        simp only [Option.map_some, Option.bind_some]
        rw [refsIds_cons] at hn
        have ih := import_upcomingStore now r G2 { s with gauges := putAll s.gauges G1, active := a1 } hw.2.2
          (List.nodup_append.mp hn).2.1 hG2 (fun g hg => hact g (List.mem_append_right _ hg)) hs
        rw [ih]
        simp only [putAll, List.foldl_append]
    · have hdue : ∀ kv ∈ (t, l) :: r, now < kv.1 := by
        intro kv hkv
        rcases List.mem_cons.mp hkv with e | e
        · subst e; simp only; omega
        · have := hw.2.1 kv e; omega
      have hall : ∀ g ∈ G, g.isUpcomingAt now = true := by
        intro g hg
        have : gkey g ∈ G.map gkey := List.mem_map_of_mem hg
        rw [hG] at this
        obtain ⟨kv, hkv, e1, _⟩ := mem_pairs.mp this
        have := hdue kv hkv
        simp only [gkey] at e1
        simp only [Gauge.isUpcomingAt, decide_eq_true_eq]; omega
      rw [import_allUpcoming now G s hall, hG, hs,
        addPairs_rebuild ((t, l) :: r) [] (by simpa using hw) hn, activate_none_due _ _ hdue]
      simp only [List.nil_append, Option.map_some]

/-! ## the export -/

theorem snapshot_eq_filterMap {gs : List Gauge} : ∀ {ids : List Nat} {G : List Gauge},
    snapshot gs ids = some G → G = ids.filterMap (getGauge gs)
  | [], G, h => by simp only [snapshot, Option.some.injEq] at h; subst h; rfl
  | i :: is, G, h => by
    simp only [snapshot] at h
    cases hg : getGauge gs i with
    | none => rw [hg] at h; cases h
    | some g =>
      rw [hg] at h
      cases hs : snapshot gs is with
      | none => rw [hs] at h; cases h
      | some G' =>
        rw [hs] at h
        simp only [Option.map_some, Option.some.injEq] at h
        subst h
        simp only [List.filterMap_cons, hg, snapshot_eq_filterMap hs]

theorem getGauge_of_idStart {gs : List Gauge} (hn : (gs.map (·.id)).Nodup) {i : Nat} {t : Int}
    (h : (i, t) ∈ idStart gs) : ∃ g, getGauge gs i = some g ∧ g.id = i ∧ g.start = t ∧ g ∈ gs := by
  obtain ⟨g, hg, e⟩ := List.mem_map.mp h
  simp only [Prod.mk.injEq] at e
  cases hx : getGauge gs i with
  | none =>
    unfold getGauge at hx
    rw [List.find?_eq_none] at hx
    have := hx g hg
    simp [e.1] at this
  | some g' =>
    obtain ⟨hm, hid⟩ := getGauge_some hx
    have : g' = g := eq_of_id_eq hn hm hg (by rw [hid, e.1])
    subst this
    exact ⟨g', rfl, e.1, e.2, hg⟩

/-- loading the gauges of a list of filed entries: all present, each with its key. -/
theorem snapshot_pairs {gs : List Gauge} (hn : (gs.map (·.id)).Nodup) : ∀ (ps : List (Int × Nat)),
    (∀ p ∈ ps, (p.2, p.1) ∈ idStart gs) →
    ∃ G, snapshot gs (ps.map (·.2)) = some G ∧ G.map gkey = ps ∧ ∀ g ∈ G, g ∈ gs ∧ g.id ∈ ps.map (·.2)
  | [], _ => ⟨[], rfl, rfl, fun _ h => absurd h List.not_mem_nil⟩
  | (t, i) :: ps, h => by
    obtain ⟨g, hg, hid, hst, hm⟩ := getGauge_of_idStart hn (h (t, i) List.mem_cons_self)
    obtain ⟨G, h1, h2, h3⟩ := snapshot_pairs hn ps (fun p hp => h p (List.mem_cons_of_mem _ hp))
    refine ⟨g :: G, by simp only [List.map_cons, snapshot, hg, h1, Option.map_some], ?_, ?_⟩
    · simp only [List.map_cons, h2, gkey, hid, hst]
    · intro x hx
      rcases List.mem_cons.mp hx with e | e
      · subst e; exact ⟨hm, by simp [hid]⟩
      · exact ⟨(h3 x e).1, List.mem_cons_of_mem _ (h3 x e).2⟩

theorem pairs_ids (r : Refs) : (pairs r).map (·.2) = refsIds r := by
  induction r with
  | nil => rfl
  | cons hd r ih =>
    obtain ⟨t, l⟩ := hd
    rw [pairs_cons, refsIds_cons, List.map_append, ih, List.map_map]
    have : ((fun x : Int × Nat => x.2) ∘ fun i => (t, i)) = id := rfl
    rw [this, List.map_id]

theorem snapshot_store {gs : List Gauge} (hn : (gs.map (·.id)).Nodup) {r : Refs}
    (h : RefsAll (fun t i => (i, t) ∈ idStart gs) r) :
    ∃ G, snapshot gs (refsIds r) = some G ∧ G.map gkey = pairs r ∧ ∀ g ∈ G, g ∈ gs ∧ g.id ∈ refsIds r := by
  have := snapshot_pairs hn (pairs r) (by
    intro p hp
    obtain ⟨kv, hkv, e1, e2⟩ := mem_pairs.mp hp
    rw [e1]; exact h kv hkv p.2 e2)
  rw [pairs_ids] at this
  exact this

/-! ## export → import -/

/-- the records the import stores: those of the active and the upcoming store, by id. -/
def importedGauges (s : State) : List Gauge :=
  putAll [] ((refsIds s.active ++ refsIds s.upcoming).filterMap (getGauge s.gauges))

/-- the state after export → import at block time `now`, given the result of `activate now`. -/
def imported (s : State) (ua : Refs × Refs) : State :=
  { cfg := s.cfg, gauges := importedGauges s, lastId := s.lastId, upcoming := ua.1, active := ua.2, finished := [],
    balance := s.balance }

/-- **export → import = activate the due gauges + forget the finished ones.** -/
theorem exportImport_eq {s : State} {now : Int} (hi : Inv s) (hs : SInv s) (hw : WFInv s)
    (hstarted : ∀ kv ∈ s.active, kv.1 ≤ now) :
    exportImport now s = (activate now s.upcoming s.active).map (imported s) := by
  obtain ⟨A, hA1, hA2, hA3⟩ := snapshot_store hi.ids hs.kact
  obtain ⟨U, hU1, hU2, hU3⟩ := snapshot_store hi.ids hs.kup
  have hnd := hi.refs
  rw [List.append_assoc] at hnd
  have hnU : (refsIds s.upcoming).Nodup := (List.nodup_append.mp hnd).1
  have hnA : (refsIds s.active).Nodup := (List.nodup_append.mp (List.nodup_append.mp hnd).2.1).1
  have hAact : ∀ g ∈ A, g.isUpcomingAt now = false ∧ g.isActiveAt now = true := by
    intro g hg
    have : gkey g ∈ A.map gkey := List.mem_map_of_mem hg
    rw [hA2] at this
    obtain ⟨kv, hkv, e1, _⟩ := mem_pairs.mp this
    have hle := hstarted kv hkv
    have ha := hs.act g (hA3 g hg).1 (hA3 g hg).2
    simp only [gkey] at e1
    simp only [Gauge.isUpcomingAt, Gauge.isActiveAt, decide_eq_false_iff_not, Bool.and_eq_true, decide_eq_true_eq,
      Bool.or_eq_true]
    exact ⟨by omega, by omega, ha⟩
  have hUact : ∀ g ∈ U, g.perpetual = true ∨ g.filled < g.numEpochs := by
    intro g hg
    have h0 := (hs.up g (hU3 g hg).1 (hU3 g hg).2).1
    rcases hs.pos g (hU3 g hg).1 with h1 | h1
    · exact Or.inl h1
    · exact Or.inr (by omega)
  have hG : importedGauges s = putAll (putAll [] A) U := by
    unfold importedGauges
    rw [List.filterMap_append, ← snapshot_eq_filterMap hA1, ← snapshot_eq_filterMap hU1]
    simp only [putAll, List.foldl_append]
  simp only [exportImport, exportGenesis, hA1, hU1, Option.bind_some, initGenesis, freshOf]
  rw [setGaugesWithRefKey_append, import_allActive now A _ hAact]
  simp only [hA2, addPairs_rebuild s.active [] (by simpa using hw.2) hnA, List.nil_append, Option.map_some,
    Option.bind_some]
  rw [import_upcomingStore now s.upcoming U _ hw.1 hnU hU2 hUact rfl]
  cases activate now s.upcoming s.active with
  | none => rfl
  | some ua => simp only [Option.map_some, imported, hG]

/-! ## what the imported gauge store answers -/

theorem getGauge_putGauge (L : List Gauge) (g : Gauge) (id : Nat) :
    getGauge (putGauge L g) id = if g.id = id then some g else getGauge L id := by
  induction L with
  | nil => simp only [putGauge, getGauge, List.find?_cons, List.find?_nil]; split <;> simp_all
  | cons x xs ih =>
    simp only [putGauge]
    split
    · simp only [getGauge, List.find?_cons]; split <;> simp_all
    · split
      · rename_i h1 h2
        simp only [getGauge, List.find?_cons]
        by_cases hg : g.id = id
        · simp [hg]
        · have : ¬ x.id = id := by rw [← h2]; exact hg
          simp [hg, this]
      · rename_i h1 h2
        have hx : getGauge (x :: putGauge xs g) id = if x.id = id then some x else getGauge (putGauge xs g) id := by
          simp only [getGauge, List.find?_cons]; split <;> simp_all
        have hy : getGauge (x :: xs) id = if x.id = id then some x else getGauge xs id := by
          simp only [getGauge, List.find?_cons]; split <;> simp_all
        rw [hx, hy, ih]
        by_cases hxi : x.id = id
        · have : ¬ g.id = id := by rw [← hxi]; exact h2
          simp [hxi, this]
        · simp [hxi]

theorem getGauge_putAll : ∀ (G L : List Gauge) (id : Nat), (G.map (·.id)).Nodup →
    getGauge (putAll L G) id = (match G.find? (fun g => g.id = id) with | some g => some g | none => getGauge L id)
  | [], _, _, _ => rfl
  | g :: G, L, id, hn => by
    simp only [List.map_cons, List.nodup_cons] at hn
    simp only [putAll, List.foldl_cons]
    have := getGauge_putAll G (putGauge L g) id hn.2
    simp only [putAll] at this
    rw [this, getGauge_putGauge, List.find?_cons]
    by_cases hg : g.id = id
    · have hnone : G.find? (fun x => decide (x.id = id)) = none := by
        rw [List.find?_eq_none]
        intro x hx
        simp only [decide_eq_true_eq]
        intro e
        exact hn.1 (List.mem_map.mpr ⟨x, hx, by rw [e, hg]⟩)
      simp [hg, hnone]
    · simp [hg]

theorem find_filterMap_getGauge (gs : List Gauge) (id : Nat) : ∀ (ids : List Nat),
    (ids.filterMap (getGauge gs)).find? (fun g => g.id = id) = if id ∈ ids then getGauge gs id else none
  | [] => by simp
  | i :: is => by
    simp only [List.filterMap_cons]
    cases hg : getGauge gs i with
    | none =>
      simp only [find_filterMap_getGauge gs id is, List.mem_cons]
      by_cases e : id = i
      · subst e; simp [hg]
      · simp [e]
    | some g =>
      have hid := (getGauge_some hg).2
      simp only [List.find?_cons, find_filterMap_getGauge gs id is, List.mem_cons]
      by_cases e : id = i
      · subst e; simp [hid, hg]
      · have : ¬ g.id = id := by rw [hid]; exact fun h => e h.symm
        simp [e, this]

theorem map_id_filterMap_getGauge (gs : List Gauge) : ∀ (ids : List Nat), ids.Nodup →
    ((ids.filterMap (getGauge gs)).map (·.id)).Nodup
  | [], _ => by simp
  | i :: is, hn => by
    have hn' := List.nodup_cons.mp hn
    simp only [List.filterMap_cons]
    cases hg : getGauge gs i with
    | none => exact map_id_filterMap_getGauge gs is hn'.2
    | some g =>
      simp only [List.map_cons, List.nodup_cons]
      refine ⟨?_, map_id_filterMap_getGauge gs is hn'.2⟩
      intro hm
      obtain ⟨g', hg', e⟩ := List.mem_map.mp hm
      obtain ⟨j, hj, hgj⟩ := List.mem_filterMap.mp hg'
      have h1 := (getGauge_some hgj).2
      have h2 := (getGauge_some hg).2
      have : j = i := by rw [← h1, e, h2]
      subst this
      exact hn'.1 hj

/-- the imported store holds exactly the records of the gauges filed as active or upcoming. -/
theorem getGauge_imported {s : State} (hi : Inv s) (id : Nat) :
    getGauge (importedGauges s) id =
      if id ∈ refsIds s.active ++ refsIds s.upcoming then getGauge s.gauges id else none := by
  have hnd := hi.refs
  rw [List.append_assoc] at hnd
  have hn : (refsIds s.active ++ refsIds s.upcoming).Nodup := by
    have h1 := List.nodup_append.mp hnd
    have h2 := List.nodup_append.mp h1.2.1
    refine List.nodup_append.mpr ⟨h2.1, h1.1, ?_⟩
    intro a ha b hb e
    exact h1.2.2 b hb a (List.mem_append_left _ ha) e.symm
  unfold importedGauges
  rw [getGauge_putAll _ _ _ (map_id_filterMap_getGauge _ _ hn), find_filterMap_getGauge]
  by_cases h : id ∈ refsIds s.active ++ refsIds s.upcoming
  · simp only [if_pos h]
    cases getGauge s.gauges id <;> rfl
  · simp only [if_neg h]
    rfl

end OsmoVerif.Incentives
