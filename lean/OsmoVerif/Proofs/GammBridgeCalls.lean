/-
Bridge C02 ⟷ C04, part 3: the pool-model CALLS a message makes and what the record updates do to `PoolOK`.

`calls s m` lists, in execution order and with the pool RECORD each one ran on, every pool-model call the keeper
makes while executing message `m` from state `s` (as far as the execution gets).  A call is `tied` when the number
on the op line is the result of the Model/Gamm function on that record; it is an `entireReserve` event when a
balancer `SwapOutAmtGivenIn` answered with exactly the whole out-reserve (finding F13).
-/
import OsmoVerif.Proofs.GammBridge

namespace OsmoVerif.Gamm
open OsmoVerif.Ledger OsmoVerif.Ledger.Bank OsmoVerif.Num

/-- a pool-model call made by the keeper: the record it ran on, the arguments, and the result on the op line. -/
inductive Call where
  | swapIn (p : Pool) (id : Nat) (din : Denom) (a : Int) (dout : Denom) (math : Option Int)   -- `SwapOutAmtGivenIn`
  | swapOut (p : Pool) (id : Nat) (din dout : Denom) (b : Int) (math : Option Int)            -- `SwapInAmtGivenOut`
  | calcIn (p : Pool) (id : Nat) (din dout : Denom) (b : Int) (est : Option Int)              -- `CalcInAmtGivenOut`
  | joinNoSwap (p : Pool) (id : Nat) (needed : Coins) (math : Option (Int × Coins))           -- `JoinPoolNoSwap`
  | joinSingle (p : Pool) (id : Nat) (din : Denom) (amt : Int) (math : Option Int)            -- `JoinPool` (one coin)
  | tokenInShareOut (p : Pool) (id : Nat) (din : Denom) (shareOut : Int) (math : Option Int)  -- `CalcTokenInShareAmountOut`
  | exit (p : Pool) (id : Nat) (shareIn : Int) (math : Option Coins)                          -- `ExitPool`
  | exitSwapOut (p : Pool) (id : Nat) (dout : Denom) (amtOut : Int) (math : Option Int)       -- `ExitSwapExactAmountOut`

/-- the op-line result IS the Model/Gamm result on the record the call ran on.
(`ExitSwapExactAmountOut` also takes the message's share maximum, which the op line does not carry: a result
`sh` is tied when the model returns `sh` under the maximum `sh`, hence under every maximum ≥ `sh`.) -/
def Call.tied (cfg : Cfg) : Call → Bool
  | .swapIn p id din a dout m => decide (m = gmSwapOut (cfg id) p din a dout)
  | .swapOut p id din dout b m => decide (m = gmSwapIn (cfg id) p din dout b)
  | .calcIn p id din dout b e => decide (e = gmCalcIn (cfg id) p din dout b)
  | .joinNoSwap p id needed m => decide (m.map (fun r => (r.1, nameCoins r.2)) = gmJoinNoSwap (cfg id) p needed)
  | .joinSingle p id din amt m => decide (m = gmJoinSingle (cfg id) p din amt)
  | .tokenInShareOut p id din sh m => decide (m = gmTokenInShareOut (cfg id) p din sh)
  | .exit p id sh m => decide (m.map nameCoins = gmExit (cfg id) p sh)
  | .exitSwapOut p id dout amt m =>
    match m with
    | some sh => decide (gmExitSwapOut (cfg id) p dout amt sh = some sh)
    | none => true

/-- the part of `tied` that the LEDGER theorems need: only the all-asset join, the exit and the
`ExitSwapExactAmountOut` results must be Model/Gamm's; swap, estimate and single-asset-join results may be anything. -/
def Call.tiedLP (cfg : Cfg) : Call → Bool
  | .joinNoSwap p id needed m => (Call.joinNoSwap p id needed m).tied cfg
  | .exit p id sh m => (Call.exit p id sh m).tied cfg
  | .exitSwapOut p id dout amt m => (Call.exitSwapOut p id dout amt m).tied cfg
  | _ => true

theorem Call.tiedLP_of_tied {cfg : Cfg} {c : Call} (h : c.tied cfg = true) : c.tiedLP cfg = true := by
  cases c <;> first | exact h | rfl

/-- finding F13: a balancer `SwapOutAmtGivenIn` answered with EXACTLY the whole out-reserve of the record. -/
def Call.entireReserve : Call → Bool
  | .swapIn p _ _ _ dout (some out) => decide (p.kind = .balancer) && decide (out = p.res dout)
  | _ => false

def poolCall (s : State) (id : Nat) (f : Pool → Call) : List Call :=
  match getPool s.pools id with
  | some p => [f p]
  | none => []

def hopInCalls (s : State) (u : Nat) (din : Denom) (amt : Int) (h : HopIn) : List Call :=
  match chargeTakerFee s u din amt h.dout true with
  | some (s1, after, _) => poolCall s1 h.pool fun p => .swapIn p h.pool din after h.dout h.math
  | none => []

def routeInCalls (s : State) (u : Nat) (din : Denom) (amt : Int) (minOut : Int) : List HopIn → List Call
  | [] => []
  | [h] => hopInCalls s u din amt h
  | h :: h2 :: hs =>
    hopInCalls s u din amt h ++
      (match hopIn s u din amt h 1 with
       | some (s1, out) => routeInCalls s1 u h.dout out minOut (h2 :: hs)
       | none => [])

/-- the estimate pass `createMultihopExpectedSwapOuts` (all on the state before the route). -/
def estCalls (s : State) (final : Denom × Int) : List HopOut → List Call
  | [] => []
  | h :: hs =>
    estCalls s final hs ++
      (match expectedIns s.params final hs with
       | some rest =>
         let tout : Denom × Int := match hs, rest with
           | h2 :: _, x :: _ => (h2.din, x)
           | _, _ => final
         poolCall s h.pool fun p => .calcIn p h.pool h.din tout.1 tout.2 h.est
       | none => [])

def routeOutCalls (s : State) (u : Nat) (final : Denom × Int) : List HopOut → List Int → List Call
  | [], _ => []
  | _ :: _, [] => []
  | h :: hs, e :: es =>
    let tout : Denom × Int := match hs, es with
      | h2 :: _, x :: _ => (h2.din, x)
      | _, _ => final
    (poolCall s h.pool fun p => .swapOut p h.pool h.din tout.1 tout.2 h.math) ++
      (match hopOut s u h e tout with
       | some (s1, _) => routeOutCalls s1 u final hs es
       | none => [])

def exitSwapCalls (s : State) (u id : Nat) (dout : Denom) : Coins → List (Option Int) → List Call
  | [], _ => []
  | (d, a) :: cs, ms =>
    if d = dout then exitSwapCalls s u id dout cs ms else
    match ms with
    | [] => []
    | m :: ms' =>
      (poolCall s id fun p => .swapIn p id d a dout m) ++
        (match gammSwapIn s u id d a dout 0 m with
         | some (s1, _) => exitSwapCalls s1 u id dout cs ms'
         | none => [])

/-- every pool-model call of a message, in execution order. -/
def calls (s : State) : Msg → List Call
  | .createPool .. => []
  | .joinPool _ id sh _ m =>
    match getPool s.pools id with
    | some p =>
      (match getMaximalNoSwapLPAmount p sh with
       | some needed => [.joinNoSwap p id needed m]
       | none => [])
    | none => []
  | .joinSwapExternAmountIn _ id d a _ m => poolCall s id fun p => .joinSingle p id d a m
  | .joinSwapShareAmountOut _ id d sh _ m => poolCall s id fun p => .tokenInShareOut p id d sh m
  | .exitPool _ id sh _ m => poolCall s id fun p => .exit p id sh m
  | .exitSwapShareAmountIn u id d sh _ m ms =>
    (poolCall s id fun p => .exit p id sh m) ++
      (match exitPool s u id sh [] m with
       | some (s1, ec) => exitSwapCalls s1 u id d ec ms
       | none => [])
  | .exitSwapExternAmountOut _ id d a m => poolCall s id fun p => .exitSwapOut p id d a m
  | .swapExactAmountIn u d a mn hops => routeInCalls s u d a mn hops
  | .swapExactAmountOut u mx d a hops =>
    estCalls s (d, a) hops ++
      (match expectedIns s.params (d, a) hops with
       | some (_ :: es) => routeOutCalls s u (d, a) hops (mx :: es)
       | _ => [])
  | .bankSend .. => []

theorem poolCall_some {s : State} {id : Nat} {p : Pool} (h : getPool s.pools id = some p) (f : Pool → Call) :
    poolCall s id f = [f p] := by
  unfold poolCall; rw [h]

/-! ## the record updates keep `PoolOK` -/

theorem PoolOK.of_reserves {p q : Pool} (h : PoolOK p) (hr : q.reserves = p.reserves) : PoolOK q :=
  ⟨by rw [hr]; exact h.nodup, by rw [hr]; exact h.pos⟩

theorem recSwap_PoolOK {p p' : Pool} {din dout : Denom} {a b : Int} {ok : Bool}
    (h : recSwap p din a dout b = some (p', ok)) (hp : PoolOK p) : PoolOK p' := by
  unfold recSwap at h
  split at h
  · cases h
  · rename_i hhas
    simp only [Bool.or_eq_true, Bool.not_eq_eq_eq_not, Bool.not_true, not_or, Bool.not_eq_false] at hhas
    simp only at h
    split at h
    · split at h
      · cases h
      · rename_i hneg
        injection h with h; injection h with h1 _; subst h1
        have h1 : PoolOK (if p.res din + a = 0 then p else p.setRes din (p.res din + a)) := by
          split
          · exact hp
          · exact hp.setRes hhas.1 (by omega)
        have hhas2 : (if p.res din + a = 0 then p else p.setRes din (p.res din + a)).has dout = true := by
          split
          · exact hhas.2
          · rw [Pool.has_setRes, hhas.2, Bool.or_true]
        split
        · exact h1
        · exact h1.setRes hhas2 (by omega)
    · split at h
      · cases h
      · rename_i hneg
        injection h with h; injection h with h1 _; subst h1
        have h1 : PoolOK (p.setRes din (p.res din + a)) := hp.setRes hhas.1 (by omega)
        exact h1.setRes (by rw [Pool.has_setRes, hhas.2, Bool.or_true]) (by omega)

theorem recAddCoins_PoolOK : ∀ (cs : Coins) {p p' : Pool}, recAddCoins p cs = some p' → PoolOK p →
    (∀ c ∈ cs, 0 ≤ c.2) → PoolOK p' ∧ ∀ c ∈ cs, c.1 ∈ keys p.reserves
  | [], p, p', h, hp, _ => by
    simp only [recAddCoins] at h; injection h with h; subst h
    exact ⟨hp, fun c hc => by cases hc⟩
  | (d0, a) :: cs, p, p', h, hp, hnn => by
    simp only [recAddCoins] at h
    split at h
    · rename_i hhas
      have ha := hnn (d0, a) (List.mem_cons_self ..)
      simp only at ha
      have hpos := hp.res_pos hhas
      have h1 : PoolOK (p.setRes d0 (p.res d0 + a)) := hp.setRes hhas (by omega)
      obtain ⟨r1, r2⟩ := recAddCoins_PoolOK cs h h1 (fun c hc => hnn c (List.mem_cons_of_mem _ hc))
      refine ⟨r1, fun c hc => ?_⟩
      rcases List.mem_cons.mp hc with hc | hc
      · rw [hc]; exact (p.has_iff d0).mp hhas
      · have := r2 c hc
        rw [keys_setRes hhas] at this; exact this
    · cases h

theorem recJoin_PoolOK {cs : Coins} {p p' : Pool} {n : Int} (h : recJoin p cs n = some p') (hp : PoolOK p)
    (hnn : ∀ c ∈ cs, 0 ≤ c.2) : PoolOK p' ∧ ∀ c ∈ cs, c.1 ∈ keys p.reserves := by
  unfold recJoin at h
  cases h1 : recAddCoins p cs with
  | none => rw [h1] at h; cases h
  | some q =>
    rw [h1] at h
    simp only [Option.map_some] at h
    injection h with h; subst h
    obtain ⟨r1, r2⟩ := recAddCoins_PoolOK cs h1 hp hnn
    exact ⟨r1.of_reserves rfl, r2⟩

theorem recSubCoins_PoolOK : ∀ (cs : Coins) {p p' : Pool} {ok : Bool}, recSubCoins p cs = some (p', ok) → PoolOK p →
    PoolOK p' ∧ ∀ c ∈ cs, c.1 ∈ keys p.reserves
  | [], p, p', ok, h, hp => by
    simp only [recSubCoins] at h; injection h with h; injection h with h1 _; subst h1
    exact ⟨hp, fun c hc => by cases hc⟩
  | (d0, a) :: cs, p, p', ok, h, hp => by
    simp only [recSubCoins] at h
    split at h
    · cases h
    · rename_i hhas
      have hhas : p.has d0 = true := by
        cases hh : p.has d0 with
        | true => rfl
        | false => rw [hh] at hhas; exact absurd rfl hhas
      have hmem0 : d0 ∈ keys p.reserves := (p.has_iff d0).mp hhas
      split at h
      · split at h
        · cases h
        · split at h
          · cases h1 : recSubCoins p cs with
            | none => rw [h1] at h; cases h
            | some r =>
              rw [h1] at h
              simp only [Option.map_some] at h
              injection h with h; injection h with h2 _; subst h2
              obtain ⟨r1, r2⟩ := recSubCoins_PoolOK cs (p := p) (p' := r.1) (ok := r.2) (by rw [h1]) hp
              refine ⟨r1, fun c hc => ?_⟩
              rcases List.mem_cons.mp hc with hc | hc
              · rw [hc]; exact hmem0
              · exact r2 c hc
          · have h1 : PoolOK (p.setRes d0 (p.res d0 - a)) := hp.setRes hhas (by omega)
            obtain ⟨r1, r2⟩ := recSubCoins_PoolOK cs h h1
            refine ⟨r1, fun c hc => ?_⟩
            rcases List.mem_cons.mp hc with hc | hc
            · rw [hc]; exact hmem0
            · have := r2 c hc
              rw [keys_setRes hhas] at this; exact this
      · split at h
        · cases h
        · have h1 : PoolOK (p.setRes d0 (p.res d0 - a)) := hp.setRes hhas (by omega)
          obtain ⟨r1, r2⟩ := recSubCoins_PoolOK cs h h1
          refine ⟨r1, fun c hc => ?_⟩
          rcases List.mem_cons.mp hc with hc | hc
          · rw [hc]; exact hmem0
          · have := r2 c hc
            rw [keys_setRes hhas] at this; exact this

theorem recExit_PoolOK {cs : Coins} {p p' : Pool} {n : Int} {ok : Bool} (h : recExit p cs n = some (p', ok)) (hp : PoolOK p) :
    PoolOK p' ∧ ∀ c ∈ cs, c.1 ∈ keys p.reserves := by
  unfold recExit at h
  cases h1 : recSubCoins p cs with
  | none => rw [h1] at h; cases h
  | some r =>
    rw [h1] at h
    simp only [Option.map_some] at h
    injection h with h; injection h with h2 _; subst h2
    obtain ⟨r1, r2⟩ := recSubCoins_PoolOK cs (p := p) (p' := r.1) (ok := r.2) (by rw [h1]) hp
    exact ⟨r1.of_reserves rfl, r2⟩

theorem PoolsOK.setPool {s s' : State} {id : Nat} {p' : Pool} (h : PoolsOK s) (hp : PoolOK p')
    (hs : s'.pools = setPool s.pools id p') : PoolsOK s' := by
  intro id' q hq
  rw [hs, getPool_setPool] at hq
  split at hq
  · injection hq with hq; subst hq; exact hp
  · exact h id' q hq

theorem PoolsOK.of_pools {s s' : State} (h : PoolsOK s) (hs : s'.pools = s.pools) : PoolsOK s' := by
  intro id q hq; rw [hs] at hq; exact h id q hq

end OsmoVerif.Gamm
