/- Store invariants of the accumulator model preserved by every admissible op (fresh handle,
transactional panics): total shares = Σ position shares, sdk ordering of all stored DecCoins,
key uniqueness, positions only under existing accumulators.  Core only. -/
import OsmoVerif.Proofs.AccumStore

namespace OsmoVerif.Accum
open OsmoVerif.Num

theorem adel_aset {κ α : Type} [DecidableEq κ] (l : List (κ × α)) (k : κ) (v : α) : adel (aset l k v) k = adel l k := by
  induction l with
  | nil => simp [aset, adel]
  | cons c t ih =>
    obtain ⟨k', w⟩ := c
    by_cases hk : k' = k
    · subst hk; simp [aset, adel]
    · simp [aset, adel, hk, ih]

theorem adel_adel {κ α : Type} [DecidableEq κ] (l : List (κ × α)) (k : κ) : adel (adel l k) k = adel l k :=
  adel_of_none (by rw [alookup_adel, if_pos rfl])

structure Inv (st : Store) : Prop where
  nosep : NoSep st
  uniq : uniqK st.poss
  owner : ∀ a q p, st.getPos a q = some p → ∃ c, alookup st.accs a = some c
  srtA : ∀ a c, alookup st.accs a = some c → sorted c.value = true
  srtP : ∀ a q p, st.getPos a q = some p → sorted p.snap = true ∧ sorted p.unclaimed = true
  total : ∀ a c, alookup st.accs a = some c → c.total = sumShares st.poss a

theorem inv_empty : Inv Store.empty where
  nosep := by intro a c h; cases h
  uniq := trivial
  owner := by intro a q p h; cases h
  srtA := by intro a c h; cases h
  srtP := by intro a q p h; cases h
  total := by intro a c h; cases h

/-- effect of an op on the positions of accumulator `a`. -/
inductive PosEff where
  | keep
  | set (pos : String) (r : Record)
  | del (pos : String)

def applyPE (l : List ((String × String) × Record)) (a : String) : PosEff → List ((String × String) × Record)
  | .keep => l
  | .set pos r => aset l (a, pos) r
  | .del pos => adel l (a, pos)

theorem sumShares_zero {l : List ((String × String) × Record)} {a : String} (h : ∀ q, alookup l (a, q) = none) :
    sumShares l a = 0 := by
  induction l with
  | nil => rfl
  | cons c t ih =>
    obtain ⟨⟨a', q'⟩, r⟩ := c
    by_cases ha : a' = a
    · subst ha
      have := h q'
      simp [alookup] at this
    · have ht : ∀ q, alookup t (a, q) = none := by
        intro q
        have := h q
        simp only [alookup] at this
        rw [if_neg (fun e => ha (Prod.mk.inj e).1)] at this
        exact this
      simp only [sumShares, if_neg ha, ih ht, Int.zero_add]

theorem inv_update {st : Store} (hI : Inv st) {a : String} {c : Content} (hc : alookup st.accs a = some c)
    (c' : Content) (pe : PosEff) (hv : sorted c'.value = true)
    (hpe : match pe with
      | .keep => c'.total = c.total
      | .set pos r => sorted r.snap = true ∧ sorted r.unclaimed = true ∧
          c'.total = c.total + r.shares - oldShares st.poss (a, pos)
      | .del pos => c'.total = c.total - oldShares st.poss (a, pos)) :
    Inv ⟨aset st.accs a c', applyPE st.poss a pe⟩ := by
  have hs := hI.nosep _ _ hc
  have hacc : ∀ a' x, alookup (aset st.accs a c') a' = some x → (a' = a ∧ x = c') ∨ (a' ≠ a ∧ alookup st.accs a' = some x) := by
    intro a' x hx
    rw [alookup_aset] at hx
    by_cases h : a = a'
    · rw [if_pos h] at hx; cases hx; exact Or.inl ⟨h.symm, rfl⟩
    · rw [if_neg h] at hx; exact Or.inr ⟨fun e => h e.symm, hx⟩
  have hex : ∀ a', (∃ x, alookup st.accs a' = some x) → ∃ x, alookup (aset st.accs a c') a' = some x := by
    intro a' ⟨x, hx⟩
    rw [alookup_aset]
    by_cases h : a = a'
    · rw [if_pos h]; exact ⟨_, rfl⟩
    · rw [if_neg h]; exact ⟨x, hx⟩
  refine ⟨?_, ?_, ?_, ?_, ?_, ?_⟩
  · intro a' x hx
    rcases hacc a' x hx with ⟨rfl, _⟩ | ⟨_, h⟩
    · exact hs
    · exact hI.nosep _ _ h
  · cases pe with
    | keep => exact hI.uniq
    | set pos r => exact uniqK_aset hI.uniq _ _
    | del pos => exact uniqK_adel hI.uniq _
  · intro a' q p hp
    cases pe with
    | keep => exact hex _ (hI.owner a' q p hp)
    | set pos r =>
      simp only [Store.getPos, applyPE] at hp
      rw [alookup_aset] at hp
      by_cases h : (a, pos) = (a', q)
      · obtain ⟨rfl, rfl⟩ := Prod.mk.inj h
        exact hex _ ⟨c, hc⟩
      · rw [if_neg h] at hp; exact hex _ (hI.owner a' q p hp)
    | del pos =>
      simp only [Store.getPos, applyPE] at hp
      rw [alookup_adel] at hp
      by_cases h : (a, pos) = (a', q)
      · rw [if_pos h] at hp; cases hp
      · rw [if_neg h] at hp; exact hex _ (hI.owner a' q p hp)
  · intro a' x hx
    rcases hacc a' x hx with ⟨_, rfl⟩ | ⟨_, h⟩
    · exact hv
    · exact hI.srtA _ _ h
  · intro a' q p hp
    cases pe with
    | keep => exact hI.srtP a' q p hp
    | set pos r =>
      simp only [Store.getPos, applyPE] at hp
      rw [alookup_aset] at hp
      by_cases h : (a, pos) = (a', q)
      · rw [if_pos h] at hp; cases hp; exact ⟨hpe.1, hpe.2.1⟩
      · rw [if_neg h] at hp; exact hI.srtP a' q p hp
    | del pos =>
      simp only [Store.getPos, applyPE] at hp
      rw [alookup_adel] at hp
      by_cases h : (a, pos) = (a', q)
      · rw [if_pos h] at hp; cases hp
      · rw [if_neg h] at hp; exact hI.srtP a' q p hp
  · intro a' x hx
    have hold := hI.total a c hc
    show x.total = sumShares (applyPE st.poss a pe) a'
    rcases hacc a' x hx with ⟨rfl, rfl⟩ | ⟨hne, h⟩
    · cases pe with
      | keep => simp only [applyPE]; rw [hpe, hold]
      | set pos r => simp only [applyPE]; rw [sumShares_aset, if_pos rfl, hpe.2.2, hold]; omega
      | del pos => simp only [applyPE]; rw [sumShares_adel hI.uniq, if_pos rfl, hpe, hold]
    · have := hI.total _ _ h
      cases pe with
      | keep => exact this
      | set pos r => simp only [applyPE]; rw [sumShares_aset, if_neg (fun e => hne e.symm), this]; omega
      | del pos => simp only [applyPE]; rw [sumShares_adel hI.uniq, if_neg (fun e => hne e.symm), this]; omega

theorem getTotalRewards_sorted {h : Handle} {p : Record} {tot : DecCoins} (hu : sorted p.unclaimed = true)
    (ht : getTotalRewards h p = some tot) : sorted tot = true := by
  unfold getTotalRewards at ht
  split at ht
  · cases ht
  · split at ht
    · cases ht
    · next acc hacc => exact add_sorted _ _ _ hu (mulDec_sorted hacc) ht

theorem oldShares_of {st : Store} {a pos : String} {p : Record} (h : st.getPos a pos = some p) :
    oldShares st.poss (a, pos) = p.shares := by
  unfold oldShares; rw [show alookup st.poss (a, pos) = some p from h]

theorem ivOr_sorted {iv : Option DecCoins} {a : String} {c : Content} (hc : sorted c.value = true)
    (hiv : ivSorted iv = true) : sorted (ivOr iv (fresh a c)) = true := by
  cases iv with
  | none => exact hc
  | some v => exact hiv

theorem settleOf_adm {st : Store} {op : Op} {a pos : String} {delta : Int} {iv : Option DecCoins}
    (hop : settleOf op = some (a, pos, delta, iv)) (hadm : admissible st op = true) :
    ivSorted iv = true := by
  cases op with
  | addPos a' pos' n iv' =>
    simp only [settleOf, Option.some.injEq, Prod.mk.injEq] at hop; obtain ⟨_, _, _, rfl⟩ := hop
    simpa [admissible] using hadm
  | remPos a' pos' n iv' =>
    simp only [settleOf, Option.some.injEq, Prod.mk.injEq] at hop; obtain ⟨_, _, _, rfl⟩ := hop
    simpa [admissible] using hadm
  | updPos a' pos' n iv' =>
    simp only [settleOf, Option.some.injEq, Prod.mk.injEq] at hop; obtain ⟨_, _, _, rfl⟩ := hop
    simpa [admissible] using hadm
  | _ => simp [settleOf] at hop

theorem inv_succ {st st' : Store} {op : Op} (hI : Inv st) (hadm : admissible st op = true) (h : Succ st op st') : Inv st' := by
  cases h with
  | make h1 h2 =>
    rename_i a
    refine ⟨?_, hI.uniq, ?_, ?_, hI.srtP, ?_⟩
    · intro a' x hx
      rw [alookup_aset] at hx
      by_cases h : a = a'
      · subst h; exact h2
      · rw [if_neg h] at hx; exact hI.nosep _ _ hx
    · intro a' q p hp
      obtain ⟨x, hx⟩ := hI.owner a' q p hp
      show ∃ c, alookup (aset st.accs a _) a' = some c
      rw [alookup_aset]
      by_cases h : a = a'
      · rw [if_pos h]; exact ⟨_, rfl⟩
      · rw [if_neg h]; exact ⟨x, hx⟩
    · intro a' x hx
      rw [alookup_aset] at hx
      by_cases h : a = a'
      · rw [if_pos h] at hx; cases hx; rfl
      · rw [if_neg h] at hx; exact hI.srtA _ _ hx
    · intro a' x hx
      rw [alookup_aset] at hx
      by_cases h : a = a'
      · rw [if_pos h] at hx; cases hx; subst h
        show (0 : Int) = sumShares st.poss a
        rw [sumShares_zero]
        intro q
        cases hq : alookup st.poss (a, q) with
        | none => rfl
        | some p =>
          obtain ⟨x, hx⟩ := hI.owner a q p hq
          rw [h1] at hx; cases hx
      · rw [if_neg h] at hx; exact hI.total _ _ hx
  | grow h1 h2 =>
    rename_i a g c v
    simp only [admissible] at hadm
    exact inv_update hI h1 _ .keep (add_sorted _ _ _ (hI.srtA a c h1) hadm h2) rfl
  | newPos h1 =>
    rename_i a pos sh iv opt c
    simp only [admissible, Bool.and_eq_true, Option.isNone_iff_eq_none] at hadm
    refine inv_update hI h1 ⟨c.value, c.total + sh⟩ (.set pos _) (hI.srtA a c h1) ⟨ivOr_sorted (hI.srtA a c h1) hadm.2, rfl, ?_⟩
    have : oldShares st.poss (a, pos) = 0 := by
      unfold oldShares; rw [show alookup st.poss (a, pos) = none from hadm.1]
    rw [this]; simp
  | settle hop h1 h2 h3 h4 =>
    rename_i a pos delta iv c p tot
    have hiv := settleOf_adm hop hadm
    refine inv_update hI h1 ⟨c.value, c.total + delta⟩ (.set pos _) (hI.srtA a c h1)
      ⟨ivOr_sorted (hI.srtA a c h1) hiv, getTotalRewards_sorted (hI.srtP _ _ _ h2).2 h3, ?_⟩
    rw [oldShares_of h2]; simp only; omega
  | setInt h1 h2 =>
    rename_i a pos iv c p
    simp only [admissible] at hadm
    have := inv_update hI h1 c (.set pos ⟨p.shares, iv, p.unclaimed, p.opt⟩) (hI.srtA a c h1)
      ⟨hadm, (hI.srtP _ _ _ h2).2, by rw [oldShares_of h2]; simp only; omega⟩
    rwa [aset_same h1] at this
  | addUnclaimed h1 h2 h3 =>
    rename_i a pos amt c p u
    simp only [admissible] at hadm
    have := inv_update hI h1 c (.set pos ⟨p.shares, p.snap, u, p.opt⟩) (hI.srtA a c h1)
      ⟨(hI.srtP _ _ _ h2).1, add_sorted _ _ _ (hI.srtP _ _ _ h2).2 hadm h3, by rw [oldShares_of h2]; simp only; omega⟩
    rwa [aset_same h1] at this
  | claim h1 h2 h3 h4 =>
    rename_i a pos c p tot tc dust
    by_cases hz : p.shares = 0
    · rw [if_pos hz]
      have := inv_update hI h1 c (.del pos) (hI.srtA a c h1) (by show c.total = c.total - oldShares st.poss (a, pos); rw [oldShares_of h2]; omega)
      rwa [aset_same h1] at this
    · rw [if_neg hz]
      have := inv_update hI h1 c (.set pos ⟨p.shares, c.value, [], p.opt⟩) (hI.srtA a c h1)
        ⟨hI.srtA _ _ h1, rfl, by rw [oldShares_of h2]; simp only; omega⟩
      rwa [aset_same h1] at this
  | delete h1 h2 h3 h4 =>
    rename_i a pos c p tot tc dust
    have hposs : adel (if p.shares = 0 then adel st.poss (a, pos) else aset st.poss (a, pos) ⟨p.shares, c.value, [], p.opt⟩) (a, pos)
        = adel st.poss (a, pos) := by
      split
      · exact adel_adel _ _
      · exact adel_aset _ _ _
    rw [hposs]
    exact inv_update hI h1 ⟨c.value, c.total - p.shares⟩ (.del pos) (hI.srtA a c h1) (by show c.total - p.shares = c.total - oldShares st.poss (a, pos); rw [oldShares_of h2])

theorem inv_step {st : Store} (hI : Inv st) {op : Op} (hadm : admissible st op = true) : Inv (stepTx st op) := by
  rcases step_cases hI.nosep op with ⟨_, h⟩ | ⟨_, h⟩
  · rw [h]; exact hI
  · exact inv_succ hI hadm h

theorem inv_run : ∀ (ops : List Op) (st : Store), Inv st → disciplined st ops = true → Inv (run st ops) := by
  intro ops
  induction ops with
  | nil => intro st h _; exact h
  | cons op t ih =>
    intro st h hd
    simp only [disciplined, Bool.and_eq_true] at hd
    exact ih _ (inv_step h hd.1) hd.2

end OsmoVerif.Accum
