/- C17 helper lemmas: one timer in one block (`processTimer`) against the hook-free step. -/
import OsmoVerif.Proofs.EpochsHooks
namespace OsmoVerif.Epochs

theorem planCalls_nil (k : Nat) : planCalls k [] = [] := rfl
theorem planCalls_append (k : Nat) (a b : List Signal) : planCalls k (a ++ b) = planCalls k a ++ planCalls k b := by
  simp [planCalls]

theorem mkCalls_range (id : String) (kd : Kind) (n : Int) (k : Nat) :
    mkCalls id kd n (List.range' 0 k) = callsOf k ⟨id, kd, n⟩ := rfl

theorem mem_mkCalls (id : String) (kd : Kind) (n : Int) (inv : List Nat) (c : Call) :
    c ∈ mkCalls id kd n inv ↔ ∃ i ∈ inv, c = ⟨id, kd, n, i⟩ := by
  simp [mkCalls, eq_comm]

theorem ticks_false_of_lt {t : Int} {e : EpochInfo} (h : t < e.startTime) : ticks t e = false := by
  simp [ticks]; intro h'; omega

/-- one timer, block did not panic while processing it: epoch state = hook-free step, signals = the
hook-free signals, every subscriber invoked once per signal in registration order, stores = contained
updates. -/
theorem processTimer_ok (t h : Int) (scr : Script) (e : EpochInfo) (subs : List Store)
    (hp : (processTimer t h scr e subs).panicked = false) :
    (processTimer t h scr e subs).info = pureStep t h e ∧
    (processTimer t h scr e subs).signals = pureSignals t e ∧
    (processTimer t h scr e subs).calls = planCalls subs.length (pureSignals t e) ∧
    (processTimer t h scr e subs).subs = (pureSignals t e).foldl (applySignal scr) subs := by
  by_cases h1 : t < e.startTime
  · have ht := ticks_false_of_lt h1
    simp [processTimer, h1, pureStep, pureSignals, ht, planCalls]
  · have h1' : e.startTime ≤ t := by omega
    by_cases hs : e.epochCountingStarted = true
    · by_cases h2 : e.currentEpochStartTime + e.duration < t
      · -- regular tick
        have ht : ticks t e = true := by simp [ticks, h1', h2]
        simp only [processTimer, h1, hs, h2, ht, pureStep, pureSignals] at hp ⊢
        simp only [if_false, if_true, Bool.not_true, Bool.or_false, decide_true,
          Bool.false_eq_true] at hp ⊢
        by_cases hp1 : (runHooksFrom (scr e.identifier Kind.epochEnd) 0 subs).panicked = true
        · simp [hp1] at hp
        · have hp1' : (runHooksFrom (scr e.identifier Kind.epochEnd) 0 subs).panicked = false := by
            cases hq : (runHooksFrom (scr e.identifier Kind.epochEnd) 0 subs).panicked <;> simp_all
          simp only [hp1', Bool.false_eq_true, if_false] at hp ⊢
          have r1 := runHooksFrom_ok _ subs 0 hp1'
          have r2 := runHooksFrom_ok _ _ 0 hp
          rw [r1.1] at r2
          rw [containFrom_length] at r2
          refine ⟨trivial, trivial, ?_, ?_⟩
          · rw [r1.2, r1.1, r2.2, mkCalls_range, mkCalls_range]
            simp [planCalls]
          · rw [r1.1, r2.1]; simp [applySignal]
      · have ht : ticks t e = false := by simp [ticks, hs, h2]
        simp [processTimer, h1, hs, h2, pureStep, pureSignals, ht, planCalls]
    · have hs' : e.epochCountingStarted = false := by
        cases hq : e.epochCountingStarted <;> simp_all
      have ht : ticks t e = true := by simp [ticks, h1', hs']
      simp only [processTimer, h1, hs', ht, pureStep, pureSignals] at hp ⊢
      simp only [if_false, if_true, Bool.not_false, Bool.or_true, Bool.not_true, Bool.false_eq_true] at hp ⊢
      have r := runHooksFrom_ok _ subs 0 hp
      refine ⟨trivial, trivial, ?_, ?_⟩
      · rw [r.2, mkCalls_range]; simp [planCalls]
      · rw [r.1]; simp [applySignal]


/-! ### possibly panicking: where the out-of-gas sits -/

theorem runHooksFrom_dropLast_noOog (f : Nat → HookRun) : ∀ (l : List Store) (i : Nat),
    ∀ j ∈ (runHooksFrom f i l).invoked.dropLast, (f j).outcome ≠ .oog
  | [], _ => by simp [runHooksFrom]
  | st :: r, i => by
    unfold runHooksFrom
    cases ha : applyIfNoError st (f i) with
    | none => simp
    | some st' =>
      have hc := (applyIfNoError_eq_some _ _ _ ha).2
      have ih := runHooksFrom_dropLast_noOog f r (i + 1)
      simp only
      cases hq : (runHooksFrom f (i + 1) r).invoked with
      | nil => simp
      | cons a q =>
        rw [hq] at ih
        rw [List.dropLast_cons_of_ne_nil (by simp)]
        intro j hj
        rcases List.mem_cons.1 hj with rfl | hj
        · exact hc
        · exact ih j hj

theorem exists_mkCalls_oog (scr : Script) (id : String) (kd : Kind) (n : Int) (inv : List Nat) :
    (∃ c ∈ mkCalls id kd n inv, c.isOog scr) ↔ ∃ j ∈ inv, (scr id kd j).outcome = .oog := by
  constructor
  · rintro ⟨c, hc, ho⟩
    obtain ⟨i, hi, rfl⟩ := (mem_mkCalls _ _ _ _ _).1 hc
    exact ⟨i, hi, ho⟩
  · rintro ⟨j, hj, ho⟩
    exact ⟨⟨id, kd, n, j⟩, (mem_mkCalls _ _ _ _ _).2 ⟨j, hj, rfl⟩, ho⟩

theorem mkCalls_dropLast (id : String) (kd : Kind) (n : Int) (inv : List Nat) :
    (mkCalls id kd n inv).dropLast = mkCalls id kd n inv.dropLast := by
  simp [mkCalls, List.map_dropLast]

theorem mkCalls_hooks_panicked_iff (scr : Script) (id : String) (kd : Kind) (n : Int) (subs : List Store) :
    (runHooksFrom (scr id kd) 0 subs).panicked = true ↔
      ∃ c ∈ mkCalls id kd n (runHooksFrom (scr id kd) 0 subs).invoked, c.isOog scr := by
  rw [exists_mkCalls_oog]; exact runHooksFrom_panicked_iff _ _ _

theorem mkCalls_hooks_dropLast (scr : Script) (id : String) (kd : Kind) (n : Int) (subs : List Store) :
    ∀ c ∈ (mkCalls id kd n (runHooksFrom (scr id kd) 0 subs).invoked).dropLast, ¬ c.isOog scr := by
  intro c hc ho
  rw [mkCalls_dropLast] at hc
  obtain ⟨i, hi, rfl⟩ := (mem_mkCalls _ _ _ _ _).1 hc
  exact runHooksFrom_dropLast_noOog _ _ _ i hi ho

/-- a call list whose only possible out-of-gas invocation is its last element, and which has one iff `p` -/
def WellCut (scr : Script) (calls : List Call) (p : Bool) : Prop :=
  (p = true ↔ ∃ c ∈ calls, c.isOog scr) ∧ ∀ c ∈ calls.dropLast, ¬ c.isOog scr

theorem WellCut.nil (scr : Script) : WellCut scr [] false := by simp [WellCut]

theorem WellCut.append {scr : Script} {a b : List Call} {p : Bool}
    (ha : WellCut scr a false) (hb : WellCut scr b p) : WellCut scr (a ++ b) p := by
  have hna : ∀ c ∈ a, ¬ c.isOog scr := by
    intro c hc ho
    have := ha.1.2 ⟨c, hc, ho⟩
    simp at this
  constructor
  · rw [hb.1]
    constructor
    · rintro ⟨c, hc, ho⟩; exact ⟨c, List.mem_append_right _ hc, ho⟩
    · rintro ⟨c, hc, ho⟩
      rcases List.mem_append.1 hc with hc | hc
      · exact absurd ho (hna c hc)
      · exact ⟨c, hc, ho⟩
  · by_cases hbn : b = []
    · subst hbn
      intro c hc
      rw [List.append_nil] at hc
      exact hna c (List.dropLast_subset a hc)
    · rw [List.dropLast_append_of_ne_nil hbn]
      intro c hc
      rcases List.mem_append.1 hc with hc | hc
      · exact hna c hc
      · exact hb.2 c hc

theorem wellCut_hooks (scr : Script) (id : String) (kd : Kind) (n : Int) (subs : List Store) :
    WellCut scr (mkCalls id kd n (runHooksFrom (scr id kd) 0 subs).invoked) (runHooksFrom (scr id kd) 0 subs).panicked :=
  ⟨mkCalls_hooks_panicked_iff scr id kd n subs, mkCalls_hooks_dropLast scr id kd n subs⟩

theorem processTimer_wellCut (t h : Int) (scr : Script) (e : EpochInfo) (subs : List Store) :
    WellCut scr (processTimer t h scr e subs).calls (processTimer t h scr e subs).panicked := by
  unfold processTimer
  simp only
  split
  · exact WellCut.nil scr
  · split
    · exact WellCut.nil scr
    · split
      · exact wellCut_hooks scr _ _ _ subs
      · split
        · rename_i hp
          have w1 := wellCut_hooks scr e.identifier Kind.epochEnd e.currentEpoch subs
          rw [hp] at w1
          exact w1
        · rename_i hnp
          have hnp' : (runHooksFrom (scr e.identifier Kind.epochEnd) 0 subs).panicked = false := by
            cases hq : (runHooksFrom (scr e.identifier Kind.epochEnd) 0 subs).panicked <;> simp_all
          have w1 := wellCut_hooks scr e.identifier Kind.epochEnd e.currentEpoch subs
          rw [hnp'] at w1
          exact WellCut.append w1 (wellCut_hooks scr _ _ _ _)

end OsmoVerif.Epochs
