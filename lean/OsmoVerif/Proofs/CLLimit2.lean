/-
C03 with a caller-supplied price limit, part 2 (step arithmetic, exact-out one-for-zero).
`GetNextSqrtPriceFromAmount0OutRoundingUp` rounds the next sqrt price UP, i.e. in the swap direction.  Whether it can
end beyond the target is not decided here (no instance found); what is proved: if it does — at sqrt prices ≥ 10^-6,
which is where every bucket with liquidity lies — the step delivers all that was still requested up to one raw unit
(10^-18 token), so the loop stops after it.
-/
import OsmoVerif.Proofs.CLLimit1
import OsmoVerif.Proofs.CLShortfall

namespace OsmoVerif.CLLimit
open OsmoVerif.CL OsmoVerif.CLSolv OsmoVerif.Num OsmoVerif.Gen OsmoVerif.Spec OsmoVerif.Props

/-- the exact token0 amount between `sp` and a price above it grows with that price. -/
theorem exact0_mono_up {liq sp t n : Int} (hl : 0 ≤ liq) (hsp : 0 < sp) (ht : sp ≤ t) (hn : t ≤ n) :
    exact0 liq t sp ≤ exact0 liq n sp := by
  rw [exact0_comm liq t sp, exact0_comm liq n sp, exact0_sorted ht, exact0_sorted (by omega : sp ≤ n)]
  have qs : (0 : ℚ) < sp := by exact_mod_cast hsp
  have qt : (sp : ℚ) ≤ t := by exact_mod_cast ht
  have qn : (t : ℚ) ≤ n := by exact_mod_cast hn
  have ql : (0 : ℚ) ≤ liq := by exact_mod_cast hl
  have t0 : (0 : ℚ) < t := by linarith
  have n0 : (0 : ℚ) < n := by linarith
  rw [div_le_div_iff₀ (by positivity) (by positivity)]
  have key : ((t : ℚ) - sp) * n ≤ ((n : ℚ) - sp) * t := by nlinarith
  have h36 : (0 : ℚ) ≤ (liq : ℚ) * 10 ^ 36 * sp := by positivity
  calc ((t : ℚ) - sp) * liq * 10 ^ 36 * (sp * n) = (((t : ℚ) - sp) * n) * ((liq : ℚ) * 10 ^ 36 * sp) := by ring
    _ ≤ (((n : ℚ) - sp) * t) * ((liq : ℚ) * 10 ^ 36 * sp) := mul_le_mul_of_nonneg_right key h36
    _ = ((n : ℚ) - sp) * liq * 10 ^ 36 * (sp * t) := by ring

/-- exact-out, one-for-zero: a step that ends beyond its target delivers all that remained, up to one raw unit. -/
theorem stepInGivenOut_ofz_pass {spf sp target liq remainingOut : Int} {r : StepResult}
    (hl : 0 ≤ liq) (hfloor : 1000000000000000000000000000000 ≤ sp) (hrem : 0 ≤ remainingOut) (hdir : sp ≤ target)
    (h : stepInGivenOut false spf sp target liq remainingOut = some r)
    (hpass : target < r.sqrtPriceNext) : remainingOut - r.amountSpecified ≤ 1 := by
  have hsp : 0 < sp := by omega
  have ht : 0 < target := by omega
  have hn : 0 < r.sqrtPriceNext := by omega
  obtain ⟨x, y, out0, -, hy, -, cO, -, h0, hnext⟩ := stepInGivenOut_decomp h
  have hlt : remainingOut * Pdiff < out0 := by
    by_cases hc : remainingOut * Pdiff ≥ out0
    · rw [if_pos hc] at hnext; injection hnext with e; omega
    · omega
  unfold deltaOut at hy h0
  simp only [Bool.false_eq_true, ↓reduceIte] at hy h0
  by_cases hcap : y > remainingOut * Pdiff
  · rw [if_pos hcap] at cO
    have := cO.exact Pdiff_pos
    omega
  · rw [if_neg hcap] at cO
    -- remaining ≤ exact(target) ≤ exact(next) < amount + 1 + loss0
    have hrp : 0 ≤ remainingOut * Pdiff := Int.mul_nonneg hrem Pdiff_nonneg
    have tr : IsTrunc (remainingOut * Pdiff) Pdiff remainingOut :=
      ⟨fun _ => ⟨Int.le_refl _, by rw [Int.add_mul]; have := Pdiff_pos; omega⟩,
        fun hneg => absurd hneg (by omega)⟩
    have hle := (le0_of_roundDown ht hsp hl h0 hrp (by omega) tr).1
    have q1 : (remainingOut : ℚ) ≤ exact0 liq target sp := (le0_iff ht hsp).mp hle
    have q2 := exact0_mono_up hl hsp hdir (by omega : target ≤ r.sqrtPriceNext)
    have q3 := out0_lower hn hsp hl hy cO
    have hm : (1000000000000000000000000000000 : Int) ≤ 1000000000000000000000000000000 := Int.le_refl _
    have q4 := outLoss_le (zfo := false) (p := r.sqrtPriceNext) (q := sp) (by decide : (0 : Int) < 1000000000000000000000000000000)
      (by omega) hfloor
    have q5 := outLossU_le (zfo := false) hm
    unfold outLoss at q4
    simp only [Bool.false_eq_true, ↓reduceIte] at q4
    have q6 : (remainingOut : ℚ) - 2 < (r.amountSpecified : ℚ) := by
      have : (2 : ℚ) / 10 ^ 6 < 1 := by norm_num
      linarith
    have : remainingOut - 2 < r.amountSpecified := by exact_mod_cast q6
    omega

end OsmoVerif.CLLimit
