/-
`PowApprox`: error analysis of the series loop over Mathlib reals (nothing here is used by the executable model).

For a base with `|base − 1| ≤ q < 1` and an exponent `0 ≤ a ≤ 1` the loop state after `k` iterations carries the SIGNED
term `±term ≈ C(a,k)·y^k` (within `D`, a fixed point of `D ↦ q·D + 2·mulErr + quoErr`: the error does not accumulate in
the term) and `sum ≈ Σ_{j≤k} C(a,j)·y^j` (within `k·D`).  Because `|C(a,k)·y^k| ≤ q^k`, the stopping rule
`term < 10^-8` fires after at most `N` iterations when `q^N + D < 10^-8` (the ITERATION BOUND; `N < 150000` so the
iteration limit is never met), no operation leaves the `LegacyDec` range, and the value returned is within
`powApproxEps q N D = N·D + (10^-8 + D)·(N/(N+1))·q/(1−q) + D/(1−q)` of `(1 + y)^a` (geometric remainder of the series,
`Proofs/MathPowSeries`).
-/
import OsmoVerif.Proofs.MathPowSeries
import OsmoVerif.Proofs.MathPowNum

namespace OsmoVerif.MathM
open OsmoVerif.Num OsmoVerif.Gen OsmoVerif.GammMath

/-- the three roundings of one term update `term·c·x/(k+1)`: they succeed and cost at most `2·mulErr + quoErr`. -/
theorem powTerm_step {term c x : Int} {k : ℕ} (ht0 : 0 ≤ term) (ht : dv term ≤ 2) (hc0 : 0 ≤ c)
    (hc : dv c ≤ k + 1) (hx0 : 0 ≤ x) (hx : dv x ≤ 1) (hk : k < 150000) :
    ∃ t1 t2 t3, Dec.mul term c = some t1 ∧ Dec.mul t1 x = some t2 ∧
      Dec.quo t2 (((k : Int) + 1) * P18) = some t3 ∧ 0 ≤ t3 ∧
      |dv t3 - dv term * dv c * dv x / (k + 1)| ≤ 2 * mulErr + quoErr := by
  have hT0 := dv_nonneg ht0
  have hC0 := dv_nonneg hc0
  have hX0 := dv_nonneg hx0
  have hkr : (k : ℝ) < 150000 := by exact_mod_cast hk
  have hk0 : (0 : ℝ) ≤ k := by positivity
  have hm : mulErr ≤ 1 / 10 ^ 18 / 2 := by unfold mulErr; norm_num
  have hqe : quoErr < 1 / 10 ^ 18 := by unfold quoErr; norm_num
  have hm0 := mulErr_pos
  have hTC : dv term * dv c ≤ 2 * (k + 1) := by nlinarith
  have hTC0 : 0 ≤ dv term * dv c := by positivity
  obtain ⟨t1, h1⟩ := Dec_mul_total (a := term) (b := c) (by rw [abs_of_nonneg hTC0]; nlinarith)
  have e1 := Dec_mul_dv_error h1
  obtain ⟨e1a, e1b⟩ := abs_le.mp e1
  have ht10 : 0 ≤ t1 := nonneg_of_dv (by linarith)
  have hT10 := dv_nonneg ht10
  have hT1X0 : 0 ≤ dv t1 * dv x := by positivity
  have hT1X : dv t1 * dv x ≤ 2 * (k + 1) + 1 := by nlinarith
  obtain ⟨t2, h2⟩ := Dec_mul_total (a := t1) (b := x) (by rw [abs_of_nonneg hT1X0]; nlinarith)
  have e2 := Dec_mul_dv_error h2
  obtain ⟨e2a, e2b⟩ := abs_le.mp e2
  have ht20 : 0 ≤ t2 := nonneg_of_dv (by linarith)
  have hT20 := dv_nonneg ht20
  have hb : ((k : Int) + 1) * P18 ≠ 0 := by
    have := P18_pos
    have : 0 < ((k : Int) + 1) * P18 := Int.mul_pos (by omega) this
    omega
  have hdb : dv (((k : Int) + 1) * P18) = (k : ℝ) + 1 := by rw [dv_P18_mul]; push_cast; ring
  have hK : (0 : ℝ) < (k : ℝ) + 1 := by positivity
  have hK1 : (1 : ℝ) ≤ (k : ℝ) + 1 := by linarith
  have hq0 : 0 ≤ dv t2 / ((k : ℝ) + 1) := by positivity
  have hq1 : dv t2 / ((k : ℝ) + 1) ≤ dv t2 := div_le_self hT20 hK1
  obtain ⟨t3, h3⟩ := Dec_quo_total (a := t2) hb (by rw [hdb, abs_of_nonneg hq0]; nlinarith)
  have e3 := (Dec_quo_dv_error h3).2
  rw [hdb] at e3
  obtain ⟨e3a, e3b⟩ := abs_le.mp e3
  have ht30 : 0 ≤ t3 := nonneg_of_dv (by linarith)
  refine ⟨t1, t2, t3, h1, h2, h3, ht30, ?_⟩
  have b2 : |(dv t2 - dv t1 * dv x) / ((k : ℝ) + 1)| ≤ mulErr := by
    rw [abs_div, abs_of_pos hK]; exact (div_le_self (abs_nonneg _) hK1).trans e2
  have b1 : |(dv t1 - dv term * dv c) * dv x / ((k : ℝ) + 1)| ≤ mulErr := by
    rw [abs_div, abs_mul, abs_of_pos hK, abs_of_nonneg hX0]
    have : |dv t1 - dv term * dv c| * dv x ≤ mulErr * 1 := by
      apply mul_le_mul e1 hx hX0 hm0.le
    calc _ ≤ |dv t1 - dv term * dv c| * dv x := div_le_self (by positivity) hK1
      _ ≤ mulErr := by linarith
  have e : dv t3 - dv term * dv c * dv x / ((k : ℝ) + 1) =
      (dv t3 - dv t2 / ((k : ℝ) + 1)) + (dv t2 - dv t1 * dv x) / ((k : ℝ) + 1) +
        (dv t1 - dv term * dv c) * dv x / ((k : ℝ) + 1) := by field_simp; ring
  rw [e]
  calc _ ≤ |dv t3 - dv t2 / ((k : ℝ) + 1)| + |(dv t2 - dv t1 * dv x) / ((k : ℝ) + 1)| +
        |(dv t1 - dv term * dv c) * dv x / ((k : ℝ) + 1)| := abs_add_three _ _ _
    _ ≤ quoErr + mulErr + mulErr := by linarith
    _ = _ := by ring

/-- the signed term after one update: the inherited error shrinks by the factor `q`. -/
theorem signed_step {n nx nc : Bool} {T C X K P t3 D E q : ℝ} (hC0 : 0 ≤ C) (hCK : C ≤ K) (hK : 0 < K)
    (hX0 : 0 ≤ X) (hXq : X ≤ q) (hD : 0 ≤ D) (h1 : |t3 - T * C * X / K| ≤ E) (h2 : |sg n * T - P| ≤ D) :
    |sg n * sg nx * sg nc * t3 - P * (sg nc * C) * (sg nx * X) / K| ≤ E + D * q := by
  have e : sg n * sg nx * sg nc * t3 - P * (sg nc * C) * (sg nx * X) / K =
      sg nx * (sg nc * (sg n * (t3 - T * C * X / K) + (sg n * T - P) * (C * X / K))) := by ring
  rw [e, abs_sg_mul, abs_sg_mul]
  have hr0 : 0 ≤ C * X / K := by positivity
  have hr : C * X / K ≤ q := by
    rw [div_le_iff₀ hK]
    have hq0 : 0 ≤ q := le_trans hX0 hXq
    calc C * X ≤ K * q := mul_le_mul hCK hXq hX0 hK.le
      _ = q * K := by ring
  calc _ ≤ |sg n * (t3 - T * C * X / K)| + |(sg n * T - P) * (C * X / K)| := abs_add_le _ _
    _ = |t3 - T * C * X / K| + |sg n * T - P| * (C * X / K) := by rw [abs_sg_mul, abs_mul, abs_of_nonneg hr0]
    _ ≤ E + D * q := by
        have : |sg n * T - P| * (C * X / K) ≤ D * q := mul_le_mul h2 hr hr0 hD
        linarith

theorem psum_abs_le {a y : ℝ} (ha0 : 0 ≤ a) (ha1 : a ≤ 1) (hy : |y| ≤ 1) (k : ℕ) : |psum a y k| ≤ k + 1 := by
  induction k with
  | zero => rw [psum_zero]; norm_num
  | succ k ih =>
    rw [psum_succ]
    have h1 : |pterm a y (k + 1)| ≤ 1 :=
      (abs_pterm_le_pow ha0 ha1 (k + 1)).trans (pow_le_one₀ (abs_nonneg _) hy)
    have := abs_add_le (psum a y k) (pterm a y (k + 1))
    push_cast; linarith

/-- the error budget of `PowApprox` for bases within `q` of 1, at most `N` iterations, per-term error `D`. -/
noncomputable def powApproxEps (q : ℝ) (N : ℕ) (D : ℝ) : ℝ :=
  N * D + (1 / 10 ^ 8 + D) * ((N : ℝ) / (N + 1)) * (q / (1 - q)) + D / (1 - q)

/-- the same budget with an arbitrary remainder factor `κ` (`remainder after k terms ≤ |term_{k+1}|·κ`):
`κ = 1/(1−q)` geometric (any sign of `base − 1`), `κ = 1` alternating (`base ≥ 1`). -/
noncomputable def powApproxEpsK (q : ℝ) (N : ℕ) (D κ : ℝ) : ℝ :=
  N * D + (1 / 10 ^ 8 + D) * ((N : ℝ) / (N + 1)) * (q * κ) + D * κ

theorem powApproxEps_eq_K (q : ℝ) (N : ℕ) (D : ℝ) : powApproxEps q N D = powApproxEpsK q N D (1 / (1 - q)) := by
  unfold powApproxEps powApproxEpsK; ring

theorem sg_xor (n nx nc : Bool) :
    sg (if nc then !(if nx then !n else n) else (if nx then !n else n)) = sg n * sg nx * sg nc := by
  cases n <;> cases nx <;> cases nc <;> simp [sg]

/-- exit through `term = 0`: the next term is below `D`, the remainder below `D·κ`. -/
theorem powApprox_exit_zero {ds S F P' D q κ : ℝ} {k N : ℕ} (hq0 : 0 ≤ q) (hκ : 0 ≤ κ) (hD0 : 0 ≤ D) (hk : k ≤ N)
    (h1 : |ds - S| ≤ k * D) (h2 : |P'| ≤ D) (h3 : |F - S| ≤ |P'| * κ) : |ds - F| ≤ powApproxEpsK q N D κ := by
  have hkr : (k : ℝ) ≤ N := by exact_mod_cast hk
  have h4 : |P'| * κ ≤ D * κ := mul_le_mul_of_nonneg_right h2 hκ
  have h5 := abs_add_le (ds - S) (S - F)
  rw [sub_add_sub_cancel, abs_sub_comm S] at h5
  have h6 : (k : ℝ) * D ≤ N * D := mul_le_mul_of_nonneg_right hkr hD0
  have h7 : 0 ≤ (1 / 10 ^ 8 + D) * ((N : ℝ) / (N + 1)) * (q * κ) := by positivity
  unfold powApproxEpsK
  linarith only [h1, h3, h4, h5, h6, h7]

/-- exit through the stopping rule `term < 10^-8` after `k ≥ 1` iterations. -/
theorem powApprox_exit_prec {ds S F P D q κ : ℝ} {k N : ℕ} (hq0 : 0 ≤ q) (hκ : 0 ≤ κ) (hD0 : 0 ≤ D) (hk1 : 1 ≤ k)
    (hk : k ≤ N) (h1 : |ds - S| ≤ k * D) (h2 : |P| ≤ 1 / 10 ^ 8 + D)
    (h3 : |F - S| ≤ |P| * ((k : ℝ) / (k + 1)) * (q * κ)) : |ds - F| ≤ powApproxEpsK q N D κ := by
  have hkr : (k : ℝ) ≤ N := by exact_mod_cast hk
  have hk0 : (0 : ℝ) ≤ k := by positivity
  have hfrac0 : 0 ≤ q * κ := by positivity
  have hfr : (k : ℝ) / (k + 1) ≤ (N : ℝ) / (N + 1) := by
    rw [div_le_div_iff₀ (by positivity) (by positivity)]; nlinarith only [hkr, hk0]
  have hfr0 : 0 ≤ (k : ℝ) / (k + 1) := by positivity
  have h4 : |P| * ((k : ℝ) / (k + 1)) * (q * κ) ≤
      (1 / 10 ^ 8 + D) * ((N : ℝ) / (N + 1)) * (q * κ) := by
    apply mul_le_mul_of_nonneg_right _ hfrac0
    exact mul_le_mul h2 hfr hfr0 (by positivity)
  have h5 := abs_add_le (ds - S) (S - F)
  rw [sub_add_sub_cancel, abs_sub_comm S] at h5
  have h6 : (k : ℝ) * D ≤ N * D := mul_le_mul_of_nonneg_right hkr hD0
  have h7 : 0 ≤ D * κ := by positivity
  unfold powApproxEpsK
  linarith only [h1, h3, h4, h5, h6, h7]

theorem abs_pm_le_big {a b : ℝ} (ha : |a| ≤ 10 ^ 7) (hb : |b| ≤ 2) : |a + b| ≤ 10 ^ 40 ∧ |a - b| ≤ 10 ^ 40 := by
  have h1 := abs_add_le a b
  have h2 := abs_sub a b
  have : (10 : ℝ) ^ 7 + 2 ≤ 10 ^ 40 := by norm_num
  constructor <;> linarith only [h1, h2, ha, hb, this]

/-- one iteration of the loop as an equation (the sign flag is `negative xor xneg xor cneg`). -/
theorem powApproxLoop_iter {x exp p : Int} {xneg : Bool} {f : Nat} {i term sum bigK c t1 t2 t3 : Int}
    {neg cn : Bool} (hge : term ≥ p) (hc : absDiffSign exp bigK = some (c, cn)) (h1 : Dec.mul term c = some t1)
    (h2 : Dec.mul t1 x = some t2) (h3 : Dec.quo t2 (i * P18) = some t3) :
    powApproxLoop x xneg exp p (f + 1) i term sum neg bigK =
      if t3 = 0 then some sum else
        (if (if cn then !(if xneg then !neg else neg) else (if xneg then !neg else neg)) = true
          then Dec.sub sum t3 else Dec.add sum t3).bind fun s' =>
          if i = Osmomath.powIterationLimit then none
          else powApproxLoop x xneg exp p f (i + 1) t3 s'
            (if cn then !(if xneg then !neg else neg) else (if xneg then !neg else neg)) (i * P18) := by
  rw [powApproxLoop, if_pos hge, hc]
  simp only [Option.bind_some, h1, h2, h3, bind]
  by_cases hz : t3 = 0
  · rw [if_pos hz, if_pos hz]
  · rw [if_neg hz, if_neg hz]
    cases cn <;> cases xneg <;> cases neg <;> rfl

theorem powApproxLoop_stop {x exp p : Int} {xneg : Bool} {f : Nat} {i term sum bigK : Int}
    {neg : Bool} (hlt : ¬ term ≥ p) :
    powApproxLoop x xneg exp p (f + 1) i term sum neg bigK = some sum := by
  rw [powApproxLoop, if_neg hlt]

theorem powApproxLoop_spec {xr er : Int} {xneg : Bool} {q D κ : ℝ} {N : ℕ}
    (hx0 : 0 ≤ xr) (hxq : dv xr ≤ q) (hq1 : q < 1) (he0 : 0 ≤ er) (he1 : er ≤ P18)
    (hD : q * D + (2 * mulErr + quoErr) ≤ D) (hD1 : D ≤ 1 / 10 ^ 10)
    (hN : q ^ N + D < 1 / 10 ^ 8) (hNL : N + 1 < Osmomath.powIterationLimit) (hκ : 0 ≤ κ)
    (htail : ∀ k : ℕ, |(1 + sg xneg * dv xr) ^ dv er - psum (dv er) (sg xneg * dv xr) k| ≤
      |pterm (dv er) (sg xneg * dv xr) (k + 1)| * κ) :
    ∀ (fuel k : ℕ) (i term sum bigK : Int) (neg : Bool), N + 2 ≤ fuel + k → k ≤ N → i = k + 1 →
      bigK = k * P18 → 0 ≤ term → |sg neg * dv term - pterm (dv er) (sg xneg * dv xr) k| ≤ D →
      |dv sum - psum (dv er) (sg xneg * dv xr) k| ≤ k * D →
      ∃ r, powApproxLoop xr xneg er Osmomath.powPrecision fuel i term sum neg bigK = some r ∧
        |dv r - (1 + sg xneg * dv xr) ^ dv er| ≤ powApproxEpsK q N D κ := by
  have hX0 := dv_nonneg hx0
  have hq0 : 0 ≤ q := le_trans hX0 hxq
  have ha0 : 0 ≤ dv er := dv_nonneg he0
  have ha1 : dv er ≤ 1 := by have := dv_le he1; rwa [dv_P18] at this
  have hy : |sg xneg * dv xr| ≤ q := by rw [abs_sg_mul, abs_of_nonneg hX0]; exact hxq
  have hy1 : |sg xneg * dv xr| ≤ 1 := by linarith only [hy, hq1]
  have hmq : 0 < 2 * mulErr + quoErr := by have := mulErr_pos; have := quoErr_pos; linarith
  have hd : 0 < 1 - q := by linarith only [hq1]
  have hD0 : 0 < D := by nlinarith only [hD, hmq, hd]
  have hN5 : (N : ℝ) + 1 < 150000 := by
    rw [powIterationLimit_val] at hNL
    have : ((N + 1 : ℕ) : ℝ) < ((150000 : ℕ) : ℝ) := by exact_mod_cast hNL
    push_cast at this; exact this
  have hx1 : dv xr ≤ 1 := by linarith only [hxq, hq1]
  have hprec : dv Osmomath.powPrecision = 1 / 10 ^ 8 := by
    rw [powPrecision_val]; unfold dv; norm_num
  generalize hA : dv er = a at *
  generalize hY : sg xneg * dv xr = y at *
  intro fuel
  induction fuel with
  | zero => intro k _ _ _ _ _ hf hk; omega
  | succ f ih =>
    intro k i term sum bigK neg hf hk hi hb ht0 hterm hsum
    have hkr : (k : ℝ) ≤ N := by exact_mod_cast hk
    have hk0 : (0 : ℝ) ≤ k := by positivity
    have hP : |pterm a y k| ≤ q ^ k :=
      (abs_pterm_le_pow ha0 ha1 k).trans (pow_le_pow_left₀ (abs_nonneg _) hy k)
    have hP1 : |pterm a y k| ≤ 1 := hP.trans (pow_le_one₀ hq0 hq1.le)
    have hT0 := dv_nonneg ht0
    -- `dv term` against `|pterm k|`
    have hTP : |dv term - abs (pterm a y k)| ≤ D := by
      have := abs_abs_sub_abs_le_abs_sub (sg neg * dv term) (pterm a y k)
      rw [abs_sg_mul, abs_of_nonneg hT0] at this
      exact this.trans hterm
    obtain ⟨hTP1, hTP2⟩ := abs_le.mp hTP
    have hkD : (k : ℝ) * D ≤ 150000 := by
      have h1 : (k : ℝ) * D ≤ 150000 * 1 := by
        apply mul_le_mul (by linarith only [hkr, hN5])
          (by linarith only [hD1, show (1 : ℝ) / 10 ^ 10 ≤ 1 by norm_num]) hD0.le (by norm_num)
      linarith only [h1]
    have hS : |dv sum| ≤ 10 ^ 7 := by
      have h1 := psum_abs_le ha0 ha1 hy1 k
      have h2 := abs_add_le (dv sum - psum a y k) (psum a y k)
      rw [sub_add_cancel] at h2
      have : (150000 : ℝ) + 150000 + 1 ≤ 10 ^ 7 := by norm_num
      linarith only [h1, h2, hsum, hkD, hkr, hN5, this]
    by_cases hge : term ≥ Osmomath.powPrecision
    · have hgeR : 1 / 10 ^ 8 ≤ dv term := by rw [← hprec]; exact dv_le hge
      -- the iteration bound
      have hkN : k < N := by
        by_contra hcon
        have hkN : k = N := by omega
        subst hkN
        linarith only [hgeR, hTP2, hP, hN]
      have hkN' : (k : ℝ) + 1 ≤ N := by
        have : ((k + 1 : ℕ) : ℝ) ≤ (N : ℝ) := by exact_mod_cast hkN
        push_cast at this; exact this
      have hdb : dv bigK = k := by rw [hb, dv_P18_mul]; norm_cast
      obtain ⟨c, cn, hc, hc0, hcs⟩ := absDiffSign_spec (a := er) (b := bigK) (by
        rw [hA, hdb, abs_le]
        have : (150000 : ℝ) ≤ 10 ^ 40 := by norm_num
        constructor <;> linarith only [ha0, ha1, hk0, hkr, hN5, this])
      rw [hA, hdb] at hcs
      have hC0 := dv_nonneg hc0
      have hCabs : dv c = |a - k| := by
        rw [← hcs, abs_sg_mul, abs_of_nonneg hC0]
      have hCK : dv c ≤ k + 1 := by
        rw [hCabs, abs_le]; constructor <;> linarith only [ha0, ha1, hk0]
      obtain ⟨t1, t2, t3, h1, h2, h3, h30, herr⟩ :=
        powTerm_step (k := k) ht0 (by linarith only [hTP2, hP1, hD1, show (1 : ℝ) / 10 ^ 10 ≤ 1 by norm_num])
          hc0 hCK hx0 hx1 (by rw [powIterationLimit_val] at hNL; omega)
      have hT30 := dv_nonneg h30
      -- signed new term
      have hstep := signed_step (n := neg) (nx := xneg) (nc := cn) (P := pterm a y k) hC0 hCK
        (by positivity : (0 : ℝ) < (k : ℝ) + 1) hX0 hxq hD0.le herr hterm
      have hpt : pterm a y (k + 1) = pterm a y k * (sg cn * dv c) * y / ((k : ℝ) + 1) := by
        rw [hcs]; rfl
      rw [hY, ← hpt] at hstep
      have hstep' : |sg neg * sg xneg * sg cn * dv t3 - pterm a y (k + 1)| ≤ D := by
        linarith only [hstep, hD]
      subst hi
      rw [powApproxLoop_iter hge hc h1 h2 h3]
      by_cases hz : t3 = 0
      · rw [if_pos hz]
        refine ⟨sum, rfl, ?_⟩
        rw [hz, dv_zero, mul_zero, zero_sub, abs_neg] at hstep'
        exact powApprox_exit_zero hq0 hκ hD0.le hk hsum hstep' (htail k)
      · rw [if_neg hz]
        have hsgn := sg_xor neg xneg cn
        generalize (if cn then !(if xneg then !neg else neg) else (if xneg then !neg else neg)) = neg2 at hsgn ⊢
        rw [← hsgn] at hstep'
        have hP' : |pterm a y (k + 1)| ≤ 1 :=
          (abs_pterm_le_pow ha0 ha1 (k + 1)).trans (pow_le_one₀ (abs_nonneg _) hy1)
        have hT3 : |dv t3| ≤ 2 := by
          have := abs_abs_sub_abs_le_abs_sub (sg neg2 * dv t3) (pterm a y (k + 1))
          rw [abs_sg_mul] at this
          have := (abs_le.mp (this.trans hstep')).2
          linarith only [this, hP', hD1, show (1 : ℝ) / 10 ^ 10 ≤ 1 by norm_num]
        obtain ⟨hbig1, hbig2⟩ := abs_pm_le_big hS hT3
        -- the new sum
        have hsum' : ∃ s', (if neg2 = true then Dec.sub sum t3 else Dec.add sum t3) = some s' ∧
            dv s' = dv sum + sg neg2 * dv t3 := by
          cases neg2 with
          | true =>
            refine ⟨sum - t3, ?_, by rw [dv_sub, sg_true]; ring⟩
            rw [if_pos rfl]
            exact Dec_sub_total hbig2
          | false =>
            refine ⟨sum + t3, ?_, by rw [dv_add, sg_false]; ring⟩
            rw [if_neg (by simp)]
            exact Dec_add_total hbig1
        obtain ⟨s', hs', hs'v⟩ := hsum'
        rw [hs', Option.bind_some]
        have hlim : ¬ ((k : Int) + 1 = (Osmomath.powIterationLimit : Int)) := by omega
        rw [if_neg hlim]
        apply ih (k + 1) _ t3 s' _ neg2 (by omega) (by omega) (by push_cast; ring) (by push_cast; ring) h30 hstep'
        rw [hs'v, psum_succ]
        have := abs_add_le (dv sum - psum a y k) (sg neg2 * dv t3 - pterm a y (k + 1))
        have e : dv sum - psum a y k + (sg neg2 * dv t3 - pterm a y (k + 1)) =
            dv sum + sg neg2 * dv t3 - (psum a y k + pterm a y (k + 1)) := by ring
        rw [e] at this
        push_cast
        linarith only [this, hsum, hstep']
    · rw [powApproxLoop_stop hge]
      refine ⟨sum, rfl, ?_⟩
      have hltR : dv term < 1 / 10 ^ 8 := by rw [← hprec]; exact dv_lt (by omega)
      -- at least one iteration was made
      have hk1 : 1 ≤ k := by
        by_contra hcon
        have hk0' : k = 0 := by omega
        subst hk0'
        have : pterm a y 0 = 1 := rfl
        rw [this, abs_one] at hTP1
        have : (1 : ℝ) / 10 ^ 10 < 1 - 1 / 10 ^ 8 := by norm_num
        linarith only [this, hTP1, hltR, hD1]
      have hnext : |pterm a y (k + 1)| ≤ |pterm a y k| * ((k : ℝ) / (k + 1)) * q := by
        have h0 : 0 ≤ |pterm a y k| * ((k : ℝ) / (k + 1)) := by positivity
        exact (abs_pterm_succ_le' ha0 ha1 hk1).trans (mul_le_mul_of_nonneg_left hy h0)
      have htl : |(1 + y) ^ a - psum a y k| ≤ |pterm a y k| * ((k : ℝ) / (k + 1)) * (q * κ) := by
        calc _ ≤ |pterm a y (k + 1)| * κ := htail k
          _ ≤ (|pterm a y k| * ((k : ℝ) / (k + 1)) * q) * κ := mul_le_mul_of_nonneg_right hnext hκ
          _ = _ := by ring
      exact powApprox_exit_prec hq0 hκ hD0.le hk1 hk hsum (by linarith only [hTP1, hltR]) htl

theorem powApprox_eq {base exp p x : Int} {xn : Bool} (hb : 0 < base) (he : exp ≠ 0) (hne : exp ≠ Osmomath.one_half)
    (hx : absDiffSign base P18 = some (x, xn)) :
    powApprox base exp p = powApproxLoop x xn exp p (Osmomath.powIterationLimit + 2) 1 P18 P18 false 0 := by
  unfold powApprox
  rw [if_neg (by omega), if_neg he, if_neg hne, hx]
  rfl

/-- `PowApprox` on an exponent `0 < a ≤ 1`, `a ≠ 1/2`, and a base within `q < 1` of 1, GIVEN a remainder factor `κ` of
the binomial series at this base: it RETURNS (no panic, no iteration limit) within `powApproxEpsK q N D κ`. -/
theorem powApprox_series_spec_K {base exp : Int} {q D κ : ℝ} {N : ℕ} (hb : 0 < base) (hbq : |dv base - 1| ≤ q)
    (hq1 : q < 1) (he0 : 0 < exp) (he1 : exp ≤ P18) (hne : exp ≠ Osmomath.one_half)
    (hD : q * D + (2 * mulErr + quoErr) ≤ D) (hD1 : D ≤ 1 / 10 ^ 10)
    (hN : q ^ N + D < 1 / 10 ^ 8) (hNL : N + 1 < Osmomath.powIterationLimit) (hκ : 0 ≤ κ)
    (htail : ∀ k : ℕ, |(1 + (dv base - 1)) ^ dv exp - psum (dv exp) (dv base - 1) k| ≤
      |pterm (dv exp) (dv base - 1) (k + 1)| * κ) :
    ∃ r, powApprox base exp Osmomath.powPrecision = some r ∧ |dv r - dv base ^ dv exp| ≤ powApproxEpsK q N D κ := by
  have hq0 : 0 ≤ q := le_trans (abs_nonneg _) hbq
  obtain ⟨x, xn, hx, hx0, hxs⟩ := absDiffSign_spec (a := base) (b := P18) (by
    rw [dv_P18]; exact hbq.trans (by linarith only [hq1, show (1 : ℝ) ≤ 10 ^ 40 by norm_num]))
  rw [dv_P18] at hxs
  have hxq : dv x ≤ q := by
    have : |sg xn * dv x| ≤ q := by rw [hxs]; exact hbq
    rwa [abs_sg_mul, abs_of_nonneg (dv_nonneg hx0)] at this
  have hmq : 0 < 2 * mulErr + quoErr := by have := mulErr_pos; have := quoErr_pos; linarith
  have hD0 : 0 < D := by nlinarith only [hD, hmq, hq1]
  rw [powApprox_eq hb (by omega) hne hx]
  obtain ⟨r, hr, hacc⟩ := powApproxLoop_spec (xneg := xn) hx0 hxq hq1 he0.le he1 hD hD1 hN hNL hκ
    (by rw [hxs]; exact htail)
    (Osmomath.powIterationLimit + 2) 0 1 P18 P18 0 false (by omega) (by omega) (by norm_num) (by norm_num)
    P18_pos.le (by
      rw [sg_false, one_mul, dv_P18]
      have : pterm (dv exp) (sg xn * dv x) 0 = 1 := rfl
      rw [this, sub_self, abs_zero]; exact hD0.le)
    (by rw [psum_zero, dv_P18, sub_self, abs_zero]; push_cast; linarith only [])
  refine ⟨r, hr, ?_⟩
  rw [hxs] at hacc
  have e : 1 + (dv base - 1) = dv base := by ring
  rwa [e] at hacc

/-- … with the GEOMETRIC remainder (`κ = 1/(1−q)`, any sign of `base − 1`): within `powApproxEps q N D`. -/
theorem powApprox_series_spec {base exp : Int} {q D : ℝ} {N : ℕ} (hb : 0 < base) (hbq : |dv base - 1| ≤ q)
    (hq1 : q < 1) (he0 : 0 < exp) (he1 : exp ≤ P18) (hne : exp ≠ Osmomath.one_half)
    (hD : q * D + (2 * mulErr + quoErr) ≤ D) (hD1 : D ≤ 1 / 10 ^ 10)
    (hN : q ^ N + D < 1 / 10 ^ 8) (hNL : N + 1 < Osmomath.powIterationLimit) :
    ∃ r, powApprox base exp Osmomath.powPrecision = some r ∧ |dv r - dv base ^ dv exp| ≤ powApproxEps q N D := by
  have ha0 : 0 ≤ dv exp := dv_nonneg he0.le
  have ha1 : dv exp ≤ 1 := by have := dv_le he1; rwa [dv_P18] at this
  rw [powApproxEps_eq_K]
  refine powApprox_series_spec_K hb hbq hq1 he0 he1 hne hD hD1 hN hNL
    (by have : 0 < 1 - q := by linarith only [hq1]
        positivity) (fun k => ?_)
  have := pow_series_tail ha0 ha1 hbq hq1 k
  rwa [div_eq_mul_one_div] at this

/-- … with the ALTERNATING remainder (`κ = 1`) for bases `≥ 1`: within `powApproxEpsK q N D 1`. -/
theorem powApprox_series_spec_alt {base exp : Int} {q D : ℝ} {N : ℕ} (hb : P18 ≤ base) (hbq : dv base - 1 ≤ q)
    (hq1 : q < 1) (he0 : 0 < exp) (he1 : exp ≤ P18) (hne : exp ≠ Osmomath.one_half)
    (hD : q * D + (2 * mulErr + quoErr) ≤ D) (hD1 : D ≤ 1 / 10 ^ 10)
    (hN : q ^ N + D < 1 / 10 ^ 8) (hNL : N + 1 < Osmomath.powIterationLimit) :
    ∃ r, powApprox base exp Osmomath.powPrecision = some r ∧ |dv r - dv base ^ dv exp| ≤ powApproxEpsK q N D 1 := by
  have ha0 : 0 ≤ dv exp := dv_nonneg he0.le
  have ha1 : dv exp ≤ 1 := by have := dv_le he1; rwa [dv_P18] at this
  have hy0 : 0 ≤ dv base - 1 := by have := dv_le hb; rw [dv_P18] at this; linarith only [this]
  have := P18_pos
  refine powApprox_series_spec_K (by omega) (by rw [abs_of_nonneg hy0]; exact hbq) hq1 he0 he1 hne hD hD1 hN hNL
    (by norm_num) (fun k => ?_)
  rw [mul_one]
  exact pow_series_tail_alt ha0 ha1 hy0 (lt_of_le_of_lt hbq hq1) k

/-- the instance for bases in `[0.5, 1.5]`: at most 27 iterations, error below `0.9643·10^-8`. -/
theorem powApproxEps_half : powApproxEps (1 / 2) 27 (4 / 10 ^ 18) ≤ 9643 / 10 ^ 12 := by
  unfold powApproxEps; norm_num

theorem powApprox_mid {base exp : Int} (hb1 : 5 * 10 ^ 17 ≤ base) (hb2 : base ≤ 15 * 10 ^ 17)
    (he0 : 0 < exp) (he1 : exp ≤ P18) (hne : exp ≠ Osmomath.one_half) :
    ∃ r, powApprox base exp Osmomath.powPrecision = some r ∧ |dv r - dv base ^ dv exp| ≤ 9643 / 10 ^ 12 := by
  have h1 : (1 : ℝ) / 2 ≤ dv base := by
    have := dv_le hb1; unfold dv at this ⊢; push_cast at this; linarith only [this, show ((5 : ℝ) * 10 ^ 17) / 10 ^ 18 = 1 / 2 by norm_num]
  have h2 : dv base ≤ 3 / 2 := by
    have := dv_le hb2; unfold dv at this ⊢; push_cast at this; linarith only [this, show ((15 : ℝ) * 10 ^ 17) / 10 ^ 18 = 3 / 2 by norm_num]
  obtain ⟨r, hr, hacc⟩ := powApprox_series_spec (base := base) (exp := exp) (q := 1 / 2) (D := 4 / 10 ^ 18) (N := 27)
    (by omega) (by rw [abs_le]; constructor <;> linarith only [h1, h2]) (by norm_num) he0 he1 hne
    (by unfold mulErr quoErr; norm_num) (by norm_num) (by norm_num) (by decide)
  exact ⟨r, hr, hacc.trans powApproxEps_half⟩

end OsmoVerif.MathM
