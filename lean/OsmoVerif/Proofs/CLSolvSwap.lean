/-
C01 helpers, part 4: the swap loop against the potentials `V0`, `V1`.
One iteration (inside one bucket of initialised ticks all in-range positions move together): the potential of the
token paid in grows by at most the step's amount in (a whole number of tokens), the potential of the token paid
out falls by at least the step's amount out; crossing a tick changes nothing in the potentials (they depend on
the sqrt price only) and the active liquidity by the tick's net liquidity (C07).  Summed over the loop and
combined with the final `Ceil`/`TruncateInt` conversions: what the pool receives (`amountIn − fee`) covers the
growth of the in-potential, what it pays (`amountOut`) is covered by the fall of the out-potential.
-/
import OsmoVerif.Proofs.CLSolvV

namespace OsmoVerif.CLSolv
open OsmoVerif.CLPool OsmoVerif.CLBook OsmoVerif.CL OsmoVerif.Num OsmoVerif.Tick OsmoVerif.Gen OsmoVerif.Spec
open OsmoVerif.Props

/-! ## the result of `computeSwap` in terms of the final loop state -/

theorem computeSwap_loop {ogi zfo : Bool} {spf pl : Int} {pool : PoolSt} {ticks : Ticks} {specified : Int} {r : SwapOut}
    (h : computeSwap ogi zfo spf pl pool ticks specified = some r) :
    ∃ (limit : Int) (st' : SwapSt) (steps crossed : Nat),
      sqrtPriceLimit pl zfo = some limit ∧
      swapLoop ogi zfo spf limit (2 * ticks.length + CL.swapNoProgressLimit + 8)
        { remaining := specified * P18, calculated := 0, pool := pool, spreadTotal := 0, noProgress := 0 }
        (ticksAhead zfo ticks pool.tick) 0 0 = some (st', steps, crossed) ∧
      r.pool = st'.pool ∧ r.spreadRewards = st'.spreadTotal ∧ 0 ≤ st'.remaining ∧
      (if ogi then IsCeil (specified * P18 - st'.remaining) P18 r.amountIn ∧ IsTrunc st'.calculated P18 r.amountOut
        else IsCeil st'.calculated P18 r.amountIn ∧ IsTrunc (specified * P18 - st'.remaining) P18 r.amountOut) := by
  rw [computeSwap_eq] at h
  obtain ⟨limit, hlim, h1⟩ := Option.bind_eq_some_iff.mp h
  obtain ⟨u, _, h2⟩ := Option.bind_eq_some_iff.mp h1
  obtain ⟨x, hx, h3⟩ := Option.bind_eq_some_iff.mp h2
  clear h h1 h2
  obtain ⟨st', steps, crossed⟩ := x
  refine ⟨limit, st', steps, crossed, hlim, hx, ?_⟩
  unfold finishSwap at h3
  obtain ⟨hneg, h4⟩ := CL.ite_none_eq_some h3
  simp only at hneg h4
  cases ogi
  · rw [if_neg (by decide)] at h4 ⊢
    obtain ⟨ain, hain, h5⟩ := Option.bind_eq_some_iff.mp h4
    obtain ⟨got, hgot, h6⟩ := Option.bind_eq_some_iff.mp h5
    obtain ⟨aout, haout, h7⟩ := Option.bind_eq_some_iff.mp h6
    cases h7
    have eg := dec_sub_exact hgot
    subst eg
    exact ⟨rfl, rfl, by omega, dec_ceil_truncateInt_ceil hain, dec_truncateInt_trunc haout⟩
  · rw [if_pos rfl] at h4 ⊢
    obtain ⟨used, hused, h5⟩ := Option.bind_eq_some_iff.mp h4
    obtain ⟨ain, hain, h6⟩ := Option.bind_eq_some_iff.mp h5
    obtain ⟨aout, haout, h7⟩ := Option.bind_eq_some_iff.mp h6
    cases h7
    have eg := dec_sub_exact hused
    subst eg
    exact ⟨rfl, rfl, by omega, dec_ceil_truncateInt_ceil hain, dec_truncateInt_trunc haout⟩

theorem execSwap_fee {og zfo : Bool} {spf : Int} {pool : PoolSt} {ticks : Ticks} {specified : Int} {r : SwapOut} {fee : Int}
    (h : execSwap og zfo spf pool ticks specified = some (r, fee)) : IsCeil r.spreadRewards P18 fee := by
  unfold execSwap at h
  obtain ⟨r', hr', h2⟩ := Option.bind_eq_some_iff.mp h
  split at h2
  · cases h2
  · split at h2
    · cases h2
    · obtain ⟨fee', hf, h3⟩ := Option.bind_eq_some_iff.mp h2
      split at h3
      · cases h3
      · cases h3
        exact dec_ceil_truncateInt_ceil hf

/-! ## potentials by direction -/

/-- potential of the token the swapper pays in (token0 for zero-for-one). -/
def Vin (zfo : Bool) (ps : List Position) (P : Int) : ℚ := if zfo then V0 ps P else V1 ps P
/-- potential of the token the swapper receives. -/
def Vout (zfo : Bool) (ps : List Position) (P : Int) : ℚ := if zfo then V1 ps P else V0 ps P

/-- total spread charge, total amount in (charges excluded) and total amount out between two loop states
(raw 18-decimal), read off the loop's own bookkeeping. -/
def chargeTot (st st' : SwapSt) : Int := st'.spreadTotal - st.spreadTotal
def inTot (og : Bool) (st st' : SwapSt) : Int :=
  (if og then st.remaining - st'.remaining else st'.calculated - st.calculated) - chargeTot st st'
def outTot (og : Bool) (st st' : SwapSt) : Int :=
  if og then st'.calculated - st.calculated else st.remaining - st'.remaining

/-! ## one iteration -/

/-- boundary ticks of positions are stored, hence aligned, inside the tick bounds, and have a sqrt price. -/
theorem used_tick_facts {spacing : Int} {tl : Ticks} {ps : List Position} (hok : TicksOK spacing tl ps) {b : Int}
    (hb : Used ps b) : b.tmod spacing = 0 ∧ (∃ x ∈ tl, x.1 = b) ∧ ∃ s, tickToSqrtPrice b = some s := by
  obtain ⟨x, hx, e⟩ := hok.used b hb
  subst e
  exact ⟨hok.aligned x hx, ⟨x, hx, rfl⟩, tts_total (hok.bounds x hx).1 (hok.bounds x hx).2⟩

/-- the step target of an executed swap is the next initialised tick's sqrt price (the execution limit never binds),
and it lies in the swap direction. -/
theorem target_facts {zfo : Bool} {limit spacing : Int} {tl : Ticks} {ps : List Position} {pool : PoolSt}
    {nt net : Int} {rest : Ticks} {nextSp : Int}
    (hok : TicksOK spacing tl ps) (hlimit : sqrtPriceLimit (execPriceLimit zfo) zfo = some limit)
    (ha : Agree spacing pool.sqrtPrice pool.tick) (hla : LA zfo tl ps pool ((nt, net) :: rest))
    (hsp : tickToSqrtPrice nt = some nextSp) :
    (if zfo then (if nextSp < limit then limit else nextSp) else (if nextSp > limit then limit else nextSp)) = nextSp ∧
    (if zfo then 1000000000000000000000000000000 ≤ nextSp ∧ nextSp ≤ pool.sqrtPrice else pool.sqrtPrice ≤ nextSp) ∧
    (nt, net) ∈ tl ∧
    (if zfo then nt ≤ pool.tick ∧ ∀ y ∈ tl, y.1 ≤ pool.tick → y.1 ≤ nt
      else nt > pool.tick ∧ ∀ y ∈ tl, y.1 > pool.tick → nt ≤ y.1) := by
  have hahead := hla.2
  cases zfo
  · rw [execLimit_ofz] at hlimit
    injection hlimit with hlimit
    rw [ticksAhead_up] at hahead
    obtain ⟨f1, f2, f3, _⟩ := filter_up_head hok.sorted hahead.symm
    have hmax := tts_mono hsp C14Mono.tickToSqrtPrice_ends.2.2 (hok.bounds _ f1).2
    simp only [Bool.false_eq_true, ↓reduceIte]
    refine ⟨by rw [if_neg (by omega)], ?_, f1, f2, f3⟩
    exact (ha nt nextSp (hok.aligned _ f1) hsp).2 f2
  · rw [execLimit_zfo] at hlimit
    injection hlimit with hlimit
    rw [ticksAhead_down] at hahead
    have hsd : tl.reverse.Pairwise (fun a b => a.1 > b.1) := by
      rw [List.pairwise_reverse]; exact hok.sorted
    obtain ⟨f1, f2, f3, _⟩ := filter_down_head hsd hahead.symm
    have f1' := List.mem_reverse.mp f1
    have hmin := tts_mono C14Mono.regime_boundary_step.2 hsp (hok.bounds _ f1').1
    simp only [↓reduceIte]
    refine ⟨by rw [if_neg (by omega)], ⟨by omega, ?_⟩, f1', f2, fun y hy => f3 y (List.mem_reverse.mpr hy)⟩
    exact (ha nt nextSp (hok.aligned _ f1') hsp).1 f2

/-- the old and the new sqrt price of an iteration lie in one bucket of the positions' boundary prices. -/
theorem sameBucket_of_step {zfo : Bool} {spacing : Int} {tl : Ticks} {ps : List Position} {t P P' nt nextSp : Int}
    (hok : TicksOK spacing tl ps) (ha : Agree spacing P t) (hsp : tickToSqrtPrice nt = some nextSp)
    (hnt : if zfo then nt ≤ t ∧ ∀ y ∈ tl, y.1 ≤ t → y.1 ≤ nt else nt > t ∧ ∀ y ∈ tl, y.1 > t → nt ≤ y.1)
    (hbr : if zfo then nextSp ≤ P' ∧ P' ≤ P else P ≤ P' ∧ P' ≤ nextSp) : SameBucket ps t P P' := by
  intro q hq
  obtain ⟨aL, ⟨xL, hxL, eL⟩, sL, hsL⟩ := used_tick_facts hok ⟨q, hq, Or.inl rfl⟩
  obtain ⟨aU, ⟨xU, hxU, eU⟩, sU, hsU⟩ := used_tick_facts hok ⟨q, hq, Or.inr rfl⟩
  have hr := hok.range q hq
  rw [sqrtAt_of hsL, sqrtAt_of hsU]
  have hLU : sL ≤ sU := tts_mono hsL hsU (by omega)
  have AL := ha q.lower sL aL hsL
  have AU := ha q.upper sU aU hsU
  cases zfo
  · simp only [Bool.false_eq_true, ↓reduceIte] at hnt hbr
    refine ⟨hLU, ?_, ?_, ?_⟩
    · intro ⟨c1, c2⟩
      have h1 := AL.1 c1
      have h2 := AU.2 c2
      have h3 : nextSp ≤ sU := tts_mono hsp hsU (by rw [← eU]; exact hnt.2 xU hxU (by rw [eU]; omega))
      exact ⟨h1, h2, by omega, by omega⟩
    · intro c
      have h1 := AL.2 c
      have h3 : nextSp ≤ sL := tts_mono hsp hsL (by rw [← eL]; exact hnt.2 xL hxL (by rw [eL]; omega))
      exact ⟨h1, by omega⟩
    · intro c
      have h1 := AU.1 c
      exact ⟨h1, by omega⟩
  · simp only [↓reduceIte] at hnt hbr
    refine ⟨hLU, ?_, ?_, ?_⟩
    · intro ⟨c1, c2⟩
      have h1 := AL.1 c1
      have h2 := AU.2 c2
      have h3 : sL ≤ nextSp := tts_mono hsL hsp (by rw [← eL]; exact hnt.2 xL hxL (by rw [eL]; omega))
      exact ⟨h1, h2, by omega, by omega⟩
    · intro c
      have h1 := AL.2 c
      exact ⟨h1, by omega⟩
    · intro c
      have h1 := AU.1 c
      have h3 : sU ≤ nextSp := tts_mono hsU hsp (by rw [← eU]; exact hnt.2 xU hxU (by rw [eU]; omega))
      exact ⟨h1, by omega⟩

/-- the step amounts against the change of the potentials. -/
theorem step_vs_potential {zfo : Bool} {ps : List Position} {t liq P P' amtIn amtOut : Int}
    (hb : SameBucket ps t P P') (hliq : liq = activeAt ps t) (hP : 0 < P) (hP' : 0 < P')
    (hdir : if zfo then P' ≤ P else P ≤ P')
    (hin : InGe zfo liq P' P amtIn) (hout : OutLe zfo liq P' P amtOut) :
    Vin zfo ps P' - Vin zfo ps P ≤ (amtIn : ℚ) / 10 ^ 18 ∧
    (amtOut : ℚ) / 10 ^ 18 ≤ Vout zfo ps P - Vout zfo ps P' := by
  obtain ⟨d0, d1⟩ := bucket_dV hb
  rw [← hliq] at d0 d1
  unfold Vin Vout
  unfold InGe at hin; unfold OutLe at hout
  cases zfo
  · simp only [Bool.false_eq_true, ↓reduceIte] at hdir hin hout ⊢
    have a := ge1_real hdir (ge1_symm hin)
    have b := le0_real hP hdir (le0_symm hout)
    constructor
    · linarith
    · linarith
  · simp only [↓reduceIte] at hdir hin hout ⊢
    have a := ge0_real hP' hdir hin
    have b := le1_real hdir hout
    constructor
    · linarith
    · linarith

theorem spfOK_lt {spf : Int} (h : SpfOK spf) : 0 ≤ spf ∧ spf < P18 := by
  obtain ⟨h0, h1⟩ := h
  have := P18_pos
  exact ⟨h0, by omega⟩

/-- everything about one successful iteration of an executed swap in a pool that satisfies the C07 invariants. -/
theorem body_solv {og zfo : Bool} {spf limit spacing : Int} {tl : Ticks} {ps : List Position}
    {st st1 : SwapSt} {nt net : Int} {rest ahead1 : Ticks} {c : Bool}
    (hok : TicksOK spacing tl ps) (hspf : SpfOK spf)
    (hlimit : sqrtPriceLimit (execPriceLimit zfo) zfo = some limit)
    (hb : loopBody og zfo spf limit st ((nt, net) :: rest) = some (st1, ahead1, c))
    (hrem : st.remaining > 1) (ha : Agree spacing st.pool.sqrtPrice st.pool.tick) (hpos : 0 < st.pool.sqrtPrice)
    (hla : LA zfo tl ps st.pool ((nt, net) :: rest)) :
    Agree spacing st1.pool.sqrtPrice st1.pool.tick ∧ 0 < st1.pool.sqrtPrice ∧ LA zfo tl ps st1.pool ahead1 ∧
    (∃ k, 0 ≤ k ∧ inTot og st st1 = k * P18) ∧ 0 ≤ chargeTot st st1 ∧ 0 ≤ outTot og st st1 ∧
    Vin zfo ps st1.pool.sqrtPrice - Vin zfo ps st.pool.sqrtPrice ≤ (inTot og st st1 : ℚ) / 10 ^ 18 ∧
    (outTot og st st1 : ℚ) / 10 ^ 18 ≤ Vout zfo ps st.pool.sqrtPrice - Vout zfo ps st1.pool.sqrtPrice := by
  have hrel := loopBody_spec hb
  have hliq : 0 ≤ st.pool.liquidity := by
    rw [hla.1]
    apply sumBy_nonneg
    intro q hq
    have := hok.liqPos q hq
    simp only [onPos, actW]; split <;> omega
  have hmono : (if zfo then st1.pool.sqrtPrice ≤ st.pool.sqrtPrice else st.pool.sqrtPrice ≤ st1.pool.sqrtPrice) := by
    refine body_mono hrel hspf hrem hliq hpos ?_
    intro nextSp hsp
    obtain ⟨t1, t2, _, _⟩ := target_facts hok hlimit ha hla hsp
    exact ⟨t1, t2⟩
  have hagree := body_agree hrel ha
  have hpos1 := body_pos hrel hpos
  have hla1 := body_LA hok hrel ha hla hmono
  refine ⟨hagree, hpos1, hla1, ?_⟩
  -- the step and its bookkeeping
  obtain ⟨nextTick, net', rest', nextSp, r, hcons, hsp, hstep, hadv⟩ := loopBody_decomp hb
  have ent : nt = nextTick := by injection hcons with h1 _; injection h1
  subst ent
  obtain ⟨nextSp2, r2, hsp2, hstep2, hr2, hcase⟩ := hrel
  have ens : nextSp2 = nextSp := by rw [hsp] at hsp2; injection hsp2 with e; exact e.symm
  subst ens
  have er : r2 = r := by
    unfold stepOf targetOf at hstep
    rw [hstep] at hstep2; injection hstep2 with e; exact e.symm
  subst er
  obtain ⟨t1, t2, _, t4⟩ := target_facts hok hlimit ha hla hsp
  have htgt : targetOf zfo limit nextSp2 = nextSp2 := t1
  rw [htgt] at hstep
  have hnsp : 0 < nextSp2 := tts_pos hsp
  obtain ⟨hs0, hs1⟩ := spfOK_lt hspf
  have hstepok : StepOK og zfo st.pool.sqrtPrice nextSp2 st.pool.liquidity := by
    refine ⟨hliq, fun _ => ?_⟩
    cases zfo
    · simpa using t2
    · simp only [↓reduceIte] at t2 ⊢; exact t2.2
  obtain ⟨_, cIn, ck, cOut, cO0, cC0⟩ := stepOf_curve hstepok hpos hnsp hs0 hs1 (by omega) hstep
  -- the bookkeeping of this iteration
  obtain ⟨a1, a2, a3⟩ := hadv
  have eIn : inTot og st st1 = resIn og r2 := by
    unfold inTot chargeTot resIn
    cases og
    · simp only [Bool.false_eq_true, ↓reduceIte] at a3 ⊢; omega
    · simp only [↓reduceIte] at a3 ⊢; omega
  have eOut : outTot og st st1 = resOut og r2 := by
    unfold outTot resOut
    cases og
    · simp only [Bool.false_eq_true, ↓reduceIte] at a3 ⊢; omega
    · simp only [↓reduceIte] at a3 ⊢; omega
  have eCh : chargeTot st st1 = r2.spreadCharge := by unfold chargeTot; omega
  rw [eIn, eOut, eCh]
  refine ⟨ck, cC0, cO0, ?_⟩
  -- the bucket
  have hbr : if zfo then nextSp2 ≤ st1.pool.sqrtPrice ∧ st1.pool.sqrtPrice ≤ st.pool.sqrtPrice
      else st.pool.sqrtPrice ≤ st1.pool.sqrtPrice ∧ st1.pool.sqrtPrice ≤ nextSp2 := by
    rcases hcase with ⟨_, e1, _, _, _⟩ | ⟨_, _, hguard, _, _, _⟩
    · cases zfo
      · simp only [Bool.false_eq_true, ↓reduceIte] at hmono ⊢; omega
      · simp only [↓reduceIte] at hmono ⊢; omega
    · cases zfo
      · simp only [Bool.false_eq_true, ↓reduceIte] at hmono hguard ⊢; omega
      · simp only [↓reduceIte] at hmono hguard ⊢; omega
  have hsb := sameBucket_of_step hok ha hsp t4 hbr
  rw [← hr2] at hmono hpos1 hsb ⊢
  exact step_vs_potential hsb hla.1 hpos hpos1 hmono cIn cOut

/-! ## the whole loop -/

theorem swapLoop_solv {og zfo : Bool} {spf limit spacing : Int} {tl : Ticks} {ps : List Position}
    (hok : TicksOK spacing tl ps) (hspf : SpfOK spf)
    (hlimit : sqrtPriceLimit (execPriceLimit zfo) zfo = some limit) :
    ∀ (fuel : Nat) (st : SwapSt) (ahead : Ticks) (steps crossed : Nat) (st' : SwapSt) (s' c' : Nat),
      swapLoop og zfo spf limit fuel st ahead steps crossed = some (st', s', c') →
      Agree spacing st.pool.sqrtPrice st.pool.tick → 0 < st.pool.sqrtPrice → LA zfo tl ps st.pool ahead →
      (∃ k, 0 ≤ k ∧ inTot og st st' = k * P18) ∧ 0 ≤ chargeTot st st' ∧ 0 ≤ outTot og st st' ∧
      Vin zfo ps st'.pool.sqrtPrice - Vin zfo ps st.pool.sqrtPrice ≤ (inTot og st st' : ℚ) / 10 ^ 18 ∧
      (outTot og st st' : ℚ) / 10 ^ 18 ≤ Vout zfo ps st.pool.sqrtPrice - Vout zfo ps st'.pool.sqrtPrice := by
  intro fuel
  induction fuel with
  | zero => intro st ahead steps crossed st' s' c' h; cases h
  | succ fuel ih =>
    intro st ahead steps crossed st' s' c' h ha hpos hla
    unfold swapLoop at h
    split at h
    · rename_i hcond
      cases hb : loopBody og zfo spf limit st ahead with
      | none => rw [hb] at h; cases h
      | some res =>
        obtain ⟨st1, ahead1, c1⟩ := res
        rw [hb] at h
        simp only at h
        cases ahead with
        | nil => rw [loopBody_nil] at hb; cases hb
        | cons x rest =>
          obtain ⟨nt, net⟩ := x
          obtain ⟨b1, b2, b3, ⟨k1, k10, bk⟩, b5, b6, b7, b8⟩ := body_solv hok hspf hlimit hb hcond.1 ha hpos hla
          obtain ⟨⟨k2, k20, ik⟩, i5, i6, i7, i8⟩ := ih _ _ _ _ _ _ _ h b1 b2 b3
          have eIn : inTot og st st' = inTot og st st1 + inTot og st1 st' := by
            unfold inTot chargeTot; cases og <;> simp only [Bool.false_eq_true, ↓reduceIte] <;> omega
          have eOut : outTot og st st' = outTot og st st1 + outTot og st1 st' := by
            unfold outTot; cases og <;> simp only [Bool.false_eq_true, ↓reduceIte] <;> omega
          have eCh : chargeTot st st' = chargeTot st st1 + chargeTot st1 st' := by unfold chargeTot; omega
          refine ⟨⟨k1 + k2, by omega, by rw [eIn, bk, ik, Int.add_mul]⟩, by omega, by omega, ?_, ?_⟩
          · rw [eIn]; push_cast; linarith
          · rw [eOut]; push_cast; linarith
    · injection h with h
      injection h with h1 _
      subst h1
      refine ⟨⟨0, by omega, by unfold inTot chargeTot; cases og <;> simp⟩, by unfold chargeTot; omega,
        by unfold outTot; cases og <;> simp, ?_, ?_⟩
      · have : inTot og st st = 0 := by unfold inTot chargeTot; cases og <;> simp
        rw [this]; simp
      · have : outTot og st st = 0 := by unfold outTot; cases og <;> simp
        rw [this]; simp

end OsmoVerif.CLSolv
