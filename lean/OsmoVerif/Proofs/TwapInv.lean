/- C10 helper lemmas, part 2: the store operations keep the index well formed; pruning keeps lookups;
bounds of weighted sums. -/
import OsmoVerif.Proofs.TwapLemmas

namespace OsmoVerif.Twap
open OsmoVerif.Num

/-! ### weighted sums -/

theorem weights_nonneg : ∀ {l : List TwapRecord} {a b : Int} {p : TwapRecord × Int}, p ∈ weights l a b → 0 ≤ p.2 ∧ p.1 ∈ l := by
  intro l
  induction l with
  | nil => intro a b p hp; cases hp
  | cons r rs ih =>
    intro a b p hp
    cases rs with
    | nil =>
      have : p = (r, max 0 (b - max (canonicalMs r.time) a)) := by simpa [weights] using hp
      subst this
      exact ⟨by simp only; omega, List.mem_cons_self⟩
    | cons r' rs' =>
      rw [weights_cons_cons] at hp
      rcases List.mem_cons.mp hp with hp | hp
      · subst hp
        exact ⟨by simp only; omega, List.mem_cons_self⟩
      · exact ⟨(ih hp).1, List.mem_cons_of_mem _ (ih hp).2⟩

/-- a weighted sum lies between `lo · Σw` and `hi · Σw` when every record with positive weight has its
value in `[lo, hi]` and no weight is negative. -/
theorem wsum_bounds {sel : TwapRecord → Int} {lo hi : Int} : ∀ {l : List (TwapRecord × Int)},
    (∀ p ∈ l, 0 ≤ p.2) → (∀ p ∈ l, 0 < p.2 → lo ≤ sel p.1 ∧ sel p.1 ≤ hi) →
    lo * wsum (fun _ => 1) l ≤ wsum sel l ∧ wsum sel l ≤ hi * wsum (fun _ => 1) l := by
  intro l
  induction l with
  | nil => intro _ _; simp [wsum]
  | cons p t ih =>
    intro hn hb
    obtain ⟨r, w⟩ := p
    have hw : 0 ≤ w := hn (r, w) List.mem_cons_self
    have iht := ih (fun p hp => hn p (List.mem_cons_of_mem _ hp)) (fun p hp => hb p (List.mem_cons_of_mem _ hp))
    show lo * (1 * w + wsum (fun _ => 1) t) ≤ sel r * w + wsum sel t ∧ sel r * w + wsum sel t ≤ hi * (1 * w + wsum (fun _ => 1) t)
    rcases Int.lt_or_le 0 w with hpos | hz
    · obtain ⟨h1, h2⟩ := hb (r, w) List.mem_cons_self hpos
      have a1 : lo * w ≤ sel r * w := Int.mul_le_mul_of_nonneg_right h1 hw
      have a2 : sel r * w ≤ hi * w := Int.mul_le_mul_of_nonneg_right h2 hw
      constructor
      · linarith [iht.1]
      · linarith [iht.2]
    · have : w = 0 := by omega
      subst this
      simp only [Int.mul_zero, Int.zero_add]
      exact iht

/-! ### `StoreHistoricalTWAP` at the end of the index -/

theorem insertRec_mem : ∀ {l : List TwapRecord} {n x : TwapRecord}, x ∈ insertRec l n → x = n ∨ x ∈ l := by
  intro l
  induction l with
  | nil => intro n x hx; simp [insertRec] at hx; exact Or.inl hx
  | cons r rs ih =>
    intro n x hx
    unfold insertRec at hx
    split at hx
    · rcases List.mem_cons.mp hx with h | h
      · exact Or.inl h
      · exact Or.inr h
    · split at hx
      · rcases List.mem_cons.mp hx with h | h
        · exact Or.inl h
        · exact Or.inr (List.mem_cons_of_mem _ h)
      · rcases List.mem_cons.mp hx with h | h
        · exact Or.inr (h ▸ List.mem_cons_self)
        · rcases ih h with h | h
          · exact Or.inl h
          · exact Or.inr (List.mem_cons_of_mem _ h)

/-- the new record replaces the last one: same time key and accumulators (`updateRecord` at the block
time of the most recent record). -/
structure SameKey (r n : TwapRecord) : Prop where
  time : n.time = r.time
  acc0 : n.acc0 = r.acc0
  acc1 : n.acc1 = r.acc1
  geom : n.geom = r.geom
  err : n.lastErr = n.time ∨ n.lastErr = r.lastErr

theorem Step.of_sameKey {a r n : TwapRecord} (h : Step a r) (k : SameKey r n) : Step a n where
  lt := by rw [k.time]; exact h.lt
  acc0 := by rw [k.acc0, k.time]; exact h.acc0
  acc1 := by rw [k.acc1, k.time]; exact h.acc1
  geom := by rw [k.geom, k.time]; exact h.geom
  err := by
    rcases k.err with e | e
    · exact Or.inl e
    · rcases h.err with e' | e'
      · left; rw [e, e', k.time]
      · right; rw [e, e']

theorem chain_last_time {a : TwapRecord} : ∀ {l : List TwapRecord} {r : TwapRecord},
    Chain (a :: l) → l.getLast? = some r → a.time < r.time := by
  intro l r hc hl
  have : r ∈ l := List.mem_of_getLast? hl
  exact Chain.head_lt hc r this

/-- appending after the last record / replacing the last record, below a fixed predecessor `a`. -/
theorem chain_insert_below {n : TwapRecord} : ∀ {l : List TwapRecord} {a r : TwapRecord},
    Chain (a :: l) → l.getLast? = some r → (Step r n ∨ SameKey r n) →
    Chain (a :: insertRec l n) ∧ (insertRec l n).getLast? = some n := by
  intro l
  induction l with
  | nil => intro a r _ hl; cases hl
  | cons b rs ih =>
    intro a r hc hl hn
    cases rs with
    | nil =>
      simp only [List.getLast?_singleton] at hl
      injection hl with hl
      subst hl
      rcases hn with hs | hk
      · have : insertRec [b] n = [b, n] := by
          unfold insertRec
          rw [if_neg (by have := hs.lt; omega), if_neg (by have := hs.lt; omega)]
          rfl
        rw [this]
        exact ⟨⟨hc.1, hs, trivial⟩, rfl⟩
      · have : insertRec [b] n = [n] := by
          unfold insertRec
          rw [if_neg (by have := hk.time; omega), if_pos hk.time]
        rw [this]
        exact ⟨⟨hc.1.of_sameKey hk, trivial⟩, rfl⟩
    | cons c rs' =>
      rw [List.getLast?_cons_cons] at hl
      have hbr : b.time < r.time := chain_last_time hc.2 hl
      have hbn : b.time < n.time := by
        rcases hn with hs | hk
        · have := hs.lt; omega
        · have := hk.time; omega
      have : insertRec (b :: c :: rs') n = b :: insertRec (c :: rs') n := by
        show (if n.time < b.time then _ else if n.time = b.time then _ else _) = _
        rw [if_neg (by omega), if_neg (by omega)]
      rw [this]
      obtain ⟨h1, h2⟩ := ih hc.2 hl hn
      refine ⟨⟨hc.1, h1⟩, ?_⟩
      cases hi : insertRec (c :: rs') n with
      | nil => rw [hi] at h2; cases h2
      | cons d ds => rw [List.getLast?_cons_cons, ← hi]; exact h2

theorem chain_insert {n : TwapRecord} {l : List TwapRecord} {r : TwapRecord}
    (hc : Chain l) (hl : l.getLast? = some r) (hn : Step r n ∨ SameKey r n) :
    Chain (insertRec l n) ∧ (insertRec l n).getLast? = some n := by
  cases l with
  | nil => cases hl
  | cons a rs =>
    cases rs with
    | nil =>
      simp only [List.getLast?_singleton] at hl
      injection hl with hl
      subst hl
      rcases hn with hs | hk
      · have : insertRec [a] n = [a, n] := by
          unfold insertRec
          rw [if_neg (by have := hs.lt; omega), if_neg (by have := hs.lt; omega)]
          rfl
        rw [this]
        exact ⟨⟨hs, trivial⟩, rfl⟩
      · have : insertRec [a] n = [n] := by
          unfold insertRec
          rw [if_neg (by have := hk.time; omega), if_pos hk.time]
        rw [this]
        exact ⟨trivial, rfl⟩
    | cons b rs' =>
      rw [List.getLast?_cons_cons] at hl
      have har : a.time < r.time := chain_last_time hc hl
      have han : a.time < n.time := by
        rcases hn with hs | hk
        · have := hs.lt; omega
        · have := hk.time; omega
      have : insertRec (a :: b :: rs') n = a :: insertRec (b :: rs') n := by
        show (if n.time < a.time then _ else if n.time = a.time then _ else _) = _
        rw [if_neg (by omega), if_neg (by omega)]
      rw [this]
      obtain ⟨h1, h2⟩ := chain_insert_below hc hl hn
      refine ⟨h1, ?_⟩
      cases hi : insertRec (b :: rs') n with
      | nil => rw [hi] at h2; cases h2
      | cons d ds => rw [List.getLast?_cons_cons, ← hi]; exact h2

/-! ### `updateRecord`, `create`, `update`, `prune` keep the stores well formed -/

/-- a successful `updateRecord`: the new record is at the block time, carries the given prices, and
either follows the old one (`Step`) or replaces it at the same time key (`SameKey`); its error time is
the block time iff the spot price read failed, else the old record's. -/
theorem updateRecord_spec {r n : TwapRecord} {now height sp0 sp1 : Int} {e : Bool}
    (h : updateRecord r now height sp0 sp1 e = .ok n) :
    n.time = now ∧ n.height = height ∧ n.sp0 = sp0 ∧ n.sp1 = sp1 ∧ r.time ≤ now ∧
    n.lastErr = (if e then now else r.lastErr) ∧ (Step r n ∨ SameKey r n) := by
  unfold updateRecord at h
  split at h
  · cases h
  · split at h
    · cases h
    · rename_i hgt
      split at h
      · cases h
      · rename_i m hm
        injection h with h
        subst h
        obtain ⟨ht, _, _, _, h0, h1, hg, _⟩ := interp_spec hm
        have hle : r.time ≤ now := by omega
        refine ⟨ht, rfl, rfl, rfl, hle, rfl, ?_⟩
        rcases Int.lt_or_le r.time now with hlt | hge
        · left
          exact { lt := by show r.time < m.time; omega
                  acc0 := by show m.acc0 = _; rw [ht] at *; exact h0
                  acc1 := by show m.acc1 = _; rw [ht] at *; exact h1
                  geom := by show m.geom = _; rw [ht] at *; exact hg
                  err := by
                    show (if e = true then now else r.lastErr) = m.time ∨ (if e = true then now else r.lastErr) = r.lastErr
                    cases e
                    · right; rfl
                    · left; simp [ht] }
        · right
          have heq : r.time = now := by omega
          have hz : canonicalMs now - canonicalMs r.time = 0 := by rw [heq]; omega
          rw [hz, Int.mul_zero, Int.add_zero] at h0 h1 hg
          exact { time := by show m.time = r.time; omega
                  acc0 := h0, acc1 := h1, geom := hg
                  err := by
                    show (if e = true then now else r.lastErr) = m.time ∨ (if e = true then now else r.lastErr) = r.lastErr
                    cases e
                    · right; rfl
                    · left; simp [ht] }

/-- the empty stores. -/
theorem WF.empty : WF {} := ⟨trivial, rfl, fun _ h => by cases h⟩

/-- pool creation on empty stores (creation time not before Go's zero time). -/
theorem WF.create {now height sp0 sp1 : Int} {e : Bool} (hz : zeroTime ≤ now) :
    WF (create {} now height sp0 sp1 e) := by
  refine ⟨trivial, rfl, ?_⟩
  intro r hr
  have : r = newRecord now height sp0 sp1 e := by simpa [Twap.create, storeNewRecord, insertRec] using hr
  subst this
  show (if e = true then now else zeroTime) ≤ now
  cases e
  · exact hz
  · exact Int.le_refl _

theorem WF.update {s s' : Store} {now height sp0 sp1 : Int} {e : Bool} (wf : WF s)
    (h : update s now height sp0 sp1 e = .ok s') : WF s' := by
  unfold Twap.update at h
  cases hr : s.recent with
  | none => rw [hr] at h; cases h
  | some r =>
    rw [hr] at h
    simp only at h
    cases hu : updateRecord r now height sp0 sp1 e with
    | err => rw [hu] at h; cases h
    | panic => rw [hu] at h; cases h
    | ok n =>
      rw [hu] at h
      simp only [Res.bind] at h
      injection h with h
      subst h
      obtain ⟨ht, _, _, _, hle, herr, hstep⟩ := updateRecord_spec hu
      have hl : s.hist.getLast? = some r := by rw [← wf.recent, hr]
      obtain ⟨c1, c2⟩ := chain_insert wf.chain hl hstep
      refine ⟨c1, c2.symm, ?_⟩
      intro x hx
      rcases insertRec_mem hx with hx | hx
      · subst hx
        rw [herr, ht]
        cases e
        · have := wf.errLe r (List.mem_of_getLast? hl)
          simp only [Bool.false_eq_true, if_false]; omega
        · simp
      · exact wf.errLe x hx

theorem pruneHist_cons_cons (r r' : TwapRecord) (rs : List TwapRecord) (k : Int) :
    pruneHist (r :: r' :: rs) k = if r'.time < k then pruneHist (r' :: rs) k else r :: r' :: rs := rfl

theorem pruneHist_spec : ∀ {h : List TwapRecord} {k : Int}, Chain h →
    Chain (pruneHist h k) ∧ (pruneHist h k).getLast? = h.getLast? ∧ (∀ x ∈ pruneHist h k, x ∈ h) := by
  intro h
  induction h with
  | nil => intro k _; exact ⟨trivial, rfl, fun _ hx => hx⟩
  | cons r rs ih =>
    intro k hc
    cases rs with
    | nil => exact ⟨trivial, rfl, fun _ hx => hx⟩
    | cons r' rs' =>
      rw [pruneHist_cons_cons]
      split
      · obtain ⟨a, b, c⟩ := ih (k := k) hc.2
        exact ⟨a, by rw [b, List.getLast?_cons_cons], fun x hx => List.mem_cons_of_mem _ (c x hx)⟩
      · exact ⟨hc, rfl, fun _ hx => hx⟩

theorem WF.prune {s : Store} {k : Int} (wf : WF s) : WF (prune s k) := by
  obtain ⟨a, b, c⟩ := pruneHist_spec (k := k) wf.chain
  exact ⟨a, by show s.recent = (pruneHist s.hist k).getLast?; rw [b]; exact wf.recent, fun x hx => wf.errLe x (c x hx)⟩

/-- **every history**: whatever sequence of end-of-block updates (accepted, rejected or panicking) and
pruning passes follows a pool creation, the stores stay well formed. -/
theorem WF.runOps {s : Store} (wf : WF s) : ∀ ops : List Op, WF (runOps s ops) := by
  intro ops
  induction ops generalizing s with
  | nil => exact wf
  | cons op ops ih =>
    show WF (List.foldl applyOp (applyOp s op) ops)
    apply ih
    cases op with
    | update now height sp0 sp1 e =>
      show WF (match Twap.update s now height sp0 sp1 e with | .ok s' => s' | _ => s)
      cases hu : Twap.update s now height sp0 sp1 e with
      | ok s' => exact wf.update hu
      | err => exact wf
      | panic => exact wf
    | prune k => exact wf.prune

/-- pruning with cutoff `k` does not change which record is found for a time at or after `k`. -/
theorem recAtOrBefore_pruneHist : ∀ {h : List TwapRecord} {k t : Int}, Chain h → k ≤ t →
    recAtOrBefore (pruneHist h k) t = recAtOrBefore h t := by
  intro h
  induction h with
  | nil => intro k t _ _; rfl
  | cons r rs ih =>
    intro k t hc hkt
    cases rs with
    | nil => rfl
    | cons r' rs' =>
      rw [pruneHist_cons_cons]
      split
      · rename_i hlt
        rw [ih hc.2 hkt]
        have h1 : r.time ≤ t := by have := hc.1.lt; omega
        obtain ⟨y, hy⟩ := recAtOrBefore_some_of_head_le (r := r') (rs := rs') (t := t) (by omega)
        rw [recAtOrBefore_cons r, if_pos h1, hy]
      · rfl

end OsmoVerif.Twap
