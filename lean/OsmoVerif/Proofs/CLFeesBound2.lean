/-
C08 helpers, part 11: the SUM invariant across withdrawals, add-to-position and swaps; every message; histories.
-/
import OsmoVerif.Proofs.CLFeesBound

namespace OsmoVerif.CLFeesP
open OsmoVerif.CLPool OsmoVerif.CL OsmoVerif.CLBook OsmoVerif.Num OsmoVerif.CLFees OsmoVerif.CLRewards OsmoVerif.Gen OsmoVerif.CLSolv
open OsmoVerif.Spec

/-! ## withdraw -/

theorem withdraw_sum {f f' : Fees} {owner : String} {id : Nat} {req o0 o1 : Int} {n : Int}
    (hf : FullInv f) (hs : SumInv f n) (h : CLFees.withdrawPosition f owner id req = some (f', o0, o1)) :
    SumInv f' (n + 1) := by
  obtain ⟨sf, frame, pos, r, rewards, hm, hid, _, hr, esh, hreq0, hreq1, hrew, hcase⟩ := withdraw_facts hf.pool.core hf.acc h
  obtain ⟨pos0, _, hfind0, hw, _, _⟩ := withdraw_spec h
  obtain ⟨ef0, ef1, esc⟩ := withdraw_frame hw
  have hcore := hf.pool.core
  have hliqpos := hcore.pos.liqPos
  obtain ⟨hmem', hid'⟩ := find_id hfind0
  have hposeq : pos0 = pos := mem_eq_of_id hcore.pos.uniq hmem' hm (by rw [hid', hid])
  have hfind : f.pool.positions.find? (fun x => decide (x.id = id)) = some pos := by rw [← hposeq]; exact hfind0
  obtain ⟨_, _, epos, _, _⟩ := withdraw_positions hfind hw
  have hsh0 : 0 ≤ r.shares := by rw [esh]; have := hliqpos _ hm; omega
  have hEpos : ∀ s, entI f s pos = get s r.unclaimed * P18 + (get s (insideF f pos.lower pos.upper) - get s r.snap) * r.shares :=
    fun s => entI_of_rec (by rw [hid]; exact hr)
  have hfee : ∀ s, feeS f' s = feeS f s := by intro s; unfold feeS; rw [ef0, ef1]
  rcases hcase with ⟨hne, hrec', eg, eo0, eo1, ets⟩ | ⟨heq, hrec', eo0, eo1, ets, eg, hrew0⟩
  · -- partial: the accrued amount is parked in the record
    rw [if_neg hne] at epos
    refine ⟨?_, by rw [esc]; exact hs.scale, fun s => ?_⟩
    · rw [ets, hs.ts, epos]
      have := posUpd_map hcore.pos.uniq hm (-req) liqW liqW_additive
      rw [hid] at this
      unfold totalLiq
      rw [this]; simp only [liqW]; omega
    · have hmapid : ∀ q : Position, entI f' s (if q.id = id then { q with liq := pos.liq + -req } else q) = entI f' s q := by
        intro q; apply entI_congr_pos <;> (split <;> rfl)
      have hother : ∀ q ∈ f.pool.positions, q.id ≠ pos.id → entI f' s q = entI f s q := by
        intro q hq hne'
        have hq' : (if q.id = id then { q with liq := pos.liq + -req } else q) ∈ f'.pool.positions := by
          rw [epos]; exact List.mem_map_of_mem hq
        have hin := sf.inside q hq _ hq' (by split <;> rfl) s
        rw [evSum_single, get_vsub, eg] at hin
        unfold entI
        rw [frame q.id (by rw [← hid]; exact hne'), hin]
        split <;> simp
      have hposE : entI f' s pos = get s rewards * P18 := by
        have hq' : (if pos.id = id then { pos with liq := pos.liq + -req } else pos) ∈ f'.pool.positions := by
          rw [epos]; exact List.mem_map_of_mem (f := fun q => if q.id = id then { q with liq := pos.liq + -req } else q) hm
        have hin := sf.inside pos hm _ hq' (by split <;> rfl) s
        rw [evSum_single, get_vsub, eg] at hin
        have hrp : getRec f'.acc.recs pos.id = some ⟨id, pos.liq - req, insideF f pos.lower pos.upper, rewards⟩ := by rw [hid]; exact hrec'
        rw [entI_of_rec hrp, hin]
        simp only
        have : get s (insideF f pos.lower pos.upper) + (if pos.lower ≤ f.pool.tick ∧ f.pool.tick < pos.upper then get s f.acc.global - get s f.acc.global else 0) - get s (insideF f pos.lower pos.upper) = 0 := by
          split <;> omega
        rw [this, Int.zero_mul, Int.add_zero]
      have hsum : sumBy (entI f' s) f'.pool.positions = sumBy (entI f s) f.pool.positions + (get s rewards * P18 - entI f s pos) := by
        rw [epos, sumBy_map]
        have : sumBy (fun q => entI f' s (if q.id = id then { q with liq := pos.liq + -req } else q)) f.pool.positions =
            sumBy (entI f' s) f.pool.positions := sumBy_congr (fun q _ => hmapid q)
        rw [this, sumBy_point (F := entI f s) (G := entI f' s) hcore.pos.uniq hm hother, hposE]
      have hsettle := settle_E (hrew s).2 hsh0 (hrew s).1
      have hout : outS f' s = outS f s := by unfold outS; rw [eo0, eo1]
      have := hs.bound s
      unfold phi at this ⊢
      have hn : (n + 1) * P18 = n * P18 + P18 := by rw [Int.add_mul, Int.one_mul]
      have hE := hEpos s
      rw [hsum, hout, hfee, esc, hn]
      omega
  · -- full: the accrued amount is paid out, its dust goes to the remaining liquidity
    rw [if_pos heq] at epos
    have hts' : f'.acc.totalShares = totalLiq f'.pool.positions := by
      rw [ets, hs.ts, epos]
      have := posUpd_filter hcore.pos.uniq hm liqW liqW_additive
      rw [hid] at this
      unfold totalLiq
      rw [this]; simp only [liqW]; omega
    refine ⟨hts', by rw [esc]; exact hs.scale, fun s => ?_⟩
    let dg := dustGrowthI f.pool.scale (get s rewards) (f.acc.totalShares - req)
    have hdg : get s f'.acc.global - get s f.acc.global = dg := by have := eg s; omega
    have hmemf : ∀ q' ∈ f'.pool.positions, q' ∈ f.pool.positions ∧ q'.id ≠ id := by
      intro q' hq'
      rw [epos] at hq'
      obtain ⟨a, b⟩ := List.mem_filter.mp hq'
      exact ⟨a, by simpa using b⟩
    have hent : ∀ q' ∈ f'.pool.positions,
        entI f' s q' = entI f s q' + (if q'.lower ≤ f.pool.tick ∧ f.pool.tick < q'.upper then dg else 0) * q'.liq := by
      intro q' hq'
      obtain ⟨hq, hne'⟩ := hmemf q' hq'
      obtain ⟨rq, hrq, eq1, _⟩ := hf.acc.recs q' hq
      have hin := sf.inside q' hq q' hq' rfl s
      rw [evSum_single, get_vsub, hdg] at hin
      have hrq' : getRec f'.acc.recs q'.id = some rq := by rw [frame q'.id hne']; exact hrq
      rw [entI_of_rec hrq', entI_of_rec hrq, hin, eq1]
      split
      · have e : get s (insideF f q'.lower q'.upper) + dg - get s rq.snap = (get s (insideF f q'.lower q'.upper) - get s rq.snap) + dg := by omega
        rw [e, Int.add_mul]; omega
      · simp only [Int.add_zero, Int.zero_mul]
    have hsum : sumBy (entI f' s) f'.pool.positions =
        sumBy (entI f s) f.pool.positions - entI f s pos + dg * activeAt f'.pool.positions f.pool.tick := by
      rw [sumBy_congr hent, sumBy_add, sumBy_credit, epos]
      have := sumBy_filter_id (F := entI f s) hcore.pos.uniq hm
      rw [hid] at this
      rw [this]
    have hliq' : ∀ q' ∈ f'.pool.positions, 0 < q'.liq := fun q' hq' => hliqpos q' (hmemf q' hq').1
    obtain ⟨a0, a1⟩ := activeAt_le_totalLiq hliq' f.pool.tick
    have hK := claim_K_le (scale := f.pool.scale) (total := get s rewards) (T := f.acc.totalShares - req)
      (A := activeAt f'.pool.positions f.pool.tick) hs.scale (hrew0 s) a0 (by rw [← ets, hts']; exact a1)
    have hsettle := settle_E (hrew s).2 hsh0 (hrew s).1
    have hout : outS f' s = outS f s + claimAmt f.pool.scale (get s rewards) := by
      unfold outS; cases s
      · simp only [Bool.false_eq_true, ↓reduceIte]; rw [eo1]; rfl
      · simp only [↓reduceIte]; rw [eo0]; rfl
    have := hs.bound s
    unfold phi at this ⊢
    have hn : (n + 1) * P18 = n * P18 + P18 := by rw [Int.add_mul, Int.one_mul]
    have hE := hEpos s
    rw [hsum, hout, hfee, esc, Int.add_mul, hn]
    have hdgdef : dg = dustGrowthI f.pool.scale (get s rewards) (f.acc.totalShares - req) := rfl
    rw [← hdgdef] at hK
    omega

/-! ## swap -/

theorem traceOK_liq {zfo : Bool} {tl : Ticks} {ps : List Position} :
    ∀ (trs : List StepTrace) (cur cur' : Int), TraceOK zfo tl ps cur trs cur' → ∀ tr ∈ trs, tr.liq = activeAt ps tr.tick
  | [], _, _, _ => fun _ h => by cases h
  | tr :: rest, cur, cur', hok => by
    simp only [TraceOK] at hok
    obtain ⟨e1, e2, next, _, hrest⟩ := hok
    intro t ht
    rcases List.mem_cons.mp ht with rfl | ht
    · rw [e2, e1]
    · exact traceOK_liq rest next cur' hrest t ht

/-- exchanging the sums: Σ positions liquidity × (growth of the steps while in range) = Σ steps growth × active liquidity. -/
theorem sum_traceGrowth {scale : Int} {ps : List Position} :
    ∀ (trs : List StepTrace), (∀ tr ∈ trs, tr.liq = activeAt ps tr.tick) →
      sumBy (fun q => traceGrowth scale q.lower q.upper trs * q.liq) ps = traceCredit scale trs
  | [], _ => by
    simp only [traceGrowth, traceCredit, Int.zero_mul]
    exact sumBy_eq_zero (fun _ _ => rfl)
  | tr :: rest, h => by
    have ih := sum_traceGrowth (scale := scale) rest (fun t ht => h t (List.mem_cons_of_mem _ ht))
    have e : (fun q : Position => traceGrowth scale q.lower q.upper (tr :: rest) * q.liq) =
        fun q => (if q.lower ≤ tr.tick ∧ tr.tick < q.upper then (spreadGrowth tr.charge tr.liq scale).getD 0 else 0) * q.liq +
          traceGrowth scale q.lower q.upper rest * q.liq := by
      funext q; simp only [traceGrowth, Int.add_mul]
    rw [e, sumBy_add, sumBy_credit, ih, ← h tr List.mem_cons_self]
    simp only [traceCredit]

theorem swap_sum {f f' : Fees} {og zfo : Bool} {spec ain aout fee : Int} {n : Int}
    (hf : FullInv f) (hs : SumInv f n) (h : CLFees.swap f og zfo spec = some (f', ain, aout, fee)) : SumInv f' n := by
  have hi := hf.pool
  have hspf := hf.spf
  obtain ⟨sf, erecs, epos, ets, eo0, eo1⟩ := swap_facts hi hspf hf.acc h
  obtain ⟨hp, trs, g, htr, hfold, hg, hadd, _, _, _, _⟩ := swap_spec h
  obtain ⟨esc, hfeeup⟩ := swap_frame hp
  -- the loop behind the trace
  obtain ⟨limit, st, steps, crossed, hl, hloopT⟩ := swapTrace_spec htr
  obtain ⟨r, hne, hex, _, _, _, _, _, _, _, _, _⟩ := swap_bal hp
  have hcs := execSwap_spec hex
  obtain ⟨limit', st', steps', crossed', hl', hloop, _, ersp, _, _⟩ := computeSwap_loop hcs
  rw [hl] at hl'; injection hl' with hl'; subst hl'
  have hS := swapLoopT_fst f.pool.scale og zfo f.pool.spf limit (2 * (f.pool.ticks.map fun t => (t.tick, t.net)).length + CL.swapNoProgressLimit + 8)
    { remaining := spec * P18, calculated := 0, pool := ⟨f.pool.sqrtPrice, f.pool.tick, f.pool.liquidity⟩, spreadTotal := 0, noProgress := 0 }
    (ticksAhead zfo (f.pool.ticks.map fun t => (t.tick, t.net)) f.pool.tick) 0 0
  rw [hloopT] at hS
  simp only [Option.map_some] at hS
  have hloop2 := swapLoopS_some _ _ _ _ _ _ hS.symm
  have hst : st' = st := by
    have : some (st', steps', crossed') = some (st, steps, crossed) := by rw [← hloop]; exact hloop2
    injection this with this; injection this
  subst hst
  have hmono := swapMono_of_inv og zfo spec hi.core hi.price hi.active hspf limit hl
  have htok := swapLoopT_traceOK (ticksOK_of_core hi.core) _ _ _ _ _ _ _ _ _ hloopT hmono (hi.price.2 hne).1 ⟨hi.active, rfl⟩
  obtain ⟨hch0, hsumch⟩ := swapLoopT_charges (ticksOK_of_core hi.core) hspf hl _ _ _ _ _ _ _ _ _ hloopT
    (hi.price.2 hne).1 (hi.price.2 hne).2 ⟨hi.active, rfl⟩
  simp only [Int.zero_add] at hsumch
  have hfeeceil := execSwap_fee hex
  rw [ersp, hsumch] at hfeeceil
  have hfeeP : sumCh trs ≤ fee * P18 := hfeeceil.2
  have hliqeq := traceOK_liq trs _ _ htok
  have hliqpos := hi.core.pos.liqPos
  have hcredit : traceCredit f.pool.scale trs ≤ sumCh trs * f.pool.scale := by
    apply traceCredit_le hs.scale
    intro tr htr'
    refine ⟨hch0 tr htr', ?_⟩
    rw [hliqeq tr htr']
    exact (activeAt_le_totalLiq hliqpos _).1
  have hEv : swapEvents f og zfo spec = trs.map fun tr => (tr.tick, V2.ofIn zfo ((spreadGrowth tr.charge tr.liq f.pool.scale).getD 0)) := by
    unfold swapEvents; rw [htr]
  refine ⟨by rw [ets, epos]; exact hs.ts, by rw [esc]; exact hs.scale, fun s => ?_⟩
  have hent : ∀ q ∈ f.pool.positions,
      entI f' s q = entI f s q + dlt s zfo (traceGrowth f.pool.scale q.lower q.upper trs) * q.liq := by
    intro q hq
    obtain ⟨rq, hrq, eq1, _⟩ := hf.acc.recs q hq
    have hq' : q ∈ f'.pool.positions := by rw [epos]; exact hq
    have hin := sf.inside q hq q hq' rfl s
    rw [hEv, evSum_trace] at hin
    have hrq' : getRec f'.acc.recs q.id = some rq := by rw [erecs]; exact hrq
    rw [entI_of_rec hrq', entI_of_rec hrq, hin, eq1]
    have e : get s (insideF f q.lower q.upper) + dlt s zfo (traceGrowth f.pool.scale q.lower q.upper trs) - get s rq.snap =
        (get s (insideF f q.lower q.upper) - get s rq.snap) + dlt s zfo (traceGrowth f.pool.scale q.lower q.upper trs) := by omega
    rw [e, Int.add_mul]; omega
  have hsum : sumBy (entI f' s) f'.pool.positions =
      sumBy (entI f s) f.pool.positions + dlt s zfo (traceCredit f.pool.scale trs) := by
    rw [epos, sumBy_congr hent, sumBy_add]
    congr 1
    unfold dlt
    split
    · exact sum_traceGrowth trs hliqeq
    · simp only [Int.zero_mul]; exact sumBy_eq_zero (fun _ _ => rfl)
  have hout : outS f' s = outS f s := by unfold outS; rw [eo0, eo1]
  have hfee : feeS f' s = feeS f s + dlt s zfo fee := by
    unfold feeS dlt
    cases s <;> cases zfo <;> simp at hfeeup ⊢ <;> omega
  have := hs.bound s
  unfold phi at this ⊢
  rw [hsum, hout, hfee, esc, Int.add_mul]
  -- dlt (credit) ≤ dlt fee × (P18 × scale)
  have hkey : dlt s zfo (traceCredit f.pool.scale trs) ≤ dlt s zfo fee * (P18 * f.pool.scale) := by
    unfold dlt
    split
    · have h1 : sumCh trs * f.pool.scale ≤ fee * P18 * f.pool.scale :=
        Int.mul_le_mul_of_nonneg_right hfeeP (by have := hs.scale; omega)
      rw [← Int.mul_assoc]; omega
    · simp
  omega

/-! ## add-to-position, every message, histories -/

theorem add_sum {f f' : Fees} {owner : String} {id nid : Nat} {add0 add1 x0 x1 : Int} {n : Int}
    (hf : FullInv f) (hs : SumInv f n) (h : CLFees.addToPosition f owner id add0 add1 = some (f', nid, x0, x1)) :
    SumInv f' (n + 1) := by
  obtain ⟨pos, f1, w0, w1, liq, lo, up, hfind, hown, hneg, hz, hw, hne, hc⟩ := add_spec h
  have hap : applyF f (.withdraw owner id pos.liq) = some f1 := by simp only [applyF, hw, Option.map_some]
  have hf1 := (apply_facts hf hap).1
  exact createMin_sum hf1 (withdraw_sum hf hs hw) hc

theorem apply_sum {f f' : Fees} {op : FOp} {n : Int} (hf : FullInv f) (hs : SumInv f n) (h : applyF f op = some f') :
    SumInv f' (n + 1) := by
  cases op with
  | create o l u a0 a1 =>
    simp only [applyF, Option.map_eq_some_iff] at h
    obtain ⟨⟨f1, id, x0, x1, liq, lo, up⟩, h, e⟩ := h
    simp only at e; subst e
    exact (createMin_sum hf hs h).mono (by omega)
  | withdraw o id liq =>
    simp only [applyF, Option.map_eq_some_iff] at h
    obtain ⟨⟨f1, o0, o1⟩, h, e⟩ := h
    simp only at e; subst e
    exact withdraw_sum hf hs h
  | add o id a0 a1 =>
    simp only [applyF, Option.map_eq_some_iff] at h
    obtain ⟨⟨f1, nid, x0, x1⟩, h, e⟩ := h
    simp only at e; subst e
    exact add_sum hf hs h
  | transfer s id n' => exact (transfer_sum hf hs h).mono (by omega)
  | swap og zfo spec =>
    simp only [applyF, Option.map_eq_some_iff] at h
    obtain ⟨⟨f1, ain, aout, fee⟩, h, e⟩ := h
    simp only at e; subst e
    exact (swap_sum hf hs h).mono (by omega)
  | collect s id =>
    simp only [applyF, Option.map_eq_some_iff] at h
    obtain ⟨⟨f1, c0, c1⟩, h, e⟩ := h
    simp only at e; subst e
    exact collect_sum hf hs h

theorem step_sum {f : Fees} (op : FOp) {n : Int} (hf : FullInv f) (hs : SumInv f n) : SumInv (stepF f op) (n + 1) := by
  rcases stepF_cases f op with h | ⟨f', h, e⟩
  · rw [h]; exact hs.mono (by omega)
  · rw [e]; exact apply_sum hf hs h

theorem run_sum {f : Fees} (ops : List FOp) {n : Int} (hf : FullInv f) (hs : SumInv f n) :
    SumInv (runF f ops) (n + ops.length) := by
  induction ops generalizing f n with
  | nil => simp only [List.length_nil, Nat.cast_zero, Int.add_zero]; exact hs
  | cons op ops ih =>
    have := ih (step_full op hf) (step_sum op hf hs)
    simp only [List.length_cons, Nat.cast_add, Nat.cast_one]
    have e : n + 1 + (ops.length : Int) = n + ((ops.length : Int) + 1) := by omega
    rw [← e]; exact this

theorem initF_sum {spacing spf scale : Int} (hsc : 0 < scale) : SumInv (initF spacing spf scale) 0 := by
  refine ⟨rfl, hsc, fun s => ?_⟩
  unfold phi outS feeS initF
  cases s <;> simp

end OsmoVerif.CLFeesP
