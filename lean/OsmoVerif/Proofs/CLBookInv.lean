/-
C07 helpers, part 4: the book-keeping invariant of a concentrated pool (`InvCore`: ticks exact, positions
well-formed, ids, empty pool has no price; `InvActive`: active liquidity) and its preservation by
create / withdraw / add-to / transfer, and by swaps for everything a swap does not touch.  Core only.
-/
import OsmoVerif.Proofs.CLBookSpec

namespace OsmoVerif.CLBook
open OsmoVerif.CLPool OsmoVerif.CL OsmoVerif.Num OsmoVerif.Tick OsmoVerif.Gen

/-! ## the invariant -/

/-- well-formed position list: positive liquidity, non-empty range inside the tick bounds, boundaries on
the tick spacing, ids pairwise distinct and below the id counter. -/
structure PosOK (spacing : Int) (nextId : Nat) (ps : List Position) : Prop where
  liqPos : ∀ q ∈ ps, 0 < q.liq
  range : ∀ q ∈ ps, q.lower < q.upper
  bounds : ∀ q ∈ ps, CL.MinInitializedTick ≤ q.lower ∧ q.upper ≤ CL.MaxTick
  aligned : ∀ q ∈ ps, q.lower.tmod spacing = 0 ∧ q.upper.tmod spacing = 0
  uniq : UniqueIds ps
  idsLt : ∀ q ∈ ps, q.id < nextId

/-- clauses (b), (d), (e) of C07 and the side conditions. -/
structure InvCore (p : Pool) : Prop where
  /-- the tick store is strictly sorted by tick index -/
  sorted : Sorted p.ticks
  /-- gross liquidity of every tick = total liquidity of the positions that use it as a boundary -/
  gross : ∀ t, grossOf p.ticks t = grossAt p.positions t
  /-- net liquidity of every tick = liquidity entering at it − liquidity leaving at it -/
  net : ∀ t, netOf p.ticks t = netAt p.positions t
  /-- a tick is stored iff it is a boundary of some position -/
  stored : ∀ t, Stored p.ticks t ↔ Used p.positions t
  pos : PosOK p.spacing p.nextId p.positions
  /-- a pool without positions has no price -/
  empty : p.positions = [] → p.sqrtPrice = 0 ∧ p.tick = 0

/-- clause (a): active liquidity = total liquidity of the positions whose range contains the current tick. -/
def InvActive (p : Pool) : Prop := p.liquidity = activeAt p.positions p.tick

theorem InvCore.of_eq {p' : Pool} {tk : List TickInfo} {ps : List Position} {sp : Int} {n : Nat}
    (ht : p'.ticks = tk) (hp : p'.positions = ps) (hsp : p'.spacing = sp) (hn : p'.nextId = n)
    (sorted : Sorted tk) (gross : ∀ t, grossOf tk t = grossAt ps t) (net : ∀ t, netOf tk t = netAt ps t)
    (stored : ∀ t, Stored tk t ↔ Used ps t) (pos : PosOK sp n ps)
    (empty : ps = [] → p'.sqrtPrice = 0 ∧ p'.tick = 0) : InvCore p' := by
  subst ht; subst hp; subst hsp; subst hn
  exact ⟨sorted, gross, net, stored, pos, empty⟩

theorem initPool_core (s f : Int) : InvCore (initPool s f) := by
  refine ⟨List.Pairwise.nil, fun _ => rfl, fun _ => rfl, ?_, ?_, fun _ => ⟨rfl, rfl⟩⟩
  · intro t
    constructor
    · intro ⟨x, hx, _⟩; cases hx
    · intro ⟨q, hq, _⟩; cases hq
  · exact ⟨(fun _ hq => nomatch hq), (fun _ hq => nomatch hq), (fun _ hq => nomatch hq), (fun _ hq => nomatch hq),
      List.Pairwise.nil, (fun _ hq => nomatch hq)⟩

theorem initPool_active (s f : Int) : InvActive (initPool s f) := rfl

/-! ## generic facts -/

theorem used_iff_gross {ps : List Position} (hpos : ∀ q ∈ ps, 0 < q.liq) (t : Int) :
    Used ps t ↔ grossAt ps t ≠ 0 := by
  have := grossAt_eq_zero_iff hpos t
  constructor
  · intro hu h0; exact (this.mp h0) hu
  · intro hne
    apply Classical.byContradiction
    intro hnu; exact hne (this.mpr hnu)

theorem mem_eq_of_id {ps : List Position} (hu : UniqueIds ps) {a b : Position} (ha : a ∈ ps) (hb : b ∈ ps)
    (h : a.id = b.id) : a = b := by
  induction ps with
  | nil => cases ha
  | cons x xs ih =>
    have hu' := List.pairwise_cons.mp hu
    rcases List.mem_cons.mp ha with rfl | ha'
    · rcases List.mem_cons.mp hb with rfl | hb'
      · rfl
      · exact absurd h (hu'.1 b hb')
    · rcases List.mem_cons.mp hb with rfl | hb'
      · exact absurd h.symm (hu'.1 a ha')
      · exact ih hu'.2 ha' hb'

theorem find_spec {ps : List Position} {id : Nat} {pos : Position}
    (h : ps.find? (fun x => decide (x.id = id)) = some pos) : pos ∈ ps ∧ pos.id = id := by
  have := List.find?_some h
  exact ⟨List.mem_of_find?_eq_some h, by simpa using this⟩

/-- both tick updates of `updatePosition`, in the function view. -/
theorem book_upd {ticks : List TickInfo} {ps ps' : List Position} {l u d : Int}
    (hs : Sorted ticks) (hg : ∀ t, grossOf ticks t = grossAt ps t) (hn : ∀ t, netOf ticks t = netAt ps t)
    (hu : PosUpd ps ps' l u d) :
    Sorted (updTick (updTick ticks l d false) u d true) ∧
    (∀ t, grossOf (updTick (updTick ticks l d false) u d true) t = grossAt ps' t) ∧
    (∀ t, netOf (updTick (updTick ticks l d false) u d true) t = netAt ps' t) ∧
    (∀ t, Stored (updTick (updTick ticks l d false) u d true) t ↔ Stored ticks t ∨ t = l ∨ t = u) := by
  have hs1 := updTick_sorted hs l d false
  refine ⟨updTick_sorted hs1 u d true, ?_, ?_, ?_⟩
  · intro t
    rw [updTick_grossOf hs1, updTick_grossOf hs, hg, hu.gross]
    unfold grossW
    repeat' split
    all_goals omega
  · intro t
    rw [updTick_netOf hs1, updTick_netOf hs, hn, hu.net]
    unfold netW
    simp only [Bool.false_eq_true, ↓reduceIte]
    repeat' split
    all_goals omega
  · intro t
    rw [updTick_stored, updTick_stored]
    constructor
    · intro h; rcases h with (h | h) | h
      · exact Or.inl h
      · exact Or.inr (Or.inl h)
      · exact Or.inr (Or.inr h)
    · intro h; rcases h with h | h | h
      · exact Or.inl (Or.inl h)
      · exact Or.inl (Or.inr h)
      · exact Or.inr h

/-- removing a tick whose gross and net liquidity vanish. -/
theorem book_remove {tk : List TickInfo} {ps : List Position} {t0 : Int} (b : Bool)
    (hs : Sorted tk) (hg : ∀ t, grossOf tk t = grossAt ps t) (hn : ∀ t, netOf tk t = netAt ps t)
    (hb : b = true → grossAt ps t0 = 0 ∧ netAt ps t0 = 0) :
    Sorted (if b then removeTick tk t0 else tk) ∧
    (∀ t, grossOf (if b then removeTick tk t0 else tk) t = grossAt ps t) ∧
    (∀ t, netOf (if b then removeTick tk t0 else tk) t = netAt ps t) ∧
    (∀ t, Stored (if b then removeTick tk t0 else tk) t ↔ Stored tk t ∧ ¬ (b = true ∧ t = t0)) := by
  cases b
  · simp only [Bool.false_eq_true, ↓reduceIte]
    exact ⟨hs, hg, hn, fun t => ⟨fun h => ⟨h, fun hx => hx.1⟩, fun h => h.1⟩⟩
  · simp only [↓reduceIte]
    obtain ⟨h1, h2⟩ := hb rfl
    refine ⟨removeTick_sorted hs t0, ?_, ?_, fun t => (removeTick_stored tk t0 t).trans
      ⟨fun h => ⟨h.1, fun hx => h.2 hx.2⟩, fun h => ⟨h.1, fun e => h.2 ⟨trivial, e⟩⟩⟩⟩
    · intro t; rw [removeTick_grossOf]; split
      · rename_i e; rw [e, h1]
      · exact hg t
    · intro t; rw [removeTick_netOf]; split
      · rename_i e; rw [e, h2]
      · exact hn t

/-! ## well-formedness of the updated position lists -/

theorem PosOK.of_rel {s : Int} {n : Nat} {ps ps' : List Position} (h : PosOK s n ps) (hu : UniqueIds ps')
    (hrel : ∀ q' ∈ ps', 0 < q'.liq ∧ ∃ q ∈ ps, q'.id = q.id ∧ q'.lower = q.lower ∧ q'.upper = q.upper) :
    PosOK s n ps' := by
  refine ⟨fun q' hq' => (hrel q' hq').1, ?_, ?_, ?_, hu, ?_⟩
  · intro q' hq'; obtain ⟨_, q, hq, _, e1, e2⟩ := hrel q' hq'; rw [e1, e2]; exact h.range q hq
  · intro q' hq'; obtain ⟨_, q, hq, _, e1, e2⟩ := hrel q' hq'; rw [e1, e2]; exact h.bounds q hq
  · intro q' hq'; obtain ⟨_, q, hq, _, e1, e2⟩ := hrel q' hq'; rw [e1, e2]; exact h.aligned q hq
  · intro q' hq'; obtain ⟨_, q, hq, e0, _, _⟩ := hrel q' hq'; rw [e0]; exact h.idsLt q hq

theorem uniqueIds_map {ps : List Position} (hu : UniqueIds ps) (g : Position → Position)
    (hg : ∀ q, (g q).id = q.id) : UniqueIds (ps.map g) := by
  unfold UniqueIds
  rw [List.pairwise_map]
  exact List.Pairwise.imp (fun {a b} h => by rw [hg, hg]; exact h) hu

theorem uniqueIds_filter {ps : List Position} (hu : UniqueIds ps) (f : Position → Bool) :
    UniqueIds (ps.filter f) := List.Pairwise.sublist List.filter_sublist hu

theorem PosOK.mono_id {s : Int} {n m : Nat} {ps : List Position} (h : PosOK s n ps) (hnm : n ≤ m) : PosOK s m ps :=
  ⟨h.liqPos, h.range, h.bounds, h.aligned, h.uniq, fun q hq => Nat.lt_of_lt_of_le (h.idsLt q hq) hnm⟩

theorem validRange_spec {s l u : Int} (h : validRange s l u = true) :
    l.tmod s = 0 ∧ u.tmod s = 0 ∧ CL.MinInitializedTick ≤ l ∧ u ≤ CL.MaxTick ∧ l < u := by
  unfold validRange at h
  simp only [decide_eq_true_eq] at h
  obtain ⟨h1, h2, h3, h4, h5⟩ := h
  exact ⟨h1, h2, by omega, by omega, h5⟩

/-! ## descendants: what can happen to a position record -/

/-- every position of `ps'` either descends from a position of `ps` with the same id, owner and range
(only its liquidity may differ) or has a fresh id `≥ n`. -/
def Desc (ps : List Position) (n : Nat) (ps' : List Position) : Prop :=
  ∀ q' ∈ ps', (∃ q ∈ ps, q.id = q'.id ∧ q.owner = q'.owner ∧ q.lower = q'.lower ∧ q.upper = q'.upper) ∨ n ≤ q'.id

theorem Desc.refl (ps : List Position) (n : Nat) : Desc ps n ps :=
  fun q' hq' => Or.inl ⟨q', hq', rfl, rfl, rfl, rfl⟩

theorem Desc.trans {ps ps1 ps2 : List Position} {n n1 : Nat} (h1 : Desc ps n ps1) (h2 : Desc ps1 n1 ps2)
    (hn : n ≤ n1) : Desc ps n ps2 := by
  intro q2 hq2
  rcases h2 q2 hq2 with ⟨q1, hq1, e0, e1, e2, e3⟩ | h
  · rcases h1 q1 hq1 with ⟨q, hq, f0, f1, f2, f3⟩ | h
    · exact Or.inl ⟨q, hq, by rw [f0, e0], by rw [f1, e1], by rw [f2, e2], by rw [f3, e3]⟩
    · exact Or.inr (by omega)
  · exact Or.inr (by omega)

/-! ## create -/

theorem create_inv {p : Pool} {owner : String} {lower upper a0 a1 m0 m1 : Int}
    {p' : Pool} {id : Nat} {r0 r1 liq l' u' : Int} (hc : InvCore p)
    (h : createPositionMin p owner lower upper a0 a1 m0 m1 = some (p', id, r0, r1, liq, l', u')) :
    InvCore p' ∧ (InvActive p → InvActive p') ∧ Desc p.positions p.nextId p'.positions ∧
    p.nextId ≤ p'.nextId ∧ p'.spacing = p.spacing ∧ p'.spf = p.spf ∧ p'.positions ≠ [] ∧
    (p.positions ≠ [] → p'.sqrtPrice = p.sqrtPrice ∧ p'.tick = p.tick) ∧
    (p.positions = [] → sqrtPriceToTickRoundDownSpacing p'.sqrtPrice p.spacing = some p'.tick) := by
  obtain ⟨p2, p3, le, ue, hvalid, hliq, _, g1, g2, g3, g4, g5, g6, g7, g8, e6, hp'⟩ := createPositionMin_some h
  have hnew : ∀ q ∈ p2.positions, q.id ≠ p.nextId := by
    rw [g5]; intro q hq; have := hc.pos.idsLt q hq; omega
  obtain ⟨hd, hp3, _, _⟩ := updatePosition_new hnew e6
  have hpos : 0 < liq := by omega
  obtain ⟨v1, v2, v3, v4, v5⟩ := validRange_spec hvalid
  have hu : PosUpd p.positions (p.positions ++ [⟨p.nextId, owner, l', u', liq⟩]) l' u' liq :=
    posUpd_append p.positions p.nextId owner l' u' liq
  obtain ⟨b1, b2, b3, b4⟩ := book_upd hc.sorted hc.gross hc.net hu
  have eticks : p'.ticks = updTick (updTick p.ticks l' liq false) u' liq true := by rw [hp', hp3, ← g4]
  have epos : p'.positions = p.positions ++ [⟨p.nextId, owner, l', u', liq⟩] := by rw [hp', hp3, ← g5]
  have espacing : p'.spacing = p.spacing := by rw [hp', hp3, ← g1]
  have enext : p'.nextId = p.nextId + 1 := by rw [hp', hp3, ← g6]
  have etick : p'.tick = p2.tick := by rw [hp', hp3]
  have esp : p'.sqrtPrice = p2.sqrtPrice := by rw [hp', hp3]
  have eliq : p'.liquidity = if inRange p2 l' u' then p2.liquidity + liq else p2.liquidity := by rw [hp', hp3]
  refine ⟨?_, ?_, ?_, by omega, espacing, by rw [hp', hp3, ← g2], ?_, ?_, ?_⟩
  · refine InvCore.of_eq eticks epos espacing enext b1 b2 b3 ?_ ?_ ?_
    · -- stored ↔ used
      intro t
      rw [b4]
      constructor
      · intro hst
        rcases hst with hst | hst | hst
        · obtain ⟨q, hq, hb⟩ := (hc.stored t).mp hst
          exact ⟨q, List.mem_append_left _ hq, hb⟩
        · exact ⟨_, List.mem_append_right _ List.mem_cons_self, Or.inl hst.symm⟩
        · exact ⟨_, List.mem_append_right _ List.mem_cons_self, Or.inr hst.symm⟩
      · intro ⟨q, hq, hb⟩
        rcases List.mem_append.mp hq with hq | hq
        · exact Or.inl ((hc.stored t).mpr ⟨q, hq, hb⟩)
        · have : q = ⟨p.nextId, owner, l', u', liq⟩ := by simpa using hq
          subst this
          rcases hb with hb | hb
          · exact Or.inr (Or.inl hb.symm)
          · exact Or.inr (Or.inr hb.symm)
    · -- PosOK
      have hold := hc.pos
      refine ⟨?_, ?_, ?_, ?_, ?_, ?_⟩
      · intro q hq
        rcases List.mem_append.mp hq with hq | hq
        · exact hold.liqPos q hq
        · have : q = ⟨p.nextId, owner, l', u', liq⟩ := by simpa using hq
          subst this; exact hpos
      · intro q hq
        rcases List.mem_append.mp hq with hq | hq
        · exact hold.range q hq
        · have : q = ⟨p.nextId, owner, l', u', liq⟩ := by simpa using hq
          subst this; exact v5
      · intro q hq
        rcases List.mem_append.mp hq with hq | hq
        · exact hold.bounds q hq
        · have : q = ⟨p.nextId, owner, l', u', liq⟩ := by simpa using hq
          subst this; exact ⟨v3, v4⟩
      · intro q hq
        rcases List.mem_append.mp hq with hq | hq
        · exact hold.aligned q hq
        · have : q = ⟨p.nextId, owner, l', u', liq⟩ := by simpa using hq
          subst this; exact ⟨v1, v2⟩
      · unfold UniqueIds
        rw [List.pairwise_append]
        refine ⟨hold.uniq, List.pairwise_singleton _ _, ?_⟩
        intro a ha b hb
        have : b = ⟨p.nextId, owner, l', u', liq⟩ := by simpa using hb
        subst this
        have := hold.idsLt a ha
        simp only; omega
      · intro q hq
        rcases List.mem_append.mp hq with hq | hq
        · have := hold.idsLt q hq; omega
        · have : q = ⟨p.nextId, owner, l', u', liq⟩ := by simpa using hq
          subst this; simp
    · intro hnil
      exact absurd hnil (by simp)
  · -- active liquidity
    intro ha
    unfold InvActive at ha ⊢
    rw [eliq, etick, epos, hu.active, g3, ha]
    have hsame : activeAt p.positions p.tick = activeAt p.positions p2.tick := by
      by_cases hnil : p.positions = []
      · rw [hnil]; rfl
      · rw [(g7 hnil).2]
    rw [hsame]
    unfold inRange actW
    simp only [ge_iff_le, Bool.decide_and, Bool.and_eq_true, decide_eq_true_eq]
    split <;> omega
  · -- descendants
    rw [epos]
    intro q' hq'
    rcases List.mem_append.mp hq' with hq | hq
    · exact Or.inl ⟨q', hq, rfl, rfl, rfl, rfl⟩
    · have : q' = ⟨p.nextId, owner, l', u', liq⟩ := by simpa using hq
      subst this; exact Or.inr (Nat.le_refl _)
  · rw [epos]; simp
  · intro hne; rw [esp, etick]; exact g7 hne
  · intro hnil; rw [esp, etick]; exact g8 hnil

/-! ## withdraw -/

theorem withdraw_inv {p : Pool} {owner : String} {id : Nat} {req : Int} {p' : Pool} {o0 o1 : Int}
    (hc : InvCore p) (h : withdrawPosition p owner id req = some (p', o0, o1)) :
    InvCore p' ∧ (InvActive p → InvActive p') ∧ Desc p.positions p.nextId p'.positions ∧
    p'.nextId = p.nextId ∧ p'.spacing = p.spacing ∧ p'.spf = p.spf ∧
    (p'.positions ≠ [] → p'.sqrtPrice = p.sqrtPrice ∧ p'.tick = p.tick) ∧
    (∀ q ∈ p'.positions, ∃ q0 ∈ p.positions, q0.id = q.id) := by
  obtain ⟨pos, p1, a0, a1, le, ue, efind, _, hreq0, hreq1, e2, hpos', hticks', hliq', hsp', hspf', hnext', hempty', hne'⟩ :=
    withdrawPosition_some h
  obtain ⟨hmem, hid⟩ := find_spec efind
  obtain ⟨_, hp1, hle, hue⟩ := updatePosition_old efind e2
  have hold := hc.pos
  have hrange := hold.range pos hmem
  -- the new position list
  have hmapid : ∀ q : Position, (if q.id = id then { q with liq := pos.liq + -req } else q).id = q.id := by
    intro q; split <;> rfl
  have epos : p'.positions = if req = pos.liq then p.positions.filter (fun x => decide (x.id ≠ id))
      else p.positions.map fun q => if q.id = id then { q with liq := pos.liq + -req } else q := by
    rw [hpos', hp1]
    simp only
    split
    · exact filter_map_upd p.positions id (fun q => { q with liq := pos.liq + -req }) (fun _ => rfl)
    · rfl
  have hu : PosUpd p.positions p'.positions pos.lower pos.upper (-req) := by
    rw [epos]
    split
    · rename_i hfull
      have := posUpd_filter hold.uniq hmem
      rw [hid] at this; rw [hfull]; exact this
    · have := posUpd_map hold.uniq hmem (-req)
      rw [hid] at this; exact this
  -- elements of the new list
  have hrel : ∀ q' ∈ p'.positions, 0 < q'.liq ∧
      ∃ q ∈ p.positions, q'.id = q.id ∧ q'.lower = q.lower ∧ q'.upper = q.upper ∧ q'.owner = q.owner := by
    intro q' hq'
    rw [epos] at hq'
    split at hq'
    · have hq := (List.mem_filter.mp hq').1
      exact ⟨hold.liqPos q' hq, q', hq, rfl, rfl, rfl, rfl⟩
    · rename_i hpart
      obtain ⟨q, hq, e⟩ := List.mem_map.mp hq'
      subst e
      split
      · exact ⟨by simp only; omega, q, hq, rfl, rfl, rfl, rfl⟩
      · exact ⟨hold.liqPos q hq, q, hq, rfl, rfl, rfl, rfl⟩
  have huniq : UniqueIds p'.positions := by
    rw [epos]
    split
    · exact uniqueIds_filter hold.uniq _
    · exact uniqueIds_map hold.uniq _ hmapid
  have hposok : PosOK p.spacing p.nextId p'.positions :=
    hold.of_rel huniq (fun q' hq' => by
      obtain ⟨h1, q, hq, e0, e1, e2, _⟩ := hrel q' hq'
      exact ⟨h1, q, hq, e0, e1, e2⟩)
  -- ticks
  obtain ⟨b1, b2, b3, b4⟩ := book_upd hc.sorted hc.gross hc.net hu
  have hp1t : p1.ticks = updTick (updTick p.ticks pos.lower (-req) false) pos.upper (-req) true := by rw [hp1]
  have hempty_iff : ∀ t, tickEmpty p1.ticks t = true ↔ grossAt p'.positions t = 0 := by
    intro t
    rw [tickEmpty_iff, hp1t, b2, b3]
    constructor
    · exact fun h => h.1
    · intro h0
      exact ⟨h0, netAt_eq_zero_of_not_used ((grossAt_eq_zero_iff hposok.liqPos t).mp h0)⟩
  have hle' : le = true ↔ grossAt p'.positions pos.lower = 0 := by rw [hle, ← hp1t]; exact hempty_iff _
  have hue' : ue = true ↔ grossAt p'.positions pos.upper = 0 := by rw [hue, ← hp1t]; exact hempty_iff _
  have hzero : ∀ t, grossAt p'.positions t = 0 → grossAt p'.positions t = 0 ∧ netAt p'.positions t = 0 :=
    fun t h0 => ⟨h0, netAt_eq_zero_of_not_used ((grossAt_eq_zero_iff hposok.liqPos t).mp h0)⟩
  obtain ⟨c1, c2, c3, c4⟩ := book_remove (t0 := pos.lower) le b1 b2 b3 (fun hb => hzero _ (hle'.mp hb))
  obtain ⟨d1, d2, d3, d4⟩ := book_remove (t0 := pos.upper) ue c1 c2 c3 (fun hb => hzero _ (hue'.mp hb))
  have eticks : p'.ticks = if ue then removeTick (if le then
      removeTick (updTick (updTick p.ticks pos.lower (-req) false) pos.upper (-req) true) pos.lower
      else updTick (updTick p.ticks pos.lower (-req) false) pos.upper (-req) true) pos.upper
      else (if le then removeTick (updTick (updTick p.ticks pos.lower (-req) false) pos.upper (-req) true) pos.lower
      else updTick (updTick p.ticks pos.lower (-req) false) pos.upper (-req) true) := by
    rw [hticks', hp1t]
  have esp : p'.spacing = p.spacing := by rw [hsp', hp1]
  have enext : p'.nextId = p.nextId := by rw [hnext', hp1]
  refine ⟨?_, ?_, ?_, enext, esp, by rw [hspf', hp1], ?_, ?_⟩
  · refine InvCore.of_eq eticks rfl esp enext d1 d2 d3 ?_ hposok hempty'
    intro t
    rw [d4, c4, b4, used_iff_gross hposok.liqPos]
    by_cases e1 : t = pos.lower
    · subst e1
      constructor
      · intro ⟨⟨_, hnl⟩, _⟩ h0
        exact hnl ⟨hle'.mpr h0, rfl⟩
      · intro hne
        refine ⟨⟨Or.inr (Or.inl rfl), fun hx => hne (hle'.mp hx.1)⟩, fun hx => ?_⟩
        omega
    · by_cases e2 : t = pos.upper
      · subst e2
        constructor
        · intro ⟨_, hnu⟩ h0
          exact hnu ⟨hue'.mpr h0, rfl⟩
        · intro hne
          exact ⟨⟨Or.inr (Or.inr rfl), fun hx => e1 hx.2⟩, fun hx => hne (hue'.mp hx.1)⟩
      · have hsame : grossAt p'.positions t = grossAt p.positions t := by
          rw [hu.gross]; unfold grossW
          rw [if_neg (fun e => e1 e.symm), if_neg (fun e => e2 e.symm)]; omega
        rw [hsame, ← used_iff_gross hold.liqPos, ← hc.stored]
        constructor
        · intro ⟨⟨hst, _⟩, _⟩
          rcases hst with hst | hst | hst
          · exact hst
          · exact absurd hst e1
          · exact absurd hst e2
        · intro hst
          exact ⟨⟨Or.inl hst, fun hx => e1 hx.2⟩, fun hx => e2 hx.2⟩
  · intro ha
    unfold InvActive at ha ⊢
    have hl1 : p1.liquidity = if inRange p pos.lower pos.upper then p.liquidity + -req else p.liquidity := by rw [hp1]
    have hat : activeAt p'.positions p.tick = p'.liquidity := by
      rw [hliq', hl1, hu.active, ha]
      unfold inRange actW
      simp only [ge_iff_le, Bool.decide_and, Bool.and_eq_true, decide_eq_true_eq]
      split <;> omega
    by_cases hnil : p'.positions = []
    · rw [← hat, hnil]; rfl
    · rw [(hne' hnil).2, ← hat, hp1]
  · intro q' hq'
    obtain ⟨_, q, hq, e0, e1, e2, e3⟩ := hrel q' hq'
    exact Or.inl ⟨q, hq, e0.symm, e3.symm, e1.symm, e2.symm⟩
  · intro hne
    have := hne' hne
    rw [hp1] at this; exact this
  · intro q hq
    obtain ⟨_, q0, hq0, e0, _⟩ := hrel q hq
    exact ⟨q0, hq0, e0.symm⟩

/-! ## add to position = withdraw everything + create -/

theorem add_inv {p : Pool} {owner : String} {id : Nat} {add0 add1 : Int} {p' : Pool} {nid : Nat} {r0 r1 : Int}
    (hc : InvCore p) (h : addToPosition p owner id add0 add1 = some (p', nid, r0, r1)) :
    InvCore p' ∧ (InvActive p → InvActive p') ∧ Desc p.positions p.nextId p'.positions ∧
    p.nextId ≤ p'.nextId ∧ p'.spacing = p.spacing ∧ p'.spf = p.spf ∧ p'.positions ≠ [] := by
  obtain ⟨pos, p1, w0, w1, liq, l', u', hw, hcr⟩ := addToPosition_some h
  obtain ⟨c1, a1, d1, n1, s1, f1, _, _⟩ := withdraw_inv hc hw
  obtain ⟨c2, a2, d2, n2, s2, f2, ne2, _, _⟩ := create_inv c1 hcr
  refine ⟨c2, fun ha => a2 (a1 ha), ?_, by omega, by rw [s2, s1], by rw [f2, f1], ne2⟩
  exact d1.trans d2 (by omega)

/-! ## transfer -/

theorem sumBy_map_pres (W : Int → Int → Int → Int) (g : Position → Position)
    (hg : ∀ q, (g q).lower = q.lower ∧ (g q).upper = q.upper ∧ (g q).liq = q.liq) (ps : List Position) :
    sumBy (onPos W) (ps.map g) = sumBy (onPos W) ps := by
  induction ps with
  | nil => rfl
  | cons a as ih =>
    simp only [List.map_cons, sumBy_cons, ih, onPos]
    obtain ⟨e1, e2, e3⟩ := hg a
    rw [e1, e2, e3]

theorem used_map_pres (g : Position → Position)
    (hg : ∀ q, (g q).lower = q.lower ∧ (g q).upper = q.upper ∧ (g q).liq = q.liq) (ps : List Position) (t : Int) :
    Used (ps.map g) t ↔ Used ps t := by
  constructor
  · intro ⟨q', hq', hb⟩
    obtain ⟨q, hq, e⟩ := List.mem_map.mp hq'
    subst e
    obtain ⟨e1, e2, _⟩ := hg q
    rw [e1, e2] at hb
    exact ⟨q, hq, hb⟩
  · intro ⟨q, hq, hb⟩
    obtain ⟨e1, e2, _⟩ := hg q
    exact ⟨g q, List.mem_map_of_mem hq, by rw [e1, e2]; exact hb⟩

theorem transfer_inv {p : Pool} {sender : String} {id : Nat} {newOwner : String} {p' : Pool}
    (hc : InvCore p) (h : transferPosition p sender id newOwner = some p') :
    InvCore p' ∧ (InvActive p → InvActive p') ∧
    p'.positions = (p.positions.map fun q => if q.id = id then { q with owner := newOwner } else q) ∧
    (∃ pos ∈ p.positions, pos.id = id ∧ pos.owner = sender) ∧
    p'.nextId = p.nextId ∧ p'.spacing = p.spacing ∧ p'.spf = p.spf ∧ p'.sqrtPrice = p.sqrtPrice ∧ p'.tick = p.tick ∧
    (p.positions ≠ [] → p'.positions ≠ []) := by
  obtain ⟨pos, efind, hs, hp'⟩ := transferPosition_some h
  obtain ⟨hmem, hid⟩ := find_spec efind
  have hg : ∀ q : Position, (if q.id = id then { q with owner := newOwner } else q).lower = q.lower ∧
      (if q.id = id then { q with owner := newOwner } else q).upper = q.upper ∧
      (if q.id = id then { q with owner := newOwner } else q).liq = q.liq := by
    intro q; split <;> exact ⟨rfl, rfl, rfl⟩
  have hgid : ∀ q : Position, (if q.id = id then { q with owner := newOwner } else q).id = q.id := by
    intro q; split <;> rfl
  have hold := hc.pos
  subst hp'
  refine ⟨?_, ?_, rfl, ⟨pos, hmem, hid, hs.symm⟩, rfl, rfl, rfl, rfl, rfl, ?_⟩
  · refine InvCore.of_eq rfl rfl rfl rfl hc.sorted ?_ ?_ ?_ ?_ ?_
    · intro t; rw [hc.gross]; exact (sumBy_map_pres _ _ hg _).symm
    · intro t; rw [hc.net]; exact (sumBy_map_pres _ _ hg _).symm
    · intro t; rw [hc.stored, used_map_pres _ hg]
    · refine hold.of_rel (uniqueIds_map hold.uniq _ hgid) ?_
      intro q' hq'
      obtain ⟨q, hq, e⟩ := List.mem_map.mp hq'
      subst e
      obtain ⟨e1, e2, e3⟩ := hg q
      exact ⟨by rw [e3]; exact hold.liqPos q hq, q, hq, hgid q, e1, e2⟩
    · intro hnil
      have := List.map_eq_nil_iff.mp hnil
      exact hc.empty this
  · intro ha
    unfold InvActive at ha ⊢
    show p.liquidity = activeAt (p.positions.map _) p.tick
    rw [ha]; exact (sumBy_map_pres _ _ hg _).symm
  · intro hne hnil
    exact hne (List.map_eq_nil_iff.mp hnil)

/-! ## swap: everything except the active liquidity -/

theorem swap_core {p : Pool} {og zfo : Bool} {spec : Int} {p' : Pool} {ain aout fee : Int}
    (hc : InvCore p) (h : CLPool.swap p og zfo spec = some (p', ain, aout, fee)) :
    InvCore p' ∧ p'.positions = p.positions ∧ p'.nextId = p.nextId ∧ p'.spacing = p.spacing ∧ p'.spf = p.spf ∧
    p'.ticks = p.ticks := by
  obtain ⟨r, f, hne, _, _, _, _, et, ep, en, es, ef⟩ := swap_some h
  refine ⟨InvCore.of_eq et ep es en hc.sorted hc.gross hc.net hc.stored hc.pos (fun e => absurd e hne), ep, en, es, ef, et⟩

end OsmoVerif.CLBook
