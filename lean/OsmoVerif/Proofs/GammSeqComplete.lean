/-
Converse of the balancer refinement (`Proofs/GammSeqRefine.lean`): if the abstract proportional join / exit succeeds
and the new balances and share supply fit sdk `Int` (256 bits), the balancer pool operation succeeds (with the same
result, by `bal_join_refines` / `bal_exit_refines`).  So for balancer the pool model is EXACTLY the abstract step
restricted to 256-bit results.
-/
import OsmoVerif.Proofs.GammSeqRefine

namespace OsmoVerif.GammSeq
open OsmoVerif.GammMath OsmoVerif.Num

/-- the value fits an sdk `Int` (`NewIntFromBigInt` does not panic). -/
def Fits (x : Int) : Prop := chkInt x = some x

instance (x : Int) : Decidable (Fits x) := inferInstanceAs (Decidable (chkInt x = some x))

theorem iadd_of_fits {a b : Int} (h : Fits (a + b)) : iadd a b = .ok (a + b) := by
  unfold iadd; rw [h]; rfl
theorem isub_of_fits {a b : Int} (h : Fits (a - b)) : isub a b = .ok (a - b) := by
  unfold isub; rw [h]; rfl

theorem mapM_of_ok {α β : Type} {f : α → R β} {g : α → β} : ∀ {l : List α}, (∀ a ∈ l, f a = .ok (g a)) →
    l.mapM f = .ok (l.map g)
  | [], _ => rfl
  | a :: l, h => by
    rw [List.mapM_cons, h a (List.mem_cons_self ..), mapM_of_ok fun b hb => h b (List.mem_cons_of_mem _ hb)]
    rfl

theorem findAsset_isSome {as : List BalAsset} {d : String} (h : d ∈ as.map (·.denom)) : (findAsset as d).isSome := by
  unfold findAsset
  rw [List.find?_isSome]
  obtain ⟨a, ha, e⟩ := List.mem_map.mp h
  exact ⟨a, ha, by simp [e]⟩

theorem balLP_denoms {p : BalPool} (hwf : BalWF p) : denoms (balLiquidity p) = p.assets.map (·.denom) := by
  rw [balLiquidity_eq (fun a ha => by have := hwf.pos a ha; omega), denoms_balCoins]

theorem joinedCoins_denoms : ∀ (cs : Coins) (us : List Int) (c : String × Int), c ∈ joinedCoins cs us → c.1 ∈ denoms cs
  | [], _, c, h => by simp [joinedCoins] at h
  | _ :: _, [], c, h => by simp [joinedCoins] at h
  | c0 :: cs, u :: us, c, h => by
    rw [joinedCoins_cons] at h
    simp only [denoms, List.map_cons, List.mem_cons]
    split at h
    · exact Or.inr (joinedCoins_denoms cs us c h)
    · rcases List.mem_cons.mp h with h | h
      · left; rw [h]
      · exact Or.inr (joinedCoins_denoms cs us c h)

/-- abstract join succeeds and the results fit 256 bits ⇒ `balJoinNoSwap` succeeds. -/
theorem bal_join_complete {p : BalPool} {tin j : Coins} {sh : Int} {lp' : LP} (hwf : BalWF p)
    (hne : "" ∉ p.assets.map (·.denom))
    (h : (balLP p).join tin = some (sh, j, lp'))
    (hfit : ∀ a ∈ p.assets, Fits (a.amount + amountOf j a.denom)) (hfitT : Fits (p.totalShares + sh)) :
    ∃ p', balJoinNoSwap p tin = .ok (sh, p') := by
  unfold LP.join at h
  split at h
  · rename_i hv
    have hv : validTokens (balLiquidity p) tin := hv
    split at h
    · rename_i sh' used hm
      have hm : maximalExactRatioJoin (balLiquidity p) p.totalShares tin = .ok (sh', used) := hm
      injection h with h; injection h with h1 h; injection h with h2 h3
      subst h1; subst h2
      have hden : denoms tin = p.assets.map (·.denom) := by rw [hv.1, balLP_denoms hwf]
      have hposin : ∀ c ∈ tin, 0 < amountOf (balLiquidity p) c.1 ∧ 0 ≤ c.2 := fun c hc =>
        ⟨mem_denoms_amountOf_pos hwf.lp.nodup hwf.lp.pos (by
            show c.1 ∈ denoms (balLiquidity p); rw [← hv.1]; exact List.mem_map.mpr ⟨c, hc, rfl⟩),
          Int.le_of_lt (hv.2 c hc)⟩
      obtain ⟨_, hjo⟩ := maximalExactRatioJoin_ok hm hposin (Int.le_of_lt hwf.total_pos)
      have hsame : sameDenoms p tin = true := by
        unfold sameDenoms
        rw [List.all_eq_true]
        intro c hc
        exact findAsset_isSome (by rw [← hden]; exact List.mem_map.mpr ⟨c, hc, rfl⟩)
      have hlen : tin.length = p.assets.length := by
        have := congrArg List.length hden
        simpa [denoms] using this
      have hcalc : balCalcJoinNoSwap p tin = .ok (sh', joinedCoins tin used) := by
        unfold balCalcJoinNoSwap
        rw [if_neg (by simp [hsame]), if_neg (by simp [hlen])]
        simp only [hm, bind, Except.bind]
        rw [if_neg (by rw [joinOK_not_anyGT hjo]; simp)]
        rfl
      have hinc : balIncrease p sh' (joinedCoins tin used) = .ok { p with
          assets := p.assets.map fun a => { a with amount := a.amount + amountOf (joinedCoins tin used) a.denom },
          totalShares := p.totalShares + sh' } := by
        unfold balIncrease
        have hany : (joinedCoins tin used).any (fun c => c.1 = "" ∨ (findAsset p.assets c.1).isNone) = false := by
          rw [List.any_eq_false]
          intro c hc
          have hd : c.1 ∈ p.assets.map (·.denom) := by rw [← hden]; exact joinedCoins_denoms tin used c hc
          have h1 : c.1 ≠ "" := fun e => hne (e ▸ hd)
          have h2 := findAsset_isSome hd
          simp only [decide_eq_true_eq, not_or]
          refine ⟨h1, ?_⟩
          cases hf : findAsset p.assets c.1 with
          | none => rw [hf] at h2; cases h2
          | some a => simp
        rw [if_neg (by rw [hany]; simp)]
        have hadd : balAddAmounts p.assets (joinedCoins tin used) = .ok
            (p.assets.map fun a => { a with amount := a.amount + amountOf (joinedCoins tin used) a.denom }) := by
          unfold balAddAmounts
          exact mapM_of_ok fun a ha => by rw [iadd_of_fits (hfit a ha)]; rfl
        simp only [hadd, iadd_of_fits hfitT, bind, Except.bind, pure, Except.pure]
      have : balJoinNoSwap p tin = .ok (sh', { p with
          assets := p.assets.map fun a => { a with amount := a.amount + amountOf (joinedCoins tin used) a.denom },
          totalShares := p.totalShares + sh' }) := by
        unfold balJoinNoSwap
        simp only [hcalc, hinc, bind, Except.bind, pure, Except.pure]
      exact ⟨_, this⟩
    · cases h
  · cases h

theorem exitCoins_denoms {p : BalPool} (hwf : BalWF p) {T sh fee : Int} {cs : Coins}
    (h : calcExitPool (balLiquidity p) T sh fee = .ok cs) (hT : 0 < T) (hsh : 0 ≤ sh) (hfee : 0 ≤ fee ∧ fee ≤ P18) :
    ∀ c ∈ cs, c.1 ∈ p.assets.map (·.denom) := by
  intro c hc
  obtain ⟨_, h2⟩ := calcExitPool_spec h hT hsh hfee (fun c hc => Int.le_of_lt (hwf.lp.pos c hc))
  obtain ⟨a, ha, _⟩ := h2 c.1 c.2 hc
  rw [← balLP_denoms hwf]
  exact List.mem_map.mpr ⟨_, ha, rfl⟩

/-- abstract exit succeeds and the new share supply fits 256 bits ⇒ `balExit` succeeds. -/
theorem bal_exit_complete {p : BalPool} {fee sh : Int} {cs : Coins} {lp' : LP} (hwf : BalWF p)
    (hfee : 0 ≤ fee ∧ fee ≤ P18) (h : (balLP p).exit fee sh = some (cs, lp')) (hfitT : Fits (p.totalShares - sh)) :
    ∃ p', balExit p sh fee = .ok (cs, p') := by
  have f := LP.exit_facts hwf.lp hfee h
  unfold LP.exit at h
  split at h
  · rename_i hsh
    split at h
    · rename_i cs' hc
      have hc : calcExitPool (balLiquidity p) p.totalShares sh fee = .ok cs' := hc
      injection h with h; injection h with h1 h2
      subst h1
      have happ : balExitApply p cs' sh = .ok { p with
          assets := p.assets.map (fun a =>
            let n := a.amount - amountOf cs' a.denom
            if n = 0 then a else { a with amount := n }),
          totalShares := p.totalShares - sh } := by
        unfold balExitApply
        have h1 : p.assets.any (fun a => a.amount - amountOf cs' a.denom < 0) = false := by
          rw [List.any_eq_false]
          intro a ha
          obtain ⟨e1, e2⟩ := balLP_res hwf ha
          have := f.out_lt a.denom e2
          rw [e1] at this
          simp only [decide_eq_true_eq]; omega
        have h2 : cs'.any (fun c => (findAsset p.assets c.1).isNone) = false := by
          rw [List.any_eq_false]
          intro c hcm
          have := findAsset_isSome (exitCoins_denoms hwf hc hwf.total_pos (Int.le_of_lt hsh) hfee c hcm)
          cases hf : findAsset p.assets c.1 with
          | none => rw [hf] at this; cases this
          | some a => simp
        rw [if_neg (by rw [h1]; simp), if_neg (by rw [h2]; simp)]
        simp only [isub_of_fits hfitT, bind, Except.bind]
        have := f.shares_lt
        have : (balLP p).total = p.totalShares := rfl
        rw [if_neg (by omega)]
        rfl
      have : balExit p sh fee = .ok (cs', { p with
          assets := p.assets.map (fun a =>
            let n := a.amount - amountOf cs' a.denom
            if n = 0 then a else { a with amount := n }),
          totalShares := p.totalShares - sh }) := by
        unfold balExit balCalcExit
        simp only [hc, happ, bind, Except.bind, pure, Except.pure]
      exact ⟨_, this⟩
    · cases h
  · cases h

end OsmoVerif.GammSeq
