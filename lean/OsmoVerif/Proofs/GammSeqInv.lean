/-
Sequence theorems over the abstract LP machine of `Proofs/GammSeq.lean`: for ANY finite sequence of proportional
joins / exits by ANY actors
  * well-formedness is kept, reserves per share never decrease (`run_mono`);
  * exact accounting: the actors' net deposits add up to the change of the reserves (`run_dep_sum`), their
    holdings to the change of the share supply (`run_hold_sum`);
  * a single actor acting alone: the value of its held shares never exceeds its net deposit (`single_actor_inv`).
-/
import OsmoVerif.Proofs.GammSeq

namespace OsmoVerif.GammSeq
open OsmoVerif.GammMath OsmoVerif.Num

variable {fee : Int}

theorem run_wf (hfee : 0 ≤ fee ∧ fee ≤ P18) : ∀ (ops : List Op) {s : St}, s.lp.WF → (run fee s ops).lp.WF
  | [], _, h => h
  | op :: ops, _, h => run_wf hfee ops (step_facts hfee h op).wf

theorem run_denoms (hfee : 0 ≤ fee ∧ fee ≤ P18) : ∀ (ops : List Op) {s : St}, s.lp.WF →
    denoms (run fee s ops).lp.liq = denoms s.lp.liq
  | [], _, _ => rfl
  | op :: ops, _, h => by
    rw [run_cons, run_denoms hfee ops (step_facts hfee h op).wf, (step_facts hfee h op).denoms_eq]

/-- transitivity of "reserves per share did not decrease". -/
theorem mono_trans {R0 T0 R1 T1 R2 T2 : Int} (hT0 : 0 < T0) (hT1 : 0 < T1) (hT2 : 0 < T2)
    (h01 : R0 * T1 ≤ R1 * T0) (h12 : R1 * T2 ≤ R2 * T1) : R0 * T2 ≤ R2 * T0 := by
  have a : R0 * T1 * T2 ≤ R1 * T0 * T2 := Int.mul_le_mul_of_nonneg_right h01 (Int.le_of_lt hT2)
  have b : R1 * T2 * T0 ≤ R2 * T1 * T0 := Int.mul_le_mul_of_nonneg_right h12 (Int.le_of_lt hT0)
  have : (R0 * T2) * T1 ≤ (R2 * T0) * T1 := by linarith
  exact Int.le_of_mul_le_mul_right this hT1

/-- INVARIANT: over any op sequence, for every denom `d`: `R0_d · T_final ≤ R_final_d · T0`. -/
theorem run_mono (hfee : 0 ≤ fee ∧ fee ≤ P18) : ∀ (ops : List Op) {s : St}, s.lp.WF → ∀ d,
    s.lp.res d * (run fee s ops).lp.total ≤ (run fee s ops).lp.res d * s.lp.total
  | [], _, _, _ => Int.le_refl _
  | op :: ops, s, h, d => by
    have f := step_facts hfee h op
    rw [run_cons]
    exact mono_trans h.total_pos f.wf.total_pos (run_wf hfee ops f.wf).total_pos (f.mono d) (run_mono hfee ops f.wf d)

/-! ### exact accounting -/

theorem sum_map_update {f g : Nat → Int} {a : Nat} {δ : Int} (hs : g a = f a + δ) (ho : ∀ b, b ≠ a → g b = f b) :
    ∀ (as : List Nat), as.Nodup → (as.map g).sum = (as.map f).sum + if a ∈ as then δ else 0
  | [], _ => by simp
  | b :: as, hnd => by
    rw [List.nodup_cons] at hnd
    simp only [List.map_cons, List.sum_cons, List.mem_cons]
    rw [sum_map_update hs ho as hnd.2]
    by_cases hb : b = a
    · subst hb
      rw [hs, if_neg hnd.1, if_pos (Or.inl rfl)]; omega
    · rw [ho b hb]
      by_cases ha : a ∈ as
      · rw [if_pos ha, if_pos (Or.inr ha)]; omega
      · rw [if_neg ha, if_neg (by intro h; rcases h with h | h; exact hb h.symm; exact ha h)]; omega

/-- the actors' net deposits add up EXACTLY to the change of the reserves (`actors`: any duplicate-free list
containing every actor of the sequence). -/
theorem run_dep_sum (hfee : 0 ≤ fee ∧ fee ≤ P18) (actors : List Nat) (hnd : actors.Nodup) (d : String) :
    ∀ (ops : List Op) {s : St}, s.lp.WF → (∀ op ∈ ops, op.actor ∈ actors) →
      (actors.map fun a => (run fee s ops).dep a d).sum =
        (actors.map fun a => s.dep a d).sum + ((run fee s ops).lp.res d - s.lp.res d)
  | [], _, _, _ => by simp [run_nil]
  | op :: ops, s, h, hact => by
    have f := step_facts hfee h op
    rw [run_cons, run_dep_sum hfee actors hnd d ops f.wf (fun o ho => hact o (List.mem_cons_of_mem _ ho))]
    have := sum_map_update (f := fun a => s.dep a d) (g := fun a => (step fee s op).dep a d) (a := op.actor)
      (f.dep_self d) (fun b hb => f.dep_other b hb d) actors hnd
    rw [this, if_pos (hact op (List.mem_cons_self ..))]
    omega

/-- the actors' holdings add up to the change of the share supply. -/
theorem run_hold_sum (hfee : 0 ≤ fee ∧ fee ≤ P18) (actors : List Nat) (hnd : actors.Nodup) :
    ∀ (ops : List Op) {s : St}, s.lp.WF → (∀ op ∈ ops, op.actor ∈ actors) →
      (actors.map fun a => (run fee s ops).hold a).sum =
        (actors.map fun a => s.hold a).sum + ((run fee s ops).lp.total - s.lp.total)
  | [], _, _, _ => by simp [run_nil]
  | op :: ops, s, h, hact => by
    have f := step_facts hfee h op
    rw [run_cons, run_hold_sum hfee actors hnd ops f.wf (fun o ho => hact o (List.mem_cons_of_mem _ ho))]
    have := sum_map_update (f := fun a => s.hold a) (g := fun a => (step fee s op).hold a) (a := op.actor)
      f.hold_self f.hold_other actors hnd
    rw [this, if_pos (hact op (List.mem_cons_self ..))]
    omega

/-- an actor that does not act keeps its holdings and net deposits. -/
theorem run_other (hfee : 0 ≤ fee ∧ fee ≤ P18) (b : Nat) :
    ∀ (ops : List Op) {s : St}, s.lp.WF → (∀ op ∈ ops, op.actor ≠ b) →
      (run fee s ops).hold b = s.hold b ∧ ∀ d, (run fee s ops).dep b d = s.dep b d
  | [], _, _, _ => ⟨rfl, fun _ => rfl⟩
  | op :: ops, s, h, hact => by
    have f := step_facts hfee h op
    have hb : b ≠ op.actor := fun e => hact op (List.mem_cons_self ..) e.symm
    obtain ⟨i1, i2⟩ := run_other hfee b ops f.wf (fun o ho => hact o (List.mem_cons_of_mem _ ho))
    rw [run_cons]
    exact ⟨by rw [i1, f.hold_other b hb], fun d => by rw [i2, f.dep_other b hb d]⟩

/-- holdings never become negative (an exit of more than held fails). -/
theorem run_hold_nonneg (hfee : 0 ≤ fee ∧ fee ≤ P18) (a : Nat) :
    ∀ (ops : List Op) {s : St}, s.lp.WF → 0 ≤ s.hold a → 0 ≤ (run fee s ops).hold a
  | [], _, _, h0 => h0
  | op :: ops, s, h, h0 => by
    have f := step_facts hfee h op
    rw [run_cons]
    refine run_hold_nonneg hfee a ops f.wf ?_
    by_cases ha : a = op.actor
    · subst ha; exact f.hold_nonneg h0
    · rw [f.hold_other a ha]; exact h0

/-! ### a single actor acting alone -/

/-- only actor `a` acts: its net deposit moves with the reserves, its holdings with the share supply. -/
theorem run_single (hfee : 0 ≤ fee ∧ fee ≤ P18) (a : Nat) {ops : List Op} {s : St} (hwf : s.lp.WF)
    (hact : ∀ op ∈ ops, op.actor = a) :
    (run fee s ops).hold a = s.hold a + ((run fee s ops).lp.total - s.lp.total) ∧
    ∀ d, (run fee s ops).dep a d = s.dep a d + ((run fee s ops).lp.res d - s.lp.res d) := by
  have hm : ∀ op ∈ ops, op.actor ∈ [a] := fun o ho => by rw [hact o ho]; exact List.mem_singleton.mpr rfl
  have h1 := run_hold_sum hfee [a] (by simp) ops hwf hm
  refine ⟨by simpa using h1, fun d => ?_⟩
  have h2 := run_dep_sum hfee [a] (by simp) d ops hwf hm
  simpa using h2

/-- the arithmetic of the single-actor invariant: with `D = D0 + (R − R0)`, `h = h0 + (T − T0)`,
`T0·(D·T − h·R) = T·(D0·T0 − h0·R0) + (T0 − h0)·(R·T0 − R0·T)`. -/
theorem single_actor_arith {D0 h0 R0 T0 R T : Int} (hT0 : 0 < T0) (hT : 0 < T)
    (hinv : h0 * R0 ≤ D0 * T0) (hh : h0 ≤ T0) (hmono : R0 * T ≤ R * T0) :
    (h0 + (T - T0)) * R ≤ (D0 + (R - R0)) * T := by
  have a : 0 ≤ T * (D0 * T0 - h0 * R0) := Int.mul_nonneg (Int.le_of_lt hT) (by omega)
  have b : 0 ≤ (T0 - h0) * (R * T0 - R0 * T) := Int.mul_nonneg (by omega) (by omega)
  have : ((h0 + (T - T0)) * R) * T0 ≤ ((D0 + (R - R0)) * T) * T0 := by nlinarith
  exact Int.le_of_mul_le_mul_right this hT0

/-- SINGLE-ACTOR INVARIANT.  Only actor `a` acts (no interleaving of others; the other shares are passive).  If
initially the value of its held shares is at most its net deposit (`h0·R0_d ≤ D0_d·T0`; e.g. `h0 = 0 = D0`) and
`h0 ≤ T0`, then after ANY sequence of its own joins and exits, for every denom `d`:
`h · R_d ≤ D_d · T` — the pro-rata value `h·R_d/T` of the shares it still holds never exceeds its net deposit. -/
theorem single_actor_inv (hfee : 0 ≤ fee ∧ fee ≤ P18) (a : Nat) {ops : List Op} {s : St} (hwf : s.lp.WF)
    (hact : ∀ op ∈ ops, op.actor = a) (d : String)
    (hinv : s.hold a * s.lp.res d ≤ s.dep a d * s.lp.total) (hh : s.hold a ≤ s.lp.total) :
    (run fee s ops).hold a * (run fee s ops).lp.res d ≤ (run fee s ops).dep a d * (run fee s ops).lp.total := by
  obtain ⟨e1, e2⟩ := run_single hfee a hwf hact
  rw [e1, e2 d]
  exact single_actor_arith hwf.total_pos (run_wf hfee ops hwf).total_pos hinv hh (run_mono hfee ops hwf d)

end OsmoVerif.GammSeq
