/-
`LogBase2`: the invariant of the squaring loop in reals and the total error bound.
-/
import OsmoVerif.Proofs.MathLogReal

namespace OsmoVerif.MathM
open OsmoVerif.Num OsmoVerif.Gen OsmoVerif.Spec Real

/-- the logarithm "implied" by a loop state at bit position `i`: accumulated bits plus the exact
logarithm of the current mantissa scaled by `2^-i`.  Exact arithmetic keeps it constant. -/
noncomputable def logT (x y : Int) (i : Nat) : ℝ := (y : ℝ) / 10 ^ 36 + lg2 x / 2 ^ i

theorem lg2_range {x : Int} (h1 : P36 ≤ x) (h2 : x < 2 * P36) : 0 ≤ lg2 x ∧ lg2 x < 1 := by
  have hv := bval_ge_one h1
  have hv2 := bval_lt_two h2
  unfold lg2
  refine ⟨Real.logb_nonneg (by norm_num) hv, ?_⟩
  have := Real.logb_lt_logb (b := 2) (by norm_num) (by linarith : 0 < bval x) hv2
  rwa [Real.logb_self_eq_one (by norm_num)] at this

theorem bPot_antitone (i : Nat) : bPot (i + 1) ≤ bPot i := by
  have := bErr_le_pot i
  have := abs_nonneg (bErr i)
  linarith

theorem log2Iter_real : ∀ (f i : Nat) (x y r : Int), P36 ≤ x → x < 2 * P36 →
    log2Iter f x y (P36 / 2 ^ (i + 1)) = some r →
    |(r : ℝ) / 10 ^ 36 - logT x y i| ≤ 1 / 2 ^ (i + f) + 3 / 2 / 10 ^ 36 / 2 ^ i + (bPot i - bPot (i + f)) := by
  intro f
  induction f with
  | zero =>
    intro i x y r h1 h2 h
    obtain rfl := Option.some.inj h
    obtain ⟨l0, l1⟩ := lg2_range h1 h2
    have hp : (0 : ℝ) < 2 ^ i := by positivity
    have e : (y : ℝ) / 10 ^ 36 - logT x y i = -(lg2 x / 2 ^ i) := by unfold logT; ring
    rw [e, abs_neg, abs_of_nonneg (by positivity)]
    have : lg2 x / 2 ^ i ≤ 1 / 2 ^ i := by
      apply div_le_div_of_nonneg_right l1.le hp.le
    have : (0 : ℝ) ≤ 3 / 2 / 10 ^ 36 / 2 ^ i := by positivity
    simp only [sub_self, add_zero]
    linarith
  | succ f ih =>
    intro i x y r h1 h2 h
    obtain ⟨x', y', hrec, h1', h2', hcase⟩ := log2Iter_step h h1 h2
    have hb : P36 / 2 ^ (i + 1) / 2 = P36 / 2 ^ (i + 1 + 1) := by
      rw [Int.ediv_ediv_of_nonneg (by positivity), ← pow_succ]
    rw [hb] at hrec
    have IH := ih (i + 1) x' y' r h1' h2' hrec
    have hidx : i + 1 + f = i + (f + 1) := by omega
    rw [hidx] at IH
    have hW : (0 : ℝ) < 2 ^ (i + 1) := by positivity
    -- all rounding terms in units of Q = 10^-36 / 2^(i+1)
    have q1 : (3 : ℝ) / 2 / 10 ^ 36 / 2 ^ (i + 1) = 3 / 2 * (1 / 10 ^ 36 / 2 ^ (i + 1)) := by ring
    have q2 : (3 : ℝ) / 2 / 10 ^ 36 / 2 ^ i = 3 * (1 / 10 ^ 36 / 2 ^ (i + 1)) := by
      rw [pow_succ]; field_simp; ring
    have hQ : (0 : ℝ) ≤ 1 / 10 ^ 36 / 2 ^ (i + 1) := by positivity
    have hpot := bErr_le_pot i
    have hanti := bPot_antitone i
    have tri := abs_sub_le ((r : ℝ) / 10 ^ 36) (logT x' y' (i + 1)) (logT x y i)
    rw [q1] at IH
    rw [q2]
    rcases hcase with ⟨rfl, hs⟩ | ⟨rfl, hs⟩
    · have hstep := lg2_step0 h1 h1' hs
      have e : logT x' y' (i + 1) - logT x y' i = (lg2 x' - 2 * lg2 x) / 2 ^ (i + 1) := by
        unfold logT; rw [pow_succ]; field_simp; ring
      have : |logT x' y' (i + 1) - logT x y' i| ≤ 1 / 10 ^ 36 / 2 ^ (i + 1) := by
        rw [e, abs_div, abs_of_pos hW]
        exact div_le_div_of_nonneg_right hstep hW.le
      linarith
    · have hstep := lg2_step1 h1 h1' hs
      have e : logT x' (y + P36 / 2 ^ (i + 1)) (i + 1) - logT x y i =
          -bErr i + (lg2 x' - (2 * lg2 x - 1)) / 2 ^ (i + 1) := by
        unfold logT bErr; push_cast; rw [pow_succ]; field_simp; ring
      have h3 : |(lg2 x' - (2 * lg2 x - 1)) / 2 ^ (i + 1)| ≤ 3 / 2 * (1 / 10 ^ 36 / 2 ^ (i + 1)) := by
        rw [abs_div, abs_of_pos hW, ← q1]
        exact div_le_div_of_nonneg_right hstep hW.le
      have : |logT x' (y + P36 / 2 ^ (i + 1)) (i + 1) - logT x y i| ≤
          |bErr i| + 3 / 2 * (1 / 10 ^ 36 / 2 ^ (i + 1)) := by
        rw [e]
        calc _ ≤ |-bErr i| + |(lg2 x' - (2 * lg2 x - 1)) / 2 ^ (i + 1)| := abs_add_le _ _
          _ ≤ _ := by rw [abs_neg]; linarith
      linarith

/-! ### normalisation in reals -/

theorem bval_pos {x : Int} (h : 0 < x) : 0 < bval x := by
  have : (0 : ℝ) < (x : ℝ) := by exact_mod_cast h
  unfold bval; positivity

/-- the state after normalisation carries the exact logarithm up to the floor of the right shifts. -/
theorem normSpec_real {x x2 y2 : Int} (hx : 0 < x) (h : NormSpec x x2 y2) :
    |logT x2 y2 0 - lg2 x| ≤ 2 / 10 ^ 36 := by
  obtain ⟨h1, h2, m, hm⟩ := h
  have hvx := bval_pos hx
  have h2m : (0 : ℝ) < 2 ^ m := by positivity
  rcases hm with ⟨rfl, rfl⟩ | ⟨rfl, rfl⟩
  · -- left shifts are exact
    have e : logT (x * 2 ^ m) (-(m * P36)) 0 = lg2 x := by
      unfold logT lg2
      have ev : bval (x * 2 ^ m) = bval x * 2 ^ m := by unfold bval; push_cast; ring
      rw [ev, Real.logb_mul hvx.ne' h2m.ne', Real.logb_pow, Real.logb_self_eq_one (by norm_num)]
      push_cast; rw [P36_cast]; field_simp; ring
    rw [e, sub_self, abs_zero]; positivity
  · -- right shifts: one floor in total
    have hi2 : (0 : Int) < 2 ^ m := by positivity
    have f1 : x / 2 ^ m * 2 ^ m ≤ x := Int.ediv_mul_le _ (by omega)
    have f2 : x < (x / 2 ^ m + 1) * 2 ^ m := Int.lt_ediv_add_one_mul_self _ hi2
    have f1r : ((x / 2 ^ m : Int) : ℝ) * 2 ^ m ≤ (x : ℝ) := by exact_mod_cast f1
    have f2r : (x : ℝ) < (((x / 2 ^ m : Int) : ℝ) + 1) * 2 ^ m := by exact_mod_cast f2
    have hab : |bval (x / 2 ^ m) - bval x / 2 ^ m| ≤ 1 / 10 ^ 36 := by
      have e : bval (x / 2 ^ m) - bval x / 2 ^ m =
          (((x / 2 ^ m : Int) : ℝ) * 2 ^ m - (x : ℝ)) / (10 ^ 36 * 2 ^ m) := by
        unfold bval; field_simp
      rw [e, abs_div, abs_of_pos (by positivity : (0 : ℝ) < 10 ^ 36 * 2 ^ m), div_le_iff₀ (by positivity)]
      have e2 : (1 : ℝ) / 10 ^ 36 * (10 ^ 36 * 2 ^ m) = 2 ^ m := by field_simp
      rw [e2, abs_le]
      constructor <;> nlinarith
    have hp := logb_two_perturb (bval_ge_one h1) (by norm_num) hab
    have e3 : logb 2 (bval x / 2 ^ m) = lg2 x - m := by
      unfold lg2
      rw [Real.logb_div hvx.ne' h2m.ne', Real.logb_pow, Real.logb_self_eq_one (by norm_num)]; ring
    have e4 : logT (x / 2 ^ m) (m * P36) 0 - lg2 x = lg2 (x / 2 ^ m) - (lg2 x - m) := by
      unfold logT; push_cast; rw [P36_cast]; field_simp; ring
    rw [e4, ← e3]
    unfold lg2
    calc _ ≤ 2 * (1 / 10 ^ 36) := hp
      _ = _ := by ring

/-- TOTAL ERROR of `LogBase2`: at most `89·10^-36` from the true binary logarithm. -/
theorem logBase2_real_error {x r : Int} (h : logBase2 x = some r) :
    |(r : ℝ) / 10 ^ 36 - Real.logb 2 ((x : ℝ) / 10 ^ 36)| ≤ 89 / 10 ^ 36 := by
  obtain ⟨hx, x2, y2, hn, hit⟩ := logBase2_unfold h
  have hn' := normSpec_real hx hn
  obtain ⟨h1, h2, _⟩ := hn
  have e0 : oneHalf36 = P36 / 2 ^ (0 + 1) := oneHalf36_val
  rw [e0] at hit
  have B := log2Iter_real 300 0 x2 y2 r h1 h2 hit
  have p0 : bPot 0 = 84 / 10 ^ 36 + 1 / 2 ^ 120 := by unfold bPot; rw [if_pos (by norm_num)]
  have p300 : bPot (0 + 300) = 1 / 2 ^ 300 := by unfold bPot; rw [if_neg (by norm_num), if_neg (by norm_num)]
  rw [p0, p300] at B
  have tri := abs_sub_le ((r : ℝ) / 10 ^ 36) (logT x2 y2 0) (lg2 x)
  have hnum : (1 : ℝ) / 2 ^ 120 ≤ 3 / 2 / 10 ^ 36 := by norm_num
  have e1 : Real.logb 2 ((x : ℝ) / 10 ^ 36) = lg2 x := rfl
  rw [e1]
  simp only [Nat.zero_add, pow_zero, div_one] at B
  generalize (1 : ℝ) / 2 ^ 300 = t at B
  linarith

end OsmoVerif.MathM
