/-
C01 helpers, part 2: the token amounts of `Pool.CalcActualAmounts` / `UpdatePosition` against the exact curve.
* the code's three cases (current tick inside / below / above the range) as `rawAmounts`;
* a negative liquidity delta (withdrawal) yields exactly the negated round-down amounts of the positive delta
  (every operator on that path truncates toward zero, and overflow checks are symmetric);
* deposits: `DecRoundUp` + `TruncateInt` of the round-up deltas are whole tokens `≥` exact (`CL.Ge0/Ge1` with the
  amount `x·10^18`); withdrawals: `Dec` + `TruncateInt` of the round-down deltas are `≤` exact (`CL.Le0/Le1`).
-/
import OsmoVerif.Proofs.CLSolvOps
import OsmoVerif.Proofs.CLRound5

namespace OsmoVerif.CLSolv
open OsmoVerif.CLPool OsmoVerif.CLBook OsmoVerif.CL OsmoVerif.Num OsmoVerif.Tick OsmoVerif.Gen OsmoVerif.Spec
open OsmoVerif.Props

/-! ## the case split of `CalcActualAmounts` -/

/-- the 36-decimal amount deltas `CalcActualAmounts` computes before the final `DecRoundUp` / `Dec`. -/
def rawAmounts (p : Pool) (l u L : Int) (ru : Bool) (spL spU : Int) : Option (Int × Int) :=
  if inRange p l u then
    (calcAmount0Delta L p.sqrtPrice spU ru).bind fun x => (calcAmount1Delta L p.sqrtPrice spL ru).bind fun y => some (x, y)
  else if p.tick < l then (calcAmount0Delta L spL spU ru).bind fun x => some (x, 0)
  else (calcAmount1Delta L spL spU ru).bind fun y => some (0, y)

theorem calcActualAmounts_decomp {p : Pool} {l u d A0 A1 : Int}
    (h : calcActualAmounts p l u d = some (A0, A1)) :
    d ≠ 0 ∧ l < u ∧ ∃ spL spU r0 r1, tickToSqrtPrice l = some spL ∧ tickToSqrtPrice u = some spU ∧
      rawAmounts p l u d (decide (d > 0)) spL spU = some (r0, r1) ∧
      (if d > 0 then BigDec.decRoundUp r0 = some A0 ∧ BigDec.decRoundUp r1 = some A1
        else BigDec.dec r0 = some A0 ∧ BigDec.dec r1 = some A1) := by
  unfold calcActualAmounts at h
  by_cases hd : d = 0
  · rw [if_pos hd] at h; cases h
  rw [if_neg hd] at h
  simp only [Option.bind_eq_bind, ite_none_bind, Option.bind_eq_some_iff, Option.pure_def, Option.bind_some] at h
  obtain ⟨hlu, spU, hU, spL, hL, h⟩ := h
  refine ⟨hd, by omega, spL, spU, ?_⟩
  unfold rawAmounts
  by_cases hpos : d > 0
  · simp only [hpos, decide_true, ↓reduceIte] at h ⊢
    by_cases hin : inRange p l u = true
    · rw [if_pos hin] at h ⊢
      simp only [Option.bind_eq_some_iff, Option.some.injEq, Prod.mk.injEq] at h
      obtain ⟨x, hx, y, hy, a, ha, b, hb, e1, e2⟩ := h
      subst e1; subst e2
      exact ⟨x, y, hL, hU, by rw [hx, hy]; rfl, ha, hb⟩
    · rw [if_neg hin] at h ⊢
      by_cases hlt : p.tick < l
      · rw [if_pos hlt] at h ⊢
        simp only [Option.bind_eq_some_iff, Option.some.injEq, Prod.mk.injEq] at h
        obtain ⟨x, hx, a, ha, b, hb, e1, e2⟩ := h
        subst e1; subst e2
        exact ⟨x, 0, hL, hU, by rw [hx]; rfl, ha, hb⟩
      · rw [if_neg hlt] at h ⊢
        simp only [Option.bind_eq_some_iff, Option.some.injEq, Prod.mk.injEq] at h
        obtain ⟨y, hy, a, ha, b, hb, e1, e2⟩ := h
        subst e1; subst e2
        exact ⟨0, y, hL, hU, by rw [hy]; rfl, ha, hb⟩
  · simp only [hpos, decide_false, Bool.false_eq_true, ↓reduceIte] at h ⊢
    by_cases hin : inRange p l u = true
    · rw [if_pos hin] at h ⊢
      simp only [Option.bind_eq_some_iff, Option.some.injEq, Prod.mk.injEq] at h
      obtain ⟨x, hx, y, hy, a, ha, b, hb, e1, e2⟩ := h
      subst e1; subst e2
      exact ⟨x, y, hL, hU, by rw [hx, hy]; rfl, ha, hb⟩
    · rw [if_neg hin] at h ⊢
      by_cases hlt : p.tick < l
      · rw [if_pos hlt] at h ⊢
        simp only [Option.bind_eq_some_iff, Option.some.injEq, Prod.mk.injEq] at h
        obtain ⟨x, hx, a, ha, b, hb, e1, e2⟩ := h
        subst e1; subst e2
        exact ⟨x, 0, hL, hU, by rw [hx]; rfl, ha, hb⟩
      · rw [if_neg hlt] at h ⊢
        simp only [Option.bind_eq_some_iff, Option.some.injEq, Prod.mk.injEq] at h
        obtain ⟨y, hy, a, ha, b, hb, e1, e2⟩ := h
        subst e1; subst e2
        exact ⟨0, y, hL, hU, by rw [hy]; rfl, ha, hb⟩

/-! ## negative liquidity: the round-down path is odd -/

theorem chk_neg (x : Int) : chk (-x) = (chk x).map (fun z => -z) := by
  unfold chk; rw [fitsBits_neg]; split <;> rfl

theorem mulTruncateDec_neg (a b : Int) :
    BigDec.mulTruncateDec a (-b) = (BigDec.mulTruncateDec a b).map (fun z => -z) := by
  unfold BigDec.mulTruncateDec chopTrunc
  rw [Int.mul_neg, Int.neg_tdiv, chk_neg]

theorem quoTruncate_neg (a b : Int) :
    BigDec.quoTruncate (-a) b = (BigDec.quoTruncate a b).map (fun z => -z) := by
  unfold BigDec.quoTruncate
  split
  · rfl
  · rw [Int.neg_mul, Int.neg_tdiv, chk_neg]

theorem calcAmount0Delta_neg (L a b : Int) :
    calcAmount0Delta (-L) a b false = (calcAmount0Delta L a b false).map (fun z => -z) := by
  have key : ∀ {a b : Int}, a ≤ b →
      calcAmount0Delta (-L) a b false = (calcAmount0Delta L a b false).map (fun z => -z) := by
    intro a b hab
    rw [calcAmount0Delta_roundDown_eq hab, calcAmount0Delta_roundDown_eq hab]
    cases BigDec.sub b a with
    | none => rfl
    | some d =>
      simp only [Option.bind_some]
      rw [mulTruncateDec_neg]
      cases BigDec.mulTruncateDec d L with
      | none => rfl
      | some x =>
        simp only [Option.map_some, Option.bind_some]
        rw [quoTruncate_neg]
        cases BigDec.quoTruncate x b with
        | none => rfl
        | some y =>
          simp only [Option.map_some, Option.bind_some]
          exact quoTruncate_neg y a
  rcases Int.le_total a b with hab | hab
  · exact key hab
  · rw [calcAmount0Delta_comm, calcAmount0Delta_comm L]; exact key hab

theorem calcAmount1Delta_neg (L a b : Int) :
    calcAmount1Delta (-L) a b false = (calcAmount1Delta L a b false).map (fun z => -z) := by
  rw [calcAmount1Delta_roundDown_eq, calcAmount1Delta_roundDown_eq]
  cases BigDec.sub b a with
  | none => rfl
  | some d =>
    simp only [Option.bind_some]
    exact mulTruncateDec_neg _ _

theorem rawAmounts_neg (p : Pool) (l u L spL spU : Int) :
    rawAmounts p l u (-L) false spL spU = (rawAmounts p l u L false spL spU).map (fun z => (-z.1, -z.2)) := by
  unfold rawAmounts
  split
  · rw [calcAmount0Delta_neg, calcAmount1Delta_neg]
    cases calcAmount0Delta L p.sqrtPrice spU false with
    | none => rfl
    | some x =>
      cases calcAmount1Delta L p.sqrtPrice spL false with
      | none => rfl
      | some y => rfl
  · split
    · rw [calcAmount0Delta_neg]
      cases calcAmount0Delta L spL spU false with
      | none => rfl
      | some x => rfl
    · rw [calcAmount1Delta_neg]
      cases calcAmount1Delta L spL spU false with
      | none => rfl
      | some y => rfl

/-! ## whole-token amounts against the curve -/

theorem truncateInt_eq {a x : Int} (h : Dec.truncateInt a = some x) : x = a.tdiv P18 := chkInt_some h

theorem tdiv_nonneg_le {n d : Int} (hn : 0 ≤ n) (hd : 0 < d) : 0 ≤ n.tdiv d ∧ n.tdiv d * d ≤ n :=
  trunc_nonneg_le hd hn (tdiv_isTrunc n d hd)

/-- deposit side, token0: `DecRoundUp` then `TruncateInt` of the round-up delta. -/
theorem up0_tokens {L a b r A x : Int} (ha : 0 < a) (hb : 0 < b) (hl : 0 ≤ L)
    (hr : calcAmount0Delta L a b true = some r) (hA : BigDec.decRoundUp r = some A)
    (hx : Dec.truncateInt A = some x) : 0 ≤ x ∧ A = x * P18 ∧ Ge0 L a b (x * P18) := by
  obtain ⟨g, k, k0, ek⟩ := ge0_of_roundUp ha hb hl hr (C12.decRoundUp_ceil hA)
  have : x = k := by rw [truncateInt_eq hx, ek, Int.mul_tdiv_cancel _ (Int.ne_of_gt P18_pos)]
  subst this
  exact ⟨k0, ek, by rw [← ek]; exact g⟩

theorem up1_tokens {L a b r A x : Int} (hl : 0 ≤ L)
    (hr : calcAmount1Delta L a b true = some r) (hA : BigDec.decRoundUp r = some A)
    (hx : Dec.truncateInt A = some x) : 0 ≤ x ∧ A = x * P18 ∧ Ge1 L a b (x * P18) := by
  obtain ⟨g, k, k0, ek⟩ := ge1_of_roundUp hl hr (C12.decRoundUp_ceil hA)
  have : x = k := by rw [truncateInt_eq hx, ek, Int.mul_tdiv_cancel _ (Int.ne_of_gt P18_pos)]
  subst this
  exact ⟨k0, ek, by rw [← ek]; exact g⟩

theorem up_zero {A x : Int} (hA : BigDec.decRoundUp 0 = some A) (hx : Dec.truncateInt A = some x) : x = 0 := by
  have : A = 0 := by cases hA; decide
  subst this
  rw [truncateInt_eq hx]; decide

/-- withdrawal side, token0: `Dec` then `TruncateInt` of the round-down delta. -/
theorem down0_tokens {L a b r : Int} (ha : 0 < a) (hb : 0 < b) (hl : 0 ≤ L)
    (hr : calcAmount0Delta L a b false = some r) :
    0 ≤ (r.tdiv Pdiff).tdiv P18 ∧ 0 ≤ r.tdiv Pdiff ∧ Le0 L a b ((r.tdiv Pdiff).tdiv P18 * P18) := by
  have r0 := (amount0_roundDown_any ha hb hl hr).2
  obtain ⟨l0, A0⟩ := le0_of_roundDown ha hb hl hr r0 (Int.le_refl _) (tdiv_isTrunc r Pdiff Pdiff_pos)
  obtain ⟨x0, hx⟩ := tdiv_nonneg_le A0 P18_pos
  refine ⟨x0, A0, ?_⟩
  unfold Le0 at l0 ⊢
  have hab : 0 ≤ a * b := Int.mul_nonneg (by omega) (by omega)
  exact Int.le_trans (Int.mul_le_mul_of_nonneg_right hx hab) l0

theorem down1_tokens {L a b r : Int} (hl : 0 ≤ L)
    (hr : calcAmount1Delta L a b false = some r) :
    0 ≤ (r.tdiv Pdiff).tdiv P18 ∧ 0 ≤ r.tdiv Pdiff ∧ Le1 L a b ((r.tdiv Pdiff).tdiv P18 * P18) := by
  have r0 := (amount1_roundDown_any hl hr).2
  obtain ⟨l0, A0⟩ := le1_of_roundDown hl hr r0 (Int.le_refl _) (tdiv_isTrunc r Pdiff Pdiff_pos)
  obtain ⟨x0, hx⟩ := tdiv_nonneg_le A0 P18_pos
  refine ⟨x0, A0, ?_⟩
  unfold Le1 at l0 ⊢
  exact Int.le_trans (Int.mul_le_mul_of_nonneg_right hx (by decide)) l0

/-! ## the three cases, as one predicate -/

/-- `x0, x1` whole tokens compared (`ge = true`: at least, `ge = false`: at most) with the exact amounts of
liquidity `L` for a range with boundary sqrt prices `spL, spU`, in the case the code selects from the pool's
current tick: inside → between the current sqrt price and the boundaries; below → all token0; above → all token1. -/
def VsExact (ge : Bool) (p : Pool) (l u L spL spU x0 x1 : Int) : Prop :=
  if inRange p l u then
    (if ge then Ge0 L p.sqrtPrice spU (x0 * P18) ∧ Ge1 L p.sqrtPrice spL (x1 * P18)
      else Le0 L p.sqrtPrice spU (x0 * P18) ∧ Le1 L p.sqrtPrice spL (x1 * P18))
  else if p.tick < l then
    (if ge then Ge0 L spL spU (x0 * P18) else Le0 L spL spU (x0 * P18)) ∧ x1 = 0
  else
    x0 = 0 ∧ (if ge then Ge1 L spL spU (x1 * P18) else Le1 L spL spU (x1 * P18))

theorem inRange_iff' (p : Pool) (l u : Int) : inRange p l u = true ↔ l ≤ p.tick ∧ p.tick < u := by
  unfold inRange; simp [decide_eq_true_eq]

/-- `VsExact` spelled out, deposits. -/
theorem vsExact_ge_cases {p : Pool} {l u L spL spU y0 y1 : Int} (hlu : l < u) (h : VsExact true p l u L spL spU y0 y1) :
    (l ≤ p.tick ∧ p.tick < u → Ge0 L p.sqrtPrice spU (y0 * P18) ∧ Ge1 L p.sqrtPrice spL (y1 * P18)) ∧
    (p.tick < l → Ge0 L spL spU (y0 * P18) ∧ y1 = 0) ∧
    (u ≤ p.tick → y0 = 0 ∧ Ge1 L spL spU (y1 * P18)) := by
  unfold VsExact at h
  by_cases hin : inRange p l u = true
  · rw [if_pos hin] at h
    simp only [↓reduceIte] at h
    have := (inRange_iff' p l u).mp hin
    exact ⟨fun _ => h, fun c => by omega, fun c => by omega⟩
  · rw [if_neg hin] at h
    have hn : ¬ (l ≤ p.tick ∧ p.tick < u) := fun c => hin ((inRange_iff' p l u).mpr c)
    by_cases hlt : p.tick < l
    · rw [if_pos hlt] at h
      simp only [↓reduceIte] at h
      exact ⟨fun c => absurd c hn, fun _ => h, fun c => by omega⟩
    · rw [if_neg hlt] at h
      simp only [↓reduceIte] at h
      exact ⟨fun c => absurd c hn, fun c => absurd c hlt, fun _ => h⟩

/-- `VsExact` spelled out, withdrawals. -/
theorem vsExact_le_cases {p : Pool} {l u L spL spU y0 y1 : Int} (hlu : l < u) (h : VsExact false p l u L spL spU y0 y1) :
    (l ≤ p.tick ∧ p.tick < u → Le0 L p.sqrtPrice spU (y0 * P18) ∧ Le1 L p.sqrtPrice spL (y1 * P18)) ∧
    (p.tick < l → Le0 L spL spU (y0 * P18) ∧ y1 = 0) ∧
    (u ≤ p.tick → y0 = 0 ∧ Le1 L spL spU (y1 * P18)) := by
  unfold VsExact at h
  by_cases hin : inRange p l u = true
  · rw [if_pos hin] at h
    simp only [Bool.false_eq_true, ↓reduceIte] at h
    have := (inRange_iff' p l u).mp hin
    exact ⟨fun _ => h, fun c => by omega, fun c => by omega⟩
  · rw [if_neg hin] at h
    have hn : ¬ (l ≤ p.tick ∧ p.tick < u) := fun c => hin ((inRange_iff' p l u).mpr c)
    by_cases hlt : p.tick < l
    · rw [if_pos hlt] at h
      simp only [Bool.false_eq_true, ↓reduceIte] at h
      exact ⟨fun c => absurd c hn, fun _ => h, fun c => by omega⟩
    · rw [if_neg hlt] at h
      simp only [Bool.false_eq_true, ↓reduceIte] at h
      exact ⟨fun c => absurd c hn, fun c => absurd c hlt, fun _ => h⟩

/-- amounts of a liquidity increase (`UpdatePosition` with `delta > 0`): non-negative whole tokens, each at least
the exact amount. `hsp`: the pool's sqrt price is positive when the current tick is inside the range. -/
theorem increase_ge_exact {p : Pool} {l u d A0 A1 x0 x1 : Int} (hd : 0 < d)
    (hsp : inRange p l u = true → 0 < p.sqrtPrice)
    (h : calcActualAmounts p l u d = some (A0, A1))
    (h0 : Dec.truncateInt A0 = some x0) (h1 : Dec.truncateInt A1 = some x1) :
    ∃ spL spU, tickToSqrtPrice l = some spL ∧ tickToSqrtPrice u = some spU ∧ l < u ∧
      0 ≤ x0 ∧ 0 ≤ x1 ∧ VsExact true p l u d spL spU x0 x1 := by
  obtain ⟨_, hlu, spL, spU, r0, r1, hL, hU, hraw, hfin⟩ := calcActualAmounts_decomp h
  rw [if_pos hd] at hfin
  obtain ⟨f0, f1⟩ := hfin
  have pL := tts_pos hL
  have pU := tts_pos hU
  have hl : 0 ≤ d := by omega
  refine ⟨spL, spU, hL, hU, hlu, ?_⟩
  unfold rawAmounts at hraw
  unfold VsExact
  simp only [hd, decide_true] at hraw
  split at hraw
  · rename_i hin
    rw [if_pos hin]
    simp only [Option.bind_eq_some_iff, Option.some.injEq, Prod.mk.injEq] at hraw
    obtain ⟨x, hx, y, hy, e1, e2⟩ := hraw
    subst e1; subst e2
    obtain ⟨a1, _, a3⟩ := up0_tokens (hsp hin) pU hl hx f0 h0
    obtain ⟨b1, _, b3⟩ := up1_tokens hl hy f1 h1
    exact ⟨a1, b1, a3, b3⟩
  · rename_i hin
    rw [if_neg hin]
    split at hraw
    · rename_i hlt
      rw [if_pos hlt]
      simp only [Option.bind_eq_some_iff, Option.some.injEq, Prod.mk.injEq] at hraw
      obtain ⟨x, hx, e1, e2⟩ := hraw
      subst e1; subst e2
      obtain ⟨a1, _, a3⟩ := up0_tokens pL pU hl hx f0 h0
      have := up_zero f1 h1
      exact ⟨a1, by omega, a3, this⟩
    · rename_i hlt
      rw [if_neg hlt]
      simp only [Option.bind_eq_some_iff, Option.some.injEq, Prod.mk.injEq] at hraw
      obtain ⟨y, hy, e1, e2⟩ := hraw
      subst e1; subst e2
      obtain ⟨b1, _, b3⟩ := up1_tokens hl hy f1 h1
      have := up_zero f0 h0
      exact ⟨by omega, b1, this, b3⟩

/-- amounts of a liquidity decrease (`UpdatePosition` with `delta = −req < 0`): non-positive whole tokens whose
absolute values are at most the exact amounts of `req`. -/
theorem decrease_le_exact {p : Pool} {l u req A0 A1 x0 x1 : Int} (hd : 0 < req)
    (hsp : inRange p l u = true → 0 < p.sqrtPrice)
    (h : calcActualAmounts p l u (-req) = some (A0, A1))
    (h0 : Dec.truncateInt A0 = some x0) (h1 : Dec.truncateInt A1 = some x1) :
    ∃ spL spU, tickToSqrtPrice l = some spL ∧ tickToSqrtPrice u = some spU ∧ l < u ∧
      x0 ≤ 0 ∧ x1 ≤ 0 ∧ VsExact false p l u req spL spU (x0.natAbs : Int) (x1.natAbs : Int) := by
  obtain ⟨_, hlu, spL, spU, r0, r1, hL, hU, hraw, hfin⟩ := calcActualAmounts_decomp h
  rw [if_neg (by omega)] at hfin
  obtain ⟨f0, f1⟩ := hfin
  have pL := tts_pos hL
  have pU := tts_pos hU
  have hl : 0 ≤ req := by omega
  have hdec : decide (-req > 0) = false := by simp; omega
  rw [hdec, rawAmounts_neg] at hraw
  obtain ⟨⟨s0, s1⟩, hs, e⟩ := Option.map_eq_some_iff.mp hraw
  simp only [Prod.mk.injEq] at e
  obtain ⟨e0, e1⟩ := e
  subst e0; subst e1
  have eA0 : A0 = -(s0.tdiv Pdiff) := by cases f0; exact Int.neg_tdiv _ _
  have eA1 : A1 = -(s1.tdiv Pdiff) := by cases f1; exact Int.neg_tdiv _ _
  have ex0 : x0 = -((s0.tdiv Pdiff).tdiv P18) := by rw [truncateInt_eq h0, eA0, Int.neg_tdiv]
  have ex1 : x1 = -((s1.tdiv Pdiff).tdiv P18) := by rw [truncateInt_eq h1, eA1, Int.neg_tdiv]
  refine ⟨spL, spU, hL, hU, hlu, ?_⟩
  unfold rawAmounts at hs
  unfold VsExact
  split at hs
  · rename_i hin
    rw [if_pos hin]
    simp only [Option.bind_eq_some_iff, Option.some.injEq, Prod.mk.injEq] at hs
    obtain ⟨x, hx, y, hy, e1, e2⟩ := hs
    subst e1; subst e2
    obtain ⟨a1, _, a3⟩ := down0_tokens (hsp hin) pU hl hx
    obtain ⟨b1, _, b3⟩ := down1_tokens hl hy
    have n0 : (x0.natAbs : Int) = (x.tdiv Pdiff).tdiv P18 := by omega
    have n1 : (x1.natAbs : Int) = (y.tdiv Pdiff).tdiv P18 := by omega
    rw [n0, n1]
    exact ⟨by omega, by omega, a3, b3⟩
  · rename_i hin
    rw [if_neg hin]
    split at hs
    · rename_i hlt
      rw [if_pos hlt]
      simp only [Option.bind_eq_some_iff, Option.some.injEq, Prod.mk.injEq] at hs
      obtain ⟨x, hx, e1, e2⟩ := hs
      subst e1; subst e2
      obtain ⟨a1, _, a3⟩ := down0_tokens pL pU hl hx
      have n0 : (x0.natAbs : Int) = (x.tdiv Pdiff).tdiv P18 := by omega
      have z1 : x1 = 0 := by rw [ex1]; decide
      rw [n0]
      exact ⟨by omega, by omega, a3, by omega⟩
    · rename_i hlt
      rw [if_neg hlt]
      simp only [Option.bind_eq_some_iff, Option.some.injEq, Prod.mk.injEq] at hs
      obtain ⟨y, hy, e1, e2⟩ := hs
      subst e1; subst e2
      obtain ⟨b1, _, b3⟩ := down1_tokens hl hy
      have n1 : (x1.natAbs : Int) = (y.tdiv Pdiff).tdiv P18 := by omega
      have z0 : x0 = 0 := by rw [ex0]; decide
      rw [n1]
      exact ⟨by omega, by omega, by omega, b3⟩

/-- round-down never exceeds round-up: for the same liquidity, price, tick and range, what a decrease pays out is
at most what the increase took in, per token. -/
theorem le_of_vsExact {p : Pool} {l u L spL spU w0 w1 d0 d1 : Int} (hL : 0 < spL) (hU : 0 < spU)
    (hsp : inRange p l u = true → 0 < p.sqrtPrice)
    (hw : VsExact false p l u L spL spU w0 w1) (hd : VsExact true p l u L spL spU d0 d1) :
    w0 ≤ d0 ∧ w1 ≤ d1 := by
  have cancel0 : ∀ {a b : Int}, 0 < a → 0 < b → Le0 L a b (w0 * P18) → Ge0 L a b (d0 * P18) → w0 ≤ d0 := by
    intro a b ha hb h1 h2
    unfold Le0 at h1; unfold Ge0 at h2
    have hab : 0 < a * b := Int.mul_pos ha hb
    have h3 : w0 * P18 * (a * b) ≤ d0 * P18 * (a * b) := Int.le_trans h1 h2
    have h4 : w0 * P18 ≤ d0 * P18 := Int.le_of_mul_le_mul_right h3 hab
    exact Int.le_of_mul_le_mul_right h4 P18_pos
  have cancel1 : ∀ {a b : Int}, Le1 L a b (w1 * P18) → Ge1 L a b (d1 * P18) → w1 ≤ d1 := by
    intro a b h1 h2
    unfold Le1 at h1; unfold Ge1 at h2
    have h3 : w1 * P18 * 10 ^ 36 ≤ d1 * P18 * 10 ^ 36 := Int.le_trans h1 h2
    have h4 : w1 * P18 ≤ d1 * P18 := Int.le_of_mul_le_mul_right h3 (by decide)
    exact Int.le_of_mul_le_mul_right h4 P18_pos
  unfold VsExact at hw hd
  by_cases hin : inRange p l u = true
  · rw [if_pos hin] at hw hd
    simp only [Bool.false_eq_true, ↓reduceIte] at hw hd
    exact ⟨cancel0 (hsp hin) hU hw.1 hd.1, cancel1 hw.2 hd.2⟩
  · rw [if_neg hin] at hw hd
    by_cases hlt : p.tick < l
    · rw [if_pos hlt] at hw hd
      simp only [Bool.false_eq_true, ↓reduceIte] at hw hd
      exact ⟨cancel0 hL hU hw.1 hd.1, by omega⟩
    · rw [if_neg hlt] at hw hd
      simp only [Bool.false_eq_true, ↓reduceIte] at hw hd
      exact ⟨by omega, cancel1 hw.2 hd.2⟩

end OsmoVerif.CLSolv
