/- C11: two frame properties of every call — the reported supply (bank supply + offset) is untouched, and an
unstaking marker that has not matured is not removed. Core only. -/
import OsmoVerif.Proofs.SuperfluidArith

namespace OsmoVerif.Superfluid
open OsmoVerif.Num

/-! ## supply + offset -/

theorem tot_mint {s s' : State} {a : Int} {k : AccKey} (hc : mintAndDelegate s a k = .ok s') : tot s' = tot s := by
  obtain ⟨_, _, hs'⟩ := mintAndDelegate_ok hc
  subst hs'; unfold tot; dsimp only; omega

theorem tot_burn {s s' : State} {a : Int} {k : AccKey} (hc : forceUndelegateAndBurn s a k = .ok s') : tot s' = tot s := by
  rcases forceUndelegateAndBurn_ok hc with ⟨_, hs'⟩ | ⟨sh, _, _, _, hs'⟩
  · subst hs'; rfl
  · subst hs'; unfold tot; dsimp only; omega

theorem tot_createSynth {s s' : State} {id : Nat} {kind : SKind} {key : AccKey} (hc : createSynth s id kind key = .ok s') :
    tot s' = tot s := by
  obtain ⟨_, l, _, _, _, hs'⟩ := createSynth_ok hc
  subst hs'; rfl

theorem tot_deleteSynth {s s' : State} {id : Nat} {kind : SKind} {key : AccKey} (hc : deleteSynth s id kind key = .ok s') :
    tot s' = tot s := by
  obtain ⟨_, l, _, _, hs'⟩ := deleteSynth_ok hc
  subst hs'; rfl

theorem tot_getOrCreateAcc (s : State) (key : AccKey) : tot (getOrCreateAcc s key) = tot s := by
  unfold getOrCreateAcc; split <;> rfl

theorem tot_beginUnlock {s s' : State} {id nid : Nat} {c : Option Int} (hc : beginUnlock s id c = .ok (s', nid)) :
    tot s' = tot s := by
  obtain ⟨l, _, _, hcase⟩ := beginUnlock_ok hc
  rcases hcase with ⟨_, _, hs'⟩ | ⟨a, _, _, _, _, _, hs'⟩ <;> (subst hs'; rfl)

theorem tot_unlockMatured {s s' : State} {id : Nat} (hc : unlockMatured s id = .ok s') : tot s' = tot s := by
  obtain ⟨_, _, _, _, _, hs'⟩ := unlockMatured_ok hc
  subst hs'; rfl

theorem tot_superfluidDelegate {s s' : State} {sender id val : Nat} (hc : superfluidDelegate s sender id val = .ok s') :
    tot s' = tot s := by
  obtain ⟨l, s3, amt, _, _, _, _, _, _, _, h7, _, _, h10⟩ := superfluidDelegate_ok hc
  rw [tot_mint h10, tot_createSynth h7]
  exact tot_getOrCreateAcc s _

theorem tot_undelegateCommon {s s' : State} {sender id : Nat} {key : AccKey} (hc : undelegateCommon s sender id = .ok (s', key)) :
    tot s' = tot s := by
  obtain ⟨l, s2, amt, _, _, _, _, h3, _, h5⟩ := undelegateCommon_ok hc
  rw [tot_burn h5, tot_deleteSynth h3]; rfl

theorem tot_superfluidUndelegate {s s' : State} {sender id : Nat} (hc : superfluidUndelegate s sender id = .ok s') :
    tot s' = tot s := by
  unfold superfluidUndelegate at hc
  split at hc
  · cases hc
  · rename_i s1 key h1
    rw [tot_createSynth hc, tot_undelegateCommon h1]

theorem tot_unbondLock {s s' : State} {id sender nid : Nat} {c : Option Int} (hc : unbondLock s id sender c = .ok (s', nid)) :
    tot s' = tot s := by
  obtain ⟨_, _, _, _, _, _, hb⟩ := unbondLock_ok hc
  exact tot_beginUnlock hb

theorem tot_increaseHook {s s' : State} {id denom : Nat} {a : Int} (hc : increaseHook s id denom a = .ok s') :
    tot s' = tot s := by
  unfold increaseHook at hc
  split at hc
  · injection hc with hc; subst hc; rfl
  · split at hc
    · injection hc with hc; subst hc; rfl
    · split at hc
      · cases hc
      · injection hc with hc; subst hc; rfl
      · split at hc
        · injection hc with hc; subst hc; rfl
        · split at hc
          · cases hc
          · injection hc with hc; subst hc; rfl
          · rename_i s2 hm
            injection hc with hc; subst hc
            exact tot_mint hm

theorem tot_addTokensToLock {s s' : State} {sender id : Nat} {a : Int} (hc : addTokensToLock s sender id a = .ok s') :
    tot s' = tot s := by
  unfold addTokensToLock at hc
  split at hc
  · cases hc
  · split at hc
    · cases hc
    · split at hc
      · cases hc
      · split at hc
        · cases hc
        · dsimp only at hc
          split at hc
          · cases hc
          · rw [tot_increaseHook hc]; rfl
          · rw [tot_increaseHook hc]; rfl

theorem tot_deleteSynths : ∀ (xs : List Synth) (s s' : State) (id : Nat), deleteSynths s id xs = .ok s' → tot s' = tot s
  | [], s, s', id, hc => by unfold deleteSynths at hc; injection hc with hc; subst hc; rfl
  | x :: r, s, s', id, hc => by
    unfold deleteSynths at hc
    split at hc
    · cases hc
    · rename_i s1 h1
      rw [tot_deleteSynths r s1 s' id hc, tot_deleteSynth h1]

theorem tot_sweepSynths : ∀ (n : Nat) (s s' : State), sweepSynths s n = .ok s' → tot s' = tot s
  | 0, s, s', hc => by unfold sweepSynths at hc; injection hc with hc; subst hc; rfl
  | n + 1, s, s', hc => by
    unfold sweepSynths at hc
    split at hc
    · cases hc
    · rename_i s1 h1
      rw [tot_deleteSynths _ s1 s' _ hc, tot_sweepSynths n s s1 h1]

theorem tot_sweepLocks : ∀ (n : Nat) (s s' : State), sweepLocks s n = .ok s' → tot s' = tot s
  | 0, s, s', hc => by unfold sweepLocks at hc; injection hc with hc; subst hc; rfl
  | n + 1, s, s', hc => by
    unfold sweepLocks at hc
    split at hc
    · cases hc
    · rename_i s1 h1
      have ih := tot_sweepLocks n s s1 h1
      split at hc
      · injection hc with hc; subst hc; exact ih
      · split at hc
        · injection hc with hc; subst hc; exact ih
        · split at hc
          · split at hc
            · cases hc
            · rename_i s2 hu
              injection hc with hc; subst hc
              rw [tot_unlockMatured hu, ih]
          · injection hc with hc; subst hc; exact ih

theorem tot_refreshOne {s s' : State} {k : AccKey} (hc : refreshOne s k = .ok s') : tot s' = tot s := by
  unfold refreshOne at hc
  split at hc
  · injection hc with hc; subst hc; rfl
  · split at hc
    · cases hc
    · split at hc
      · split at hc
        · cases hc
        · injection hc with hc; subst hc; rfl
        · rename_i s2 hm; injection hc with hc; subst hc; exact tot_mint hm
      · split at hc
        · split at hc
          · cases hc
          · injection hc with hc; subst hc; rfl
          · rename_i s2 hm; injection hc with hc; subst hc; exact tot_burn hm
        · injection hc with hc; subst hc; rfl

theorem tot_refreshAll : ∀ (accs : List (AccKey × Nat)) (s s' : State), refreshAll s accs = .ok s' → tot s' = tot s
  | [], s, s', hc => by unfold refreshAll at hc; injection hc with hc; subst hc; rfl
  | (k, g) :: r, s, s', hc => by
    unfold refreshAll at hc
    split at hc
    · cases hc
    · rename_i s1 h1
      rw [tot_refreshAll r s1 s' hc, tot_refreshOne h1]

theorem tot_updateMults {s s' : State} {ups : List (Nat × Int × Int × Bool)} {b : Bool} (h : ∀ d, 0 ≤ s.mult d)
    (hc : updateMults s ups = .ok (s', b)) : tot s' = tot s := by
  obtain ⟨f, _⟩ := updateMults_spec ups s s' b h hc
  unfold tot; rw [f.ledger.2.1, f.ledger.2.2]

theorem tot_undelegateAndUnbond {s s' : State} {id sender nid : Nat} {amount : Int}
    (hc : superfluidUndelegateAndUnbondLock s id sender amount = .ok (s', nid)) : tot s' = tot s := by
  unfold superfluidUndelegateAndUnbondLock at hc
  split at hc
  · cases hc
  · split at hc
    · cases hc
    · split at hc
      · cases hc
      · split at hc
        · cases hc
        · split at hc
          · cases hc
          · split at hc
            · cases hc
            · rename_i s1 hu
              split at hc
              · cases hc
              · rename_i s2 nid' hb
                have t2 : tot s2 = tot s := by rw [tot_unbondLock hb, tot_superfluidUndelegate hu]
                split at hc
                · split at hc
                  · cases hc
                  · injection hc with hc
                    injection hc with hc _
                    subst hc; exact t2
                · split at hc
                  · cases hc
                  · split at hc
                    · cases hc
                    · rename_i s3 hd
                      split at hc
                      · cases hc
                      · rename_i s4 hdel
                        split at hc
                        · cases hc
                        · rename_i s5 hcs
                          injection hc with hc
                          injection hc with hc _
                          subst hc
                          rw [tot_createSynth hcs, tot_superfluidDelegate hdel, tot_deleteSynth hd, t2]

/-- **every successful call leaves bank supply + offset unchanged.** -/
theorem tot_applyOp {s s' : State} {op : Op} (h : Inv s) (hc : applyOp s op = .ok s') : tot s' = tot s := by
  unfold applyOp at hc
  obtain ⟨p, hp, hps⟩ := map_ok hc
  subst hps
  cases op with
  | lock o d a du sg =>
    obtain ⟨r, hr, hpr⟩ := map_ok (show (createLock s o d a du sg).map _ = .ok p from hp)
    subst hpr
    unfold createLock at hr
    split at hr
    · cases hr
    · injection hr with hr; subst hr; rfl
  | addToLock snd id a =>
    obtain ⟨r, hr, hpr⟩ := map_ok (show (addTokensToLock s snd id a).map _ = .ok p from hp)
    subst hpr; exact tot_addTokensToLock hr
  | delegate snd id v =>
    obtain ⟨r, hr, hpr⟩ := map_ok (show (superfluidDelegate s snd id v).map _ = .ok p from hp)
    subst hpr; exact tot_superfluidDelegate hr
  | undelegate snd id =>
    obtain ⟨r, hr, hpr⟩ := map_ok (show (superfluidUndelegate s snd id).map _ = .ok p from hp)
    subst hpr; exact tot_superfluidUndelegate hr
  | unbond snd id =>
    obtain ⟨r, hr, hpr⟩ := map_ok (show (superfluidUnbondLock s id snd).map _ = .ok p from hp)
    subst hpr
    unfold superfluidUnbondLock at hr
    split at hr
    · cases hr
    · rename_i s1 n1 hu
      injection hr with hr; subst hr
      exact tot_unbondLock hu
  | undelegateAndUnbond snd id a =>
    obtain ⟨r, hr, hpr⟩ := map_ok (show (superfluidUndelegateAndUnbondLock s id snd a).map _ = .ok p from hp)
    subst hpr
    exact tot_undelegateAndUnbond (show superfluidUndelegateAndUnbondLock s id snd a = Except.ok (r.1, r.2) from hr)
  | beginUnlock snd id c =>
    obtain ⟨r, hr, hpr⟩ := map_ok (show (msgBeginUnlocking s snd id c).map _ = .ok p from hp)
    subst hpr
    unfold msgBeginUnlocking at hr
    split at hr
    · cases hr
    · split at hr
      · cases hr
      · split at hr
        · cases hr
        · exact tot_beginUnlock (show beginUnlock s id c = Except.ok (r.1, r.2) from hr)
  | withdraw id =>
    obtain ⟨r, hr, hpr⟩ := map_ok (show (withdraw s id).map _ = .ok p from hp)
    subst hpr
    unfold withdraw at hr
    split at hr
    · cases hr
    · rename_i s1 h1
      rw [tot_unlockMatured hr, tot_sweepSynths _ s s1 h1]
  | endBlock =>
    obtain ⟨r, hr, hpr⟩ := map_ok (show (endBlock s).map _ = .ok p from hp)
    subst hpr
    unfold endBlock at hr
    split at hr
    · cases hr
    · rename_i s1 h1
      rw [tot_sweepLocks _ s1 _ hr, tot_sweepSynths _ s s1 h1]
  | advance dt =>
    obtain ⟨r, hr, hpr⟩ := map_ok (show (advance s dt).map _ = .ok p from hp)
    subst hpr
    unfold advance at hr
    split at hr
    · cases hr
    · injection hr with hr; subst hr; rfl
  | epoch ups =>
    obtain ⟨r, hr, hpr⟩ := map_ok (show (epoch s ups).map _ = .ok p from hp)
    subst hpr
    unfold epoch at hr
    split at hr
    · cases hr
    · rename_i s1 h1
      injection hr with hr; subst hr
      exact tot_updateMults h.mult0 h1
    · rename_i s1 h1
      rw [tot_refreshAll _ s1 _ hr, tot_updateMults h.mult0 h1]

/-! ## synthetic locks touched by each call -/

theorem synths_getOrCreateAcc (s : State) (key : AccKey) : (getOrCreateAcc s key).synths = s.synths := by
  unfold getOrCreateAcc; split <;> rfl

theorem synths_createSynth {s s' : State} {id : Nat} {kind : SKind} {key : AccKey} (hc : createSynth s id kind key = .ok s') :
    s.synths id = [] ∧ ∀ j, j ≠ id → s'.synths j = s.synths j := by
  obtain ⟨h0, l, _, _, _, hs'⟩ := createSynth_ok hc
  subst hs'
  refine ⟨h0, fun j hj => ?_⟩
  dsimp only
  simp only [upd, if_neg hj]

theorem synths_beginUnlock {s s' : State} {id nid : Nat} {c : Option Int} (hc : beginUnlock s id c = .ok (s', nid)) :
    s'.synths = s.synths ∧ s'.now = s.now ∧ (nid = id ∨ nid = s.lastLockId + 1) := by
  obtain ⟨l, _, _, hcase⟩ := beginUnlock_ok hc
  rcases hcase with ⟨hn, _, hs'⟩ | ⟨a, _, _, _, _, hn, hs'⟩
  · subst hs'; exact ⟨rfl, rfl, Or.inl hn⟩
  · subst hs'; exact ⟨rfl, rfl, Or.inr hn⟩

theorem synths_superfluidDelegate {s s' : State} {sender id val : Nat} (hc : superfluidDelegate s sender id val = .ok s') :
    s.synths id = [] ∧ ∀ j, j ≠ id → s'.synths j = s.synths j := by
  obtain ⟨l, s3, amt, _, _, _, _, _, _, _, h7, _, _, h10⟩ := superfluidDelegate_ok hc
  obtain ⟨h0, ho⟩ := synths_createSynth h7
  dsimp only at h0 ho
  rw [synths_getOrCreateAcc] at h0 ho
  refine ⟨h0, fun j hj => ?_⟩
  rw [(mint_same h10).synths]
  exact ho j hj

theorem synths_undelegateCommon {s s' : State} {sender id : Nat} {key : AccKey} (hc : undelegateCommon s sender id = .ok (s', key)) :
    s.conns id = some key ∧ ∀ j, j ≠ id → s'.synths j = s.synths j := by
  obtain ⟨l, s2, amt, _, _, _, hk, h3, _, h5⟩ := undelegateCommon_ok hc
  refine ⟨hk, fun j hj => ?_⟩
  rw [(burn_same h5).synths, (deleteSynth_same h3).2 j hj]

theorem synths_superfluidUndelegate {s s' : State} {sender id : Nat} (hc : superfluidUndelegate s sender id = .ok s') :
    (∃ key, s.conns id = some key) ∧ ∀ j, j ≠ id → s'.synths j = s.synths j := by
  unfold superfluidUndelegate at hc
  split at hc
  · cases hc
  · rename_i s1 key h1
    obtain ⟨hk, ho⟩ := synths_undelegateCommon h1
    refine ⟨⟨key, hk⟩, fun j hj => ?_⟩
    rw [(synths_createSynth hc).2 j hj, ho j hj]

theorem synths_increaseHook {s s' : State} {id denom : Nat} {a : Int} (hc : increaseHook s id denom a = .ok s') :
    s'.synths = s.synths := by
  unfold increaseHook at hc
  split at hc
  · injection hc with hc; subst hc; rfl
  · split at hc
    · injection hc with hc; subst hc; rfl
    · split at hc
      · cases hc
      · injection hc with hc; subst hc; rfl
      · split at hc
        · injection hc with hc; subst hc; rfl
        · split at hc
          · cases hc
          · injection hc with hc; subst hc; rfl
          · rename_i s2 hm
            injection hc with hc; subst hc
            exact (mint_same hm).synths

theorem synths_addTokensToLock {s s' : State} {sender id : Nat} {a : Int} (hc : addTokensToLock s sender id a = .ok s') :
    s'.synths = s.synths := by
  unfold addTokensToLock at hc
  split at hc
  · cases hc
  · split at hc
    · cases hc
    · split at hc
      · cases hc
      · split at hc
        · cases hc
        · dsimp only at hc
          split at hc
          · cases hc
          · rw [synths_increaseHook hc]
          · rw [synths_increaseHook hc]

theorem synths_refreshAll {s s' : State} {accs : List (AccKey × Nat)} (h : Inv s) (hc : refreshAll s accs = .ok s') :
    s'.synths = s.synths := (refreshAll_spec accs s s' h hc).1.synths

/-- a lock id that has never been issued carries no synthetic lock. -/
theorem Inv.fresh_nosynth {s : State} (h : Inv s) {id : Nat} (hid : s.lastLockId < id) : s.synths id = [] := by
  have := h.lockOK id
  rw [h.bound id (Or.inr hid)] at this
  simp only [LockOK] at this
  exact this.1

/-- a delegated lock carries no unstaking marker. -/
theorem Inv.conn_no_unbonding {s : State} (h : Inv s) {id : Nat} {key : AccKey} (hk : s.conns id = some key)
    {x : Synth} (hx : x ∈ s.synths id) (hu : x.kind = .unbonding) : False := by
  obtain ⟨_, _, hs, _⟩ := h.conn_lock hk
  rw [hs] at hx
  simp only [List.mem_singleton] at hx
  subst hx
  simp [mkB] at hu

theorem keep_undelegateAndUnbond {s s' : State} {id' sender nid : Nat} {amount : Int} (h : Inv s)
    (hc : superfluidUndelegateAndUnbondLock s id' sender amount = .ok (s', nid))
    {id : Nat} {x : Synth} (hx : x ∈ s.synths id) (hu : x.kind = .unbonding) : x ∈ s'.synths id := by
  unfold superfluidUndelegateAndUnbondLock at hc
  split at hc
  · cases hc
  · split at hc
    · cases hc
    · split at hc
      · cases hc
      · split at hc
        · cases hc
        · split at hc
          · cases hc
          · rename_i key hkey
            have hne : id ≠ id' := by
              intro e; subst e; exact h.conn_no_unbonding hkey hx hu
            split at hc
            · cases hc
            · rename_i s1 hu1
              have c1 := superfluidUndelegate_core h hu1
              have y1 := (synths_superfluidUndelegate hu1).2 id hne
              split at hc
              · cases hc
              · rename_i s2 nid' hb
                obtain ⟨_, _, _, _, _, _, hbu⟩ := unbondLock_ok hb
                obtain ⟨y2, _, hn2⟩ := synths_beginUnlock hbu
                have x2 : x ∈ s2.synths id := by rw [y2, y1]; exact hx
                split at hc
                · split at hc
                  · cases hc
                  · injection hc with hc
                    injection hc with hc _
                    subst hc; exact x2
                · split at hc
                  · cases hc
                  · rename_i hnid
                    split at hc
                    · cases hc
                    · rename_i s3 hd
                      split at hc
                      · cases hc
                      · rename_i s4 hdel
                        split at hc
                        · cases hc
                        · rename_i s5 hcs
                          injection hc with hc
                          injection hc with hc _
                          subst hc
                          have hnew : nid' = s.lastLockId + 1 := by
                            rcases hn2 with e | e
                            · exact absurd e hnid
                            · rw [e, c1.last]
                          have hne2 : id ≠ nid' := by
                            intro e
                            rw [e, hnew] at hx
                            rw [h.fresh_nosynth (by omega)] at hx
                            cases hx
                          rw [(synths_createSynth hcs).2 id hne2, (synths_superfluidDelegate hdel).2 id hne,
                            (deleteSynth_same hd).2 id hne]
                          exact x2

/-- **an unstaking marker that has not matured survives every call.** -/
theorem keep_applyOp {s s' : State} {op : Op} (h : Inv s) (hc : applyOp s op = .ok s')
    {id : Nat} {x : Synth} (hx : x ∈ s.synths id) (hu : x.kind = .unbonding) (hnm : isMatured s.now x = false) :
    x ∈ s'.synths id := by
  unfold applyOp at hc
  obtain ⟨p, hp, hps⟩ := map_ok hc
  subst hps
  cases op with
  | lock o d a du sg =>
    obtain ⟨r, hr, hpr⟩ := map_ok (show (createLock s o d a du sg).map _ = .ok p from hp)
    subst hpr
    unfold createLock at hr
    split at hr
    · cases hr
    · injection hr with hr; subst hr; exact hx
  | addToLock snd id' a =>
    obtain ⟨r, hr, hpr⟩ := map_ok (show (addTokensToLock s snd id' a).map _ = .ok p from hp)
    subst hpr; rw [synths_addTokensToLock hr]; exact hx
  | delegate snd id' v =>
    obtain ⟨r, hr, hpr⟩ := map_ok (show (superfluidDelegate s snd id' v).map _ = .ok p from hp)
    subst hpr
    obtain ⟨h0, ho⟩ := synths_superfluidDelegate hr
    by_cases e : id = id'
    · subst e; rw [h0] at hx; cases hx
    · dsimp only; rw [ho id e]; exact hx
  | undelegate snd id' =>
    obtain ⟨r, hr, hpr⟩ := map_ok (show (superfluidUndelegate s snd id').map _ = .ok p from hp)
    subst hpr
    obtain ⟨⟨key, hk⟩, ho⟩ := synths_superfluidUndelegate hr
    by_cases e : id = id'
    · subst e; exact (h.conn_no_unbonding hk hx hu).elim
    · dsimp only; rw [ho id e]; exact hx
  | unbond snd id' =>
    obtain ⟨r, hr, hpr⟩ := map_ok (show (superfluidUnbondLock s id' snd).map _ = .ok p from hp)
    subst hpr
    unfold superfluidUnbondLock at hr
    split at hr
    · cases hr
    · rename_i s1 n1 hu1
      injection hr with hr; subst hr
      obtain ⟨_, _, _, _, _, _, hbu⟩ := unbondLock_ok hu1
      dsimp only
      rw [(synths_beginUnlock hbu).1]; exact hx
  | undelegateAndUnbond snd id' a =>
    obtain ⟨r, hr, hpr⟩ := map_ok (show (superfluidUndelegateAndUnbondLock s id' snd a).map _ = .ok p from hp)
    subst hpr
    exact keep_undelegateAndUnbond h (show superfluidUndelegateAndUnbondLock s id' snd a = Except.ok (r.1, r.2) from hr) hx hu
  | beginUnlock snd id' c =>
    obtain ⟨r, hr, hpr⟩ := map_ok (show (msgBeginUnlocking s snd id' c).map _ = .ok p from hp)
    subst hpr
    unfold msgBeginUnlocking at hr
    split at hr
    · cases hr
    · split at hr
      · cases hr
      · split at hr
        · cases hr
        · dsimp only
          rw [(synths_beginUnlock (show beginUnlock s id' c = Except.ok (r.1, r.2) from hr)).1]; exact hx
  | withdraw id' =>
    obtain ⟨r, hr, hpr⟩ := map_ok (show (withdraw s id').map _ = .ok p from hp)
    subst hpr
    unfold withdraw at hr
    split at hr
    · cases hr
    · rename_i s1 h1
      obtain ⟨_, _, _, k1⟩ := inv_sweepSynths h _ s1 h1
      obtain ⟨_, _, _, _, _, hs'⟩ := unlockMatured_ok hr
      subst hs'
      exact k1 id x hx hnm
  | endBlock =>
    obtain ⟨r, hr, hpr⟩ := map_ok (show (endBlock s).map _ = .ok p from hp)
    subst hpr
    unfold endBlock at hr
    split at hr
    · cases hr
    · rename_i s1 h1
      obtain ⟨i1, f1, m1, k1⟩ := inv_sweepSynths h _ s1 h1
      rw [← f1.last] at m1
      obtain ⟨_, y, _⟩ := inv_sweepLocks s1.lastLockId s1.lastLockId r i1 m1 (Nat.le_refl _) hr
      dsimp only
      rw [y]
      exact k1 id x hx hnm
  | advance dt =>
    obtain ⟨r, hr, hpr⟩ := map_ok (show (advance s dt).map _ = .ok p from hp)
    subst hpr
    unfold advance at hr
    split at hr
    · cases hr
    · injection hr with hr; subst hr; exact hx
  | epoch ups =>
    obtain ⟨r, hr, hpr⟩ := map_ok (show (epoch s ups).map _ = .ok p from hp)
    subst hpr
    unfold epoch at hr
    split at hr
    · cases hr
    · rename_i s1 h1
      injection hr with hr; subst hr
      obtain ⟨f, _⟩ := updateMults_spec ups s _ false h.mult0 h1
      dsimp only; rw [f.synths]; exact hx
    · rename_i s1 h1
      obtain ⟨f, g⟩ := updateMults_spec ups s s1 true h.mult0 h1
      dsimp only
      rw [synths_refreshAll (f.inv h g) hr, f.synths]; exact hx

end OsmoVerif.Superfluid
