/-
A small certified bound checker for rational polynomials on [0,1]: coefficient lists over ℚ, exact Taylor
shift to the midpoints of `K` equal subintervals, and the bound `|p(m+t)| ≤ Σ |a_k| h^k` for `|t| ≤ h`.
The check itself is a closed Boolean computation over ℚ, run by the kernel (`decide +kernel`).
-/
import Mathlib.Algebra.Order.Floor.Semiring
import Mathlib.Algebra.Order.Archimedean.Real.Basic
import Mathlib.Tactic.Linarith
import Mathlib.Tactic.Ring
import Mathlib.Tactic.Positivity
import Mathlib.Tactic.FieldSimp
import Mathlib.Tactic.NormNum
import Mathlib.Algebra.BigOperators.Ring.Finset

namespace OsmoVerif.Poly

/-- value of the coefficient list `[c₀, c₁, …]` at `x`: `Σ c_k x^k` (Horner). -/
noncomputable def peval (p : List ℚ) (x : ℝ) : ℝ := p.foldr (fun c acc => (c : ℝ) + x * acc) 0

@[simp] theorem peval_nil (x : ℝ) : peval [] x = 0 := rfl
@[simp] theorem peval_cons (c : ℚ) (p : List ℚ) (x : ℝ) : peval (c :: p) x = (c : ℝ) + x * peval p x := rfl

def padd : List ℚ → List ℚ → List ℚ
  | [], q => q
  | p, [] => p
  | a :: p, b :: q => (a + b) :: padd p q

theorem peval_padd : ∀ (p q : List ℚ) (x : ℝ), peval (padd p q) x = peval p x + peval q x
  | [], q, x => by simp [padd]
  | a :: p, [], x => by simp [padd]
  | a :: p, b :: q, x => by
    simp only [padd, peval_cons, peval_padd p q x]; push_cast; ring

def psmul (a : ℚ) (p : List ℚ) : List ℚ := p.map (a * ·)

theorem peval_psmul (a : ℚ) : ∀ (p : List ℚ) (x : ℝ), peval (psmul a p) x = (a : ℝ) * peval p x
  | [], x => by simp [psmul]
  | c :: p, x => by
    have := peval_psmul a p x
    simp only [psmul, List.map_cons, peval_cons] at this ⊢
    rw [this]; push_cast; ring

def pmul : List ℚ → List ℚ → List ℚ
  | [], _ => []
  | a :: p, q => padd (psmul a q) (0 :: pmul p q)

theorem peval_pmul : ∀ (p q : List ℚ) (x : ℝ), peval (pmul p q) x = peval p x * peval q x
  | [], q, x => by simp [pmul]
  | a :: p, q, x => by
    simp only [pmul, peval_padd, peval_psmul, peval_cons, peval_pmul p q x]; push_cast; ring

def psub (p q : List ℚ) : List ℚ := padd p (psmul (-1) q)

theorem peval_psub (p q : List ℚ) (x : ℝ) : peval (psub p q) x = peval p x - peval q x := by
  simp only [psub, peval_padd, peval_psmul]; push_cast; ring

/-- `p(X + m)` as a coefficient list. -/
def shift (p : List ℚ) (m : ℚ) : List ℚ := p.foldr (fun c acc => padd [c] (pmul [m, 1] acc)) []

theorem peval_shift (m : ℚ) : ∀ (p : List ℚ) (t : ℝ), peval (shift p m) t = peval p (t + m)
  | [], t => rfl
  | c :: p, t => by
    have ih := peval_shift m p t
    simp only [shift, List.foldr_cons] at ih ⊢
    rw [peval_padd, peval_pmul, ih]
    simp only [peval_cons, peval_nil]; push_cast; ring

/-- `Σ |c_k| h^k`. -/
def absSum (p : List ℚ) (h : ℚ) : ℚ := p.foldr (fun c acc => |c| + h * acc) 0

theorem absSum_nonneg {h : ℚ} (hh : 0 ≤ h) : ∀ p : List ℚ, 0 ≤ absSum p h
  | [] => le_refl _
  | c :: p => by
    have := absSum_nonneg hh p
    simp only [absSum, List.foldr_cons] at this ⊢
    positivity

theorem abs_peval_le {h : ℚ} {t : ℝ} (ht : |t| ≤ (h : ℝ)) : ∀ p : List ℚ, |peval p t| ≤ ((absSum p h : ℚ) : ℝ)
  | [] => by simp [absSum]
  | c :: p => by
    have ih := abs_peval_le ht p
    have hh : (0 : ℝ) ≤ (h : ℝ) := le_trans (abs_nonneg _) ht
    have hs : (0 : ℝ) ≤ ((absSum p h : ℚ) : ℝ) := le_trans (abs_nonneg _) ih
    simp only [absSum, List.foldr_cons] at ih ⊢
    rw [peval_cons]
    push_cast
    calc |(c : ℝ) + t * peval p t| ≤ |(c : ℝ)| + |t * peval p t| := abs_add_le _ _
      _ = |(c : ℝ)| + |t| * |peval p t| := by rw [abs_mul]
      _ ≤ |(c : ℝ)| + (h : ℝ) * (List.foldr (fun c acc => |c| + h * acc) 0 p : ℚ) := by
          have := mul_le_mul ht ih (abs_nonneg _) hh
          linarith

/-- the certificate check: on each of the `K` subintervals of [0,1] the shifted polynomial is bounded by `η`. -/
def checkBound (p : List ℚ) (K : Nat) (η : ℚ) : Bool :=
  (List.range K).all fun j => decide (absSum (shift p ((2 * j + 1 : ℚ) / (2 * K))) (1 / (2 * K)) ≤ η)

theorem checkBound_sound {p : List ℚ} {K : Nat} {η : ℚ} (hK : 0 < K) (h : checkBound p K η = true)
    {x : ℝ} (h0 : 0 ≤ x) (h1 : x ≤ 1) : |peval p x| ≤ (η : ℝ) := by
  have hKr : (0 : ℝ) < (K : ℝ) := by exact_mod_cast hK
  -- the subinterval containing x
  obtain ⟨j, hjK, hj1, hj2⟩ : ∃ j : Nat, j < K ∧ (j : ℝ) ≤ x * K ∧ x * K ≤ (j : ℝ) + 1 := by
    by_cases hlt : ⌊x * K⌋₊ < K
    · exact ⟨⌊x * K⌋₊, hlt, Nat.floor_le (by positivity), (Nat.lt_floor_add_one _).le⟩
    · refine ⟨K - 1, by omega, ?_, ?_⟩
      · have : ((K - 1 : Nat) : ℝ) = (K : ℝ) - 1 := by
          rw [Nat.cast_sub (by omega)]; simp
        rw [this]
        have hfl : (K : ℝ) ≤ x * K := by
          have : (K : ℝ) ≤ (⌊x * K⌋₊ : ℝ) := by exact_mod_cast (by omega : K ≤ ⌊x * K⌋₊)
          exact le_trans this (Nat.floor_le (by positivity))
        linarith
      · have : ((K - 1 : Nat) : ℝ) = (K : ℝ) - 1 := by
          rw [Nat.cast_sub (by omega)]; simp
        rw [this]
        have : x * K ≤ 1 * K := mul_le_mul_of_nonneg_right h1 hKr.le
        linarith
  have hc := List.all_eq_true.mp h j (List.mem_range.mpr hjK)
  have hle : absSum (shift p ((2 * j + 1 : ℚ) / (2 * K))) (1 / (2 * K)) ≤ η := of_decide_eq_true hc
  set m : ℚ := (2 * j + 1 : ℚ) / (2 * K) with hm
  set hw : ℚ := 1 / (2 * K) with hhw
  have hmr : (m : ℝ) = (2 * (j : ℝ) + 1) / (2 * K) := by rw [hm]; push_cast; ring
  have hwr : (hw : ℝ) = 1 / (2 * K) := by rw [hhw]; push_cast; ring
  have ht : |x - (m : ℝ)| ≤ (hw : ℝ) := by
    rw [hmr, hwr, abs_le]
    constructor
    · rw [le_sub_iff_add_le, ← sub_eq_neg_add, div_sub_div_same, div_le_iff₀ (by positivity)]
      nlinarith
    · rw [sub_le_iff_le_add, ← add_div, le_div_iff₀ (by positivity)]
      nlinarith
  have := abs_peval_le ht (shift p m)
  rw [peval_shift] at this
  have e : x - (m : ℝ) + (m : ℝ) = x := by ring
  rw [e] at this
  have hle' : ((absSum (shift p m) hw : ℚ) : ℝ) ≤ (η : ℝ) := by exact_mod_cast hle
  linarith

/-- coefficient list given by a function on `range' s n`. -/
theorem peval_map_range' (f : Nat → ℚ) (x : ℝ) : ∀ (n s : Nat),
    peval ((List.range' s n).map f) x = ∑ i ∈ Finset.range n, (f (s + i) : ℝ) * x ^ i
  | 0, s => by simp
  | n + 1, s => by
    rw [List.range'_succ, List.map_cons, peval_cons, peval_map_range' f x n (s + 1), Finset.sum_range_succ',
      Finset.mul_sum]
    simp only [pow_zero, mul_one, Nat.add_zero]
    rw [add_comm]
    congr 1
    apply Finset.sum_congr rfl
    intro i _
    have : s + 1 + i = s + (i + 1) := by omega
    rw [this, pow_succ]; ring

theorem peval_map_range (f : Nat → ℚ) (x : ℝ) (n : Nat) :
    peval ((List.range n).map f) x = ∑ i ∈ Finset.range n, (f i : ℝ) * x ^ i := by
  rw [List.range_eq_range', peval_map_range' f x n 0]
  simp

end OsmoVerif.Poly
