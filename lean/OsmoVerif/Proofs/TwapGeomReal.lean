/-
Real-valued error analysis of the pieces of the geometric TWAP (x/twap), over Mathlib reals, composed from the C13
bounds of `LogBase2` (abs 89·10^-36), `Exp2` (rel 10^-21), `BigDec.Quo` (½ ulp) and `SigFigRound` (half a unit of the
last kept digit):

* `twapLog_real`      : `twapLog p` (= `LogBase2` of the price, `Dec()`-truncated to 18 decimals) is within
                        `10^-18 + 89·10^-36` of `log₂ p`;
* `two_rpow_close`    : an exponent off by `η ≤ 1` moves `2^x` by at most the relative `η` (convexity of `2^x` on [0,1]);
* `geomFinish_real`   : the closing computation `geomFinish` (`Exp2 |m|`, reciprocal rule, `Dec()`, `SigFigRound`):
                        the value handed to `SigFigRound` is within `2·10^-21·T + 10^-18 + 10^-36` of
                        `T = 2^(± m)` (`+` for quote = asset0, `−` for quote = asset1);
* `sigFig8_real`      : `SigFigRound(·, SpotPriceSigFigs = 10^8)` moves a value by at most the relative `5·10^-8`.
-/
import OsmoVerif.Props.C13Exp2
import OsmoVerif.Props.C13Log
import OsmoVerif.Props.C13SigFig
import OsmoVerif.Spec.Twap
import Mathlib.Analysis.Convex.SpecificFunctions.Basic

namespace OsmoVerif.Twap
open OsmoVerif.MathM OsmoVerif.Num OsmoVerif.Gen Real

/-- the value of a raw 18-decimal `Dec`. -/
noncomputable def dval (x : Int) : ℝ := (x : ℝ) / 10 ^ 18

theorem Pdiff_cast : ((Pdiff : Int) : ℝ) = 10 ^ 18 := by
  have : Pdiff = 10 ^ 18 := by decide
  rw [this]; norm_num

/-! ### `2^x` under a perturbation of the exponent -/

theorem two_rpow_le_one_add {d : ℝ} (h0 : 0 ≤ d) (h1 : d ≤ 1) : (2 : ℝ) ^ d ≤ 1 + d := by
  have hc := convexOn_exp.2 (Set.mem_univ (0 : ℝ)) (Set.mem_univ (Real.log 2))
    (by linarith : (0 : ℝ) ≤ 1 - d) h0 (by ring)
  simp only [smul_eq_mul, mul_zero, zero_add, Real.exp_zero, mul_one] at hc
  rw [Real.exp_log (by norm_num)] at hc
  rw [Real.rpow_def_of_pos (by norm_num), mul_comm]
  linarith

theorem one_sub_le_two_rpow_neg {d : ℝ} (h0 : 0 ≤ d) (h1 : d ≤ 1) : 1 - d ≤ (2 : ℝ) ^ (-d) := by
  have h := two_rpow_le_one_add h0 h1
  have hp : (0 : ℝ) < 2 ^ d := Real.rpow_pos_of_pos (by norm_num) _
  rw [Real.rpow_neg (by norm_num), ← one_div, le_div_iff₀ hp]
  nlinarith [mul_le_mul_of_nonneg_left h (by linarith : (0 : ℝ) ≤ 1 - d), sq_nonneg d]

/-- an exponent within `η ≤ 1` of `μ`: `2^x` is within the RELATIVE `η` of `2^μ`. -/
theorem two_rpow_close {x μ η : ℝ} (hη0 : 0 ≤ η) (hη1 : η ≤ 1) (h : |x - μ| ≤ η) :
    |(2 : ℝ) ^ x - 2 ^ μ| ≤ η * 2 ^ μ := by
  obtain ⟨l, u⟩ := abs_le.mp h
  have hμ : (0 : ℝ) < 2 ^ μ := rpow_pos_of_pos (by norm_num) _
  have e : (2 : ℝ) ^ x = 2 ^ μ * 2 ^ (x - μ) := by
    rw [← rpow_add (by norm_num)]; congr 1; ring
  have up : (2 : ℝ) ^ (x - μ) ≤ 1 + η :=
    le_trans (rpow_le_rpow_of_exponent_le (by norm_num) u) (two_rpow_le_one_add hη0 hη1)
  have lo : 1 - η ≤ (2 : ℝ) ^ (x - μ) :=
    le_trans (one_sub_le_two_rpow_neg hη0 hη1) (rpow_le_rpow_of_exponent_le (by norm_num) (by linarith))
  rw [e, abs_le]; constructor <;> nlinarith

/-! ### `twapLog` -/

/-- `twapLog p` returns only for a positive price and is the `Dec()` truncation (`Quo` by 10^18, toward zero) of
`LogBase2` of the price as a `BigDec`. -/
theorem twapLog_unfold {p l : Int} (h : twapLog p = some l) :
    0 < p ∧ ∃ L, logBase2 (p * Pdiff) = some L ∧ l = L.tdiv Pdiff := by
  unfold twapLog at h
  split at h
  · cases h
  · obtain ⟨L, hL, rfl⟩ := Option.map_eq_some_iff.mp h
    have hpos := (logBase2_unfold hL).1
    have hp : 0 < p := by
      by_contra hc
      have : p * Pdiff ≤ 0 * Pdiff := Int.mul_le_mul_of_nonneg_right (by omega) (Int.le_of_lt Pdiff_pos)
      omega
    exact ⟨hp, L, hL, rfl⟩

/-- `twapLog` against the true binary logarithm of the price: the 18-decimal truncation (< 10^-18) plus the
`LogBase2` error (≤ 89·10^-36). -/
theorem twapLog_real {p l : Int} (h : twapLog p = some l) :
    0 < p ∧ |dval l - Real.logb 2 (dval p)| ≤ 1 / 10 ^ 18 + 89 / 10 ^ 36 := by
  obtain ⟨hp, L, hL, rfl⟩ := twapLog_unfold h
  refine ⟨hp, ?_⟩
  have h1 := logBase2_real_error hL
  have e : ((p * Pdiff : Int) : ℝ) / 10 ^ 36 = dval p := by
    unfold dval; push_cast; rw [Pdiff_cast, div_eq_div_iff (by positivity) (by positivity)]; ring
  rw [e] at h1
  have h2 := tdiv_real L Pdiff (by decide)
  rw [Pdiff_cast] at h2
  have e2 : dval (L.tdiv Pdiff) - (L : ℝ) / 10 ^ 36 = (((L.tdiv Pdiff : Int) : ℝ) - (L : ℝ) / 10 ^ 18) / 10 ^ 18 := by
    unfold dval; ring
  have h3 : |dval (L.tdiv Pdiff) - (L : ℝ) / 10 ^ 36| ≤ 1 / 10 ^ 18 := by
    rw [e2, abs_div, abs_of_pos (by positivity : (0 : ℝ) < 10 ^ 18)]
    exact div_le_div_of_nonneg_right h2.le (by positivity)
  have tri := abs_sub_le (dval (L.tdiv Pdiff)) ((L : ℝ) / 10 ^ 36) (Real.logb 2 (dval p))
  linarith

/-- `twapLog` returns on every positive price that fits a `BigDec` (in particular up to `MaxSpotPrice`). -/
theorem twapLog_total {p : Int} (hp : 0 < p) (hfit : p ≤ Twap.MaxSpotPrice) : ∃ l, twapLog p = some l := by
  have h1 : 0 < p * Pdiff := Int.mul_pos hp Pdiff_pos
  have h2 : p * Pdiff < 2 ^ 1144 := by
    have : p * Pdiff ≤ Twap.MaxSpotPrice * Pdiff := Int.mul_le_mul_of_nonneg_right hfit (Int.le_of_lt Pdiff_pos)
    have : Twap.MaxSpotPrice * Pdiff < 2 ^ 1144 := by decide +kernel
    omega
  obtain ⟨L, hL⟩ := logBase2_total' h1 h2
  refine ⟨L.tdiv Pdiff, ?_⟩
  unfold twapLog
  rw [if_neg (by omega), hL]; rfl

/-! ### `SigFigRound(·, 10^8)` -/

theorem spotPriceSigFigs_eq : Twap.SpotPriceSigFigs = 10 ^ 8 := by decide

/-- relative form of the half-unit bound: 8 significant figures move a value by at most `5·10^-8` of itself. -/
theorem sigFig8_real {D res : Int} (hD : 0 ≤ D) (h : sigFigRound D Twap.SpotPriceSigFigs = some res) :
    |dval res - dval D| ≤ 5 / 10 ^ 8 * dval D := by
  rcases Int.lt_or_eq_of_le hD with hpos | rfl
  · rw [spotPriceSigFigs_eq] at h
    obtain ⟨k, ⟨hk, _⟩, hb⟩ := OsmoVerif.Props.C13SigFig.sigFigRound_half_unit hpos h
    have hbR : (2 : ℝ) * (|(res : ℝ) - D| * 10 ^ (8 + k)) ≤ 10 ^ 18 := by exact_mod_cast hb
    have hkR : (10 : ℝ) ^ 17 ≤ (D : ℝ) * 10 ^ k := by exact_mod_cast hk
    have hK : (0 : ℝ) < 10 ^ k := by positivity
    have e : dval res - dval D = ((res : ℝ) - D) / 10 ^ 18 := by unfold dval; ring
    rw [e, abs_div, abs_of_pos (by positivity : (0 : ℝ) < 10 ^ 18), div_le_iff₀ (by positivity)]
    unfold dval
    have e3 : (5 : ℝ) / 10 ^ 8 * ((D : ℝ) / 10 ^ 18) * 10 ^ 18 = 5 / 10 ^ 8 * D := by field_simp
    rw [e3]
    -- |res − D| · 10^(8+k) ≤ 10^18 / 2 ≤ 5 · D · 10^k
    have hx : |(res : ℝ) - D| * (10 ^ 8 * 10 ^ k) ≤ 5 * D * 10 ^ k := by
      rw [← pow_add]; nlinarith
    have : |(res : ℝ) - D| * 10 ^ 8 ≤ 5 * D :=
      le_of_mul_le_mul_right (by linarith : |(res : ℝ) - D| * 10 ^ 8 * 10 ^ k ≤ 5 * D * 10 ^ k) hK
    rw [div_mul_eq_mul_div, le_div_iff₀ (by positivity)]
    linarith
  · rw [show sigFigRound 0 Twap.SpotPriceSigFigs = some 0 from rfl] at h
    obtain rfl := Option.some.inj h
    simp [dval]

/-! ### the closing computation `geomFinish` -/

/-- the direction of the quote asset as a sign on the exponent: quote = asset0 gives `2^m`, quote = asset1 `2^(−m)`. -/
noncomputable def dirSign (q0 : Bool) : ℝ := if q0 then 1 else -1

theorem geomFinish_unfold {q0 : Bool} {m res : Int} (h : geomFinish q0 m = some res) :
    ∃ R R' : Int, exp2 ((m.natAbs : Int) * Pdiff) = some R ∧
      (if (decide (m < 0) && q0) || (!decide (m < 0) && !q0) then BigDec.quo P36 R else some R) = some R' ∧
      sigFigRound (R'.tdiv Pdiff) Twap.SpotPriceSigFigs = some res := by
  unfold geomFinish at h
  obtain ⟨R, hR, h⟩ := Option.bind_eq_some_iff.mp h
  obtain ⟨R', hR', h⟩ := Option.bind_eq_some_iff.mp h
  exact ⟨R, R', hR, hR', h⟩

/-- `Dec()` of a `BigDec`: truncation by 10^18, less than one 18-decimal ulp. -/
theorem dec_trunc_real (R : Int) : |dval (R.tdiv Pdiff) - bval R| ≤ 1 / 10 ^ 18 := by
  have h2 := tdiv_real R Pdiff (by decide)
  rw [Pdiff_cast] at h2
  have e2 : dval (R.tdiv Pdiff) - bval R = (((R.tdiv Pdiff : Int) : ℝ) - (R : ℝ) / 10 ^ 18) / 10 ^ 18 := by
    unfold dval bval; ring
  rw [e2, abs_div, abs_of_pos (by positivity : (0 : ℝ) < 10 ^ 18)]
  exact div_le_div_of_nonneg_right h2.le (by positivity)

/-- not inverted: `Exp2` then `Dec()`. -/
theorem finish_direct {R : Int} {X : ℝ} (hR : |bval R - (2 : ℝ) ^ X| ≤ 1 / 10 ^ 21 * (2 : ℝ) ^ X) :
    |dval (R.tdiv Pdiff) - (2 : ℝ) ^ X| ≤ 2 / 10 ^ 21 * (2 : ℝ) ^ X + (1 / 10 ^ 18 + 1 / 10 ^ 36) := by
  have h1 := dec_trunc_real R
  have hp : (0 : ℝ) < (2 : ℝ) ^ X := rpow_pos_of_pos (by norm_num) _
  have tri := abs_sub_le (dval (R.tdiv Pdiff)) (bval R) ((2 : ℝ) ^ X)
  have : (0 : ℝ) ≤ 1 / 10 ^ 36 := by positivity
  nlinarith

/-- inverted: `Exp2`, `OneBigDec().Quo(result)`, `Dec()`. -/
theorem finish_inverted {R R' : Int} {X : ℝ} (hX : 0 ≤ X)
    (hR : |bval R - (2 : ℝ) ^ X| ≤ 1 / 10 ^ 21 * (2 : ℝ) ^ X) (hq : BigDec.quo P36 R = some R') :
    |dval (R'.tdiv Pdiff) - (2 : ℝ) ^ (-X)| ≤ 2 / 10 ^ 21 * (2 : ℝ) ^ (-X) + (1 / 10 ^ 18 + 1 / 10 ^ 36) := by
  obtain ⟨_, hq'⟩ := bigQuo_real hq
  have e1 : bval P36 = 1 := by unfold bval; rw [P36_cast]; field_simp
  rw [e1] at hq'
  have h1 := dec_trunc_real R'
  have ht : (1 : ℝ) ≤ (2 : ℝ) ^ X := Real.one_le_rpow (by norm_num) hX
  set t := (2 : ℝ) ^ X with htdef
  set y := bval R with hy
  obtain ⟨l, u⟩ := abs_le.mp hR
  have hy0 : 0 < y := by nlinarith
  have einv : (2 : ℝ) ^ (-X) = 1 / t := by rw [Real.rpow_neg (by norm_num), one_div]
  rw [einv]
  -- |1/y − 1/t| ≤ 2·10^-21 / t
  have hinv : |1 / y - 1 / t| ≤ 2 / 10 ^ 21 * (1 / t) := by
    have e : 1 / y - 1 / t = (t - y) / (y * t) := by field_simp
    rw [e, abs_div, abs_of_pos (by positivity : 0 < y * t), div_le_iff₀ (by positivity)]
    have e2 : 2 / 10 ^ 21 * (1 / t) * (y * t) = 2 / 10 ^ 21 * y := by field_simp
    rw [e2, abs_le]; constructor <;> nlinarith
  have q2 : ((1 : ℝ) / 2 + 1 / 10 ^ 36) / 10 ^ 36 ≤ 1 / 10 ^ 36 := by norm_num
  have tri1 := abs_sub_le (dval (R'.tdiv Pdiff)) (bval R') (1 / t)
  have tri2 := abs_sub_le (bval R') (1 / y) (1 / t)
  linarith

/-- **the closing computation**: what `geomFinish` hands to `SigFigRound` is, up to the relative `2·10^-21` of
`Exp2` (and of the reciprocal) and the absolute `10^-18 + 10^-36` of the `Dec()` truncation (and of `Quo`), two to the
mean exponent `m` — taken with the sign of the quote direction. -/
theorem geomFinish_real {q0 : Bool} {m res : Int} (h : geomFinish q0 m = some res) :
    ∃ D : Int, 0 ≤ D ∧ sigFigRound D Twap.SpotPriceSigFigs = some res ∧
      |dval D - (2 : ℝ) ^ (dirSign q0 * dval m)| ≤
        2 / 10 ^ 21 * (2 : ℝ) ^ (dirSign q0 * dval m) + (1 / 10 ^ 18 + 1 / 10 ^ 36) := by
  obtain ⟨R, R', hR, hinv, hs⟩ := geomFinish_unfold h
  have hD : 0 ≤ R'.tdiv Pdiff := by
    by_contra hc
    rw [OsmoVerif.Props.C13SigFig.sigFigRound_neg_fails _ (by omega)] at hs; cases hs
  refine ⟨_, hD, hs, ?_⟩
  have hE := OsmoVerif.Props.C13Exp2.exp2_rel_error_sharp hR
  -- the exponent handed to Exp2 is |m| as an 18-decimal value
  have eX : (((m.natAbs : Int) * Pdiff : Int) : ℝ) / 10 ^ 36 = |dval m| := by
    unfold dval
    rw [abs_div, abs_of_pos (by positivity : (0 : ℝ) < 10 ^ 18)]
    push_cast; rw [Pdiff_cast, div_eq_div_iff (by positivity) (by positivity)]; ring
  rw [eX] at hE
  have hX0 : 0 ≤ |dval m| := abs_nonneg _
  have hsign : (m < 0 → |dval m| = -dval m) ∧ (¬ m < 0 → |dval m| = dval m) := by
    constructor
    · intro hm
      have : dval m < 0 := by
        unfold dval; apply div_neg_of_neg_of_pos _ (by positivity); exact_mod_cast hm
      exact abs_of_neg this
    · intro hm
      have : 0 ≤ dval m := by
        unfold dval; apply div_nonneg _ (by positivity); exact_mod_cast (by omega : 0 ≤ m)
      exact abs_of_nonneg this
  cases q0 with
  | true =>
    have ed : dirSign true * dval m = dval m := by unfold dirSign; simp
    rw [ed]
    by_cases hm : m < 0
    · rw [show ((decide (m < 0) && true) || (!decide (m < 0) && !true)) = true by simp [hm]] at hinv
      simp only [if_true] at hinv
      have := finish_inverted hX0 hE hinv
      rwa [hsign.1 hm, neg_neg] at this
    · rw [show ((decide (m < 0) && true) || (!decide (m < 0) && !true)) = false by simp [hm]] at hinv
      simp only [Bool.false_eq_true, if_false] at hinv
      obtain rfl := Option.some.inj hinv
      have := finish_direct hE
      rwa [hsign.2 hm] at this
  | false =>
    have ed : dirSign false * dval m = -dval m := by unfold dirSign; simp
    rw [ed]
    by_cases hm : m < 0
    · rw [show ((decide (m < 0) && false) || (!decide (m < 0) && !false)) = false by simp [hm]] at hinv
      simp only [Bool.false_eq_true, if_false] at hinv
      obtain rfl := Option.some.inj hinv
      have := finish_direct hE
      rwa [hsign.1 hm] at this
    · rw [show ((decide (m < 0) && false) || (!decide (m < 0) && !false)) = true by simp [hm]] at hinv
      simp only [if_true] at hinv
      have := finish_inverted hX0 hE hinv
      rwa [hsign.2 hm] at this

end OsmoVerif.Twap
