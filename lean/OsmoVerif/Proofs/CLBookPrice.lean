/-
C07 helpers, part 5: agreement between a sqrt price and a tick (`Agree`): every (aligned) tick at or below the
current tick has a sqrt price ≤ the current sqrt price, every tick above it has a sqrt price ≥ it.  Established
by `calculateSqrtPriceToTick` (bucket theorem of C14), by a tick crossing, and by the spacing-rounded tick of
the first position; uses the monotonicity theorems of C14Mono.  Core only.
-/
import OsmoVerif.Props.C14
import OsmoVerif.Props.C14Mono

namespace OsmoVerif.CLBook
open OsmoVerif.Tick OsmoVerif.Num OsmoVerif.Gen OsmoVerif.Props

/-- `sp` and `tick` classify every tick on the spacing grid consistently (weak inequalities on both sides:
after crossing a tick downwards the pool sits at `tick = b − 1` with the sqrt price of `b`). -/
def Agree (spacing sp tick : Int) : Prop :=
  ∀ b s, b.tmod spacing = 0 → tickToSqrtPrice b = some s → (b ≤ tick → s ≤ sp) ∧ (tick < b → sp ≤ s)

/-- the same for every tick, whatever the spacing. -/
def AgreeAll (sp tick : Int) : Prop :=
  ∀ b s, tickToSqrtPrice b = some s → (b ≤ tick → s ≤ sp) ∧ (tick < b → sp ≤ s)

theorem AgreeAll.agree {sp tick : Int} (h : AgreeAll sp tick) (spacing : Int) : Agree spacing sp tick :=
  fun b s _ hs => h b s hs

theorem tts_range {t s : Int} (h : tickToSqrtPrice t = some s) : CL.MinCurrentTickV2 ≤ t ∧ t ≤ CL.MaxTick := by
  refine ⟨?_, ?_⟩
  · apply Classical.byContradiction; intro hlt
    have := (C14.tick_out_of_range_rejected (t := t) (Or.inl (by omega))).2
    rw [this] at h; cases h
  · apply Classical.byContradiction; intro hgt
    have := (C14.tick_out_of_range_rejected (t := t) (Or.inr (by omega))).2
    rw [this] at h; cases h

theorem tts_mono {a b sa sb : Int} (ha : tickToSqrtPrice a = some sa) (hb : tickToSqrtPrice b = some sb)
    (hab : a ≤ b) : sa ≤ sb :=
  C14Mono.tickToSqrtPrice_mono (tts_range ha).1 hab (tts_range hb).2 ha hb

theorem tts_total {t : Int} (h1 : CL.MinInitializedTick ≤ t) (h2 : t ≤ CL.MaxTick) : ∃ s, tickToSqrtPrice t = some s := by
  have hc := C14.tick_constants
  exact C14Mono.tickToSqrtPrice_total (by omega) h2

/-- the tick computed from a sqrt price agrees with it about every tick. -/
theorem agreeAll_of_calc {sp t : Int} (h : calculateSqrtPriceToTick sp = some t) : AgreeAll sp t := by
  obtain ⟨lo, hlo, hle, hrest⟩ := C14.sqrtPriceToTick_bucket h
  intro b s hs
  refine ⟨fun hb => ?_, fun hb => ?_⟩
  · have := tts_mono hs hlo hb; omega
  · rcases hrest with ⟨hi, hhi, hlt⟩ | ⟨heq, _⟩
    · have := tts_mono hhi hs (by omega); omega
    · exact tts_mono heq hs (by omega)

/-- sitting exactly on the sqrt price of tick `nt`, with current tick `nt` (crossed upwards) or `nt − 1`
(crossed downwards). -/
theorem agreeAll_cross {nt s : Int} (h : tickToSqrtPrice nt = some s) : AgreeAll s nt ∧ AgreeAll s (nt - 1) := by
  refine ⟨fun b sb hb => ⟨fun hle => tts_mono hb h hle, fun hlt => tts_mono h hb (by omega)⟩,
    fun b sb hb => ⟨fun hle => tts_mono hb h (by omega), fun hlt => tts_mono h hb (by omega)⟩⟩

/-- the tick of the first position: the tick of the sqrt price rounded down to the spacing grid. -/
theorem agree_of_roundDown {sp spacing t : Int} (hs : 0 < spacing)
    (h : sqrtPriceToTickRoundDownSpacing sp spacing = some t) : Agree spacing sp t := by
  unfold sqrtPriceToTickRoundDownSpacing at h
  rw [Option.bind_eq_some_iff] at h
  obtain ⟨t0, h0, hr⟩ := h
  have hall := agreeAll_of_calc h0
  obtain ⟨r1, r2, r3, _, _⟩ := C14.roundDown_spec hs hr
  intro b s hb hsb
  refine ⟨fun hle => (hall b s hsb).1 (by omega), fun hlt => (hall b s hsb).2 ?_⟩
  -- b is on the grid and above t (also on the grid), so b ≥ t + spacing > t0
  have d1 : spacing ∣ b := Int.dvd_of_tmod_eq_zero hb
  have d2 : spacing ∣ t := Int.dvd_of_emod_eq_zero r3
  have d3 : spacing ∣ b - t := Int.dvd_sub d1 d2
  have : spacing ≤ b - t := Int.le_of_dvd (by omega) d3
  omega

theorem tts_pos {t s : Int} (h : tickToSqrtPrice t = some s) : 0 < s :=
  (C14Mono.tickToSqrtPrice_in_bounds (tts_range h).1 (tts_range h).2 h).1

/-- only positive sqrt prices have a tick. -/
theorem pos_of_calc {sp t : Int} (h : calculateSqrtPriceToTick sp = some t) : 0 < sp := by
  obtain ⟨lo, hlo, hle, _⟩ := C14.sqrtPriceToTick_bucket h
  have := tts_pos hlo
  omega

theorem pos_of_roundDown {sp spacing t : Int} (h : sqrtPriceToTickRoundDownSpacing sp spacing = some t) : 0 < sp := by
  unfold sqrtPriceToTickRoundDownSpacing at h
  rw [Option.bind_eq_some_iff] at h
  obtain ⟨t0, h0, _⟩ := h
  exact pos_of_calc h0

end OsmoVerif.CLBook
