/-
`Exp2`, part 2: the concrete coefficient lists — `exp2Rational` is within `70·10^-36` of the exact rational
function `P(X)/Q(X)` of the coded coefficients (pure rounding analysis; no analytic input).
-/
import OsmoVerif.Proofs.MathExp2

namespace OsmoVerif.MathM
open OsmoVerif.Num OsmoVerif.Gen OsmoVerif.Spec Real

/-- numerator and denominator polynomials of the coded rational approximation, evaluated exactly. -/
noncomputable def exp2PQ (X : ℝ) : ℝ × ℝ :=
  match Osmomath.exp2Num, Osmomath.exp2Den with
  | n0 :: ns, d0 :: ds => exp2LoopR X ns ds 1 (bval n0) (bval d0)
  | _, _ => (0, 1)

/-- explicit polynomials. -/
theorem exp2PQ_eq (X : ℝ) : exp2PQ X =
    (1000000000000000000000044212244679434 / 10 ^ 36 + 352032455817400196452603772766844426 / 10 ^ 36 * X
      + 56507868883666405413116800969512484 / 10 ^ 36 * X ^ 2 + 5343900728213034434757419480319916 / 10 ^ 36 * X ^ 3
      + 317708814342353603087543715930732 / 10 ^ 36 * X ^ 4 + 11429747507407623028722262874632 / 10 ^ 36 * X ^ 5
      + 198381965651614980168744540366 / 10 ^ 36 * X ^ 6,
     1 - 341114724742545112949699755780593311 / 10 ^ 36 * X
      + 52724071627342653404436933178482287 / 10 ^ 36 * X ^ 2 - 4760950735524957576233524801866342 / 10 ^ 36 * X ^ 3
      + 267168475410566529819971616894193 / 10 ^ 36 * X ^ 4 - 8923715368802211181557353097439 / 10 ^ 36 * X ^ 5
      + 140277233177373698516010555916 / 10 ^ 36 * X ^ 6) := by
  simp only [exp2PQ, Osmomath.exp2Num, Osmomath.exp2Den, exp2LoopR, bval]
  refine Prod.ext ?_ ?_ <;> (push_cast; ring)

theorem exp2PQ_bounds {X : ℝ} (h0 : 0 ≤ X) (h1 : X ≤ 1) :
    1 ≤ (exp2PQ X).1 ∧ (exp2PQ X).1 ≤ 1.42 ∧ 0.65 ≤ (exp2PQ X).2 ∧ (exp2PQ X).2 ≤ 1.06 := by
  rw [exp2PQ_eq]
  have p2 : 0 ≤ X ^ 2 ∧ X ^ 2 ≤ 1 := ⟨by positivity, pow_le_one₀ h0 h1⟩
  have p3 : 0 ≤ X ^ 3 ∧ X ^ 3 ≤ 1 := ⟨by positivity, pow_le_one₀ h0 h1⟩
  have p4 : 0 ≤ X ^ 4 ∧ X ^ 4 ≤ 1 := ⟨by positivity, pow_le_one₀ h0 h1⟩
  have p5 : 0 ≤ X ^ 5 ∧ X ^ 5 ≤ 1 := ⟨by positivity, pow_le_one₀ h0 h1⟩
  have p6 : 0 ≤ X ^ 6 ∧ X ^ 6 ≤ 1 := ⟨by positivity, pow_le_one₀ h0 h1⟩
  obtain ⟨a2, b2⟩ := p2; obtain ⟨a3, b3⟩ := p3; obtain ⟨a4, b4⟩ := p4
  obtain ⟨a5, b5⟩ := p5; obtain ⟨a6, b6⟩ := p6
  dsimp only
  refine ⟨?_, ?_, ?_, ?_⟩ <;> norm_num <;> nlinarith

theorem exp2Coeffs_le_one :
    (∀ n ∈ Osmomath.exp2Num.tail, |bval n| ≤ 1) ∧ (∀ d ∈ Osmomath.exp2Den.tail, |bval d| ≤ 1) := by
  constructor
  · intro n hn
    simp only [Osmomath.exp2Num, List.tail_cons, List.mem_cons, List.not_mem_nil, or_false] at hn
    rcases hn with rfl | rfl | rfl | rfl | rfl | rfl <;> (unfold bval; rw [abs_le]; constructor <;> norm_num)
  · intro n hn
    simp only [Osmomath.exp2Den, List.tail_cons, List.mem_cons, List.not_mem_nil, or_false] at hn
    rcases hn with rfl | rfl | rfl | rfl | rfl | rfl <;> (unfold bval; rw [abs_le]; constructor <;> norm_num)

theorem exp2Rational_unfold {x r : Int} (h0 : 0 < x) (h1 : x < P36) (h : exp2Rational x = some r) :
    ∃ hh pp, exp2Loop x Osmomath.exp2Num.tail Osmomath.exp2Den.tail P36
        1000000000000000000000044212244679434 1000000000000000000000000000000000000 = some (hh, pp) ∧
      BigDec.quo hh pp = some r := by
  unfold exp2Rational at h
  rw [if_neg (by omega), if_neg (by omega), if_neg (by omega)] at h
  obtain ⟨⟨hh, pp⟩, hl, hq⟩ := Option.bind_eq_some_iff.mp h
  exact ⟨hh, pp, hl, hq⟩

/-- ARITHMETIC ERROR of `exp2Rational` on (0,1): at most `70·10^-36` from the exact `P(X)/Q(X)`. -/
theorem exp2Rational_arith_error {x r : Int} (h0 : 0 < x) (h1 : x < P36) (h : exp2Rational x = some r) :
    |bval r - (exp2PQ (bval x)).1 / (exp2PQ (bval x)).2| ≤ 70 / 10 ^ 36 := by
  obtain ⟨hh, pp, hl, hq⟩ := exp2Rational_unfold h0 h1 h
  have hX0 : 0 ≤ bval x := (bval_pos h0).le
  have hX1 : bval x ≤ 1 := by
    have : (x : ℝ) < ((P36 : Int) : ℝ) := by exact_mod_cast h1
    rw [P36_cast] at this
    unfold bval; rw [div_le_one (by positivity)]; linarith
  obtain ⟨cn, cd⟩ := exp2Coeffs_le_one
  have hone : bval P36 = 1 := by unfold bval; rw [P36_cast]; field_simp
  have L := exp2Loop_real hX0 hX1 Osmomath.exp2Num.tail Osmomath.exp2Den.tail 0 P36
    1000000000000000000000044212244679434 1000000000000000000000000000000000000 hh pp 1
    (bval 1000000000000000000000044212244679434) (bval 1000000000000000000000000000000000000) 0 0 cn cd
    (by rw [hone]; norm_num) (by norm_num) (by norm_num) hl
  have hE : exp2Err 0 Osmomath.exp2Num.tail.length = 27 / 2 / 10 ^ 36 := by
    simp only [Osmomath.exp2Num, List.tail_cons, List.length_cons, List.length_nil, exp2Err]
    norm_num
  rw [hE] at L
  have hPQ : exp2LoopR (bval x) Osmomath.exp2Num.tail Osmomath.exp2Den.tail 1
      (bval 1000000000000000000000044212244679434) (bval 1000000000000000000000000000000000000) =
      exp2PQ (bval x) := rfl
  rw [hPQ] at L
  obtain ⟨bA1, bA2, bB1, bB2⟩ := exp2PQ_bounds hX0 hX1
  obtain ⟨_, hquo⟩ := bigQuo_real hq
  set A := (exp2PQ (bval x)).1
  set B := (exp2PQ (bval x)).2
  set a := bval hh
  set b := bval pp
  obtain ⟨La, Lb⟩ := L
  simp only [zero_add] at La Lb
  have hE0 : (27 : ℝ) / 2 / 10 ^ 36 ≤ 1 / 10 ^ 30 := by norm_num
  obtain ⟨Lb1, Lb2⟩ := abs_le.mp Lb
  have hb : 0.6499 ≤ b := by
    have : (1 : ℝ) / 10 ^ 30 ≤ 0.0001 := by norm_num
    linarith
  have hb0 : 0 < b := by linarith
  have hB0 : 0 < B := by linarith
  have hAB : A / B ≤ 2.2 := by
    rw [div_le_iff₀ hB0]; nlinarith
  have hAB0 : 0 ≤ A / B := by positivity
  have e : a / b - A / B = ((a - A) - A / B * (b - B)) / b := by field_simp; ring
  have h5 : |a / b - A / B| ≤ (27 / 2 / 10 ^ 36 + 2.2 * (27 / 2 / 10 ^ 36)) / 0.6499 := by
    rw [e, abs_div, abs_of_pos hb0]
    have num : |(a - A) - A / B * (b - B)| ≤ 27 / 2 / 10 ^ 36 + 2.2 * (27 / 2 / 10 ^ 36) := by
      calc |(a - A) - A / B * (b - B)| ≤ |a - A| + |A / B * (b - B)| := abs_sub _ _
        _ = |a - A| + A / B * |b - B| := by rw [abs_mul, abs_of_nonneg hAB0]
        _ ≤ _ := by
            have := abs_nonneg (b - B)
            nlinarith
    calc |(a - A) - A / B * (b - B)| / b ≤ (27 / 2 / 10 ^ 36 + 2.2 * (27 / 2 / 10 ^ 36)) / b :=
          div_le_div_of_nonneg_right num hb0.le
      _ ≤ _ := div_le_div_of_nonneg_left (by positivity) (by norm_num) hb
  have tri := abs_sub_le (bval r) (a / b) (A / B)
  have hnum : ((27 : ℝ) / 2 / 10 ^ 36 + 2.2 * (27 / 2 / 10 ^ 36)) / 0.6499 + (1 / 2 + 1 / 10 ^ 36) / 10 ^ 36
      ≤ 70 / 10 ^ 36 := by norm_num
  linarith

end OsmoVerif.MathM
