/-
C08 (incentives, histories) helpers, part 13: `GetClaimableIncentives` unfolded on a state satisfying the invariant
(`claimableI_spec`): collected = Σ over the accumulators whose uptime the position's age has met, forfeited = Σ over the others,
each accumulator's part determined by the position's record and the growth inside its range after sync.  Core only.
-/
import OsmoVerif.Proofs.CLIncHist12

namespace OsmoVerif.CLIncP
open OsmoVerif.Num OsmoVerif.CL OsmoVerif.CLPool OsmoVerif.CLFees OsmoVerif.CLInc OsmoVerif.CLFeesP OsmoVerif.CLBook
open OsmoVerif.Accum (amt sorted hev)
open OsmoVerif.Gen

theorem claim_split {f : Fees} {i i2 : Inc} {pos : Position} {coll forf : Coins} {byUp : List Coins}
    (hf : FullInv f) (hp : IncPart f i) (hmem : pos ∈ f.pool.positions)
    (hclaim : claimAll i f.pool.tick pos.lower pos.upper pos.id = some (i2, coll, forf, byUp)) :
    ∃ T, joinOf i pos.id = some T ∧ 0 ≤ i.now - T ∧
      (∀ d, amt coll d = sumN six (fun j => if i.now - T < upAt j then 0 else claimPart i f.pool.tick pos.lower pos.upper pos.id j d) ∧
        amt forf d = sumN six (fun j => if i.now - T < upAt j then claimPart i f.pool.tick pos.lower pos.upper pos.id j d else 0)) ∧
      ∀ k, k < 6 → CChain i i2 pos f.pool.tick T byUp k := by
  obtain ⟨_, T, hj, hage, hloop, _, chain⟩ := claimI_stage hf hp hmem hclaim
  refine ⟨T, hj, hage, fun d => ?_, chain⟩
  obtain ⟨s1, s2⟩ := claimLoop_sum d _ _ _ _ _ _ _ hloop
  -- the outside list has length six
  obtain ⟨sl, su⟩ := hp.stored pos hmem
  obtain ⟨tl, htl⟩ := Option.isSome_iff_exists.mp sl
  obtain ⟨tu, htu⟩ := Option.isSome_iff_exists.mp su
  have houts : ∃ outs, outsideAll i f.pool.tick pos.lower pos.upper = some outs := by
    unfold claimAll at hclaim
    simp only [Option.bind_eq_some_iff] at hclaim
    obtain ⟨_, _, h⟩ := hclaim
    split at h
    · cases h
    · simp only [Option.bind_eq_some_iff] at h
      obtain ⟨outs, ho, _⟩ := h
      exact ⟨outs, ho⟩
  obtain ⟨outs, ho⟩ := houts
  obtain ⟨lo, _, _, _⟩ := outsideAll_spec (hf.pool.core.pos.range pos hmem) htl htu ho
  have hrec : ∀ a ∈ i.accs, (getURec a.recs pos.id).isSome := by
    intro a ha
    obtain ⟨r, hr, _⟩ := (hp.accs a ha).recs pos hmem
    rw [hr]; rfl
  obtain ⟨c1, c2⟩ := collSum_six (factor := i.factor) (age := i.now - T) (id := pos.id) d hp.len (by rw [lo, hp.len]) hrec
  rw [ho] at s1 s2
  simp only [Option.getD_some] at s1 s2
  rw [s1, s2, c1, c2]
  unfold claimPart accAt
  rw [ho]
  exact ⟨rfl, rfl⟩

/-- `GetClaimableIncentives` on a state satisfying the invariant. -/
theorem claimableI_spec {s : Full} {id : Nat} {coll forf : Coins} (hi : IncInv s)
    (h : claimableIncentives s id = some (coll, forf)) :
    ∃ (pos : Position) (i1 i2 : Inc) (byUp : List Coins) (T : Int),
      pos ∈ s.fees.pool.positions ∧ pos.id = id ∧ sync s.inc s.fees.pool.liquidity = some i1 ∧ IncPart s.fees i1 ∧
      claimAll i1 s.fees.pool.tick pos.lower pos.upper id = some (i2, coll, forf, byUp) ∧
      joinOf s.inc id = some T ∧ 0 ≤ s.inc.now - T ∧ i1.now = s.inc.now ∧
      (∀ d, amt coll d = sumN six (fun j => if s.inc.now - T < upAt j then 0 else claimPart i1 s.fees.pool.tick pos.lower pos.upper id j d) ∧
        amt forf d = sumN six (fun j => if s.inc.now - T < upAt j then claimPart i1 s.fees.pool.tick pos.lower pos.upper id j d else 0)) ∧
      ∀ k, k < 6 → CChain i1 i2 pos s.fees.pool.tick T byUp k := by
  unfold claimableIncentives at h
  simp only [Option.bind_eq_some_iff, Option.map_eq_some_iff, Prod.mk.injEq] at h
  obtain ⟨pos, hfind, i1, hsync, ⟨i2, c, f, byUp⟩, hclaim, e1, e2⟩ := h
  simp only at e1 e2
  subst e1; subst e2
  obtain ⟨hmem, hid⟩ := find_id hfind
  obtain ⟨hp1, _, n1, _, j1, _⟩ := sync_part hi.inc hsync
  have hclaim' := hclaim
  rw [← hid] at hclaim'
  obtain ⟨T, hj, hage, hsplit, chain⟩ := claim_split hi.fees hp1 hmem hclaim'
  have hj' : joinOf s.inc id = some T := by rw [← hid, ← hj]; unfold joinOf; rw [j1]
  rw [n1] at hage hsplit
  rw [hid] at hsplit
  exact ⟨pos, i1, i2, byUp, T, hmem, hid, hsync, hp1, hclaim, hj', hage, n1, hsplit, chain⟩

/-- a claim on a synced state where, in every accumulator, the record of the position is fresh relative to the growth
inside now (nothing unclaimed, snapshot = growth inside): nothing at all is claimed. -/
theorem claim_nothing {f : Fees} {i i2 : Inc} {pos : Position} {coll forf : Coins} {byUp : List Coins}
    (hf : FullInv f) (hp : IncPart f i) (hmem : pos ∈ f.pool.positions)
    (hfresh : ∀ k, k < 6 → ∃ r, getURec (accAt i k).recs pos.id = some r ∧
      ∀ d, amt r.unclaimed d = 0 ∧ amt r.snap d = insU i f.pool.tick k d pos.lower pos.upper)
    (hclaim : claimAll i f.pool.tick pos.lower pos.upper pos.id = some (i2, coll, forf, byUp)) :
    coll = [] ∧ forf = [] := by
  obtain ⟨_, T, hj, hage, hloop, _, chain⟩ := claimI_stage hf hp hmem hclaim
  obtain ⟨sl, su⟩ := hp.stored pos hmem
  obtain ⟨tl, htl⟩ := Option.isSome_iff_exists.mp sl
  obtain ⟨tu, htu⟩ := Option.isSome_iff_exists.mp su
  have houts : ∃ outs, outsideAll i f.pool.tick pos.lower pos.upper = some outs := by
    unfold claimAll at hclaim
    simp only [Option.bind_eq_some_iff] at hclaim
    obtain ⟨_, _, h⟩ := hclaim
    split at h
    · cases h
    · simp only [Option.bind_eq_some_iff] at h
      obtain ⟨outs, ho, _⟩ := h
      exact ⟨outs, ho⟩
  obtain ⟨outs, ho⟩ := houts
  obtain ⟨lo, _, _, _⟩ := outsideAll_spec (hf.pool.core.pos.range pos hmem) htl htu ho
  rw [ho] at hloop
  simp only [Option.getD_some] at hloop
  refine claimLoop_nil _ _ _ _ _ _ _ hloop (allEmpty_six hp.len (by rw [lo, hp.len]) (fun k hk a o ha ho' => ?_))
  obtain ⟨_, _, _, _, hget⟩ := claimLoop_get hloop
  obtain ⟨a', o2, up, scaled, down, _, h2, _, h4, _, _⟩ := hget k a ha
  rw [ho'] at h2; injection h2 with h2; subst h2
  obtain ⟨⟨a1, a2, r, total, ins, scaled', down', up', ha1, _, hr, _, _, htot, _, _, _⟩⟩ := chain k hk
  rw [ha] at ha1; injection ha1 with ha1; subst ha1
  obtain ⟨r', hr', hz⟩ := hfresh k hk
  rw [accAt_of ha, hr] at hr'; injection hr' with hr'; subst hr'
  -- the scaled coins of this accumulator: all amounts zero, hence the empty list
  have hsc : scaled = [] := by
    apply nil_of_amt_zero (claimOne_coins_pos h4)
    intro d
    -- identify `scaled` with the chain's
    have hcl : claimOne a pos.id o = some (a', scaled) := h4
    obtain ⟨snap1, total2, dust, hs1, htot2, htr, _⟩ := claimOne_some hr hcl
    -- use the amount equations of the chain through `claimOne_eff` again
    have ok := hp.accs a (mem_of_getElem? ha)
    obtain ⟨ss, su'⟩ := ok.sortedR pos.id r hr
    obtain ⟨o', ho2, hso, hamt⟩ := outsideAll_sorted (hf.pool.core.pos.range pos hmem) hp.sortedInc htl htu ho k a ha
    rw [ho'] at ho2; injection ho2 with ho2; subst ho2
    have hsh : r.shares ≠ 0 := by
      obtain ⟨r0, hr0, e⟩ := ok.recs pos hmem
      rw [hr] at hr0; injection hr0 with hr0; subst hr0
      have := hf.pool.core.pos.liqPos pos hmem; omega
    obtain ⟨total3, ins3, _, _, _, _, _, _, c7⟩ := claimOne_eff hr hsh ok.sortedV ss su' hso hamt hcl
    obtain ⟨t1, _, t3, _⟩ := c7 d
    rw [t3, t1, (hz d).1, (hz d).2, Int.sub_self, Accum.hev_zero]
    decide
  exact ⟨a', by rw [h4, hsc]⟩

end OsmoVerif.CLIncP
