/- C11, refresh at an exchange rate ≠ 1: the WHOLE refresh loop (`refreshAllS`, any account order) — what the refreshes
of the validator's other accounts do to an account's stake, and the bound after the loop: ½ + 10⁻¹⁸ + one token per
force-undelegation on the validator + one "tokens per raw share" per account. -/
import OsmoVerif.Proofs.SuperfluidRefreshOne

namespace OsmoVerif.Superfluid
open OsmoVerif.Num OsmoVerif.Spec

/-! ## the trace of a refresh loop (computable: used with `decide` on concrete states) -/

/-- the states the refresh loop goes through (the start state first). -/
def refreshStates : SState → List (AccKey × Nat) → List SState
  | s, [] => [s]
  | s, (k, _) :: r =>
    s :: (match refreshOneS s k with
          | .ok s1 => refreshStates s1 r
          | .error _ => [])

/-- validator `v` is healthy in state `st`: it has tokens and shares, at most `p/q` tokens per RAW share
(`p/q = 10⁻¹⁸` is exchange rate one), and minting up to `m` tokens stays inside the 256-bit ranges. -/
def healthyB (p q m : Int) (v : Nat) (st : SState) : Bool :=
  decide (0 < (st.k.val v).tokens ∧ 0 < (st.k.val v).shares ∧ (st.k.val v).tokens * q ≤ p * (st.k.val v).shares ∧
    (st.k.val v).shares * (m + 1) ≤ decUpper ∧ (st.k.val v).tokens + m < powLimit)

/-- 1 if account `k` of validator `v` lost shares between `s` and `s1` (a force-undelegation), else 0. -/
def lostShares (v : Nat) (s s1 : SState) (k : AccKey) : Nat :=
  if k.2 = v ∧ shOf s1.k k < shOf s.k k then 1 else 0

/-- the number of accounts of validator `v` whose delegation lost shares in the refresh loop (the engine's oracle counts
the same: "accounts of this validator burnt from in this refresh"). -/
def burnCount (v : Nat) : SState → List (AccKey × Nat) → Nat
  | _, [] => 0
  | s, (k, _) :: r =>
    match refreshOneS s k with
    | .ok s1 => lostShares v s s1 k + burnCount v s1 r
    | .error _ => 0

structure Healthy (p q m : Int) (v : Nat) (st : SState) : Prop where
  T : 0 < (st.k.val v).tokens
  S : 0 < (st.k.val v).shares
  rate : (st.k.val v).tokens * q ≤ p * (st.k.val v).shares
  rS : (st.k.val v).shares * (m + 1) ≤ decUpper
  rT : (st.k.val v).tokens + m < powLimit

theorem healthy_of_B {p q m : Int} {v : Nat} {st : SState} (h : healthyB p q m v st = true) : Healthy p q m v st := by
  unfold healthyB at h
  obtain ⟨a, b, c, d, e⟩ := of_decide_eq_true h
  exact ⟨a, b, c, d, e⟩

theorem Healthy.rateQ_le {p q m : Int} {v : Nat} {st : SState} (h : Healthy p q m v st) (hq : 0 < q) :
    0 < rateQ st.k v ∧ rateQ st.k v ≤ (p : ℚ) / q := by
  have hSq : (0 : ℚ) < ((st.k.val v).shares : ℚ) := by exact_mod_cast h.S
  have hTq : (0 : ℚ) < ((st.k.val v).tokens : ℚ) := by exact_mod_cast h.T
  have hqq : (0 : ℚ) < (q : ℚ) := by exact_mod_cast hq
  have c : (((st.k.val v).tokens * q : Int) : ℚ) ≤ ((p * (st.k.val v).shares : Int) : ℚ) := by exact_mod_cast h.rate
  push_cast at c
  unfold rateQ
  refine ⟨div_pos hTq hSq, ?_⟩
  rw [div_le_div_iff₀ hSq hqq]
  exact c

theorem Healthy.mono {p q m m' : Int} {v : Nat} {st : SState} (h : Healthy p q m v st) (_h0 : 0 ≤ m') (hm : m' ≤ m) :
    Healthy p q m' v st := by
  refine ⟨h.T, h.S, h.rate, ?_, by have := h.rT; omega⟩
  have : (st.k.val v).shares * (m' + 1) ≤ (st.k.val v).shares * (m + 1) :=
    Int.mul_le_mul_of_nonneg_left (by omega) (Int.le_of_lt h.S)
  have := h.rS
  omega

/-! ## splitting the loop -/

theorem refreshAllS_cons {s s' : SState} {k : AccKey} {g : Nat} {r : List (AccKey × Nat)}
    (hc : refreshAllS s ((k, g) :: r) = .ok s') : ∃ s1, refreshOneS s k = .ok s1 ∧ refreshAllS s1 r = .ok s' := by
  unfold refreshAllS at hc
  split at hc
  · cases hc
  · rename_i s1 h1; exact ⟨s1, h1, hc⟩

theorem burnCount_cons {v : Nat} {s s1 : SState} {k : AccKey} {g : Nat} {r : List (AccKey × Nat)}
    (h1 : refreshOneS s k = .ok s1) : burnCount v s ((k, g) :: r) = lostShares v s s1 k + burnCount v s1 r := by
  conv_lhs => unfold burnCount
  rw [h1]

theorem refreshStates_cons {s s1 : SState} {k : AccKey} {g : Nat} {r : List (AccKey × Nat)}
    (h1 : refreshOneS s k = .ok s1) : refreshStates s ((k, g) :: r) = s :: refreshStates s1 r := by
  conv_lhs => unfold refreshStates
  rw [h1]

theorem refreshAllS_append : ∀ (l1 l2 : List (AccKey × Nat)) (s s' : SState), refreshAllS s (l1 ++ l2) = .ok s' →
    ∃ sm, refreshAllS s l1 = .ok sm ∧ refreshAllS sm l2 = .ok s'
  | [], l2, s, s', hc => ⟨s, rfl, hc⟩
  | (k, g) :: r, l2, s, s', hc => by
    obtain ⟨s1, h1, h2⟩ := refreshAllS_cons (r := r ++ l2) hc
    obtain ⟨sm, h3, h4⟩ := refreshAllS_append r l2 s1 s' h2
    refine ⟨sm, ?_, h4⟩
    unfold refreshAllS
    rw [h1]
    exact h3

theorem refreshStates_self (s : SState) (l : List (AccKey × Nat)) : s ∈ refreshStates s l := by
  cases l with
  | nil => simp [refreshStates]
  | cons x r => obtain ⟨k, g⟩ := x; simp [refreshStates]

theorem refreshStates_append : ∀ (l1 l2 : List (AccKey × Nat)) (s sm : SState), refreshAllS s l1 = .ok sm →
    ∀ st, st ∈ refreshStates sm l2 → st ∈ refreshStates s (l1 ++ l2)
  | [], l2, s, sm, hc, st, hst => by
    unfold refreshAllS at hc; injection hc with hc; subst hc; exact hst
  | (k, g) :: r, l2, s, sm, hc, st, hst => by
    obtain ⟨s1, h1, h2⟩ := refreshAllS_cons hc
    show st ∈ refreshStates s ((k, g) :: (r ++ l2))
    rw [refreshStates_cons h1]
    exact List.mem_cons_of_mem _ (refreshStates_append r l2 s1 sm h2 st hst)

theorem refreshStates_prefix : ∀ (l1 l2 : List (AccKey × Nat)) (s : SState),
    ∀ st, st ∈ refreshStates s l1 → st ∈ refreshStates s (l1 ++ l2)
  | [], l2, s, st, hst => by
    simp only [refreshStates, List.mem_singleton] at hst
    subst hst
    exact refreshStates_self _ _
  | (k, g) :: r, l2, s, st, hst => by
    show st ∈ refreshStates s ((k, g) :: (r ++ l2))
    unfold refreshStates at hst ⊢
    rcases List.mem_cons.mp hst with h | h
    · exact List.mem_cons.mpr (Or.inl h)
    · refine List.mem_cons_of_mem _ ?_
      cases h1 : refreshOneS s k with
      | error e => rw [h1] at h; cases h
      | ok s1 =>
        rw [h1] at h
        exact refreshStates_prefix r l2 s1 st h

theorem burnCount_append (v : Nat) : ∀ (l1 l2 : List (AccKey × Nat)) (s sm : SState), refreshAllS s l1 = .ok sm →
    burnCount v s (l1 ++ l2) = burnCount v s l1 + burnCount v sm l2
  | [], l2, s, sm, hc => by
    unfold refreshAllS at hc; injection hc with hc; subst hc
    simp [burnCount]
  | (k, g) :: r, l2, s, sm, hc => by
    obtain ⟨s1, h1, h2⟩ := refreshAllS_cons hc
    show burnCount v s ((k, g) :: (r ++ l2)) = burnCount v s ((k, g) :: r) + _
    rw [burnCount_cons h1, burnCount_cons h1, burnCount_append v r l2 s1 sm h2]
    omega

theorem refreshAllS_expected {s s' : SState} {l : List (AccKey × Nat)} (hc : refreshAllS s l = .ok s') (k : AccKey) :
    expectedDelegation s'.b k = expectedDelegation s.b k ∧ s'.b.validators = s.b.validators := by
  have hb := refreshAllS_bank l s s' hc
  obtain ⟨_, f2, f3, f4, f5, _, _⟩ := hb.fields
  exact ⟨expectedDelegation_congr f3 f4 f5 hb.same.ub f2, hb.same.vals⟩

/-! ## the refresh of ANOTHER account -/

theorem stakeQ_frame {k k' : Stk} {key : AccKey} (h1 : shOf k' key = shOf k key) (h2 : k'.val key.2 = k.val key.2) :
    stakeQ k' key = stakeQ k key := by
  unfold stakeQ; rw [h1, h2]

/-- **one iteration for account `k'` seen by another account `k`**: `k`'s shares stay; its stake moves only if `k'` is on
the same validator — up by less than the validator's tokens per raw share when `k'` is topped up (the issued shares are
floored), and between `−½·10⁻¹⁸` and `+1` token when `k'` is force-undelegated (the truncated payout leaves up to one
token with the validator; `k` gets its fraction of it). -/
theorem refreshOneS_other {s s' : SState} {k k' : AccKey} {p q m : Int} (hne : k' ≠ k) (hI : ShareInvV s.k k.2)
    (hq : 0 < q) (hH : Healthy p q m k.2 s) (hc : refreshOneS s k' = .ok s') :
    ShareInvV s'.k k.2 ∧ shOf s'.k k = shOf s.k k ∧
    stakeQ s.k k - (lostShares k.2 s s' k' : ℚ) * (uQ / 2) ≤ stakeQ s'.k k ∧
    stakeQ s'.k k ≤ stakeQ s.k k + (p : ℚ) / q + (lostShares k.2 s s' k' : ℚ) := by
  obtain ⟨hr0, hr1⟩ := hH.rateQ_le hq
  have hu := uQ_pos
  have hρ : (0 : ℚ) < (p : ℚ) / q := lt_of_lt_of_le hr0 hr1
  have hL0 : (0 : ℚ) ≤ (lostShares k.2 s s' k' : ℚ) := by exact_mod_cast Nat.zero_le _
  -- nothing changed
  have same : s' = s → ShareInvV s'.k k.2 ∧ shOf s'.k k = shOf s.k k ∧
      stakeQ s.k k - (lostShares k.2 s s' k' : ℚ) * (uQ / 2) ≤ stakeQ s'.k k ∧
      stakeQ s'.k k ≤ stakeQ s.k k + (p : ℚ) / q + (lostShares k.2 s s' k' : ℚ) := by
    intro h
    subst h
    have : 0 ≤ (lostShares k.2 s' s' k' : ℚ) * (uQ / 2) := by positivity
    exact ⟨hI, rfl, by linarith, by linarith⟩
  -- a change at another validator
  have other : k'.2 ≠ k.2 → (∀ x, x ≠ k' → s'.k.dsh x = s.k.dsh x) → (∀ j, j ≠ k'.2 → s'.k.val j = s.k.val j) →
      ShareInvV s'.k k.2 ∧ shOf s'.k k = shOf s.k k ∧
      stakeQ s.k k - (lostShares k.2 s s' k' : ℚ) * (uQ / 2) ≤ stakeQ s'.k k ∧
      stakeQ s'.k k ≤ stakeQ s.k k + (p : ℚ) / q + (lostShares k.2 s s' k' : ℚ) := by
    intro hv f1 f2
    have e1 : shOf s'.k k = shOf s.k k := shOf_frame f1 k (fun h => hne h.symm)
    have e2 : s'.k.val k.2 = s.k.val k.2 := f2 k.2 (fun h => hv h.symm)
    have : 0 ≤ (lostShares k.2 s s' k' : ℚ) * (uQ / 2) := by positivity
    rw [stakeQ_frame e1 e2]
    exact ⟨hI.frame hv (shOf_frame f1) f2, e1, by linarith, by linarith⟩
  by_cases hv : k'.2 ∈ s.b.validators
  · obtain ⟨cur, e, hcur, he⟩ := refreshOneS_reads hv hc
    rcases refreshOneS_cases hv hcur he hc with ⟨_, hs'⟩ | ⟨_, hm⟩ | ⟨_, hb⟩
    · exact same hs'
    · rcases hm with hm | ⟨hs', _⟩
      · obtain ⟨f1, f2⟩ := mintS_frame hm
        by_cases hsame : k'.2 = k.2
        · have hT : 0 < (s.k.val k'.2).tokens := by rw [hsame]; exact hH.T
          have hS : 0 < (s.k.val k'.2).shares := by rw [hsame]; exact hH.S
          have hdS : shOf s.k k ≤ (s.k.val k'.2).shares := by rw [hsame]; exact hI.le
          obtain ⟨m1, m2⟩ := mintS_stakeQ_other (fun h => hne h.symm) hsame.symm hT hS (hI.1 k rfl) hdS hm
          obtain ⟨i, _, _, hi, _, _, hd', _⟩ := mintS_effect hT hS hm
          have hL : lostShares k.2 s s' k' = 0 := by
            unfold lostShares; rw [if_neg]; rw [shOf_of_some hd']; omega
          rw [hL]
          rw [hsame] at m2
          refine ⟨?_, shOf_frame f1 k (fun h => hne h.symm), by simp; linarith, by simp; linarith⟩
          have := shareInvV_mintS (v := k.2) hI (fun _ => ⟨hT, hS⟩) hm
          exact this
        · exact other hsame f1 f2
      · exact same hs'
    · rcases hb with hb | ⟨hs', _⟩
      · obtain ⟨f1, f2⟩ := burnS_frame hb
        by_cases hsame : k'.2 = k.2
        · have hT : 0 < (s.k.val k'.2).tokens := by rw [hsame]; exact hH.T
          have hS : 0 < (s.k.val k'.2).shares := by rw [hsame]; exact hH.S
          cases hd : s.k.dsh k' with
          | none =>
            rcases (burnS_ok hb).2 with ⟨_, hs'⟩ | ⟨d0, _, _, _, _, hd0, _⟩
            · exact same hs'
            · rw [hd] at hd0; cases hd0
          | some d =>
            have hsum : shOf s.k k + d ≤ (s.k.val k'.2).shares := by
              have := hI.le2 (k1 := k') (k2 := k) hne hsame
              rw [shOf_of_some hd] at this
              rw [hsame]; omega
            obtain ⟨b1, b2, b3, b4⟩ := burnS_stakeQ_other (fun h => hne h.symm) hsame.symm hT hS hd (hI.1 k rfl) hsum hb
            obtain ⟨sh, _, _, _, hsh0, _, _, hdd, _, _⟩ := burnS_effect hT hS hd hb
            have c3 : shOf s'.k k' ≤ shOf s.k k' := by rw [shOf_ite hdd, shOf_of_some hd]; omega
            refine ⟨shareInvV_burnS (v := k.2) hI (fun _ => ⟨hT, hS⟩) hb, shOf_frame f1 k (fun h => hne h.symm), ?_, ?_⟩
            · by_cases hlt : shOf s'.k k' < shOf s.k k'
              · have hL : lostShares k.2 s s' k' = 1 := by unfold lostShares; rw [if_pos ⟨hsame, hlt⟩]
                rw [hL]; simp; linarith
              · have hL : lostShares k.2 s s' k' = 0 := by
                  unfold lostShares; rw [if_neg]; intro hh; exact hlt hh.2
                rw [hL, b4 (by omega)]; simp
            · by_cases hlt : shOf s'.k k' < shOf s.k k'
              · have hL : lostShares k.2 s s' k' = 1 := by unfold lostShares; rw [if_pos ⟨hsame, hlt⟩]
                rw [hL]; simp; linarith
              · have hL : lostShares k.2 s s' k' = 0 := by
                  unfold lostShares; rw [if_neg]; intro hh; exact hlt hh.2
                rw [hL, b4 (by omega)]; simp; linarith
        · exact other hsame f1 f2
      · exact same hs'
  · have : s' = s := by
      unfold refreshOneS at hc
      rw [if_pos (by simpa using hv)] at hc
      injection hc with hc; exact hc.symm
    exact same this

/-- **the refreshes of all the OTHER accounts** (`k` is not in the list): `k`'s shares stay, its stake creeps up by less
than `p/q` tokens per account and by at most one token per force-undelegation on its validator (down by at most
½·10⁻¹⁸ per force-undelegation). -/
theorem refreshAllS_others {k : AccKey} {p q m : Int} (hq : 0 < q) :
    ∀ (l : List (AccKey × Nat)) (s s' : SState), refreshAllS s l = .ok s' → k ∉ l.map Prod.fst → ShareInvV s.k k.2 →
      (∀ st, st ∈ refreshStates s l → Healthy p q m k.2 st) →
      ShareInvV s'.k k.2 ∧ shOf s'.k k = shOf s.k k ∧
      stakeQ s.k k - (burnCount k.2 s l : ℚ) * (uQ / 2) ≤ stakeQ s'.k k ∧
      stakeQ s'.k k ≤ stakeQ s.k k + (l.length : ℚ) * ((p : ℚ) / q) + (burnCount k.2 s l : ℚ)
  | [], s, s', hc, _, hI, _ => by
    unfold refreshAllS at hc; injection hc with hc; subst hc
    simp [burnCount, hI]
  | (k', g) :: r, s, s', hc, hnot, hI, hH => by
    obtain ⟨s1, h1, h2⟩ := refreshAllS_cons hc
    have hne : k' ≠ k := by
      intro h; apply hnot; simp [h]
    have hnot' : k ∉ r.map Prod.fst := by
      intro h; apply hnot; simp only [List.map_cons, List.mem_cons]; exact Or.inr h
    obtain ⟨i1, e1, a1, a2⟩ := refreshOneS_other hne hI hq (hH s (refreshStates_self _ _)) h1
    have hH' : ∀ st, st ∈ refreshStates s1 r → Healthy p q m k.2 st := by
      intro st hst
      apply hH
      rw [refreshStates_cons h1]
      exact List.mem_cons_of_mem _ hst
    obtain ⟨i2, e2, b1, b2⟩ := refreshAllS_others hq r s1 s' h2 hnot' i1 hH'
    have hbc : burnCount k.2 s ((k', g) :: r) = lostShares k.2 s s1 k' + burnCount k.2 s1 r := burnCount_cons h1
    refine ⟨i2, e2.trans e1, ?_, ?_⟩
    · rw [hbc]; push_cast; linarith
    · rw [hbc]; push_cast
      simp only [List.length_cons]
      push_cast
      linarith

/-! ## the whole loop -/

/-- **THE REFRESH LOOP, any exchange rate, any account order.**  Account `k` (listed once) on a validator that stays
healthy through the loop (tokens, shares, at most `p/q` tokens per raw share, ranges), the share invariant at the start,
expected amount `0 ≤ e ≤ m`.  After the loop EITHER `k`'s force-undelegation was rejected at its turn (then `e = 0` and at
least `½ − ½·10⁻¹⁸·(1 + N)` tokens stay staked) OR
`−(½ + 10⁻¹⁸) − p/q − N·½·10⁻¹⁸ < stake − e < ½ + 10⁻¹⁸ + n·p/q + N`,
`N` = the number of accounts of the validator that lost shares in this loop, `n` = the number of accounts refreshed. -/
theorem refreshAllS_bound {s s' : SState} {order : List (AccKey × Nat)} {k : AccKey} {g : Nat} {e p q m : Int}
    (hnd : (order.map Prod.fst).Nodup) (hk : (k, g) ∈ order) (hv : k.2 ∈ s.b.validators)
    (hI : ShareInvV s.k k.2) (hq : 0 < q)
    (hH : ∀ st, st ∈ refreshStates s order → Healthy p q m k.2 st)
    (he : expectedDelegation s.b k = .ok e) (he0 : 0 ≤ e) (hem : e ≤ m)
    (hc : refreshAllS s order = .ok s') :
    (e = 0 ∧ (∃ sj, sj ∈ refreshStates s order ∧ BurnRejected sj k e) ∧
      1 / 2 - uQ / 2 - (burnCount k.2 s order : ℚ) * (uQ / 2) ≤ stakeQ s'.k k) ∨
    (-(1 / 2 + uQ) - (p : ℚ) / q - (burnCount k.2 s order : ℚ) * (uQ / 2) < stakeQ s'.k k - e ∧
      stakeQ s'.k k - e < 1 / 2 + uQ + (order.length : ℚ) * ((p : ℚ) / q) + (burnCount k.2 s order : ℚ)) := by
  obtain ⟨pre, post, hsplit⟩ := List.append_of_mem hk
  subst hsplit
  have hnd' : ((pre.map Prod.fst) ++ k :: post.map Prod.fst).Nodup := by simpa using hnd
  have hnpre : k ∉ pre.map Prod.fst := by
    intro h
    have := (List.nodup_append.mp hnd').2.2 k h k (List.mem_cons_self ..)
    exact this rfl
  have hnpost : k ∉ post.map Prod.fst := (List.nodup_cons.mp (List.nodup_append.mp hnd').2.1).1
  obtain ⟨sj, hpre, hrest⟩ := refreshAllS_append pre ((k, g) :: post) s s' hc
  obtain ⟨s1, hown, hpost⟩ := refreshAllS_cons hrest
  have hu := uQ_pos
  -- the part before k's turn
  have hHpre : ∀ st, st ∈ refreshStates s pre → Healthy p q m k.2 st :=
    fun st hst => hH st (refreshStates_prefix pre _ s st hst)
  obtain ⟨Ij, _, _, _⟩ := refreshAllS_others hq pre s sj hpre hnpre hI hHpre
  have hHj : ∀ st, st ∈ refreshStates sj ((k, g) :: post) → Healthy p q m k.2 st :=
    fun st hst => hH st (refreshStates_append pre _ s sj hpre st hst)
  have hj := hHj sj (refreshStates_self _ _)
  obtain ⟨hexp, hvals⟩ := refreshAllS_expected hpre k
  have hje := hj.mono he0 hem
  -- k's own turn
  have hown' := refreshOneS_bound (s := sj) (s' := s1) (key := k) (e := e) (by rw [hvals]; exact hv) hj.T hj.S
    (Ij.1 k rfl) Ij.le hje.rS hje.rT (by rw [hexp]; exact he) he0 hown
  -- the part after k's turn
  have hH1 : ∀ st, st ∈ refreshStates s1 post → Healthy p q m k.2 st := by
    intro st hst
    apply hHj
    rw [refreshStates_cons hown]
    exact List.mem_cons_of_mem _ hst
  have hbc : burnCount k.2 s (pre ++ (k, g) :: post) =
      burnCount k.2 s pre + (lostShares k.2 sj s1 k + burnCount k.2 s1 post) := by
    rw [burnCount_append k.2 pre _ s sj hpre, burnCount_cons hown]
  have hb0 : (0 : ℚ) ≤ (burnCount k.2 s pre : ℚ) := by exact_mod_cast Nat.zero_le _
  have hl0 : (0 : ℚ) ≤ (lostShares k.2 sj s1 k : ℚ) := by exact_mod_cast Nat.zero_le _
  obtain ⟨hr0, hr1⟩ := hj.rateQ_le hq
  have hlen : ((pre ++ (k, g) :: post).length : ℚ) = (pre.length : ℚ) + 1 + (post.length : ℚ) := by
    simp only [List.length_append, List.length_cons]; push_cast; ring
  have hpl : (0 : ℚ) ≤ (pre.length : ℚ) * ((p : ℚ) / q) := by
    have : (0 : ℚ) ≤ (pre.length : ℚ) := by exact_mod_cast Nat.zero_le _
    have : (0 : ℚ) ≤ (p : ℚ) / q := le_trans hr0.le hr1
    positivity
  rcases hown' with ⟨hrej, hs1, hez, cur, hcur, hc1, hlo, _⟩ | ⟨_, hlo, hhi⟩
  · -- rejected at its turn: the stake stays (and only moves with the other accounts' refreshes)
    rw [hs1] at hpost hH1 hbc
    have I1 : ShareInvV sj.k k.2 := Ij
    obtain ⟨_, _, c1, _⟩ := refreshAllS_others hq post sj s' hpost hnpost I1 hH1
    refine Or.inl ⟨hez, ⟨sj, refreshStates_append pre _ s sj hpre sj (refreshStates_self _ _), hrej⟩, ?_⟩
    rw [hbc]
    push_cast
    have hc1q : (1 : ℚ) ≤ (cur : ℚ) := by exact_mod_cast hc1
    have : 0 ≤ (burnCount k.2 s pre : ℚ) * (uQ / 2) := by positivity
    have : 0 ≤ (lostShares k.2 sj sj k : ℚ) * (uQ / 2) := by positivity
    linarith
  · have I1 : ShareInvV s1.k k.2 := by
      -- the own step keeps the invariant
      have hvj : k.2 ∈ sj.b.validators := by rw [hvals]; exact hv
      obtain ⟨cur, e', hcur, he'⟩ := refreshOneS_reads hvj hown
      rcases refreshOneS_cases hvj hcur he' hown with ⟨_, hs'⟩ | ⟨_, hm⟩ | ⟨_, hb⟩
      · rw [hs']; exact Ij
      · rcases hm with hm | ⟨hs', _⟩
        · exact shareInvV_mintS Ij (fun _ => ⟨hj.T, hj.S⟩) hm
        · rw [hs']; exact Ij
      · rcases hb with hb | ⟨hs', _⟩
        · exact shareInvV_burnS Ij (fun _ => ⟨hj.T, hj.S⟩) hb
        · rw [hs']; exact Ij
    obtain ⟨_, esh, c1, c2⟩ := refreshAllS_others hq post s1 s' hpost hnpost I1 hH1
    -- the own leak is at most the own `lostShares`
    have hleak : (if shOf s1.k k < shOf sj.k k then fracQ s1.k k else 0) ≤ (lostShares k.2 sj s1 k : ℚ) := by
      by_cases hlt : shOf s1.k k < shOf sj.k k
      · rw [if_pos hlt]
        have : lostShares k.2 sj s1 k = 1 := by unfold lostShares; rw [if_pos ⟨rfl, hlt⟩]
        rw [this]
        have := (fracQ_bounds (I1.1 k rfl) I1.le).2
        simpa using this
      · rw [if_neg hlt]; exact hl0
    refine Or.inr ⟨?_, ?_⟩
    · rw [hbc]; push_cast
      have : 0 ≤ (burnCount k.2 s pre : ℚ) * (uQ / 2) := by positivity
      have : 0 ≤ (lostShares k.2 sj s1 k : ℚ) * (uQ / 2) := by positivity
      linarith
    · rw [hbc, hlen]; push_cast
      linarith


/-! ## the epoch entry points -/

/-- `epochOS` / `epochS` with a full multiplier update run the refresh loop from the state with the new multipliers. -/
theorem epochOS_refresh {s s' : SState} {ups : List (Nat × Int × Int × Bool)} {order : List AccKey} {b1 : State}
    (hc : epochOS s ups order = .ok s') (h1 : updateMults s.b ups = .ok (b1, true)) :
    refreshAllS { s with b := b1 } (order.map fun k => (k, 0)) = .ok s' := by
  obtain ⟨_, b1', full, h1', _, hf, _⟩ := epochOS_ok hc
  rw [h1] at h1'
  injection h1' with h1'
  injection h1' with e1 e2
  subst e1; subst e2
  exact hf rfl

theorem epochS_refresh {s s' : SState} {ups : List (Nat × Int × Int × Bool)} {b1 : State}
    (hc : epochS s ups = .ok s') (h1 : updateMults s.b ups = .ok (b1, true)) :
    refreshAllS { s with b := b1 } s.b.accs = .ok s' := by
  obtain ⟨b1', full, h1', _, hf, _⟩ := epochS_ok hc
  rw [h1] at h1'
  injection h1' with h1'
  injection h1' with e1 e2
  subst e1; subst e2
  exact hf rfl

/-! ## establishing the share invariant on a concrete state -/

theorem sumSh_erase {k : Stk} {a : AccKey} : ∀ (L : List AccKey), a ∈ L → sumSh k L = shOf k a + sumSh k (L.erase a)
  | [], h => by cases h
  | x :: r, h => by
    by_cases hx : x = a
    · subst hx; simp [sumSh]
    · have hr : a ∈ r := by
        rcases List.mem_cons.mp h with h | h
        · exact absurd h.symm hx
        · exact h
      rw [List.erase_cons_tail (by simpa using hx)]
      unfold sumSh
      rw [sumSh_erase r hr]
      omega

/-- the delegations outside the list `A` are empty, those in `A` non-negative: every duplicate-free list of accounts
holds at most what `A` holds. -/
theorem sumSh_le_support {k : Stk} : ∀ (A : List AccKey), (∀ x, x ∈ A → 0 ≤ shOf k x) →
    ∀ (L : List AccKey), L.Nodup → (∀ x, x ∈ L → x ∉ A → shOf k x = 0) → sumSh k L ≤ sumSh k A
  | [], _, L, _, h0 => by
    have : ∀ (L : List AccKey), (∀ x, x ∈ L → shOf k x = 0) → sumSh k L = 0 := by
      intro L
      induction L with
      | nil => intro _; rfl
      | cons x r ih =>
        intro h
        unfold sumSh
        rw [h x (List.mem_cons_self ..), ih (fun y hy => h y (List.mem_cons_of_mem _ hy))]
        rfl
    rw [this L (fun x hx => h0 x hx (by simp))]
    exact Int.le_refl _
  | a :: A', hnn, L, hnd, h0 => by
    have hnn' : ∀ x, x ∈ A' → 0 ≤ shOf k x := fun x hx => hnn x (List.mem_cons_of_mem _ hx)
    by_cases ha : a ∈ L
    · rw [sumSh_erase L ha]
      have := sumSh_le_support A' hnn' (L.erase a) (hnd.erase a) (by
        intro x hx hxA
        have hxL : x ∈ L := List.mem_of_mem_erase hx
        have hxa : x ≠ a := by
          intro h; subst h
          exact (List.Nodup.not_mem_erase hnd) hx
        apply h0 x hxL
        intro hc
        rcases List.mem_cons.mp hc with hc | hc
        · exact hxa hc
        · exact hxA hc)
      show _ ≤ shOf k a + sumSh k A'
      omega
    · have := sumSh_le_support A' hnn' L hnd (by
        intro x hx hxA
        apply h0 x hx
        intro hc
        rcases List.mem_cons.mp hc with hc | hc
        · subst hc; exact ha hx
        · exact hxA hc)
      have := hnn a (List.mem_cons_self ..)
      show _ ≤ shOf k a + sumSh k A'
      omega

/-- a checkable sufficient condition for `ShareInvV`: all delegation records are among the accounts `A`, all shares are
non-negative, and `A`'s shares together fit into the validator's. -/
theorem shareInvV_of_support {k : Stk} {v : Nat} (A : List AccKey) (hnn : ∀ x, x ∈ A → 0 ≤ shOf k x)
    (hsupp : ∀ x, x ∉ A → k.dsh x = none) (hsum : sumSh k A ≤ (k.val v).shares) : ShareInvV k v := by
  have h0 : ∀ x, x ∉ A → shOf k x = 0 := by intro x hx; unfold shOf; rw [hsupp x hx]
  constructor
  · intro x _
    by_cases hx : x ∈ A
    · exact hnn x hx
    · rw [h0 x hx]
  · intro L hnd _
    exact Int.le_trans (sumSh_le_support A hnn L hnd (fun x _ hxA => h0 x hxA)) hsum

/-- success of a call as a `Bool` (states contain functions: results are compared through projections). -/
def okS {α : Type} (r : Except Err α) : Bool :=
  match r with
  | .ok _ => true
  | .error _ => false

theorem okS_ok {α : Type} {r : Except Err α} (h : okS r = true) : ∃ x, r = .ok x := by
  cases r with
  | ok x => exact ⟨x, rfl⟩
  | error e => cases h


theorem ok_of_toOption {α : Type} {r : Except Err α} {x : α} (h : r.toOption = some x) : r = .ok x := by
  cases r with
  | ok y => simp [Except.toOption] at h; rw [h]
  | error e => simp [Except.toOption] at h

end OsmoVerif.Superfluid
