/-
C01 helpers, part 5: principal solvency as an invariant of the history model of C07.
`Solv p`: the pool's balances cover the exact principal owed to all positions at the current sqrt price,
`bal0 ≥ V0`, `bal1 ≥ V1`.  Preserved by create (adds ≥ the exact amounts of the new liquidity), withdraw (removes ≤
the exact amounts of the withdrawn liquidity), add-to-position (both), transfer (nothing changes) and swap
(Proofs/CLSolvSwap).  `Good p` bundles it with the C07 invariant, the spread-factor bound and the non-negativity of
the four balances; `Good` holds along every history from a fresh pool.
-/
import OsmoVerif.Proofs.CLSolvSwap

namespace OsmoVerif.CLSolv
open OsmoVerif.CLPool OsmoVerif.CLBook OsmoVerif.CL OsmoVerif.Num OsmoVerif.Tick OsmoVerif.Gen OsmoVerif.Spec
open OsmoVerif.Props

/-- principal solvency. -/
def Solv (p : Pool) : Prop :=
  V0 p.positions p.sqrtPrice ≤ (p.bal0 : ℚ) ∧ V1 p.positions p.sqrtPrice ≤ (p.bal1 : ℚ)

/-- the four bank balances are non-negative. -/
def BalNN (p : Pool) : Prop := 0 ≤ p.bal0 ∧ 0 ≤ p.bal1 ∧ 0 ≤ p.fee0 ∧ 0 ≤ p.fee1

/-! ## small facts -/

theorem vsExact_congr {ge : Bool} {p p' : Pool} {l u L spL spU y0 y1 : Int} (ht : p'.tick = p.tick)
    (hs : p'.sqrtPrice = p.sqrtPrice) (h : VsExact ge p l u L spL spU y0 y1) : VsExact ge p' l u L spL spU y0 y1 := by
  unfold VsExact inRange at *
  rw [ht, hs]; exact h

theorem posPrice_of_agree {p : Pool} {s l u spL spU : Int} (ha : Agree s p.sqrtPrice p.tick)
    (al : l.tmod s = 0) (au : u.tmod s = 0) (hsL : tickToSqrtPrice l = some spL) (hsU : tickToSqrtPrice u = some spU) :
    PosPrice p l u spL spU :=
  ⟨fun h => (ha l spL al hsL).2 h, fun h => ⟨(ha l spL al hsL).1 h.1, (ha u spU au hsU).2 h.2⟩,
    fun h => (ha u spU au hsU).1 h⟩

/-- boundary sqrt prices of a stored position. -/
theorem pos_prices {p : Pool} (hc : InvCore p) {q : Position} (hq : q ∈ p.positions) :
    ∃ sL sU, tickToSqrtPrice q.lower = some sL ∧ tickToSqrtPrice q.upper = some sU ∧ 0 < sL ∧ sL ≤ sU ∧
      q.lower.tmod p.spacing = 0 ∧ q.upper.tmod p.spacing = 0 ∧ 0 < q.liq := by
  have hb := hc.pos.bounds q hq
  have hr := hc.pos.range q hq
  have hal := hc.pos.aligned q hq
  obtain ⟨sL, hL⟩ := tts_total hb.1 (by omega)
  obtain ⟨sU, hU⟩ := tts_total (by omega) hb.2
  exact ⟨sL, sU, hL, hU, tts_pos hL, tts_mono hL hU (by omega), hal.1, hal.2, hc.pos.liqPos q hq⟩

theorem find_of_mem {ps : List Position} (hu : UniqueIds ps) {q : Position} (hq : q ∈ ps) :
    ps.find? (fun x => decide (x.id = q.id)) = some q := by
  induction ps with
  | nil => cases hq
  | cons a as ih =>
    have hu' := List.pairwise_cons.mp hu
    rcases List.mem_cons.mp hq with rfl | hq'
    · simp
    · have hne : a.id ≠ q.id := hu'.1 q hq'
      rw [List.find?_cons_of_neg (by simpa using hne)]
      exact ih hu'.2 hq'

theorem find_append_new {ps : List Position} {id : Nat} (q : Position) (hnew : ∀ x ∈ ps, x.id ≠ id) (hq : q.id = id) :
    (ps ++ [q]).find? (fun x => decide (x.id = id)) = some q := by
  induction ps with
  | nil => simp [hq]
  | cons a as ih =>
    rw [List.cons_append, List.find?_cons_of_neg (by simpa using hnew a List.mem_cons_self)]
    exact ih (fun x hx => hnew x (List.mem_cons_of_mem _ hx))

theorem sumBy_cast (f : Position → Int) (ps : List Position) : ((sumBy f ps : Int) : ℚ) = sumQ (fun q => (f q : ℚ)) ps := by
  induction ps with
  | nil => simp
  | cons q qs ih => simp only [sumBy_cons, sumQ_cons, ← ih]; push_cast; ring

theorem g0_nonneg {P l u sL sU : Int} (hL : tickToSqrtPrice l = some sL) (hU : tickToSqrtPrice u = some sU)
    (h0 : 0 < sL) (hLU : sL ≤ sU) : 0 ≤ g0 P l u := by
  unfold g0; rw [sqrtAt_of hL, sqrtAt_of hU]
  exact x0_nonneg (by positivity) (rp_pos h0) (rp_le hLU)

theorem g1_nonneg {P l u sL sU : Int} (hL : tickToSqrtPrice l = some sL) (hU : tickToSqrtPrice u = some sU)
    (hLU : sL ≤ sU) : 0 ≤ g1 P l u := by
  unfold g1; rw [sqrtAt_of hL, sqrtAt_of hU]
  exact x1_nonneg (by positivity) (rp_le hLU)

theorem posX_eq (q : Position) (P : Int) : posX0 q P = dX0 q.liq q.lower q.upper P ∧ posX1 q P = dX1 q.liq q.lower q.upper P :=
  ⟨rfl, rfl⟩

/-! ## swap -/

theorem totals_init (og : Bool) (rem0 : Int) (pool : PoolSt) (st' : SwapSt) :
    chargeTot ⟨rem0, 0, pool, 0, 0⟩ st' = st'.spreadTotal ∧
    inTot og ⟨rem0, 0, pool, 0, 0⟩ st' = (if og then rem0 - st'.remaining else st'.calculated) - st'.spreadTotal ∧
    outTot og ⟨rem0, 0, pool, 0, 0⟩ st' = (if og then st'.calculated else rem0 - st'.remaining) := by
  unfold inTot outTot chargeTot
  cases og <;> simp

/-- `⌈A + F⌉ − ⌈F⌉ = A` for a whole number `A` of tokens; the truncated amount out is below the exact sum. -/
theorem settle {K C T O ain fee aout : Int} (hK : T - C = K * P18) (hfee : IsCeil C P18 fee) (hain : IsCeil T P18 ain)
    (hO0 : 0 ≤ O) (hout : IsTrunc O P18 aout) : ain - fee = K ∧ aout * P18 ≤ O := by
  have hT : T = K * P18 + C := by omega
  have : IsCeil T P18 (K + fee) := by
    unfold IsCeil at hfee ⊢
    rw [hT, show K + fee - 1 = K + (fee - 1) by omega, Int.add_mul, Int.add_mul]
    omega
  have := hain.unique P18_pos this
  exact ⟨by omega, (trunc_nonneg_le P18_pos hO0 hout).2⟩

theorem swap_solv {p p' : Pool} {og zfo : Bool} {spec ain aout fee : Int} (hc : InvCore p) (hp : InvPrice p)
    (ha : InvActive p) (hspf : SpfOK p.spf) (hs : Solv p)
    (h : CLPool.swap p og zfo spec = some (p', ain, aout, fee)) : Solv p' ∧ 0 ≤ fee := by
  obtain ⟨r, hne, hex, e_ain, e_aout, _, _, eP, _, _, ePos, hbal⟩ := swap_bal h
  have hcs := execSwap_spec hex
  obtain ⟨limit, st', steps, crossed, hlim, hloop, erp, ersp, _, hfin⟩ := computeSwap_loop hcs
  have hfee := execSwap_fee hex
  obtain ⟨⟨K, _, hK⟩, hC0, hO0, hVin, hVout⟩ :=
    swapLoop_solv (ps := p.positions) (ticksOK_of_core hc) hspf hlim _ _ _ _ _ _ _ _ hloop (hp.2 hne).1 (hp.2 hne).2 ⟨ha, rfl⟩
  obtain ⟨tC, tI, tO⟩ := totals_init og (spec * P18) ⟨p.sqrtPrice, p.tick, p.liquidity⟩ st'
  rw [tC] at hC0
  rw [ersp] at hfee
  have hfee0 : 0 ≤ fee := ceil_nonneg P18_pos hC0 hfee
  refine ⟨?_, hfee0⟩
  -- the integer settlement
  have hset : ain - fee = K ∧ aout * P18 ≤ outTot og ⟨spec * P18, 0, ⟨p.sqrtPrice, p.tick, p.liquidity⟩, 0, 0⟩ st' := by
    rw [tI] at hK
    rw [tO] at hO0 ⊢
    rw [e_ain, e_aout]
    cases og
    · simp only [Bool.false_eq_true, ↓reduceIte] at hfin hK hO0 ⊢
      exact settle hK hfee hfin.1 hO0 hfin.2
    · simp only [↓reduceIte] at hfin hK hO0 ⊢
      exact settle hK hfee hfin.1 hO0 hfin.2
  obtain ⟨hin, hout⟩ := hset
  have hinQ : (inTot og ⟨spec * P18, 0, ⟨p.sqrtPrice, p.tick, p.liquidity⟩, 0, 0⟩ st' : ℚ) / 10 ^ 18 = (ain : ℚ) - fee := by
    rw [hK, tokens_cast, ← hin]; push_cast; ring
  have houtQ : (aout : ℚ) ≤ (outTot og ⟨spec * P18, 0, ⟨p.sqrtPrice, p.tick, p.liquidity⟩, 0, 0⟩ st' : ℚ) / 10 ^ 18 := by
    rw [le_div_iff₀ (by positivity)]
    have : ((aout * P18 : Int) : ℚ) ≤ _ := Int.cast_le.mpr hout
    rw [Int.cast_mul, P18_cast] at this
    exact this
  rw [hinQ] at hVin
  have hV2 := le_trans houtQ hVout
  have ePq : p'.sqrtPrice = st'.pool.sqrtPrice := by rw [eP, erp]
  simp only at hVin hV2
  unfold Solv at hs ⊢
  rw [ePos, ePq]
  unfold Vin at hVin; unfold Vout at hV2
  cases zfo
  · simp only [Bool.false_eq_true, ↓reduceIte] at hbal hVin hV2
    obtain ⟨b1, _, b0, _, _⟩ := hbal
    rw [b0, b1]; push_cast
    exact ⟨by linarith [hs.1], by linarith [hs.2]⟩
  · simp only [↓reduceIte] at hbal hVin hV2
    obtain ⟨b0, _, b1, _, _⟩ := hbal
    rw [b0, b1]; push_cast
    exact ⟨by linarith [hs.1], by linarith [hs.2]⟩

/-! ## create -/

theorem create_price {p : Pool} {owner : String} {lower upper a0 a1 m0 m1 : Int}
    {p' : Pool} {id : Nat} {r0 r1 liq l' u' : Int} (hc : InvCore p) (hp : InvPrice p)
    (h : createPositionMin p owner lower upper a0 a1 m0 m1 = some (p', id, r0, r1, liq, l', u')) : InvPrice p' := by
  obtain ⟨_, _, _, _, s, _, _, k1, k2⟩ := create_inv hc h
  refine ⟨by rw [s]; exact hp.1, fun _ => ?_⟩
  rw [s]
  by_cases hnil : p.positions = []
  · exact ⟨agree_of_roundDown hp.1 (k2 hnil), pos_of_roundDown (k2 hnil)⟩
  · rw [(k1 hnil).1, (k1 hnil).2]; exact hp.2 hnil

/-- everything C01 needs about a successful creation. -/
theorem create_facts {p : Pool} {owner : String} {lower upper a0 a1 m0 m1 : Int}
    {p' : Pool} {id : Nat} {r0 r1 liq l' u' : Int} (hc : InvCore p)
    (hsp : p.positions ≠ [] → 0 < p.sqrtPrice)
    (h : createPositionMin p owner lower upper a0 a1 m0 m1 = some (p', id, r0, r1, liq, l', u')) :
    p'.bal0 = p.bal0 + r0 ∧ p'.bal1 = p.bal1 + r1 ∧ p'.fee0 = p.fee0 ∧ p'.fee1 = p.fee1 ∧ 0 ≤ r0 ∧ 0 ≤ r1 ∧ 0 < liq ∧
    id = p.nextId ∧ p'.positions = p.positions ++ [⟨p.nextId, owner, l', u', liq⟩] ∧
    (p.positions ≠ [] → p'.sqrtPrice = p.sqrtPrice ∧ p'.tick = p.tick) ∧ 0 < p'.sqrtPrice ∧
    ∃ spL spU, tickToSqrtPrice l' = some spL ∧ tickToSqrtPrice u' = some spU ∧ l' < u' ∧
      VsExact true p' l' u' liq spL spU r0 r1 := by
  obtain ⟨p2, p3, le, ue, b0, b1, f0, f1, ePos2, _, hsame, hfresh, hupd, hp', r0nn, r1nn, _, _, hliq, hid⟩ :=
    createPositionMin_bal h
  obtain ⟨g0', g1', gf0, gf1, gS, gT, _, _, _, _, A0, A1, hcalc, ht0, ht1⟩ := updatePosition_frame hupd
  have hnew : ∀ q ∈ p2.positions, q.id ≠ p.nextId := by
    rw [ePos2]; intro q hq; have := hc.pos.idsLt q hq; omega
  obtain ⟨hd, hp3, _, _⟩ := updatePosition_new hnew hupd
  have hpos : 0 < liq := by omega
  have hP2 : 0 < p2.sqrtPrice := by
    by_cases hnil : p.positions = []
    · exact pos_of_roundDown (hfresh hnil)
    · rw [(hsame hnil).1]; exact hsp hnil
  obtain ⟨spL, spU, hsL, hsU, hlu, _, _, hvs⟩ := increase_ge_exact hpos (fun _ => hP2) hcalc ht0 ht1
  have eS : p'.sqrtPrice = p2.sqrtPrice := by rw [hp']; exact gS
  have eT : p'.tick = p2.tick := by rw [hp']; exact gT
  refine ⟨by rw [hp']; simp only; rw [g0', b0], by rw [hp']; simp only; rw [g1', b1],
    by rw [hp']; simp only; rw [gf0, f0], by rw [hp']; simp only; rw [gf1, f1], r0nn, r1nn, hpos, hid, ?_, ?_,
    by rw [eS]; exact hP2, spL, spU, hsL, hsU, hlu, vsExact_congr eT eS hvs⟩
  · rw [hp', hp3, ePos2]
  · intro hne; rw [eS, eT]; exact hsame hne

/-- what a creation adds to the pool is at least the exact amounts of the new liquidity at the pool's price. -/
theorem create_ge_real {p : Pool} {owner : String} {lower upper a0 a1 m0 m1 : Int}
    {p' : Pool} {id : Nat} {r0 r1 liq l' u' : Int} (hc : InvCore p) (hp : InvPrice p)
    (h : createPositionMin p owner lower upper a0 a1 m0 m1 = some (p', id, r0, r1, liq, l', u')) :
    dX0 liq l' u' p'.sqrtPrice ≤ r0 ∧ dX1 liq l' u' p'.sqrtPrice ≤ r1 := by
  obtain ⟨_, _, _, _, _, _, _, _, ePos, _, hP', spL, spU, hsL, hsU, hlu, hvs⟩ :=
    create_facts hc (fun hne => (hp.2 hne).2) h
  obtain ⟨c', _, _, _, _, _, hne', _, _⟩ := create_inv hc h
  have hp' := create_price hc hp h
  have hmem : (⟨p.nextId, owner, l', u', liq⟩ : Position) ∈ p'.positions := by rw [ePos]; simp
  have hal := c'.pos.aligned _ hmem
  simp only at hal
  have hpp := posPrice_of_agree (hp'.2 hne').1 hal.1 hal.2 hsL hsU
  exact vsExact_ge_real hsL hsU (tts_pos hsL) (tts_mono hsL hsU (by omega)) hP' hpp hvs

theorem create_solv {p : Pool} {owner : String} {lower upper a0 a1 m0 m1 : Int}
    {p' : Pool} {id : Nat} {r0 r1 liq l' u' : Int} (hc : InvCore p) (hp : InvPrice p) (hs : Solv p)
    (h : createPositionMin p owner lower upper a0 a1 m0 m1 = some (p', id, r0, r1, liq, l', u')) : Solv p' := by
  obtain ⟨e0, e1, _, _, _, _, _, _, ePos, hsame, _⟩ := create_facts hc (fun hne => (hp.2 hne).2) h
  obtain ⟨d0, d1⟩ := create_ge_real hc hp h
  have hold : V0 p.positions p'.sqrtPrice = V0 p.positions p.sqrtPrice ∧ V1 p.positions p'.sqrtPrice = V1 p.positions p.sqrtPrice := by
    by_cases hnil : p.positions = []
    · rw [hnil]; exact ⟨rfl, rfl⟩
    · rw [(hsame hnil).1]; exact ⟨rfl, rfl⟩
  unfold Solv at hs ⊢
  rw [ePos, V0_eq_linSum, V1_eq_linSum, linSum_append, linSum_append, ← V0_eq_linSum, ← V1_eq_linSum, ← dX0_eq, ← dX1_eq,
    hold.1, hold.2, e0, e1]
  push_cast
  exact ⟨by linarith [hs.1], by linarith [hs.2]⟩

/-! ## withdraw -/

/-- everything C01 needs about a successful withdrawal. -/
theorem withdraw_facts {p : Pool} {owner : String} {id : Nat} {req : Int} {p' : Pool} {o0 o1 : Int}
    (hsp : p.positions ≠ [] → 0 < p.sqrtPrice)
    (h : withdrawPosition p owner id req = some (p', o0, o1)) :
    ∃ pos, pos ∈ p.positions ∧ pos.id = id ∧ owner = pos.owner ∧ 0 < req ∧ req ≤ pos.liq ∧
      p'.bal0 = p.bal0 - o0 ∧ p'.bal1 = p.bal1 - o1 ∧ p'.fee0 = p.fee0 ∧ p'.fee1 = p.fee1 ∧
      0 ≤ o0 ∧ 0 ≤ o1 ∧ o0 ≤ p.bal0 ∧ o1 ≤ p.bal1 ∧
      p'.positions = (if req = pos.liq then p.positions.filter (fun x => decide (x.id ≠ id))
        else p.positions.map fun q => if q.id = id then { q with liq := pos.liq + -req } else q) ∧
      (p'.positions ≠ [] → p'.sqrtPrice = p.sqrtPrice ∧ p'.tick = p.tick) ∧
      ∃ spL spU, tickToSqrtPrice pos.lower = some spL ∧ tickToSqrtPrice pos.upper = some spU ∧
        VsExact false p pos.lower pos.upper req spL spU o0 o1 := by
  obtain ⟨pos, p1, a0, a1, le, ue, efind, hown, hreq0, hreq1, hupd, eo0, eo1, hb0, hb1, eb0, eb1, ef0, ef1⟩ :=
    withdrawPosition_bal h
  obtain ⟨pos2, p1', a0', a1', le', ue', efind2, _, _, _, hupd2, hpos', _, _, _, _, _, _, hne'⟩ := withdrawPosition_some h
  have : pos = pos2 := by rw [efind] at efind2; injection efind2
  subst this
  have : p1 = p1' := by rw [hupd] at hupd2; injection hupd2 with e; injection e
  subst this
  obtain ⟨hmem, hid⟩ := find_spec efind
  obtain ⟨g0', g1', gf0, gf1, gS, gT, _, _, _, _, A0, A1, hcalc, ht0, ht1⟩ := updatePosition_frame hupd
  obtain ⟨_, hp1, _, _⟩ := updatePosition_old efind hupd
  have hne0 : -req ≠ 0 := (calcActualAmounts_decomp hcalc).1
  have hreq : 0 < req := by omega
  have hpne : p.positions ≠ [] := fun e => by rw [e] at hmem; cases hmem
  obtain ⟨spL, spU, hsL, hsU, _, x0le, x1le, hvs⟩ := decrease_le_exact hreq (fun _ => hsp hpne) hcalc ht0 ht1
  rw [← eo0, ← eo1] at hvs
  refine ⟨pos, hmem, hid, hown, hreq, hreq1, by rw [eb0, g0'], by rw [eb1, g1'], by rw [ef0, gf0], by rw [ef1, gf1],
    by omega, by omega, by rw [← g0']; exact hb0, by rw [← g1']; exact hb1, ?_, ?_, spL, spU, hsL, hsU, hvs⟩
  · rw [hpos', hp1]
    simp only
    split
    · exact filter_map_upd p.positions id (fun q => { q with liq := pos.liq + -req }) (fun _ => rfl)
    · rfl
  · intro hne
    have := hne' hne
    rw [gS, gT] at this; exact this

/-- what a withdrawal takes from the pool is at most the exact amounts of the withdrawn liquidity at the pool's price. -/
theorem withdraw_le_real {p : Pool} {owner : String} {id : Nat} {req : Int} {p' : Pool} {o0 o1 : Int}
    (hc : InvCore p) (hp : InvPrice p) (h : withdrawPosition p owner id req = some (p', o0, o1)) :
    ∃ pos ∈ p.positions, pos.id = id ∧
      (o0 : ℚ) ≤ dX0 req pos.lower pos.upper p.sqrtPrice ∧ (o1 : ℚ) ≤ dX1 req pos.lower pos.upper p.sqrtPrice := by
  obtain ⟨pos, hmem, hid, _, _, _, _, _, _, _, _, _, _, _, _, _, spL, spU, hsL, hsU, hvs⟩ :=
    withdraw_facts (fun hne => (hp.2 hne).2) h
  have hpne : p.positions ≠ [] := fun e => by rw [e] at hmem; cases hmem
  obtain ⟨sL, sU, hL, hU, hL0, hLU, al, au, _⟩ := pos_prices hc hmem
  have : sL = spL := by rw [hL] at hsL; injection hsL
  subst this
  have : sU = spU := by rw [hU] at hsU; injection hsU
  subst this
  have hpp := posPrice_of_agree (hp.2 hpne).1 al au hL hU
  exact ⟨pos, hmem, hid, vsExact_le_real hL hU hL0 hLU (hp.2 hpne).2 hpp hvs⟩

theorem withdraw_solv {p : Pool} {owner : String} {id : Nat} {req : Int} {p' : Pool} {o0 o1 : Int}
    (hc : InvCore p) (hp : InvPrice p) (hs : Solv p)
    (h : withdrawPosition p owner id req = some (p', o0, o1)) : Solv p' := by
  obtain ⟨pos, hmem, hid, _, hreq, hreq1, e0, e1, _, _, o0nn, o1nn, hb0, hb1, ePos, hsame, _⟩ :=
    withdraw_facts (fun hne => (hp.2 hne).2) h
  obtain ⟨pos2, hmem2, hid2, d0, d1⟩ := withdraw_le_real hc hp h
  have : pos2 = pos := mem_eq_of_id hc.pos.uniq hmem2 hmem (by rw [hid, hid2])
  subst this
  -- the potentials of the new position list, at any price
  have hV : ∀ P, V0 p'.positions P = V0 p.positions P - dX0 req pos2.lower pos2.upper P ∧
      V1 p'.positions P = V1 p.positions P - dX1 req pos2.lower pos2.upper P := by
    intro P
    rw [ePos, V0_eq_linSum, V1_eq_linSum, V0_eq_linSum, V1_eq_linSum, dX0_eq, dX1_eq, ← hid]
    split
    · rename_i hfull
      rw [linSum_filter hc.pos.uniq hmem, linSum_filter hc.pos.uniq hmem, hfull]
      exact ⟨rfl, rfl⟩
    · rw [linSum_map hc.pos.uniq hmem, linSum_map hc.pos.uniq hmem]
      push_cast
      exact ⟨by ring, by ring⟩
  unfold Solv at hs ⊢
  by_cases hnil : p'.positions = []
  · rw [hnil, V0_nil, V1_nil, e0, e1]
    exact ⟨by exact_mod_cast (show (0 : Int) ≤ p.bal0 - o0 by omega), by exact_mod_cast (show (0 : Int) ≤ p.bal1 - o1 by omega)⟩
  · rw [(hsame hnil).1, (hV _).1, (hV _).2, e0, e1]
    push_cast
    exact ⟨by linarith [hs.1], by linarith [hs.2]⟩

/-- creating a position and withdrawing all of it at once returns at most the deposit, per token. -/
theorem create_then_withdraw {p : Pool} {owner : String} {lower upper a0 a1 m0 m1 : Int}
    {p' p'' : Pool} {id : Nat} {r0 r1 liq l' u' o0 o1 : Int} (hc : InvCore p)
    (hsp : p.positions ≠ [] → 0 < p.sqrtPrice)
    (h : createPositionMin p owner lower upper a0 a1 m0 m1 = some (p', id, r0, r1, liq, l', u'))
    (hw : withdrawPosition p' owner id liq = some (p'', o0, o1)) :
    o0 ≤ r0 ∧ o1 ≤ r1 ∧ 0 ≤ o0 ∧ 0 ≤ o1 ∧ p''.bal0 = p.bal0 + r0 - o0 ∧ p''.bal1 = p.bal1 + r1 - o1 := by
  obtain ⟨e0, e1, _, _, _, _, _, hid, ePos, _, hP', spL, spU, hsL, hsU, _, hvs⟩ := create_facts hc hsp h
  obtain ⟨pos, hmem, hpid, _, _, _, w0, w1, _, _, o0nn, o1nn, _, _, _, _, spL2, spU2, hsL2, hsU2, hvs2⟩ :=
    withdraw_facts (fun _ => hP') hw
  have hpos : pos = ⟨p.nextId, owner, l', u', liq⟩ := by
    rw [ePos] at hmem
    rcases List.mem_append.mp hmem with hm | hm
    · have := hc.pos.idsLt pos hm; omega
    · simpa using hm
  subst hpos
  simp only at hsL2 hsU2 hvs2
  have : spL2 = spL := by rw [hsL] at hsL2; injection hsL2 with e; exact e.symm
  subst this
  have : spU2 = spU := by rw [hsU] at hsU2; injection hsU2 with e; exact e.symm
  subst this
  obtain ⟨k0, k1⟩ := le_of_vsExact (tts_pos hsL) (tts_pos hsU) (fun _ => hP') hvs2 hvs
  exact ⟨k0, k1, o0nn, o1nn, by rw [w0, e0], by rw [w1, e1]⟩

/-! ## transfer -/

theorem transfer_solv {p : Pool} {sender : String} {id : Nat} {newOwner : String} {p' : Pool}
    (hs : Solv p) (h : transferPosition p sender id newOwner = some p') : Solv p' ∧ BalNN p' = BalNN p := by
  obtain ⟨pos, _, _, hp'⟩ := transferPosition_some h
  subst hp'
  have hg : ∀ q : Position, (if q.id = id then { q with owner := newOwner } else q).lower = q.lower ∧
      (if q.id = id then { q with owner := newOwner } else q).upper = q.upper ∧
      (if q.id = id then { q with owner := newOwner } else q).liq = q.liq := by
    intro q; split <;> exact ⟨rfl, rfl, rfl⟩
  refine ⟨?_, rfl⟩
  unfold Solv at hs ⊢
  simp only
  rw [V0_eq_linSum, V1_eq_linSum, linSum_map_owner _ _ _ hg, linSum_map_owner _ _ _ hg, ← V0_eq_linSum, ← V1_eq_linSum]
  exact hs

/-! ## the bundle and its preservation -/

structure Good (p : Pool) : Prop where
  inv : Inv p
  spf : SpfOK p.spf
  nn : BalNN p
  solv : Solv p

theorem initPool_good {s f : Int} (hs : 0 < s) (hf : SpfOK f) : Good (initPool s f) :=
  ⟨⟨initPool_core s f, initPool_price f hs, initPool_active s f⟩, hf,
    ⟨Int.le_refl _, Int.le_refl _, Int.le_refl _, Int.le_refl _⟩,
    ⟨by show V0 [] 0 ≤ ((0 : Int) : ℚ); rw [V0_nil]; simp, by show V1 [] 0 ≤ ((0 : Int) : ℚ); rw [V1_nil]; simp⟩⟩

theorem withdraw_apply {p p1 : Pool} {o : String} {id : Nat} {liq w0 w1 : Int}
    (h : withdrawPosition p o id liq = some (p1, w0, w1)) : apply p (.withdraw o id liq) = some p1 := by
  simp only [apply, h, Option.map_some]

/-- a successful operation keeps the four balances non-negative. -/
theorem apply_nn {p p' : Pool} {op : Op} (hinv : Inv p) (hspf : SpfOK p.spf) (hs : Solv p) (hn : BalNN p)
    (h : apply p op = some p') : BalNN p' := by
  obtain ⟨n0, n1, n2, n3⟩ := hn
  cases op with
  | create o l u a0 a1 =>
    simp only [CLBook.apply, Option.map_eq_some_iff] at h
    obtain ⟨⟨p1, id, r0, r1, liq, l', u'⟩, h, e⟩ := h
    simp only at e; subst e
    obtain ⟨e0, e1, f0, f1, r0nn, r1nn, _⟩ := create_facts hinv.core (fun hne => (hinv.price.2 hne).2) h
    exact ⟨by omega, by omega, by omega, by omega⟩
  | withdraw o id liq =>
    simp only [CLBook.apply, Option.map_eq_some_iff] at h
    obtain ⟨⟨p1, o0, o1⟩, h, e⟩ := h
    simp only at e; subst e
    obtain ⟨_, _, _, _, _, _, e0, e1, f0, f1, _, _, hb0, hb1, _⟩ :=
      withdraw_facts (fun hne => (hinv.price.2 hne).2) h
    exact ⟨by omega, by omega, by omega, by omega⟩
  | add o id a0 a1 =>
    simp only [CLBook.apply, Option.map_eq_some_iff] at h
    obtain ⟨⟨p2, nid, r0, r1⟩, h, e⟩ := h
    simp only at e; subst e
    obtain ⟨pos, p1, w0, w1, liq, l', u', hw, hcr⟩ := addToPosition_some h
    obtain ⟨_, _, _, _, _, _, e0, e1, f0, f1, _, _, hb0, hb1, _⟩ :=
      withdraw_facts (fun hne => (hinv.price.2 hne).2) hw
    have hi1 := apply_inv hinv.core (withdraw_apply hw)
    have hp1 := hi1.2.2.2.2.1 hinv.price
    obtain ⟨e0', e1', f0', f1', r0nn, r1nn, _⟩ := create_facts hi1.1 (fun hne => (hp1.2 hne).2) hcr
    exact ⟨by omega, by omega, by omega, by omega⟩
  | transfer sd id no =>
    simp only [CLBook.apply] at h
    obtain ⟨pos, _, _, hp'⟩ := transferPosition_some h
    subst hp'
    exact ⟨n0, n1, n2, n3⟩
  | swap og zfo spec =>
    simp only [CLBook.apply, Option.map_eq_some_iff] at h
    obtain ⟨⟨p1, ain, aout, fee⟩, h, e⟩ := h
    simp only at e; subst e
    obtain ⟨_, hfee⟩ := swap_solv hinv.core hinv.price hinv.active hspf hs h
    obtain ⟨r, _, _, _, _, hin, hout, _, _, _, _, hbal⟩ := swap_bal h
    cases zfo
    · simp only [Bool.false_eq_true, ↓reduceIte] at hbal
      obtain ⟨b1, f1, b0, f0, hle⟩ := hbal
      exact ⟨by omega, by omega, by omega, by omega⟩
    · simp only [↓reduceIte] at hbal
      obtain ⟨b0, f0, b1, f1, hle⟩ := hbal
      exact ⟨by omega, by omega, by omega, by omega⟩

/-- a successful operation preserves principal solvency. -/
theorem apply_solv {p p' : Pool} {op : Op} (hinv : Inv p) (hspf : SpfOK p.spf) (hs : Solv p)
    (h : apply p op = some p') : Solv p' := by
  cases op with
  | create o l u a0 a1 =>
    simp only [CLBook.apply, Option.map_eq_some_iff] at h
    obtain ⟨⟨p1, id, r0, r1, liq, l', u'⟩, h, e⟩ := h
    simp only at e; subst e
    exact create_solv hinv.core hinv.price hs h
  | withdraw o id liq =>
    simp only [CLBook.apply, Option.map_eq_some_iff] at h
    obtain ⟨⟨p1, o0, o1⟩, h, e⟩ := h
    simp only at e; subst e
    exact withdraw_solv hinv.core hinv.price hs h
  | add o id a0 a1 =>
    simp only [CLBook.apply, Option.map_eq_some_iff] at h
    obtain ⟨⟨p2, nid, r0, r1⟩, h, e⟩ := h
    simp only at e; subst e
    obtain ⟨pos, p1, w0, w1, liq, l', u', hw, hcr⟩ := addToPosition_some h
    have hi1 := apply_inv hinv.core (withdraw_apply hw)
    have hp1 := hi1.2.2.2.2.1 hinv.price
    exact create_solv hi1.1 hp1 (withdraw_solv hinv.core hinv.price hs hw) hcr
  | transfer sd id no =>
    simp only [CLBook.apply] at h
    exact (transfer_solv hs h).1
  | swap og zfo spec =>
    simp only [CLBook.apply, Option.map_eq_some_iff] at h
    obtain ⟨⟨p1, ain, aout, fee⟩, h, e⟩ := h
    simp only at e; subst e
    exact (swap_solv hinv.core hinv.price hinv.active hspf hs h).1

theorem Good.apply {p p' : Pool} {op : Op} (hg : Good p) (h : apply p op = some p') : Good p' := by
  have hstep : step p op = p' := by unfold step; rw [h]
  have hinv : Inv p' := by rw [← hstep]; exact hg.inv.step op hg.spf
  have hspf : SpfOK p'.spf := by rw [(apply_inv hg.inv.core h).2.2.1]; exact hg.spf
  exact ⟨hinv, hspf, apply_nn hg.inv hg.spf hg.solv hg.nn h, apply_solv hg.inv hg.spf hg.solv h⟩

theorem Good.step {p : Pool} (op : Op) (hg : Good p) : Good (step p op) := by
  rcases step_cases p op with h | ⟨p', h, e⟩
  · rw [h]; exact hg
  · rw [e]; exact hg.apply h

theorem Good.run {p : Pool} (ops : List Op) (hg : Good p) : Good (run p ops) := by
  induction ops generalizing p with
  | nil => exact hg
  | cons op ops ih => exact ih (hg.step op)

/-! ## consequences for the positions of a good pool -/

/-- what the model pays out for withdrawing `req` of position `q` (as far as the amounts compute) is at most the exact
amount of `req`, at most the position's exact principal, at most the total principal, at most the balance. -/
theorem withdraw_amounts_covered {p : Pool} (hg : Good p) {q : Position} (hq : q ∈ p.positions) {req : Int}
    (h0 : 0 < req) (h1 : req ≤ q.liq) {p1 : Pool} {a0 a1 : Int} {le ue : Bool}
    (hu : updatePosition p q.id q.owner q.lower q.upper (-req) = some (p1, a0, a1, le, ue)) :
    ((a0.natAbs : Int) : ℚ) ≤ dX0 req q.lower q.upper p.sqrtPrice ∧ ((a1.natAbs : Int) : ℚ) ≤ dX1 req q.lower q.upper p.sqrtPrice ∧
    dX0 req q.lower q.upper p.sqrtPrice ≤ posX0 q p.sqrtPrice ∧ dX1 req q.lower q.upper p.sqrtPrice ≤ posX1 q p.sqrtPrice := by
  have hc := hg.inv.core
  have hpne : p.positions ≠ [] := fun e => by rw [e] at hq; cases hq
  obtain ⟨hag, hP⟩ := hg.inv.price.2 hpne
  obtain ⟨_, _, _, _, _, _, _, _, _, _, A0, A1, hcalc, ht0, ht1⟩ := updatePosition_frame hu
  obtain ⟨spL, spU, hsL, hsU, _, _, _, hvs⟩ := decrease_le_exact h0 (fun _ => hP) hcalc ht0 ht1
  obtain ⟨sL, sU, hL, hU, hL0, hLU, al, au, _⟩ := pos_prices hc hq
  have : sL = spL := by rw [hL] at hsL; injection hsL
  subst this
  have : sU = spU := by rw [hU] at hsU; injection hsU
  subst this
  obtain ⟨d0, d1⟩ := vsExact_le_real hL hU hL0 hLU hP (posPrice_of_agree hag al au hL hU) hvs
  refine ⟨d0, d1, ?_, ?_⟩
  · rw [(posX_eq q _).1, dX0_eq, dX0_eq]
    exact mul_le_mul_of_nonneg_right (by exact_mod_cast h1) (g0_nonneg hL hU hL0 hLU)
  · rw [(posX_eq q _).2, dX1_eq, dX1_eq]
    exact mul_le_mul_of_nonneg_right (by exact_mod_cast h1) (g1_nonneg hL hU hLU)

theorem posX_nonneg {p : Pool} (hc : InvCore p) (P : Int) {q : Position} (hq : q ∈ p.positions) :
    0 ≤ posX0 q P ∧ 0 ≤ posX1 q P := by
  obtain ⟨sL, sU, hL, hU, hL0, hLU, _, _, hl⟩ := pos_prices hc hq
  rw [(posX_eq q _).1, (posX_eq q _).2, dX0_eq, dX1_eq]
  have : (0 : ℚ) ≤ q.liq := by exact_mod_cast Int.le_of_lt hl
  exact ⟨mul_nonneg this (g0_nonneg hL hU hL0 hLU), mul_nonneg this (g1_nonneg hL hU hLU)⟩

/-- pool funds never block a withdrawal: if the amounts compute, the withdrawal succeeds. -/
theorem can_withdraw {p : Pool} (hg : Good p) {q : Position} (hq : q ∈ p.positions) {req : Int}
    (h0 : 0 < req) (h1 : req ≤ q.liq) {p1 : Pool} {a0 a1 : Int} {le ue : Bool}
    (hu : updatePosition p q.id q.owner q.lower q.upper (-req) = some (p1, a0, a1, le, ue)) :
    (a0.natAbs : Int) ≤ p.bal0 ∧ (a1.natAbs : Int) ≤ p.bal1 ∧
    ∃ p', withdrawPosition p q.owner q.id req = some (p', (a0.natAbs : Int), (a1.natAbs : Int)) := by
  obtain ⟨c0, c1, c2, c3⟩ := withdraw_amounts_covered hg hq h0 h1 hu
  have hc := hg.inv.core
  have t0 := sumQ_ge_term (f := fun q => posX0 q p.sqrtPrice) (fun q hq => (posX_nonneg hc _ hq).1) hq
  have t1 := sumQ_ge_term (f := fun q => posX1 q p.sqrtPrice) (fun q hq => (posX_nonneg hc _ hq).2) hq
  obtain ⟨s0, s1⟩ := hg.solv
  unfold V0 at s0; unfold V1 at s1
  have b0 : (a0.natAbs : Int) ≤ p.bal0 := by
    have : ((a0.natAbs : Int) : ℚ) ≤ (p.bal0 : ℚ) := by linarith
    exact_mod_cast this
  have b1 : (a1.natAbs : Int) ≤ p.bal1 := by
    have : ((a1.natAbs : Int) : ℚ) ≤ (p.bal1 : ℚ) := by linarith
    exact_mod_cast this
  refine ⟨b0, b1, ?_⟩
  obtain ⟨g0', g1', _⟩ := updatePosition_frame hu
  exact withdrawPosition_of_funds (find_of_mem hc.pos.uniq hq) (by omega) h1 hu (by rw [g0']; exact b0) (by rw [g1']; exact b1)

/-- the balances cover ALL full withdrawals together: whatever amounts `w q` the model computes for withdrawing every
position completely, their sums are at most the total exact principal, which is at most the pool's balances. -/
theorem all_withdrawals_covered {p : Pool} (hg : Good p) (w : Position → Int × Int)
    (hw : ∀ q ∈ p.positions, ∃ p1 a0 a1 le ue,
      updatePosition p q.id q.owner q.lower q.upper (-q.liq) = some (p1, a0, a1, le, ue) ∧
      w q = ((a0.natAbs : Int), (a1.natAbs : Int))) :
    (sumBy (fun q => (w q).1) p.positions : ℚ) ≤ V0 p.positions p.sqrtPrice ∧
    (sumBy (fun q => (w q).2) p.positions : ℚ) ≤ V1 p.positions p.sqrtPrice ∧
    sumBy (fun q => (w q).1) p.positions ≤ p.bal0 ∧ sumBy (fun q => (w q).2) p.positions ≤ p.bal1 := by
  have hc := hg.inv.core
  have k0 : (sumBy (fun q => (w q).1) p.positions : ℚ) ≤ V0 p.positions p.sqrtPrice := by
    rw [sumBy_cast]; unfold V0
    apply sumQ_le
    intro q hq
    obtain ⟨p1, a0, a1, le, ue, hu, e⟩ := hw q hq
    have hl := hc.pos.liqPos q hq
    obtain ⟨c0, _, c2, _⟩ := withdraw_amounts_covered hg hq hl (Int.le_refl _) hu
    rw [e]; exact le_trans c0 c2
  have k1 : (sumBy (fun q => (w q).2) p.positions : ℚ) ≤ V1 p.positions p.sqrtPrice := by
    rw [sumBy_cast]; unfold V1
    apply sumQ_le
    intro q hq
    obtain ⟨p1, a0, a1, le, ue, hu, e⟩ := hw q hq
    have hl := hc.pos.liqPos q hq
    obtain ⟨_, c1, _, c3⟩ := withdraw_amounts_covered hg hq hl (Int.le_refl _) hu
    rw [e]; exact le_trans c1 c3
  refine ⟨k0, k1, ?_, ?_⟩
  · have := le_trans k0 hg.solv.1; exact_mod_cast this
  · have := le_trans k1 hg.solv.2; exact_mod_cast this

end OsmoVerif.CLSolv
