/-
C08 (incentives) helpers: histories of the full model (`CLInc.Full`) and their projection onto the fee layer: the `fees`
component of every successful message is exactly the `CLFees` message (incentive-only messages leave it alone), so every
theorem about `CLFees` histories (Props/C08) holds for the `fees` component of every reachable `Full` state, whatever
incentive records, time advances and incentive collects are interleaved.  Core only.
-/
import OsmoVerif.Proofs.CLIncLemmas
import OsmoVerif.Proofs.CLFeesFinal

namespace OsmoVerif.CLIncP
open OsmoVerif.Num OsmoVerif.CL OsmoVerif.CLPool OsmoVerif.CLFees OsmoVerif.CLInc OsmoVerif.CLFeesP OsmoVerif.CLBook

inductive IOp where
  | fee (op : FOp)                       -- create / withdraw / add / transfer / swap / collect spread rewards
  | incentive (id : Nat) (denom : String) (amount rate start : Int) (uptime : Nat)
  | advance (ns : Int)
  | sync
  | icollect (sender : String) (id : Nat)
  deriving Repr, DecidableEq

def applyI (s : Full) : IOp → Option Full
  | .fee (.create o l u a0 a1) => (CLInc.createPosition s o l u a0 a1).map (·.1)
  | .fee (.withdraw o id liq) => (CLInc.withdrawPosition s o id liq).map (·.1)
  | .fee (.add o id a0 a1) => (CLInc.addToPosition s o id a0 a1).map (·.1)
  | .fee (.transfer sd id n) => CLInc.transferPosition s sd id n
  | .fee (.swap og zfo spec) => (CLInc.swap s og zfo spec).map (·.1)
  | .fee (.collect sd id) => (CLInc.collectSpread s sd id).map (·.1)
  | .incentive id d a r st u => createIncentive s id d a r st u
  | .advance ns => some (CLInc.advance s ns)
  | .sync => syncNow s
  | .icollect sd id => (collectIncentives s sd id).map (·.1)

def stepI (s : Full) (op : IOp) : Full :=
  match applyI s op with
  | some s' => s'
  | none => s

def runI (s : Full) : List IOp → Full
  | [] => s
  | op :: ops => runI (stepI s op) ops

theorem createMinI_fees {s s' : Full} {owner : String} {l u a0 a1 m0 m1 : Int} {id : Nat} {x0 x1 liq lo up : Int}
    (h : CLInc.createPositionMin s owner l u a0 a1 m0 m1 = some (s', id, x0, x1, liq, lo, up)) :
    CLFees.createPositionMin s.fees owner l u a0 a1 m0 m1 = some (s'.fees, id, x0, x1, liq, lo, up) := by
  unfold CLInc.createPositionMin at h
  simp only [Option.bind_eq_some_iff, Option.map_eq_some_iff, Prod.mk.injEq] at h
  obtain ⟨⟨f', id', y0, y1, liq', lo', up'⟩, hf, i1, _, i3, _, e1, e2, e3, e4, e5, e6, e7⟩ := h
  simp only at e1 e2 e3 e4 e5 e6 e7
  subst e1; subst e2; subst e3; subst e4; subst e5; subst e6; subst e7
  exact hf

theorem withdrawI_fees {s s' : Full} {owner : String} {id : Nat} {req o0 o1 : Int}
    (h : CLInc.withdrawPosition s owner id req = some (s', o0, o1)) :
    CLFees.withdrawPosition s.fees owner id req = some (s'.fees, o0, o1) := by
  unfold CLInc.withdrawPosition at h
  simp only [Option.bind_eq_some_iff, Option.map_eq_some_iff, Prod.mk.injEq] at h
  obtain ⟨pos, _, ⟨f', w0, w1⟩, hf, i1, _, ⟨i2, coll, forf, byUp⟩, _, b, _, i3, _, i4, _, e1, e2, e3⟩ := h
  simp only at e1 e2 e3
  subst e1; subst e2; subst e3
  exact hf

/-- the fee-layer message behind a message of the full model (`none`: the fee layer is not touched). -/
def IOp.toFee : IOp → Option FOp
  | .fee op => some op
  | _ => none

/-- a successful message acts on the `fees` component exactly as the `CLFees` message. -/
theorem applyI_fees {s s' : Full} {op : IOp} (h : applyI s op = some s') :
    match op.toFee with
    | some fop => applyF s.fees fop = some s'.fees
    | none => s'.fees = s.fees := by
  cases op with
  | fee fop =>
    simp only [IOp.toFee]
    cases fop with
    | create o l u a0 a1 =>
      simp only [applyI, Option.map_eq_some_iff] at h
      obtain ⟨⟨s1, id, x0, x1, liq, lo, up⟩, h, e⟩ := h
      simp only at e; subst e
      unfold CLInc.createPosition at h
      simp only [applyF, CLFees.createPosition, createMinI_fees h, Option.map_some]
    | withdraw o id liq =>
      simp only [applyI, Option.map_eq_some_iff] at h
      obtain ⟨⟨s1, o0, o1⟩, h, e⟩ := h
      simp only at e; subst e
      simp only [applyF, withdrawI_fees h, Option.map_some]
    | add o id a0 a1 =>
      simp only [applyI, Option.map_eq_some_iff] at h
      obtain ⟨⟨s2, nid, x0, x1⟩, h, e⟩ := h
      simp only at e; subst e
      unfold CLInc.addToPosition at h
      simp only [Option.bind_eq_some_iff] at h
      obtain ⟨pos, hfind, h⟩ := h
      split at h
      · cases h
      · rename_i c1
        split at h
        · cases h
        · rename_i c2
          split at h
          · cases h
          · rename_i c3
            simp only [Option.bind_eq_some_iff] at h
            obtain ⟨⟨s1, w0, w1⟩, hw, h⟩ := h
            simp only at h
            split at h
            · cases h
            · rename_i c4
              simp only [Option.map_eq_some_iff, Prod.mk.injEq] at h
              obtain ⟨⟨s3, nid', y0, y1, liq, lo, up⟩, hc, e1, e2, e3, e4⟩ := h
              simp only at e1 e2 e3 e4
              subst e1; subst e2; subst e3; subst e4
              simp only [applyF, CLFees.addToPosition, hfind, Option.bind_some, c1, c2, c3, ↓reduceIte, withdrawI_fees hw, c4,
                createMinI_fees hc, Option.map_some, Bool.false_eq_true]
    | transfer sd id n =>
      simp only [applyI, CLInc.transferPosition, Option.map_eq_some_iff] at h
      obtain ⟨f', hf, e⟩ := h
      subst e
      simp only [applyF]; exact hf
    | swap og zfo spec =>
      simp only [applyI, Option.map_eq_some_iff] at h
      obtain ⟨⟨s1, ain, aout, fee⟩, h, e⟩ := h
      simp only at e; subst e
      unfold CLInc.swap at h
      simp only [Option.bind_eq_some_iff] at h
      obtain ⟨⟨f', ai, ao, fe⟩, hf, trs, _, h⟩ := h
      simp only at h
      split at h
      · simp only [Option.some.injEq, Prod.mk.injEq] at h
        obtain ⟨e1, _⟩ := h
        subst e1
        simp only [applyF, hf, Option.map_some]
      · simp only [Option.bind_eq_some_iff, Option.map_eq_some_iff, Prod.mk.injEq] at h
        obtain ⟨i1, _, trk, _, e1, _⟩ := h
        subst e1
        simp only [applyF, hf, Option.map_some]
    | collect sd id =>
      simp only [applyI, CLInc.collectSpread, Option.map_eq_some_iff] at h
      obtain ⟨⟨s1, c0, c1⟩, ⟨⟨f', d0, d1⟩, hf, e0⟩, e⟩ := h
      simp only [Prod.mk.injEq] at e0
      obtain ⟨e0, _, _⟩ := e0
      simp only at e; subst e; subst e0
      simp only [applyF, hf, Option.map_some]
  | incentive id d a r st u =>
    simp only [IOp.toFee]
    simp only [applyI] at h
    unfold createIncentive at h
    split at h
    · cases h
    · split at h
      · cases h
      · split at h
        · cases h
        · split at h
          · cases h
          · simp only [Option.bind_eq_some_iff, Option.map_eq_some_iff] at h
            obtain ⟨_, _, _, _, e⟩ := h
            subst e; rfl
  | advance ns =>
    simp only [IOp.toFee]
    simp only [applyI, Option.some.injEq] at h
    subst h; rfl
  | sync =>
    simp only [IOp.toFee]
    simp only [applyI, syncNow, Option.map_eq_some_iff] at h
    obtain ⟨_, _, e⟩ := h
    subst e; rfl
  | icollect sd id =>
    simp only [IOp.toFee]
    simp only [applyI, Option.map_eq_some_iff] at h
    obtain ⟨⟨s1, c, f⟩, h, e⟩ := h
    simp only at e; subst e
    unfold collectIncentives at h
    simp only [Option.bind_eq_some_iff] at h
    obtain ⟨pos, _, h⟩ := h
    split at h
    · cases h
    · simp only [Option.bind_eq_some_iff, Option.map_eq_some_iff, Prod.mk.injEq] at h
      obtain ⟨_, _, _, _, _, _, e, _⟩ := h
      subst e; rfl

/-- the fee-layer history behind a history of the full model: the successful fee-layer messages, in order. -/
theorem runI_fees (s : Full) (ops : List IOp) : ∃ fops : List FOp, (runI s ops).fees = runF s.fees fops := by
  induction ops generalizing s with
  | nil => exact ⟨[], rfl⟩
  | cons op ops ih =>
    obtain ⟨fops, hf⟩ := ih (stepI s op)
    show ∃ fops, (runI (stepI s op) ops).fees = _
    unfold stepI at hf ⊢
    cases h : applyI s op with
    | none => rw [h] at hf; exact ⟨fops, hf⟩
    | some s' =>
      rw [h] at hf
      simp only at hf ⊢
      have hp := applyI_fees h
      cases hto : op.toFee with
      | none =>
        rw [hto] at hp; simp only at hp
        rw [hp] at hf; exact ⟨fops, hf⟩
      | some fop =>
        rw [hto] at hp; simp only at hp
        refine ⟨fop :: fops, ?_⟩
        rw [hf]
        show runF s'.fees fops = runF (stepF s.fees fop) fops
        unfold stepF; rw [hp]

/-! ## the incentive records along histories: remaining amounts only go down -/

def RecsOK (rs : List IncRec) : Prop := ∀ r ∈ rs, 0 ≤ r.rate ∧ 0 ≤ r.remaining

theorem emitAll_records {now elapsed liq factor : Int} (he : 0 ≤ elapsed) (hl : 0 < liq) (hf : 0 < factor) (d : String) :
    ∀ (us : List Nat) (accs : List UAcc) (recs : List IncRec) (accs' : List UAcc) (recs' : List IncRec),
      RecsOK recs → emitAll now elapsed liq factor us accs recs = some (accs', recs') →
      sumRem d recs' ≤ sumRem d recs ∧ RecsOK recs' := by
  intro us
  induction us with
  | nil =>
    intro accs recs accs' recs' hok h
    simp only [emitAll, Option.some.injEq, Prod.mk.injEq] at h
    obtain ⟨_, e⟩ := h
    subst e
    exact ⟨Int.le_refl _, hok⟩
  | cons u us ih =>
    intro accs recs accs' recs' hok h
    simp only [emitAll, Option.bind_eq_some_iff] at h
    obtain ⟨⟨toAdd, recs1⟩, hloop, a, _, v, _, hrest⟩ := h
    simp only at hrest
    obtain ⟨_, _, b3, b4, _⟩ := emitLoop_bound he hl hf d recs [] toAdd recs1 hok hloop
    obtain ⟨c1, c2⟩ := ih _ recs1 accs' recs' b4 hrest
    exact ⟨by omega, c2⟩

theorem sumRem_filter (d : String) : ∀ (rs : List IncRec), RecsOK rs →
    sumRem d (rs.filter fun r => r.remaining > 0) = sumRem d rs ∧ RecsOK (rs.filter fun r => r.remaining > 0)
  | [], _ => ⟨rfl, fun _ h => by cases h⟩
  | r :: rs, hok => by
    have hr := hok r List.mem_cons_self
    obtain ⟨i1, i2⟩ := sumRem_filter d rs (fun x hx => hok x (List.mem_cons_of_mem _ hx))
    by_cases hp : r.remaining > 0
    · have : decide (r.remaining > 0) = true := by simpa using hp
      rw [List.filter_cons, if_pos this]
      refine ⟨by simp only [sumRem, i1], fun x hx => ?_⟩
      rcases List.mem_cons.mp hx with rfl | hx
      · exact hr
      · exact i2 x hx
    · have : ¬ (decide (r.remaining > 0) = true) := by simpa using hp
      rw [List.filter_cons, if_neg this]
      have hz : r.remaining = 0 := by omega
      refine ⟨by simp only [sumRem, i1, hz]; split <;> omega, i2⟩

/-- bringing the accumulators to now never increases the records' remaining amounts and keeps them non-negative. -/
theorem sync_records {i i' : Inc} {liq : Int} (hf : 0 < i.factor) (hok : RecsOK i.records) (h : sync i liq = some i') (d : String) :
    sumRem d i'.records ≤ sumRem d i.records ∧ RecsOK i'.records ∧ i'.factor = i.factor := by
  unfold sync at h
  simp only [Option.bind_eq_some_iff] at h
  obtain ⟨el, _, h⟩ := h
  split at h
  · injection h with h; subst h; exact ⟨Int.le_refl _, hok, rfl⟩
  · rename_i hz
    split at h
    · cases h
    · rename_i hneg
      simp only [Option.map_eq_some_iff] at h
      obtain ⟨⟨accs, recs⟩, hx, e⟩ := h
      subst e
      simp only
      split at hx
      · simp only [Option.some.injEq, Prod.mk.injEq] at hx
        obtain ⟨_, e⟩ := hx
        subst e
        obtain ⟨f1, f2⟩ := sumRem_filter d i.records hok
        exact ⟨by omega, f2, trivial⟩
      · rename_i hliq
        have hP := P18_pos
        obtain ⟨c1, c2⟩ := emitAll_records (by omega) (by omega) hf d _ _ _ _ _ hok hx
        obtain ⟨f1, f2⟩ := sumRem_filter d recs c2
        exact ⟨by omega, f2, trivial⟩

theorem sumRem_insert (d : String) (r : IncRec) : ∀ (rs : List IncRec),
    sumRem d (insertRec rs r) = sumRem d rs + (if r.denom = d then r.remaining else 0)
  | [] => by simp [insertRec, sumRem]
  | x :: xs => by
    unfold insertRec
    split
    · simp only [sumRem]; omega
    · simp only [sumRem, sumRem_insert d r xs]; omega

theorem recsOK_insert {r : IncRec} {rs : List IncRec} (hr : 0 ≤ r.rate ∧ 0 ≤ r.remaining) (h : RecsOK rs) : RecsOK (insertRec rs r) := by
  induction rs with
  | nil => intro x hx; simp only [insertRec, List.mem_singleton] at hx; subst hx; exact hr
  | cons y ys ih =>
    unfold insertRec
    split
    · intro x hx
      rcases List.mem_cons.mp hx with rfl | hx
      · exact hr
      · exact h x hx
    · intro x hx
      rcases List.mem_cons.mp hx with rfl | hx
      · exact h x List.mem_cons_self
      · exact ih (fun z hz => h z (List.mem_cons_of_mem _ hz)) x hx

theorem redeposit_frame {i i' : Inc} {liq : Int} {forf : Coins} {byUp : List Coins} (h : redeposit i liq forf byUp = some i') :
    i'.records = i.records ∧ i'.factor = i.factor := by
  unfold redeposit at h
  split at h <;> (simp only [Option.map_eq_some_iff] at h; obtain ⟨_, _, e⟩ := h; subst e; exact ⟨rfl, rfl⟩)

theorem updPosition_factor {i i' : Inc} {cur l u : Int} {id : Nat} {nl d : Int} (h : updPosition i cur l u id nl d = some i') :
    i'.factor = i.factor := by
  unfold updPosition at h
  simp only [Option.bind_eq_some_iff, Option.map_eq_some_iff] at h
  obtain ⟨_, _, _, _, _, _, e⟩ := h
  subst e; rfl

theorem claimAll_factor {i i' : Inc} {cur l u : Int} {id : Nat} {c f : Coins} {b : List Coins} (h : claimAll i cur l u id = some (i', c, f, b)) :
    i'.factor = i.factor := by
  unfold claimAll at h
  simp only [Option.bind_eq_some_iff, Option.map_eq_some_iff] at h
  obtain ⟨_, _, h⟩ := h
  split at h
  · cases h
  · simp only [Option.bind_eq_some_iff, Option.map_eq_some_iff, Prod.mk.injEq] at h
    obtain ⟨_, _, ⟨_, _, _, _⟩, _, e, _⟩ := h
    subst e; rfl

/-- what a message may add to the records of denom `d`: only `CreateIncentive` adds (its whole amount). -/
def created (d : String) : IOp → Int
  | .incentive _ dn a _ _ _ => if dn = d then a * P18 else 0
  | _ => 0

structure IncOK (s : Full) : Prop where
  recs : RecsOK s.inc.records
  factor : 0 < s.inc.factor

theorem createMinI_records {s s' : Full} {owner : String} {l u a0 a1 m0 m1 : Int} {id : Nat} {x0 x1 liq lo up : Int}
    (hok : IncOK s) (h : CLInc.createPositionMin s owner l u a0 a1 m0 m1 = some (s', id, x0, x1, liq, lo, up)) (d : String) :
    sumRem d s'.inc.records ≤ sumRem d s.inc.records ∧ IncOK s' := by
  unfold CLInc.createPositionMin at h
  simp only [Option.bind_eq_some_iff, Option.map_eq_some_iff, Prod.mk.injEq] at h
  obtain ⟨⟨f', id', y0, y1, liq', lo', up'⟩, _, i1, hsync, i3, hupd, e1, _⟩ := h
  subst e1
  obtain ⟨s1, s2, s3⟩ := sync_records hok.factor hok.recs hsync d
  obtain ⟨_, u2, _⟩ := updPosition_frame hupd
  have u3 := updPosition_factor hupd
  have hi2r : (initTr (initTr i1 f'.pool.tick lo') f'.pool.tick up').records = i1.records := by
    unfold initTr; split <;> (split <;> rfl)
  have hi2f : (initTr (initTr i1 f'.pool.tick lo') f'.pool.tick up').factor = i1.factor := by
    unfold initTr; split <;> (split <;> rfl)
  simp only
  rw [u2, hi2r]
  exact ⟨s1, ⟨s2, by rw [u3, hi2f, s3]; exact hok.factor⟩⟩

theorem withdrawI_records {s s' : Full} {owner : String} {id : Nat} {req o0 o1 : Int}
    (hok : IncOK s) (h : CLInc.withdrawPosition s owner id req = some (s', o0, o1)) (d : String) :
    sumRem d s'.inc.records ≤ sumRem d s.inc.records ∧ IncOK s' := by
  unfold CLInc.withdrawPosition at h
  simp only [Option.bind_eq_some_iff, Option.map_eq_some_iff, Prod.mk.injEq] at h
  obtain ⟨pos, _, ⟨f', w0, w1⟩, _, i1, hsync, ⟨i2, coll, forf, byUp⟩, hclaim, b, _, i3, hupd, i4, hred, e1, _⟩ := h
  simp only at hupd hred e1
  subst e1
  obtain ⟨s1, s2, s3⟩ := sync_records hok.factor hok.recs hsync d
  obtain ⟨_, c2, _⟩ := claimAll_frame hclaim
  have c3 := claimAll_factor hclaim
  obtain ⟨_, u2, _⟩ := updPosition_frame hupd
  have u3 := updPosition_factor hupd
  obtain ⟨r1, r2⟩ := redeposit_frame hred
  simp only at u2 u3
  simp only
  rw [r1, u2, c2]
  exact ⟨s1, ⟨s2, by rw [r2, u3, c3, s3]; exact hok.factor⟩⟩

/-- **the records only ever decrease, and a record never holds more than was put in**: per denom, after any successful
message the total remaining amount is at most the total before plus what a `CreateIncentive` in that message added;
remaining amounts and rates stay non-negative. -/
theorem applyI_records {s s' : Full} {op : IOp} (hok : IncOK s) (h : applyI s op = some s') (d : String) :
    sumRem d s'.inc.records ≤ sumRem d s.inc.records + created d op ∧ IncOK s' := by
  cases op with
  | fee fop =>
    have hc : created d (.fee fop) = 0 := rfl
    rw [hc, Int.add_zero]
    cases fop with
    | create o l u a0 a1 =>
      simp only [applyI, Option.map_eq_some_iff] at h
      obtain ⟨⟨s1, id, x0, x1, liq, lo, up⟩, h, e⟩ := h
      simp only at e; subst e
      exact createMinI_records hok h d
    | withdraw o id liq =>
      simp only [applyI, Option.map_eq_some_iff] at h
      obtain ⟨⟨s1, o0, o1⟩, h, e⟩ := h
      simp only at e; subst e
      exact withdrawI_records hok h d
    | add o id a0 a1 =>
      simp only [applyI, Option.map_eq_some_iff] at h
      obtain ⟨⟨s2, nid, x0, x1⟩, h, e⟩ := h
      simp only at e; subst e
      unfold CLInc.addToPosition at h
      simp only [Option.bind_eq_some_iff] at h
      obtain ⟨pos, _, h⟩ := h
      split at h
      · cases h
      · split at h
        · cases h
        · split at h
          · cases h
          · simp only [Option.bind_eq_some_iff] at h
            obtain ⟨⟨s1, w0, w1⟩, hw, h⟩ := h
            simp only at h
            split at h
            · cases h
            · simp only [Option.map_eq_some_iff, Prod.mk.injEq] at h
              obtain ⟨⟨s3, nid', y0, y1, liq, lo, up⟩, hc, e1, _⟩ := h
              simp only at e1; subst e1
              obtain ⟨w1', w2'⟩ := withdrawI_records hok hw d
              obtain ⟨c1, c2⟩ := createMinI_records w2' hc d
              exact ⟨by omega, c2⟩
    | transfer sd id n =>
      simp only [applyI, CLInc.transferPosition, Option.map_eq_some_iff] at h
      obtain ⟨f', _, e⟩ := h
      subst e
      exact ⟨Int.le_refl _, ⟨hok.recs, hok.factor⟩⟩
    | swap og zfo spec =>
      simp only [applyI, Option.map_eq_some_iff] at h
      obtain ⟨⟨s1, ain, aout, fee⟩, h, e⟩ := h
      simp only at e; subst e
      unfold CLInc.swap at h
      simp only [Option.bind_eq_some_iff] at h
      obtain ⟨⟨f', ai, ao, fe⟩, _, trs, _, h⟩ := h
      simp only at h
      split at h
      · simp only [Option.some.injEq, Prod.mk.injEq] at h
        obtain ⟨e1, _⟩ := h
        subst e1
        exact ⟨Int.le_refl _, ⟨hok.recs, hok.factor⟩⟩
      · simp only [Option.bind_eq_some_iff, Option.map_eq_some_iff, Prod.mk.injEq] at h
        obtain ⟨i1, hsync, trk, _, e1, _⟩ := h
        subst e1
        obtain ⟨s1, s2, s3⟩ := sync_records hok.factor hok.recs hsync d
        exact ⟨s1, ⟨s2, by show 0 < i1.factor; rw [s3]; exact hok.factor⟩⟩
    | collect sd id =>
      simp only [applyI, CLInc.collectSpread, Option.map_eq_some_iff] at h
      obtain ⟨⟨s1, c0, c1⟩, ⟨⟨f', d0, d1⟩, _, e0⟩, e⟩ := h
      simp only [Prod.mk.injEq] at e0
      obtain ⟨e0, _, _⟩ := e0
      simp only at e; subst e; subst e0
      exact ⟨Int.le_refl _, ⟨hok.recs, hok.factor⟩⟩
  | incentive id dn a r st u =>
    simp only [applyI] at h
    unfold createIncentive at h
    split at h
    · cases h
    · rename_i ha
      split at h
      · cases h
      · split at h
        · cases h
        · rename_i hr
          split at h
          · cases h
          · simp only [Option.bind_eq_some_iff, Option.map_eq_some_iff] at h
            obtain ⟨i1, hsync, b, _, e⟩ := h
            subst e
            obtain ⟨s1, s2, s3⟩ := sync_records hok.factor hok.recs hsync d
            have hP := P18_pos
            have hamt : 0 ≤ a * P18 := Int.mul_nonneg (by omega) (by omega)
            refine ⟨?_, ⟨recsOK_insert ⟨by simp only; omega, by simp only; exact hamt⟩ s2, by show 0 < i1.factor; rw [s3]; exact hok.factor⟩⟩
            show sumRem d (insertRec i1.records _) ≤ _
            rw [sumRem_insert]
            simp only [created]
            omega
  | advance ns =>
    simp only [applyI, Option.some.injEq] at h
    subst h
    exact ⟨by simp only [created, CLInc.advance]; omega, ⟨hok.recs, hok.factor⟩⟩
  | sync =>
    simp only [applyI, syncNow, Option.map_eq_some_iff] at h
    obtain ⟨i1, hsync, e⟩ := h
    subst e
    obtain ⟨s1, s2, s3⟩ := sync_records hok.factor hok.recs hsync d
    exact ⟨by simp only [created]; omega, ⟨s2, by show 0 < i1.factor; rw [s3]; exact hok.factor⟩⟩
  | icollect sd id =>
    simp only [applyI, Option.map_eq_some_iff] at h
    obtain ⟨⟨s1, c, f⟩, h, e⟩ := h
    simp only at e; subst e
    unfold collectIncentives at h
    simp only [Option.bind_eq_some_iff] at h
    obtain ⟨pos, _, h⟩ := h
    split at h
    · cases h
    · simp only [Option.bind_eq_some_iff, Option.map_eq_some_iff, Prod.mk.injEq] at h
      obtain ⟨i1, hsync, ⟨i2, coll, forf, byUp⟩, hclaim, b, _, e, _⟩ := h
      subst e
      obtain ⟨s1, s2, s3⟩ := sync_records hok.factor hok.recs hsync d
      obtain ⟨_, c2, _⟩ := claimAll_frame hclaim
      have c3 := claimAll_factor hclaim
      refine ⟨?_, ⟨?_, ?_⟩⟩
      · show sumRem d i2.records ≤ _
        rw [c2]; simp only [created]; omega
      · show RecsOK i2.records
        rw [c2]; exact s2
      · show 0 < i2.factor
        rw [c3, s3]; exact hok.factor

/-- what the successful messages of a history added to the records of denom `d`. -/
def createdHist (d : String) (s : Full) : List IOp → Int
  | [] => 0
  | op :: ops => (match applyI s op with | some _ => created d op | none => 0) + createdHist d (stepI s op) ops

theorem runI_records {s : Full} (ops : List IOp) (hok : IncOK s) (d : String) :
    sumRem d (runI s ops).inc.records ≤ sumRem d s.inc.records + createdHist d s ops ∧ IncOK (runI s ops) := by
  induction ops generalizing s with
  | nil => exact ⟨by simp [runI, createdHist], hok⟩
  | cons op ops ih =>
    show sumRem d (runI (stepI s op) ops).inc.records ≤ _ ∧ IncOK (runI (stepI s op) ops)
    simp only [createdHist]
    unfold stepI at ih ⊢
    cases h : applyI s op with
    | none =>
      simp only
      have := ih (s := s) hok
      exact ⟨by omega, this.2⟩
    | some s' =>
      simp only
      obtain ⟨a1, a2⟩ := applyI_records hok h d
      have := ih (s := s') a2
      exact ⟨by omega, this.2⟩

end OsmoVerif.CLIncP
