/-
Observational equivalence `Sim` of lockup states (what a KV store does not remember: the insertion order of
records, index entries and accumulation entries; the accumulation store of the non-denomination "" is left
out) and the proof that it is a bisimulation: every operation of `Model/Lockup.lean` maps equivalent states to
equivalent states with the same outcome.  Core only.
-/
import OsmoVerif.Proofs.LockupEff
import OsmoVerif.Model.LockupGenesis
namespace OsmoVerif.Lockup

/-! ## insertion sort of a permutation -/

theorem perm_insertBy {α : Type} (le : α → α → Bool) (a : α) (l : List α) : (insertBy le a l).Perm (a :: l) := by
  induction l with
  | nil => exact List.Perm.refl _
  | cons b bs ih =>
    simp only [insertBy]
    split
    · exact List.Perm.refl _
    · exact ((List.Perm.cons b ih).trans (List.Perm.swap a b bs))

theorem perm_isortBy {α : Type} (le : α → α → Bool) (l : List α) : (isortBy le l).Perm l := by
  induction l with
  | nil => exact List.Perm.refl _
  | cons a as ih => exact (perm_insertBy le a _).trans (List.Perm.cons a ih)

theorem pairwise_insertBy {α : Type} (le : α → α → Bool) (tot : ∀ a b, le a b = true ∨ le b a = true)
    (tr : ∀ a b c, le a b = true → le b c = true → le a c = true) (a : α) (l : List α)
    (h : l.Pairwise (fun x y => le x y = true)) : (insertBy le a l).Pairwise (fun x y => le x y = true) := by
  induction l with
  | nil => simp [insertBy]
  | cons b bs ih =>
    simp only [insertBy]
    have hb := List.pairwise_cons.mp h
    split
    · rename_i hab
      refine List.pairwise_cons.mpr ⟨?_, h⟩
      intro x hx
      rcases List.mem_cons.mp hx with e | e
      · rw [e]; exact hab
      · exact tr _ _ _ hab (hb.1 x e)
    · rename_i hab
      have hba : le b a = true := by
        rcases tot a b with h1 | h1
        · exact absurd h1 hab
        · exact h1
      refine List.pairwise_cons.mpr ⟨?_, ih hb.2⟩
      intro x hx
      rcases (mem_insertBy le a x bs).mp hx with e | e
      · rw [e]; exact hba
      · exact hb.1 x e

theorem pairwise_isortBy {α : Type} (le : α → α → Bool) (tot : ∀ a b, le a b = true ∨ le b a = true)
    (tr : ∀ a b c, le a b = true → le b c = true → le a c = true) (l : List α) :
    (isortBy le l).Pairwise (fun x y => le x y = true) := by
  induction l with
  | nil => simp [isortBy]
  | cons a as ih => exact pairwise_insertBy le tot tr a _ ih

/-- sorting by a total order forgets the order of the input. -/
theorem isortBy_perm_eq {α : Type} (le : α → α → Bool) (tot : ∀ a b, le a b = true ∨ le b a = true)
    (tr : ∀ a b c, le a b = true → le b c = true → le a c = true)
    (anti : ∀ a b, le a b = true → le b a = true → a = b) {l₁ l₂ : List α} (h : l₁.Perm l₂) :
    isortBy le l₁ = isortBy le l₂ :=
  List.Perm.eq_of_pairwise (le := fun x y => le x y = true) (fun a b _ _ => anti a b)
    (pairwise_isortBy le tot tr l₁) (pairwise_isortBy le tot tr l₂)
    ((perm_isortBy le l₁).trans (h.trans (perm_isortBy le l₂).symm))

theorem sortNat_perm {l₁ l₂ : List Nat} (h : l₁.Perm l₂) : sortNat l₁ = sortNat l₂ := by
  unfold sortNat
  apply isortBy_perm_eq _ _ _ _ h
  · intro a b; simp only [decide_eq_true_eq]; omega
  · intro a b c; simp only [decide_eq_true_eq]; omega
  · intro a b; simp only [decide_eq_true_eq]; omega

theorem lsum_perm (f : Lock → Int) {L₁ L₂ : List Lock} (h : L₁.Perm L₂) : lsum f L₁ = lsum f L₂ := by
  induction h with
  | nil => rfl
  | cons x _ ih => simp only [lsum, ih]
  | swap x y l => simp only [lsum]; omega
  | trans _ _ ih1 ih2 => rw [ih1, ih2]

/-! ## the lock store up to order -/

theorem getLockL_perm {L₁ L₂ : List Lock} (hn : (ids L₁).Nodup) (h : L₁.Perm L₂) (id : Nat) :
    getLockL L₁ id = getLockL L₂ id := by
  have hn2 : (ids L₂).Nodup := (List.Perm.nodup_iff (h.map _)).mp hn
  cases h1 : getLockL L₁ id with
  | some l =>
    obtain ⟨hm, hid⟩ := getLockL_some h1
    rw [← hid]
    exact (getLockL_of_mem hn2 (h.mem_iff.mp hm)).symm
  | none =>
    have := getLockL_none h1
    symm
    unfold getLockL
    rw [List.find?_eq_none]
    intro x hx
    simpa using this x (h.mem_iff.mpr hx)

theorem setLockL_perm_cons {L : List Lock} (l : Lock) (hn : (ids L).Nodup) :
    (setLockL L l).Perm (l :: L.filter (fun x => x.id ≠ l.id)) := by
  induction L with
  | nil => exact List.Perm.refl _
  | cons x xs ih =>
    simp only [ids, List.map_cons, List.nodup_cons] at hn
    simp only [setLockL]
    by_cases hx : x.id = l.id
    · simp only [hx, if_true, List.filter_cons, ne_eq, not_true_eq_false, decide_false]
      have : xs.filter (fun y => decide (y.id ≠ l.id)) = xs := by
        rw [List.filter_eq_self]
        intro y hy
        simp only [ne_eq, decide_not, Bool.not_eq_eq_eq_not, Bool.not_true, decide_eq_false_iff_not]
        intro e
        exact hn.1 (List.mem_map.mpr ⟨y, hy, by rw [e, hx]⟩)
      simp only [Bool.false_eq_true, if_false, this]
      exact List.Perm.refl _
    · simp only [hx, if_false, List.filter_cons, ne_eq, not_false_eq_true, decide_true, if_true]
      exact (List.Perm.cons x (ih hn.2)).trans (List.Perm.swap l x _)

theorem setLockL_perm {L₁ L₂ : List Lock} (l : Lock) (hn : (ids L₁).Nodup) (h : L₁.Perm L₂) :
    (setLockL L₁ l).Perm (setLockL L₂ l) := by
  have hn2 : (ids L₂).Nodup := (List.Perm.nodup_iff (h.map _)).mp hn
  exact (setLockL_perm_cons l hn).trans ((List.Perm.cons l (h.filter _)).trans (setLockL_perm_cons l hn2).symm)

theorem nodup_ids_setLockL {L : List Lock} (l : Lock) (hn : (ids L).Nodup) : (ids (setLockL L l)).Nodup :=
  (put_setLockL l hn).nodup

theorem nodup_ids_deleteLockL {L : List Lock} (id : Nat) (hn : (ids L).Nodup) : (ids (deleteLockL L id)).Nodup := by
  unfold ids deleteLockL
  exact (List.filter_sublist.map _).nodup hn

/-! ## the relation -/

/-- two states a KV store cannot tell apart (outside the accumulation tree of the non-denomination ""). -/
structure Sim (s t : State) : Prop where
  bal : s.bal = t.bal
  modBal : s.modBal = t.modBal
  last : s.lastLockId = t.lastLockId
  allowed : s.forceAllowed = t.forceAllowed
  nodup : (ids s.locks).Nodup
  locks : s.locks.Perm t.locks
  refs : s.refs.Perm t.refs
  accum : ∀ dn, dn ≠ "" → ∀ d, accSumGE s.accum dn d = accSumGE t.accum dn d

theorem Sim.refl {s : State} (hn : (ids s.locks).Nodup) : Sim s s :=
  ⟨rfl, rfl, rfl, rfl, hn, List.Perm.refl _, List.Perm.refl _, fun _ _ _ => rfl⟩

theorem Sim.symm {s t : State} (h : Sim s t) : Sim t s :=
  ⟨h.bal.symm, h.modBal.symm, h.last.symm, h.allowed.symm, (List.Perm.nodup_iff (h.locks.map _)).mp h.nodup,
    h.locks.symm, h.refs.symm, fun dn hdn d => (h.accum dn hdn d).symm⟩

theorem Sim.trans {s t u : State} (h1 : Sim s t) (h2 : Sim t u) : Sim s u :=
  ⟨h1.bal.trans h2.bal, h1.modBal.trans h2.modBal, h1.last.trans h2.last, h1.allowed.trans h2.allowed, h1.nodup,
    h1.locks.trans h2.locks, h1.refs.trans h2.refs, fun dn hdn d => (h1.accum dn hdn d).trans (h2.accum dn hdn d)⟩

/-- lifting of a relation to `Option` (both fail, or both succeed with related results). -/
def ORel {α β : Type} (R : α → β → Prop) : Option α → Option β → Prop
  | none, none => True
  | some a, some b => R a b
  | _, _ => False

theorem ORel.bind {α β γ δ : Type} {R : α → β → Prop} {Q : γ → δ → Prop} {a : Option α} {b : Option β}
    {f : α → Option γ} {g : β → Option δ} (h : ORel R a b) (hf : ∀ x y, R x y → ORel Q (f x) (g y)) :
    ORel Q (a.bind f) (b.bind g) := by
  cases a <;> cases b
  · trivial
  · exact h.elim
  · exact h.elim
  · exact hf _ _ h

theorem ORel.map {α β γ δ : Type} {R : α → β → Prop} {Q : γ → δ → Prop} {a : Option α} {b : Option β}
    {f : α → γ} {g : β → δ} (h : ORel R a b) (hf : ∀ x y, R x y → Q (f x) (g y)) :
    ORel Q (a.map f) (b.map g) := by
  cases a <;> cases b
  · trivial
  · exact h.elim
  · exact h.elim
  · exact hf _ _ h

/-- results `(state, value)`: equivalent states, equal values. -/
def SimP {α : Type} (p q : State × α) : Prop := Sim p.1 q.1 ∧ p.2 = q.2

abbrev SimS := ORel Sim
abbrev SimO {α : Type} := ORel (SimP (α := α))

/-! ## reads -/

theorem getLock_sim {s t : State} (h : Sim s t) (id : Nat) : getLock s id = getLock t id :=
  getLockL_perm h.nodup h.locks id

theorem idsWhere_sim {s t : State} (h : Sim s t) (p : RefKey → Bool) : idsWhere s p = idsWhere t p := by
  unfold idsWhere
  exact sortNat_perm ((h.refs.filter _).map _)

theorem accumQuery_sim {s t : State} (h : Sim s t) (dn : Denom) (hdn : dn ≠ "") (d : Int) :
    accumQuery s dn d = accumQuery t dn d := by
  unfold accumQuery
  split
  · rfl
  · exact h.accum dn hdn d

/-! ## primitive writes -/

theorem setLock_sim {s t : State} (h : Sim s t) (l : Lock) : Sim (setLock s l) (setLock t l) :=
  ⟨h.bal, h.modBal, h.last, h.allowed, nodup_ids_setLockL l h.nodup, setLockL_perm l h.nodup h.locks, h.refs, h.accum⟩

theorem deleteLock_sim {s t : State} (h : Sim s t) (id : Nat) : Sim (deleteLock s id) (deleteLock t id) :=
  ⟨h.bal, h.modBal, h.last, h.allowed, nodup_ids_deleteLockL id h.nodup, h.locks.filter _, h.refs, h.accum⟩

theorem accIncrease_sim {s t : State} (h : Sim s t) (dn : Denom) (k a : Int) :
    Sim (accIncrease s dn k a) (accIncrease t dn k a) :=
  ⟨h.bal, h.modBal, h.last, h.allowed, h.nodup, h.locks, h.refs, fun dn' hdn d => by
    simp only [accIncrease, accSumGE_aadd, h.accum dn' hdn d]⟩

theorem foldl_sim {α : Type} (f : State → α → State) (hf : ∀ s t x, Sim s t → Sim (f s x) (f t x)) :
    ∀ (l : List α) {s t : State}, Sim s t → Sim (l.foldl f s) (l.foldl f t)
  | [], _, _, h => h
  | x :: xs, _, _, h => foldl_sim f hf xs (hf _ _ x h)

theorem foldlM_sim {α : Type} (f : State → α → Option State) (hf : ∀ s t x, Sim s t → SimS (f s x) (f t x)) :
    ∀ (l : List α) {s t : State}, Sim s t → SimS (l.foldlM f s) (l.foldlM f t)
  | [], _, _, h => h
  | x :: xs, s, t, h => by
    simp only [List.foldlM_cons, Option.bind_eq_bind]
    exact ORel.bind (hf s t x h) (fun _ _ h' => foldlM_sim f hf xs h')

theorem accIncreaseCoins_sim {s t : State} (h : Sim s t) (k : Int) (c : Coins) :
    Sim (accIncreaseCoins s k c) (accIncreaseCoins t k c) :=
  foldl_sim _ (fun _ _ x h => accIncrease_sim h x.1 k x.2) c h

theorem accDecreaseCoins_sim {s t : State} (h : Sim s t) (k : Int) (c : Coins) :
    Sim (accDecreaseCoins s k c) (accDecreaseCoins t k c) :=
  foldl_sim _ (fun _ _ x h => accIncrease_sim h x.1 k (-x.2)) c h

theorem lockInternal_sim {s t : State} (h : Sim s t) (l : Lock) (c : Coins) :
    Sim (lockInternal s l c) (lockInternal t l c) :=
  accIncreaseCoins_sim (setLock_sim h l) _ _

theorem sendCoinToModule_sim {s t : State} (h : Sim s t) (o : Addr) (dn : Denom) (a : Int) :
    SimS (sendCoinToModule s o dn a) (sendCoinToModule t o dn a) := by
  unfold sendCoinToModule
  rw [h.bal, h.modBal]
  split
  · trivial
  · split
    · trivial
    · exact ⟨rfl, rfl, h.last, h.allowed, h.nodup, h.locks, h.refs, h.accum⟩

theorem sendCoinFromModule_sim {s t : State} (h : Sim s t) (o : Addr) (dn : Denom) (a : Int) :
    SimS (sendCoinFromModule s o dn a) (sendCoinFromModule t o dn a) := by
  unfold sendCoinFromModule
  rw [h.bal, h.modBal]
  split
  · trivial
  · split
    · trivial
    · exact ⟨rfl, rfl, h.last, h.allowed, h.nodup, h.locks, h.refs, h.accum⟩

theorem mintCoinToModule_sim {s t : State} (h : Sim s t) (dn : Denom) (a : Int) :
    SimS (mintCoinToModule s dn a) (mintCoinToModule t dn a) := by
  unfold mintCoinToModule
  rw [h.modBal]
  split
  · trivial
  · exact ⟨h.bal, rfl, h.last, h.allowed, h.nodup, h.locks, h.refs, h.accum⟩

theorem burnCoinFromModule_sim {s t : State} (h : Sim s t) (dn : Denom) (a : Int) :
    SimS (burnCoinFromModule s dn a) (burnCoinFromModule t dn a) := by
  unfold burnCoinFromModule
  rw [h.modBal]
  split
  · trivial
  · split
    · trivial
    · exact ⟨h.bal, rfl, h.last, h.allowed, h.nodup, h.locks, h.refs, h.accum⟩

theorem burnCLShares_sim {s t : State} (h : Sim s t) (c : Coins) : SimS (burnCLShares s c) (burnCLShares t c) :=
  foldlM_sim _ (fun _ _ x h => by
    split
    · exact burnCoinFromModule_sim h x.1 x.2
    · exact h) c h

theorem sendToModule_sim {s t : State} (h : Sim s t) (o : Addr) (c : Coins) :
    SimS (sendToModule s o c) (sendToModule t o c) :=
  foldlM_sim _ (fun _ _ x h => sendCoinToModule_sim h o x.1 x.2) c h

theorem sendFromModule_sim {s t : State} (h : Sim s t) (o : Addr) (c : Coins) :
    SimS (sendFromModule s o c) (sendFromModule t o c) :=
  foldlM_sim _ (fun _ _ x h => sendCoinFromModule_sim h o x.1 x.2) c h

/-! ## index writes -/

theorem addRefsL_perm : ∀ (ks : List RefKey) {r₁ r₂ : List (RefKey × Nat)} (id : Nat), r₁.Perm r₂ →
    ORel List.Perm (addRefsL r₁ ks id) (addRefsL r₂ ks id)
  | [], _, _, _, h => h
  | k :: ks, r₁, r₂, id, h => by
    simp only [addRefsL, List.foldlM_cons, Option.bind_eq_bind]
    apply ORel.bind (R := List.Perm)
    · unfold addRef
      by_cases hm : (k, id) ∈ r₁
      · rw [if_pos hm, if_pos (h.mem_iff.mp hm)]; trivial
      · rw [if_neg hm, if_neg (fun e => hm (h.mem_iff.mpr e))]; exact List.Perm.cons _ h
    · intro x y hxy
      exact addRefsL_perm ks id hxy

theorem addLockRefs_sim {s t : State} (h : Sim s t) (l : Lock) : SimS (addLockRefs s l) (addLockRefs t l) := by
  unfold addLockRefs
  exact ORel.map (addRefsL_perm (indexKeys l) l.id h.refs)
    (fun _ _ hr => ⟨h.bal, h.modBal, h.last, h.allowed, h.nodup, h.locks, hr, h.accum⟩)

theorem deleteLockRefs_sim {s t : State} (h : Sim s t) (pfx : Bool) (l : Lock) :
    Sim (deleteLockRefs s pfx l) (deleteLockRefs t pfx l) :=
  ⟨h.bal, h.modBal, h.last, h.allowed, h.nodup, h.locks, h.refs.filter _, h.accum⟩

end OsmoVerif.Lockup
