/- Real-valued reading of the raw `Dec` arithmetic (Mathlib reals; nothing here is used by the executable model):
the value `dv x = x/10^18`, the exact error of the half-even `Quo` (truncated division to 36 decimals, then half-even
chop to 18: at most `(1/2 + 10^-18)·10^-18`) and `Mul` (at most `1/2·10^-18`), floors and ceilings. -/
import OsmoVerif.Proofs.GammRealSpec
import Mathlib.Algebra.Order.Floor.Ring
import Mathlib.Algebra.Order.Field.Basic
import Mathlib.Algebra.Order.Archimedean.Real.Basic
import Mathlib.Tactic.Linarith
import Mathlib.Tactic.Ring
import Mathlib.Tactic.Positivity
import Mathlib.Tactic.NormNum
import Mathlib.Tactic.FieldSimp
import Mathlib.Tactic.Push

namespace OsmoVerif.GammMath
open OsmoVerif.Num OsmoVerif.MathM OsmoVerif.Gen OsmoVerif.Spec

/-- the real number a raw `Dec` stands for. -/
noncomputable def dv (x : Int) : ℝ := (x : ℝ) / 10 ^ 18

/-- the rounding error of one `Dec.Quo`, as a value: `(1/2 + 10^-18)·10^-18` (the `10^-36` part is the truncated
division to 36 decimals that precedes the half-even chop). -/
noncomputable def quoErr : ℝ := (1 / 2 + 1 / 10 ^ 18) / 10 ^ 18
/-- the rounding error of one `Dec.Mul`, as a value: `1/2·10^-18`. -/
noncomputable def mulErr : ℝ := 1 / 2 / 10 ^ 18

theorem quoErr_pos : 0 < quoErr := by unfold quoErr; positivity
theorem mulErr_pos : 0 < mulErr := by unfold mulErr; positivity
theorem mulErr_le_quoErr : mulErr ≤ quoErr := by unfold mulErr quoErr; norm_num

theorem P18_cast : ((P18 : Int) : ℝ) = 10 ^ 18 := by rw [P18_val]; norm_num

theorem dv_P18 : dv P18 = 1 := by unfold dv; rw [P18_cast]; field_simp
theorem dv_zero : dv 0 = 0 := by unfold dv; simp
theorem dv_toDec (n : Int) : dv (toDec n) = n := by
  unfold dv toDec; rw [Int.cast_mul, P18_cast]; field_simp
theorem dv_add (a b : Int) : dv (a + b) = dv a + dv b := by unfold dv; push_cast; ring
theorem dv_sub (a b : Int) : dv (a - b) = dv a - dv b := by unfold dv; push_cast; ring
theorem dv_neg (a : Int) : dv (-a) = -dv a := by unfold dv; push_cast; ring
theorem dv_mul_int (a n : Int) : dv (a * n) = dv a * n := by unfold dv; push_cast; ring
theorem dv_int_mul (n a : Int) : dv (n * a) = n * dv a := by unfold dv; push_cast; ring
theorem dv_le {a b : Int} (h : a ≤ b) : dv a ≤ dv b := by
  unfold dv; exact div_le_div_of_nonneg_right (by exact_mod_cast h) (by positivity)
theorem dv_lt {a b : Int} (h : a < b) : dv a < dv b := by
  unfold dv; exact div_lt_div_of_pos_right (by exact_mod_cast h) (by positivity)
theorem dv_pos {a : Int} (h : 0 < a) : 0 < dv a := by have := dv_lt h; rwa [dv_zero] at this
theorem dv_nonneg {a : Int} (h : 0 ≤ a) : 0 ≤ dv a := by have := dv_le h; rwa [dv_zero] at this

/-- a ratio of raw values is the ratio of the values. -/
theorem dv_div (a b : Int) : dv a / dv b = (a : ℝ) / b := by
  unfold dv
  by_cases hb : (b : ℝ) = 0
  · simp [hb]
  · field_simp

/-! ### floors and ceilings -/

theorem floor_dv {n t : Int} (h1 : t * P18 ≤ n) (h2 : n < (t + 1) * P18) : ⌊dv n⌋ = t := by
  rw [Int.floor_eq_iff]
  have a1 : ((t * P18 : Int) : ℝ) ≤ (n : ℝ) := by exact_mod_cast h1
  have a2 : (n : ℝ) < (((t + 1) * P18 : Int) : ℝ) := by exact_mod_cast h2
  push_cast at a1 a2; rw [P18_cast] at a1 a2
  unfold dv
  constructor
  · rw [le_div_iff₀ (by positivity)]; exact a1
  · rw [div_lt_iff₀ (by positivity)]; exact a2

theorem ceil_dv {n t : Int} (h1 : n ≤ t * P18) (h2 : (t - 1) * P18 < n) : ⌈dv n⌉ = t := by
  rw [Int.ceil_eq_iff]
  have a1 : (n : ℝ) ≤ ((t * P18 : Int) : ℝ) := by exact_mod_cast h1
  have a2 : (((t - 1) * P18 : Int) : ℝ) < (n : ℝ) := by exact_mod_cast h2
  push_cast at a1 a2; rw [P18_cast] at a1 a2
  unfold dv
  constructor
  · rw [lt_div_iff₀ (by positivity)]; exact a2
  · rw [div_le_iff₀ (by positivity)]; exact a1

/-! ### rounding errors -/

/-- half-even chop by 10^18: at most half a unit from the exact quotient. -/
theorem chopRound_real (n : Int) : |((chopRound P18 n : Int) : ℝ) - (n : ℝ) / 10 ^ 18| ≤ 1 / 2 := by
  obtain ⟨a, b, _⟩ := chopRound_isHalfEven P18 n P18_pos P18_even
  generalize chopRound P18 n = r at *
  have a' : ((2 * (n - r * P18) : Int) : ℝ) ≤ ((P18 : Int) : ℝ) := by exact_mod_cast a
  have b' : ((-P18 : Int) : ℝ) ≤ ((2 * (n - r * P18) : Int) : ℝ) := by exact_mod_cast b
  push_cast at a' b'; rw [P18_cast] at a' b'
  have hx : (n : ℝ) / 10 ^ 18 * 10 ^ 18 = n := by field_simp
  generalize (n : ℝ) / 10 ^ 18 = x at *
  rw [abs_le]
  constructor <;> linarith

/-- truncated division: strictly less than one unit from the exact quotient. -/
theorem tdiv_real (n b : Int) (hb : b ≠ 0) : |((n.tdiv b : Int) : ℝ) - (n : ℝ) / b| < 1 := by
  have key : ∀ (n b : Int), 0 < b → |((n.tdiv b : Int) : ℝ) - (n : ℝ) / b| < 1 := by
    intro n b hb
    obtain ⟨e, hp, hn⟩ := tdiv_tmod_spec n b hb
    have hbr : (0 : ℝ) < b := by exact_mod_cast hb
    have hr : -b < n.tmod b ∧ n.tmod b < b := by
      rcases Int.lt_or_le n 0 with h | h
      · have := hn h; omega
      · have := hp h; omega
    generalize n.tdiv b = q at *
    generalize n.tmod b = r at *
    have e' : ((q * b + r : Int) : ℝ) = (n : ℝ) := by exact_mod_cast e
    have r1 : ((-b : Int) : ℝ) < (r : ℝ) := by exact_mod_cast hr.1
    have r2 : (r : ℝ) < (b : ℝ) := by exact_mod_cast hr.2
    push_cast at e' r1
    have e2 : (q : ℝ) - (n : ℝ) / b = -((r : ℝ) / b) := by
      rw [← e']; field_simp; ring
    rw [e2, abs_neg, abs_div, abs_of_pos hbr, div_lt_one hbr, abs_lt]
    exact ⟨r1, r2⟩
  rcases Int.lt_or_le 0 b with h | h
  · exact key n b h
  · have hneg : 0 < -b := by omega
    have := key n (-b) hneg
    rw [Int.tdiv_neg] at this
    have e : ((-(n.tdiv b) : Int) : ℝ) - (n : ℝ) / ((-b : Int) : ℝ) = -(((n.tdiv b : Int) : ℝ) - (n : ℝ) / b) := by
      push_cast; rw [div_neg]; ring
    rw [e, abs_neg] at this
    exact this

/-- EXACT rational error of `Dec.Quo`: the result is within `(1/2 + 10^-18)·10^-18` of the exact quotient of the
values (truncation at 36 decimals, then half-even at 18). -/
theorem Dec_quo_real_error {a b r : Int} (h : Dec.quo a b = some r) :
    b ≠ 0 ∧ |dv r - (a : ℝ) / b| ≤ quoErr := by
  unfold Dec.quo at h
  split at h
  · cases h
  · rename_i hb
    refine ⟨hb, ?_⟩
    rw [chkDec_some h]
    have hbr : (b : ℝ) ≠ 0 := by exact_mod_cast hb
    have h1 := chopRound_real ((a * (P18 * P18)).tdiv b)
    have h2 := tdiv_real (a * (P18 * P18)) b hb
    generalize chopRound P18 ((a * (P18 * P18)).tdiv b) = r at *
    generalize (a * (P18 * P18)).tdiv b = t at *
    push_cast at h2; rw [P18_cast] at h2
    have e : (a : ℝ) * (10 ^ 18 * 10 ^ 18) / b = (a : ℝ) / b * 10 ^ 18 * 10 ^ 18 := by ring
    rw [e] at h2
    rw [abs_le] at h1; rw [abs_lt] at h2
    have hs : (t : ℝ) / 10 ^ 18 * 10 ^ 18 = t := by field_simp
    generalize (t : ℝ) / 10 ^ 18 = s at *
    generalize (a : ℝ) / b = x at *
    have key : |(r : ℝ) - x * 10 ^ 18| ≤ 1 / 2 + 1 / 10 ^ 18 := by
      rw [abs_le]
      constructor <;> linarith
    unfold dv quoErr
    have e3 : (r : ℝ) / 10 ^ 18 - x = ((r : ℝ) - x * 10 ^ 18) / 10 ^ 18 := by field_simp
    rw [e3, abs_div, abs_of_pos (show (0 : ℝ) < 10 ^ 18 by positivity)]
    exact div_le_div_of_nonneg_right key (by positivity)

/-- the same, read on values: `|value(r) − value(a)/value(b)| ≤ quoErr`. -/
theorem Dec_quo_dv_error {a b r : Int} (h : Dec.quo a b = some r) :
    dv b ≠ 0 ∧ |dv r - dv a / dv b| ≤ quoErr := by
  obtain ⟨hb, he⟩ := Dec_quo_real_error h
  rw [dv_div]
  refine ⟨?_, he⟩
  unfold dv
  have : (b : ℝ) ≠ 0 := by exact_mod_cast hb
  positivity

/-- EXACT error of `Dec.Mul`: within `1/2·10^-18` of the product of the values. -/
theorem Dec_mul_dv_error {a b r : Int} (h : Dec.mul a b = some r) : |dv r - dv a * dv b| ≤ mulErr := by
  unfold Dec.mul at h
  rw [chkDec_some h]
  have h1 := chopRound_real (a * b)
  generalize chopRound P18 (a * b) = r at *
  push_cast at h1
  unfold dv mulErr
  have e : (r : ℝ) / 10 ^ 18 - (a : ℝ) / 10 ^ 18 * ((b : ℝ) / 10 ^ 18) = ((r : ℝ) - (a : ℝ) * b / 10 ^ 18) / 10 ^ 18 := by
    field_simp
  rw [e, abs_div, abs_of_pos (show (0 : ℝ) < 10 ^ 18 by positivity)]
  exact div_le_div_of_nonneg_right h1 (by positivity)

/-- `feeRatio` as a value: `1 − (1 − nw)·spread` up to the half-even product. -/
theorem feeRatio_dv_error {nw spread fr : Int} (h : feeRatio nw spread = some fr) :
    |dv fr - (1 - (1 - dv nw) * dv spread)| ≤ mulErr := by
  rw [feeRatio_spec h]
  have h1 := chopRound_real ((P18 - nw) * spread)
  generalize chopRound P18 ((P18 - nw) * spread) = m at *
  push_cast at h1; rw [P18_cast] at h1
  rw [dv_sub, dv_P18]
  unfold dv mulErr
  have e : (1 : ℝ) - (m : ℝ) / 10 ^ 18 - (1 - (1 - (nw : ℝ) / 10 ^ 18) * ((spread : ℝ) / 10 ^ 18)) =
      -(((m : ℝ) - (10 ^ 18 - (nw : ℝ)) * spread / 10 ^ 18) / 10 ^ 18) := by
    field_simp; ring
  rw [e, abs_neg, abs_div, abs_of_pos (show (0 : ℝ) < 10 ^ 18 by positivity)]
  exact div_le_div_of_nonneg_right h1 (by positivity)

end OsmoVerif.GammMath
