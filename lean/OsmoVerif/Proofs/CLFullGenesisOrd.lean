/-
C19 / x/concentrated-liquidity genesis: `IncOrd` (order part of the store shape for the incentive layer) is preserved by every message
of `CLIncP.IOp`, and together with `FeeOrd` and the C07/C08 invariant `IncInv` it gives the whole store shape `FullWF` — so
`FullWF` holds in every reachable state.  Core only.
-/
import OsmoVerif.Proofs.CLFullGenesisOrdI

namespace OsmoVerif.CLIncP
open OsmoVerif.Num OsmoVerif.CL OsmoVerif.CLPool OsmoVerif.CLFees OsmoVerif.CLInc OsmoVerif.CLFeesP OsmoVerif.CLBook

structure IncOrd (s : Full) : Prop where
  trSorted : (s.inc.trackers.map (·.1)).Pairwise (· < ·)
  urSorted : ∀ a ∈ s.inc.accs, (uids a).Pairwise (· < ·)
  joinSorted : (s.inc.join.map (·.1)).Pairwise (· < ·)
  recsWeak : RecsWeak s.inc.records

theorem getURec_of_mem {recs : List URec} {r : URec} (h : r ∈ recs) : (getURec recs r.id).isSome = true := by
  unfold getURec
  rw [List.find?_isSome]
  exact ⟨r, h, by simp⟩

theorem uids_lt {s : Full} (hi : IncInv s) {a : UAcc} (ha : a ∈ s.inc.accs) : ∀ x ∈ uids a, x < s.fees.pool.nextId := by
  intro x hx
  obtain ⟨r, hr, rfl⟩ := List.mem_map.mp hx
  exact (hi.inc.accs a ha).recIds r.id (getURec_of_mem hr)

theorem updOne_sub_of_nonpos {a a' : UAcc} {id : Nat} {nl dl : Int} {ins outs : DC} (hd : dl ≤ 0)
    (h : updOne a id nl dl ins outs = some a') : USub a a' := by
  cases hg : getURec a.recs id with
  | none => obtain ⟨hpos, _⟩ := updOne_new hg h; omega
  | some r =>
    obtain ⟨_, _, _, _, _, _, _, _, er⟩ := updOne_old_spec hg h
    unfold USub uids
    rw [er, setURec_ids]

theorem updAll_sub_of_nonpos {id : Nat} {nl dl : Int} (hd : dl ≤ 0) : ∀ {accs accs' : List UAcc} {ins outs : List DC},
    updAll id nl dl accs ins outs = some accs' → List.Forall₂ USub accs accs'
  | [], accs', [], [], h => by
    simp only [updAll, Option.some.injEq] at h; subst h; exact List.Forall₂.nil
  | a :: as, accs', i :: is, o :: os, h => by
    simp only [updAll, Option.bind_eq_some_iff, Option.map_eq_some_iff] at h
    obtain ⟨a', ha, as', has, e⟩ := h
    subst e
    exact List.Forall₂.cons (updOne_sub_of_nonpos hd ha) (updAll_sub_of_nonpos hd has)
  | [], _, _ :: _, _, h => by simp [updAll] at h
  | [], _, [], _ :: _, h => by simp [updAll] at h
  | _ :: _, _, [], _, h => by simp [updAll] at h
  | _ :: _, _, _ :: _, [], h => by simp [updAll] at h

theorem sorted_of_sub {a a' : UAcc} (h : USub a a') (hs : (uids a).Pairwise (· < ·)) : (uids a').Pairwise (· < ·) :=
  List.Pairwise.sublist h hs

theorem claimAll_sub {i i' : Inc} {cur l u : Int} {id : Nat} {c f : Coins} {b : List Coins} (h : claimAll i cur l u id = some (i', c, f, b)) :
    List.Forall₂ USub i.accs i'.accs := by
  unfold claimAll at h
  simp only [Option.bind_eq_some_iff, Option.map_eq_some_iff] at h
  obtain ⟨_, _, h⟩ := h
  split at h
  · cases h
  · simp only [Option.bind_eq_some_iff, Option.map_eq_some_iff, Prod.mk.injEq] at h
    obtain ⟨_, _, ⟨accs, c1, f1, b1⟩, hl, e, _⟩ := h
    rw [← e]
    exact claimLoop_sub hl

theorem redeposit_sub {i i' : Inc} {liq : Int} {forf : Coins} {byUp : List Coins} (h : redeposit i liq forf byUp = some i') :
    List.Forall₂ USub i.accs i'.accs ∧ i'.trackers = i.trackers ∧ i'.join = i.join := by
  unfold redeposit at h
  split at h
  · simp only [Option.map_eq_some_iff] at h
    obtain ⟨_, _, e⟩ := h
    subst e
    exact ⟨forall₂_refl USub.refl _, rfl, rfl⟩
  · simp only [Option.map_eq_some_iff] at h
    obtain ⟨accs, hl, e⟩ := h
    subst e
    exact ⟨redepositLoop_sub hl, rfl, rfl⟩

/-- the accumulators of a successful `CreatePosition` of the incentive layer, the join list and the rest -/
theorem incOrd_create {s s' : Full} {owner : String} {l u a0 a1 m0 m1 : Int} {id : Nat} {x0 x1 liq lo up : Int}
    (hi : IncInv s) (ho : IncOrd s)
    (h : CLInc.createPositionMin s owner l u a0 a1 m0 m1 = some (s', id, x0, x1, liq, lo, up)) : IncOrd s' := by
  have hfee := createMinI_fees h
  obtain ⟨hp, _, _, _⟩ := createMin_spec hfee
  obtain ⟨eid, _, _, _, _, _⟩ := create_positions hi.fees.pool.core hp
  unfold CLInc.createPositionMin at h
  simp only [Option.bind_eq_some_iff, Option.map_eq_some_iff, Prod.mk.injEq] at h
  obtain ⟨⟨f', id', y0, y1, liq', lo', up'⟩, hf, i1, hsync, i3, hupd, e1, e2, e3, e4, e5, e6, e7⟩ := h
  simp only at hupd e1 e2 e3 e4 e5 e6 e7
  subst e2; subst e3; subst e4; subst e5; subst e6; subst e7
  obtain ⟨st, sj, sa, sr⟩ := sync_ord hsync
  obtain ⟨_, hrec, _, _, htr, hjoin⟩ := updPosition_frame hupd
  unfold updPosition at hupd
  simp only [Option.bind_eq_some_iff, Option.map_eq_some_iff] at hupd
  obtain ⟨ins, _, outs, _, accs, hall, e3'⟩ := hupd
  have hrel := updAll_rel hall
  have f1 := initTr_frame i1 f'.pool.tick lo'
  have f2 := initTr_frame (initTr i1 f'.pool.tick lo') f'.pool.tick up'
  rw [← e1]
  refine ⟨?_, ?_, ?_, ?_⟩
  · show (i3.trackers.map (·.1)).Pairwise (· < ·)
    rw [htr]
    exact initTr_sorted _ _ _ (initTr_sorted _ _ _ (by rw [st]; exact ho.trSorted))
  · intro a' ha'
    have ha3 : a' ∈ accs := by
      have : i3.accs = accs := by rw [← e3']
      rw [← this]; exact ha'
    obtain ⟨a2, ha2, r2⟩ := forall₂_mem_right hrel a' ha3
    rw [f2.1, f1.1] at ha2
    obtain ⟨a0', ha0, r0⟩ := forall₂_mem_right sa a2 ha2
    have hs0 := ho.urSorted a0' ha0
    have hlt := uids_lt hi ha0
    have : URel id' a0' a' := List.Sublist.trans r2 (List.Sublist.append_right r0 _)
    rw [eid] at this
    exact sorted_of_rel this hs0 hlt
  · show ((i3.join ++ [(id', i3.now)]).map (·.1)).Pairwise (· < ·)
    rw [hjoin, f2.2.2.2.2.2.2.1, f1.2.2.2.2.2.2.1, sj, List.map_append]
    refine List.pairwise_append.mpr ⟨ho.joinSorted, by simp, fun x hx y hy => ?_⟩
    simp only [List.map_cons, List.map_nil, List.mem_singleton] at hy
    obtain ⟨e, he, rfl⟩ := List.mem_map.mp hx
    rw [hy, eid]
    exact hi.inc.joinIds e he
  · show RecsWeak i3.records
    rw [hrec, f2.2.1, f1.2.1]
    exact sr ho.recsWeak

theorem incOrd_withdraw {s s' : Full} {owner : String} {id : Nat} {req o0 o1 : Int}
    (ho : IncOrd s) (h : CLInc.withdrawPosition s owner id req = some (s', o0, o1)) : IncOrd s' := by
  have hfee := withdrawI_fees h
  obtain ⟨pos0, _, hfind0, hw0, _, _⟩ := withdraw_spec hfee
  obtain ⟨hreq, _, _, _, _⟩ := withdraw_positions hfind0 hw0
  unfold CLInc.withdrawPosition at h
  simp only [Option.bind_eq_some_iff, Option.map_eq_some_iff, Prod.mk.injEq] at h
  obtain ⟨pos, _, ⟨f', w0, w1⟩, hf, i1, hsync, ⟨i2, coll, forf, byUp⟩, hcl, b, _, i3, hupd, i4, hred, e1, e2, e3⟩ := h
  simp only at hcl hupd hred e1 e2 e3
  obtain ⟨st, sj, sa, sr⟩ := sync_ord hsync
  obtain ⟨_, cr, _, _, ct, cj⟩ := claimAll_frame hcl
  have ca := claimAll_sub hcl
  obtain ⟨_, ur, _, _, ut, uj⟩ := updPosition_frame hupd
  unfold updPosition at hupd
  simp only [Option.bind_eq_some_iff, Option.map_eq_some_iff] at hupd
  obtain ⟨ins, _, outs, _, accs, hall, e3'⟩ := hupd
  have ua := updAll_sub_of_nonpos (by omega : -req ≤ 0) hall
  obtain ⟨ra, rt, rj⟩ := redeposit_sub hred
  obtain ⟨rr, _⟩ := redeposit_frame hred
  rw [← e1]
  refine ⟨?_, ?_, ?_, ?_⟩
  · show ((syncTrackers i4.trackers f'.pool.ticks).map (·.1)).Pairwise (· < ·)
    refine syncTrackers_sorted _ ?_
    rw [rt, ut]; simp only; rw [ct, st]; exact ho.trSorted
  · intro a' ha'
    have ha4 : a' ∈ i4.accs := ha'
    obtain ⟨a3, ha3, r3⟩ := forall₂_mem_right ra a' ha4
    have e3acc : i3.accs = accs := by rw [← e3']
    rw [e3acc] at ha3
    obtain ⟨a2, ha2, r2⟩ := forall₂_mem_right ua a3 ha3
    have ha2' : a2 ∈ i2.accs := ha2
    obtain ⟨a1, ha1, r1⟩ := forall₂_mem_right ca a2 ha2'
    obtain ⟨a0', ha0, r0⟩ := forall₂_mem_right sa a1 ha1
    exact sorted_of_sub (USub.trans (USub.trans (USub.trans r0 r1) r2) r3) (ho.urSorted a0' ha0)
  · show (i4.join.map (·.1)).Pairwise (· < ·)
    rw [rj, uj]; simp only; rw [cj, sj]; exact ho.joinSorted
  · show RecsWeak i4.records
    rw [rr, ur]; simp only; rw [cr]; exact sr ho.recsWeak

theorem incOrd_apply {s s' : Full} {op : IOp} (hi : IncInv s) (ho : IncOrd s) (h : applyI s op = some s') : IncOrd s' := by
  cases op with
  | fee fop =>
    cases fop with
    | create o l u a0 a1 =>
      simp only [applyI, Option.map_eq_some_iff] at h
      obtain ⟨⟨s1, id, x0, x1, liq, lo, up⟩, h, e⟩ := h
      simp only at e; subst e
      exact incOrd_create hi ho h
    | withdraw o id liq =>
      simp only [applyI, Option.map_eq_some_iff] at h
      obtain ⟨⟨s1, o0, o1⟩, h, e⟩ := h
      simp only at e; subst e
      exact incOrd_withdraw ho h
    | add o id a0 a1 =>
      simp only [applyI, Option.map_eq_some_iff] at h
      obtain ⟨⟨s2, nid, x0, x1⟩, h, e⟩ := h
      simp only at e; subst e
      obtain ⟨pos, s1, w0, w1, liq, lo, up, _, hw, _, hc⟩ := addI_spec h
      have hw' : applyI s (.fee (.withdraw o id pos.liq)) = some s1 := by simp only [applyI, hw, Option.map_some]
      have hi1 : IncInv s1 := (applyI_facts hi hw').inv
      exact incOrd_create hi1 (incOrd_withdraw ho hw) hc
    | transfer sd id n =>
      simp only [applyI, CLInc.transferPosition, Option.map_eq_some_iff] at h
      obtain ⟨f', _, e⟩ := h
      subst e
      exact ⟨ho.trSorted, ho.urSorted, ho.joinSorted, ho.recsWeak⟩
    | swap og zfo spec =>
      simp only [applyI, Option.map_eq_some_iff] at h
      obtain ⟨⟨s1, ain, aout, fee⟩, h, e⟩ := h
      simp only at e; subst e
      unfold CLInc.swap at h
      simp only [Option.bind_eq_some_iff] at h
      obtain ⟨⟨f', ai, ao, fe⟩, _, trs, _, h⟩ := h
      simp only at h
      split at h
      · simp only [Option.some.injEq, Prod.mk.injEq] at h
        obtain ⟨e1, _⟩ := h
        subst e1
        exact ⟨ho.trSorted, ho.urSorted, ho.joinSorted, ho.recsWeak⟩
      · simp only [Option.bind_eq_some_iff, Option.map_eq_some_iff, Prod.mk.injEq] at h
        obtain ⟨i1, hsync, trk, hflip, e1, _⟩ := h
        subst e1
        obtain ⟨st, sj, sa, sr⟩ := sync_ord hsync
        refine ⟨?_, ?_, ?_, sr ho.recsWeak⟩
        · show (trk.map (·.1)).Pairwise (· < ·)
          rw [flipTicks_keys _ _ _ _ hflip, st]; exact ho.trSorted
        · intro a' ha'
          obtain ⟨a0', ha0, r0⟩ := forall₂_mem_right sa a' ha'
          exact sorted_of_sub r0 (ho.urSorted a0' ha0)
        · show (i1.join.map (·.1)).Pairwise (· < ·)
          rw [sj]; exact ho.joinSorted
    | collect sd id =>
      simp only [applyI, CLInc.collectSpread, Option.map_eq_some_iff] at h
      obtain ⟨⟨s1, c0, c1⟩, ⟨⟨f', d0, d1⟩, _, e0⟩, e⟩ := h
      simp only [Prod.mk.injEq] at e0
      obtain ⟨e0, _, _⟩ := e0
      simp only at e; subst e; subst e0
      exact ⟨ho.trSorted, ho.urSorted, ho.joinSorted, ho.recsWeak⟩
  | incentive id d a r st u =>
    simp only [applyI] at h
    unfold createIncentive at h
    split at h
    · cases h
    · split at h
      · cases h
      · split at h
        · cases h
        · split at h
          · cases h
          · simp only [Option.bind_eq_some_iff, Option.map_eq_some_iff] at h
            obtain ⟨i1, hsync, b, _, e⟩ := h
            subst e
            obtain ⟨st', sj, sa, sr⟩ := sync_ord hsync
            refine ⟨by show (i1.trackers.map (·.1)).Pairwise (· < ·); rw [st']; exact ho.trSorted, ?_,
              by show (i1.join.map (·.1)).Pairwise (· < ·); rw [sj]; exact ho.joinSorted, ?_⟩
            · intro a' ha'
              obtain ⟨a0', ha0, r0⟩ := forall₂_mem_right sa a' ha'
              exact sorted_of_sub r0 (ho.urSorted a0' ha0)
            · exact insertRec_weak _ _ (sr ho.recsWeak)
  | advance ns =>
    simp only [applyI, Option.some.injEq] at h
    subst h
    exact ⟨ho.trSorted, ho.urSorted, ho.joinSorted, ho.recsWeak⟩
  | sync =>
    simp only [applyI, syncNow, Option.map_eq_some_iff] at h
    obtain ⟨i1, hsync, e⟩ := h
    subst e
    obtain ⟨st, sj, sa, sr⟩ := sync_ord hsync
    refine ⟨by show (i1.trackers.map (·.1)).Pairwise (· < ·); rw [st]; exact ho.trSorted, ?_,
      by show (i1.join.map (·.1)).Pairwise (· < ·); rw [sj]; exact ho.joinSorted, sr ho.recsWeak⟩
    intro a' ha'
    obtain ⟨a0', ha0, r0⟩ := forall₂_mem_right sa a' ha'
    exact sorted_of_sub r0 (ho.urSorted a0' ha0)
  | icollect sd id =>
    simp only [applyI, Option.map_eq_some_iff] at h
    obtain ⟨⟨s1, c, f⟩, h, e⟩ := h
    simp only at e; subst e
    unfold collectIncentives at h
    simp only [Option.bind_eq_some_iff] at h
    obtain ⟨pos, _, h⟩ := h
    split at h
    · cases h
    · simp only [Option.bind_eq_some_iff, Option.map_eq_some_iff, Prod.mk.injEq] at h
      obtain ⟨i1, hsync, ⟨i2, coll, forf, byUp⟩, hcl, b, _, e, _⟩ := h
      subst e
      obtain ⟨st, sj, sa, sr⟩ := sync_ord hsync
      obtain ⟨_, cr, _, _, ct, cj⟩ := claimAll_frame hcl
      have ca := claimAll_sub hcl
      refine ⟨?_, ?_, ?_, ?_⟩
      · show (i2.trackers.map (·.1)).Pairwise (· < ·)
        rw [ct, st]; exact ho.trSorted
      · intro a' ha'
        have ha2 : a' ∈ i2.accs := ha'
        obtain ⟨a1, ha1, r1⟩ := forall₂_mem_right ca a' ha2
        obtain ⟨a0', ha0, r0⟩ := forall₂_mem_right sa a1 ha1
        exact sorted_of_sub (USub.trans r0 r1) (ho.urSorted a0' ha0)
      · show (i2.join.map (·.1)).Pairwise (· < ·)
        rw [cj, sj]; exact ho.joinSorted
      · show RecsWeak i2.records
        rw [cr]; exact sr ho.recsWeak

end OsmoVerif.CLIncP
