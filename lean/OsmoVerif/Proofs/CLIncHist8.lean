/-
C08 (incentives, histories) helpers, part 8: every message of the full model preserves the incentive invariant and changes the
uptime growth inside the range of every surviving position by exactly the growth of the accumulator value if the current
tick (before the message) is inside the range (`IStepFacts`, `applyI_facts`).  Core only.
-/
import OsmoVerif.Proofs.CLIncHist7

namespace OsmoVerif.CLIncP
open OsmoVerif.Num OsmoVerif.CL OsmoVerif.CLPool OsmoVerif.CLFees OsmoVerif.CLInc OsmoVerif.CLFeesP OsmoVerif.CLBook
open OsmoVerif.Accum (amt sorted hev)
open OsmoVerif.Gen

/-- what one successful message `s → s'` guarantees on the incentive side. -/
structure IStepFacts (s s' : Full) : Prop where
  inv : IncInv s'
  nextId : s.fees.pool.nextId ≤ s'.fees.pool.nextId
  desc : ∀ q' ∈ s'.fees.pool.positions, (∃ q ∈ s.fees.pool.positions, q.id = q'.id ∧ q.lower = q'.lower ∧ q.upper = q'.upper) ∨
    s.fees.pool.nextId ≤ q'.id
  /-- accumulator values only grow -/
  grow : ∀ k d, 0 ≤ dVal s.inc s'.inc k d
  /-- growth inside the range of a surviving position: + the accumulator growth iff the tick before the message is in range -/
  inside : ∀ q ∈ s.fees.pool.positions, ∀ q' ∈ s'.fees.pool.positions, q'.id = q.id → ∀ k d,
    insU s'.inc s'.fees.pool.tick k d q.lower q.upper = insU s.inc s.fees.pool.tick k d q.lower q.upper +
      (if q.lower ≤ s.fees.pool.tick ∧ s.fees.pool.tick < q.upper then dVal s.inc s'.inc k d else 0)

theorem IStepFacts.refl {s : Full} (h : IncInv s) : IStepFacts s s :=
  ⟨h, Nat.le_refl _, fun q' hq' => Or.inl ⟨q', hq', rfl, rfl, rfl⟩, fun k d => by rw [dVal_self],
    fun q _ q' _ _ k d => by rw [dVal_self]; split <;> omega⟩

theorem IStepFacts.trans {s s1 s2 : Full} (hi : IncInv s) (h1 : IStepFacts s s1) (h2 : IStepFacts s1 s2)
    (htick : s1.fees.pool.positions ≠ [] → s1.fees.pool.tick = s.fees.pool.tick) : IStepFacts s s2 := by
  have hc := hi.fees.pool.core
  have hc1 := h1.inv.fees.pool.core
  refine ⟨h2.inv, Nat.le_trans h1.nextId h2.nextId, ?_, fun k d => ?_, ?_⟩
  · intro q2 hq2
    rcases h2.desc q2 hq2 with ⟨q1, hq1, a0, a1, a2⟩ | hge
    · rcases h1.desc q1 hq1 with ⟨q, hq, b0, b1, b2⟩ | hge
      · exact Or.inl ⟨q, hq, by rw [b0, a0], by rw [b1, a1], by rw [b2, a2]⟩
      · exact Or.inr (by omega)
    · exact Or.inr (by have := h1.nextId; omega)
  · rw [dVal_trans s.inc s1.inc s2.inc]
    have := h1.grow k d; have := h2.grow k d; omega
  · intro q hq q2 hq2 hid k d
    have hlt := hc.pos.idsLt q hq
    rcases h2.desc q2 hq2 with ⟨q1, hq1, a0, a1, a2⟩ | hge
    · have e01 : q1.id = q.id := by rw [a0, hid]
      have hrange : q1.lower = q.lower ∧ q1.upper = q.upper := by
        rcases h1.desc q1 hq1 with ⟨q0, hq0, b0, b1, b2⟩ | hge
        · have : q0 = q := mem_eq_of_id hc.pos.uniq hq0 hq (by rw [b0, e01])
          subst this; exact ⟨b1.symm, b2.symm⟩
        · omega
      have s1' := h1.inside q hq q1 hq1 e01 k d
      have s2' := h2.inside q1 hq1 q2 hq2 a0.symm k d
      rw [hrange.1, hrange.2] at s2'
      have hne : s1.fees.pool.positions ≠ [] := fun e => by rw [e] at hq1; cases hq1
      rw [htick hne] at s2' s1'
      rw [s2', s1', dVal_trans s.inc s1.inc s2.inc]
      split <;> omega
    · have := h1.nextId; omega

/-- a message that keeps the tick (while positions remain) and the boundary trackers of surviving positions. -/
theorem inside_of_keep {s s' : Full} (hc : InvCore s.fees.pool)
    (desc : ∀ q' ∈ s'.fees.pool.positions, (∃ q ∈ s.fees.pool.positions, q.id = q'.id ∧ q.lower = q'.lower ∧ q.upper = q'.upper) ∨
      s.fees.pool.nextId ≤ q'.id)
    (htick : s'.fees.pool.positions ≠ [] → s.fees.pool.positions ≠ [] → s'.fees.pool.tick = s.fees.pool.tick)
    (hkeep : ∀ q ∈ s.fees.pool.positions, ∀ q' ∈ s'.fees.pool.positions, q'.id = q.id →
      getTr s'.inc.trackers q.lower = getTr s.inc.trackers q.lower ∧
      getTr s'.inc.trackers q.upper = getTr s.inc.trackers q.upper) :
    ∀ q ∈ s.fees.pool.positions, ∀ q' ∈ s'.fees.pool.positions, q'.id = q.id → ∀ k d,
      insU s'.inc s'.fees.pool.tick k d q.lower q.upper = insU s.inc s.fees.pool.tick k d q.lower q.upper +
        (if q.lower ≤ s.fees.pool.tick ∧ s.fees.pool.tick < q.upper then dVal s.inc s'.inc k d else 0) := by
  intro q hq q' hq' hid k d
  obtain ⟨k1, k2⟩ := hkeep q hq q' hq' hid
  rw [htick (fun e => by rw [e] at hq'; cases hq') (fun e => by rw [e] at hq; cases hq)]
  exact insU_step (hc.pos.range q hq) k d k1 k2

/-- the incentive invariant only reads these parts of the fee layer. -/
theorem IncPart.congr_fees {f f' : Fees} {i : Inc} (h : IncPart f i)
    (hpos : ∀ q' ∈ f'.pool.positions, ∃ q ∈ f.pool.positions, q.id = q'.id ∧ q.lower = q'.lower ∧ q.upper = q'.upper ∧ q.liq = q'.liq)
    (hnext : f'.pool.nextId = f.pool.nextId) (hticks : ∀ t, Stored f.pool.ticks t → Stored f'.pool.ticks t)
    (hts : f'.acc.totalShares = f.acc.totalShares) : IncPart f' i := by
  refine ⟨h.len, fun a ha => ?_, fun q' hq' => ?_, h.trOK, fun t ht => hticks t (h.trTicks t ht), h.recsOK, h.factor,
    by rw [hnext]; exact h.joinIds, fun q' hq' => ?_⟩
  · have ok := h.accs a ha
    refine ⟨fun q' hq' => ?_, by rw [hnext]; exact ok.recIds, ok.sortedV, ok.sortedR, by rw [hts]; exact ok.total⟩
    obtain ⟨q, hq, e0, _, _, e3⟩ := hpos q' hq'
    obtain ⟨r, hr, e⟩ := ok.recs q hq
    exact ⟨r, by rw [← e0]; exact hr, by rw [e, e3]⟩
  · obtain ⟨q, hq, _, e1, e2, _⟩ := hpos q' hq'
    rw [← e1, ← e2]; exact h.stored q hq
  · obtain ⟨q, hq, e0, _, _, _⟩ := hpos q' hq'
    rw [← e0]; exact h.joined q hq

theorem valAt_ge (accs : List UAcc) {k : Nat} (hk : accs.length ≤ k) : valAt accs k = [] := by
  unfold valAt; rw [List.getElem?_eq_none hk]; rfl

/-! ## the messages -/

theorem createI_facts {s s' : Full} {owner : String} {l u a0 a1 m0 m1 : Int} {id : Nat} {x0 x1 liq lo up : Int}
    (hi : IncInv s) (hf' : FullInv s'.fees) {evs : List Ev} (sf : StepFacts s.fees s'.fees evs)
    (h : CLInc.createPositionMin s owner l u a0 a1 m0 m1 = some (s', id, x0, x1, liq, lo, up)) : IStepFacts s s' := by
  obtain ⟨hp', i1, hsync, _, _, _, _, _, _, hkeep, hdv, _, _⟩ := createMinI_part hi.fees hf'.pool.core hi.inc h
  obtain ⟨_, _, _, _, _, _, _, _, hg, _, _⟩ := sync_part hi.inc hsync
  have hfee := createMinI_fees h
  obtain ⟨hpool, _, _, _⟩ := createMin_spec hfee
  obtain ⟨_, _, _, etick, _, _⟩ := create_positions hi.fees.pool.core hpool
  refine ⟨⟨hf', hp'⟩, sf.nextId, sf.desc, fun k d => by rw [hdv]; exact hg k d, ?_⟩
  apply inside_of_keep hi.fees.pool.core sf.desc (fun _ hne => etick hne)
  intro q hq q' hq' _
  obtain ⟨s1, s2⟩ := hi.inc.stored q hq
  exact ⟨hkeep _ s1, hkeep _ s2⟩

theorem same_range {s s' : Full} (hc : InvCore s.fees.pool)
    (desc : ∀ q' ∈ s'.fees.pool.positions, (∃ q ∈ s.fees.pool.positions, q.id = q'.id ∧ q.lower = q'.lower ∧ q.upper = q'.upper) ∨
      s.fees.pool.nextId ≤ q'.id)
    {q q' : Position} (hq : q ∈ s.fees.pool.positions) (hq' : q' ∈ s'.fees.pool.positions) (hid : q'.id = q.id) :
    q'.lower = q.lower ∧ q'.upper = q.upper := by
  rcases desc q' hq' with ⟨q0, hq0, e0, e2, e3⟩ | hge
  · have : q0 = q := mem_eq_of_id hc.pos.uniq hq0 hq (by rw [e0, hid])
    subst this; exact ⟨e2.symm, e3.symm⟩
  · have := hc.pos.idsLt q hq; omega

theorem dVal_ge6 {i i' : Inc} (h : i.accs.length = 6) (h' : i'.accs.length = 6) {k : Nat} (hk : 6 ≤ k) (d : String) : dVal i i' k d = 0 := by
  unfold dVal
  rw [valAt_ge _ (by omega), valAt_ge _ (by omega)]; omega

theorem withdrawI_facts {s s' : Full} {owner : String} {id : Nat} {req o0 o1 : Int}
    (hi : IncInv s) (hf' : FullInv s'.fees) {evs : List Ev} (sf : StepFacts s.fees s'.fees evs)
    (h : CLInc.withdrawPosition s owner id req = some (s', o0, o1)) : IStepFacts s s' := by
  obtain ⟨pos, i1, i2, coll, forf, byUp, b, i3, i4, joinT, hmem, hid, _, _, hsync, _, _, _, _, _, _, _, einc, _, _, _, _, _, etick, hp', chain⟩ :=
    withdrawI_part hi.fees hf' hi.inc h
  obtain ⟨_, t1, _⟩ := sync_part hi.inc hsync
  refine ⟨⟨hf', hp'⟩, sf.nextId, sf.desc, fun k d => ?_, ?_⟩
  · rcases Nat.lt_or_ge k 6 with hk | hk
    · obtain ⟨⟨a0, a1, a4, _, _, _, _, _, _, _, ha0, ha1, gr, ha4, _, _, _, _, _, _, _, _, _, _, _, _, _, _, hv, _⟩⟩ := chain k hk
      unfold dVal
      rw [valAt_of ha0, valAt_of ha4]
      have := gr.2.2.2 d; have := (hv d).1; omega
    · rw [dVal_ge6 hi.inc.len hp'.len hk]
  · apply inside_of_keep hi.fees.pool.core sf.desc (fun hne _ => etick hne)
    intro q hq q' hq' hidq
    obtain ⟨r1, r2⟩ := same_range hi.fees.pool.core sf.desc hq hq' hidq
    have hc' := hf'.pool.core
    rw [einc]
    show getTr (syncTrackers i1.trackers s'.fees.pool.ticks) q.lower = _ ∧ getTr (syncTrackers i1.trackers s'.fees.pool.ticks) q.upper = _
    rw [getTr_syncTrackers, getTr_syncTrackers,
      if_pos (any_tick_of_stored ((hc'.stored q.lower).mpr ⟨q', hq', Or.inl r1⟩)),
      if_pos (any_tick_of_stored ((hc'.stored q.upper).mpr ⟨q', hq', Or.inr r2⟩)), t1]
    exact ⟨rfl, rfl⟩

/-- `addToPosition` = full withdrawal, then creation on the intermediate state. -/
theorem addI_spec {s s' : Full} {owner : String} {id nid : Nat} {add0 add1 x0 x1 : Int}
    (h : CLInc.addToPosition s owner id add0 add1 = some (s', nid, x0, x1)) :
    ∃ (pos : Position) (s1 : Full) (w0 w1 liq lo up : Int), findPos s.fees.pool id = some pos ∧
      CLInc.withdrawPosition s owner id pos.liq = some (s1, w0, w1) ∧ s1.fees.pool.positions ≠ [] ∧
      CLInc.createPositionMin s1 owner pos.lower pos.upper (w0 + add0) (w1 + add1) w0 w1 = some (s', nid, x0, x1, liq, lo, up) := by
  unfold CLInc.addToPosition at h
  simp only [Option.bind_eq_some_iff] at h
  obtain ⟨pos, hfind, h⟩ := h
  split at h
  · cases h
  · split at h
    · cases h
    · split at h
      · cases h
      · simp only [Option.bind_eq_some_iff] at h
        obtain ⟨⟨s1, w0, w1⟩, hw, h⟩ := h
        simp only at h
        split at h
        · cases h
        · rename_i hne
          simp only [Option.map_eq_some_iff, Prod.mk.injEq] at h
          obtain ⟨⟨s3, nid', y0, y1, liq, lo, up⟩, hc, e1, e2, e3, e4⟩ := h
          simp only at e1 e2 e3 e4
          subst e1; subst e2; subst e3; subst e4
          refine ⟨pos, s1, w0, w1, liq, lo, up, hfind, hw, ?_, hc⟩
          intro e; rw [e] at hne; exact hne rfl

theorem addI_facts {s s' : Full} {owner : String} {id nid : Nat} {add0 add1 x0 x1 : Int}
    (hi : IncInv s) (hf' : FullInv s'.fees)
    (h : CLInc.addToPosition s owner id add0 add1 = some (s', nid, x0, x1)) : IStepFacts s s' := by
  obtain ⟨pos, s1, w0, w1, liq, lo, up, hfind, hw, hne, hc⟩ := addI_spec h
  have hwf := withdrawI_fees hw
  have hcf := createMinI_fees hc
  have hap : applyF s.fees (.withdraw owner id pos.liq) = some s1.fees := by simp only [applyF, hwf, Option.map_some]
  obtain ⟨hf1, sf1⟩ := apply_facts hi.fees hap
  obtain ⟨sf2, _⟩ := createMin_facts hf1.pool.core hf1.acc hcf
  have f1 := withdrawI_facts hi hf1 sf1 hw
  have f2 := createI_facts f1.inv hf' sf2 hc
  obtain ⟨_, _, _, _, etick'⟩ := withdraw_positions hfind (by obtain ⟨_, _, _, hw', _⟩ := withdraw_spec hwf; exact hw')
  exact IStepFacts.trans hi f1 f2 etick'

end OsmoVerif.CLIncP
