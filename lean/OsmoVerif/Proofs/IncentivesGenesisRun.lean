/-
After the import: `Drop D s t` relates the exporting chain's state `s` to a state `t` that is `s` without the
records and finished-store entries of the gauges `D` (all of them filed as finished in `s`).  Every operation
that does not top up a gauge of `D` keeps the relation with the same outcome, in particular every epoch pays
exactly the same; and activating due gauges early (what the import does) is absorbed by the next epoch.
Core only.
-/
import OsmoVerif.Proofs.IncentivesGenesis
namespace OsmoVerif.Incentives

/-- both fail, or both succeed with related results. -/
def OR {α β : Type} (R : α → β → Prop) : Option α → Option β → Prop
  | none, none => True
  | some a, some b => R a b
  | _, _ => False

/-- the record store `b` is the record store `a` without the ids of `D`. -/
def Look (D : List Nat) (a b : List Gauge) : Prop :=
  ∀ id, getGauge b id = if id ∈ D then none else getGauge a id

structure Drop (D : List Nat) (s t : State) : Prop where
  cfg : t.cfg = s.cfg
  last : t.lastId = s.lastId
  bal : t.balance = s.balance
  up : t.upcoming = s.upcoming
  act : t.active = s.active
  look : Look D s.gauges t.gauges
  dfin : ∀ id ∈ D, id ∈ refsIds s.finished
  tfin : ∀ id ∈ refsIds t.finished, id ∈ refsIds s.finished

/-! ## record store lemmas -/

theorem getGauge_setGauge (L : List Gauge) (g : Gauge) (id : Nat) :
    getGauge (setGauge L g) id = (getGauge L id).map (fun x => if x.id = g.id then g else x) := by
  unfold getGauge setGauge
  rw [List.find?_map]
  have : ((fun x : Gauge => decide (x.id = id)) ∘ fun x => if x.id = g.id then g else x) =
      fun x => decide (x.id = id) := by
    funext x
    simp only [Function.comp]
    split
    · rename_i h; rw [h]
    · rfl
  rw [this]

theorem look_setGauge {D : List Nat} {a b : List Gauge} (h : Look D a b) (g : Gauge) :
    Look D (setGauge a g) (setGauge b g) := by
  intro id
  rw [getGauge_setGauge, getGauge_setGauge, h id]
  split <;> rfl

theorem getGauge_append_single (L : List Gauge) (g : Gauge) (id : Nat) :
    getGauge (L ++ [g]) id = (match getGauge L id with | some x => some x | none => if g.id = id then some g else none) := by
  unfold getGauge
  rw [List.find?_append]
  cases L.find? (fun x => decide (x.id = id)) with
  | some x => rfl
  | none =>
    simp only [Option.none_or, List.find?_cons, List.find?_nil]
    by_cases e : g.id = id <;> simp [e]

theorem snapshot_congr {a b : List Gauge} : ∀ (ids : List Nat), (∀ id ∈ ids, getGauge b id = getGauge a id) →
    snapshot b ids = snapshot a ids
  | [], _ => rfl
  | i :: is, h => by
    simp only [snapshot, h i List.mem_cons_self, snapshot_congr is (fun id hid => h id (List.mem_cons_of_mem _ hid))]

/-! ## the loops of the epoch hook, in parallel -/

theorem distributeLoop_drop {D : List Nat} (locks : List Lock) : ∀ (thr : MinVal) (snap a b : List Gauge) (info : Info),
    Look D a b →
    OR (fun (p q : List Gauge × Info) => Look D p.1 q.1 ∧ p.2 = q.2)
      (distributeLoop thr locks snap a info) (distributeLoop thr locks snap b info)
  | _, [], _, _, _, h => ⟨h, rfl⟩
  | thr, g :: gs, a, b, info, h => by
    simp only [distributeLoop]
    cases distributeGauge thr locks g with
    | none => trivial
    | some r =>
      cases r with
      | none => exact distributeLoop_drop locks _ gs a b info h
      | some tp => exact distributeLoop_drop locks _ gs _ _ _ (look_setGauge h _)

theorem refsAdd_none {r : Refs} {t : Int} {id : Nat} (h : refsAdd r t id = none) : id ∈ refsIds r := by
  induction r with
  | nil => simp [refsAdd] at h
  | cons hd r ih =>
    obtain ⟨t', l⟩ := hd
    rw [refsIds_cons]
    simp only [refsAdd] at h
    split at h
    · cases h
    · split at h
      · split at h
        · rename_i hm; exact List.mem_append_left _ hm
        · cases h
      · cases hx : refsAdd r t id with
        | none => exact List.mem_append_right _ (ih hx)
        | some r1 => rw [hx] at h; cases h

theorem finishLoop_drop (sa sb : List Gauge) : ∀ (snap : List Gauge) (act fs ft : Refs), (snap.map (·.id)).Nodup →
    (∀ g ∈ snap, getGauge sb g.id = getGauge sa g.id) →
    (∀ g ∈ snap, g.id ∉ refsIds fs) → (∀ id ∈ refsIds ft, id ∈ refsIds fs) →
    OR (fun (p q : Refs × Refs) => p.1 = q.1 ∧ (∀ id ∈ refsIds q.2, id ∈ refsIds p.2) ∧ ∀ id ∈ refsIds fs, id ∈ refsIds p.2)
      (finishLoop sa snap act fs) (finishLoop sb snap act ft)
  | [], _, _, _, _, _, _, hsub => ⟨rfl, hsub, fun _ h => h⟩
  | g :: gs, act, fs, ft, hn, hlook, hfresh, hsub => by
    simp only [List.map_cons, List.nodup_cons] at hn
    have hlook' : ∀ x ∈ gs, getGauge sb x.id = getGauge sa x.id := fun x hx => hlook x (List.mem_cons_of_mem _ hx)
    simp only [finishLoop]
    rw [hlook g List.mem_cons_self]
    split
    · cases hu : getGauge sa g.id with
      | none => trivial
      | some u =>
        simp only
        have hid : u.id = g.id := getGauge_id hu
        split
        · exact finishLoop_drop sa sb gs act fs ft hn.2 hlook' (fun x hx => hfresh x (List.mem_cons_of_mem _ hx)) hsub
        · cases refsDel act u.start u.id with
          | none => trivial
          | some a1 =>
            simp only
            have hg : u.id ∉ refsIds fs := by rw [hid]; exact hfresh g List.mem_cons_self
            cases hs : refsAdd fs u.start u.id with
            | none => exact absurd (refsAdd_none hs) hg
            | some fs1 =>
              cases ht : refsAdd ft u.start u.id with
              | none => exact absurd (hsub _ (refsAdd_none ht)) hg
              | some ft1 =>
                simp only
                have ps := refsAdd_perm hs
                have pt := refsAdd_perm ht
                have := finishLoop_drop sa sb gs a1 fs1 ft1 hn.2 hlook'
                  (by
                    intro x hx hm
                    rcases List.mem_cons.mp (ps.mem_iff.mp hm) with e | e
                    · exact hn.1 (List.mem_map.mpr ⟨x, hx, e.trans hid⟩)
                    · exact hfresh x (List.mem_cons_of_mem _ hx) e)
                  (by
                    intro id hid'
                    rcases List.mem_cons.mp (pt.mem_iff.mp hid') with e | e
                    · exact ps.mem_iff.mpr (by rw [e]; exact List.mem_cons_self)
                    · exact ps.mem_iff.mpr (List.mem_cons_of_mem _ (hsub id e)))
                revert this
                cases finishLoop sa gs a1 fs1 <;> cases finishLoop sb gs a1 ft1 <;> intro this
                · trivial
                · exact this.elim
                · exact this.elim
                · exact ⟨this.1, this.2.1, fun id hid' => this.2.2 id (ps.mem_iff.mpr (List.mem_cons_of_mem _ hid'))⟩
    · exact finishLoop_drop sa sb gs act fs ft hn.2 hlook' (fun x hx => hfresh x (List.mem_cons_of_mem _ hx)) hsub

/-! ## every operation -/

theorem drop_not_live {D : List Nat} {s t : State} (hi : Inv s) (h : Drop D s t) {id : Nat}
    (hid : id ∈ refsIds s.upcoming ++ refsIds s.active) : id ∉ D := by
  intro hd
  have hf := h.dfin id hd
  have hnd := hi.refs
  have := (List.nodup_append.mp hnd).2.2 id hid id hf
  exact this rfl

theorem epoch_drop {D : List Nat} {s t : State} (hi : Inv s) (h : Drop D s t) (now : Int) (thr : Quotes) (locks : List Lock) :
    OR (fun (p q : State × Info) => Drop D p.1 q.1 ∧ p.2 = q.2) (epoch s now thr locks) (epoch t now thr locks) := by
  unfold epoch
  rw [h.up, h.act]
  cases hact : activate now s.upcoming s.active with
  | none => trivial
  | some ua =>
    obtain ⟨up, act⟩ := ua
    simp only
    have hperm := activate_perm hact
    have hlive : ∀ id ∈ refsIds act, id ∉ D := fun id hid =>
      drop_not_live hi h (hperm.mem_iff.mp (List.mem_append_right _ hid))
    have hsn : snapshot t.gauges (refsIds act) = snapshot s.gauges (refsIds act) :=
      snapshot_congr _ (fun id hid => by rw [h.look id, if_neg (hlive id hid)])
    rw [hsn]
    cases hs : snapshot s.gauges (refsIds act) with
    | none => trivial
    | some snap =>
      simp only
      have hd := distributeLoop_drop (D := D) locks ⟨thr, []⟩ snap s.gauges t.gauges [] h.look
      revert hd
      cases distributeLoop ⟨thr, []⟩ locks snap s.gauges [] <;> cases distributeLoop ⟨thr, []⟩ locks snap t.gauges [] <;> intro hd
      · trivial
      · exact hd.elim
      · exact hd.elim
      · rename_i p q
        obtain ⟨store, info⟩ := p
        obtain ⟨store', info'⟩ := q
        obtain ⟨hl, hinfo⟩ := hd
        simp only at hl hinfo
        subst hinfo
        simp only
        rw [h.bal]
        cases subCoins s.balance (infoTotal info) with
        | none => trivial
        | some bal =>
          simp only
          have hids := (snapshot_spec hs).1
          have hndact : (refsIds act).Nodup := by
            have := (List.Perm.nodup_iff hperm).mpr (List.nodup_append.mp hi.refs).1
            exact (List.nodup_append.mp this).2.1
          have hf := finishLoop_drop store store' snap act s.finished t.finished (by rw [hids]; exact hndact)
            (by
              intro g hg
              have hga : g.id ∈ refsIds act := by rw [← hids]; exact List.mem_map_of_mem hg
              rw [hl g.id, if_neg (hlive g.id hga)])
            (by
              intro g hg hm
              have hga : g.id ∈ refsIds act := by rw [← hids]; exact List.mem_map_of_mem hg
              have := (List.nodup_append.mp hi.refs).2.2 g.id (hperm.mem_iff.mp (List.mem_append_right _ hga)) g.id hm
              exact this rfl)
            h.tfin
          revert hf
          cases finishLoop store snap act s.finished <;> cases finishLoop store' snap act t.finished <;> intro hf
          · trivial
          · exact hf.elim
          · exact hf.elim
          · rename_i p q
            obtain ⟨a1, f1⟩ := p
            obtain ⟨a2, f2⟩ := q
            obtain ⟨e1, e2, e3⟩ := hf
            simp only at e1 e2 e3
            subst e1
            exact ⟨⟨h.cfg, h.last, rfl, rfl, rfl, hl, fun id hid => e3 id (h.dfin id hid), e2⟩, rfl⟩

theorem create_drop {D : List Nat} {s t : State} (hi : Inv s) (h : Drop D s t) (p : Bool) (dn : Denom) (du : Int)
    (c : Coins) (st : Int) (n : Nat) :
    OR (Drop D) (createGauge s p dn du c st n) (createGauge t p dn du c st n) := by
  unfold createGauge
  rw [h.cfg, h.last, h.up, h.bal]
  split; · trivial
  split; · trivial
  split; · trivial
  split; · trivial
  split; · trivial
  simp only
  cases hx : refsAdd s.upcoming st (s.lastId + 1) with
  | none => trivial
  | some up' =>
    refine ⟨rfl, rfl, rfl, rfl, h.act, ?_, h.dfin, h.tfin⟩
    intro id
    simp only [getGauge_append_single, h.look id]
    by_cases hd : id ∈ D
    · have hle := hi.refle id (List.mem_append_right _ (h.dfin id hd))
      have : ¬ s.lastId + 1 = id := by omega
      simp [hd, this]
    · simp [hd]

theorem add_drop {D : List Nat} {s t : State} (h : Drop D s t) (id : Nat) (hid : id ∉ D) (c : Coins) (now : Int) :
    OR (Drop D) (addToGauge s id c now) (addToGauge t id c now) := by
  unfold addToGauge
  rw [h.cfg, h.look id, if_neg hid, h.bal]
  split; · trivial
  cases getGauge s.gauges id with
  | none => trivial
  | some g =>
    simp only
    split; · trivial
    split; · trivial
    exact ⟨rfl, h.last, rfl, h.up, h.act, look_setGauge h.look _, h.dfin, h.tfin⟩

/-- operations that do not top up one of the dropped gauges. -/
def Op.avoids (D : List Nat) : Op → Prop
  | .add id _ _ => id ∉ D
  | _ => True

/-- what an operation reports: `none` = it failed; an epoch reports what it queued for every owner. -/
def outcome (s : State) : Op → Option Info
  | .routes _ => some []
  | .create p dn du c st n => (createGauge s p dn du c st n).map fun _ => []
  | .add id c now => (addToGauge s id c now).map fun _ => []
  | .epoch now thr locks => (epoch s now thr locks).map (·.2)

theorem step_drop {D : List Nat} {s t : State} (hi : Inv s) (h : Drop D s t) (o : Op) (ho : o.avoids D) :
    Drop D (step s o) (step t o) ∧ outcome s o = outcome t o := by
  cases o with
  | routes r =>
    exact ⟨⟨by simp only [step, h.cfg], h.last, h.bal, h.up, h.act, h.look, h.dfin, h.tfin⟩, rfl⟩
  | create p dn du c st n =>
    have := create_drop hi h p dn du c st n
    simp only [step, outcome]
    revert this
    cases createGauge s p dn du c st n <;> cases createGauge t p dn du c st n <;> intro this
    · exact ⟨h, rfl⟩
    · exact this.elim
    · exact this.elim
    · exact ⟨this, rfl⟩
  | add id c now =>
    have := add_drop h id ho c now
    simp only [step, outcome]
    revert this
    cases addToGauge s id c now <;> cases addToGauge t id c now <;> intro this
    · exact ⟨h, rfl⟩
    · exact this.elim
    · exact this.elim
    · exact ⟨this, rfl⟩
  | epoch now thr locks =>
    have := epoch_drop hi h now thr locks
    simp only [step, outcome]
    revert this
    cases epoch s now thr locks <;> cases epoch t now thr locks <;> intro this
    · exact ⟨h, rfl⟩
    · exact this.elim
    · exact this.elim
    · exact ⟨this.1, by simp only [Option.map_some, this.2]⟩

def outcomes (s : State) : List Op → List (Option Info)
  | [] => []
  | o :: os => outcome s o :: outcomes (step s o) os

theorem run_drop {D : List Nat} : ∀ (ops : List Op) {s t : State}, Inv s → Drop D s t → (∀ o ∈ ops, o.avoids D) →
    Drop D (run s ops) (run t ops) ∧ outcomes s ops = outcomes t ops
  | [], _, _, _, h, _ => ⟨h, rfl⟩
  | o :: os, s, t, hi, h, ha => by
    obtain ⟨h1, h2⟩ := step_drop hi h o (ha o List.mem_cons_self)
    obtain ⟨h3, h4⟩ := run_drop os (Inv_step hi o) h1 (fun x hx => ha x (List.mem_cons_of_mem _ hx))
    exact ⟨h3, by simp only [outcomes, h2, h4]⟩

/-! ## early activation is absorbed by the next epoch -/

theorem activate_idem {now now' : Int} (hle : now ≤ now') : ∀ (up act u1 a1 : Refs), RefsWF up →
    activate now up act = some (u1, a1) → activate now' u1 a1 = activate now' up act
  | [], act, u1, a1, _, h => by
    simp only [activate, Option.some.injEq, Prod.mk.injEq] at h
    rw [← h.1, ← h.2]
  | (t, l) :: r, act, u1, a1, hw, h => by
    by_cases ht : t ≤ now
    · simp only [activate, if_pos ht] at h
      simp only [activate, if_pos (show t ≤ now' by omega)]
      cases hx : refsAddAll act t l with
      | none => rw [hx] at h; cases h
      | some a' =>
        rw [hx] at h
        simp only
        exact activate_idem hle r a' u1 a1 hw.2.2 h
    · have hdue : ∀ kv ∈ (t, l) :: r, now < kv.1 := by
        intro kv hkv
        rcases List.mem_cons.mp hkv with e | e
        · subst e; simp only; omega
        · have := hw.2.1 kv e; omega
      rw [activate_none_due _ _ hdue] at h
      simp only [Option.some.injEq, Prod.mk.injEq] at h
      rw [← h.1, ← h.2]

/-! ## every record is filed in one of the three stores -/

def Cov (s : State) : Prop :=
  ∀ g ∈ s.gauges, g.id ∈ refsIds s.upcoming ++ refsIds s.active ++ refsIds s.finished

theorem distributeLoop_ids {locks : List Lock} : ∀ (thr : MinVal) (snap store : List Gauge) (info : Info)
    {store' : List Gauge} {info' : Info}, distributeLoop thr locks snap store info = some (store', info') →
    store'.map (·.id) = store.map (·.id)
  | _, [], store, info, store', info', h => by
    simp only [distributeLoop, Option.some.injEq, Prod.mk.injEq] at h; rw [← h.1]
  | thr, g :: gs, store, info, store', info', h => by
    simp only [distributeLoop] at h
    cases hd : distributeGauge thr locks g with
    | none => rw [hd] at h; cases h
    | some r =>
      rw [hd] at h
      cases r with
      | none => exact distributeLoop_ids _ gs store info h
      | some tp =>
        simp only at h
        rw [distributeLoop_ids _ gs _ _ h, map_id_setGauge]

theorem Cov_step {s : State} (h : Cov s) (o : Op) : Cov (step s o) := by
  cases o with
  | routes r => exact h
  | create p dn du c st n =>
    simp only [step]
    cases hc : createGauge s p dn du c st n with
    | none => exact h
    | some s' =>
      simp only
      unfold createGauge at hc
      split at hc; · cases hc
      split at hc; · cases hc
      split at hc; · cases hc
      split at hc; · cases hc
      split at hc; · cases hc
      simp only at hc
      cases ha : refsAdd s.upcoming st (s.lastId + 1) with
      | none => rw [ha] at hc; cases hc
      | some up =>
        rw [ha] at hc
        simp only [Option.some.injEq] at hc
        subst hc
        have hp := refsAdd_perm ha
        intro g hg
        simp only [List.mem_append] at hg ⊢
        rcases hg with hg | hg
        · have := h g hg
          simp only [List.mem_append] at this
          rcases this with (e | e) | e
          · exact Or.inl (Or.inl (hp.mem_iff.mpr (List.mem_cons_of_mem _ e)))
          · exact Or.inl (Or.inr e)
          · exact Or.inr e
        · simp only [List.mem_singleton] at hg
          subst hg
          exact Or.inl (Or.inl (hp.mem_iff.mpr List.mem_cons_self))
  | add id c now =>
    simp only [step]
    cases hc : addToGauge s id c now with
    | none => exact h
    | some s' =>
      simp only
      unfold addToGauge at hc
      split at hc; · cases hc
      cases hg : getGauge s.gauges id with
      | none => rw [hg] at hc; cases hc
      | some g =>
        rw [hg] at hc
        simp only at hc
        split at hc; · cases hc
        split at hc; · cases hc
        simp only [Option.some.injEq] at hc
        subst hc
        intro x hx
        rcases mem_setGauge hx with e | e
        · subst e; exact h g (getGauge_some hg).1
        · exact h x e
  | epoch now thr locks =>
    simp only [step]
    cases hc : epoch s now thr locks with
    | none => exact h
    | some p =>
      obtain ⟨s', info⟩ := p
      simp only
      obtain ⟨up, act, snap, store, bal, act', fin, h1, h2, h3, h4, h5, rfl⟩ := epoch_unfold hc
      have p1 := activate_perm h1
      obtain ⟨p2, p3⟩ := finishLoop_perm h5
      have pall := epoch_refs_perm p1 p2 p3
      intro g hg
      have : g.id ∈ store.map (·.id) := List.mem_map_of_mem hg
      rw [distributeLoop_ids _ _ _ _ h3] at this
      obtain ⟨g0, hg0, e⟩ := List.mem_map.mp this
      rw [← e]
      exact pall.mem_iff.mpr (h g0 hg0)

theorem Cov_run {s : State} (h : Cov s) (ops : List Op) : Cov (run s ops) := by
  unfold run
  induction ops generalizing s with
  | nil => exact h
  | cons o os ih => exact ih (Cov_step h o)

theorem reachable_cov {s : State} (h : Reachable s) : Cov s := by
  obtain ⟨cfg, bal, ops, _, rfl⟩ := h
  exact Cov_run (fun _ hg => absurd hg List.not_mem_nil) ops

/-- the state after export → import is `Drop`-related to the exporting state with its due gauges activated. -/
theorem imported_drop {s : State} (hi : Inv s) (hc : Cov s) (ua : Refs × Refs) :
    Drop (refsIds s.finished) { s with upcoming := ua.1, active := ua.2 } (imported s ua) := by
  refine ⟨rfl, rfl, rfl, rfl, rfl, ?_, fun _ h => h, fun _ h => absurd h List.not_mem_nil⟩
  intro id
  show getGauge (importedGauges s) id = _
  rw [getGauge_imported hi]
  by_cases hf : id ∈ refsIds s.finished
  · have : id ∉ refsIds s.active ++ refsIds s.upcoming := by
      intro hm
      have hm' : id ∈ refsIds s.upcoming ++ refsIds s.active := by
        rcases List.mem_append.mp hm with e | e
        · exact List.mem_append_right _ e
        · exact List.mem_append_left _ e
      exact (List.nodup_append.mp hi.refs).2.2 id hm' id hf rfl
    simp [hf, this]
  · simp only [if_neg hf]
    split
    · rfl
    · rename_i hlive
      cases hg : getGauge s.gauges id with
      | none => rfl
      | some g =>
        obtain ⟨hm, hid⟩ := getGauge_some hg
        have := hc g hm
        rw [hid] at this
        simp only [List.mem_append] at this hlive
        rcases this with (e | e) | e
        · exact absurd (Or.inr e) hlive
        · exact absurd (Or.inl e) hlive
        · exact absurd e hf

/-! ## the next epoch absorbs the early activation -/

/-- the exporting state with the result `ua` of `activate now` written back (an epoch hook that only activates). -/
def ticked (s : State) (ua : Refs × Refs) : State := { s with upcoming := ua.1, active := ua.2 }

theorem Inv_ticked {s : State} {now : Int} {ua : Refs × Refs} (hi : Inv s)
    (h : activate now s.upcoming s.active = some ua) : Inv (ticked s ua) := by
  have p1 := activate_perm h
  have pall : (refsIds ua.1 ++ refsIds ua.2 ++ refsIds s.finished).Perm
      (refsIds s.upcoming ++ refsIds s.active ++ refsIds s.finished) := p1.append_right _
  exact ⟨hi.g, hi.ids, hi.idle, pall.symm.nodup hi.refs, fun id hid => hi.refle id (pall.mem_iff.mp hid), hi.vbal, hi.bal⟩

theorem epoch_ticked {s : State} {now now' : Int} {ua : Refs × Refs} (hw : RefsWF s.upcoming) (hle : now ≤ now')
    (h : activate now s.upcoming s.active = some ua) (thr : Quotes) (locks : List Lock) :
    epoch (ticked s ua) now' thr locks = epoch s now' thr locks := by
  obtain ⟨u1, a1⟩ := ua
  unfold epoch ticked
  simp only [activate_idem hle _ _ _ _ hw h]

/-- **after the import, from the next epoch on**: the imported chain and the exporting chain report the same for
every operation (same failures, same payouts per owner in every epoch) as long as no gauge that was already
finished at export time is topped up; the states stay `Drop`-related (the imported one lacks those gauges). -/
theorem run_after_import {s t : State} {now now' : Int} (hi : Inv s) (hs : SInv s) (hw : WFInv s) (hc : Cov s)
    (hstarted : ∀ kv ∈ s.active, kv.1 ≤ now) (ht : exportImport now s = some t) (hle : now ≤ now')
    (thr : Quotes) (locks : List Lock) (hok : epoch s now' thr locks ≠ none)
    (ops : List Op) (hav : ∀ o ∈ ops, o.avoids (refsIds s.finished)) :
    outcomes t (.epoch now' thr locks :: ops) = outcomes s (.epoch now' thr locks :: ops) ∧
    Drop (refsIds s.finished) (run s (.epoch now' thr locks :: ops)) (run t (.epoch now' thr locks :: ops)) := by
  rw [exportImport_eq hi hs hw hstarted] at ht
  cases ha : activate now s.upcoming s.active with
  | none => rw [ha] at ht; cases ht
  | some ua =>
    rw [ha] at ht
    simp only [Option.map_some, Option.some.injEq] at ht
    subst ht
    have hd := imported_drop hi hc ua
    have hit := Inv_ticked hi ha
    have hall : ∀ o ∈ Op.epoch now' thr locks :: ops, o.avoids (refsIds s.finished) := by
      intro o ho
      rcases List.mem_cons.mp ho with e | e
      · subst e; trivial
      · exact hav o e
    obtain ⟨r1, r2⟩ := run_drop (Op.epoch now' thr locks :: ops) hit hd hall
    have e1 : outcome (ticked s ua) (.epoch now' thr locks) = outcome s (.epoch now' thr locks) := by
      simp only [outcome, epoch_ticked hw.1 hle ha]
    have e2 : step (ticked s ua) (.epoch now' thr locks) = step s (.epoch now' thr locks) := by
      simp only [step, epoch_ticked hw.1 hle ha]
      cases he : epoch s now' thr locks with
      | none => exact absurd he hok
      | some r => rfl
    have e3 : run (ticked s ua) (.epoch now' thr locks :: ops) = run s (.epoch now' thr locks :: ops) := by
      simp only [run, List.foldl_cons, e2]
    have e4 : outcomes (ticked s ua) (.epoch now' thr locks :: ops) = outcomes s (.epoch now' thr locks :: ops) := by
      simp only [outcomes, e1, e2]
    refine ⟨?_, ?_⟩
    · rw [← e4]; exact r2.symm
    · rw [← e3]; exact r1

end OsmoVerif.Incentives
