/- Helper lemmas for C05: the taker-fee arithmetic of `Model/Router` meets the rounding specs. Core only. -/
import OsmoVerif.Model.Router
import OsmoVerif.Proofs.NumLemmas

namespace OsmoVerif.Router
open OsmoVerif.Num OsmoVerif.Spec

theorem chkDec_some {x r : Int} (h : chkDec x = some r) : r = x := by
  unfold chkDec at h
  split at h
  · injection h with h; exact h.symm
  · cases h

theorem chkInt_some {x r : Int} (h : chkInt x = some r) : r = x := by
  unfold chkInt at h
  split at h
  · injection h with h; exact h.symm
  · cases h

/-- what `CalcTakerFeeExactIn` computes, without the range checks. -/
theorem calcTakerFeeExactIn_val {a fee after f : Int} (h : calcTakerFeeExactIn a fee = some (after, f)) :
    after = ((P18 - fee) * a).tdiv P18 ∧ f = a - after := by
  unfold calcTakerFeeExactIn at h
  split at h
  · cases h
  · rename_i factor hf
    split at h
    · cases h
    · rename_i prod hp
      split at h
      · cases h
      · rename_i aft ha
        split at h
        · cases h
        · rename_i f' hf'
          injection h with h
          injection h with h1 h2
          subst h1; subst h2
          have e1 : factor = P18 - fee := by unfold Dec.sub at hf; exact chkDec_some hf
          have e2 : prod = factor * a := by unfold Dec.mulInt at hp; exact chkDec_some hp
          have e3 : aft = prod.tdiv P18 := by unfold Dec.truncateInt at ha; exact chkInt_some ha
          have e4 : f' = a - aft := chkInt_some hf'
          subst e1; subst e2
          exact ⟨e3, e4⟩

/-- ceiling of a non-negative raw Dec, as `Ceil().TruncateInt()` computes it. -/
theorem ceil_trunc_isCeil {q c after : Int} (hq : 0 ≤ q) (hc : Dec.ceil q = some c)
    (ha : Dec.truncateInt c = some after) : IsCeil q P18 after := by
  unfold Dec.ceil at hc
  have hc := chkDec_some hc
  unfold Dec.truncateInt at ha
  have ha := chkInt_some ha
  subst hc
  obtain ⟨e, hp, _⟩ := tdiv_tmod_spec q P18 P18_pos
  have hp := hp hq
  have hmul : ∀ k : Int, (k * P18).tdiv P18 = k := fun k => Int.mul_tdiv_cancel k (by decide)
  rw [hmul] at ha
  subst ha
  unfold IsCeil
  generalize q.tdiv P18 = d at *
  generalize q.tmod P18 = r at *
  split
  · rw [Int.sub_mul]; omega
  · rw [Int.add_sub_cancel, Int.add_mul]; omega

/-- the three rounding stages of `CalcTakerFeeExactOut`. -/
theorem calcTakerFeeExactOut_stages {a fee after f : Int} (h : calcTakerFeeExactOut a fee = some (after, f))
    (ha : 0 ≤ a) (hfee : fee < P18) :
    ∃ t q, IsTrunc (a * P18 * (P18 * P18)) (P18 - fee) t ∧ IsHalfEven t P18 q ∧ IsCeil q P18 after ∧
      f = after - a ∧ 0 ≤ t ∧ 0 ≤ q := by
  unfold calcTakerFeeExactOut at h
  split at h
  · cases h
  · rename_i factor hf
    split at h
    · cases h
    · rename_i q hq
      split at h
      · cases h
      · rename_i c hc
        split at h
        · cases h
        · rename_i aft hat
          split at h
          · cases h
          · rename_i f' hf'
            injection h with h
            injection h with h1 h2
            subst h1; subst h2
            have e1 : factor = P18 - fee := by unfold Dec.sub at hf; exact chkDec_some hf
            subst e1
            have hpos : 0 < P18 - fee := by omega
            unfold Dec.quo at hq
            split at hq
            · cases hq
            · have hq := chkDec_some hq
              have ht := tdiv_isTrunc (a * P18 * (P18 * P18)) (P18 - fee) hpos
              have hnum : 0 ≤ a * P18 * (P18 * P18) :=
                Int.mul_nonneg (Int.mul_nonneg ha (by decide)) (by decide)
              have htn : 0 ≤ (a * P18 * (P18 * P18)).tdiv (P18 - fee) := Int.tdiv_nonneg hnum (Int.le_of_lt hpos)
              have hhe := chopRound_isHalfEven P18 ((a * P18 * (P18 * P18)).tdiv (P18 - fee)) P18_pos P18_even
              rw [← hq] at hhe
              have hqn : 0 ≤ q := by
                obtain ⟨h1, h2, _⟩ := hhe
                generalize (a * P18 * (P18 * P18)).tdiv (P18 - fee) = t at *
                rcases Int.lt_or_le q 0 with hneg | hnn
                · exfalso
                  have : q * P18 ≤ (-1) * P18 := Int.mul_le_mul_of_nonneg_right (by omega) (by decide)
                  have hP : P18 = 1000000000000000000 := by decide
                  omega
                · exact hnn
              exact ⟨_, q, ht, hhe, ceil_trunc_isCeil hqn hc hat, chkInt_some hf', htn, hqn⟩

/-- `CalcTakerFeeExactOut` charges EXACTLY `⌈amount / (1 − fee)⌉` for every fee in `[0,1)`: the half-even rounding of
the 18-decimal quotient never moves the ceiling (the quotient of an integer by `(1 − fee) ≤ 1` with at most 18
decimals is either an integer or at least `10⁻¹⁸` away from the integer below it and from the one above). -/
theorem calcTakerFeeExactOut_isCeil {a fee after f : Int} (h : calcTakerFeeExactOut a fee = some (after, f))
    (ha : 0 ≤ a) (hf0 : 0 ≤ fee) (hfee : fee < P18) :
    IsCeil (a * P18) (P18 - fee) after ∧ f = after - a := by
  obtain ⟨t, q, ht, hhe, hce, hf, htn, hqn⟩ := calcTakerFeeExactOut_stages h ha hfee
  refine ⟨?_, hf⟩
  have hnum : 0 ≤ a * P18 * (P18 * P18) := Int.mul_nonneg (Int.mul_nonneg ha (by decide)) (by decide)
  obtain ⟨hfl1, hfl2⟩ := ht.1 hnum
  obtain ⟨he1, he2, _⟩ := hhe
  obtain ⟨hc1, hc2⟩ := hce
  have hP : P18 = 1000000000000000000 := by decide
  generalize hr : P18 - fee = r at *
  have hrpos : 0 < r := by omega
  have hrle : r ≤ P18 := by omega
  rw [hP] at hfl1 hfl2 he1 he2 hc1 hc2 hrle ⊢
  rw [Int.add_mul] at hfl2
  rw [Int.sub_mul] at hc1
  constructor
  · -- (after − 1)·r < a·10¹⁸
    rcases Int.lt_or_le ((after - 1) * r) (a * 1000000000000000000) with hlt | hge
    · exact hlt
    · exfalso
      -- t ≥ (after−1)·10³⁶ + 1
      have ht1 : (after - 1) * (1000000000000000000 * 1000000000000000000) + 1 ≤ t := by omega
      have hm : ((after - 1) * (1000000000000000000 * 1000000000000000000) + 1) * r ≤ t * r :=
        Int.mul_le_mul_of_nonneg_right ht1 (Int.le_of_lt hrpos)
      rw [Int.add_mul, Int.mul_right_comm] at hm
      omega
  · -- a·10¹⁸ ≤ after·r
    rcases Int.lt_or_le (after * r) (a * 1000000000000000000) with hlt | hge
    · exfalso
      have h1 : (after * (1000000000000000000 * 1000000000000000000) + 1000000000000000000) * r < (t + 1) * r := by
        rw [Int.add_mul, Int.add_mul, Int.mul_right_comm]; omega
      have h2 := lt_of_mul_lt_mul_pos hrpos h1
      omega
    · exact hge

end OsmoVerif.Router
