/-
`ApproxSqrt` (the exponent-1/2 shortcut of `PowApprox`; cosmossdk.io/math `ApproxRoot(2)`): Newton's iteration from the
guess 1 with an 18-decimal half-even quotient and a truncated half-difference, at most 300 rounds, stopping when the
correction is at most one unit of the last place.  Over Mathlib reals (nothing here is used by the executable model):
for `1/4 ≤ d ≤ 9/4` it RETURNS a value within `5·10^-18` of `√d`:
  * one round maps a guess `G ≥ √d/2` to `(G + d/G)/2 + η`, `|η| ≤ 10^-18`, and `(G + d/G)/2 − √d = (G − √d)²/(2G)`
    lies in `[0, |G − √d|/2]`: the error at least halves (up to `10^-18`) per round, so it is below `2^-300 + 2·10^-18`
    when the 300 rounds are used up;
  * when the loop stops early (`|delta| ≤ 1`) the quotient `d/G` is within `3.5·10^-18` of `G`, so `G` is within
    `3.5·10^-18` of `√d` and the returned `G + delta` within `4.5·10^-18 + 10^-36`.
-/
import OsmoVerif.Proofs.MathPowNum
import Mathlib.Analysis.SpecialFunctions.Pow.Real
import Mathlib.Analysis.SpecialFunctions.Sqrt

namespace OsmoVerif.MathM
open OsmoVerif.Num OsmoVerif.Gen OsmoVerif.GammMath

/-- `LegacyDec.Power(1)` is the identity on moderate values (`d·1`, an exact half-even product). -/
theorem decPower_one {g : Int} (h : |dv g| ≤ 10 ^ 40) : decPower g 1 = some g := by
  have hm : Dec.mul g P18 = some g := by
    unfold Dec.mul; rw [chopRound_mul_exact]; exact chkDec_of_dv h
  simp [decPower, decPowLoop, hm]

/-- Newton's step for the square root in reals, with an additive perturbation `η`. -/
theorem newton_sqrt_step {G s η : ℝ} (hs : 0 < s) (hG : s / 2 ≤ G) :
    s - |η| ≤ G + (s ^ 2 / G - G) / 2 + η ∧ |G + (s ^ 2 / G - G) / 2 + η - s| ≤ |G - s| / 2 + |η| := by
  have hG0 : 0 < G := by linarith
  have e : G + (s ^ 2 / G - G) / 2 + η - s = (G - s) ^ 2 / (2 * G) + η := by field_simp; ring
  have h0 : 0 ≤ (G - s) ^ 2 / (2 * G) := by positivity
  have h1 : (G - s) ^ 2 / (2 * G) ≤ |G - s| / 2 := by
    rw [div_le_div_iff₀ (by positivity) (by norm_num), ← sq_abs (G - s)]
    have hab : |G - s| ≤ G := by rw [abs_le]; constructor <;> linarith
    have := abs_nonneg (G - s)
    nlinarith
  have hη := neg_abs_le η
  have hη' := le_abs_self η
  constructor
  · linarith
  · rw [e, abs_le]; constructor <;> linarith

/-- truncated halving: within half a unit. -/
theorem tdiv_two_real (n : Int) : |((n.tdiv 2 : Int) : ℝ) - (n : ℝ) / 2| ≤ 1 / 2 := by
  obtain ⟨e, hp, hn⟩ := tdiv_tmod_spec n 2 (by decide)
  have hr : -1 ≤ n.tmod 2 ∧ n.tmod 2 ≤ 1 := by
    rcases Int.lt_or_le n 0 with h | h
    · have := hn h; omega
    · have := hp h; omega
  generalize n.tdiv 2 = q at *
  generalize n.tmod 2 = r at *
  have e' : ((q * 2 + r : Int) : ℝ) = (n : ℝ) := by exact_mod_cast e
  have r1 : ((-1 : Int) : ℝ) ≤ (r : ℝ) := by exact_mod_cast hr.1
  have r2 : (r : ℝ) ≤ ((1 : Int) : ℝ) := by exact_mod_cast hr.2
  push_cast at e' r1 r2
  rw [abs_le]; constructor <;> linarith

theorem tdiv_two_small {n : Int} (h : (n.tdiv 2).natAbs ≤ 1) : |(n : ℝ)| ≤ 3 := by
  obtain ⟨e, hp, hn⟩ := tdiv_tmod_spec n 2 (by decide)
  have : -3 ≤ n ∧ n ≤ 3 := by
    rcases Int.lt_or_le n 0 with h' | h'
    · have := hn h'; omega
    · have := hp h'; omega
  have a1 : ((-3 : Int) : ℝ) ≤ (n : ℝ) := by exact_mod_cast this.1
  have a2 : (n : ℝ) ≤ ((3 : Int) : ℝ) := by exact_mod_cast this.2
  push_cast at a1 a2
  rw [abs_le]; exact ⟨a1, a2⟩

/-- one round of the loop as an equation. -/
theorem approxSqrtLoop_iter {d g q : Int} {f : Nat} (hg : g ≠ 0) (hp : decPower g 1 = some g)
    (hq : Dec.quo d g = some q) (hs : Dec.sub q g = some (q - g))
    (ha : Dec.add g ((q - g).tdiv 2) = some (g + (q - g).tdiv 2)) :
    approxSqrtLoop d (f + 1) g =
      if ((q - g).tdiv 2).natAbs ≤ 1 then some (g + (q - g).tdiv 2)
      else approxSqrtLoop d f (g + (q - g).tdiv 2) := by
  rw [approxSqrtLoop, hp]
  simp only [Option.bind_some, bind, if_neg hg, hq, hs, ha]

/-- one round: it succeeds; the new guess is `(G + d/G)/2` up to `10^-18`; if the stopping test fires the new guess
is within `5·10^-18` of `√d`. -/
theorem approxSqrt_round {d g : Int} {s : ℝ} (hs : 1 / 2 ≤ s) (hs2 : s ≤ 3 / 2) (hd : dv d = s ^ 2)
    (hG1 : s / 2 ≤ dv g) (hG2 : dv g ≤ 3) :
    ∃ q, g ≠ 0 ∧ decPower g 1 = some g ∧ Dec.quo d g = some q ∧ Dec.sub q g = some (q - g) ∧
      Dec.add g ((q - g).tdiv 2) = some (g + (q - g).tdiv 2) ∧
      |dv (g + (q - g).tdiv 2) - (dv g + (s ^ 2 / dv g - dv g) / 2)| ≤ 1 / 10 ^ 18 ∧
      (((q - g).tdiv 2).natAbs ≤ 1 → |dv (g + (q - g).tdiv 2) - s| ≤ 5 / 10 ^ 18) := by
  have hG0 : 0 < dv g := by linarith
  have hg : g ≠ 0 := by
    intro h; rw [h, dv_zero] at hG0; exact lt_irrefl _ hG0
  have hp : decPower g 1 = some g := decPower_one (by
    rw [abs_of_pos hG0]; linarith only [hG2, show (3 : ℝ) ≤ 10 ^ 40 by norm_num])
  have hquo0 : 0 ≤ dv d / dv g := by rw [hd]; positivity
  have hquo : dv d / dv g ≤ 9 := by
    rw [hd, div_le_iff₀ hG0]; nlinarith
  obtain ⟨q, hq⟩ := Dec_quo_total (a := d) hg (by
    rw [abs_of_nonneg hquo0]; linarith only [hquo, show (9 : ℝ) ≤ 10 ^ 20 by norm_num])
  have eq := (Dec_quo_dv_error hq).2
  rw [hd] at eq
  have hqe : quoErr ≤ 1 / 10 ^ 18 := by unfold quoErr; norm_num
  have hqe' : quoErr = (1 / 2 + 1 / 10 ^ 18) / 10 ^ 18 := rfl
  obtain ⟨eq1, eq2⟩ := abs_le.mp eq
  rw [hd] at hquo hquo0
  have hQ : |dv q| ≤ 10 := by rw [abs_le]; constructor <;> linarith
  have hsub : Dec.sub q g = some (q - g) := Dec_sub_total (by
    have := abs_sub (dv q) (dv g); rw [abs_of_pos hG0] at this
    linarith only [this, hQ, hG2, show (20 : ℝ) ≤ 10 ^ 40 by norm_num])
  have ht := tdiv_two_real (q - g)
  have hdl : |dv ((q - g).tdiv 2) - (dv q - dv g) / 2| ≤ 1 / 2 / 10 ^ 18 := by
    have e : dv ((q - g).tdiv 2) - (dv q - dv g) / 2 =
        ((((q - g).tdiv 2 : Int) : ℝ) - ((q - g : Int) : ℝ) / 2) / 10 ^ 18 := by
      unfold dv; push_cast; field_simp
    rw [e, abs_div, abs_of_pos (show (0 : ℝ) < 10 ^ 18 by positivity)]
    exact div_le_div_of_nonneg_right ht (by positivity)
  obtain ⟨dl1, dl2⟩ := abs_le.mp hdl
  have hadd : Dec.add g ((q - g).tdiv 2) = some (g + (q - g).tdiv 2) := Dec_add_total (by
    obtain ⟨q1, q2⟩ := abs_le.mp hQ
    rw [abs_le]
    constructor <;>
      linarith only [q1, q2, dl1, dl2, hG0, hG2, show (100 : ℝ) ≤ 10 ^ 40 by norm_num,
        show (1 : ℝ) / 2 / 10 ^ 18 ≤ 1 by norm_num])
  refine ⟨q, hg, hp, hq, hsub, hadd, ?_, ?_⟩
  · rw [dv_add, abs_le]
    constructor <;> linarith only [eq1, eq2, dl1, dl2, hqe']
  · intro hstop
    have h3 := tdiv_two_small hstop
    have h3' : |dv q - dv g| ≤ 3 / 10 ^ 18 := by
      have e : dv q - dv g = ((q - g : Int) : ℝ) / 10 ^ 18 := by unfold dv; push_cast; ring
      rw [e, abs_div, abs_of_pos (show (0 : ℝ) < 10 ^ 18 by positivity)]
      exact div_le_div_of_nonneg_right h3 (by positivity)
    obtain ⟨a1, a2⟩ := abs_le.mp h3'
    -- `|G − s²/G| ≤ 3 ulp + quoErr`, hence `|G − s| ≤` the same
    have hκ : |dv g - s ^ 2 / dv g| ≤ 3 / 10 ^ 18 + quoErr := by
      rw [abs_le]; constructor <;> linarith only [a1, a2, eq1, eq2]
    have hGs : |dv g - s| ≤ 3 / 10 ^ 18 + quoErr := by
      have e : dv g - s = (dv g - s ^ 2 / dv g) * (dv g / (dv g + s)) := by field_simp; ring
      have hr0 : 0 ≤ dv g / (dv g + s) := by positivity
      have hr1 : dv g / (dv g + s) ≤ 1 := by rw [div_le_one (by positivity)]; linarith
      rw [e, abs_mul, abs_of_nonneg hr0]
      calc _ ≤ |dv g - s ^ 2 / dv g| * 1 := by gcongr
        _ ≤ _ := by linarith only [hκ]
    have hdel : |dv ((q - g).tdiv 2)| ≤ 1 / 10 ^ 18 := by
      have : |(((q - g).tdiv 2 : Int) : ℝ)| ≤ 1 := by
        have h' : |(q - g).tdiv 2| ≤ 1 := by rw [← Int.natCast_natAbs]; exact_mod_cast hstop
        exact_mod_cast h'
      rw [dv_abs_eq]; exact div_le_div_of_nonneg_right this (by positivity)
    rw [dv_add]
    have := abs_add_le (dv g - s) (dv ((q - g).tdiv 2))
    have e : dv g - s + dv ((q - g).tdiv 2) = dv g + dv ((q - g).tdiv 2) - s := by ring
    rw [e] at this
    linarith only [this, hGs, hdel, hqe', show ((1 : ℝ) / 2 + 1 / 10 ^ 18) / 10 ^ 18 ≤ 1 / 10 ^ 18 by norm_num]

/-- the loop from any guess `G ∈ [√d/2, 3]` with `|G − √d| ≤ E ≤ 1`. -/
theorem approxSqrtLoop_spec {d : Int} {s : ℝ} (hs : 1 / 2 ≤ s) (hs2 : s ≤ 3 / 2) (hd : dv d = s ^ 2) :
    ∀ (f : Nat) (g : Int) (E : ℝ), s / 2 ≤ dv g → dv g ≤ 3 → |dv g - s| ≤ E → E ≤ 1 →
      ∃ r, approxSqrtLoop d f g = some r ∧
        |dv r - s| ≤ max (5 / 10 ^ 18) (E / 2 ^ f + 2 / 10 ^ 18 * (1 - 1 / 2 ^ f)) := by
  intro f
  induction f with
  | zero =>
    intro g E _ _ hE _
    refine ⟨g, rfl, le_max_of_le_right ?_⟩
    simpa using hE
  | succ f ih =>
    intro g E hG1 hG2 hE hE1
    obtain ⟨q, hg, hp, hq, hsub, hadd, hnew, hstop⟩ := approxSqrt_round hs hs2 hd hG1 hG2
    rw [approxSqrtLoop_iter hg hp hq hsub hadd]
    by_cases hc : ((q - g).tdiv 2).natAbs ≤ 1
    · rw [if_pos hc]
      exact ⟨_, rfl, le_max_of_le_left (hstop hc)⟩
    · rw [if_neg hc]
      generalize g + (q - g).tdiv 2 = g' at *
      have hs0 : 0 < s := by linarith
      -- the perturbation of the exact Newton step
      obtain ⟨n1, n2⟩ := newton_sqrt_step (η := dv g' - (dv g + (s ^ 2 / dv g - dv g) / 2)) hs0 hG1
      have e : dv g + (s ^ 2 / dv g - dv g) / 2 + (dv g' - (dv g + (s ^ 2 / dv g - dv g) / 2)) = dv g' := by ring
      rw [e] at n1 n2
      have hE0 : 0 ≤ E := le_trans (abs_nonneg _) hE
      have hE' : |dv g' - s| ≤ E / 2 + 1 / 10 ^ 18 := by linarith only [n2, hnew, hE]
      obtain ⟨r, hr, hacc⟩ := ih g' (E / 2 + 1 / 10 ^ 18)
        (by linarith only [n1, hnew, hs, show (1 : ℝ) / 10 ^ 18 ≤ 1 / 4 by norm_num])
        (by have := (abs_le.mp hE').2
            linarith only [this, hs2, hE1, show (1 : ℝ) / 10 ^ 18 ≤ 1 by norm_num])
        hE' (by linarith only [hE1, show (1 : ℝ) / 10 ^ 18 ≤ 1 / 2 by norm_num])
      have h2 : (2 : ℝ) ^ f ≠ 0 := by positivity
      have e2 : (E / 2 + 1 / 10 ^ 18) / 2 ^ f + 2 / 10 ^ 18 * (1 - 1 / 2 ^ f) =
          E / 2 ^ (f + 1) + 2 / 10 ^ 18 * (1 - 1 / 2 ^ (f + 1)) := by
        rw [pow_succ]; ring
      rw [e2] at hacc
      exact ⟨r, hr, hacc⟩

/-- `ApproxSqrt` on `[1/4, 9/4]`: it returns, within `5·10^-18` of the real square root. -/
theorem approxSqrt_spec {d : Int} (h1 : 25 * 10 ^ 16 ≤ d) (h2 : d ≤ 225 * 10 ^ 16) :
    ∃ r, approxSqrt d = some r ∧ |dv r - √(dv d)| ≤ 5 / 10 ^ 18 := by
  have hD1 : (1 : ℝ) / 4 ≤ dv d := by
    have := dv_le h1; unfold dv at this ⊢; push_cast at this
    linarith only [this, show ((25 : ℝ) * 10 ^ 16) / 10 ^ 18 = 1 / 4 by norm_num]
  have hD2 : dv d ≤ 9 / 4 := by
    have := dv_le h2; unfold dv at this ⊢; push_cast at this
    linarith only [this, show ((225 : ℝ) * 10 ^ 16) / 10 ^ 18 = 9 / 4 by norm_num]
  have hD0 : 0 ≤ dv d := by linarith
  have hsq : dv d = √(dv d) ^ 2 := (Real.sq_sqrt hD0).symm
  have hs0 := Real.sqrt_nonneg (dv d)
  have hs1 : 1 / 2 ≤ √(dv d) := by
    rw [show (1 : ℝ) / 2 = √(1 / 4) by
      rw [show (1 : ℝ) / 4 = (1 / 2) ^ 2 by norm_num, Real.sqrt_sq (by norm_num)]]
    exact Real.sqrt_le_sqrt hD1
  have hs2 : √(dv d) ≤ 3 / 2 := by
    rw [show (3 : ℝ) / 2 = √(9 / 4) by
      rw [show (9 : ℝ) / 4 = (3 / 2) ^ 2 by norm_num, Real.sqrt_sq (by norm_num)]]
    exact Real.sqrt_le_sqrt hD2
  unfold approxSqrt
  rw [if_neg (by omega)]
  by_cases hone : d = 0 ∨ d = P18
  · rw [if_pos hone]
    rcases hone with h | h
    · omega
    · refine ⟨d, rfl, ?_⟩
      rw [h, dv_P18, Real.sqrt_one, sub_self, abs_zero]; norm_num
  · rw [if_neg hone]
    obtain ⟨r, hr, hacc⟩ := approxSqrtLoop_spec hs1 hs2 hsq 300 P18 (1 / 2)
      (by rw [dv_P18]; linarith only [hs2]) (by rw [dv_P18]; norm_num)
      (by rw [dv_P18, abs_le]; constructor <;> linarith only [hs1, hs2]) (by norm_num)
    refine ⟨r, hr, hacc.trans (max_le le_rfl ?_)⟩
    have hz : (1 : ℝ) / 2 ^ 300 ≤ 1 / 10 ^ 18 := by
      apply one_div_le_one_div_of_le (by positivity)
      calc (10 : ℝ) ^ 18 ≤ 2 ^ 60 := by norm_num
        _ ≤ 2 ^ 300 := pow_le_pow_right₀ (by norm_num) (by norm_num)
    have h3 : (0 : ℝ) ≤ 1 / 2 ^ 300 := by positivity
    have e3 : (1 : ℝ) / 2 / 2 ^ 300 = 1 / 2 * (1 / 2 ^ 300) := by ring
    rw [e3]
    generalize (1 : ℝ) / 2 ^ 300 = z at *
    linarith only [hz, h3, show (1 : ℝ) / 2 * z + 2 / 10 ^ 18 * (1 - z) ≤ 1 / 2 * z + 2 / 10 ^ 18 by nlinarith only [h3]]

end OsmoVerif.MathM
