/-
C03 with a caller-supplied price limit, part 4: the curve comparison and the bounded-rounding theorems for runs whose
steps are `RecGoodL` (Proofs/CLCurveReach.lean `curve_of_run_good`, Proofs/CLShortfall.lean `rounding_of_run_good` with
the weaker per-step property), the monotonicity of the price along the run, and the whole-swap statement on a state
that satisfies the C07 invariants.
-/
import OsmoVerif.Proofs.CLLimit3

namespace OsmoVerif.CLLimit
open OsmoVerif.CLPool OsmoVerif.CLBook OsmoVerif.CLSolv OsmoVerif.CL OsmoVerif.Num OsmoVerif.Tick OsmoVerif.Gen
open OsmoVerif.Spec OsmoVerif.Props

/-- the curve comparison for a run all of whose steps are `RecGoodL`. -/
theorem curve_of_run_goodL {ogi zfo : Bool} {spf limit : Int} {st st' : SwapSt} {tr : List StepRec} {ain aout : Int}
    (hs0 : 0 ≤ spf) (hs1 : spf < P18) (hlim : 0 < st.pool.sqrtPrice → 0 < limit)
    (hrun : Run ogi zfo spf limit st tr st') (hgood : ∀ e ∈ tr, RecGoodL ogi zfo limit e)
    (c1 : IsCeil (sumIn ogi tr + sumCharge tr) P18 ain) (c2 : IsTrunc (sumOut ogi tr) P18 aout) :
    (aout : ℚ) * 10 ^ 18 ≤ sumExactOut zfo tr ∧ sumExactIn zfo tr ≤ (ain : ℚ) * 10 ^ 18 := by
  have hok : ∀ e ∈ tr, StepOK ogi zfo e.st.pool.sqrtPrice e.target e.st.pool.liquidity := fun e he => (hgood e he).ok
  cases tr with
  | nil =>
    simp only [sumIn, sumOut, sumCharge, Int.add_zero] at c1 c2
    have e1 := ceil_zero P18_pos c1
    have e2 := trunc_zero P18_pos c2
    rw [e1, e2]; simp [sumExactIn, sumExactOut]
  | cons e0 tr0 =>
    have hpos : 0 < st.pool.sqrtPrice := by
      have := (hgood e0 List.mem_cons_self).1.2.1
      have hpath := hrun.path
      simp only [Path] at hpath
      rw [hpath.1] at this; exact this
    obtain ⟨_, hc⟩ := hrun.curve hs0 hs1 hpos (hlim hpos) hok
    obtain ⟨o0, ch0⟩ := sums_nonneg (ogi := ogi) (e0 :: tr0)
      (fun e he => ⟨(hc e he).2.2.2.2.2.1, (hc e he).2.2.2.2.2.2⟩)
    obtain ⟨a, b⟩ := sums_vs_exact (ogi := ogi) (zfo := zfo) (e0 :: tr0)
      (fun e he => ⟨(hc e he).1, (hc e he).2.1, (hc e he).2.2.1, (hc e he).2.2.2.2.1⟩)
    have ho := (c2.1 o0).1
    have hi : sumIn ogi (e0 :: tr0) ≤ ain * P18 := by have := c1.2; omega
    rw [P18_eq] at ho hi
    constructor
    · calc (aout : ℚ) * 10 ^ 18 ≤ (sumOut ogi (e0 :: tr0) : ℚ) := by exact_mod_cast ho
        _ ≤ sumExactOut zfo (e0 :: tr0) := b
    · calc sumExactIn zfo (e0 :: tr0) ≤ (sumIn ogi (e0 :: tr0) : ℚ) := a
        _ ≤ (ain : ℚ) * 10 ^ 18 := by exact_mod_cast hi

theorem sums_roundingL {ogi zfo : Bool} {spf limit : Int} (hs0 : 0 ≤ spf) (hs1 : spf < P18) :
    ∀ (tr : List StepRec),
      (∀ e ∈ tr, RecGoodL ogi zfo limit e ∧ e.st.remaining > 1 ∧
        stepOf ogi zfo spf e.st.pool.sqrtPrice e.target e.st.pool.liquidity e.st.remaining = some e.res) →
      (sumIn ogi tr : ℚ) ≤ sumExactIn zfo tr + sumInGain zfo tr ∧
      (ogi = true → sumExactOut zfo tr - sumOutLoss zfo tr ≤ (sumOut ogi tr : ℚ)) ∧
      (ogi = false → (sumCharge tr : ℚ) ≤ (sumIn ogi tr : ℚ) * feeRate spf + tr.length)
  | [], _ => by simp [sumIn, sumOut, sumCharge, sumExactIn, sumExactOut, sumInGain, sumOutLoss]
  | e :: tr, h => by
    obtain ⟨i1, i2, i3⟩ := sums_roundingL hs0 hs1 tr (fun e he => h e (List.mem_cons_of_mem _ he))
    obtain ⟨⟨⟨hok, hsp, hn, hdir⟩, _, _⟩, hrem, hstep⟩ := h e List.mem_cons_self
    have a := stepOf_in_upper hsp hn hstep
    have ht : 0 < e.target := by
      cases zfo
      · simp only [Bool.false_eq_true, ↓reduceIte] at hdir; omega
      · simp only [↓reduceIte] at hdir; omega
    obtain ⟨_, _, ⟨k, k0, ek⟩, _, _, _⟩ := stepOf_curve hok hsp ht hs0 hs1 (by omega) hstep
    refine ⟨?_, ?_, ?_⟩
    · have a' : (e.amtIn ogi : ℚ) < exactIn zfo e.st.pool.liquidity e.res.sqrtPriceNext e.st.pool.sqrtPrice +
          inGain zfo e.res.sqrtPriceNext e.st.pool.sqrtPrice := a
      unfold sumIn sumExactIn sumInGain
      push_cast
      linarith
    · intro ho
      subst ho
      have b := stepOutGivenIn_out_lower hsp hn hok.1 (by simpa [stepOf] using hstep)
      have := i2 rfl
      unfold sumOut sumExactOut sumOutLoss StepRec.amtOut
      simp only [↓reduceIte]
      push_cast
      linarith
    · intro ho
      subst ho
      have hs : stepInGivenOut zfo spf e.st.pool.sqrtPrice e.target e.st.pool.liquidity e.st.remaining = some e.res := by
        simpa [stepOf] using hstep
      obtain ⟨_, _, _, _, _, _, _, hch, _⟩ := stepInGivenOut_decomp hs
      simp only [resIn, Bool.false_eq_true, ↓reduceIte] at ek
      have a0 : 0 ≤ e.res.amountOther := by rw [ek]; exact Int.mul_nonneg k0 P18_nonneg
      have c := spreadChargeFromAmountIn_lt a0 hs0 hs1 hch
      have := i3 rfl
      unfold sumCharge sumIn StepRec.amtIn feeRate
      simp only [Bool.false_eq_true, ↓reduceIte, List.length_cons]
      unfold feeRate at this
      push_cast
      nlinarith [this, c]

/-- the prices of a run stay above `pathFloor`, and the run never moves against the swap direction. -/
theorem run_floorL {ogi zfo : Bool} {spf limit : Int} {st st' : SwapSt} {tr : List StepRec}
    (h : Run ogi zfo spf limit st tr st') (hall : ∀ e ∈ tr, RecGoodL ogi zfo limit e) :
    (if zfo then st'.pool.sqrtPrice ≤ st.pool.sqrtPrice else st.pool.sqrtPrice ≤ st'.pool.sqrtPrice) ∧
    ∀ e ∈ tr, pathFloor zfo st.pool.sqrtPrice ≤ e.st.pool.sqrtPrice ∧
      pathFloor zfo st.pool.sqrtPrice ≤ e.res.sqrtPriceNext := by
  induction h with
  | nil st => exact ⟨by cases zfo <;> simp, fun e he => by cases he⟩
  | @cons st st1 st2 target r tr hrem htgt hstep hadv hrun ih =>
    have hg := hall _ List.mem_cons_self
    obtain ⟨⟨_, _, _, hdir⟩, _, _⟩ := hg
    simp only at hdir
    obtain ⟨im, ih⟩ := ih (fun e he => hall e (List.mem_cons_of_mem _ he))
    refine ⟨?_, fun e he => ?_⟩
    · rw [hadv.1] at im
      cases zfo
      · simp only [Bool.false_eq_true, ↓reduceIte] at hdir im ⊢; omega
      · simp only [↓reduceIte] at hdir im ⊢; omega
    · rcases List.mem_cons.mp he with rfl | he
      · unfold pathFloor
        cases zfo
        · simp only [Bool.false_eq_true, ↓reduceIte] at hdir ⊢; omega
        · simp only [↓reduceIte] at hdir ⊢; omega
      · have := ih e he
        unfold pathFloor at this ⊢
        cases zfo
        · simp only [Bool.false_eq_true, ↓reduceIte] at hdir this ⊢
          rw [hadv.1] at this; omega
        · simp only [↓reduceIte] at this ⊢; exact this

/-- bounded rounding for a run all of whose steps are `RecGoodL`. -/
theorem rounding_of_run_goodL {ogi zfo : Bool} {spf limit : Int} {st st' : SwapSt} {tr : List StepRec} {ain aout : Int}
    {steps : Nat} (hs0 : 0 ≤ spf) (hs1 : spf < P18)
    (hrun : Run ogi zfo spf limit st tr st') (hgood : ∀ e ∈ tr, RecGoodL ogi zfo limit e) (hlen : tr.length = steps)
    (c1 : IsCeil (sumIn ogi tr + sumCharge tr) P18 ain) (c2 : IsTrunc (sumOut ogi tr) P18 aout) :
    ((ain : ℚ) - 1) * 10 ^ 18 <
      sumExactIn zfo tr + steps * inGainU zfo (pathFloor zfo st.pool.sqrtPrice) + sumCharge tr ∧
    (ogi = true →
      sumExactOut zfo tr - steps * outLossU zfo (pathFloor zfo st.pool.sqrtPrice) - 10 ^ 18 < (aout : ℚ) * 10 ^ 18) ∧
    (ogi = false →
      (sumCharge tr : ℚ) ≤ (sumIn ogi tr : ℚ) * feeRate spf + steps ∧
      ((ain : ℚ) - 1) * 10 ^ 18 <
        (sumExactIn zfo tr + steps * inGainU zfo (pathFloor zfo st.pool.sqrtPrice)) * (1 + feeRate spf) + steps) := by
  have hfr := feeRate_nonneg hs0 hs1
  have hin : ((ain : ℚ) - 1) * 10 ^ 18 < (sumIn ogi tr : ℚ) + sumCharge tr := by
    have : (((ain - 1) * P18 : Int) : ℚ) < ((sumIn ogi tr + sumCharge tr : Int) : ℚ) := Int.cast_lt.mpr c1.1
    push_cast at this; rw [P18_cast] at this; exact this
  have hout : (sumOut ogi tr : ℚ) - 10 ^ 18 < (aout : ℚ) * 10 ^ 18 := by
    have hlt : sumOut ogi tr < (aout + 1) * P18 := by
      rcases Int.lt_or_le (sumOut ogi tr) 0 with hneg | hnn
      · have := (c2.2 hneg).2
        rw [Int.add_mul]; have := P18_pos; omega
      · exact (c2.1 hnn).2
    have : ((sumOut ogi tr : Int) : ℚ) < (((aout + 1) * P18 : Int) : ℚ) := Int.cast_lt.mpr hlt
    push_cast at this; rw [P18_cast] at this; linarith
  cases tr with
  | nil =>
    simp only [List.length_nil] at hlen
    rw [← hlen]
    simp only [sumIn, sumOut, sumCharge, sumExactIn, sumExactOut, Int.cast_zero, Nat.cast_zero, zero_mul, add_zero,
      sub_zero, zero_sub] at hin hout ⊢
    refine ⟨hin, fun _ => ?_, fun _ => ⟨le_refl _, hin⟩⟩
    linarith
  | cons e0 tr0 =>
    have hpos : 0 < st.pool.sqrtPrice := by
      have := (hgood e0 List.mem_cons_self).1.2.1
      have hpath := hrun.path
      simp only [Path] at hpath
      rw [hpath.1] at this; exact this
    have hm : 0 < pathFloor zfo st.pool.sqrtPrice := by
      unfold pathFloor; cases zfo
      · simpa using hpos
      · simp
    have hfloor := (run_floorL hrun hgood).2
    obtain ⟨u1, u2⟩ := sums_uniform (zfo := zfo) hm (e0 :: tr0) hfloor
    have hmem := hrun.mem
    obtain ⟨s1, s2, s3⟩ := sums_roundingL (ogi := ogi) (zfo := zfo) (limit := limit) hs0 hs1 (e0 :: tr0)
      (fun e he => ⟨hgood e he, (hmem e he).1, (hmem e he).2.2⟩)
    rw [hlen] at u1 u2 s3
    refine ⟨by linarith, fun ho => ?_, fun ho => ?_⟩
    · have := s2 ho; linarith
    · have a := s3 ho
      refine ⟨a, ?_⟩
      have b : (sumIn ogi (e0 :: tr0) : ℚ) * (1 + feeRate spf) ≤
          (sumExactIn zfo (e0 :: tr0) + steps * inGainU zfo (pathFloor zfo st.pool.sqrtPrice)) * (1 + feeRate spf) :=
        mul_le_mul_of_nonneg_right (by linarith) (by linarith)
      linarith

/-- how the final state of a swap relates to its limit, in terms of the amount still unserved (`rem`, raw 18-decimal):
the swap never moves the price against its direction; the price passes the limit only if (at most one raw unit of)
nothing is left — for exact-in exactly nothing, and only with a positive spread factor; if more than one raw unit is
left the swap stopped exactly AT the limit. -/
def LimitRespected (ogi zfo : Bool) (spf limit start final rem : Int) : Prop :=
  (if zfo then final ≤ start else start ≤ final) ∧
  (LimSide zfo limit final ∨ (rem ≤ 1 ∧ (ogi = true → rem = 0 ∧ 0 < spf))) ∧
  (1 < rem → final = limit)

/-- C03 for ANY caller-supplied price limit, on a state that satisfies the C07 invariants: the swap is a run of
within-bucket steps along a contiguous price path; every step starts on the swap side of the limit with its target
between the current price and the limit, and satisfies `StepOK`; amounts are on the pool's side of the exact curve
along the path actually taken (whether the swap was filled completely or stopped at the limit), within the same
rounding bounds as for the execution limit; and the limit is respected in the sense of `LimitRespected`. -/
theorem swap_any_limit_of_inv {p : Pool} (hinv : Inv p) (hspf : SpfOK p.spf) {ogi zfo : Bool}
    {pl specified : Int} {r : SwapOut}
    (h : computeSwap ogi zfo p.spf pl ⟨p.sqrtPrice, p.tick, p.liquidity⟩ (tickList p) specified = some r) :
    ∃ (limit : Int) (tr : List StepRec) (st' : SwapSt),
      sqrtPriceLimit pl zfo = some limit ∧
      (if zfo then CL.MinSqrtPriceBigDec ≤ limit ∧ limit ≤ p.sqrtPrice
        else p.sqrtPrice ≤ limit ∧ limit ≤ CL.MaxSqrtPriceBigDec) ∧
      Run ogi zfo p.spf limit
        { remaining := specified * P18, calculated := 0, pool := ⟨p.sqrtPrice, p.tick, p.liquidity⟩, spreadTotal := 0,
          noProgress := 0 } tr st' ∧
      Path p.sqrtPrice tr r.pool.sqrtPrice ∧ tr.length = r.steps ∧ 0 ≤ st'.remaining ∧
      (if ogi then sumIn ogi tr + sumCharge tr = specified * P18 - st'.remaining
        else sumOut ogi tr = specified * P18 - st'.remaining) ∧
      (∀ e ∈ tr, RecGoodL ogi zfo limit e) ∧
      LimitRespected ogi zfo p.spf limit p.sqrtPrice r.pool.sqrtPrice st'.remaining ∧
      ((r.amountOut : ℚ) * 10 ^ 18 ≤ sumExactOut zfo tr ∧ sumExactIn zfo tr ≤ (r.amountIn : ℚ) * 10 ^ 18) ∧
      ((r.amountIn : ℚ) - 1) * 10 ^ 18 <
        sumExactIn zfo tr + r.steps * inGainU zfo (pathFloor zfo p.sqrtPrice) + sumCharge tr ∧
      (ogi = true →
        sumExactOut zfo tr - r.steps * outLossU zfo (pathFloor zfo p.sqrtPrice) - 10 ^ 18 < (r.amountOut : ℚ) * 10 ^ 18) ∧
      (ogi = false →
        (sumCharge tr : ℚ) ≤ (sumIn ogi tr : ℚ) * feeRate p.spf + r.steps ∧
        ((r.amountIn : ℚ) - 1) * 10 ^ 18 <
          (sumExactIn zfo tr + r.steps * inGainU zfo (pathFloor zfo p.sqrtPrice)) * (1 + feeRate p.spf) + r.steps) := by
  obtain ⟨limit, tr, st', hlim, hv, hrun, hlen, hp, hrem0, _, c1, c2, hsum, hstop, hgood, hend⟩ :=
    computeSwap_run_good_lim hinv hspf h
  obtain ⟨hs0, hs1⟩ := spfOK_lt hspf
  have hc := curve_of_run_goodL hs0 hs1 (fun hpos => limit_pos_of_valid hpos hv) hrun hgood c1 c2
  have hr := rounding_of_run_goodL hs0 hs1 hrun hgood hlen c1 c2
  simp only at hr
  have hmono := (run_floorL hrun hgood).1
  simp only at hmono
  refine ⟨limit, tr, st', hlim, hv, hrun, by rw [hp]; exact hrun.path, hlen, hrem0, hsum, hgood, ?_, hc, hr⟩
  rw [hp]
  refine ⟨hmono, ?_, fun h1 => ?_⟩
  · rcases hend with hs | ⟨hle, hog⟩
    · exact Or.inl hs
    · right
      refine ⟨hle, fun ho => ?_⟩
      obtain ⟨h0, hz⟩ := hog ho
      refine ⟨by omega, ?_⟩
      rcases Int.lt_or_le 0 p.spf with hpos | hnp
      · exact hpos
      · have := hz (by omega); omega
  · apply Classical.byContradiction
    intro hne
    exact hstop ⟨h1, hne⟩

end OsmoVerif.CLLimit
