/-
`Exp2`, part 3 — the ANALYTIC accuracy of the coded rational approximant: for every real `X ∈ [0,1]`
`|P(X)/Q(X) − 2^X| ≤ 10^-21 − 70·10^-36`.

Method: `2^X = exp(X·ln 2)`, `ln 2 ∈ (lo, hi)` (39 decimals, MathLogConst), so
`T(lo·X) ≤ 2^X ≤ T(hi·X) + ρ` with `T` the degree-23 Taylor polynomial of `exp` and `ρ` Mathlib's explicit
remainder.  The two rational polynomials `P − Q·T(lo·X)` and `P − Q·T(hi·X)` (degree 29) are bounded on [0,1] by
the certified checker of MathPoly (16 subintervals, exact Taylor shift over ℚ, evaluated by the kernel).
-/
import OsmoVerif.Proofs.MathPoly
import OsmoVerif.Proofs.MathExp2b
import OsmoVerif.Proofs.MathLogConst

namespace OsmoVerif.MathM
open OsmoVerif.Num OsmoVerif.Gen OsmoVerif.Poly Real Finset

def pNum : List ℚ := Osmomath.exp2Num.map (fun (n : Int) => (n : ℚ) / 10 ^ 36)
def pDen : List ℚ := Osmomath.exp2Den.map (fun (n : Int) => (n : ℚ) / 10 ^ 36)
/-- Taylor polynomial of `exp(L·X)` in `X`, `N` terms. -/
def tay (L : ℚ) (N : Nat) : List ℚ := (List.range N).map (fun k => L ^ k / (k.factorial : ℚ))
/-- `P(X) − Q(X)·T_N(L·X)`. -/
def polyU (L : ℚ) (N : Nat) : List ℚ := psub pNum (pmul pDen (tay L N))

def ln2lo : ℚ := 693147180559945309417232121458176568075 / 10 ^ 39
def ln2hi : ℚ := 693147180559945309417232121458176568076 / 10 ^ 39

theorem peval_pNum_pDen (X : ℝ) : peval pNum X = (exp2PQ X).1 ∧ peval pDen X = (exp2PQ X).2 := by
  rw [exp2PQ_eq]
  constructor
  · simp only [pNum, Osmomath.exp2Num, List.map_cons, List.map_nil, peval_cons, peval_nil]
    push_cast; ring
  · simp only [pDen, Osmomath.exp2Den, List.map_cons, List.map_nil, peval_cons, peval_nil]
    push_cast; ring

theorem peval_tay (L : ℚ) (N : Nat) (X : ℝ) :
    peval (tay L N) X = ∑ m ∈ range N, ((L : ℝ) * X) ^ m / (m.factorial : ℝ) := by
  unfold tay
  rw [peval_map_range]
  apply Finset.sum_congr rfl
  intro i _
  push_cast; rw [mul_pow]; ring

theorem peval_polyU (L : ℚ) (N : Nat) (X : ℝ) :
    peval (polyU L N) X = (exp2PQ X).1 - (exp2PQ X).2 * ∑ m ∈ range N, ((L : ℝ) * X) ^ m / (m.factorial : ℝ) := by
  unfold polyU
  rw [peval_psub, peval_pmul, (peval_pNum_pDen X).1, (peval_pNum_pDen X).2, peval_tay]

set_option maxRecDepth 1000000 in
theorem checkU_lo : checkBound (polyU ln2lo 24) 16 (41 / 10 ^ 23) = true := by decide +kernel
set_option maxRecDepth 1000000 in
theorem checkU_hi : checkBound (polyU ln2hi 24) 16 (41 / 10 ^ 23) = true := by decide +kernel

/-- ANALYTIC ACCURACY of the approximant on [0,1]. -/
theorem exp2PQ_analytic {X : ℝ} (h0 : 0 ≤ X) (h1 : X ≤ 1) :
    |(exp2PQ X).1 / (exp2PQ X).2 - (2 : ℝ) ^ X| ≤ 1 / 10 ^ 21 - 70 / 10 ^ 36 := by
  obtain ⟨l1, l2⟩ := log_two_bounds_39
  obtain ⟨_, _, bB1, bB2⟩ := exp2PQ_bounds h0 h1
  set A := (exp2PQ X).1
  set B := (exp2PQ X).2
  have hB0 : 0 < B := by linarith
  have elo : ((ln2lo : ℚ) : ℝ) = 0.693147180559945309417232121458176568075 := by unfold ln2lo; norm_num
  have ehi : ((ln2hi : ℚ) : ℝ) = 0.693147180559945309417232121458176568076 := by unfold ln2hi; norm_num
  have hU := checkBound_sound (by norm_num) checkU_lo h0 h1
  have hV := checkBound_sound (by norm_num) checkU_hi h0 h1
  rw [peval_polyU] at hU hV
  have eη : ((41 / 10 ^ 23 : ℚ) : ℝ) = 41 / 10 ^ 23 := by norm_num
  rw [eη] at hU hV
  set Tlo := ∑ m ∈ range 24, ((ln2lo : ℝ) * X) ^ m / (m.factorial : ℝ) with hTlo
  set Thi := ∑ m ∈ range 24, ((ln2hi : ℝ) * X) ^ m / (m.factorial : ℝ) with hThi
  -- 2^X between the two Taylor polynomials
  have e2 : (2 : ℝ) ^ X = Real.exp (Real.log 2 * X) := Real.rpow_def_of_pos (by norm_num) X
  have ylo : 0 ≤ (ln2lo : ℝ) * X := by rw [elo]; positivity
  have yhi0 : 0 ≤ (ln2hi : ℝ) * X := by rw [ehi]; positivity
  have yhi1 : (ln2hi : ℝ) * X ≤ 1 := by rw [ehi]; nlinarith
  have lower : Tlo ≤ (2 : ℝ) ^ X := by
    rw [e2]
    calc Tlo ≤ Real.exp ((ln2lo : ℝ) * X) := Real.sum_le_exp_of_nonneg ylo 24
      _ ≤ Real.exp (Real.log 2 * X) := by
          apply Real.exp_le_exp.mpr
          apply mul_le_mul_of_nonneg_right _ h0
          rw [elo]; linarith
  have hrem : ((ln2hi : ℝ) * X) ^ 24 * (24 + 1) / ((Nat.factorial 24 : ℕ) * (24 : ℕ) : ℝ) ≤ 1 / 10 ^ 27 := by
    have hp : ((ln2hi : ℝ) * X) ^ 24 ≤ (0.7 : ℝ) ^ 24 := by
      apply pow_le_pow_left₀ yhi0
      rw [ehi]; nlinarith
    have hf : ((Nat.factorial 24 : ℕ) : ℝ) = 620448401733239439360000 := by norm_num [Nat.factorial]
    rw [hf]
    have : ((ln2hi : ℝ) * X) ^ 24 * (24 + 1) / (620448401733239439360000 * ((24 : ℕ) : ℝ)) ≤
        (0.7 : ℝ) ^ 24 * (24 + 1) / (620448401733239439360000 * ((24 : ℕ) : ℝ)) := by
      apply div_le_div_of_nonneg_right _ (by positivity)
      nlinarith
    refine le_trans this ?_
    norm_num
  have upper : (2 : ℝ) ^ X ≤ Thi + 1 / 10 ^ 27 := by
    rw [e2]
    calc Real.exp (Real.log 2 * X) ≤ Real.exp ((ln2hi : ℝ) * X) := by
          apply Real.exp_le_exp.mpr
          apply mul_le_mul_of_nonneg_right _ h0
          rw [ehi]; linarith
      _ ≤ Thi + ((ln2hi : ℝ) * X) ^ 24 * (24 + 1) / ((Nat.factorial 24 : ℕ) * (24 : ℕ) : ℝ) :=
          Real.exp_bound' yhi0 yhi1 (by norm_num)
      _ ≤ _ := by linarith
  obtain ⟨u1, u2⟩ := abs_le.mp hU
  obtain ⟨v1, v2⟩ := abs_le.mp hV
  -- |A − B·2^X| ≤ η + 1.06·ρ
  have d1 : A - B * (2 : ℝ) ^ X ≤ 41 / 10 ^ 23 := by nlinarith
  have d2 : -(41 / 10 ^ 23 + 1.06 / 10 ^ 27) ≤ A - B * (2 : ℝ) ^ X := by nlinarith
  have e : A / B - (2 : ℝ) ^ X = (A - B * (2 : ℝ) ^ X) / B := by field_simp
  rw [e, abs_div, abs_of_pos hB0, div_le_iff₀ hB0]
  have hb : |A - B * (2 : ℝ) ^ X| ≤ 41 / 10 ^ 23 + 1.06 / 10 ^ 27 := by
    rw [abs_le]; constructor <;> linarith
  have : (41 / 10 ^ 23 + 1.06 / 10 ^ 27 : ℝ) ≤ (1 / 10 ^ 21 - 70 / 10 ^ 36) * 0.65 := by norm_num
  nlinarith

end OsmoVerif.MathM
