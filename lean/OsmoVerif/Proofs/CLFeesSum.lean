/-
C08 helpers, part 7: sums over the position list.
* `totalLiq`, the invariant `totalShares = Σ liquidity` ingredients, `activeAt ≤ totalLiq`;
* `entI` — the exact (unrounded) entitlement of a position, in units raw × raw:
  `unclaimed · 10¹⁸ + (growth inside now − snapshot) · shares` — and `phi = paid out · scale · 10¹⁸ + Σ entI`;
* arithmetic of the claim: `claimAmt scale x · scale ≤ x`, the re-deposited dust is at most the dust, a settlement's
  half-even rounding moves at most half a unit.
Core only.
-/
import OsmoVerif.Proofs.CLFeesHist

namespace OsmoVerif.CLFeesP
open OsmoVerif.CLPool OsmoVerif.CL OsmoVerif.CLBook OsmoVerif.Num OsmoVerif.CLFees OsmoVerif.CLRewards OsmoVerif.Gen

/-! ## sums -/

theorem sumBy_map (F : Position → Int) (g : Position → Position) (ps : List Position) :
    sumBy F (ps.map g) = sumBy (fun q => F (g q)) ps := by
  induction ps with
  | nil => rfl
  | cons a as ih => simp only [List.map_cons, sumBy_cons, ih]

theorem sumBy_add (F G : Position → Int) (ps : List Position) :
    sumBy (fun q => F q + G q) ps = sumBy F ps + sumBy G ps := by
  induction ps with
  | nil => rfl
  | cons a as ih => simp only [sumBy_cons, ih]; omega

theorem sumBy_mul (k : Int) (F : Position → Int) (ps : List Position) :
    sumBy (fun q => k * F q) ps = k * sumBy F ps := by
  induction ps with
  | nil => simp
  | cons a as ih => simp only [sumBy_cons, ih, Int.mul_add]

theorem sumBy_le {F G : Position → Int} {ps : List Position} (h : ∀ q ∈ ps, F q ≤ G q) : sumBy F ps ≤ sumBy G ps := by
  induction ps with
  | nil => exact Int.le_refl _
  | cons a as ih =>
    simp only [sumBy_cons]
    have h1 := h a List.mem_cons_self
    have h2 := ih (fun q hq => h q (List.mem_cons_of_mem _ hq))
    omega

/-- changing the summand at one id (unique ids). -/
theorem sumBy_point {F G : Position → Int} {ps : List Position} {pos : Position} (hu : UniqueIds ps) (hm : pos ∈ ps)
    (h : ∀ q ∈ ps, q.id ≠ pos.id → G q = F q) : sumBy G ps = sumBy F ps + (G pos - F pos) := by
  induction ps with
  | nil => cases hm
  | cons a as ih =>
    have hu' := List.pairwise_cons.mp hu
    simp only [sumBy_cons]
    rcases List.mem_cons.mp hm with rfl | hm'
    · have : sumBy G as = sumBy F as := by
        apply sumBy_congr
        intro q hq
        exact h q (List.mem_cons_of_mem _ hq) (fun e => hu'.1 q hq e.symm)
      rw [this]; omega
    · have hne : a.id ≠ pos.id := hu'.1 pos hm'
      rw [h a List.mem_cons_self hne, ih hu'.2 hm' (fun q hq => h q (List.mem_cons_of_mem _ hq))]
      omega

theorem sumBy_filter_id {F : Position → Int} {ps : List Position} {pos : Position} (hu : UniqueIds ps) (hm : pos ∈ ps) :
    sumBy F (ps.filter fun q => decide (q.id ≠ pos.id)) = sumBy F ps - F pos := by
  induction ps with
  | nil => cases hm
  | cons a as ih =>
    have hu' := List.pairwise_cons.mp hu
    rcases List.mem_cons.mp hm with rfl | hm'
    · have h1 : ¬ (decide (pos.id ≠ pos.id) = true) := by simp
      rw [List.filter_cons, if_neg h1]
      have : as.filter (fun q => decide (q.id ≠ pos.id)) = as := by
        apply filter_of_no_id
        intro q hq; exact fun e => hu'.1 q hq e.symm
      rw [this]; simp only [sumBy_cons]; omega
    · have hne : a.id ≠ pos.id := hu'.1 pos hm'
      have h1 : decide (a.id ≠ pos.id) = true := by simp [hne]
      rw [List.filter_cons, if_pos h1]
      simp only [sumBy_cons, ih hu'.2 hm']; omega

def liqW (_ _ x : Int) : Int := x
theorem liqW_additive : Additive liqW := fun _ _ _ _ => rfl

/-- total liquidity of all positions. -/
def totalLiq (ps : List Position) : Int := sumBy (onPos liqW) ps

theorem totalLiq_eq (ps : List Position) : totalLiq ps = sumBy (fun q => q.liq) ps := rfl

theorem activeAt_le_totalLiq {ps : List Position} (h : ∀ q ∈ ps, 0 < q.liq) (c : Int) :
    0 ≤ activeAt ps c ∧ activeAt ps c ≤ totalLiq ps := by
  constructor
  · apply sumBy_nonneg
    intro q hq; have := h q hq
    simp only [onPos, actW]; split <;> omega
  · apply sumBy_le
    intro q hq; have := h q hq
    simp only [onPos, actW, liqW]; split <;> omega

theorem liq_le_totalLiq {ps : List Position} (h : ∀ q ∈ ps, 0 < q.liq) {pos : Position} (hm : pos ∈ ps) :
    pos.liq ≤ totalLiq ps := by
  have := sumBy_ge_term (f := onPos liqW) (ps := ps) (fun q hq => by have := h q hq; simp only [onPos, liqW]; omega) hm
  exact this

/-- growth `k` credited to the positions in range at tick `c`, summed over the positions = `k` × active liquidity. -/
theorem sumBy_credit (k c : Int) (ps : List Position) :
    sumBy (fun q => (if q.lower ≤ c ∧ c < q.upper then k else 0) * q.liq) ps = k * activeAt ps c := by
  unfold activeAt
  rw [← sumBy_mul]
  apply sumBy_congr
  intro q _
  simp only [onPos, actW]
  split <;> simp

/-! ## arithmetic of a claim -/

theorem tdiv_le_self {x d : Int} (hx : 0 ≤ x) (hd : 0 < d) : 0 ≤ x.tdiv d ∧ x.tdiv d * d ≤ x ∧ x - x.tdiv d * d < d := by
  obtain ⟨e, hp, _⟩ := tdiv_tmod_spec x d hd
  have := hp hx
  exact ⟨Int.tdiv_nonneg hx (by omega), by omega, by omega⟩

/-- whole tokens paid × scaling factor never exceed the accrued (scaled) amount. -/
theorem claimAmt_le {scale x : Int} (hs : 0 < scale) (hx : 0 ≤ x) : 0 ≤ claimAmt scale x ∧ claimAmt scale x * scale ≤ x := by
  have hP := P18_pos
  obtain ⟨q0, q1, _⟩ := tdiv_le_self hx hP
  unfold claimAmt
  split
  · rename_i e; rw [e]; exact ⟨q0, q1⟩
  · unfold scaleDownZ
    have hy0 : 0 ≤ x.tdiv P18 * P18 * P18 := Int.mul_nonneg (Int.mul_nonneg q0 (by omega)) (by omega)
    obtain ⟨y0, y1, _⟩ := tdiv_le_self hy0 hs
    obtain ⟨c0, c1, _⟩ := tdiv_le_self y0 hP
    refine ⟨c0, ?_⟩
    -- c·P18 ≤ y, y·scale ≤ q·P18·P18  ⇒  c·scale·P18 ≤ q·P18·P18  ⇒  c·scale ≤ q·P18 ≤ x
    have h1 : ((x.tdiv P18 * P18 * P18).tdiv scale).tdiv P18 * P18 * scale ≤ (x.tdiv P18 * P18 * P18).tdiv scale * scale :=
      Int.mul_le_mul_of_nonneg_right c1 (by omega)
    have h2 : ((x.tdiv P18 * P18 * P18).tdiv scale).tdiv P18 * scale * P18 ≤ x.tdiv P18 * P18 * P18 := by
      have e : ((x.tdiv P18 * P18 * P18).tdiv scale).tdiv P18 * scale * P18 =
          ((x.tdiv P18 * P18 * P18).tdiv scale).tdiv P18 * P18 * scale := by
        rw [Int.mul_assoc, Int.mul_comm scale P18, ← Int.mul_assoc]
      rw [e]; omega
    have h3 : ((x.tdiv P18 * P18 * P18).tdiv scale).tdiv P18 * scale ≤ x.tdiv P18 * P18 :=
      Int.le_of_mul_le_mul_right h2 hP
    omega

/-- the dust that goes back into the accumulator, times the total shares, is at most dust × 10¹⁸. -/
theorem dustGrowthI_bound {scale x T : Int} (hx : 0 ≤ x) (hT : 0 ≤ T) :
    0 ≤ dustGrowthI scale x T ∧
    dustGrowthI scale x T * T ≤ (if scale = P18 then (x - x.tdiv P18 * P18) * P18 else 0) := by
  have hP := P18_pos
  obtain ⟨_, q1, q2⟩ := tdiv_le_self hx hP
  unfold dustGrowthI
  split
  · split
    · rename_i hz; rw [hz]
      refine ⟨Int.le_refl _, ?_⟩
      have : 0 ≤ (x - x.tdiv P18 * P18) * P18 := Int.mul_nonneg (by omega) (by omega)
      omega
    · rename_i hz
      have hT' : 0 < T := by omega
      have hd0 : 0 ≤ (x - x.tdiv P18 * P18) * P18 := Int.mul_nonneg (by omega) (by omega)
      obtain ⟨g0, g1, _⟩ := tdiv_le_self hd0 hT'
      exact ⟨g0, g1⟩
  · exact ⟨Int.le_refl _, by omega⟩

/-- one settlement (`MulDec`, half-even): rounded × 10¹⁸ is within half a unit of the exact product. -/
theorem settle_bound {d sh : Int} (hd : 0 ≤ d) (hsh : 0 ≤ sh) :
    2 * (chopRound P18 (d * sh) * P18) ≤ 2 * (d * sh) + P18 := by
  have hx : 0 ≤ d * sh := Int.mul_nonneg hd hsh
  have hP : P18 = 1000000000000000000 := by decide
  obtain ⟨e, hp, _⟩ := tdiv_tmod_spec (d * sh) P18 (by decide)
  have hr := hp hx
  unfold chopRound
  rw [if_neg (by omega)]
  unfold chopRoundNonneg
  simp only
  have h2 : P18.tdiv 2 = 500000000000000000 := by decide
  rw [h2]
  have hq1 : ((d * sh).tdiv P18 + 1) * P18 = (d * sh).tdiv P18 * P18 + P18 := by rw [Int.add_mul, Int.one_mul]
  split
  · omega
  · split
    · omega
    · split
      · rw [hq1]; omega
      · split
        · omega
        · rw [hq1]; omega

/-! ## entitlements -/

/-- exact entitlement of position `q`, component `s`, in units raw × raw. -/
def entI (f : Fees) (s : Bool) (q : Position) : Int :=
  match getRec f.acc.recs q.id with
  | some r => get s r.unclaimed * P18 + (get s (insideF f q.lower q.upper) - get s r.snap) * r.shares
  | none => 0

def outS (f : Fees) (s : Bool) : Int := if s then f.out0 else f.out1
def feeS (f : Fees) (s : Bool) : Int := if s then f.pool.fee0 else f.pool.fee1

/-- paid out so far (in units raw × raw) + the exact entitlements of all live positions. -/
def phi (f : Fees) (s : Bool) : Int := outS f s * (f.pool.scale * P18) + sumBy (entI f s) f.pool.positions

theorem entI_congr_pos {f : Fees} {s : Bool} {q q' : Position} (h0 : q'.id = q.id) (h1 : q'.lower = q.lower) (h2 : q'.upper = q.upper) :
    entI f s q' = entI f s q := by
  unfold entI; rw [h0, h1, h2]

end OsmoVerif.CLFeesP
