/-
C19 / x/concentrated-liquidity genesis: on every state satisfying the reachable-state invariant `IncInv` of C07/C08
(`Props/C08IncHist.reachable_inv_inc`) `ExportGenesis` does not panic and `InitGenesis` accepts the document.  Core only.
-/
import OsmoVerif.Proofs.CLFullGenesis
import OsmoVerif.Proofs.CLIncHist25

namespace OsmoVerif.CLInc
open OsmoVerif.Num OsmoVerif.CL OsmoVerif.CLPool OsmoVerif.CLFees OsmoVerif.CLBook OsmoVerif.CLFeesP OsmoVerif.CLIncP

theorem mapM_isSome_of_forall {α β : Type} (f : α → Option β) : ∀ (l : List α), (∀ x ∈ l, (f x).isSome = true) →
    ∃ r, l.mapM f = some r ∧ r.length = l.length
  | [], _ => ⟨[], rfl, rfl⟩
  | x :: xs, h => by
    obtain ⟨r, hr, hl⟩ := mapM_isSome_of_forall f xs (fun y hy => h y (List.mem_cons_of_mem _ hy))
    cases hx : f x with
    | none => have := h x List.mem_cons_self; rw [hx] at this; cases this
    | some v =>
      refine ⟨v :: r, ?_, by simp [hl]⟩
      rw [List.mapM_cons, hx, hr]; rfl

theorem mem_of_mapM {α β : Type} {f : α → Option β} : ∀ {l : List α} {r : List β}, l.mapM f = some r →
    ∀ y ∈ r, ∃ x ∈ l, f x = some y
  | [], r, h, y, hy => by
    have : r = [] := by simpa using h.symm
    rw [this] at hy; cases hy
  | x :: xs, r, h, y, hy => by
    rw [List.mapM_cons] at h
    cases hx : f x with
    | none => rw [hx] at h; cases h
    | some v =>
      rw [hx] at h
      cases hr : xs.mapM f with
      | none => rw [hr] at h; cases h
      | some r' =>
        rw [hr] at h
        have : r = v :: r' := by
          have h' : some (v :: r') = some r := h
          injection h' with h'; exact h'.symm
        rw [this] at hy
        rcases List.mem_cons.mp hy with e | hy'
        · exact ⟨x, List.mem_cons_self, by rw [hx, e]⟩
        · obtain ⟨x', hx', e⟩ := mem_of_mapM hr y hy'
          exact ⟨x', List.mem_cons_of_mem _ hx', e⟩

theorem mem_insertPosById {x q : Position} : ∀ {l : List Position}, x ∈ insertPosById q l → x = q ∨ x ∈ l
  | [], h => by simp only [insertPosById, List.mem_singleton] at h; exact Or.inl h
  | y :: ys, h => by
    unfold insertPosById at h
    split at h
    · rcases List.mem_cons.mp h with h | h
      · exact Or.inl h
      · exact Or.inr h
    · rcases List.mem_cons.mp h with h | h
      · exact Or.inr (by rw [h]; exact List.mem_cons_self)
      · rcases mem_insertPosById h with h | h
        · exact Or.inl h
        · exact Or.inr (List.mem_cons_of_mem _ h)

theorem mem_sortPosById {x : Position} : ∀ {l : List Position}, x ∈ sortPosById l → x ∈ l
  | [], h => by cases h
  | q :: qs, h => by
    unfold sortPosById at h
    rcases mem_insertPosById h with h | h
    · rw [h]; exact List.mem_cons_self
    · exact List.mem_cons_of_mem _ (mem_sortPosById h)

/-- the record loop of one position succeeds when it has no more records than there are accumulators, and keeps their number -/
theorem setUptimeRecs_some (id : Nat) : ∀ (accs : List UAcc) (us : List (GRec DC)), us.length ≤ accs.length →
    ∃ r, setUptimeRecs id accs us = some r ∧ r.length = accs.length
  | accs, [], _ => ⟨accs, by cases accs <;> rfl, rfl⟩
  | [], _ :: _, h => by simp at h
  | a :: as, u :: us, h => by
    obtain ⟨r, hr, hl⟩ := setUptimeRecs_some id as us (by simpa using h)
    refine ⟨{ a with recs := putK (fun (r : URec) => (r.id : Int)) a.recs ⟨id, u.shares, u.snap, u.unclaimed⟩ } :: r, ?_, by simp [hl]⟩
    simp only [setUptimeRecs, hr, Option.map_some]

theorem foldlM_setUptimeRecs_some (n : Nat) : ∀ (ps : List GPosition) (accs : List UAcc), accs.length = n →
    (∀ p ∈ ps, p.uptimeRecs.length = n) →
    ∃ r, ps.foldlM (fun us p => setUptimeRecs p.pos.id us p.uptimeRecs) accs = some r
  | [], accs, _, _ => ⟨accs, rfl⟩
  | p :: ps, accs, hl, hp => by
    obtain ⟨r, hr, hrl⟩ := setUptimeRecs_some p.pos.id accs p.uptimeRecs (by rw [hp p List.mem_cons_self, hl])
    obtain ⟨r', hr'⟩ := foldlM_setUptimeRecs_some n ps r (by rw [hrl, hl]) (fun q hq => hp q (List.mem_cons_of_mem _ hq))
    exact ⟨r', by rw [List.foldlM_cons, hr]; exact hr'⟩

/-- **`ExportGenesis` → `InitGenesis` never panics on a state satisfying `IncInv`** -/
theorem exportImportFull_isSome {s : Full} (h : IncInv s) : (exportImportFull s).isSome = true := by
  have hcore := h.fees.pool.core
  -- every stored tick carries a growth-outside entry and uptime trackers
  have htick : ∀ t ∈ s.fees.pool.ticks, (exportTick s t).isSome = true := by
    intro t ht
    obtain ⟨q, hq, hb⟩ := (hcore.stored t.tick).mp ⟨t, ht, rfl⟩
    have ho := h.fees.acc.stored q hq
    have htr := h.inc.stored q hq
    unfold exportTick
    rcases hb with hb | hb
    · rw [← hb]
      cases h1 : getOut s.fees.acc.outs q.lower with
      | none => rw [h1] at ho; cases ho.1
      | some o =>
        cases h2 : getTr s.inc.trackers q.lower with
        | none => rw [h2] at htr; cases htr.1
        | some tr => rfl
    · rw [← hb]
      cases h1 : getOut s.fees.acc.outs q.upper with
      | none => rw [h1] at ho; cases ho.2
      | some o =>
        cases h2 : getTr s.inc.trackers q.upper with
        | none => rw [h2] at htr; cases htr.2
        | some tr => rfl
  -- every live position has a join time and a record in all seven accumulators
  have hpos : ∀ q ∈ sortPosById s.fees.pool.positions, ∃ g, exportPosition s q = some g ∧ g.uptimeRecs.length = s.inc.accs.length := by
    intro q hq'
    have hq := mem_sortPosById hq'
    obtain ⟨r, hr, _, _⟩ := h.fees.acc.recs q hq
    have hj := h.inc.joined q hq
    obtain ⟨us, hus, hlen⟩ := mapM_isSome_of_forall
      (fun a => (getURec a.recs q.id).map fun u => (⟨u.shares, u.snap, u.unclaimed⟩ : GRec DC)) s.inc.accs
      (fun a ha => by
        obtain ⟨u, hu, _⟩ := (h.inc.accs a ha).recs q hq
        rw [hu]; rfl)
    cases hjf : s.inc.join.find? (·.1 = q.id) with
    | none => rw [hjf] at hj; cases hj
    | some e =>
      refine ⟨⟨q, e.2, ⟨r.shares, r.snap, r.unclaimed⟩, us⟩, ?_, hlen⟩
      unfold exportPosition
      rw [hjf, hr, hus]
      rfl
  obtain ⟨gts, hgts, _⟩ := mapM_isSome_of_forall (exportTick s) s.fees.pool.ticks htick
  obtain ⟨gps, hgps, _⟩ := mapM_isSome_of_forall (exportPosition s) (sortPosById s.fees.pool.positions)
    (fun q hq => by obtain ⟨g, hg, _⟩ := hpos q hq; rw [hg]; rfl)
  have hlen : ∀ p ∈ gps, p.uptimeRecs.length = s.inc.accs.length := by
    intro p hp
    obtain ⟨q, hq, he⟩ := mem_of_mapM hgps p hp
    obtain ⟨g, hg, hl⟩ := hpos q hq
    rw [hg] at he; injection he with he; rw [← he]; exact hl
  unfold exportImportFull exportFull
  rw [hgts, hgps]
  simp only [Option.bind_some, Option.map_some]
  unfold initFull
  simp only
  obtain ⟨r, hr⟩ := foldlM_setUptimeRecs_some s.inc.accs.length gps
    ((s.inc.accs.map fun a => (a.value, a.total)).map fun a => ({ value := a.1, total := a.2, recs := [] } : UAcc))
    (by simp) hlen
  rw [hr]
  rfl

end OsmoVerif.CLInc
