/-
The geometric TWAP against the TRUE weighted geometric mean, over Mathlib reals: real-valued weighted sums over the
overlap weights of `Spec/Twap.lean`, the effective price / logarithm of a record, the accumulated error of the mean
exponent, and the composition with `Proofs/TwapGeomReal.lean`.

* `meanExp_real`        : the truncated mean `(Σ twapLog(pᵢ)·wᵢ).tdiv W` is within `2·10^-18 + 89·10^-36` of
                          `Σ log₂(pᵢ)·wᵢ / W` (one truncation per recorded logarithm, `LogBase2`, one truncation of the mean);
* `geomFinish_vs_true`  : `geomFinish` of such an exponent against `T = 2^(± mean)`: `3·10^-18·T + 10^-18 + 10^-36`
                          before `SigFigRound`, `(5·10^-8 + 10^-17)·T + 2·10^-18` after it;
* `two_rpow_mean_between`: the weighted geometric mean lies between the least and the greatest price carrying weight;
* `wgeo_eq_prod`        : `2^(Σ log₂(pᵢ)·wᵢ/W) = Π pᵢ^(wᵢ/W)`;
* `recip_product_bound` : two values within `ρ·T + α` of `T` and `ρ/T + α` of `1/T` multiply to 1 up to
                          `2ρ + ρ² + (1+ρ)·α·(T + 1/T) + α²`;
* `rev_mean_close`      : recorded reverse prices within the relative `δ` of the reciprocals.
-/
import OsmoVerif.Proofs.TwapGeomReal

namespace OsmoVerif.Twap
open OsmoVerif.MathM OsmoVerif.Num OsmoVerif.Gen Real

/-! ### real-valued weighted sums -/

/-- `Σ f(record) · weight` over the reals. -/
noncomputable def wsumR (f : TwapRecord → ℝ) : List (TwapRecord × Int) → ℝ
  | [] => 0
  | (r, w) :: t => f r * (w : ℝ) + wsumR f t

theorem wsum_cast (sel : TwapRecord → Int) : ∀ ws : List (TwapRecord × Int),
    ((wsum sel ws : Int) : ℝ) = wsumR (fun r => (sel r : ℝ)) ws
  | [] => by simp [wsum, wsumR]
  | (r, w) :: t => by
    show ((sel r * w + wsum sel t : Int) : ℝ) = (sel r : ℝ) * (w : ℝ) + wsumR _ t
    rw [← wsum_cast sel t]; push_cast; ring

theorem wsumR_one (ws : List (TwapRecord × Int)) :
    wsumR (fun _ => 1) ws = ((wsum (fun _ => 1) ws : Int) : ℝ) := by
  rw [wsum_cast]; simp

theorem wsumR_div (f : TwapRecord → ℝ) (c : ℝ) : ∀ ws : List (TwapRecord × Int),
    wsumR (fun r => f r / c) ws = wsumR f ws / c
  | [] => by simp [wsumR]
  | (r, w) :: t => by
    show f r / c * (w : ℝ) + wsumR _ t = (f r * (w : ℝ) + wsumR f t) / c
    rw [wsumR_div f c t]; ring

theorem wsumR_neg (f : TwapRecord → ℝ) : ∀ ws : List (TwapRecord × Int),
    wsumR (fun r => -f r) ws = -wsumR f ws
  | [] => by simp [wsumR]
  | (r, w) :: t => by
    show -f r * (w : ℝ) + wsumR _ t = -(f r * (w : ℝ) + wsumR f t)
    rw [wsumR_neg f t]; ring

theorem wsumR_add (f g : TwapRecord → ℝ) : ∀ ws : List (TwapRecord × Int),
    wsumR (fun r => f r + g r) ws = wsumR f ws + wsumR g ws
  | [] => by simp [wsumR]
  | (r, w) :: t => by
    show (f r + g r) * (w : ℝ) + wsumR _ t = f r * (w : ℝ) + wsumR f t + (g r * (w : ℝ) + wsumR g t)
    rw [wsumR_add f g t]; ring

/-- `lo·Σw ≤ Σ f·w ≤ hi·Σw` when the records with positive weight have `f ∈ [lo, hi]` and no weight is negative. -/
theorem wsumR_bounds {f : TwapRecord → ℝ} {lo hi : ℝ} : ∀ {ws : List (TwapRecord × Int)},
    (∀ p ∈ ws, 0 ≤ p.2) → (∀ p ∈ ws, 0 < p.2 → lo ≤ f p.1 ∧ f p.1 ≤ hi) →
    lo * wsumR (fun _ => 1) ws ≤ wsumR f ws ∧ wsumR f ws ≤ hi * wsumR (fun _ => 1) ws := by
  intro ws
  induction ws with
  | nil => intro _ _; simp [wsumR]
  | cons p t ih =>
    intro hn hb
    obtain ⟨r, w⟩ := p
    have hw : 0 ≤ w := hn (r, w) List.mem_cons_self
    have hwR : (0 : ℝ) ≤ (w : ℝ) := by exact_mod_cast hw
    have iht := ih (fun p hp => hn p (List.mem_cons_of_mem _ hp)) (fun p hp => hb p (List.mem_cons_of_mem _ hp))
    show lo * (1 * (w : ℝ) + wsumR (fun _ => 1) t) ≤ f r * (w : ℝ) + wsumR f t ∧
      f r * (w : ℝ) + wsumR f t ≤ hi * (1 * (w : ℝ) + wsumR (fun _ => 1) t)
    rcases Int.lt_or_eq_of_le hw with hpos | hz
    · obtain ⟨h1, h2⟩ := hb (r, w) List.mem_cons_self hpos
      have a1 := mul_le_mul_of_nonneg_right h1 hwR
      have a2 := mul_le_mul_of_nonneg_right h2 hwR
      constructor
      · linarith [iht.1]
      · linarith [iht.2]
    · subst hz
      simp only [Int.cast_zero, mul_zero, zero_add]
      exact iht

/-- two selectors within `η` of each other on the records with positive weight: the sums differ by at most `η·Σw`. -/
theorem wsumR_err {f g : TwapRecord → ℝ} {η : ℝ} {ws : List (TwapRecord × Int)}
    (hn : ∀ p ∈ ws, 0 ≤ p.2) (hb : ∀ p ∈ ws, 0 < p.2 → |f p.1 - g p.1| ≤ η) :
    |wsumR f ws - wsumR g ws| ≤ η * wsumR (fun _ => 1) ws := by
  have h := wsumR_bounds (f := fun r => f r - g r) (lo := -η) (hi := η) hn
    (fun p hp hpos => by have := abs_le.mp (hb p hp hpos); exact ⟨this.1, this.2⟩)
  have e : wsumR (fun r => f r - g r) ws = wsumR f ws - wsumR g ws := by
    have := wsumR_add f (fun r => -g r) ws
    rw [wsumR_neg] at this
    simpa [sub_eq_add_neg] using this
  rw [e] at h
  rw [abs_le]; constructor <;> linarith [h.1, h.2]

/-! ### the price and logarithm the geometric accumulator sees -/

/-- the price of a record as the geometric accumulator sees it: `P0LastSpotPrice` as a value; a ZERO price (recorded
together with a spot-price error) leaves the accumulator alone, i.e. counts as the price one (`log₂ = 0`). -/
noncomputable def effPrice (r : TwapRecord) : ℝ := if r.sp0 = 0 then 1 else dval r.sp0

/-- its true base-2 logarithm. -/
noncomputable def lgPrice (r : TwapRecord) : ℝ := Real.logb 2 (effPrice r)

/-- the range of prices x/twap supports (`getSpotPrices` clamps to `MaxSpotPrice`; pools report no negative price). -/
def PriceOK (r : TwapRecord) : Prop := 0 ≤ r.sp0 ∧ r.sp0 ≤ Twap.MaxSpotPrice

instance (r : TwapRecord) : Decidable (PriceOK r) := by unfold PriceOK; infer_instance

theorem effPrice_pos {r : TwapRecord} (h : 0 ≤ r.sp0) : 0 < effPrice r := by
  unfold effPrice
  split
  · norm_num
  · rename_i hne
    unfold dval
    have : (0 : ℝ) < (r.sp0 : ℝ) := by exact_mod_cast (by omega : 0 < r.sp0)
    positivity

theorem logW_zero {r : TwapRecord} (h : r.sp0 = 0) : logW r = 0 := by
  unfold logW twapLog; rw [if_pos h]

/-- the recorded logarithm `logW` (= `twapLog`, `0` for a zero price) against the true one. -/
theorem logW_real {r : TwapRecord} (h : PriceOK r) :
    |dval (logW r) - lgPrice r| ≤ 1 / 10 ^ 18 + 89 / 10 ^ 36 := by
  by_cases hz : r.sp0 = 0
  · rw [logW_zero hz]
    unfold lgPrice effPrice dval
    rw [if_pos hz]; simp; positivity
  · obtain ⟨l, hl⟩ := twapLog_total (by have := h.1; omega) h.2
    have e : logW r = l := by unfold logW; rw [hl]
    rw [e]
    unfold lgPrice effPrice
    rw [if_neg hz]
    exact (twapLog_real hl).2

/-! ### the mean exponent -/

/-- **the exponent**: the truncated (`QuoInt64`) mean of the recorded logarithms against the true weighted mean of the
base-2 logarithms of the prices in force. -/
theorem meanExp_real {ws : List (TwapRecord × Int)} {W : Int} (hn : ∀ p ∈ ws, 0 ≤ p.2)
    (hW : wsum (fun _ => 1) ws = W) (hpos : 0 < W) (hp : ∀ p ∈ ws, 0 < p.2 → PriceOK p.1) :
    |dval ((wsum logW ws).tdiv W) - wsumR lgPrice ws / (W : ℝ)| ≤ 2 / 10 ^ 18 + 89 / 10 ^ 36 := by
  have hWR : (0 : ℝ) < (W : ℝ) := by exact_mod_cast hpos
  set S := wsum logW ws with hS
  have e1 : dval S = wsumR (fun r => dval (logW r)) ws := by
    unfold dval; rw [hS, wsum_cast, ← wsumR_div]
  have h1 := wsumR_err (f := fun r => dval (logW r)) (g := lgPrice) hn (fun p hp' hpos' => logW_real (hp p hp' hpos'))
  rw [wsumR_one, hW, ← e1] at h1
  have h2 := tdiv_real S W (by omega)
  have e2 : dval (S.tdiv W) - dval S / W = (((S.tdiv W : Int) : ℝ) - (S : ℝ) / W) / 10 ^ 18 := by
    unfold dval; field_simp
  have h3 : |dval (S.tdiv W) - dval S / W| ≤ 1 / 10 ^ 18 := by
    rw [e2, abs_div, abs_of_pos (by positivity : (0 : ℝ) < 10 ^ 18)]
    exact div_le_div_of_nonneg_right h2.le (by positivity)
  have h4 : |dval S / W - wsumR lgPrice ws / W| ≤ 1 / 10 ^ 18 + 89 / 10 ^ 36 := by
    rw [← sub_div, abs_div, abs_of_pos hWR, div_le_iff₀ hWR]; exact h1
  have tri := abs_sub_le (dval (S.tdiv W)) (dval S / W) (wsumR lgPrice ws / W)
  linarith

/-! ### the closing computation against the true value -/

/-- `geomFinish` of an exponent within `2·10^-18 + 89·10^-36` of `μ`, against `T = 2^(±μ)`: before and after the
8-figure rounding. -/
theorem geomFinish_vs_true {q0 : Bool} {m res : Int} {μ : ℝ} (h : geomFinish q0 m = some res)
    (hμ : |dval m - μ| ≤ 2 / 10 ^ 18 + 89 / 10 ^ 36) :
    (∃ D : Int, 0 ≤ D ∧ sigFigRound D Twap.SpotPriceSigFigs = some res ∧
      |dval D - (2 : ℝ) ^ (dirSign q0 * μ)| ≤ 3 / 10 ^ 18 * (2 : ℝ) ^ (dirSign q0 * μ) + (1 / 10 ^ 18 + 1 / 10 ^ 36)) ∧
    |dval res - (2 : ℝ) ^ (dirSign q0 * μ)| ≤ (5 / 10 ^ 8 + 1 / 10 ^ 17) * (2 : ℝ) ^ (dirSign q0 * μ) + 2 / 10 ^ 18 := by
  obtain ⟨D, hD, hs, hb⟩ := geomFinish_real h
  set T := (2 : ℝ) ^ (dirSign q0 * μ) with hT
  set Tm := (2 : ℝ) ^ (dirSign q0 * dval m) with hTm
  have hTpos : 0 < T := rpow_pos_of_pos (by norm_num) _
  have hsgn : |dirSign q0 * dval m - dirSign q0 * μ| = |dval m - μ| := by
    rw [← mul_sub, abs_mul]
    have : |dirSign q0| = 1 := by unfold dirSign; split <;> simp
    rw [this, one_mul]
  have hc := two_rpow_close (x := dirSign q0 * dval m) (μ := dirSign q0 * μ) (η := 2 / 10 ^ 18 + 89 / 10 ^ 36)
    (by positivity) (by norm_num) (by rw [hsgn]; exact hμ)
  rw [← hT, ← hTm] at hc
  obtain ⟨c1, c2⟩ := abs_le.mp hc
  obtain ⟨b1, b2⟩ := abs_le.mp hb
  have pre : |dval D - T| ≤ 3 / 10 ^ 18 * T + (1 / 10 ^ 18 + 1 / 10 ^ 36) := by
    rw [abs_le]; constructor <;> nlinarith
  refine ⟨⟨D, hD, hs, pre⟩, ?_⟩
  have hr := sigFig8_real hD hs
  obtain ⟨p1, p2⟩ := abs_le.mp pre
  obtain ⟨r1, r2⟩ := abs_le.mp hr
  have hD0 : 0 ≤ dval D := by unfold dval; have : (0 : ℝ) ≤ (D : ℝ) := by exact_mod_cast hD
                              positivity
  rw [abs_le]; constructor <;> nlinarith

/-! ### the weighted geometric mean -/

/-- the weighted geometric mean of the prices carrying weight lies between any bounds of them. -/
theorem two_rpow_mean_between {ws : List (TwapRecord × Int)} {W : Int} {lo hi : ℝ} (hn : ∀ p ∈ ws, 0 ≤ p.2)
    (hW : wsum (fun _ => 1) ws = W) (hpos : 0 < W) (hlo : 0 < lo)
    (hb : ∀ p ∈ ws, 0 < p.2 → lo ≤ effPrice p.1 ∧ effPrice p.1 ≤ hi) :
    lo ≤ (2 : ℝ) ^ (wsumR lgPrice ws / (W : ℝ)) ∧ (2 : ℝ) ^ (wsumR lgPrice ws / (W : ℝ)) ≤ hi := by
  have hWR : (0 : ℝ) < (W : ℝ) := by exact_mod_cast hpos
  -- some record carries weight, so lo ≤ hi
  have hhi : 0 < hi := by
    by_contra hc
    have : ∀ p ∈ ws, p.2 = 0 := fun p hp => by
      by_contra hne
      have h0 := hn p hp
      obtain ⟨a, b⟩ := hb p hp (by omega)
      linarith
    have hz : ∀ ws' : List (TwapRecord × Int), (∀ p ∈ ws', p.2 = 0) → wsum (fun _ => 1) ws' = 0 := by
      intro ws'
      induction ws' with
      | nil => intro _; rfl
      | cons p t ih =>
        intro h
        obtain ⟨r, w⟩ := p
        have hw : w = 0 := h (r, w) List.mem_cons_self
        show 1 * w + wsum (fun _ => 1) t = 0
        rw [ih (fun p hp => h p (List.mem_cons_of_mem _ hp)), hw]; rfl
    rw [hz ws this] at hW; omega
  have h := wsumR_bounds (f := lgPrice) (lo := Real.logb 2 lo) (hi := Real.logb 2 hi) hn (fun p hp hpos' => by
    obtain ⟨a, b⟩ := hb p hp hpos'
    have hp0 : 0 < effPrice p.1 := lt_of_lt_of_le hlo a
    exact ⟨Real.logb_le_logb_of_le (by norm_num) hlo a, Real.logb_le_logb_of_le (by norm_num) hp0 b⟩)
  rw [wsumR_one, hW] at h
  have m1 : Real.logb 2 lo ≤ wsumR lgPrice ws / W := by rw [le_div_iff₀ hWR]; exact h.1
  have m2 : wsumR lgPrice ws / W ≤ Real.logb 2 hi := by rw [div_le_iff₀ hWR]; exact h.2
  have e1 : (2 : ℝ) ^ Real.logb 2 lo = lo := Real.rpow_logb (by norm_num) (by norm_num) hlo
  have e2 : (2 : ℝ) ^ Real.logb 2 hi = hi := Real.rpow_logb (by norm_num) (by norm_num) hhi
  constructor
  · rw [← e1]; exact Real.rpow_le_rpow_of_exponent_le (by norm_num) m1
  · rw [← e2]; exact Real.rpow_le_rpow_of_exponent_le (by norm_num) m2

/-- `Π f(record)^(weight / W)`. -/
noncomputable def wprodR (f : TwapRecord → ℝ) (W : ℝ) : List (TwapRecord × Int) → ℝ
  | [] => 1
  | (r, w) :: t => f r ^ ((w : ℝ) / W) * wprodR f W t

/-- two to the weighted mean of the logarithms IS the weighted geometric mean `Π pᵢ^(wᵢ/W)`. -/
theorem wgeo_eq_prod (W : ℝ) : ∀ ws : List (TwapRecord × Int), (∀ p ∈ ws, 0 ≤ p.1.sp0) →
    (2 : ℝ) ^ (wsumR lgPrice ws / W) = wprodR effPrice W ws
  | [], _ => by simp [wsumR, wprodR]
  | (r, w) :: t, h => by
    have hp : 0 < effPrice r := effPrice_pos (h (r, w) List.mem_cons_self)
    show (2 : ℝ) ^ ((lgPrice r * (w : ℝ) + wsumR lgPrice t) / W) = effPrice r ^ ((w : ℝ) / W) * wprodR effPrice W t
    rw [← wgeo_eq_prod W t (fun p hp => h p (List.mem_cons_of_mem _ hp)), add_div, Real.rpow_add (by norm_num)]
    congr 1
    have e : lgPrice r * (w : ℝ) / W = lgPrice r * ((w : ℝ) / W) := by ring
    rw [e, Real.rpow_mul (by norm_num)]
    unfold lgPrice
    rw [Real.rpow_logb (by norm_num) (by norm_num) hp]

/-! ### reciprocity -/

/-- pure algebra: `x` within `ρ·T + α` of `T`, `y` within `ρ/T + α` of `1/T`. -/
theorem recip_product_bound {x y T ρ α : ℝ} (hT : 0 < T) (hρ : 0 ≤ ρ) (hα : 0 ≤ α)
    (hx : |x - T| ≤ ρ * T + α) (hy : |y - 1 / T| ≤ ρ * (1 / T) + α) :
    |x * y - 1| ≤ 2 * ρ + ρ ^ 2 + (1 + ρ) * α * (T + 1 / T) + α ^ 2 := by
  set U := 1 / T with hU
  have hU0 : 0 < U := by positivity
  have hTU : T * U = 1 := by rw [hU]; field_simp
  set e0 := x - T with he0
  set e1 := y - U with he1
  have hxe : x = T + e0 := by rw [he0]; ring
  have hye : y = U + e1 := by rw [he1]; ring
  have key : x * y - 1 = T * e1 + U * e0 + e0 * e1 := by rw [hxe, hye]; nlinarith
  rw [key]
  have a0 : |T * e1| ≤ T * (ρ * U + α) := by rw [abs_mul, abs_of_pos hT]; exact mul_le_mul_of_nonneg_left hy hT.le
  have a1 : |U * e0| ≤ U * (ρ * T + α) := by rw [abs_mul, abs_of_pos hU0]; exact mul_le_mul_of_nonneg_left hx hU0.le
  have a2 : |e0 * e1| ≤ (ρ * T + α) * (ρ * U + α) := by
    rw [abs_mul]; exact mul_le_mul hx hy (abs_nonneg _) (by positivity)
  have tri := abs_add_three (T * e1) (U * e0) (e0 * e1)
  have expand : T * (ρ * U + α) + U * (ρ * T + α) + (ρ * T + α) * (ρ * U + α)
      = 2 * ρ + ρ ^ 2 + (1 + ρ) * α * (T + U) + α ^ 2 := by
    have : ρ * T * (ρ * U) = ρ ^ 2 := by
      calc ρ * T * (ρ * U) = ρ ^ 2 * (T * U) := by ring
        _ = ρ ^ 2 := by rw [hTU, mul_one]
    nlinarith
  linarith

/-- the recorded reverse price `P1LastSpotPrice` as a value, and its logarithm. -/
noncomputable def lgRev (r : TwapRecord) : ℝ := Real.logb 2 (dval r.sp1)

/-- if every record carrying weight has a positive price and a reverse price within the RELATIVE `δ < 1` of its
reciprocal (`|sp1·sp0 − 1| ≤ δ`), the geometric mean of the reverse prices is the reciprocal of the geometric mean of
the prices up to the factor `[1 − δ, 1/(1 − δ)]`. -/
theorem rev_mean_close {ws : List (TwapRecord × Int)} {W : Int} {δ : ℝ} (hn : ∀ p ∈ ws, 0 ≤ p.2)
    (hW : wsum (fun _ => 1) ws = W) (hpos : 0 < W) (hδ0 : 0 ≤ δ) (hδ1 : δ < 1)
    (hb : ∀ p ∈ ws, 0 < p.2 → 0 < p.1.sp0 ∧ 0 < p.1.sp1 ∧ |dval p.1.sp1 * dval p.1.sp0 - 1| ≤ δ) :
    (1 - δ) * (2 : ℝ) ^ (-(wsumR lgPrice ws / (W : ℝ))) ≤ (2 : ℝ) ^ (wsumR lgRev ws / (W : ℝ)) ∧
    (2 : ℝ) ^ (wsumR lgRev ws / (W : ℝ)) ≤ (2 : ℝ) ^ (-(wsumR lgPrice ws / (W : ℝ))) / (1 - δ) := by
  have hWR : (0 : ℝ) < (W : ℝ) := by exact_mod_cast hpos
  have h1δ : 0 < 1 - δ := by linarith
  set κ := -Real.logb 2 (1 - δ) with hκ
  have hstep : ∀ p ∈ ws, 0 < p.2 → -κ ≤ lgRev p.1 + lgPrice p.1 ∧ lgRev p.1 + lgPrice p.1 ≤ κ := by
    intro p hp hpos'
    obtain ⟨h0, h1, hd⟩ := hb p hp hpos'
    have d0 : 0 < dval p.1.sp0 := by unfold dval; have : (0 : ℝ) < (p.1.sp0 : ℝ) := by exact_mod_cast h0
                                     positivity
    have d1 : 0 < dval p.1.sp1 := by unfold dval; have : (0 : ℝ) < (p.1.sp1 : ℝ) := by exact_mod_cast h1
                                     positivity
    have e : lgRev p.1 + lgPrice p.1 = Real.logb 2 (dval p.1.sp1 * dval p.1.sp0) := by
      unfold lgRev lgPrice effPrice
      rw [if_neg (by omega), Real.logb_mul d1.ne' d0.ne']
    obtain ⟨l, u⟩ := abs_le.mp hd
    rw [e, hκ, neg_neg]
    constructor
    · exact Real.logb_le_logb_of_le (by norm_num) h1δ (by linarith)
    · have hu : dval p.1.sp1 * dval p.1.sp0 ≤ 1 / (1 - δ) := by
        rw [le_div_iff₀ h1δ]; nlinarith
      have := Real.logb_le_logb_of_le (b := 2) (by norm_num) (by positivity) hu
      rwa [one_div, Real.logb_inv] at this
  have h := wsumR_bounds (f := fun r => lgRev r + lgPrice r) (lo := -κ) (hi := κ) hn hstep
  rw [wsumR_add, wsumR_one, hW] at h
  have m1 : -κ ≤ wsumR lgRev ws / W + wsumR lgPrice ws / W := by
    rw [← add_div, le_div_iff₀ hWR]; exact h.1
  have m2 : wsumR lgRev ws / W + wsumR lgPrice ws / W ≤ κ := by
    rw [← add_div, div_le_iff₀ hWR]; exact h.2
  set A := wsumR lgRev ws / (W : ℝ)
  set B := wsumR lgPrice ws / (W : ℝ)
  have hB : (0 : ℝ) < (2 : ℝ) ^ (-B) := rpow_pos_of_pos (by norm_num) _
  have eA : (2 : ℝ) ^ A = (2 : ℝ) ^ (-B) * (2 : ℝ) ^ (A + B) := by
    rw [← Real.rpow_add (by norm_num)]; congr 1; ring
  have k1 : (2 : ℝ) ^ (-κ) = 1 - δ := by rw [hκ, neg_neg, Real.rpow_logb (by norm_num) (by norm_num) h1δ]
  have k2 : (2 : ℝ) ^ κ = 1 / (1 - δ) := by
    rw [hκ, Real.rpow_neg (by norm_num), Real.rpow_logb (by norm_num) (by norm_num) h1δ, one_div]
  have l1 : 1 - δ ≤ (2 : ℝ) ^ (A + B) := by rw [← k1]; exact Real.rpow_le_rpow_of_exponent_le (by norm_num) m1
  have l2 : (2 : ℝ) ^ (A + B) ≤ 1 / (1 - δ) := by rw [← k2]; exact Real.rpow_le_rpow_of_exponent_le (by norm_num) m2
  rw [eA]
  constructor
  · rw [mul_comm]; exact mul_le_mul_of_nonneg_left l1 hB.le
  · rw [div_eq_mul_one_div]; exact mul_le_mul_of_nonneg_left l2 hB.le

/-! ### the true time-weighted geometric mean of a query interval -/

/-- no weight at all: every weighted sum vanishes. -/
theorem wsum_zero_of_total_zero (sel : TwapRecord → Int) : ∀ {ws : List (TwapRecord × Int)},
    (∀ p ∈ ws, 0 ≤ p.2) → wsum (fun _ => 1) ws = 0 → wsum sel ws = 0 := by
  intro ws
  induction ws with
  | nil => intro _ _; rfl
  | cons p t ih =>
    intro hn h
    obtain ⟨r, w⟩ := p
    have hw : 0 ≤ w := hn (r, w) List.mem_cons_self
    have ht : 0 ≤ wsum (fun _ => 1) t := by
      have h0 : ∀ l : List (TwapRecord × Int), (∀ p ∈ l, 0 ≤ p.2) → 0 ≤ wsum (fun _ => 1) l := by
        intro l
        induction l with
        | nil => intro _; exact Int.le_refl _
        | cons q t' ih' =>
          intro hq
          obtain ⟨r', w'⟩ := q
          have := hq (r', w') List.mem_cons_self
          have := ih' (fun p hp => hq p (List.mem_cons_of_mem _ hp))
          show 0 ≤ 1 * w' + wsum (fun _ => 1) t'
          omega
      exact h0 t (fun p hp => hn p (List.mem_cons_of_mem _ hp))
    have h' : 1 * w + wsum (fun _ => 1) t = 0 := h
    have hw0 : w = 0 := by omega
    have ht0 : wsum (fun _ => 1) t = 0 := by omega
    show sel r * w + wsum sel t = 0
    rw [ih (fun p hp => hn p (List.mem_cons_of_mem _ hp)) ht0, hw0]; simp

/-- the time-weighted mean of the TRUE base-2 logarithms of the prices in force during `[a, b]` (weights = canonical
milliseconds; a zero price counts as one, as the code's accumulator does). -/
noncomputable def meanLog (h : List TwapRecord) (a b : Int) : ℝ :=
  wsumR lgPrice (weights h (canonicalMs a) (canonicalMs b)) / ((canonicalMs b - canonicalMs a : Int) : ℝ)

/-- the TRUE geometric TWAP: two to the mean logarithm for quote = asset0, its reciprocal for quote = asset1. -/
noncomputable def trueGeo (q0 : Bool) (h : List TwapRecord) (a b : Int) : ℝ := (2 : ℝ) ^ (dirSign q0 * meanLog h a b)

theorem trueGeo_pos (q0 : Bool) (h : List TwapRecord) (a b : Int) : 0 < trueGeo q0 h a b :=
  rpow_pos_of_pos (by norm_num) _

theorem trueGeo_true (h : List TwapRecord) (a b : Int) : trueGeo true h a b = (2 : ℝ) ^ meanLog h a b := by
  unfold trueGeo dirSign; simp

theorem trueGeo_false (h : List TwapRecord) (a b : Int) : trueGeo false h a b = 1 / trueGeo true h a b := by
  rw [trueGeo_true]; unfold trueGeo dirSign
  simp only [Bool.false_eq_true, if_false, neg_mul, one_mul]
  rw [Real.rpow_neg (by norm_num), one_div]

end OsmoVerif.Twap
