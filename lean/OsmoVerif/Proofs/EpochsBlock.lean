/- C17 helper lemmas: one block (`processTimers`, `beginBlock`, `stepBlock`). -/
import OsmoVerif.Proofs.EpochsTimer
namespace OsmoVerif.Epochs

theorem applySignal_length (scr : Script) (subs : List Store) (sig : Signal) :
    (applySignal scr subs sig).length = subs.length := containFrom_length _ _ _

theorem foldl_applySignal_length (scr : Script) : ∀ (sigs : List Signal) (subs : List Store),
    (sigs.foldl (applySignal scr) subs).length = subs.length
  | [], _ => rfl
  | sig :: r, subs => by
    simp only [List.foldl_cons]
    rw [foldl_applySignal_length scr r, applySignal_length]

/-- subscriber `j`'s store after the signals of a block = fold of exactly its ok invocations -/
theorem foldl_applySignal_getElem? (scr : Script) (j : Nat) : ∀ (sigs : List Signal) (subs : List Store),
    (sigs.foldl (applySignal scr) subs)[j]? = (subs[j]?).map (foldOk scr j sigs)
  | [], subs => by
    show subs[j]? = (subs[j]?).map (foldOk scr j [])
    generalize subs[j]? = o
    cases o <;> rfl
  | sig :: r, subs => by
    simp only [List.foldl_cons]
    rw [foldl_applySignal_getElem? scr j r]
    simp only [applySignal]
    rw [containFrom_getElem?]
    cases subs[j]? <;> simp [foldOk]

theorem processTimers_ok (t h : Int) (scr : Script) : ∀ (l : List EpochInfo) (subs : List Store),
    (processTimers t h scr l subs).panicked = false →
    (processTimers t h scr l subs).timers = l.map (pureStep t h) ∧
    (processTimers t h scr l subs).signals = l.flatMap (pureSignals t) ∧
    (processTimers t h scr l subs).calls = planCalls subs.length (l.flatMap (pureSignals t)) ∧
    (processTimers t h scr l subs).subs = (l.flatMap (pureSignals t)).foldl (applySignal scr) subs
  | [], subs, _ => by simp [processTimers, planCalls]
  | e :: r, subs, hp => by
    unfold processTimers at hp ⊢
    simp only at hp ⊢
    by_cases h1 : (processTimer t h scr e subs).panicked = true
    · simp [h1] at hp
    · have h1' : (processTimer t h scr e subs).panicked = false := by
        cases hq : (processTimer t h scr e subs).panicked <;> simp_all
      simp only [h1', Bool.false_eq_true, if_false] at hp ⊢
      obtain ⟨a1, a2, a3, a4⟩ := processTimer_ok t h scr e subs h1'
      rw [a4] at hp ⊢
      have ih := processTimers_ok t h scr r _ hp
      rw [foldl_applySignal_length] at ih
      refine ⟨?_, ?_, ?_, ?_⟩
      · simp [a1, ih.1]
      · simp [a2, ih.2.1]
      · rw [a3, ih.2.2.1]; simp [planCalls]
      · rw [ih.2.2.2]; simp

theorem processTimers_wellCut (t h : Int) (scr : Script) : ∀ (l : List EpochInfo) (subs : List Store),
    WellCut scr (processTimers t h scr l subs).calls (processTimers t h scr l subs).panicked
  | [], subs => by simp [processTimers, WellCut]
  | e :: r, subs => by
    unfold processTimers
    simp only
    have w := processTimer_wellCut t h scr e subs
    by_cases h1 : (processTimer t h scr e subs).panicked = true
    · simp only [h1, if_true]
      rw [h1] at w; exact w
    · have h1' : (processTimer t h scr e subs).panicked = false := by
        cases hq : (processTimer t h scr e subs).panicked <;> simp_all
      simp only [h1', Bool.false_eq_true, if_false]
      rw [h1'] at w
      exact WellCut.append w (processTimers_wellCut t h scr r _)

theorem processTimers_noOog (t h : Int) (scr : Script) (hn : NoOog scr) (l : List EpochInfo) (subs : List Store) :
    (processTimers t h scr l subs).panicked = false := by
  cases hq : (processTimers t h scr l subs).panicked with
  | false => rfl
  | true =>
    obtain ⟨c, _, ho⟩ := (processTimers_wellCut t h scr l subs).1.1 hq
    exact absurd ho (hn _ _ _)

/-- timers are never added, removed or reordered by a block, whatever happens -/
theorem processTimers_ids (t h : Int) (scr : Script) : ∀ (l : List EpochInfo) (subs : List Store),
    (processTimers t h scr l subs).timers.map (·.identifier) = l.map (·.identifier)
  | [], _ => rfl
  | e :: r, subs => by
    unfold processTimers
    simp only
    have hid : (processTimer t h scr e subs).info.identifier = e.identifier := by
      unfold processTimer
      simp only
      repeat' split
      all_goals rfl
    split
    · simp [hid]
    · simp [hid, processTimers_ids t h scr r]

end OsmoVerif.Epochs
