/-
C01 helpers, part 1: what a successful call of each pool operation of `Model/CLPool.lean` does to the four
bank balances (`bal0/bal1` of the pool address, `fee0/fee1` of the spread-reward address), to the price and
the tick; the frame of `updatePosition`; the amounts of a withdrawal are those of `calcActualAmounts` with
the negated liquidity.  (The `…_some` lemmas of Proofs/CLBookSpec.lean describe ticks/positions/ids only.)
Core only.
-/
import OsmoVerif.Proofs.CLBookMono

namespace OsmoVerif.CLSolv
open OsmoVerif.CLPool OsmoVerif.CLBook OsmoVerif.CL OsmoVerif.Num OsmoVerif.Tick OsmoVerif.Gen

/-! ## updatePosition -/

/-- `updatePosition` touches ticks, positions and liquidity only; its amounts are the truncated
`calcActualAmounts` at the pool's current price and tick. -/
theorem updatePosition_frame {p : Pool} {id : Nat} {owner : String} {l u d : Int} {p' : Pool} {x0 x1 : Int}
    {le ue : Bool} (h : updatePosition p id owner l u d = some (p', x0, x1, le, ue)) :
    p'.bal0 = p.bal0 ∧ p'.bal1 = p.bal1 ∧ p'.fee0 = p.fee0 ∧ p'.fee1 = p.fee1 ∧
    p'.sqrtPrice = p.sqrtPrice ∧ p'.tick = p.tick ∧ p'.spacing = p.spacing ∧ p'.spf = p.spf ∧
    p'.nextId = p.nextId ∧ p'.scale = p.scale ∧
    ∃ a0 a1, calcActualAmounts p l u d = some (a0, a1) ∧
      Dec.truncateInt a0 = some x0 ∧ Dec.truncateInt a1 = some x1 := by
  unfold updatePosition at h
  cases hf : p.positions.find? (fun x => decide (x.id = id)) with
  | none =>
    simp only [hf] at h
    by_cases hd : 0 + d < 0
    · rw [if_pos hd] at h; cases h
    · rw [if_neg hd] at h
      simp only [Option.bind_eq_bind, Option.bind_eq_some_iff, Option.some.injEq, Prod.mk.injEq] at h
      obtain ⟨⟨a0, a1⟩, ha, x0', hx0, x1', hx1, h1, h2, h3, _, _⟩ := h
      subst h1; subst h2; subst h3
      exact ⟨rfl, rfl, rfl, rfl, rfl, rfl, rfl, rfl, rfl, rfl, a0, a1, ha, hx0, hx1⟩
  | some q =>
    simp only [hf] at h
    by_cases hd : q.liq + d < 0
    · rw [if_pos hd] at h; cases h
    · rw [if_neg hd] at h
      simp only [Option.bind_eq_bind, Option.bind_eq_some_iff, Option.some.injEq, Prod.mk.injEq] at h
      obtain ⟨⟨a0, a1⟩, ha, x0', hx0, x1', hx1, h1, h2, h3, _, _⟩ := h
      subst h1; subst h2; subst h3
      exact ⟨rfl, rfl, rfl, rfl, rfl, rfl, rfl, rfl, rfl, rfl, a0, a1, ha, hx0, hx1⟩

/-- conversely: `updatePosition` succeeds as soon as the new liquidity is non-negative and the amounts compute. -/
theorem updatePosition_isSome {p : Pool} {id : Nat} {owner : String} {l u d : Int} {a0 a1 x0 x1 : Int} {pos : Position}
    (hfind : p.positions.find? (fun x => decide (x.id = id)) = some pos) (hliq : 0 ≤ pos.liq + d)
    (ha : calcActualAmounts p l u d = some (a0, a1))
    (h0 : Dec.truncateInt a0 = some x0) (h1 : Dec.truncateInt a1 = some x1) :
    ∃ p' le ue, updatePosition p id owner l u d = some (p', x0, x1, le, ue) := by
  unfold updatePosition
  simp only [hfind]
  rw [if_neg (by omega)]
  simp only [Option.bind_eq_bind, ha, Option.bind_some, h0, h1]
  exact ⟨_, _, _, rfl⟩

/-! ## createPositionMin -/

theorem createPositionMin_bal {p : Pool} {owner : String} {lower upper a0 a1 m0 m1 : Int}
    {p' : Pool} {id : Nat} {r0 r1 liq l' u' : Int}
    (h : createPositionMin p owner lower upper a0 a1 m0 m1 = some (p', id, r0, r1, liq, l', u')) :
    ∃ (p2 p3 : Pool) (le ue : Bool),
      p2.bal0 = p.bal0 ∧ p2.bal1 = p.bal1 ∧ p2.fee0 = p.fee0 ∧ p2.fee1 = p.fee1 ∧
      p2.positions = p.positions ∧ p2.spacing = p.spacing ∧
      (p.positions ≠ [] → p2.sqrtPrice = p.sqrtPrice ∧ p2.tick = p.tick) ∧
      (p.positions = [] → sqrtPriceToTickRoundDownSpacing p2.sqrtPrice p.spacing = some p2.tick) ∧
      updatePosition p2 p.nextId owner l' u' liq = some (p3, r0, r1, le, ue) ∧
      p' = { p3 with bal0 := p3.bal0 + r0, bal1 := p3.bal1 + r1 } ∧
      0 ≤ r0 ∧ 0 ≤ r1 ∧ m0 ≤ r0 ∧ m1 ≤ r1 ∧ liq ≠ 0 ∧ id = p.nextId := by
  unfold createPositionMin at h
  simp only [Option.bind_eq_bind] at h
  by_cases c7 : p.positions.isEmpty = true
  · have hnil : p.positions = [] := List.isEmpty_iff.mp c7
    simp only [c7, ↓reduceIte, ite_none_bind, Option.bind_eq_some_iff, Option.pure_def, Option.bind_some,
      Option.some.injEq, Prod.mk.injEq] at h
    obtain ⟨c1, _, spL, _, spU, _, lower', _, upper', _, c3, _, price, _, s, _, sp, _, t, f4, liq0, _, c4,
      ⟨p3, x0, x1, le, ue⟩, e6, g1, g2, t1, t2, t3, t4, t5, t6, t7⟩ := h
    simp only at t1 t3 t4 g1 g2
    subst t5; subst t6; subst t7; subst t3; subst t4
    exact ⟨{ p with nextId := p.nextId + 1, sqrtPrice := sp, tick := t }, p3, le, ue, rfl, rfl, rfl, rfl, rfl, rfl,
      fun hne => absurd hnil hne, fun _ => f4, e6, t1.symm, by omega, by omega, by omega, by omega, c4, t2.symm⟩
  · have hne : p.positions ≠ [] := fun e => c7 (List.isEmpty_iff.mpr e)
    simp only [c7, Bool.false_eq_true, ↓reduceIte, ite_none_bind, Option.bind_eq_some_iff, Option.pure_def, Option.bind_some,
      Option.some.injEq, Prod.mk.injEq] at h
    obtain ⟨c1, _, spL, _, spU, _, lower', _, upper', _, c3, liq0, _, c4,
      ⟨p3, x0, x1, le, ue⟩, e6, g1, g2, t1, t2, t3, t4, t5, t6, t7⟩ := h
    simp only at t1 t3 t4 g1 g2
    subst t5; subst t6; subst t7; subst t3; subst t4
    exact ⟨{ p with nextId := p.nextId + 1 }, p3, le, ue, rfl, rfl, rfl, rfl, rfl, rfl,
      fun _ => ⟨rfl, rfl⟩, fun e => absurd e hne, e6, t1.symm, by omega, by omega, by omega, by omega, c4, t2.symm⟩

/-! ## withdrawPosition -/

theorem withdrawPosition_bal {p : Pool} {owner : String} {id : Nat} {req : Int} {p' : Pool} {o0 o1 : Int}
    (h : withdrawPosition p owner id req = some (p', o0, o1)) :
    ∃ (pos : Position) (p1 : Pool) (a0 a1 : Int) (le ue : Bool),
      p.positions.find? (fun x => decide (x.id = id)) = some pos ∧ owner = pos.owner ∧ 0 ≤ req ∧ req ≤ pos.liq ∧
      updatePosition p id owner pos.lower pos.upper (-req) = some (p1, a0, a1, le, ue) ∧
      o0 = (a0.natAbs : Int) ∧ o1 = (a1.natAbs : Int) ∧ o0 ≤ p1.bal0 ∧ o1 ≤ p1.bal1 ∧
      p'.bal0 = p1.bal0 - o0 ∧ p'.bal1 = p1.bal1 - o1 ∧ p'.fee0 = p1.fee0 ∧ p'.fee1 = p1.fee1 := by
  unfold withdrawPosition at h
  simp only [Option.bind_eq_bind, ite_none_bind, Option.bind_eq_some_iff,
    Option.some.injEq, Prod.mk.injEq] at h
  obtain ⟨pos, e1, c1, c2, c3, ⟨p1, a0, a1, le, ue⟩, e2, c4, h1, h2, h3⟩ := h
  simp only at h1 h2 h3 c4
  refine ⟨pos, p1, a0, a1, le, ue, e1, Decidable.not_not.mp c1, by omega, by omega, e2, h2.symm, h3.symm,
    by omega, by omega, ?_⟩
  subst h1; subst h2; subst h3
  by_cases c5 : req = pos.liq
  · by_cases c6 : (p1.positions.filter (fun x => decide (x.id ≠ id))).isEmpty = true
    · simp only [c5, c6, ↓reduceIte, and_self]
    · simp only [c5, c6, Bool.false_eq_true, ↓reduceIte, and_self]
  · simp only [c5, ↓reduceIte, and_self]

/-- a withdrawal by the owner of at most the position's liquidity whose amounts compute and are covered by the
pool's balances succeeds. -/
theorem withdrawPosition_of_funds {p : Pool} {id : Nat} {req : Int} {pos : Position} {p1 : Pool} {a0 a1 : Int}
    {le ue : Bool} (hfind : p.positions.find? (fun x => decide (x.id = id)) = some pos)
    (h0 : 0 ≤ req) (h1 : req ≤ pos.liq)
    (hu : updatePosition p id pos.owner pos.lower pos.upper (-req) = some (p1, a0, a1, le, ue))
    (hb0 : (a0.natAbs : Int) ≤ p1.bal0) (hb1 : (a1.natAbs : Int) ≤ p1.bal1) :
    ∃ p', withdrawPosition p pos.owner id req = some (p', (a0.natAbs : Int), (a1.natAbs : Int)) := by
  have hn0 : ¬ req < 0 := by omega
  have hn1 : ¬ req > pos.liq := by omega
  have hn2 : ¬ (p1.bal0 < (a0.natAbs : Int) ∨ p1.bal1 < (a1.natAbs : Int)) := by omega
  unfold withdrawPosition
  simp only [Option.bind_eq_bind, hfind, Option.bind_some, ne_eq, not_true_eq_false, ↓reduceIte,
    hn0, hn1, hu, hn2]
  exact ⟨_, rfl⟩

/-! ## swap -/

theorem swap_bal {p : Pool} {og zfo : Bool} {spec : Int} {p' : Pool} {ain aout fee : Int}
    (h : CLPool.swap p og zfo spec = some (p', ain, aout, fee)) :
    ∃ (r : SwapOut),
      p.positions ≠ [] ∧
      execSwap og zfo p.spf ⟨p.sqrtPrice, p.tick, p.liquidity⟩ (p.ticks.map fun t => (t.tick, t.net)) spec = some (r, fee) ∧
      ain = r.amountIn ∧ aout = r.amountOut ∧ 0 < ain - fee ∧ 0 < aout ∧
      p'.sqrtPrice = r.pool.sqrtPrice ∧ p'.tick = r.pool.tick ∧ p'.liquidity = r.pool.liquidity ∧
      p'.positions = p.positions ∧
      (if zfo then p'.bal0 = p.bal0 + (ain - fee) ∧ p'.fee0 = p.fee0 + fee ∧ p'.bal1 = p.bal1 - aout ∧
            p'.fee1 = p.fee1 ∧ aout ≤ p.bal1
        else p'.bal1 = p.bal1 + (ain - fee) ∧ p'.fee1 = p.fee1 + fee ∧ p'.bal0 = p.bal0 - aout ∧
            p'.fee0 = p.fee0 ∧ aout ≤ p.bal0) := by
  unfold CLPool.swap at h
  simp only [Option.bind_eq_bind, ite_none_bind, Option.bind_eq_some_iff] at h
  obtain ⟨c1, ⟨r, f⟩, e1, c2, h⟩ := h
  have hne : p.positions ≠ [] := fun e => c1 (List.isEmpty_iff.mpr e)
  simp only at h c2
  cases zfo
  · simp only [Bool.false_eq_true, ↓reduceIte] at h ⊢
    split at h
    · cases h
    · simp only [Option.some.injEq, Prod.mk.injEq] at h
      obtain ⟨h1, h2, h3, h4⟩ := h
      subst h1; subst h2; subst h3; subst h4
      exact ⟨r, hne, execSwapS_some e1, rfl, rfl, by omega, by omega, rfl, rfl, rfl, rfl, rfl, rfl, rfl, rfl, by omega⟩
  · simp only [↓reduceIte] at h ⊢
    split at h
    · cases h
    · simp only [Option.some.injEq, Prod.mk.injEq] at h
      obtain ⟨h1, h2, h3, h4⟩ := h
      subst h1; subst h2; subst h3; subst h4
      exact ⟨r, hne, execSwapS_some e1, rfl, rfl, by omega, by omega, rfl, rfl, rfl, rfl, rfl, rfl, rfl, rfl, by omega⟩

end OsmoVerif.CLSolv
