/-
C08 (incentives) helpers: the uptime-accumulator layer `Model/CLInc.lean`.
* growth inside a range, per uptime and per denom, is the SAME integer function `insideI` as for spread rewards
  (`insideOne_amt`): the three laws (grow / flip on crossing / keep in bucket) are reused, not re-proved;
* the trackers of the ticks crossed by a swap are flipped so that growth inside every range with stored boundaries is
  unchanged (`flipTicks_inside`, through `TraceOK`);
* emission: per record and accumulator pass, credited growth × liquidity ≤ (decrease of the record's remaining amount) ×
  scaling factor, remaining amounts never increase and never go negative (`emitOne_bound`, `emitLoop_bound`);
* no emission and no loss of time-keeping without liquidity (`sync_no_liquidity`);
* claims: unmet uptimes are forfeited, never collected (`claimLoop_unmet`).
Core only (plus the DecCoins lemmas of `Proofs/AccumCoins.lean`).
-/
import OsmoVerif.Model.CLInc
import OsmoVerif.Proofs.AccumCoins
import OsmoVerif.Proofs.CLFeesSum

namespace OsmoVerif.CLIncP
open OsmoVerif.Num OsmoVerif.CL OsmoVerif.CLPool OsmoVerif.CLFees OsmoVerif.CLInc OsmoVerif.CLFeesP OsmoVerif.CLBook
open OsmoVerif.Accum (amt)

/-! ## DecCoins -/

theorem safeSub_amt {a b r : DC} {n : Bool} (h : Accum.safeSub a b = some (r, n)) (d : String) : amt r d = amt a d - amt b d := by
  unfold Accum.safeSub at h
  simp only [Option.map_eq_some_iff, Prod.mk.injEq] at h
  obtain ⟨x, hx, e, _⟩ := h
  subst e
  rw [Accum.add_amt _ _ _ d hx, Accum.amt_neg]; omega

/-! ## growth inside per uptime = `insideI` -/

/-- `GetUptimeGrowthInsideRange` for one uptime accumulator and one denom is `insideI` of the accumulator value and
the two boundary trackers. -/
theorem insideOne_amt {cur l u : Int} {g lo up v : DC} (hlu : l < u) (h : insideOne cur l u g lo up = some v) (d : String) :
    amt v d = insideI cur (amt g d) (amt lo d) (amt up d) l u := by
  unfold insideOne at h
  unfold insideI belowI aboveI
  by_cases h1 : cur < l
  · rw [if_pos h1] at h
    simp only [Option.map_eq_some_iff] at h
    obtain ⟨⟨r, n⟩, hr, e⟩ := h
    simp only at e; subst e
    rw [safeSub_amt hr d, if_neg (by omega), if_neg (by omega)]; omega
  · rw [if_neg h1] at h
    by_cases h2 : cur < u
    · rw [if_pos h2] at h
      simp only [Option.bind_eq_some_iff, Option.map_eq_some_iff] at h
      obtain ⟨x, hx, ⟨r, n⟩, hr, e⟩ := h
      simp only at e; subst e
      rw [safeSub_amt hr d, Accum.sub_amt hx d, if_pos (by omega), if_neg (by omega)]; omega
    · rw [if_neg h2] at h
      simp only [Option.map_eq_some_iff] at h
      obtain ⟨⟨r, n⟩, hr, e⟩ := h
      simp only at e; subst e
      rw [safeSub_amt hr d, if_pos (by omega), if_pos (by omega)]; omega

/-- emission into an uptime accumulator (its value grows by `x` in denom `d`) is credited to a range exactly when the
current tick is inside it. -/
theorem insideOne_grow {cur l u : Int} {g g' lo up v v' : DC} (hlu : l < u) (d : String) (x : Int)
    (hg : amt g' d = amt g d + x)
    (h : insideOne cur l u g lo up = some v) (h' : insideOne cur l u g' lo up = some v') :
    amt v' d = amt v d + (if l ≤ cur ∧ cur < u then x else 0) := by
  rw [insideOne_amt hlu h d, insideOne_amt hlu h' d, hg, insideI_grow hlu]

/-! ## lists of six -/

theorem zip2With_get {α β δ} {f : α → β → Option δ} :
    ∀ {as : List α} {bs : List β} {cs : List δ}, zip2With f as bs = some cs →
      ∀ (k : Nat) (a : α) (b : β), as[k]? = some a → bs[k]? = some b → ∃ c, cs[k]? = some c ∧ f a b = some c
  | [], [], cs, h, k, a, b, ha, _ => by simp at ha
  | [], _ :: _, cs, h, k, a, b, ha, _ => by simp at ha
  | _ :: _, [], cs, h, k, a, b, _, hb => by simp at hb
  | x :: xs, y :: ys, cs, h, k, a, b, ha, hb => by
    simp only [zip2With, Option.bind_eq_some_iff, Option.map_eq_some_iff] at h
    obtain ⟨c0, hc0, rest, hrest, e⟩ := h
    subst e
    cases k with
    | zero =>
      simp only [List.getElem?_cons_zero, Option.some.injEq] at ha hb
      subst ha; subst hb
      exact ⟨c0, by simp, hc0⟩
    | succ k =>
      simp only [List.getElem?_cons_succ] at ha hb ⊢
      exact zip2With_get hrest k a b ha hb

theorem getTr_map_set (trs : List (Int × List DC)) (t x : Int) (v : List DC) :
    getTr (trs.map fun o => if o.1 = t then (t, v) else o) x = if x = t then (getTr trs t).map (fun _ => v) else getTr trs x := by
  induction trs with
  | nil => unfold getTr; simp
  | cons o os ih =>
    unfold getTr at ih ⊢
    simp only [List.map_cons, List.find?_cons]
    by_cases hx : x = t
    · subst hx
      by_cases ho : o.1 = x
      · simp [ho]
      · simp only [ho, ↓reduceIte, decide_false, Bool.false_eq_true]
        simpa using ih
    · by_cases ho : o.1 = t
      · have : ¬ o.1 = x := by omega
        have ht : ¬ t = x := by omega
        simp only [ho, ↓reduceIte, ht, decide_false, this, hx]
        simpa [hx] using ih
      · simp only [ho, ↓reduceIte, hx]
        by_cases hox : o.1 = x
        · simp [hox]
        · simp only [hox, decide_false]
          simpa [hx] using ih

/-! ## tick crossings of a swap leave the uptime growth inside unchanged -/

/-- along the step trace of a swap (the accumulator values are constant after the initial sync): for a range whose
boundaries are stored ticks, every uptime index `k` and every denom `d`, growth inside (as `insideI` of the value and the
two boundary trackers) is the same before and after all the tracker flips. -/
theorem flipTicks_inside {zfo : Bool} {tl : Ticks} {ps : List Position} {l u : Int} (hlu : l < u)
    (hl : ∃ n, (l, n) ∈ tl) (hu : ∃ n, (u, n) ∈ tl) (values : List DC) (k : Nat) (G : DC) (hG : values[k]? = some G) (d : String) :
    ∀ (trs : List StepTrace) (cur cur' : Int) (trk trk' : List (Int × List DC)) (tl0 tu0 : List DC) (ol ou : DC),
      TraceOK zfo tl ps cur trs cur' → flipTicks values trs trk = some trk' →
      getTr trk l = some tl0 → getTr trk u = some tu0 → tl0[k]? = some ol → tu0[k]? = some ou →
      ∃ tl1 tu1 ol' ou', getTr trk' l = some tl1 ∧ getTr trk' u = some tu1 ∧ tl1[k]? = some ol' ∧ tu1[k]? = some ou' ∧
        insideI cur' (amt G d) (amt ol' d) (amt ou' d) l u = insideI cur (amt G d) (amt ol d) (amt ou d) l u := by
  intro trs
  induction trs with
  | nil =>
    intro cur cur' trk trk' tl0 tu0 ol ou hok h gl gu kl ku
    simp only [flipTicks, Option.some.injEq] at h
    subst h
    simp only [TraceOK] at hok
    subst hok
    exact ⟨tl0, tu0, ol, ou, gl, gu, kl, ku, rfl⟩
  | cons tr rest ih =>
    intro cur cur' trk trk' tl0 tu0 ol ou hok h gl gu kl ku
    simp only [TraceOK] at hok
    obtain ⟨_, _, next, hstep, hrest⟩ := hok
    obtain ⟨nl, hl'⟩ := hl
    obtain ⟨nu, hu'⟩ := hu
    unfold flipTicks at h
    cases hc : tr.crossed with
    | none =>
      rw [hc] at h hstep
      simp only at h hstep
      obtain ⟨tl1, tu1, ol', ou', g1, g2, k1, k2, e⟩ := ih next cur' trk trk' tl0 tu0 ol ou hrest h gl gu kl ku
      refine ⟨tl1, tu1, ol', ou', g1, g2, k1, k2, ?_⟩
      rw [e]
      have s1 := hstep (l, nl) hl'
      have s2 := hstep (u, nu) hu'
      simp only at s1 s2
      unfold insideI
      rw [belowI_keep s1, aboveI_keep s2]
    | some t =>
      rw [hc] at h hstep
      simp only [Option.bind_eq_some_iff] at h
      obtain ⟨old, hold, new, hnew, h⟩ := h
      simp only at hstep
      obtain ⟨_, enext, hside, hothers⟩ := hstep
      have gl1 := getTr_map_set trk t l new
      have gu1 := getTr_map_set trk t u new
      by_cases hlt : l = t
      · subst hlt
        have hut : u ≠ l := by omega
        rw [if_pos rfl, gl] at gl1
        rw [if_neg hut, gu] at gu1
        simp only [Option.map_some] at gl1
        have hold' : old = tl0 := by rw [gl] at hold; injection hold with e; exact e.symm
        subst hold'
        obtain ⟨nk, hnk, hsub⟩ := zip2With_get hnew k G ol hG kl
        obtain ⟨tl1, tu1, ol', ou', g1, g2, k1, k2, e⟩ := ih next cur' _ trk' new tu0 nk ou hrest h gl1 gu1 hnk ku
        refine ⟨tl1, tu1, ol', ou', g1, g2, k1, k2, ?_⟩
        rw [e, Accum.sub_amt hsub d]
        have s2 := hothers (u, nu) hu' hut
        simp only at s2
        have s1 : l ≤ cur ↔ ¬ l ≤ next := by
          rw [enext]
          cases zfo
          · simp only [Bool.false_eq_true, ↓reduceIte] at hside ⊢; omega
          · simp only [↓reduceIte] at hside ⊢; omega
        unfold insideI
        rw [belowI_flip s1, aboveI_keep s2]
      · rw [if_neg hlt, gl] at gl1
        have s1 := hothers (l, nl) hl' hlt
        simp only at s1
        by_cases hut : u = t
        · subst hut
          rw [if_pos rfl, gu] at gu1
          simp only [Option.map_some] at gu1
          have hold' : old = tu0 := by rw [gu] at hold; injection hold with e; exact e.symm
          subst hold'
          obtain ⟨nk, hnk, hsub⟩ := zip2With_get hnew k G ou hG ku
          obtain ⟨tl1, tu1, ol', ou', g1, g2, k1, k2, e⟩ := ih next cur' _ trk' tl0 new ol nk hrest h gl1 gu1 kl hnk
          refine ⟨tl1, tu1, ol', ou', g1, g2, k1, k2, ?_⟩
          rw [e, Accum.sub_amt hsub d]
          have s2 : u ≤ cur ↔ ¬ u ≤ next := by
            rw [enext]
            cases zfo
            · simp only [Bool.false_eq_true, ↓reduceIte] at hside ⊢; omega
            · simp only [↓reduceIte] at hside ⊢; omega
          unfold insideI
          rw [belowI_keep s1, aboveI_flip s2]
        · rw [if_neg hut, gu] at gu1
          obtain ⟨tl1, tu1, ol', ou', g1, g2, k1, k2, e⟩ := ih next cur' _ trk' tl0 tu0 ol ou hrest h gl1 gu1 kl ku
          refine ⟨tl1, tu1, ol', ou', g1, g2, k1, k2, ?_⟩
          rw [e]
          have s2 := hothers (u, nu) hu' hut
          simp only at s2
          unfold insideI
          rw [belowI_keep s1, aboveI_keep s2]

/-! ## emission -/

theorem mulTruncate_le {a b c : Int} (ha : 0 ≤ a) (hb : 0 ≤ b) (h : Dec.mulTruncate a b = some c) : 0 ≤ c ∧ c * P18 ≤ a * b := by
  unfold Dec.mulTruncate chkDec chopTrunc at h
  split at h
  · injection h with h; subst h
    have hab : 0 ≤ a * b := Int.mul_nonneg ha hb
    obtain ⟨q0, q1, _⟩ := tdiv_le_self hab P18_pos
    exact ⟨q0, q1⟩
  · cases h

theorem quoTruncate_le {a b c : Int} (ha : 0 ≤ a) (hb : 0 < b) (h : Dec.quoTruncate a b = some c) : 0 ≤ c ∧ c * b ≤ a * P18 := by
  unfold Dec.quoTruncate at h
  rw [if_neg (by omega)] at h
  unfold chkDec at h
  split at h
  · injection h with h; subst h
    have hab : 0 ≤ a * P18 := Int.mul_nonneg ha (Int.le_of_lt P18_pos)
    obtain ⟨q0, q1, _⟩ := tdiv_le_self hab hb
    exact ⟨q0, q1⟩
  · cases h

/-- one incentive record in one accumulator pass: the growth credited per unit of liquidity, times the liquidity, is at
most the decrease of the record's remaining amount times the scaling factor; the remaining amount stays within
`[0, before]`. -/
theorem emitOne_bound {now elapsed liq factor : Int} {u : Nat} {r : IncRec} {perLiq rem : Int}
    (he : 0 ≤ elapsed) (hl : 0 < liq) (hf : 0 < factor) (hrate : 0 ≤ r.rate) (hrem : 0 ≤ r.remaining)
    (h : emitOne now elapsed liq factor u r = some (some (perLiq, rem))) :
    0 ≤ perLiq ∧ 0 ≤ rem ∧ rem ≤ r.remaining ∧ perLiq * liq ≤ (r.remaining - rem) * factor ∧ r.start < now ∧ r.uptime = u := by
  unfold emitOne at h
  split at h
  · cases h
  · rename_i hc
    simp only [not_or, Decidable.not_not] at hc
    cases h1 : Dec.mulTruncate elapsed r.rate with
    | none => rw [h1] at h; cases h
    | some emitted =>
      rw [h1] at h
      simp only at h
      obtain ⟨e0, e1⟩ := mulTruncate_le he hrate h1
      cases h2 : Dec.mulTruncate emitted factor with
      | none => rw [h2] at h; cases h
      | some scaled =>
        rw [h2] at h
        simp only [Option.bind_eq_some_iff] at h
        obtain ⟨p1, hp1, h⟩ := h
        obtain ⟨s0, s1⟩ := mulTruncate_le e0 (by omega) h2
        obtain ⟨q0, q1⟩ := quoTruncate_le s0 hl hp1
        split at h
        · rename_i hle
          simp only [Option.map_eq_some_iff, Option.some.injEq, Prod.mk.injEq] at h
          obtain ⟨rm, hrm, e1', e2'⟩ := h
          subst e1'; subst e2'
          have := Accum.decSub_some hrm
          refine ⟨q0, by omega, by omega, ?_, hc.1, hc.2⟩
          have : r.remaining - rm = emitted := by omega
          rw [this]
          -- perLiq·liq ≤ scaled·P18 ≤ emitted·factor
          omega
        · cases h3 : Dec.mulTruncate r.remaining factor with
          | none => rw [h3] at h; cases h
          | some remScaled =>
            rw [h3] at h
            simp only [Option.map_eq_some_iff, Option.some.injEq, Prod.mk.injEq] at h
            obtain ⟨p2, hp2, e1', e2'⟩ := h
            subst e1'; subst e2'
            obtain ⟨t0, t1⟩ := mulTruncate_le hrem (by omega) h3
            obtain ⟨w0, w1⟩ := quoTruncate_le t0 hl hp2
            refine ⟨w0, Int.le_refl _, hrem, ?_, hc.1, hc.2⟩
            rw [Int.sub_zero]; omega

/-- a record that is skipped (not started, other uptime, overflow) is left alone — expressed by `emitLoop`. -/
def sumRem (d : String) : List IncRec → Int
  | [] => 0
  | r :: rs => (if r.denom = d then r.remaining else 0) + sumRem d rs

/-- **emitted ≤ decrease of the records ≤ what they held**: one accumulator pass over the records. -/
theorem emitLoop_bound {now elapsed liq factor : Int} {u : Nat} (he : 0 ≤ elapsed) (hl : 0 < liq) (hf : 0 < factor) (d : String) :
    ∀ (recs : List IncRec) (add0 add : DC) (recs' : List IncRec),
      (∀ r ∈ recs, 0 ≤ r.rate ∧ 0 ≤ r.remaining) →
      emitLoop now elapsed liq factor u recs add0 = some (add, recs') →
      amt add d * liq ≤ amt add0 d * liq + (sumRem d recs - sumRem d recs') * factor ∧
      amt add0 d ≤ amt add d ∧ sumRem d recs' ≤ sumRem d recs ∧
      (∀ r' ∈ recs', 0 ≤ r'.rate ∧ 0 ≤ r'.remaining) ∧ recs'.map (·.id) = recs.map (·.id) := by
  intro recs
  induction recs with
  | nil =>
    intro add0 add recs' _ h
    simp only [emitLoop, Option.some.injEq, Prod.mk.injEq] at h
    obtain ⟨e1, e2⟩ := h
    subst e1; subst e2
    simp [sumRem]
  | cons r rest ih =>
    intro add0 add recs' hpos h
    have hr := hpos r List.mem_cons_self
    have hrest := fun x hx => hpos x (List.mem_cons_of_mem _ hx)
    unfold emitLoop at h
    simp only [Option.bind_eq_some_iff] at h
    obtain ⟨res, hres, h⟩ := h
    cases res with
    | none =>
      simp only [Option.map_eq_some_iff, Prod.mk.injEq] at h
      obtain ⟨⟨a, rs⟩, hloop, e1, e2⟩ := h
      simp only at e1 e2
      subst e1; subst e2
      obtain ⟨b1, b2, b3, b4, b5⟩ := ih add0 a rs hrest hloop
      refine ⟨?_, b2, ?_, ?_, ?_⟩
      · simp only [sumRem];
        have : (if r.denom = d then r.remaining else 0) + sumRem d rest - ((if r.denom = d then r.remaining else 0) + sumRem d rs) =
          sumRem d rest - sumRem d rs := by omega
        rw [this]; exact b1
      · simp only [sumRem]; omega
      · intro x hx
        rcases List.mem_cons.mp hx with rfl | hx
        · exact hr
        · exact b4 x hx
      · simp only [List.map_cons, b5]
    | some pr =>
      obtain ⟨perLiq, rem⟩ := pr
      simp only at h
      split at h
      · cases h
      · simp only [Option.bind_eq_some_iff, Option.map_eq_some_iff, Prod.mk.injEq] at h
        obtain ⟨add1, hadd1, ⟨a, rs⟩, hloop, e1, e2⟩ := h
        simp only at e1 e2
        subst e1; subst e2
        obtain ⟨p0, r0, r1, pb, _, _⟩ := emitOne_bound he hl hf hr.1 hr.2 hres
        obtain ⟨b1, b2, b3, b4, b5⟩ := ih add1 a rs hrest hloop
        have hamt := Accum.add_amt _ _ _ d hadd1
        have hsingle : amt [(r.denom, perLiq)] d = if r.denom = d then perLiq else 0 := by
          simp only [Accum.amt]; split <;> omega
        rw [hsingle] at hamt
        refine ⟨?_, ?_, ?_, ?_, ?_⟩
        · simp only [sumRem]
          by_cases hd : r.denom = d
          · rw [if_pos hd] at hamt ⊢
            simp only [hd, ↓reduceIte]
            rw [hamt, Int.add_mul] at b1
            have e : r.remaining + sumRem d rest - (rem + sumRem d rs) = (r.remaining - rem) + (sumRem d rest - sumRem d rs) := by omega
            rw [e, Int.add_mul]
            omega
          · rw [if_neg hd] at hamt ⊢
            simp only [hd, ↓reduceIte]
            have hamt' : amt add1 d = amt add0 d := by omega
            rw [hamt'] at b1
            have e : 0 + sumRem d rest - (0 + sumRem d rs) = sumRem d rest - sumRem d rs := by omega
            rw [e]; omega
        · by_cases hd : r.denom = d
          · rw [if_pos hd] at hamt; omega
          · rw [if_neg hd] at hamt; omega
        · simp only [sumRem]
          by_cases hd : r.denom = d
          · simp only [hd, ↓reduceIte]; omega
          · simp only [hd, ↓reduceIte]; omega
        · intro x hx
          rcases List.mem_cons.mp hx with rfl | hx
          · exact ⟨hr.1, r0⟩
          · exact b4 x hx
        · simp only [List.map_cons, b5]

/-! ## no liquidity: no emission, but the clock moves -/

/-- with less than one unit of active liquidity nothing is emitted and no record changes, but `LastLiquidityUpdate`
is advanced to now (so the idle interval is never credited to liquidity that arrives later). -/
theorem sync_no_liquidity {i i' : Inc} {liq : Int} (hl : liq < P18) (h : sync i liq = some i') :
    i' = i ∨ (i'.accs = i.accs ∧ i'.last = i.now ∧ i'.records = i.records.filter (fun r => r.remaining > 0) ∧
      i'.trackers = i.trackers ∧ i'.now = i.now) := by
  unfold sync at h
  simp only [Option.bind_eq_some_iff] at h
  obtain ⟨el, _, h⟩ := h
  split at h
  · injection h with h; exact Or.inl h.symm
  · split at h
    · cases h
    · simp only [Option.map_some, Option.some.injEq] at h
      subst h
      exact Or.inr ⟨rfl, rfl, rfl, rfl, rfl⟩

/-- after bringing the accumulators to now the clock IS now (whatever the liquidity), unless no time had elapsed. -/
theorem sync_last {i i' : Inc} {liq : Int} (h : sync i liq = some i') : i' = i ∨ i'.last = i.now := by
  unfold sync at h
  simp only [Option.bind_eq_some_iff] at h
  obtain ⟨el, _, h⟩ := h
  split at h
  · injection h with h; exact Or.inl h.symm
  · split at h
    · cases h
    · simp only [Option.map_eq_some_iff] at h
      obtain ⟨x, _, e⟩ := h
      subst e
      exact Or.inr rfl

/-! ## claims: unmet uptimes are forfeited -/

theorem coinsAddAll_nil (c : Coins) : coinsAddAll c [] = some c := rfl

/-- if the position is younger than EVERY uptime in the list (and has a record in each accumulator) nothing is
collected: everything claimed is forfeited. -/
theorem claimLoop_unmet {factor age : Int} {id : Nat} :
    ∀ (accs : List UAcc) (outs : List DC) (ups : List Int) (accs' : List UAcc) (coll forf : Coins) (byUp : List Coins),
      claimLoop factor age id accs outs ups = some (accs', coll, forf, byUp) →
      (∀ up ∈ ups, age < up) → (∀ a ∈ accs, (getURec a.recs id).isSome) → coll = [] := by
  intro accs
  induction accs with
  | nil =>
    intro outs ups accs' coll forf byUp h _ _
    cases outs <;> cases ups <;> simp only [claimLoop, Option.some.injEq, Prod.mk.injEq, reduceCtorEq] at h
    exact h.2.1.symm
  | cons a as ih =>
    intro outs ups accs' coll forf byUp h hup hrec
    cases outs with
    | nil => simp [claimLoop] at h
    | cons o os =>
      cases ups with
      | nil => simp [claimLoop] at h
      | cons up ups' =>
        simp only [claimLoop, Option.bind_eq_some_iff] at h
        obtain ⟨⟨a', scaled⟩, _, down, _, ⟨as', coll0, forf0, byUp0⟩, hrest, h⟩ := h
        simp only at h
        have hc0 : coll0 = [] := ih os ups' as' coll0 forf0 byUp0 hrest
          (fun x hx => hup x (List.mem_cons_of_mem _ hx)) (fun x hx => hrec x (List.mem_cons_of_mem _ hx))
        have hcond : (getURec a.recs id).isSome = true ∧ age < up :=
          ⟨hrec a List.mem_cons_self, hup up List.mem_cons_self⟩
        rw [if_pos hcond] at h
        simp only [Option.map_eq_some_iff, Prod.mk.injEq] at h
        obtain ⟨_, _, _, e, _⟩ := h
        rw [← e, hc0]

/-- per accumulator: the position's uptime is unmet there, or there is nothing to claim from it. -/
def UnmetOrEmpty (age : Int) (id : Nat) : List UAcc → List DC → List Int → Prop
  | a :: as, o :: os, up :: ups =>
    (((getURec a.recs id).isSome = true ∧ age < up) ∨ ∃ a', claimOne a id o = some (a', [])) ∧ UnmetOrEmpty age id as os ups
  | _, _, _ => True

theorem scaleDownCoins_nil (factor : Int) : scaleDownCoins factor [] = some [] := rfl

/-- **unmet uptimes are never paid**: if everything the position could claim sits in accumulators whose uptime it has
not met, the collected coins are empty (all of it is forfeited). -/
theorem claimLoop_unmet_general {factor age : Int} {id : Nat} :
    ∀ (accs : List UAcc) (outs : List DC) (ups : List Int) (accs' : List UAcc) (coll forf : Coins) (byUp : List Coins),
      claimLoop factor age id accs outs ups = some (accs', coll, forf, byUp) →
      UnmetOrEmpty age id accs outs ups → coll = [] := by
  intro accs
  induction accs with
  | nil =>
    intro outs ups accs' coll forf byUp h _
    cases outs <;> cases ups <;> simp only [claimLoop, Option.some.injEq, Prod.mk.injEq, reduceCtorEq] at h
    exact h.2.1.symm
  | cons a as ih =>
    intro outs ups accs' coll forf byUp h hue
    cases outs with
    | nil => simp [claimLoop] at h
    | cons o os =>
      cases ups with
      | nil => simp [claimLoop] at h
      | cons up ups' =>
        simp only [UnmetOrEmpty] at hue
        obtain ⟨hhead, htail⟩ := hue
        simp only [claimLoop, Option.bind_eq_some_iff] at h
        obtain ⟨⟨a', scaled⟩, hclaim, down, hdown, ⟨as', coll0, forf0, byUp0⟩, hrest, h⟩ := h
        simp only at h hdown
        have hc0 : coll0 = [] := ih os ups' as' coll0 forf0 byUp0 hrest htail
        by_cases hcond : (getURec a.recs id).isSome = true ∧ age < up
        · rw [if_pos hcond] at h
          simp only [Option.map_eq_some_iff, Prod.mk.injEq] at h
          obtain ⟨_, _, _, e, _⟩ := h
          rw [← e, hc0]
        · rw [if_neg hcond] at h
          simp only [Option.map_eq_some_iff, Prod.mk.injEq] at h
          obtain ⟨coll', hadd, _, e, _⟩ := h
          rcases hhead with hh | ⟨a2, hh⟩
          · exact absurd hh hcond
          · rw [hclaim] at hh
            simp only [Option.some.injEq, Prod.mk.injEq] at hh
            rw [hh.2, scaleDownCoins_nil] at hdown
            injection hdown with hdown
            rw [← hdown, coinsAddAll_nil] at hadd
            injection hadd with hadd
            rw [← e, ← hadd, hc0]

theorem updPosition_frame {i i' : Inc} {cur l u : Int} {id : Nat} {nl d : Int} (h : updPosition i cur l u id nl d = some i') :
    i'.bal = i.bal ∧ i'.records = i.records ∧ i'.last = i.last ∧ i'.now = i.now ∧ i'.trackers = i.trackers ∧ i'.join = i.join := by
  unfold updPosition at h
  simp only [Option.bind_eq_some_iff, Option.map_eq_some_iff] at h
  obtain ⟨_, _, _, _, _, _, e⟩ := h
  subst e
  exact ⟨rfl, rfl, rfl, rfl, rfl, rfl⟩

theorem claimAll_frame {i i' : Inc} {cur l u : Int} {id : Nat} {c f : Coins} {b : List Coins} (h : claimAll i cur l u id = some (i', c, f, b)) :
    i'.bal = i.bal ∧ i'.records = i.records ∧ i'.last = i.last ∧ i'.now = i.now ∧ i'.trackers = i.trackers ∧ i'.join = i.join := by
  unfold claimAll at h
  simp only [Option.bind_eq_some_iff, Option.map_eq_some_iff] at h
  obtain ⟨_, _, h⟩ := h
  split at h
  · cases h
  · simp only [Option.bind_eq_some_iff, Option.map_eq_some_iff, Prod.mk.injEq] at h
    obtain ⟨_, _, ⟨_, _, _, _⟩, _, e, _⟩ := h
    subst e
    exact ⟨rfl, rfl, rfl, rfl, rfl, rfl⟩

theorem redeposit_bal {i i' : Inc} {liq : Int} {forf : Coins} {byUp : List Coins} (h : redeposit i liq forf byUp = some i') :
    (P18 ≤ liq → i'.bal = i.bal) ∧ (liq < P18 → coinsSubAll i.bal forf = some i'.bal ∧ i'.accs = i.accs) := by
  unfold redeposit at h
  split at h
  · rename_i hl
    simp only [Option.map_eq_some_iff] at h
    obtain ⟨b, hb, e⟩ := h
    subst e
    exact ⟨fun h2 => by omega, fun _ => ⟨hb, rfl⟩⟩
  · rename_i hl
    simp only [Option.map_eq_some_iff] at h
    obtain ⟨a, _, e⟩ := h
    subst e
    exact ⟨fun _ => rfl, fun h2 => absurd h2 hl⟩

end OsmoVerif.CLIncP
