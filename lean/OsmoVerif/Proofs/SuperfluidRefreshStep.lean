/- C11, refresh at an exchange rate ≠ 1: what the staking primitives of Model/SuperfluidStaking.lean compute, as
floor / half-even facts about integers (`TokensFromShares`, the refresh's `currentAmount`, `ValidateUnbondAmount`,
`RemoveDelShares`), when they succeed (range lemmas), and the case analysis of one refresh step. -/
import OsmoVerif.Proofs.SuperfluidStkRefresh
import OsmoVerif.Proofs.SuperfluidRefreshArith

namespace OsmoVerif.Superfluid
open OsmoVerif.Num OsmoVerif.Spec

/-! ## range checks -/

/-- the bound of an sdk `Int`: 2²⁵⁶. -/
def I256 : Int := 2 ^ Gen.Osmomath.sdkMaxBitLen

theorem I256_lit : I256 = 115792089237316195423570985008687907853269984665640564039457584007913129639936 := by decide
theorem decUpper_lit : decUpper = 115792089237316195423570985008687907853269984665640564039457584007913129639936 * 1000000000000000000 - 1 := by
  decide

theorem chkInt_of_range {x : Int} (h0 : 0 ≤ x) (h1 : x < I256) : chkInt x = some x := by
  unfold chkInt
  rw [if_pos]
  apply lt_fitsBits
  rw [I256_lit] at h1
  show x.natAbs < 2 ^ 256
  omega

theorem chkInt_range {x r : Int} (h : chkInt x = some r) : r = x ∧ -I256 < x ∧ x < I256 := by
  unfold chkInt at h
  split at h
  · rename_i hf
    injection h with h
    have := fitsBits_lt hf
    rw [I256_lit]
    have : x.natAbs < 2 ^ 256 := this
    omega
  · cases h

theorem chkDec_of_range {x : Int} (h0 : 0 ≤ x) (h1 : x ≤ decUpper) : chkDec x = some x := by
  unfold chkDec
  rw [if_pos]
  have : 0 ≤ decUpper := by decide
  exact ⟨h1, by omega⟩

theorem chkDec_range {x r : Int} (h : chkDec x = some r) : r = x ∧ x ≤ decUpper := by
  unfold chkDec at h
  split at h
  · rename_i hf; injection h with h; exact ⟨h.symm, hf.1⟩
  · cases h

theorem mulP18_le_decUpper {a : Int} (h : a < I256) : a * P18 ≤ decUpper := by
  rw [I256_lit] at h
  rw [decUpper_lit, P18_lit]
  omega

/-! ## `TokensFromShares`, the refresh's current amount, `RemoveDelShares`' payout -/

/-- `TokensFromShares(sh)` on a validator with `T ≥ 0` tokens and `S > 0` shares: `round(q / 10¹⁸)`, `q = ⌊sh·T·10³⁶/S⌋`. -/
theorem tokensFromShares_spec {v : Val} {sh t : Int} (hT : 0 ≤ v.tokens) (hS : 0 < v.shares) (hsh : 0 ≤ sh)
    (h : v.tokensFromShares sh = some t) :
    ∃ q, q * v.shares ≤ sh * v.tokens * (P18 * P18) ∧ sh * v.tokens * (P18 * P18) < q * v.shares + v.shares ∧
      IsHalfEven q P18 t ∧ 0 ≤ q ∧ 0 ≤ t := by
  unfold Val.tokensFromShares at h
  split at h
  · cases h
  · rename_i m hm
    have em : m = sh * v.tokens := by unfold Dec.mulInt at hm; exact chkDec_eq hm
    unfold Dec.quo at h
    rw [if_neg (by omega)] at h
    have et := chkDec_eq h
    subst em
    have hn : 0 ≤ sh * v.tokens * (P18 * P18) := Int.mul_nonneg (Int.mul_nonneg hsh hT) (by decide)
    obtain ⟨f1, f2, f3⟩ := tdiv_floor_nonneg hS hn
    refine ⟨_, f1, f2, ?_, f3, ?_⟩
    · rw [et]; exact chopRound_isHalfEven P18 _ P18_pos P18_even
    · rw [et]; exact chopRound_nonneg P18_pos f3

/-- … it succeeds whenever `sh·T` is a valid `Dec` and the result is (it is at most `a·10¹⁸` when `sh·T ≤ S·a`). -/
theorem tokensFromShares_some {v : Val} {sh a : Int} (hT : 0 ≤ v.tokens) (hS : 0 < v.shares) (hsh : 0 ≤ sh)
    (hle : sh * v.tokens ≤ v.shares * a) (hm : sh * v.tokens ≤ decUpper) (ha : a < I256) :
    ∃ t, v.tokensFromShares sh = some t := by
  unfold Val.tokensFromShares Dec.mulInt
  rw [chkDec_of_range (Int.mul_nonneg hsh hT) hm]
  dsimp only
  unfold Dec.quo
  rw [if_neg (by omega)]
  have hn : 0 ≤ sh * v.tokens * (P18 * P18) := Int.mul_nonneg (Int.mul_nonneg hsh hT) (by decide)
  obtain ⟨f1, f2, f3⟩ := tdiv_floor_nonneg hS hn
  have hr := chopRound_isHalfEven P18 ((sh * v.tokens * (P18 * P18)).tdiv v.shares) P18_pos P18_even
  have hq : (sh * v.tokens * (P18 * P18)).tdiv v.shares ≤ (a * P18) * P18 := by
    by_contra hh
    have h1 : (a * P18) * P18 + 1 ≤ (sh * v.tokens * (P18 * P18)).tdiv v.shares := by omega
    have h2 := Int.mul_le_mul_of_nonneg_right h1 (Int.le_of_lt hS)
    have h3 := Int.mul_le_mul_of_nonneg_right hle (show (0 : Int) ≤ P18 * P18 by decide)
    have e : (a * P18 * P18 + 1) * v.shares = v.shares * a * (P18 * P18) + v.shares := by
      rw [Int.add_mul, Int.one_mul, Int.mul_assoc a, Int.mul_comm (a * (P18 * P18)), Int.mul_assoc]
    omega
  have ht := RefreshArith.halfEven_le P18_pos hq hr
  have h0 := chopRound_nonneg P18_pos f3
  exact ⟨_, chkDec_of_range h0 (Int.le_trans ht (mulP18_le_decUpper ha))⟩

/-- the refresh's `currentAmount` of an account WITH a delegation record of `d` shares. -/
theorem currentS_spec {s : SState} {key : AccKey} {d cur : Int} (hd : s.k.dsh key = some d) (h : currentS s key = some cur) :
    ∃ t, (s.k.val key.2).tokensFromShares d = some t ∧ IsHalfEven t P18 cur ∧ cur < I256 := by
  unfold currentS at h
  rw [hd] at h
  dsimp only at h
  split at h
  · cases h
  · rename_i t ht
    unfold Dec.roundInt at h
    obtain ⟨e, _, hr⟩ := chkInt_range h
    refine ⟨t, ht, ?_, by omega⟩
    rw [e]; exact chopRound_isHalfEven P18 t P18_pos P18_even

theorem currentS_none {s : SState} {key : AccKey} (hd : s.k.dsh key = none) : currentS s key = some 0 := by
  unfold currentS; rw [hd]

/-- `stakeTrunc sh = ⌊TokensFromShares(sh)⌋`. -/
theorem stakeTrunc_spec {v : Val} {sh got : Int} (hT : 0 ≤ v.tokens) (hS : 0 < v.shares) (hsh : 0 ≤ sh)
    (h : v.stakeTrunc sh = some got) :
    ∃ t, v.tokensFromShares sh = some t ∧ got * P18 ≤ t ∧ t < got * P18 + P18 ∧ 0 ≤ got := by
  unfold Val.stakeTrunc at h
  split at h
  · cases h
  · rename_i t ht
    obtain ⟨_, _, _, _, _, ht0⟩ := tokensFromShares_spec hT hS hsh ht
    unfold Dec.truncateInt at h
    have e := chkInt_eq h
    obtain ⟨f1, f2, f3⟩ := tdiv_floor_nonneg P18_pos ht0
    exact ⟨t, ht, by rw [e]; exact f1, by rw [e]; exact f2, by rw [e]; exact f3⟩

/-! ## `ValidateUnbondAmount` -/

/-- the shares `ValidateUnbondAmount` computes: `⌊S·a/T⌋`, by BOTH formulas (`SharesFromTokens` and
`SharesFromTokensTruncated` agree on non-negative arguments, so the "cap at the delegation's shares" never applies). -/
theorem sharesFromTokensTruncated_floor {v : Val} {a n : Int} (hT : 0 < v.tokens) (hS : 0 ≤ v.shares) (ha : 0 ≤ a)
    (h : v.sharesFromTokensTruncated a = some n) :
    n * (v.tokens * P18) ≤ v.shares * a * P18 ∧ v.shares * a * P18 < n * (v.tokens * P18) + v.tokens * P18 := by
  unfold Val.sharesFromTokensTruncated at h
  split at h
  · cases h
  · rename_i m hm
    have em : m = v.shares * a := by unfold Dec.mulInt at hm; exact chkDec_eq hm
    unfold Dec.quoTruncate at h
    have hTP : 0 < v.tokens * P18 := Int.mul_pos hT P18_pos
    rw [if_neg (by omega)] at h
    have e := chkDec_eq h
    subst em
    have hn : 0 ≤ v.shares * a * P18 := Int.mul_nonneg (Int.mul_nonneg hS ha) (by decide)
    obtain ⟨f1, f2, _⟩ := tdiv_floor_nonneg hTP hn
    rw [e]; exact ⟨f1, f2⟩

theorem validateUnbondAmount_ok {v : Val} {d a sh : Int} (hT : 0 < v.tokens) (hS : 0 ≤ v.shares) (ha : 0 ≤ a)
    (h : validateUnbondAmount v d a = .ok sh) :
    sh * v.tokens ≤ v.shares * a ∧ v.shares * a < sh * v.tokens + v.tokens ∧ 0 ≤ sh ∧ sh ≤ d ∧ v.shares * a ≤ decUpper := by
  unfold validateUnbondAmount at h
  rw [if_neg (by omega)] at h
  split at h
  · rename_i n nt hn hnt
    obtain ⟨f1, f2, f3⟩ := sharesFromTokens_floor hT hS ha hn
    obtain ⟨g1, g2⟩ := sharesFromTokensTruncated_floor hT hS ha hnt
    have e := RefreshArith.truncated_eq P18_pos hT f1 f2 g1 g2
    have hr : v.shares * a ≤ decUpper := by
      unfold Val.sharesFromTokens at hn
      split at hn
      · cases hn
      · rename_i m hm; unfold Dec.mulInt at hm; exact (chkDec_range hm).2
    subst e
    split at h
    · cases h
    · rename_i hle
      injection h with h
      subst h
      exact ⟨f1, f2, f3, by omega, hr⟩
  · cases h

/-- `ValidateUnbondAmount` fails with "invalid shares amount" exactly when the shares for `a` tokens exceed the
delegation: `⌊S·a/T⌋ > d`, i.e. `S·a ≥ (d+1)·T`. -/
theorem validateUnbondAmount_err {v : Val} {d a : Int} {e : Err} (hT : 0 < v.tokens) (hS : 0 ≤ v.shares) (ha : 0 ≤ a)
    (h : validateUnbondAmount v d a = .error e) (hne : e ≠ .panic) : (d + 1) * v.tokens ≤ v.shares * a := by
  unfold validateUnbondAmount at h
  rw [if_neg (by omega)] at h
  split at h
  · rename_i n nt hn hnt
    obtain ⟨f1, f2, f3⟩ := sharesFromTokens_floor hT hS ha hn
    obtain ⟨g1, g2⟩ := sharesFromTokensTruncated_floor hT hS ha hnt
    have e := RefreshArith.truncated_eq P18_pos hT f1 f2 g1 g2
    subst e
    split at h
    · rename_i hgt
      have : (d + 1) * v.tokens ≤ nt * v.tokens := Int.mul_le_mul_of_nonneg_right (by omega) (Int.le_of_lt hT)
      omega
    · cases h
  · injection h with h; exact absurd h.symm hne

/-- conversely: when the shares for `a` tokens exceed the delegation the call never succeeds. -/
theorem validateUnbondAmount_rejects {v : Val} {d a sh : Int} (hT : 0 < v.tokens) (hS : 0 ≤ v.shares) (ha : 0 ≤ a)
    (hrej : (d + 1) * v.tokens ≤ v.shares * a) : validateUnbondAmount v d a ≠ .ok sh := by
  intro h
  obtain ⟨f1, f2, _, f4, _⟩ := validateUnbondAmount_ok hT hS ha h
  have : sh * v.tokens + v.tokens ≤ (d + 1) * v.tokens := by
    have := Int.mul_le_mul_of_nonneg_right (show sh + 1 ≤ d + 1 by omega) (Int.le_of_lt hT)
    rw [Int.add_mul, Int.one_mul] at this
    exact this
  omega

/-- it succeeds whenever `S·a` is a valid `Dec` and `⌊S·a/T⌋ ≤ d`. -/
theorem validateUnbondAmount_some {v : Val} {d a : Int} (hT : 0 < v.tokens) (hS : 0 ≤ v.shares) (ha : 0 ≤ a)
    (hr : v.shares * a ≤ decUpper) (hacc : v.shares * a < (d + 1) * v.tokens) :
    ∃ sh, validateUnbondAmount v d a = .ok sh := by
  have hm : Dec.mulInt v.shares a = some (v.shares * a) := by
    unfold Dec.mulInt; exact chkDec_of_range (Int.mul_nonneg hS ha) hr
  have hn0 : 0 ≤ v.shares * a := Int.mul_nonneg hS ha
  obtain ⟨f1, f2, f3⟩ := tdiv_floor_nonneg hT hn0
  have hTP : 0 < v.tokens * P18 := Int.mul_pos hT P18_pos
  have hn1 : 0 ≤ v.shares * a * P18 := Int.mul_nonneg hn0 (by decide)
  obtain ⟨g1, g2, g3⟩ := tdiv_floor_nonneg hTP hn1
  have e := RefreshArith.truncated_eq P18_pos hT f1 f2 g1 g2
  have hsh : (v.shares * a).tdiv v.tokens ≤ d := by
    by_contra hh
    have := Int.mul_le_mul_of_nonneg_right (show d + 1 ≤ (v.shares * a).tdiv v.tokens by omega) (Int.le_of_lt hT)
    omega
  have hle : (v.shares * a).tdiv v.tokens ≤ v.shares * a := by
    have := Int.mul_le_mul_of_nonneg_left (show 1 ≤ v.tokens by omega) f3
    rw [Int.mul_one] at this
    omega
  unfold validateUnbondAmount
  rw [if_neg (by omega)]
  unfold Val.sharesFromTokens Val.sharesFromTokensTruncated
  rw [hm]
  dsimp only
  unfold Dec.quoInt Dec.quoTruncate
  rw [if_neg (by omega), if_neg (by omega), e, chkDec_of_range f3 (by omega)]
  dsimp only
  rw [if_neg (by omega), if_neg (by omega)]
  exact ⟨_, rfl⟩

/-! ## `RemoveDelShares` -/

theorem removeDelShares_spec {v v' : Val} {sh got : Int} (h : v.removeDelShares sh = some (v', got)) :
    (v.shares - sh = 0 ∧ v' = { tokens := 0, shares := 0 } ∧ got = v.tokens) ∨
    (v.shares - sh ≠ 0 ∧ v.stakeTrunc sh = some got ∧ v' = { tokens := v.tokens - got, shares := v.shares - sh } ∧ got ≤ v.tokens) := by
  unfold Val.removeDelShares at h
  split at h
  · cases h
  · rename_i rem hrem
    have er : rem = v.shares - sh := by unfold Dec.sub at hrem; exact chkDec_eq hrem
    subst er
    split at h
    · rename_i h0
      injection h with h
      injection h with e1 e2
      exact Or.inl ⟨h0, by rw [← e1, h0], e2.symm⟩
    · rename_i h0
      split at h
      · cases h
      · rename_i t ht
        split at h
        · cases h
        · rename_i hle
          injection h with h
          injection h with e1 e2
          subst e2
          exact Or.inr ⟨h0, ht, e1.symm, by omega⟩

/-- `RemoveDelShares(sh)` succeeds for `0 ≤ sh ≤ S` with `sh·T ≤ S·a`, `a` a valid `Int`, `S` a valid `Dec`. -/
theorem removeDelShares_some {v : Val} {sh a : Int} (hT : 0 ≤ v.tokens) (hS : 0 < v.shares) (hsh : 0 ≤ sh) (hle : sh ≤ v.shares)
    (hSr : v.shares ≤ decUpper) (hsa : sh * v.tokens ≤ v.shares * a) (hm : v.shares * a ≤ decUpper) (ha : a < I256) :
    ∃ r, v.removeDelShares sh = some r := by
  unfold Val.removeDelShares Dec.sub
  rw [chkDec_of_range (by omega) (by omega)]
  dsimp only
  split
  · exact ⟨_, rfl⟩
  · obtain ⟨t, ht⟩ := tokensFromShares_some hT hS hsh hsa (by omega) ha
    obtain ⟨q, q1, q2, hr, hq0, ht0⟩ := tokensFromShares_spec hT hS hsh ht
    unfold Val.stakeTrunc
    rw [ht]
    dsimp only
    unfold Dec.truncateInt
    obtain ⟨f1, f2, f3⟩ := tdiv_floor_nonneg P18_pos ht0
    have hga : t.tdiv P18 ≤ a := RefreshArith.got_le P18_pos hS hsa q1 hr f1
    have hsT : sh * v.tokens ≤ v.shares * v.tokens := Int.mul_le_mul_of_nonneg_right hle hT
    have hgT : t.tdiv P18 ≤ v.tokens := RefreshArith.got_le P18_pos hS hsT q1 hr f1
    rw [chkInt_of_range f3 (by omega)]
    dsimp only
    rw [if_neg (by omega)]
    exact ⟨_, rfl⟩

/-! ## one refresh step: the case analysis -/

/-- the three branches of `RefreshIntermediaryDelegationAmounts` for one account; an error of the mint / burn that is
not a panic is only logged (the state stays). -/
theorem refreshOneS_cases {s s' : SState} {key : AccKey} {cur e : Int} (hv : key.2 ∈ s.b.validators)
    (hcur : currentS s key = some cur) (he : expectedDelegation s.b key = .ok e) (hc : refreshOneS s key = .ok s') :
    (cur = e ∧ s' = s) ∨
    (cur < e ∧ (mintS s (e - cur) key = .ok s' ∨ (s' = s ∧ ∃ err, err ≠ .panic ∧ mintS s (e - cur) key = .error err))) ∨
    (e < cur ∧ (burnS s (cur - e) key = .ok s' ∨ (s' = s ∧ ∃ err, err ≠ .panic ∧ burnS s (cur - e) key = .error err))) := by
  unfold refreshOneS at hc
  rw [if_neg (by simpa using hv), hcur] at hc
  dsimp only at hc
  rw [he] at hc
  dsimp only at hc
  split at hc
  · rename_i hgt
    refine Or.inr (Or.inl ⟨by omega, ?_⟩)
    split at hc
    · cases hc
    · rename_i err hne hm
      injection hc with hc
      refine Or.inr ⟨hc.symm, err, ?_, hm⟩
      intro h; subst h; exact hne rfl
    · rename_i s1 hm
      injection hc with hc
      subst hc; exact Or.inl hm
  · rename_i hng
    split at hc
    · rename_i hgt
      refine Or.inr (Or.inr ⟨by omega, ?_⟩)
      split at hc
      · cases hc
      · rename_i err hne hm
        injection hc with hc
        refine Or.inr ⟨hc.symm, err, ?_, hm⟩
        intro h; subst h; exact hne rfl
      · rename_i s1 hm
        injection hc with hc
        subst hc; exact Or.inl hm
    · rename_i hng2
      injection hc with hc
      exact Or.inl ⟨by omega, hc.symm⟩

end OsmoVerif.Superfluid
