/-
Op sequences over the concrete pool models (`balJoinNoSwap`/`balExit`, `ssJoinNoSwap`/`ssExit`) with the same
per-actor ledger as the abstract machine, and the simulation: the state reached by a concrete run is the state
reached by the abstract run on a SUB-sequence of the ops (the ops that fail in the pool model only — 256-bit
overflow, stableswap `validatePoolLiquidity` — are dropped; a failed op is a no-op on both sides).  Hence every
theorem "for all op sequences" of `Proofs/GammSeqInv.lean` transfers to the pool models.
-/
import OsmoVerif.Proofs.GammSeqRefine

namespace OsmoVerif.GammSeq
open OsmoVerif.GammMath OsmoVerif.Num

/-- generic simulation: if every concrete step is matched by the abstract step or by no abstract step at all, a
concrete run is matched by the abstract run of a sub-sequence. -/
theorem sim_run {C : Type} {fee : Int} (hfee : 0 ≤ fee ∧ fee ≤ P18) (cstep : C → Op → C) (Rel : C → St → Prop)
    (hstep : ∀ c s op, Rel c s → s.lp.WF → Rel (cstep c op) (step fee s op) ∨ Rel (cstep c op) s) :
    ∀ (ops : List Op) (c : C) (s : St), Rel c s → s.lp.WF →
      ∃ ops', ops'.Sublist ops ∧ Rel (ops.foldl cstep c) (run fee s ops')
  | [], c, s, h, _ => ⟨[], List.Sublist.refl _, h⟩
  | op :: ops, c, s, h, hwf => by
    rcases hstep c s op h hwf with h1 | h1
    · obtain ⟨ops', hs, hr⟩ := sim_run hfee cstep Rel hstep ops (cstep c op) (step fee s op) h1 (step_facts hfee hwf op).wf
      exact ⟨op :: ops', hs.cons_cons op, hr⟩
    · obtain ⟨ops', hs, hr⟩ := sim_run hfee cstep Rel hstep ops (cstep c op) s h1 hwf
      exact ⟨ops', hs.cons op, hr⟩

/-! ### balancer -/

/-- a balancer pool with the per-actor ledger. -/
structure BalSt where
  pool : BalPool
  hold : Nat → Int
  dep : Nat → String → Int

/-- one operation on the balancer pool model.  Join: `JoinPoolNoSwap` with a valid all-asset `tokensIn`; the actor is
charged what the pool's liquidity gained.  Exit: `ExitPool` with exit fee `fee` of `0 < shares ≤ held`; the actor
receives the coins returned.  A failed operation is a no-op. -/
def balStep (fee : Int) (c : BalSt) : Op → BalSt
  | .join a tin =>
    if validTokens (balLiquidity c.pool) tin then
      match balJoinNoSwap c.pool tin with
      | .ok (sh, p') =>
        { pool := p',
          hold := fun b => if b = a then c.hold b + sh else c.hold b,
          dep := fun b d => if b = a then
            c.dep b d + (amountOf (balLiquidity p') d - amountOf (balLiquidity c.pool) d) else c.dep b d }
      | .error _ => c
    else c
  | .exit a sh =>
    if 0 < sh ∧ sh ≤ c.hold a then
      match balExit c.pool sh fee with
      | .ok (cs, p') =>
        { pool := p',
          hold := fun b => if b = a then c.hold b - sh else c.hold b,
          dep := fun b d => if b = a then c.dep b d - amountOf cs d else c.dep b d }
      | .error _ => c
    else c

def balRun (fee : Int) (c : BalSt) (ops : List Op) : BalSt := ops.foldl (balStep fee) c

/-- the concrete state and the abstract state agree. -/
structure BalRel (c : BalSt) (s : St) : Prop where
  wf : BalWF c.pool
  lp : balLP c.pool = s.lp
  hold : ∀ a, c.hold a = s.hold a
  dep : ∀ a d, c.dep a d = s.dep a d

def balAbs (c : BalSt) : St := ⟨balLP c.pool, c.hold, c.dep⟩

theorem bal_step_sim {fee : Int} (hfee : 0 ≤ fee ∧ fee ≤ P18) (c : BalSt) (s : St) (op : Op) (h : BalRel c s)
    (_ : s.lp.WF) : BalRel (balStep fee c op) (step fee s op) ∨ BalRel (balStep fee c op) s := by
  cases op with
  | join a tin =>
    simp only [balStep]
    split
    · rename_i hv
      cases hj : balJoinNoSwap c.pool tin with
      | error e => exact Or.inr h
      | ok r =>
        obtain ⟨sh, p'⟩ := r
        left
        obtain ⟨j, hj', hwf', _⟩ := bal_join_refines h.wf hv hj
        have f := LP.join_facts h.wf.lp hj'
        rw [h.lp] at hj'
        simp only [step, hj']
        refine ⟨hwf', rfl, fun b => ?_, fun b d => ?_⟩
        · show (if b = a then _ else _) = (if b = a then _ else _)
          rw [h.hold b]
        · show (if b = a then _ else _) = (if b = a then _ else _)
          rw [h.dep b d]
          have := f.res d
          have e : amountOf (balLiquidity p') d - amountOf (balLiquidity c.pool) d = amountOf j d := by
            show (balLP p').res d - (balLP c.pool).res d = _
            omega
          rw [e]
    · exact Or.inr h
  | exit a sh =>
    simp only [balStep]
    split
    · rename_i hg
      cases he : balExit c.pool sh fee with
      | error e => exact Or.inr h
      | ok r =>
        obtain ⟨cs, p'⟩ := r
        left
        obtain ⟨he', hwf', _⟩ := bal_exit_refines h.wf hfee hg.1 he
        rw [h.lp] at he'
        have hh : sh ≤ s.hold a := by rw [← h.hold a]; exact hg.2
        simp only [step, if_pos hh, he']
        refine ⟨hwf', rfl, fun b => ?_, fun b d => ?_⟩
        · show (if b = a then _ else _) = (if b = a then _ else _)
          rw [h.hold b]
        · show (if b = a then _ else _) = (if b = a then _ else _)
          rw [h.dep b d]
    · exact Or.inr h

theorem bal_run_sim {fee : Int} (hfee : 0 ≤ fee ∧ fee ≤ P18) (c : BalSt) (hwf : BalWF c.pool) (ops : List Op) :
    ∃ ops', ops'.Sublist ops ∧ BalRel (balRun fee c ops) (run fee (balAbs c) ops') :=
  sim_run hfee (balStep fee) BalRel (bal_step_sim hfee) ops c (balAbs c) ⟨hwf, rfl, fun _ => rfl, fun _ _ => rfl⟩ hwf.lp

/-! ### stableswap -/

structure SSSt where
  pool : SSPool
  hold : Nat → Int
  dep : Nat → String → Int

/-- one operation on the stableswap pool model (see `balStep`). -/
def ssStep (fee : Int) (c : SSSt) : Op → SSSt
  | .join a tin =>
    if validTokens (ssLiquidity c.pool) tin then
      match ssJoinNoSwap c.pool tin with
      | .ok (sh, p') =>
        { pool := p',
          hold := fun b => if b = a then c.hold b + sh else c.hold b,
          dep := fun b d => if b = a then
            c.dep b d + (amountOf (ssLiquidity p') d - amountOf (ssLiquidity c.pool) d) else c.dep b d }
      | .error _ => c
    else c
  | .exit a sh =>
    if 0 < sh ∧ sh ≤ c.hold a then
      match ssExit c.pool sh fee with
      | .ok (cs, p') =>
        { pool := p',
          hold := fun b => if b = a then c.hold b - sh else c.hold b,
          dep := fun b d => if b = a then c.dep b d - amountOf cs d else c.dep b d }
      | .error _ => c
    else c

def ssRun (fee : Int) (c : SSSt) (ops : List Op) : SSSt := ops.foldl (ssStep fee) c

structure SSRel (c : SSSt) (s : St) : Prop where
  wf : SSWF c.pool
  lp : ssLP c.pool = s.lp
  hold : ∀ a, c.hold a = s.hold a
  dep : ∀ a d, c.dep a d = s.dep a d

def ssAbs (c : SSSt) : St := ⟨ssLP c.pool, c.hold, c.dep⟩

theorem ss_step_sim {fee : Int} (hfee : 0 ≤ fee ∧ fee ≤ P18) (c : SSSt) (s : St) (op : Op) (h : SSRel c s)
    (_ : s.lp.WF) : SSRel (ssStep fee c op) (step fee s op) ∨ SSRel (ssStep fee c op) s := by
  cases op with
  | join a tin =>
    simp only [ssStep]
    split
    · rename_i hv
      cases hj : ssJoinNoSwap c.pool tin with
      | error e => exact Or.inr h
      | ok r =>
        obtain ⟨sh, p'⟩ := r
        left
        obtain ⟨j, hj', hwf', _⟩ := ss_join_refines h.wf hv hj
        have f := LP.join_facts h.wf.lp hj'
        rw [h.lp] at hj'
        simp only [step, hj']
        refine ⟨hwf', rfl, fun b => ?_, fun b d => ?_⟩
        · show (if b = a then _ else _) = (if b = a then _ else _)
          rw [h.hold b]
        · show (if b = a then _ else _) = (if b = a then _ else _)
          rw [h.dep b d]
          have := f.res d
          have e : amountOf (ssLiquidity p') d - amountOf (ssLiquidity c.pool) d = amountOf j d := by
            show (ssLP p').res d - (ssLP c.pool).res d = _
            omega
          rw [e]
    · exact Or.inr h
  | exit a sh =>
    simp only [ssStep]
    split
    · rename_i hg
      cases he : ssExit c.pool sh fee with
      | error e => exact Or.inr h
      | ok r =>
        obtain ⟨cs, p'⟩ := r
        left
        obtain ⟨he', hwf', _⟩ := ss_exit_refines h.wf hfee hg.1 he
        rw [h.lp] at he'
        have hh : sh ≤ s.hold a := by rw [← h.hold a]; exact hg.2
        simp only [step, if_pos hh, he']
        refine ⟨hwf', rfl, fun b => ?_, fun b d => ?_⟩
        · show (if b = a then _ else _) = (if b = a then _ else _)
          rw [h.hold b]
        · show (if b = a then _ else _) = (if b = a then _ else _)
          rw [h.dep b d]
    · exact Or.inr h

theorem ss_run_sim {fee : Int} (hfee : 0 ≤ fee ∧ fee ≤ P18) (c : SSSt) (hwf : SSWF c.pool) (ops : List Op) :
    ∃ ops', ops'.Sublist ops ∧ SSRel (ssRun fee c ops) (run fee (ssAbs c) ops') :=
  sim_run hfee (ssStep fee) SSRel (ss_step_sim hfee) ops c (ssAbs c) ⟨hwf, rfl, fun _ => rfl, fun _ _ => rfl⟩ hwf.lp

end OsmoVerif.GammSeq
