/-
C01 helpers, part 3: the principal owed to the positions, as rational numbers.
`rp x = x/10^36` (sqrt price), `rl x = x/10^18` (liquidity).  A position with liquidity `L` and boundary sqrt prices
`a ≤ b` holds, at sqrt price `P`, the exact amounts (in whole tokens)
  `x0 L a b P = L·(1/c − 1/b)`, `x1 L a b P = L·(c − a)` with `c = min (max P a) b` (`P` clamped to the range),
i.e. `L·(1/max(P,a) − 1/b)` if `P < b` else `0`, and `L·(min(P,b) − a)` if `P > a` else `0` (`x0_eq_ite`, `x1_eq_ite`).
`V0 ps P = Σ_{q ∈ ps} x0 …`, `V1` likewise.  Both are linear in the liquidity, so the three list updates of the
position store change them by the amounts of the liquidity delta; the integer comparisons `CL.Ge0/Le0/Ge1/Le1`
turn into comparisons with these amounts.
-/
import OsmoVerif.Proofs.CLSolvAmts
import OsmoVerif.Proofs.CLRoundQ
import Mathlib.Tactic.Linarith
import Mathlib.Tactic.Ring
import Mathlib.Tactic.FieldSimp
import Mathlib.Tactic.Positivity
import Mathlib.Tactic.NormNum
namespace OsmoVerif.CLSolv
open OsmoVerif.CLPool OsmoVerif.CLBook OsmoVerif.CL OsmoVerif.Num OsmoVerif.Tick OsmoVerif.Gen OsmoVerif.Spec

def rp (x : Int) : ℚ := (x : ℚ) / 10 ^ 36
def rl (x : Int) : ℚ := (x : ℚ) / 10 ^ 18

theorem rp_pos {x : Int} (h : 0 < x) : 0 < rp x := by
  unfold rp; have : (0:ℚ) < x := by exact_mod_cast h
  positivity

theorem rp_le {x y : Int} (h : x ≤ y) : rp x ≤ rp y := by
  unfold rp; have : (x:ℚ) ≤ y := by exact_mod_cast h
  exact div_le_div_of_nonneg_right this (by positivity)

theorem P18_cast : ((P18 : Int) : ℚ) = 10 ^ 18 := by rw [P18_eq]; norm_num

/-- token0, at least. -/
theorem ge0_real {L a b amt : Int} (ha : 0 < a) (hab : a ≤ b) (h : Ge0 L a b amt) :
    rl L * (1 / rp a - 1 / rp b) ≤ (amt : ℚ) / 10 ^ 18 := by
  have hb : 0 < b := by omega
  unfold Ge0 at h
  rw [show ((a - b).natAbs : Int) = b - a by omega] at h
  have hq : ((b : ℚ) - a) * L * 10 ^ 36 ≤ amt * (a * b) := by exact_mod_cast h
  have ha' : (0 : ℚ) < a := by exact_mod_cast ha
  have hb' : (0 : ℚ) < b := by exact_mod_cast hb
  have key : rl L * (1 / rp a - 1 / rp b) = (((b : ℚ) - a) * L * 10 ^ 36) / (a * b) / 10 ^ 18 := by
    unfold rl rp; field_simp
  rw [key]
  apply div_le_div_of_nonneg_right _ (by positivity)
  rw [div_le_iff₀ (by positivity)]
  exact hq

theorem le0_real {L a b amt : Int} (ha : 0 < a) (hab : a ≤ b) (h : Le0 L a b amt) :
    (amt : ℚ) / 10 ^ 18 ≤ rl L * (1 / rp a - 1 / rp b) := by
  have hb : 0 < b := by omega
  unfold Le0 at h
  rw [show ((a - b).natAbs : Int) = b - a by omega] at h
  have hq : (amt : ℚ) * (a * b) ≤ ((b : ℚ) - a) * L * 10 ^ 36 := by exact_mod_cast h
  have ha' : (0 : ℚ) < a := by exact_mod_cast ha
  have hb' : (0 : ℚ) < b := by exact_mod_cast hb
  have key : rl L * (1 / rp a - 1 / rp b) = (((b : ℚ) - a) * L * 10 ^ 36) / (a * b) / 10 ^ 18 := by
    unfold rl rp; field_simp
  rw [key]
  apply div_le_div_of_nonneg_right _ (by positivity)
  rw [le_div_iff₀ (by positivity)]
  exact hq

theorem ge1_real {L a b amt : Int} (hab : a ≤ b) (h : Ge1 L a b amt) :
    rl L * (rp b - rp a) ≤ (amt : ℚ) / 10 ^ 18 := by
  unfold Ge1 at h
  rw [show ((a - b).natAbs : Int) = b - a by omega] at h
  have hq : ((b : ℚ) - a) * L ≤ amt * 10 ^ 36 := by exact_mod_cast h
  unfold rl rp
  rw [div_mul_eq_mul_div, div_le_div_iff_of_pos_right (by positivity)]
  rw [← sub_div, mul_div_assoc']
  rw [div_le_iff₀ (by positivity)]
  linarith

theorem le1_real {L a b amt : Int} (hab : a ≤ b) (h : Le1 L a b amt) :
    (amt : ℚ) / 10 ^ 18 ≤ rl L * (rp b - rp a) := by
  unfold Le1 at h
  rw [show ((a - b).natAbs : Int) = b - a by omega] at h
  have hq : (amt : ℚ) * 10 ^ 36 ≤ ((b : ℚ) - a) * L := by exact_mod_cast h
  unfold rl rp
  rw [div_mul_eq_mul_div, div_le_div_iff_of_pos_right (by positivity)]
  rw [← sub_div, mul_div_assoc']
  rw [le_div_iff₀ (by positivity)]
  linarith

/-! ## exact amounts of one position -/

/-- `P` clamped to `[a, b]`. -/
def clampQ (P a b : ℚ) : ℚ := min (max P a) b

/-- exact token0 held at price `P` by liquidity `L` on `[a, b]`. -/
def x0 (L a b P : ℚ) : ℚ := L * (1 / clampQ P a b - 1 / b)
/-- exact token1 held at price `P` by liquidity `L` on `[a, b]`. -/
def x1 (L a b P : ℚ) : ℚ := L * (clampQ P a b - a)

theorem clamp_below {P a b : ℚ} (hab : a ≤ b) (h : P ≤ a) : clampQ P a b = a := by
  unfold clampQ; rw [max_eq_right h, min_eq_left hab]
theorem clamp_inside {P a b : ℚ} (h1 : a ≤ P) (h2 : P ≤ b) : clampQ P a b = P := by
  unfold clampQ; rw [max_eq_left h1, min_eq_left h2]
theorem clamp_above {P a b : ℚ} (h : b ≤ P) : clampQ P a b = b := by
  unfold clampQ; rw [min_eq_right (le_trans h (le_max_left _ _))]

theorem clamp_bounds {P a b : ℚ} (hab : a ≤ b) : a ≤ clampQ P a b ∧ clampQ P a b ≤ b := by
  unfold clampQ
  exact ⟨le_min (le_max_right _ _) hab, min_le_right _ _⟩

/-- the form of the property statement: token0 is owed only below the upper boundary … -/
theorem x0_eq_ite {L a b P : ℚ} (hab : a ≤ b) :
    x0 L a b P = if P < b then L * (1 / max P a - 1 / b) else 0 := by
  unfold x0
  split
  · rename_i h
    rcases le_total P a with h1 | h1
    · rw [clamp_below hab h1, max_eq_right h1]
    · rw [clamp_inside h1 (le_of_lt h), max_eq_left h1]
  · rename_i h
    rw [clamp_above (not_lt.mp h)]; ring

/-- … and token1 only above the lower boundary. -/
theorem x1_eq_ite {L a b P : ℚ} (hab : a ≤ b) :
    x1 L a b P = if P > a then L * (min P b - a) else 0 := by
  unfold x1
  split
  · rename_i h
    rcases le_total P b with h1 | h1
    · rw [clamp_inside (le_of_lt h) h1, min_eq_left h1]
    · rw [clamp_above h1, min_eq_right h1]
  · rename_i h
    rw [clamp_below hab (not_lt.mp h)]; ring

theorem x0_nonneg {L a b P : ℚ} (hl : 0 ≤ L) (ha : 0 < a) (hab : a ≤ b) : 0 ≤ x0 L a b P := by
  unfold x0
  obtain ⟨h1, h2⟩ := clamp_bounds (P := P) hab
  have hc : 0 < clampQ P a b := lt_of_lt_of_le ha h1
  have : 1 / b ≤ 1 / clampQ P a b := one_div_le_one_div_of_le hc h2
  exact mul_nonneg hl (by linarith)

theorem x1_nonneg {L a b P : ℚ} (hl : 0 ≤ L) (hab : a ≤ b) : 0 ≤ x1 L a b P := by
  unfold x1
  obtain ⟨h1, _⟩ := clamp_bounds (P := P) hab
  exact mul_nonneg hl (by linarith)

/-! ## sums over the position list -/

def sumQ (f : Position → ℚ) : List Position → ℚ
  | [] => 0
  | q :: qs => f q + sumQ f qs

@[simp] theorem sumQ_nil (f : Position → ℚ) : sumQ f [] = 0 := rfl
@[simp] theorem sumQ_cons (f : Position → ℚ) (q : Position) (qs : List Position) :
    sumQ f (q :: qs) = f q + sumQ f qs := rfl

theorem sumQ_append (f : Position → ℚ) (a b : List Position) : sumQ f (a ++ b) = sumQ f a + sumQ f b := by
  induction a with
  | nil => simp
  | cons q qs ih => simp only [List.cons_append, sumQ_cons, ih]; ring

theorem sumQ_congr {f g : Position → ℚ} {ps : List Position} (h : ∀ q ∈ ps, f q = g q) : sumQ f ps = sumQ g ps := by
  induction ps with
  | nil => rfl
  | cons q qs ih =>
    simp only [sumQ_cons]
    rw [h q List.mem_cons_self, ih (fun q hq => h q (List.mem_cons_of_mem _ hq))]

theorem sumQ_le {f g : Position → ℚ} {ps : List Position} (h : ∀ q ∈ ps, f q ≤ g q) : sumQ f ps ≤ sumQ g ps := by
  induction ps with
  | nil => exact le_refl _
  | cons q qs ih =>
    simp only [sumQ_cons]
    exact add_le_add (h q List.mem_cons_self) (ih (fun q hq => h q (List.mem_cons_of_mem _ hq)))

theorem sumQ_nonneg {f : Position → ℚ} {ps : List Position} (h : ∀ q ∈ ps, 0 ≤ f q) : 0 ≤ sumQ f ps := by
  induction ps with
  | nil => exact le_refl _
  | cons q qs ih =>
    simp only [sumQ_cons]
    exact add_nonneg (h q List.mem_cons_self) (ih (fun q hq => h q (List.mem_cons_of_mem _ hq)))

theorem sumQ_ge_term {f : Position → ℚ} {ps : List Position} (h : ∀ q ∈ ps, 0 ≤ f q) {q : Position} (hq : q ∈ ps) :
    f q ≤ sumQ f ps := by
  induction ps with
  | nil => cases hq
  | cons a as ih =>
    simp only [sumQ_cons]
    have h0 := h a List.mem_cons_self
    have hs : 0 ≤ sumQ f as := sumQ_nonneg (fun q hq => h q (List.mem_cons_of_mem _ hq))
    rcases List.mem_cons.mp hq with rfl | hq
    · linarith
    · have := ih (fun q hq => h q (List.mem_cons_of_mem _ hq)) hq
      linarith

theorem sumQ_sub (f g : Position → ℚ) (ps : List Position) :
    sumQ (fun q => f q - g q) ps = sumQ f ps - sumQ g ps := by
  induction ps with
  | nil => simp
  | cons q qs ih => simp only [sumQ_cons, ih]; ring

/-- `Σ (integer weight)·c` is `(Σ integer weight)·c`. -/
theorem sumQ_int_mul (w : Position → Int) (c : ℚ) (ps : List Position) :
    sumQ (fun q => (w q : ℚ) * c) ps = (sumBy w ps : ℚ) * c := by
  induction ps with
  | nil => simp
  | cons q qs ih => simp only [sumQ_cons, sumBy_cons, ih]; push_cast; ring

/-- a sum whose terms are linear in the liquidity: `Σ L_q · g(lower_q, upper_q)`. -/
def linSum (g : Int → Int → ℚ) (ps : List Position) : ℚ := sumQ (fun q => (q.liq : ℚ) * g q.lower q.upper) ps

theorem linSum_append (g : Int → Int → ℚ) (ps : List Position) (id : Nat) (o : String) (l u d : Int) :
    linSum g (ps ++ [⟨id, o, l, u, d⟩]) = linSum g ps + (d : ℚ) * g l u := by
  unfold linSum; rw [sumQ_append]; simp

theorem linSum_map {g : Int → Int → ℚ} {ps : List Position} {pos : Position} (hu : UniqueIds ps) (hm : pos ∈ ps)
    (d : Int) :
    linSum g (ps.map fun q => if q.id = pos.id then { q with liq := pos.liq + d } else q) =
      linSum g ps + (d : ℚ) * g pos.lower pos.upper := by
  unfold linSum
  induction ps with
  | nil => cases hm
  | cons a as ih =>
    have hu' := List.pairwise_cons.mp hu
    simp only [List.map_cons, sumQ_cons]
    rcases List.mem_cons.mp hm with rfl | hm'
    · rw [if_pos rfl, map_upd_of_no_id _ (fun q hq => Ne.symm (hu'.1 q hq))]
      push_cast; ring
    · have hne : a.id ≠ pos.id := hu'.1 pos hm'
      rw [if_neg hne, ih hu'.2 hm']
      ring

theorem linSum_filter {g : Int → Int → ℚ} {ps : List Position} {pos : Position} (hu : UniqueIds ps) (hm : pos ∈ ps) :
    linSum g (ps.filter fun q => q.id ≠ pos.id) = linSum g ps - (pos.liq : ℚ) * g pos.lower pos.upper := by
  unfold linSum
  induction ps with
  | nil => cases hm
  | cons a as ih =>
    have hu' := List.pairwise_cons.mp hu
    rcases List.mem_cons.mp hm with rfl | hm'
    · rw [List.filter_cons_of_neg (by simp), filter_of_no_id (fun q hq => Ne.symm (hu'.1 q hq))]
      simp only [sumQ_cons]; ring
    · have hne : a.id ≠ pos.id := hu'.1 pos hm'
      rw [List.filter_cons_of_pos (by simpa using hne)]
      simp only [sumQ_cons]
      rw [ih hu'.2 hm']
      ring

theorem linSum_map_owner (g : Int → Int → ℚ) (ps : List Position) (f : Position → Position)
    (hf : ∀ q, (f q).lower = q.lower ∧ (f q).upper = q.upper ∧ (f q).liq = q.liq) :
    linSum g (ps.map f) = linSum g ps := by
  unfold linSum
  induction ps with
  | nil => rfl
  | cons a as ih =>
    simp only [List.map_cons, sumQ_cons, ih]
    obtain ⟨e1, e2, e3⟩ := hf a
    rw [e1, e2, e3]

/-! ## the potentials -/

/-- sqrt price of a tick (`0` outside the tick range, where `tickToSqrtPrice` fails; the boundaries of a position are
always inside). -/
def sqrtAt (t : Int) : Int := (tickToSqrtPrice t).getD 0

theorem sqrtAt_of {t s : Int} (h : tickToSqrtPrice t = some s) : sqrtAt t = s := by unfold sqrtAt; rw [h]; rfl

/-- per unit of raw liquidity. -/
def g0 (P : Int) (l u : Int) : ℚ := x0 (1 / 10 ^ 18) (rp (sqrtAt l)) (rp (sqrtAt u)) (rp P)
def g1 (P : Int) (l u : Int) : ℚ := x1 (1 / 10 ^ 18) (rp (sqrtAt l)) (rp (sqrtAt u)) (rp P)

/-- exact token0 / token1 amounts (whole tokens) the position `q` is owed at sqrt price `P` (raw 36-decimal). -/
def posX0 (q : Position) (P : Int) : ℚ := x0 (rl q.liq) (rp (sqrtAt q.lower)) (rp (sqrtAt q.upper)) (rp P)
def posX1 (q : Position) (P : Int) : ℚ := x1 (rl q.liq) (rp (sqrtAt q.lower)) (rp (sqrtAt q.upper)) (rp P)

/-- total exact principal owed to the positions `ps` at sqrt price `P`. -/
def V0 (ps : List Position) (P : Int) : ℚ := sumQ (fun q => posX0 q P) ps
def V1 (ps : List Position) (P : Int) : ℚ := sumQ (fun q => posX1 q P) ps

theorem x0_lin (L : Int) (a b P : ℚ) : x0 (rl L) a b P = (L : ℚ) * x0 (1 / 10 ^ 18) a b P := by
  unfold x0 rl; ring
theorem x1_lin (L : Int) (a b P : ℚ) : x1 (rl L) a b P = (L : ℚ) * x1 (1 / 10 ^ 18) a b P := by
  unfold x1 rl; ring

theorem V0_eq_linSum (ps : List Position) (P : Int) : V0 ps P = linSum (g0 P) ps := by
  unfold V0 linSum; apply sumQ_congr; intro q _; exact x0_lin _ _ _ _
theorem V1_eq_linSum (ps : List Position) (P : Int) : V1 ps P = linSum (g1 P) ps := by
  unfold V1 linSum; apply sumQ_congr; intro q _; exact x1_lin _ _ _ _

theorem V0_nil (P : Int) : V0 [] P = 0 := rfl
theorem V1_nil (P : Int) : V1 [] P = 0 := rfl

/-- amounts of a liquidity delta `d` on `[l, u)` at price `P`. -/
def dX0 (d l u P : Int) : ℚ := x0 (rl d) (rp (sqrtAt l)) (rp (sqrtAt u)) (rp P)
def dX1 (d l u P : Int) : ℚ := x1 (rl d) (rp (sqrtAt l)) (rp (sqrtAt u)) (rp P)

theorem dX0_eq (d l u P : Int) : dX0 d l u P = (d : ℚ) * g0 P l u := x0_lin _ _ _ _
theorem dX1_eq (d l u P : Int) : dX1 d l u P = (d : ℚ) * g1 P l u := x1_lin _ _ _ _

/-! ## integer comparisons of whole-token amounts as comparisons with `dX0`, `dX1` -/

theorem ge0_symm {L a b amt : Int} (h : Ge0 L a b amt) : Ge0 L b a amt := by
  unfold Ge0 at h ⊢
  rw [show ((b - a).natAbs : Int) = ((a - b).natAbs : Int) by omega, Int.mul_comm b a]; exact h
theorem le0_symm {L a b amt : Int} (h : Le0 L a b amt) : Le0 L b a amt := by
  unfold Le0 at h ⊢
  rw [show ((b - a).natAbs : Int) = ((a - b).natAbs : Int) by omega, Int.mul_comm b a]; exact h
theorem ge1_symm {L a b amt : Int} (h : Ge1 L a b amt) : Ge1 L b a amt := by
  unfold Ge1 at h ⊢
  rw [show ((b - a).natAbs : Int) = ((a - b).natAbs : Int) by omega]; exact h
theorem le1_symm {L a b amt : Int} (h : Le1 L a b amt) : Le1 L b a amt := by
  unfold Le1 at h ⊢
  rw [show ((b - a).natAbs : Int) = ((a - b).natAbs : Int) by omega]; exact h

theorem tokens_cast (x : Int) : ((x * P18 : Int) : ℚ) / 10 ^ 18 = x := by
  push_cast; rw [P18_cast]; field_simp

theorem inRange_iff (p : Pool) (l u : Int) : inRange p l u = true ↔ l ≤ p.tick ∧ p.tick < u := by
  unfold inRange; simp [decide_eq_true_eq]

/-- clause (c) of C07 for one range: where the pool's sqrt price lies relative to the boundary sqrt prices, given
where the current tick lies relative to the boundary ticks. -/
structure PosPrice (p : Pool) (l u spL spU : Int) : Prop where
  below : p.tick < l → p.sqrtPrice ≤ spL
  inside : l ≤ p.tick ∧ p.tick < u → spL ≤ p.sqrtPrice ∧ p.sqrtPrice ≤ spU
  above : u ≤ p.tick → spU ≤ p.sqrtPrice

/-- whole-token amounts that are `≥` exact in the code's case are `≥` the exact amounts at the pool's price. -/
theorem vsExact_ge_real {p : Pool} {l u L spL spU y0 y1 : Int} (hsL : tickToSqrtPrice l = some spL)
    (hsU : tickToSqrtPrice u = some spU) (hL : 0 < spL) (hLU : spL ≤ spU) (hP : 0 < p.sqrtPrice)
    (hpp : PosPrice p l u spL spU) (h : VsExact true p l u L spL spU y0 y1) :
    dX0 L l u p.sqrtPrice ≤ y0 ∧ dX1 L l u p.sqrtPrice ≤ y1 := by
  unfold dX0 dX1 x0 x1
  rw [sqrtAt_of hsL, sqrtAt_of hsU]
  have hab := rp_le hLU
  unfold VsExact at h
  by_cases hin : inRange p l u = true
  · rw [if_pos hin] at h
    simp only [↓reduceIte] at h
    obtain ⟨i1, i2⟩ := hpp.inside ((inRange_iff p l u).mp hin)
    rw [clamp_inside (rp_le i1) (rp_le i2)]
    have a := ge0_real hP i2 h.1
    have b := ge1_real i1 (ge1_symm h.2)
    rw [tokens_cast] at a b
    exact ⟨a, b⟩
  · rw [if_neg hin] at h
    by_cases hlt : p.tick < l
    · rw [if_pos hlt] at h
      simp only [↓reduceIte] at h
      rw [clamp_below hab (rp_le (hpp.below hlt))]
      have a := ge0_real hL hLU h.1
      rw [tokens_cast] at a
      refine ⟨a, ?_⟩
      rw [h.2]; simp
    · rw [if_neg hlt] at h
      simp only [↓reduceIte] at h
      have hge : u ≤ p.tick := by
        apply Classical.byContradiction; intro hc
        exact hin ((inRange_iff p l u).mpr ⟨by omega, by omega⟩)
      rw [clamp_above (rp_le (hpp.above hge))]
      have b := ge1_real hLU h.2
      rw [tokens_cast] at b
      refine ⟨?_, b⟩
      rw [h.1]; simp

/-- whole-token amounts that are `≤` exact in the code's case are `≤` the exact amounts at the pool's price. -/
theorem vsExact_le_real {p : Pool} {l u L spL spU y0 y1 : Int} (hsL : tickToSqrtPrice l = some spL)
    (hsU : tickToSqrtPrice u = some spU) (hL : 0 < spL) (hLU : spL ≤ spU) (hP : 0 < p.sqrtPrice)
    (hpp : PosPrice p l u spL spU) (h : VsExact false p l u L spL spU y0 y1) :
    (y0 : ℚ) ≤ dX0 L l u p.sqrtPrice ∧ (y1 : ℚ) ≤ dX1 L l u p.sqrtPrice := by
  unfold dX0 dX1 x0 x1
  rw [sqrtAt_of hsL, sqrtAt_of hsU]
  have hab := rp_le hLU
  unfold VsExact at h
  by_cases hin : inRange p l u = true
  · rw [if_pos hin] at h
    simp only [Bool.false_eq_true, ↓reduceIte] at h
    obtain ⟨i1, i2⟩ := hpp.inside ((inRange_iff p l u).mp hin)
    rw [clamp_inside (rp_le i1) (rp_le i2)]
    have a := le0_real hP i2 h.1
    have b := le1_real i1 (le1_symm h.2)
    rw [tokens_cast] at a b
    exact ⟨a, b⟩
  · rw [if_neg hin] at h
    by_cases hlt : p.tick < l
    · rw [if_pos hlt] at h
      simp only [Bool.false_eq_true, ↓reduceIte] at h
      rw [clamp_below hab (rp_le (hpp.below hlt))]
      have a := le0_real hL hLU h.1
      rw [tokens_cast] at a
      refine ⟨a, ?_⟩
      rw [h.2]; simp
    · rw [if_neg hlt] at h
      simp only [Bool.false_eq_true, ↓reduceIte] at h
      have hge : u ≤ p.tick := by
        apply Classical.byContradiction; intro hc
        exact hin ((inRange_iff p l u).mpr ⟨by omega, by omega⟩)
      rw [clamp_above (rp_le (hpp.above hge))]
      have b := le1_real hLU h.2
      rw [tokens_cast] at b
      refine ⟨?_, b⟩
      rw [h.1]; simp

/-! ## moving the price inside one bucket -/

theorem x_same_of_outside {L a b P P' : ℚ} (hab : a ≤ b)
    (h : (P ≤ a ∧ P' ≤ a) ∨ (b ≤ P ∧ b ≤ P')) : x0 L a b P' = x0 L a b P ∧ x1 L a b P' = x1 L a b P := by
  unfold x0 x1
  rcases h with ⟨h1, h2⟩ | ⟨h1, h2⟩
  · rw [clamp_below hab h1, clamp_below hab h2]; exact ⟨rfl, rfl⟩
  · rw [clamp_above h1, clamp_above h2]; exact ⟨rfl, rfl⟩

theorem x_diff_of_inside {L a b P P' : ℚ} (h1 : a ≤ P ∧ P ≤ b) (h2 : a ≤ P' ∧ P' ≤ b) :
    x0 L a b P' - x0 L a b P = L * (1 / P' - 1 / P) ∧ x1 L a b P' - x1 L a b P = L * (P' - P) := by
  unfold x0 x1
  rw [clamp_inside h1.1 h1.2, clamp_inside h2.1 h2.2]
  exact ⟨by ring, by ring⟩

/-- the prices `P`, `P'` lie in one bucket of the positions' boundary prices: for every position, both are inside
its range when the tick `t` is, both are below when `t` is below, both are above when `t` is above. -/
def SameBucket (ps : List Position) (t P P' : Int) : Prop :=
  ∀ q ∈ ps, sqrtAt q.lower ≤ sqrtAt q.upper ∧
    (q.lower ≤ t ∧ t < q.upper →
      sqrtAt q.lower ≤ P ∧ P ≤ sqrtAt q.upper ∧ sqrtAt q.lower ≤ P' ∧ P' ≤ sqrtAt q.upper) ∧
    (t < q.lower → P ≤ sqrtAt q.lower ∧ P' ≤ sqrtAt q.lower) ∧
    (q.upper ≤ t → sqrtAt q.upper ≤ P ∧ sqrtAt q.upper ≤ P')

/-- inside one bucket all in-range positions move together: the potentials change by the curve amounts of the
active liquidity. -/
theorem bucket_dV {ps : List Position} {t P P' : Int} (h : SameBucket ps t P P') :
    V0 ps P' - V0 ps P = rl (activeAt ps t) * (1 / rp P' - 1 / rp P) ∧
    V1 ps P' - V1 ps P = rl (activeAt ps t) * (rp P' - rp P) := by
  unfold V0 V1 activeAt
  rw [← sumQ_sub, ← sumQ_sub]
  have e0 : sumQ (fun q => posX0 q P' - posX0 q P) ps =
      sumQ (fun q => (onPos (actW t) q : ℚ) * (1 / 10 ^ 18 * (1 / rp P' - 1 / rp P))) ps := by
    apply sumQ_congr
    intro q hq
    obtain ⟨hab, hin, hbe, hab'⟩ := h q hq
    unfold posX0
    simp only [onPos, actW]
    by_cases c : q.lower ≤ t ∧ t < q.upper
    · rw [if_pos c]
      obtain ⟨i1, i2, i3, i4⟩ := hin c
      rw [(x_diff_of_inside ⟨rp_le i1, rp_le i2⟩ ⟨rp_le i3, rp_le i4⟩).1]
      unfold rl; ring
    · rw [if_neg c]
      have : (t < q.lower) ∨ (q.upper ≤ t) := by omega
      rcases this with c1 | c1
      · obtain ⟨j1, j2⟩ := hbe c1
        rw [(x_same_of_outside (rp_le hab) (Or.inl ⟨rp_le j1, rp_le j2⟩)).1]; simp
      · obtain ⟨j1, j2⟩ := hab' c1
        rw [(x_same_of_outside (rp_le hab) (Or.inr ⟨rp_le j1, rp_le j2⟩)).1]; simp
  have e1 : sumQ (fun q => posX1 q P' - posX1 q P) ps =
      sumQ (fun q => (onPos (actW t) q : ℚ) * (1 / 10 ^ 18 * (rp P' - rp P))) ps := by
    apply sumQ_congr
    intro q hq
    obtain ⟨hab, hin, hbe, hab'⟩ := h q hq
    unfold posX1
    simp only [onPos, actW]
    by_cases c : q.lower ≤ t ∧ t < q.upper
    · rw [if_pos c]
      obtain ⟨i1, i2, i3, i4⟩ := hin c
      rw [(x_diff_of_inside ⟨rp_le i1, rp_le i2⟩ ⟨rp_le i3, rp_le i4⟩).2]
      unfold rl; ring
    · rw [if_neg c]
      have : (t < q.lower) ∨ (q.upper ≤ t) := by omega
      rcases this with c1 | c1
      · obtain ⟨j1, j2⟩ := hbe c1
        rw [(x_same_of_outside (rp_le hab) (Or.inl ⟨rp_le j1, rp_le j2⟩)).2]; simp
      · obtain ⟨j1, j2⟩ := hab' c1
        rw [(x_same_of_outside (rp_le hab) (Or.inr ⟨rp_le j1, rp_le j2⟩)).2]; simp
  rw [e0, e1, sumQ_int_mul, sumQ_int_mul]
  unfold rl
  exact ⟨by ring, by ring⟩

end OsmoVerif.CLSolv
