/-
`SigFigRound`, part 3: negative inputs, bounds on the rounded numerator, fixed points (idempotence)
and monotonicity.
-/
import OsmoVerif.Proofs.MathSigFig2

namespace OsmoVerif.MathM
open OsmoVerif.Num OsmoVerif.Gen OsmoVerif.Spec

/-! ### negative inputs: the scaling loop runs into the range check (Go: overflow panic) -/

theorem sigFigScale_neg : ∀ (f : Nat) (d : Int) (k : Nat), d < 0 → sigFigScale f d k = none := by
  intro f
  induction f with
  | zero => intro d k _; rfl
  | succ f ih =>
    intro d k hd
    unfold sigFigScale
    rw [pointOne_val, if_pos (by omega)]
    cases hm : Dec.mulInt d 10 with
    | none => rfl
    | some d' =>
      obtain ⟨rfl, _, _⟩ := chkDec_eq_some_iff.mp hm
      exact ih _ _ (by omega)

theorem sigFigRound_neg {d : Int} (t : Int) (hd : d < 0) : sigFigRound d t = none := by
  rw [sigFigRound_unfold t (by omega), sigFigScale_neg _ _ _ hd]; rfl

/-! ### bounds on the rounded numerator -/

theorem num_le_of_lt_one {D t n : Int} (ht : 0 ≤ t) (h : IsHalfEven (D * t) P18 n) (hD : D ≤ 10 ^ 18) : n ≤ t := by
  have hP := P18_pos
  have h0 : IsHalfEven (t * P18) P18 t := ⟨by omega, by omega, fun hh => by omega⟩
  refine h.mono P18_pos h0 ?_
  rw [P18_val, Int.mul_comm]
  exact Int.mul_le_mul_of_nonneg_left hD ht

theorem num_ge_of_ge_tenth {D t' n : Int} (ht : 0 ≤ t') (h : IsHalfEven (D * (10 * t')) P18 n) (hD : 10 ^ 17 ≤ D) :
    t' ≤ n := by
  have hP := P18_pos
  have h0 : IsHalfEven (t' * P18) P18 t' := ⟨by omega, by omega, fun hh => by omega⟩
  refine h0.mono P18_pos h ?_
  rw [P18_val]
  have : 10 ^ 17 * (10 * t') ≤ D * (10 * t') := Int.mul_le_mul_of_nonneg_right hD (by omega)
  have e : t' * 10 ^ 18 = 10 ^ 17 * (10 * t') := by ring
  omega

/-! ### the scaling exponent decreases when the input grows -/

theorem SigK.antitone {d1 d2 : Int} {k1 k2 : Nat} (_hd1 : 0 < d1) (hd : d1 ≤ d2) (h1 : SigK d1 k1) (h2 : SigK d2 k2) :
    k2 ≤ k1 := by
  by_contra hc
  obtain ⟨c, rfl⟩ : ∃ c, k2 = k1 + (c + 1) := ⟨k2 - k1 - 1, by omega⟩
  rcases h2.2 with h0 | h0
  · omega
  · have e : ∀ x : Int, x * 10 ^ (k1 + (c + 1)) = x * 10 ^ k1 * 10 ^ c * 10 := by intro x; ring
    have hc1 : (1 : Int) ≤ 10 ^ c := one_le_pow₀ (by norm_num)
    have hK : (0 : Int) < 10 ^ (k1 + (c + 1)) := by positivity
    have := h1.1
    have hle : d1 * 10 ^ (k1 + (c + 1)) ≤ d2 * 10 ^ (k1 + (c + 1)) := Int.mul_le_mul_of_nonneg_right hd (by omega)
    rw [e] at hle
    nlinarith

/-! ### fixed points -/

/-- a positive value that already lies on the grid of its own scaling exponent is returned unchanged. -/
theorem sigFigRound_fixed {r m : Int} {s j : Nat} (hr : 0 < r) (hj : SigK r j)
    (hm : r * (10 ^ s * 10 ^ j) = m * P18) (hmB : m < 2 ^ 256) (hden : (10 : Int) ^ s * 10 ^ j < 2 ^ 256) :
    sigFigRound r (10 ^ s) = some r := by
  have hs : (0 : Int) < 10 ^ s := by positivity
  have hJ : (0 : Int) < 10 ^ j := by positivity
  have hden0 : (0 : Int) < 10 ^ s * 10 ^ j := by positivity
  have hP := P18_pos
  have ex : r * 10 ^ j * 10 ^ s = m * P18 := by rw [← hm]; ring
  have hm0 : 0 < m := by
    have : 0 < m * P18 := by rw [← hm]; positivity
    by_contra hc
    have : m * P18 ≤ 0 * P18 := Int.mul_le_mul_of_nonneg_right (by omega) (by omega)
    omega
  have hnum : sigNum r (10 ^ s) j = m := by
    have := sigNum_isHalfEven r (10 ^ s) j
    rw [ex] at this
    exact this.exact hP
  have hle : m * P18 ≤ (2 ^ 256 - 1) * P18 := Int.mul_le_mul_of_nonneg_right (by omega) (by omega)
  refine (sigFigRound_some_iff hr).mpr ⟨j, hj, by omega, ?_, ?_, ?_, ?_, ?_⟩
  · rw [ex, decUpper_val]; rw [P18_val] at hle ⊢; omega
  · rw [ex, decUpper_val]; rw [P18_val] at hle ⊢; omega
  · rw [hnum]; omega
  · omega
  · rw [hnum, ← hm, Int.mul_tdiv_cancel _ (by omega)]

end OsmoVerif.MathM
