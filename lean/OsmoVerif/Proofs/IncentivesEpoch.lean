/- One epoch as a whole: the send queue is the fold of the pays of the active snapshot (`snapPays`), what an
address receives (`recvAmt`), and the fate of each snapshot gauge's record.  Core only. -/
import OsmoVerif.Proofs.IncentivesSched

namespace OsmoVerif.Incentives

/-- the pays one snapshot gauge queues. -/
def gaugePays (thr : Thr) (locks : List Lock) (g : Gauge) : List Pay :=
  match distributeGauge thr locks g with
  | some (some (_, pays)) => pays
  | _ => []

/-- all pays of one `Distribute` call, in gauge order then lock order. -/
def snapPays (thr : Thr) (locks : List Lock) : List Gauge → List Pay
  | [] => []
  | g :: gs => gaugePays thr locks g ++ snapPays thr locks gs

theorem distributeLoop_info {thr : Thr} {locks : List Lock} {snap store : List Gauge} {info : Info}
    {store' : List Gauge} {info' : Info}
    (h : distributeLoop thr locks snap store info = some (store', info')) :
    info' = (snapPays thr locks snap).foldl addLockRewards info := by
  induction snap generalizing store info with
  | nil => simp only [distributeLoop] at h; cases h; rfl
  | cons g gs ih =>
    simp only [distributeLoop] at h
    cases hd : distributeGauge thr locks g with
    | none => rw [hd] at h; cases h
    | some r =>
      rw [hd] at h
      cases r with
      | none =>
        simp only [snapPays, gaugePays, hd, List.nil_append]
        exact ih h
      | some tp =>
        obtain ⟨total, pays⟩ := tp
        simp only at h
        simp only [snapPays, gaugePays, hd, List.foldl_append]
        exact ih h

/-- what address `r` is sent of denom `d`. -/
def recvAmt : Info → Nat → Denom → Int
  | [], _, _ => 0
  | (_, r', c) :: t, r, d => (if r' = r then amountOf c d else 0) + recvAmt t r d

/-- what the pays addressed to `r` add up to. -/
def paysTo : List Pay → Nat → Denom → Int
  | [], _, _ => 0
  | p :: ps, r, d => (if p.receiver = r then amountOf p.coins d else 0) + paysTo ps r d

/-- all locks of one owner name the same receiver. -/
def Consistent (ps : List Pay) : Prop := ∀ p ∈ ps, ∀ q ∈ ps, p.owner = q.owner → p.receiver = q.receiver

/-- queue slots agree with the pays still to come. -/
def Agrees (info : Info) (ps : List Pay) : Prop := ∀ e ∈ info, ∀ p ∈ ps, p.owner = e.1 → p.receiver = e.2.1

theorem recvAmt_add {info : Info} {p : Pay} (h : Agrees info [p]) (r : Nat) (d : Denom) :
    recvAmt (addLockRewards info p) r d = recvAmt info r d + (if p.receiver = r then amountOf p.coins d else 0) := by
  induction info with
  | nil => simp [addLockRewards, recvAmt]
  | cons hd t ih =>
    obtain ⟨o, r', c⟩ := hd
    have ht : Agrees t [p] := fun e he q hq => h e (List.mem_cons_of_mem _ he) q hq
    simp only [addLockRewards]
    by_cases ho : o = p.owner
    · rw [if_pos ho]
      have hr : p.receiver = r' := h (o, r', c) (List.mem_cons_self ..) p (List.mem_singleton.mpr rfl) ho.symm
      simp only [recvAmt, amountOf_addCoins, hr]
      split <;> omega
    · rw [if_neg ho]
      simp only [recvAmt, ih ht]; omega

theorem mem_addLockRewards {info : Info} {p : Pay} {e : Nat × Nat × Coins} (he : e ∈ addLockRewards info p) :
    (∃ e0 ∈ info, e0.1 = e.1 ∧ e0.2.1 = e.2.1) ∨ (e.1 = p.owner ∧ e.2.1 = p.receiver) := by
  induction info with
  | nil =>
    simp only [addLockRewards, List.mem_singleton] at he
    subst he; exact Or.inr ⟨rfl, rfl⟩
  | cons hd t ih =>
    obtain ⟨o, r', c⟩ := hd
    simp only [addLockRewards] at he
    split at he
    · rcases List.mem_cons.mp he with rfl | h'
      · exact Or.inl ⟨(o, r', c), List.mem_cons_self .., rfl, rfl⟩
      · exact Or.inl ⟨e, List.mem_cons_of_mem _ h', rfl, rfl⟩
    · rcases List.mem_cons.mp he with rfl | h'
      · exact Or.inl ⟨(o, r', c), List.mem_cons_self .., rfl, rfl⟩
      · rcases ih h' with ⟨e0, h0, h1, h2⟩ | hh
        · exact Or.inl ⟨e0, List.mem_cons_of_mem _ h0, h1, h2⟩
        · exact Or.inr hh

/-- **receipts under consistent receivers**: every address receives exactly the pays addressed to it. -/
theorem recvAmt_foldl {ps : List Pay} {info : Info} (hc : Consistent ps) (ha : Agrees info ps) (r : Nat) (d : Denom) :
    recvAmt (ps.foldl addLockRewards info) r d = recvAmt info r d + paysTo ps r d := by
  induction ps generalizing info with
  | nil => simp [paysTo]
  | cons p ps ih =>
    simp only [List.foldl_cons]
    have hc' : Consistent ps := fun a ha' b hb hab => hc a (List.mem_cons_of_mem _ ha') b (List.mem_cons_of_mem _ hb) hab
    have hp : Agrees info [p] := fun e he q hq ho => by
      simp only [List.mem_singleton] at hq; subst hq
      exact ha e he q (List.mem_cons_self ..) ho
    have ha' : Agrees (addLockRewards info p) ps := by
      intro e he q hq ho
      rcases mem_addLockRewards he with ⟨e0, h0, h1, h2⟩ | ⟨h1, h2⟩
      · rw [← h2]; exact ha e0 h0 q (List.mem_cons_of_mem _ hq) (by rw [h1]; exact ho)
      · rw [h2]; exact hc q (List.mem_cons_of_mem _ hq) p (List.mem_cons_self ..) (by rw [ho, h1])
    rw [ih hc' ha', recvAmt_add hp, paysTo]; omega

/-! ### the record of each snapshot gauge after the loop -/

theorem mem_setGauge_self {gs : List Gauge} {g0 g' : Gauge} (hm : g0 ∈ gs) (hid : g'.id = g0.id) : g' ∈ setGauge gs g' := by
  unfold setGauge
  exact List.mem_map.mpr ⟨g0, hm, by rw [if_pos hid.symm]⟩

theorem distributeLoop_result {thr : Thr} {locks : List Lock} {snap store : List Gauge} {info : Info}
    {store' : List Gauge} {info' : Info}
    (h : distributeLoop thr locks snap store info = some (store', info'))
    (hm : ∀ g ∈ snap, g ∈ store) (hsn : (snap.map (·.id)).Nodup) {g : Gauge} (hg : g ∈ snap) :
    (∀ total pays, distributeGauge thr locks g = some (some (total, pays)) → g.postDistribute total ∈ store') ∧
    (distributeGauge thr locks g = some none → g ∈ store') := by
  induction snap generalizing store info with
  | nil => cases hg
  | cons g0 gs ih =>
    simp only [List.map_cons, List.nodup_cons] at hsn
    have hgs : ∀ x ∈ gs, x ∈ store := fun x hx => hm x (List.mem_cons_of_mem _ hx)
    have hg0 : g0 ∈ store := hm g0 (List.mem_cons_self ..)
    simp only [distributeLoop] at h
    cases hd : distributeGauge thr locks g0 with
    | none => rw [hd] at h; cases h
    | some r =>
      rw [hd] at h
      rcases List.mem_cons.mp hg with rfl | hg'
      · -- the head gauge: nothing later has its id
        cases r with
        | none =>
          refine ⟨fun total pays hh => (by rw [hd] at hh; cases hh), fun _ => ?_⟩
          exact distributeLoop_untouched h hg0 hsn.1
        | some tp =>
          obtain ⟨total, pays⟩ := tp
          simp only at h
          refine ⟨fun t p hh => ?_, fun hh => (by rw [hd] at hh; cases hh)⟩
          rw [hd] at hh
          injection hh with hh; injection hh with hh; injection hh with h1 h2
          subst h1
          exact distributeLoop_untouched h (mem_setGauge_self hg0 rfl) hsn.1
      · cases r with
        | none => exact ih h hgs hsn.2 hg'
        | some tp =>
          obtain ⟨total, pays⟩ := tp
          simp only at h
          have hgs1 : ∀ x ∈ gs, x ∈ setGauge store (g0.postDistribute total) := by
            intro x hx
            refine mem_setGauge_of_ne (hgs x hx) ?_
            intro hh
            exact hsn.1 (List.mem_map.mpr ⟨x, hx, hh⟩)
          exact ih h hgs1 hsn.2 hg'

/-- an upcoming id is, after activation, still upcoming or in the active snapshot. -/
theorem activate_split {now : Int} {up act up' act' : Refs} (h : activate now up act = some (up', act')) :
    ∀ i ∈ refsIds up, i ∈ refsIds up' ∨ i ∈ refsIds act' := by
  intro i hi
  have := (activate_perm h).mem_iff.mpr (List.mem_append_left _ hi)
  exact List.mem_append.mp this

theorem owed_filter_le {gs : List Gauge} (p : Gauge → Bool) {d : Denom} (h : ∀ g ∈ gs, 0 ≤ rem g d) :
    owed (gs.filter p) d ≤ owed gs d := by
  induction gs with
  | nil => simp [owed]
  | cons g t ih =>
    have h0 := h g (List.mem_cons_self ..)
    have iht := ih (fun x hx => h x (List.mem_cons_of_mem _ hx))
    rw [List.filter_cons]
    split
    · simp only [owed]; omega
    · simp only [owed]; omega

/-! ### vocabulary of the property statements (Props/C09) -/

/-- states reachable by any history from any initial configuration (valid initial module balance). -/
def Reachable (s : State) : Prop :=
  ∃ (cfg : Cfg) (bal : Coins) (ops : List Op), validCoins bal = true ∧ s = run (init cfg bal) ops

theorem reachable_inv {s : State} (h : Reachable s) : Inv s ∧ SInv s := by
  obtain ⟨cfg, bal, ops, hb, rfl⟩ := h
  exact ⟨Inv_run (Inv_init cfg hb) ops, SInv_run (Inv_init cfg hb) (SInv_init cfg bal) ops⟩

theorem reachable_step {s : State} (h : Reachable s) (o : Op) : Reachable (step s o) := by
  obtain ⟨cfg, bal, ops, hb, rfl⟩ := h
  exact ⟨cfg, bal, ops ++ [o], hb, (run_snoc _ _ _).symm⟩

/-- the undistributed remainder of all unfinished gauges (upcoming or active in the reference stores). -/
def undistributed (s : State) (d : Denom) : Int :=
  owed (s.gauges.filter (fun g => !(refsIds s.finished).contains g.id)) d

/-- ⌊R·a / (S·e)⌋ (`/` on `Int` is floor division for a positive divisor). -/
def floorShare (R : Int) (a : Nat) (S e : Int) : Int := R * (a : Int) / (S * e)

/-- what a lock with amount `a` is owed of denom `d` by a gauge with remainder `R`: the floor share, unless
it is worth less than the minimum (or the denom has no value at all: no entry in `thr`) or is zero. -/
def owedToLock (thr : Thr) (d : Denom) (R : Int) (a : Nat) (S e : Int) : Int :=
  if valuable thr d (floorShare R a S e) && decide (0 < floorShare R a S e) then floorShare R a S e else 0

/-- the queue entry of one lock. -/
def payOf (thr : Thr) (remain : Coins) (den : Int) (l : Lock) : Option Pay :=
  if (lockCoins thr remain den l.amount).isEmpty then none
  else some ⟨l.owner, l.rewardReceiver, lockCoins thr remain den l.amount⟩

theorem lockPays_eq_filterMap (thr : Thr) (remain : Coins) (den : Int) (ls : List Lock) :
    lockPays thr remain den ls = ls.filterMap (payOf thr remain den) := by
  induction ls with
  | nil => rfl
  | cons l ls ih =>
    simp only [lockPays, List.filterMap_cons, payOf]
    split <;> simp [ih]

/-- the gauge loop fails as a whole when one snapshot gauge fails. -/
theorem loop_fails {thr : Thr} {locks : List Lock} {g : Gauge} {sn st : List Gauge} {inf : Info} (hm : g ∈ sn)
    (hd : distributeGauge thr locks g = none) : ¬ ∃ r, distributeLoop thr locks sn st inf = some r := by
  induction sn generalizing st inf with
  | nil => cases hm
  | cons x xs ih =>
    rintro ⟨r, hl'⟩
    simp only [distributeLoop] at hl'
    rcases List.mem_cons.mp hm with rfl | hm'
    · rw [hd] at hl'; cases hl'
    · cases hx : distributeGauge thr locks x with
      | none => rw [hx] at hl'; cases hl'
      | some rr =>
        rw [hx] at hl'
        cases rr with
        | none => exact ih hm' ⟨r, hl'⟩
        | some tp => exact ih hm' ⟨r, hl'⟩

end OsmoVerif.Incentives
