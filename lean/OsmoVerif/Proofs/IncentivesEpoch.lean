/- One epoch as a whole: the send queue is the fold of the pays of the active snapshot (`snapPays`), what an
address receives (`recvAmt`), and the fate of each snapshot gauge's record.  Core only. -/
import OsmoVerif.Proofs.IncentivesSched

namespace OsmoVerif.Incentives

/-- the pays one snapshot gauge queues, given the minimum-value cache it finds. -/
def gaugePays (m : MinVal) (locks : List Lock) (g : Gauge) : List Pay :=
  match distributeGauge m locks g with
  | some (some (_, pays)) => pays
  | _ => []

/-- all pays of one `Distribute` call, in gauge order then lock order (the cache is handed from gauge to gauge). -/
def snapPays : MinVal → List Lock → List Gauge → List Pay
  | _, _, [] => []
  | m, locks, g :: gs => gaugePays m locks g ++ snapPays (m.afterGauge locks g) locks gs

theorem distributeLoop_info {thr : MinVal} {locks : List Lock} {snap store : List Gauge} {info : Info}
    {store' : List Gauge} {info' : Info}
    (h : distributeLoop thr locks snap store info = some (store', info')) :
    info' = (snapPays thr locks snap).foldl addLockRewards info := by
  induction snap generalizing store info thr with
  | nil => simp only [distributeLoop] at h; cases h; rfl
  | cons g gs ih =>
    simp only [distributeLoop] at h
    cases hd : distributeGauge thr locks g with
    | none => rw [hd] at h; cases h
    | some r =>
      rw [hd] at h
      cases r with
      | none =>
        simp only [snapPays, gaugePays, hd, List.nil_append]
        exact ih h
      | some tp =>
        obtain ⟨total, pays⟩ := tp
        simp only at h
        simp only [snapPays, gaugePays, hd, List.foldl_append]
        exact ih h

/-! ### the minimum-value cache along the gauge loop -/

/-- every cached value is what a cache miss stores for the quotes of this `Distribute` call (the quote, or the
zero sentinel when there is no route). -/
def CacheOK (m : MinVal) : Prop := ∀ d c, assoc m.cache d = some c → c = m.missValue d

theorem assoc_append_none {α : Type} {l : List (Denom × α)} {d e : Denom} {v : α} (h : assoc l d = none) :
    assoc (l ++ [(e, v)]) d = if e = d then some v else none := by
  induction l with
  | nil => simp [assoc]
  | cons x t ih =>
    obtain ⟨a, b⟩ := x
    simp only [assoc] at h
    simp only [List.cons_append, assoc]
    split
    · rename_i hh; rw [if_pos hh] at h; cases h
    · rename_i hh; rw [if_neg hh] at h; exact ih h

theorem assoc_append_some {α : Type} {l : List (Denom × α)} {d e : Denom} {v c : α} (h : assoc l d = some c) :
    assoc (l ++ [(e, v)]) d = some c := by
  induction l with
  | nil => simp [assoc] at h
  | cons x t ih =>
    obtain ⟨a, b⟩ := x
    simp only [assoc] at h
    simp only [List.cons_append, assoc]
    split
    · rename_i hh; rw [if_pos hh] at h; exact h
    · rename_i hh; rw [if_neg hh] at h; exact ih h

theorem MinVal.after_quotes (m : MinVal) (remain : Coins) : (m.after remain).quotes = m.quotes := rfl

theorem MinVal.afterGauge_quotes (m : MinVal) (locks : List Lock) (g : Gauge) : (m.afterGauge locks g).quotes = m.quotes := by
  unfold MinVal.afterGauge
  split <;> rfl

/-- the fold of `MinVal.after` keeps every cached value and caches only miss values. -/
theorem after_fold_ok (m : MinVal) (remain : Coins) (cache : Cache)
    (h : ∀ d c, assoc cache d = some c → c = m.missValue d) :
    ∀ d c, assoc (remain.foldl (fun cache c =>
      if c.1 = Gen.Incentives.BaseCoinUnit ∨ (assoc cache c.1).isSome then cache else cache ++ [(c.1, m.missValue c.1)]) cache) d = some c →
      c = m.missValue d := by
  induction remain generalizing cache with
  | nil => exact h
  | cons x t ih =>
    simp only [List.foldl_cons]
    apply ih
    intro d c hc
    split at hc
    · exact h d c hc
    · rename_i hn
      cases hd : assoc cache d with
      | some c0 => rw [assoc_append_some hd] at hc; injection hc with hc; rw [← hc]; exact h d c0 hd
      | none =>
        rw [assoc_append_none hd] at hc
        split at hc
        · rename_i he; cases hc; rw [he]
        · cases hc

theorem CacheOK_after {m : MinVal} (h : CacheOK m) (remain : Coins) : CacheOK (m.after remain) := by
  intro d c hc
  show c = m.missValue d
  exact after_fold_ok m remain m.cache h d c hc

theorem CacheOK_afterGauge {m : MinVal} (h : CacheOK m) (locks : List Lock) (g : Gauge) : CacheOK (m.afterGauge locks g) := by
  unfold MinVal.afterGauge
  split
  · exact CacheOK_after h _
  · exact h

theorem CacheOK_empty (q : Quotes) : CacheOK ⟨q, []⟩ := fun d c h => by simp [assoc] at h

/-- what address `r` is sent of denom `d`. -/
def recvAmt : Info → Nat → Denom → Int
  | [], _, _ => 0
  | (_, r', c) :: t, r, d => (if r' = r then amountOf c d else 0) + recvAmt t r d

/-- what the pays addressed to `r` add up to. -/
def paysTo : List Pay → Nat → Denom → Int
  | [], _, _ => 0
  | p :: ps, r, d => (if p.receiver = r then amountOf p.coins d else 0) + paysTo ps r d

/-- all locks of one owner name the same receiver. -/
def Consistent (ps : List Pay) : Prop := ∀ p ∈ ps, ∀ q ∈ ps, p.owner = q.owner → p.receiver = q.receiver

/-- queue slots agree with the pays still to come. -/
def Agrees (info : Info) (ps : List Pay) : Prop := ∀ e ∈ info, ∀ p ∈ ps, p.owner = e.1 → p.receiver = e.2.1

theorem recvAmt_add {info : Info} {p : Pay} (h : Agrees info [p]) (r : Nat) (d : Denom) :
    recvAmt (addLockRewards info p) r d = recvAmt info r d + (if p.receiver = r then amountOf p.coins d else 0) := by
  induction info with
  | nil => simp [addLockRewards, recvAmt]
  | cons hd t ih =>
    obtain ⟨o, r', c⟩ := hd
    have ht : Agrees t [p] := fun e he q hq => h e (List.mem_cons_of_mem _ he) q hq
    simp only [addLockRewards]
    by_cases ho : o = p.owner
    · rw [if_pos ho]
      have hr : p.receiver = r' := h (o, r', c) (List.mem_cons_self ..) p (List.mem_singleton.mpr rfl) ho.symm
      simp only [recvAmt, amountOf_addCoins, hr]
      split <;> omega
    · rw [if_neg ho]
      simp only [recvAmt, ih ht]; omega

theorem mem_addLockRewards {info : Info} {p : Pay} {e : Nat × Nat × Coins} (he : e ∈ addLockRewards info p) :
    (∃ e0 ∈ info, e0.1 = e.1 ∧ e0.2.1 = e.2.1) ∨ (e.1 = p.owner ∧ e.2.1 = p.receiver) := by
  induction info with
  | nil =>
    simp only [addLockRewards, List.mem_singleton] at he
    subst he; exact Or.inr ⟨rfl, rfl⟩
  | cons hd t ih =>
    obtain ⟨o, r', c⟩ := hd
    simp only [addLockRewards] at he
    split at he
    · rcases List.mem_cons.mp he with rfl | h'
      · exact Or.inl ⟨(o, r', c), List.mem_cons_self .., rfl, rfl⟩
      · exact Or.inl ⟨e, List.mem_cons_of_mem _ h', rfl, rfl⟩
    · rcases List.mem_cons.mp he with rfl | h'
      · exact Or.inl ⟨(o, r', c), List.mem_cons_self .., rfl, rfl⟩
      · rcases ih h' with ⟨e0, h0, h1, h2⟩ | hh
        · exact Or.inl ⟨e0, List.mem_cons_of_mem _ h0, h1, h2⟩
        · exact Or.inr hh

/-- **receipts under consistent receivers**: every address receives exactly the pays addressed to it. -/
theorem recvAmt_foldl {ps : List Pay} {info : Info} (hc : Consistent ps) (ha : Agrees info ps) (r : Nat) (d : Denom) :
    recvAmt (ps.foldl addLockRewards info) r d = recvAmt info r d + paysTo ps r d := by
  induction ps generalizing info with
  | nil => simp [paysTo]
  | cons p ps ih =>
    simp only [List.foldl_cons]
    have hc' : Consistent ps := fun a ha' b hb hab => hc a (List.mem_cons_of_mem _ ha') b (List.mem_cons_of_mem _ hb) hab
    have hp : Agrees info [p] := fun e he q hq ho => by
      simp only [List.mem_singleton] at hq; subst hq
      exact ha e he q (List.mem_cons_self ..) ho
    have ha' : Agrees (addLockRewards info p) ps := by
      intro e he q hq ho
      rcases mem_addLockRewards he with ⟨e0, h0, h1, h2⟩ | ⟨h1, h2⟩
      · rw [← h2]; exact ha e0 h0 q (List.mem_cons_of_mem _ hq) (by rw [h1]; exact ho)
      · rw [h2]; exact hc q (List.mem_cons_of_mem _ hq) p (List.mem_cons_self ..) (by rw [ho, h1])
    rw [ih hc' ha', recvAmt_add hp, paysTo]; omega

/-! ### the record of each snapshot gauge after the loop -/

theorem mem_setGauge_self {gs : List Gauge} {g0 g' : Gauge} (hm : g0 ∈ gs) (hid : g'.id = g0.id) : g' ∈ setGauge gs g' := by
  unfold setGauge
  exact List.mem_map.mpr ⟨g0, hm, by rw [if_pos hid.symm]⟩

/-- the record of a snapshot gauge after the loop: there is a cache state `m` (same quotes, consistent when the
initial one is) — the one the gauge finds — under which `distributeGauge` does not fail and decides the record. -/
theorem distributeLoop_result {thr : MinVal} {locks : List Lock} {snap store : List Gauge} {info : Info}
    {store' : List Gauge} {info' : Info}
    (h : distributeLoop thr locks snap store info = some (store', info'))
    (hm : ∀ g ∈ snap, g ∈ store) (hsn : (snap.map (·.id)).Nodup) {g : Gauge} (hg : g ∈ snap) :
    ∃ m : MinVal, m.quotes = thr.quotes ∧ (CacheOK thr → CacheOK m) ∧ distributeGauge m locks g ≠ none ∧
    (∀ total pays, distributeGauge m locks g = some (some (total, pays)) → g.postDistribute total ∈ store') ∧
    (distributeGauge m locks g = some none → g ∈ store') := by
  induction snap generalizing store info thr with
  | nil => cases hg
  | cons g0 gs ih =>
    simp only [List.map_cons, List.nodup_cons] at hsn
    have hgs : ∀ x ∈ gs, x ∈ store := fun x hx => hm x (List.mem_cons_of_mem _ hx)
    have hg0 : g0 ∈ store := hm g0 (List.mem_cons_self ..)
    simp only [distributeLoop] at h
    cases hd : distributeGauge thr locks g0 with
    | none => rw [hd] at h; cases h
    | some r =>
      rw [hd] at h
      rcases List.mem_cons.mp hg with rfl | hg'
      · -- the head gauge: nothing later has its id
        refine ⟨thr, rfl, id, (by rw [hd]; exact Option.some_ne_none _), ?_⟩
        cases r with
        | none =>
          refine ⟨fun total pays hh => (by rw [hd] at hh; cases hh), fun _ => ?_⟩
          exact distributeLoop_untouched h hg0 hsn.1
        | some tp =>
          obtain ⟨total, pays⟩ := tp
          simp only at h
          refine ⟨fun t p hh => ?_, fun hh => (by rw [hd] at hh; cases hh)⟩
          rw [hd] at hh
          injection hh with hh; injection hh with hh; injection hh with h1 h2
          subst h1
          exact distributeLoop_untouched h (mem_setGauge_self hg0 rfl) hsn.1
      · have lift : ∀ {P : MinVal → Prop}, (∃ m : MinVal, m.quotes = (thr.afterGauge locks g0).quotes ∧
            (CacheOK (thr.afterGauge locks g0) → CacheOK m) ∧ P m) →
            ∃ m : MinVal, m.quotes = thr.quotes ∧ (CacheOK thr → CacheOK m) ∧ P m := by
          rintro P ⟨m, h1, h2, h3⟩
          exact ⟨m, by rw [h1, MinVal.afterGauge_quotes], fun hc => h2 (CacheOK_afterGauge hc _ _), h3⟩
        cases r with
        | none => exact lift (ih h hgs hsn.2 hg')
        | some tp =>
          obtain ⟨total, pays⟩ := tp
          simp only at h
          have hgs1 : ∀ x ∈ gs, x ∈ setGauge store (g0.postDistribute total) := by
            intro x hx
            refine mem_setGauge_of_ne (hgs x hx) ?_
            intro hh
            exact hsn.1 (List.mem_map.mpr ⟨x, hx, hh⟩)
          exact lift (ih h hgs1 hsn.2 hg')

/-- an upcoming id is, after activation, still upcoming or in the active snapshot. -/
theorem activate_split {now : Int} {up act up' act' : Refs} (h : activate now up act = some (up', act')) :
    ∀ i ∈ refsIds up, i ∈ refsIds up' ∨ i ∈ refsIds act' := by
  intro i hi
  have := (activate_perm h).mem_iff.mpr (List.mem_append_left _ hi)
  exact List.mem_append.mp this

theorem owed_filter_le {gs : List Gauge} (p : Gauge → Bool) {d : Denom} (h : ∀ g ∈ gs, 0 ≤ rem g d) :
    owed (gs.filter p) d ≤ owed gs d := by
  induction gs with
  | nil => simp [owed]
  | cons g t ih =>
    have h0 := h g (List.mem_cons_self ..)
    have iht := ih (fun x hx => h x (List.mem_cons_of_mem _ hx))
    rw [List.filter_cons]
    split
    · simp only [owed]; omega
    · simp only [owed]; omega

/-! ### vocabulary of the property statements (Props/C09) -/

/-- states reachable by any history from any initial configuration (valid initial module balance). -/
def Reachable (s : State) : Prop :=
  ∃ (cfg : Cfg) (bal : Coins) (ops : List Op), validCoins bal = true ∧ s = run (init cfg bal) ops

theorem reachable_inv {s : State} (h : Reachable s) : Inv s ∧ SInv s := by
  obtain ⟨cfg, bal, ops, hb, rfl⟩ := h
  exact ⟨Inv_run (Inv_init cfg hb) ops, SInv_run (Inv_init cfg hb) (SInv_init cfg bal) ops⟩

theorem reachable_step {s : State} (h : Reachable s) (o : Op) : Reachable (step s o) := by
  obtain ⟨cfg, bal, ops, hb, rfl⟩ := h
  exact ⟨cfg, bal, ops ++ [o], hb, (run_snoc _ _ _).symm⟩

/-- the undistributed remainder of all unfinished gauges (upcoming or active in the reference stores). -/
def undistributed (s : State) (d : Denom) : Int :=
  owed (s.gauges.filter (fun g => !(refsIds s.finished).contains g.id)) d

/-- ⌊R·a / (S·e)⌋ (`/` on `Int` is floor division for a positive divisor). -/
def floorShare (R : Int) (a : Nat) (S e : Int) : Int := R * (a : Int) / (S * e)

/-- what a lock with amount `a` is owed of denom `d` by a gauge with remainder `R` under the value filter `f`:
the floor share, unless it is filtered (worth less than the minimum / no value at all) or is zero. -/
def owedToLock (f : Filter) (d : Denom) (R : Int) (a : Nat) (S e : Int) : Int :=
  if f d (floorShare R a S e) && decide (0 < floorShare R a S e) then floorShare R a S e else 0

/-- the queue entry of one lock. -/
def payOf (f : Filter) (remain : Coins) (den : Int) (l : Lock) : Option Pay :=
  if (lockCoins f remain den l.amount).isEmpty then none
  else some ⟨l.owner, l.rewardReceiver, lockCoins f remain den l.amount⟩

theorem lockPays_same_eq_filterMap (f : Filter) (remain : Coins) (den : Int) (ls : List Lock) :
    lockPays f f remain den ls = ls.filterMap (payOf f remain den) := by
  induction ls with
  | nil => rfl
  | cons l ls ih =>
    simp only [lockPays, List.filterMap_cons, payOf]
    split <;> simp [ih]

/-- the lock loop: the first lock under `f`, the others under `f'`. -/
theorem lockPays_eq_filterMap (f f' : Filter) (remain : Coins) (den : Int) (ls : List Lock) :
    lockPays f f' remain den ls = (ls.take 1).filterMap (payOf f remain den) ++ (ls.drop 1).filterMap (payOf f' remain den) := by
  cases ls with
  | nil => rfl
  | cons l ls =>
    simp only [lockPays, List.take_succ_cons, List.take_zero, List.drop_succ_cons, List.drop_zero, List.filterMap_cons,
      List.filterMap_nil, payOf, lockPays_same_eq_filterMap]
    split <;> simp

end OsmoVerif.Incentives
