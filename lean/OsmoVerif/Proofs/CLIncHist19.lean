/-
C08 (incentives, histories) helpers, part 19: `SumI` under `WithdrawPosition`: the withdrawn position's entitlements are
released; the collected coins leave the balance, the forfeited ones either leave it too (less than one unit of liquidity stays)
or come back as accumulator growth × remaining active liquidity; together at most the released entitlements + six half units.
Core only.
-/
import OsmoVerif.Proofs.CLIncHist18

namespace OsmoVerif.CLIncP
open OsmoVerif.Num OsmoVerif.CL OsmoVerif.CLPool OsmoVerif.CLFees OsmoVerif.CLInc OsmoVerif.CLFeesP OsmoVerif.CLBook
open OsmoVerif.Accum (amt sorted hev)
open OsmoVerif.Gen

theorem withdrawI_sum {s s' : Full} {owner : String} {id : Nat} {req o0 o1 : Int} {n : Int}
    (hi : IncInv s) (hs : SumI s n) (hf' : FullInv s'.fees) (sf : IStepFacts s s')
    (h : CLInc.withdrawPosition s owner id req = some (s', o0, o1)) : SumI s' (n + 6) := by
  obtain ⟨pos, i1, i2, coll, forf, byUp, b, i3, i4, T, hmem, hid, _, _, hsync, hclaim, hjf, _, _, hb, hred, e3b, einc, q2, _, q4, _, _, etick,
    hp', chain⟩ := withdrawI_part hi.fees hf' hi.inc h
  have hfee := withdrawI_fees h
  obtain ⟨pos0, _, hfind0, hw, _, _⟩ := withdraw_spec hfee
  obtain ⟨hmem0, hid0⟩ := find_id hfind0
  have hposeq : pos0 = pos := mem_eq_of_id hi.fees.pool.core.pos.uniq hmem0 hmem (by rw [hid0, hid])
  subst hposeq
  obtain ⟨_, _, epos, _, _⟩ := withdraw_positions hfind0 hw
  have h1 := sync_sum hi hs hsync
  obtain ⟨hp1, t1, _, _, _, _, _, g1, _⟩ := sync_part hi.inc hsync
  rw [← hid] at hclaim
  have hj : joinOf i1 pos0.id = some T := by unfold joinOf; rw [hid]; exact hjf
  obtain ⟨T', hj', _, hsplit, _⟩ := claim_split hi.fees hp1 hmem hclaim
  have hTT : T = T' := by rw [hj] at hj'; injection hj'
  subst hTT
  have hF := hp1.factor
  have hP := P18_pos
  obtain ⟨r1, r2⟩ := redeposit_bal hred
  have ebal : s'.inc.bal = i4.bal := by rw [einc]
  have erec : s'.inc.records = i1.records := by rw [einc]; exact q2
  have efac : s'.inc.factor = i1.factor := by rw [einc]; exact q4
  obtain ⟨n1, n2, _⟩ := claim_parts hi.fees hp1 hmem hj hclaim ""
  obtain ⟨sb, hbal1⟩ := coinsSubAll_spec coll _ b h1.balSorted n1 hb
  -- the balance
  have hbalS : sorted s'.inc.bal = true ∧ ∀ d, amt s'.inc.bal d = amt i1.bal d - amt coll d -
      (if s'.fees.pool.liquidity < P18 then amt forf d else 0) := by
    rw [ebal]
    by_cases hl : s'.fees.pool.liquidity < P18
    · obtain ⟨hsub, _⟩ := r2 hl
      rw [e3b] at hsub
      obtain ⟨sb2, hbal2⟩ := coinsSubAll_spec forf _ _ sb n2 hsub
      exact ⟨sb2, fun d => by rw [hbal2 d, hbal1 d, if_pos hl]⟩
    · have hge : P18 ≤ s'.fees.pool.liquidity := Int.not_lt.mp hl
      rw [r1 hge, e3b]
      refine ⟨sb, fun d => ?_⟩
      rw [hbal1 d, if_neg hl, Int.sub_zero]
  refine ⟨hbalS.1, fun d => ?_⟩
  obtain ⟨_, _, parts⟩ := claim_parts hi.fees hp1 hmem hj hclaim d
  -- growth of accumulator `k` after sync
  -- per accumulator: what the withdrawal hands out against the released entitlement
  have perK : ∀ k ∈ six,
      2 * ((if i1.now - T < upAt k then (if s'.fees.pool.liquidity < P18 then claimPart i1 s.fees.pool.tick pos0.lower pos0.upper pos0.id k d else 0)
            else claimPart i1 s.fees.pool.tick pos0.lower pos0.upper pos0.id k d) * (P18 * i1.factor)) +
        2 * (dVal i1 s'.inc k d * s'.fees.pool.liquidity) ≤ 2 * ent { s with inc := i1 } d k pos0 + P18 := by
    intro k hk
    have hk6 := mem_six.mp hk
    obtain ⟨r, cs, hr, hsh, hx, ht0, hp0, hpb, hby, hcs⟩ := parts k hk6
    obtain ⟨⟨a0, a1, a4, r', total, ins, rew, scaled, down, up, ha0, ha1, gr, ha4, hr', _, hup, htot, _, _, hby', _, _, _, _, _, _, _, hv, hz⟩⟩ := chain k hk6
    have hupk : upAt k = up := by unfold upAt; rw [hup]; rfl
    have hrr : r' = r := by
      rw [accAt_of ha1, gr.1, hr'] at hr; injection hr
    subst hrr
    have hshn : 0 ≤ r'.shares := by have := hi.fees.pool.core.pos.liqPos pos0 hmem; omega
    have hre : 2 * (rawTotal r' (insU i1 s.fees.pool.tick k d pos0.lower pos0.upper) d * P18) ≤ 2 * ent { s with inc := i1 } d k pos0 + P18 :=
      rawTotal_le_ent (s := { s with inc := i1 }) (k := k) (d := d) (q := pos0) hr hshn hx
    have hdv : dVal i1 s'.inc k d = amt a4.value d - amt a1.value d := by unfold dVal; rw [valAt_of ha4, valAt_of ha1]
    obtain ⟨_, hgb⟩ := hv d
    rw [← hupk] at hgb
    have hcs2 : amt (if i1.now - T < upAt k then scaled else []) d =
        (if i1.now - T < upAt k then (rawTotal r' (insU i1 s.fees.pool.tick k d pos0.lower pos0.upper) d).tdiv P18 else 0) := by
      split
      · rw [(htot d).2.2.1]; unfold rawTotal; rw [(htot d).1]
      · rfl
    rw [hcs2, ← hdv] at hgb
    obtain ⟨q0, q1, _⟩ := tdiv_le_self ht0 hP
    have hz' : s'.fees.pool.liquidity < P18 → dVal i1 s'.inc k d = 0 := by
      intro hl; rw [hdv, hz hl]; omega
    generalize rawTotal r' (insU i1 s.fees.pool.tick k d pos0.lower pos0.upper) d = t at *
    generalize claimPart i1 s.fees.pool.tick pos0.lower pos0.upper pos0.id k d = D at *
    generalize dVal i1 s'.inc k d = g at *
    generalize ent { s with inc := i1 } d k pos0 = E at *
    have h1' : D * i1.factor * P18 ≤ t.tdiv P18 * P18 * P18 := Int.mul_le_mul_of_nonneg_right hpb (by omega)
    have h2' : t.tdiv P18 * P18 * P18 ≤ t * P18 := Int.mul_le_mul_of_nonneg_right q1 (by omega)
    have e3 : D * (P18 * i1.factor) = D * i1.factor * P18 := by rw [Int.mul_comm P18, Int.mul_assoc]
    have e4 : t.tdiv P18 * (P18 * P18) = t.tdiv P18 * P18 * P18 := (Int.mul_assoc _ _ _).symm
    have htp : 0 ≤ t * P18 := Int.mul_nonneg ht0 (by omega)
    by_cases hl : s'.fees.pool.liquidity < P18
    · rw [hz' hl, Int.zero_mul]
      simp only [if_pos hl]
      have : (if i1.now - T < upAt k then D else D) = D := by split <;> rfl
      rw [this, e3]; omega
    · simp only [if_neg hl]
      by_cases hu : i1.now - T < upAt k
      · rw [if_pos hu] at hgb ⊢
        rw [e4] at hgb
        rw [Int.zero_mul]
        omega
      · rw [if_neg hu] at hgb ⊢
        rw [Int.zero_mul] at hgb
        rw [e3]; omega
  -- the potential of the new state
  have hA : ∀ k, dVal i1 s'.inc k d * activeAt s'.fees.pool.positions s.fees.pool.tick = dVal i1 s'.inc k d * s'.fees.pool.liquidity := by
    intro k
    by_cases hne : s'.fees.pool.positions = []
    · -- no position left: less than one unit of liquidity, nothing is re-deposited
      have hl0 : s'.fees.pool.liquidity = 0 := by rw [hf'.pool.active, hne]; rfl
      rw [hne, hl0]; simp [activeAt]
    · rw [hf'.pool.active, etick hne]
  have hE : Etot s' d = Etot { s with inc := i1 } d - entQ { s with inc := i1 } d pos0 +
      sumN six (fun k => dVal i1 s'.inc k d * s'.fees.pool.liquidity) := by
    let B : Position → Int := fun q' => if q'.id = pos0.id then 0 else entQ { s with inc := i1 } d q'
    have hq : ∀ q' ∈ s'.fees.pool.positions, entQ s' d q' = B q' +
        sumN six (fun k => (if q'.lower ≤ s.fees.pool.tick ∧ s.fees.pool.tick < q'.upper then dVal i1 s'.inc k d else 0) * q'.liq) := by
      intro q' hq'
      have hBs : B q' = sumN six (fun k => if q'.id = pos0.id then 0 else ent { s with inc := i1 } d k q') := by
        show (if q'.id = pos0.id then 0 else entQ { s with inc := i1 } d q') = _
        split
        · rw [sumN_zero]
        · rfl
      rw [hBs]
      unfold entQ
      rw [← sumN_add]
      apply sumN_congr
      intro k hk
      have hk6 := mem_six.mp hk
      obtain ⟨⟨a0, a1, a4, r, total, ins, rew, scaled, down, up, ha0, ha1, gr, ha4, hr, _, _, _, _, _, _, hrec4, _, _, hamt4, hoth, _⟩⟩ := chain k hk6
      obtain ⟨r4, hr4, hsh4⟩ := (hp'.accs a4 (mem_of_getElem? ha4)).recs q' hq'
      rcases sf.desc q' hq' with ⟨q, hq, e0, e1, e2⟩ | hge
      · have hins := inside_from_synced hi sf t1 hq hq' e0.symm k d
        rw [e1, e2] at hins
        by_cases hx : q'.id = pos0.id
        · rw [if_pos hx]
          unfold ent
          rw [accAt_of ha4, hr4]
          rw [hx, hrec4] at hr4; injection hr4 with hr4; subst hr4
          simp only at hsh4 ⊢
          have hqp : q = pos0 := mem_eq_of_id hi.fees.pool.core.pos.uniq hq hmem (by rw [e0, hx])
          subst hqp
          rw [hins, (hamt4 d).1, (hamt4 d).2, ← e1, ← e2, ← hsh4]
          rw [Int.zero_mul, Int.zero_add, Int.zero_add]
          congr 1
          split <;> omega
        · rw [if_neg hx]
          have hrec : getURec (accAt s'.inc k).recs q'.id = getURec (accAt ({ s with inc := i1 } : Full).inc k).recs q'.id := by
            show _ = getURec (accAt i1 k).recs q'.id
            rw [accAt_of ha4, accAt_of ha1, hoth q'.id hx, gr.1]
          have hr1 : getURec (accAt ({ s with inc := i1 } : Full).inc k).recs q'.id = some r4 := by
            rw [← hrec, accAt_of ha4]; exact hr4
          have := ent_step (s := { s with inc := i1 }) (s' := s') (q := q') (q' := q') (k := k) (d := d)
            (δ := if q'.lower ≤ s.fees.pool.tick ∧ s.fees.pool.tick < q'.upper then dVal i1 s'.inc k d else 0)
            rfl rfl rfl hrec hins hr1
          rw [this, hsh4]
      · exfalso
        have := hf'.pool.core.pos.idsLt q' hq'
        have hn : s'.fees.pool.nextId = s.fees.pool.nextId := by
          obtain ⟨_, _, _, en, _⟩ := withdraw_positions hfind0 hw
          exact en
        omega
    unfold Etot
    rw [sumBy_congr hq, sumBy_add, sumBy_sumN]
    have hsumB : sumBy B s'.fees.pool.positions = sumBy (entQ { s with inc := i1 } d) s.fees.pool.positions - entQ { s with inc := i1 } d pos0 := by
      rw [epos]
      split
      · -- full withdrawal
        rw [← sumBy_filter_id (F := entQ { s with inc := i1 } d) hi.fees.pool.core.pos.uniq hmem]
        have : (s.fees.pool.positions.filter fun x => decide (x.id ≠ id)) = (s.fees.pool.positions.filter fun q => decide (q.id ≠ pos0.id)) := by
          rw [hid]
        rw [this]
        apply sumBy_congr
        intro q hq
        have hne := (List.mem_filter.mp hq).2
        simp only [ne_eq, decide_not, Bool.not_eq_eq_eq_not, Bool.not_true, decide_eq_false_iff_not] at hne
        show (if q.id = pos0.id then 0 else entQ { s with inc := i1 } d q) = _
        rw [if_neg hne]
      · -- partial withdrawal
        rw [sumBy_map]
        have hpt := sumBy_point (F := entQ { s with inc := i1 } d)
          (G := fun q => B (if q.id = id then { q with liq := pos0.liq + -req } else q))
          hi.fees.pool.core.pos.uniq hmem (fun q hq hne => by
            show (if (if q.id = id then { q with liq := pos0.liq + -req } else q).id = pos0.id then 0 else _) = _
            have hidq : (if q.id = id then { q with liq := pos0.liq + -req } else q).id = q.id := by split <;> rfl
            rw [hidq, if_neg hne]
            apply entQ_congr_pos <;> (split <;> rfl))
        rw [hpt]
        have : B (if pos0.id = id then { pos0 with liq := pos0.liq + -req } else pos0) = 0 := by
          show (if (if pos0.id = id then { pos0 with liq := pos0.liq + -req } else pos0).id = pos0.id then 0 else _) = 0
          have hidq : (if pos0.id = id then { pos0 with liq := pos0.liq + -req } else pos0).id = pos0.id := by split <;> rfl
          rw [hidq, if_pos rfl]
        rw [this]; omega
    rw [hsumB]
    show _ = sumBy (entQ { s with inc := i1 } d) s.fees.pool.positions - entQ { s with inc := i1 } d pos0 + _
    congr 1
    apply sumN_congr
    intro k _
    rw [sumBy_credit, hA k]
  -- put together
  have hb1 := h1.bound d
  have hsum := sumN_le perK
  rw [sumN_add, sumN_mul_left, sumN_mul, sumN_add, sumN_mul_left, sumN_six_const, sumN_mul_left] at hsum
  have hpay : sumN six (fun k => if i1.now - T < upAt k then
        (if s'.fees.pool.liquidity < P18 then claimPart i1 s.fees.pool.tick pos0.lower pos0.upper pos0.id k d else 0)
        else claimPart i1 s.fees.pool.tick pos0.lower pos0.upper pos0.id k d) =
      amt coll d + (if s'.fees.pool.liquidity < P18 then amt forf d else 0) := by
    rw [(hsplit d).1, (hsplit d).2]
    by_cases hl : s'.fees.pool.liquidity < P18
    · rw [if_pos hl, ← sumN_add]
      apply sumN_congr
      intro k _
      simp only [if_pos hl]
      split <;> omega
    · rw [if_neg hl, Int.add_zero]
      apply sumN_congr
      intro k _
      by_cases hu : i1.now - T < upAt k <;> simp [hu, hl]
  rw [hpay] at hsum
  rw [hE, erec, efac, hbalS.2 d]
  simp only at hb1
  have hEq : entQ { s with inc := i1 } d pos0 = sumN six (fun k => ent { s with inc := i1 } d k pos0) := rfl
  rw [← hEq] at hsum
  generalize sumN six (fun k => dVal i1 s'.inc k d * s'.fees.pool.liquidity) = G at *
  generalize entQ { s with inc := i1 } d pos0 = EP at *
  generalize Etot { s with inc := i1 } d = E1 at *
  generalize (if s'.fees.pool.liquidity < P18 then amt forf d else 0) = FF at *
  have e5 : (amt i1.bal d - amt coll d - FF) * P18 * i1.factor = amt i1.bal d * P18 * i1.factor - (amt coll d + FF) * (P18 * i1.factor) := by
    rw [Int.mul_assoc, Int.mul_assoc, ← Int.sub_mul]
    congr 1; omega
  have e6 : (n + 6) * P18 = n * P18 + 6 * P18 := Int.add_mul _ _ _
  rw [e5]
  omega

end OsmoVerif.CLIncP
