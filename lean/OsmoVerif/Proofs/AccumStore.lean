/- Association-list lemmas for the accum store, and the success shapes (`Succ`) of every op issued
through a fresh handle; errors and (transactional) panics are no-ops (`step_cases`).  Core only. -/
import OsmoVerif.Proofs.AccumCoins
import OsmoVerif.Spec.AccumLedger

namespace OsmoVerif.Accum
open OsmoVerif.Num

section alist
variable {κ α : Type} [DecidableEq κ]

theorem alookup_aset (l : List (κ × α)) (k q : κ) (v : α) :
    alookup (aset l k v) q = if k = q then some v else alookup l q := by
  induction l with
  | nil => simp [aset, alookup]
  | cons c t ih =>
    obtain ⟨k', w⟩ := c
    unfold aset
    by_cases h : k' = k
    · subst h; rw [if_pos rfl]; simp only [alookup]; split <;> rfl
    · rw [if_neg h]; simp only [alookup, ih]
      by_cases h2 : k' = q
      · subst h2; rw [if_pos rfl, if_pos rfl, if_neg (fun e => h e.symm)]
      · rw [if_neg h2, if_neg h2]

theorem alookup_adel (l : List (κ × α)) (k q : κ) :
    alookup (adel l k) q = if k = q then none else alookup l q := by
  induction l with
  | nil => simp [adel, alookup]
  | cons c t ih =>
    obtain ⟨k', w⟩ := c
    unfold adel
    by_cases h : k' = k
    · subst h; rw [if_pos rfl, ih]; simp only [alookup]
      by_cases h2 : k' = q
      · simp only [if_pos h2]
      · simp only [if_neg h2]
    · rw [if_neg h]; simp only [alookup, ih]
      by_cases h2 : k' = q
      · subst h2; rw [if_pos rfl, if_neg (fun e => h e.symm), if_pos rfl]
      · simp only [if_neg h2]

theorem aset_same {l : List (κ × α)} {k : κ} {v : α} (h : alookup l k = some v) : aset l k v = l := by
  induction l with
  | nil => cases h
  | cons c t ih =>
    obtain ⟨k', w⟩ := c
    unfold aset
    simp only [alookup] at h
    by_cases hk : k' = k
    · rw [if_pos hk] at h; cases h; rw [if_pos hk]
    · rw [if_neg hk] at h; rw [if_neg hk, ih h]

theorem adel_of_none {l : List (κ × α)} {k : κ} (h : alookup l k = none) : adel l k = l := by
  induction l with
  | nil => rfl
  | cons c t ih =>
    obtain ⟨k', w⟩ := c
    simp only [alookup] at h
    unfold adel
    by_cases hk : k' = k
    · rw [if_pos hk] at h; cases h
    · rw [if_neg hk] at h; rw [if_neg hk, ih h]

/-- keys are pairwise distinct. -/
def uniqK : List (κ × α) → Prop
  | [] => True
  | (k, _) :: t => alookup t k = none ∧ uniqK t

theorem uniqK_aset {l : List (κ × α)} (h : uniqK l) (q : κ) (v : α) : uniqK (aset l q v) := by
  induction l with
  | nil => exact ⟨rfl, trivial⟩
  | cons c t ih =>
    obtain ⟨k, w⟩ := c
    unfold aset
    by_cases hk : k = q
    · rw [if_pos hk]; exact h
    · rw [if_neg hk]
      refine ⟨?_, ih h.2⟩
      rw [alookup_aset, if_neg (fun e => hk e.symm)]; exact h.1

theorem uniqK_adel {l : List (κ × α)} (h : uniqK l) (q : κ) : uniqK (adel l q) := by
  induction l with
  | nil => trivial
  | cons c t ih =>
    obtain ⟨k, w⟩ := c
    unfold adel
    by_cases hk : k = q
    · rw [if_pos hk]; exact ih h.2
    · rw [if_neg hk]
      refine ⟨?_, ih h.2⟩
      rw [alookup_adel, if_neg (fun e => hk e.symm)]; exact h.1
end alist

/-! ### Σ shares of the positions of one accumulator -/
def sumShares : List ((String × String) × Record) → String → Int
  | [], _ => 0
  | ((a, _), r) :: t, name => (if a = name then r.shares else 0) + sumShares t name

def oldShares (l : List ((String × String) × Record)) (k : String × String) : Int :=
  match alookup l k with
  | some p => p.shares
  | none => 0

theorem sumShares_aset (l : List ((String × String) × Record)) (a p : String) (r : Record) (name : String) :
    sumShares (aset l (a, p) r) name = sumShares l name + (if a = name then r.shares - oldShares l (a, p) else 0) := by
  induction l with
  | nil => simp [aset, sumShares, oldShares, alookup]
  | cons c t ih =>
    obtain ⟨⟨a', p'⟩, w⟩ := c
    unfold aset
    by_cases hk : (a', p') = (a, p)
    · rw [if_pos hk]
      obtain ⟨rfl, rfl⟩ := Prod.mk.inj hk
      simp only [sumShares, oldShares, alookup, if_pos]
      split <;> omega
    · rw [if_neg hk]
      simp only [sumShares, ih, oldShares, alookup, if_neg hk]
      omega

theorem sumShares_adel {l : List ((String × String) × Record)} (hu : uniqK l) (a p : String) (name : String) :
    sumShares (adel l (a, p)) name = sumShares l name - (if a = name then oldShares l (a, p) else 0) := by
  induction l with
  | nil => simp [adel, sumShares, oldShares, alookup]
  | cons c t ih =>
    obtain ⟨⟨a', p'⟩, w⟩ := c
    unfold adel
    by_cases hk : (a', p') = (a, p)
    · rw [if_pos hk]
      obtain ⟨rfl, rfl⟩ := Prod.mk.inj hk
      rw [adel_of_none hu.1]
      simp only [sumShares, oldShares, alookup, if_pos]
      split <;> omega
    · rw [if_neg hk]
      simp only [sumShares, ih hu.2, oldShares, alookup, if_neg hk]
      omega

/-! ### success shapes of the ops (fresh handle) -/

/-- the handle `GetAccumulator` returns for content `c`. -/
def fresh (a : String) (c : Content) : Handle := ⟨a, c.value, c.total⟩

/-- no stored accumulator name contains the key separator (`MakeAccumulator` refuses them). -/
def NoSep (st : Store) : Prop := ∀ a c, alookup st.accs a = some c → hasSep a = false

/-- share-changing ops: (accumulator, position, signed share change, interval value). -/
def settleOf : Op → Option (String × String × Int × Option DecCoins)
  | .addPos a pos n iv => some (a, pos, n, iv)
  | .remPos a pos n iv => some (a, pos, -n, iv)
  | .updPos a pos n iv => some (a, pos, n, iv)
  | _ => none

inductive Succ (st : Store) : Op → Store → Prop
  | make {a} (h1 : alookup st.accs a = none) (h2 : hasSep a = false) :
      Succ st (.make a) ⟨aset st.accs a ⟨[], 0⟩, st.poss⟩
  | grow {a g c v} (h1 : alookup st.accs a = some c) (h2 : add c.value g = some v) :
      Succ st (.grow a g) ⟨aset st.accs a ⟨v, c.total⟩, st.poss⟩
  | newPos {a pos sh iv opt c} (h1 : alookup st.accs a = some c) :
      Succ st (.newPos a pos sh iv opt)
        ⟨aset st.accs a ⟨c.value, c.total + sh⟩, aset st.poss (a, pos) ⟨sh, ivOr iv (fresh a c), [], opt⟩⟩
  | settle {op a pos delta iv c p tot} (hop : settleOf op = some (a, pos, delta, iv))
      (h1 : alookup st.accs a = some c) (h2 : st.getPos a pos = some p)
      (h3 : getTotalRewards (fresh a c) p = some tot) (h4 : delta ≠ 0) :
      Succ st op ⟨aset st.accs a ⟨c.value, c.total + delta⟩,
                  aset st.poss (a, pos) ⟨p.shares + delta, ivOr iv (fresh a c), tot, p.opt⟩⟩
  | setInt {a pos iv c p} (h1 : alookup st.accs a = some c) (h2 : st.getPos a pos = some p) :
      Succ st (.setInt a pos iv) ⟨st.accs, aset st.poss (a, pos) ⟨p.shares, iv, p.unclaimed, p.opt⟩⟩
  | addUnclaimed {a pos amt c p u} (h1 : alookup st.accs a = some c) (h2 : st.getPos a pos = some p)
      (h3 : add p.unclaimed amt = some u) :
      Succ st (.addUnclaimed a pos amt) ⟨st.accs, aset st.poss (a, pos) ⟨p.shares, p.snap, u, p.opt⟩⟩
  | claim {a pos c p tot tc dust} (h1 : alookup st.accs a = some c) (h2 : st.getPos a pos = some p)
      (h3 : getTotalRewards (fresh a c) p = some tot) (h4 : truncateDecimal tot = some (tc, dust)) :
      Succ st (.claim a pos)
        ⟨st.accs, if p.shares = 0 then adel st.poss (a, pos) else aset st.poss (a, pos) ⟨p.shares, c.value, [], p.opt⟩⟩
  | delete {a pos c p tot tc dust} (h1 : alookup st.accs a = some c) (h2 : st.getPos a pos = some p)
      (h3 : getTotalRewards (fresh a c) p = some tot) (h4 : truncateDecimal tot = some (tc, dust)) :
      Succ st (.delete a pos)
        ⟨aset st.accs a ⟨c.value, c.total - p.shares⟩,
         adel (if p.shares = 0 then adel st.poss (a, pos) else aset st.poss (a, pos) ⟨p.shares, c.value, [], p.opt⟩) (a, pos)⟩

/-- outcome of an op: either nothing happened (error, or a panic reverted by the transaction), or
it succeeded with the listed shape. -/
def Outcome (st : Store) (op : Op) : Prop :=
  ((stepFresh st op).2 ≠ .ok () ∧ stepTx st op = st) ∨ ((stepFresh st op).2 = .ok () ∧ Succ st op (stepTx st op))

theorem finishShares_fresh {st1 : Store} {a : String} {c : Content} (hc : alookup st1.accs a = some c)
    (hs : hasSep a = false) (v : DecCoins) (δ : Int) :
    finishShares st1 ⟨a, v, c.total⟩ δ =
      match Dec.add c.total δ with
      | none => (st1, ⟨a, v, c.total⟩, .panic)
      | some _ => (⟨aset st1.accs a ⟨v, c.total + δ⟩, st1.poss⟩, ⟨a, v, c.total + δ⟩, .ok ()) := by
  unfold finishShares getAccumulator
  simp only [hc, Option.map_some]
  cases hd : Dec.add c.total δ with
  | none => rfl
  | some t =>
    have := decAdd_some hd
    subst this
    simp only [setAccumulator, hs]
    rfl

theorem settle_shape {st : Store} {a : String} {c : Content} (hc : alookup st.accs a = some c) (hs : hasSep a = false)
    {op : Op} {pos : String} {delta : Int} {iv : Option DecCoins} (hop : settleOf op = some (a, pos, delta, iv))
    {p : Record} (hp : st.getPos a pos = some p) {tot : DecCoins} (ht : getTotalRewards (fresh a c) p = some tot)
    (hd : delta ≠ 0) (sh : Int) (hsh : sh = p.shares + delta) :
    ∀ s' h' r, finishShares (st.setPos a pos ⟨sh, ivOr iv (fresh a c), tot, p.opt⟩) (fresh a c) delta = (s', h', r) →
      (r = .err ∧ s' = st) ∨ r = .panic ∨ (r = .ok () ∧ Succ st op s') := by
  intro s' h' r heq
  subst hsh
  have hc' : alookup (st.setPos a pos ⟨p.shares + delta, ivOr iv (fresh a c), tot, p.opt⟩).accs a = some c := hc
  dsimp only [fresh] at heq hc'
  rw [finishShares_fresh hc' hs] at heq
  split at heq
  · cases heq; right; left; rfl
  · cases heq; right; right; exact ⟨rfl, Succ.settle hop hc hp ht hd⟩

theorem add_cases {st : Store} {a : String} {c : Content} (hc : alookup st.accs a = some c) (hs : hasSep a = false)
    {op : Op} {pos : String} {n : Int} {iv : Option DecCoins} (hop : settleOf op = some (a, pos, n, iv)) :
    ∀ s' h' r, addToPositionInterval st (fresh a c) pos n (ivOr iv (fresh a c)) = (s', h', r) →
      (r = .err ∧ s' = st) ∨ r = .panic ∨ (r = .ok () ∧ Succ st op s') := by
  intro s' h' r heq
  unfold addToPositionInterval at heq
  split at heq
  · cases heq; left; exact ⟨rfl, rfl⟩
  · next hpos =>
    have hn : 0 < n := Decidable.of_not_not hpos
    split at heq
    · cases heq; left; exact ⟨rfl, rfl⟩
    · next p hp =>
      split at heq
      · cases heq; right; left; rfl
      · next tot ht =>
        split at heq
        · cases heq; right; left; rfl
        · next sh hsh =>
          exact settle_shape hc hs hop hp ht (by omega) sh (decAdd_some hsh) s' h' r heq

theorem rem_cases {st : Store} {a : String} {c : Content} (hc : alookup st.accs a = some c) (hs : hasSep a = false)
    {op : Op} {pos : String} {n : Int} {iv : Option DecCoins} (hop : settleOf op = some (a, pos, -n, iv)) :
    ∀ s' h' r, removeFromPositionInterval st (fresh a c) pos n (ivOr iv (fresh a c)) = (s', h', r) →
      (r = .err ∧ s' = st) ∨ r = .panic ∨ (r = .ok () ∧ Succ st op s') := by
  intro s' h' r heq
  unfold removeFromPositionInterval at heq
  split at heq
  · cases heq; left; exact ⟨rfl, rfl⟩
  · next hpos =>
    have hn : 0 < n := Decidable.of_not_not hpos
    split at heq
    · cases heq; left; exact ⟨rfl, rfl⟩
    · next p hp =>
      split at heq
      · cases heq; left; exact ⟨rfl, rfl⟩
      · split at heq
        · cases heq; right; left; rfl
        · next tot ht =>
          split at heq
          · cases heq; right; left; rfl
          · next sh hsh =>
            exact settle_shape hc hs hop hp ht (by omega) sh (by rw [decSub_some hsh]; omega) s' h' r heq

theorem claim_cases {st : Store} {a : String} {c : Content} (hc : alookup st.accs a = some c) (pos : String) :
    ∀ s' h' r, claimRewards st (fresh a c) pos = (s', h', r) →
      (r = .err ∧ s' = st ∧ st.getPos a pos = none) ∨ (r = .panic ∧ s' = st) ∨
      (∃ p tot tc dust, r = .ok (tc, dust) ∧ h' = fresh a c ∧ st.getPos a pos = some p ∧
        getTotalRewards (fresh a c) p = some tot ∧ truncateDecimal tot = some (tc, dust) ∧
        s' = ⟨st.accs, if p.shares = 0 then adel st.poss (a, pos) else aset st.poss (a, pos) ⟨p.shares, c.value, [], p.opt⟩⟩) := by
  intro s' h' r heq
  unfold claimRewards at heq
  split at heq
  · next hp => cases heq; left; exact ⟨rfl, rfl, hp⟩
  · next p hp =>
    split at heq
    · cases heq; right; left; exact ⟨rfl, rfl⟩
    · next tot ht =>
      split at heq
      · cases heq; right; left; exact ⟨rfl, rfl⟩
      · next tc dust htr =>
        right; right
        refine ⟨p, tot, tc, dust, ?_⟩
        split at heq
        · next hz => cases heq; refine ⟨rfl, rfl, hp, ht, htr, ?_⟩; rw [if_pos hz]; rfl
        · next hz => cases heq; refine ⟨rfl, rfl, hp, ht, htr, ?_⟩; rw [if_neg hz]; rfl

theorem applyH_cases {st : Store} {op : Op} {c : Content} (hm : ∀ a, op ≠ .make a)
    (hc : alookup st.accs op.acc = some c) (hs : hasSep op.acc = false) :
    ∀ s' h' r, applyH st (fresh op.acc c) op = (s', h', r) →
      (r = .err ∧ s' = st) ∨ r = .panic ∨ (r = .ok () ∧ Succ st op s') := by
  intro s' h' r heq
  cases op with
  | make a => exact absurd rfl (hm a)
  | grow a g =>
    simp only [Op.acc] at hc hs
    simp only [applyH, Op.acc, addToAccumulator] at heq
    split at heq
    · cases heq; right; left; rfl
    · next v hv =>
      cases heq; right; right
      refine ⟨rfl, ?_⟩
      simp only [setAccumulator, fresh, hs]
      exact Succ.grow hc hv
  | newPos a pos sh iv opt =>
    simp only [Op.acc] at hc hs
    simp only [applyH, Op.acc, newPositionInterval] at heq
    have hc' : alookup (st.setPos a pos ⟨sh, ivOr iv (fresh a c), [], opt⟩).accs a = some c := hc
    dsimp only [fresh] at heq hc'
    rw [finishShares_fresh hc' hs] at heq
    split at heq
    · cases heq; right; left; rfl
    · cases heq; right; right; exact ⟨rfl, Succ.newPos hc⟩
  | addPos a pos n iv =>
    simp only [Op.acc] at hc hs
    exact add_cases hc hs (op := .addPos a pos n iv) rfl s' h' r heq
  | remPos a pos n iv =>
    simp only [Op.acc] at hc hs
    exact rem_cases hc hs (op := .remPos a pos n iv) rfl s' h' r heq
  | updPos a pos n iv =>
    simp only [Op.acc] at hc hs
    simp only [applyH, Op.acc, updatePositionInterval] at heq
    split at heq
    · cases heq; left; exact ⟨rfl, rfl⟩
    · split at heq
      · exact rem_cases hc hs (op := .updPos a pos n iv) (n := -n) (by simp [settleOf]) s' h' r heq
      · exact add_cases hc hs (op := .updPos a pos n iv) rfl s' h' r heq
  | setInt a pos iv =>
    simp only [Op.acc] at hc hs
    simp only [applyH, Op.acc, setPositionInterval] at heq
    split at heq
    · cases heq; left; exact ⟨rfl, rfl⟩
    · next p hp => cases heq; right; right; exact ⟨rfl, Succ.setInt hc hp⟩
  | addUnclaimed a pos amt =>
    simp only [Op.acc] at hc hs
    simp only [applyH, Op.acc, addToUnclaimedRewards] at heq
    split at heq
    · cases heq; left; exact ⟨rfl, rfl⟩
    · next p hp =>
      split at heq
      · cases heq; left; exact ⟨rfl, rfl⟩
      · split at heq
        · cases heq; right; left; rfl
        · next u hu => cases heq; right; right; exact ⟨rfl, Succ.addUnclaimed hc hp hu⟩
  | claim a pos =>
    simp only [Op.acc] at hc hs
    simp only [applyH, Op.acc] at heq
    cases hcl : claimRewards st (fresh a c) pos with
    | mk s1 rest =>
      obtain ⟨h1, r1⟩ := rest
      rw [hcl] at heq
      cases heq
      rcases claim_cases hc pos _ _ _ hcl with ⟨rfl, rfl, _⟩ | ⟨rfl, _⟩ | ⟨p, tot, tc, dust, rfl, _, hp, ht, htr, rfl⟩
      · left; exact ⟨rfl, rfl⟩
      · right; left; rfl
      · right; right; exact ⟨rfl, Succ.claim hc hp ht htr⟩
  | delete a pos =>
    simp only [Op.acc] at hc hs
    simp only [applyH, Op.acc] at heq
    cases hdl : deletePosition st (fresh a c) pos with
    | mk s1 rest =>
      obtain ⟨h1, r1⟩ := rest
      rw [hdl] at heq
      cases heq
      unfold deletePosition at hdl
      split at hdl
      · cases hdl; left; exact ⟨rfl, rfl⟩
      · next p hp =>
        have hp : st.getPos a pos = some p := hp
        cases hcl : claimRewards st (fresh a c) pos with
        | mk s2 rest2 =>
          obtain ⟨h2, r2⟩ := rest2
          rcases claim_cases hc pos _ _ _ hcl with ⟨rfl, rfl, hnone⟩ | ⟨rfl, rfl⟩ | ⟨p', tot, tc, dust, rfl, rfl, hp', ht, htr, rfl⟩
          · rw [hp] at hnone; cases hnone
          · rw [hcl] at hdl; simp only at hdl; cases hdl; right; left; rfl
          · rw [hp] at hp'; cases hp'
            rw [hcl] at hdl
            simp only [fresh] at hdl
            split at hdl
            · cases hdl; right; left; rfl
            · simp only [setAccumulator, hs, Bool.false_eq_true, if_false] at hdl
              split at hdl
              · cases hdl; right; left; rfl
              · cases hdl; right; right
                exact ⟨rfl, Succ.delete hc hp ht htr⟩

theorem stepFresh_of {st : Store} {op : Op} (hm : ∀ a, op ≠ .make a) :
    stepFresh st op = match getAccumulator st op.acc with
      | none => (st, .err)
      | some h => ((applyH st h op).1, (applyH st h op).2.2) := by
  cases op <;> first | exact absurd rfl (hm _) | rfl

theorem step_cases {st : Store} (hN : NoSep st) (op : Op) : Outcome st op := by
  by_cases hm : ∀ a, op ≠ .make a
  · unfold Outcome stepTx
    rw [stepFresh_of hm]
    unfold getAccumulator
    cases hc : alookup st.accs op.acc with
    | none => left; simp
    | some c =>
      simp only [Option.map_some]
      have hs := hN _ _ hc
      cases happ : applyH st ⟨op.acc, c.value, c.total⟩ op with
      | mk s' rest =>
        obtain ⟨h', r⟩ := rest
        rcases applyH_cases hm hc hs s' h' r happ with ⟨rfl, rfl⟩ | rfl | ⟨rfl, hsucc⟩
        · left; simp
        · left; simp
        · right; exact ⟨rfl, hsucc⟩
  · have : ∃ a, op = .make a := by
      rcases Classical.not_forall.mp hm with ⟨a, ha⟩
      exact ⟨a, Classical.not_not.mp ha⟩
    obtain ⟨a, rfl⟩ := this
    unfold Outcome stepTx
    simp only [stepFresh, makeAccumulator]
    cases hl : alookup st.accs a with
    | some c => left; simp
    | none =>
      simp only [Option.isSome_none, Bool.false_eq_true, if_false, setAccumulator]
      cases hsep : hasSep a with
      | true => left; simp
      | false => right; simp; exact Succ.make hl hsep

end OsmoVerif.Accum
