/-
C08 helpers, part 6: histories.  `FullInv` (C07's pool invariant + the accumulator-side invariant) holds initially and
is preserved by every message; along any history the growth inside the range of a surviving position is its value
at the start plus the growth events that happened while the current tick was in range (`run_inside`).  Core only.
-/
import OsmoVerif.Proofs.CLFeesInv

namespace OsmoVerif.CLFeesP
open OsmoVerif.CLPool OsmoVerif.CL OsmoVerif.CLBook OsmoVerif.Num OsmoVerif.CLFees OsmoVerif.CLRewards OsmoVerif.Gen

structure FullInv (f : Fees) : Prop where
  pool : Inv f.pool
  spf : SpfOK f.pool.spf
  acc : AccInv f

/-- the growth events of one message in state `f`: a swap's loop iterations; for the other messages the single
(possibly zero) accumulator increase at the current tick (forfeited claim dust going back into the accumulator). -/
def opEvents (f : Fees) (op : FOp) : List Ev :=
  match op with
  | .swap og zfo spec => swapEvents f og zfo spec
  | _ => [(f.pool.tick, vsub (stepF f op).acc.global f.acc.global)]

def histEvents (f : Fees) : List FOp → List Ev
  | [] => []
  | op :: ops => opEvents f op ++ histEvents (stepF f op) ops

theorem StepFacts.refl {f : Fees} (hi : InvCore f.pool) (ha : AccInv f) : StepFacts f f [(f.pool.tick, vsub f.acc.global f.acc.global)] := by
  refine ⟨ha, Nat.le_refl _, fun q' hq' => Or.inl ⟨q', hq', rfl, rfl, rfl⟩, fun q hq q' _ _ s => ?_⟩
  rw [evSum_single, get_vsub]; split <;> omega

theorem evSum_zero_of {s : Bool} {l u t : Int} {g : V2} (h : get s g = 0) : evSum s l u [(t, g)] = 0 := by
  rw [evSum_single, h]; split <;> rfl

/-- events with the same in-range sums can be exchanged. -/
theorem StepFacts.congr {f f' : Fees} {e1 e2 : List Ev} (h : StepFacts f f' e1)
    (he : ∀ s l u, evSum s l u e2 = evSum s l u e1) : StepFacts f f' e2 :=
  ⟨h.acc, h.nextId, h.desc, fun q hq q' hq' hid s => by rw [he]; exact h.inside q hq q' hq' hid s⟩

theorem StepFacts.trans {f f1 f2 : Fees} {e1 e2 : List Ev} (hi : InvCore f.pool) (hi1 : InvCore f1.pool)
    (h1 : StepFacts f f1 e1) (h2 : StepFacts f1 f2 e2) : StepFacts f f2 (e1 ++ e2) := by
  refine ⟨h2.acc, Nat.le_trans h1.nextId h2.nextId, ?_, ?_⟩
  · intro q2 hq2
    rcases h2.desc q2 hq2 with ⟨q1, hq1, a0, a1, a2⟩ | hge
    · rcases h1.desc q1 hq1 with ⟨q, hq, b0, b1, b2⟩ | hge
      · exact Or.inl ⟨q, hq, by rw [b0, a0], by rw [b1, a1], by rw [b2, a2]⟩
      · exact Or.inr (by omega)
    · exact Or.inr (by have := h1.nextId; omega)
  · intro q hq q2 hq2 hid s
    have hlt := hi.pos.idsLt q hq
    rcases h2.desc q2 hq2 with ⟨q1, hq1, a0, a1, a2⟩ | hge
    · have e01 : q1.id = q.id := by rw [a0, hid]
      have hrange : q1.lower = q.lower ∧ q1.upper = q.upper := by
        rcases h1.desc q1 hq1 with ⟨q0, hq0, b0, b1, b2⟩ | hge
        · have : q0 = q := mem_eq_of_id hi.pos.uniq hq0 hq (by rw [b0, e01])
          subst this; exact ⟨b1.symm, b2.symm⟩
        · omega
      have s1 := h1.inside q hq q1 hq1 e01 s
      have s2 := h2.inside q1 hq1 q2 hq2 a0.symm s
      rw [hrange.1, hrange.2] at s2
      rw [s2, s1, evSum_append]; omega
    · have := h1.nextId; omega

/-! ## add-to-position -/

theorem add_facts {f f' : Fees} {owner : String} {id nid : Nat} {add0 add1 x0 x1 : Int}
    (hi : Inv f.pool) (hspf : SpfOK f.pool.spf) (ha : AccInv f)
    (h : CLFees.addToPosition f owner id add0 add1 = some (f', nid, x0, x1)) :
    StepFacts f f' [(f.pool.tick, vsub f'.acc.global f.acc.global)] := by
  obtain ⟨pos, f1, w0, w1, liq, lo, up, hfind, hown, hneg, hz, hw, hne, hc⟩ := add_spec h
  have hap : applyF f (.withdraw owner id pos.liq) = some f1 := by simp only [applyF, hw, Option.map_some]
  obtain ⟨hi1, _, _⟩ := applyF_inv hi hspf hap
  obtain ⟨sf1, _, _⟩ := withdraw_facts hi.core ha hw
  obtain ⟨sf2, _, _, _, eg, _⟩ := createMin_facts hi1.core sf1.acc hc
  have := StepFacts.trans hi.core hi1.core sf1 sf2
  rw [List.append_nil, ← eg] at this
  exact this

/-! ## every message -/

theorem apply_facts {f f' : Fees} {op : FOp} (hf : FullInv f) (h : applyF f op = some f') :
    FullInv f' ∧ StepFacts f f' (opEvents f op) := by
  obtain ⟨hi', espf, _⟩ := applyF_inv hf.pool hf.spf h
  have hstep : stepF f op = f' := by unfold stepF; rw [h]
  have mk : ∀ {evs}, StepFacts f f' evs → FullInv f' ∧ StepFacts f f' evs :=
    fun sf => ⟨⟨hi', by rw [espf]; exact hf.spf, sf.acc⟩, sf⟩
  cases op with
  | create o l u a0 a1 =>
    simp only [applyF, Option.map_eq_some_iff] at h
    obtain ⟨⟨f1, id, x0, x1, liq, lo, up⟩, h, e⟩ := h
    simp only at e; subst e
    obtain ⟨sf, _, _, _, eg, _⟩ := createMin_facts hf.pool.core hf.acc h
    apply mk
    simp only [opEvents, hstep]
    exact sf.congr (fun s l u => by rw [evSum_zero_of (by rw [get_vsub, eg]; omega)]; rfl)
  | withdraw o id liq =>
    simp only [applyF, Option.map_eq_some_iff] at h
    obtain ⟨⟨f1, o0, o1⟩, h, e⟩ := h
    simp only at e; subst e
    obtain ⟨sf, _⟩ := withdraw_facts hf.pool.core hf.acc h
    apply mk
    simp only [opEvents, hstep]
    exact sf
  | add o id a0 a1 =>
    simp only [applyF, Option.map_eq_some_iff] at h
    obtain ⟨⟨f1, nid, x0, x1⟩, h, e⟩ := h
    simp only at e; subst e
    apply mk
    simp only [opEvents, hstep]
    exact add_facts hf.pool hf.spf hf.acc h
  | transfer s id n =>
    obtain ⟨sf, eacc, _⟩ := transfer_facts hf.pool.core hf.acc h
    apply mk
    simp only [opEvents, hstep]
    exact sf.congr (fun s l u => by rw [evSum_zero_of (by rw [get_vsub, eacc]; omega)]; rfl)
  | swap og zfo spec =>
    simp only [applyF, Option.map_eq_some_iff] at h
    obtain ⟨⟨f1, ain, aout, fee⟩, h, e⟩ := h
    simp only at e; subst e
    obtain ⟨sf, _⟩ := swap_facts hf.pool hf.spf hf.acc h
    apply mk
    simp only [opEvents]
    exact sf
  | collect s id =>
    simp only [applyF, Option.map_eq_some_iff] at h
    obtain ⟨⟨f1, c0, c1⟩, h, e⟩ := h
    simp only at e; subst e
    obtain ⟨sf, _⟩ := collect_facts hf.pool.core hf.acc h
    apply mk
    simp only [opEvents, hstep]
    exact sf

theorem evSum_fail (f : Fees) (op : FOp) (h : stepF f op = f) (s : Bool) (l u : Int)
    (hsw : ∀ og zfo spec, op = .swap og zfo spec → evSum s l u (swapEvents f og zfo spec) = 0) :
    evSum s l u (opEvents f op) = 0 := by
  cases op with
  | swap og zfo spec => exact hsw og zfo spec rfl
  | create o l' u' a0 a1 => simp only [opEvents, h]; exact evSum_zero_of (by rw [get_vsub]; omega)
  | withdraw o id liq => simp only [opEvents, h]; exact evSum_zero_of (by rw [get_vsub]; omega)
  | add o id a0 a1 => simp only [opEvents, h]; exact evSum_zero_of (by rw [get_vsub]; omega)
  | transfer s' id n => simp only [opEvents, h]; exact evSum_zero_of (by rw [get_vsub]; omega)
  | collect s' id => simp only [opEvents, h]; exact evSum_zero_of (by rw [get_vsub]; omega)

theorem step_full {f : Fees} (op : FOp) (hf : FullInv f) : FullInv (stepF f op) := by
  rcases stepF_cases f op with h | ⟨f', h, e⟩
  · rw [h]; exact hf
  · rw [e]; exact (apply_facts hf h).1

theorem run_full {f : Fees} (ops : List FOp) (hf : FullInv f) : FullInv (runF f ops) := by
  induction ops generalizing f with
  | nil => exact hf
  | cons op ops ih => exact ih (step_full op hf)

/-- the events of a message that SUCCEEDED (a failed message changes nothing and credits nothing). -/
def effEvents (f : Fees) (op : FOp) : List Ev :=
  match applyF f op with
  | some _ => opEvents f op
  | none => []

def effHist (f : Fees) : List FOp → List Ev
  | [] => []
  | op :: ops => effEvents f op ++ effHist (stepF f op) ops

theorem step_facts {f : Fees} (op : FOp) (hf : FullInv f) :
    ∃ evs, StepFacts f (stepF f op) evs ∧ ∀ s l u, evSum s l u evs = evSum s l u (effEvents f op) := by
  unfold effEvents
  cases h : applyF f op with
  | none =>
    have : stepF f op = f := by unfold stepF; rw [h]
    rw [this]
    exact ⟨_, StepFacts.refl hf.pool.core hf.acc, fun s l u => by
      simp only; rw [evSum_zero_of (by rw [get_vsub]; omega)]; rfl⟩
  | some f' =>
    have : stepF f op = f' := by unfold stepF; rw [h]
    rw [this]
    exact ⟨_, (apply_facts hf h).2, fun _ _ _ => rfl⟩

/-- positions of a later state descend from positions of the earlier one or are new. -/
theorem run_desc {f : Fees} (ops : List FOp) (hf : FullInv f) :
    f.pool.nextId ≤ (runF f ops).pool.nextId ∧
    ∀ q' ∈ (runF f ops).pool.positions,
      (∃ q ∈ f.pool.positions, q.id = q'.id ∧ q.lower = q'.lower ∧ q.upper = q'.upper) ∨ f.pool.nextId ≤ q'.id := by
  induction ops generalizing f with
  | nil => exact ⟨Nat.le_refl _, fun q' hq' => Or.inl ⟨q', hq', rfl, rfl, rfl⟩⟩
  | cons op ops ih =>
    obtain ⟨evs, sf, _⟩ := step_facts op hf
    obtain ⟨n1, d1⟩ := ih (step_full op hf)
    refine ⟨Nat.le_trans sf.nextId n1, fun q' hq' => ?_⟩
    rcases d1 q' hq' with ⟨q1, hq1, a0, a1, a2⟩ | hge
    · rcases sf.desc q1 hq1 with ⟨q, hq, b0, b1, b2⟩ | hge
      · exact Or.inl ⟨q, hq, by rw [b0, a0], by rw [b1, a1], by rw [b2, a2]⟩
      · exact Or.inr (by omega)
    · exact Or.inr (by have := sf.nextId; omega)

/-- **growth inside over a history**: for a position that exists at the start and (under the same id) at the end,
growth inside its range at the end = growth inside at the start + the growth events of the successful messages
in between that happened while the current tick was inside the range. -/
theorem run_inside {f : Fees} (ops : List FOp) (hf : FullInv f) :
    ∀ q ∈ f.pool.positions, ∀ q' ∈ (runF f ops).pool.positions, q'.id = q.id →
      q'.lower = q.lower ∧ q'.upper = q.upper ∧
      ∀ s, get s (insideF (runF f ops) q.lower q.upper) = get s (insideF f q.lower q.upper) + evSum s q.lower q.upper (effHist f ops) := by
  induction ops generalizing f with
  | nil =>
    intro q hq q' hq' hid
    have : q' = q := mem_eq_of_id hf.pool.core.pos.uniq hq' hq hid
    subst this
    exact ⟨rfl, rfl, fun s => by simp [runF, effHist, evSum]⟩
  | cons op ops ih =>
    intro q hq q' hq' hid
    obtain ⟨evs, sf, hev⟩ := step_facts op hf
    have hf1 := step_full op hf
    have hlt := hf.pool.core.pos.idsLt q hq
    -- the position also exists in the intermediate state
    obtain ⟨_, d1⟩ := run_desc ops hf1
    rcases d1 q' hq' with ⟨q1, hq1, a0, a1, a2⟩ | hge
    · have e1 : q1.id = q.id := by rw [a0, hid]
      have hrange : q1.lower = q.lower ∧ q1.upper = q.upper := by
        rcases sf.desc q1 hq1 with ⟨q0, hq0, b0, b1, b2⟩ | hge
        · have : q0 = q := mem_eq_of_id hf.pool.core.pos.uniq hq0 hq (by rw [b0, e1])
          subst this; exact ⟨b1.symm, b2.symm⟩
        · omega
      obtain ⟨r1, r2, r3⟩ := ih hf1 q1 hq1 q' hq' a0.symm
      rw [hrange.1] at r1; rw [hrange.2] at r2
      refine ⟨r1, r2, fun s => ?_⟩
      have s1 := sf.inside q hq q1 hq1 e1 s
      have s2 := r3 s
      rw [hrange.1, hrange.2] at s2
      show get s (insideF (runF (stepF f op) ops) q.lower q.upper) = _
      rw [s2, s1, hev]
      simp only [effHist, evSum_append]; omega
    · have := sf.nextId; omega

/-! ## records of positions a message does not address -/

/-- the message addresses position `x` (withdraws from it, adds to it, or collects its rewards). -/
def touches (op : FOp) (x : Nat) : Prop :=
  match op with
  | .withdraw _ id _ => id = x
  | .add _ id _ _ => id = x
  | .collect _ id => id = x
  | _ => False

theorem step_rec_frame {f : Fees} (op : FOp) (hf : FullInv f) {x : Nat} (hx : (getRec f.acc.recs x).isSome)
    (ht : ¬ touches op x) : getRec (stepF f op).acc.recs x = getRec f.acc.recs x := by
  rcases stepF_cases f op with h | ⟨f', h, e⟩
  · rw [h]
  · rw [e]
    have hlt := hf.acc.recIds x hx
    cases op with
    | create o l u a0 a1 =>
      simp only [applyF, Option.map_eq_some_iff] at h
      obtain ⟨⟨f1, id, x0, x1, liq, lo, up⟩, h, e⟩ := h
      simp only at e; subst e
      obtain ⟨_, eid, _, fr, _⟩ := createMin_facts hf.pool.core hf.acc h
      exact fr x (by omega)
    | withdraw o id liq =>
      simp only [applyF, Option.map_eq_some_iff] at h
      obtain ⟨⟨f1, o0, o1⟩, h, e⟩ := h
      simp only at e; subst e
      obtain ⟨_, fr, _⟩ := withdraw_facts hf.pool.core hf.acc h
      exact fr x (fun e => ht (by show id = x; exact e.symm))
    | add o id a0 a1 =>
      simp only [applyF, Option.map_eq_some_iff] at h
      obtain ⟨⟨f2, nid, x0, x1⟩, h, e⟩ := h
      simp only at e; subst e
      obtain ⟨pos, f1, w0, w1, liq, lo, up, hfind, hown, hneg, hz, hw, hne, hc⟩ := add_spec h
      have hap : applyF f (.withdraw o id pos.liq) = some f1 := by simp only [applyF, hw, Option.map_some]
      obtain ⟨hi1, _, _⟩ := applyF_inv hf.pool hf.spf hap
      obtain ⟨sf1, fr1, _⟩ := withdraw_facts hf.pool.core hf.acc hw
      obtain ⟨_, eid, _, fr2, _⟩ := createMin_facts hi1.core sf1.acc hc
      have h1 := fr1 x (fun e => ht (by show id = x; exact e.symm))
      have hlt1 := sf1.acc.recIds x (by rw [h1]; exact hx)
      rw [fr2 x (by omega), h1]
    | transfer s id n =>
      obtain ⟨_, eacc, _⟩ := transfer_facts hf.pool.core hf.acc h
      rw [eacc]
    | swap og zfo spec =>
      simp only [applyF, Option.map_eq_some_iff] at h
      obtain ⟨⟨f1, ain, aout, fee⟩, h, e⟩ := h
      simp only at e; subst e
      obtain ⟨_, er, _⟩ := swap_facts hf.pool hf.spf hf.acc h
      rw [er]
    | collect s id =>
      simp only [applyF, Option.map_eq_some_iff] at h
      obtain ⟨⟨f1, c0, c1⟩, h, e⟩ := h
      simp only at e; subst e
      obtain ⟨_, _, pos, r, total, _, _, _, _, _, _, _, _, fr, _⟩ := collect_facts hf.pool.core hf.acc h
      exact fr x (fun e => ht (by show id = x; exact e.symm))

theorem run_rec_frame {f : Fees} (ops : List FOp) (hf : FullInv f) {x : Nat} (hx : (getRec f.acc.recs x).isSome)
    (ht : ∀ op ∈ ops, ¬ touches op x) : getRec (runF f ops).acc.recs x = getRec f.acc.recs x := by
  induction ops generalizing f with
  | nil => rfl
  | cons op ops ih =>
    have h1 := step_rec_frame op hf hx (ht op List.mem_cons_self)
    show getRec (runF (stepF f op) ops).acc.recs x = _
    rw [ih (step_full op hf) (by rw [h1]; exact hx) (fun o ho => ht o (List.mem_cons_of_mem _ ho)), h1]

/-! ## the claimable amount -/

theorem claimable_spec {f : Fees} {id : Nat} {c : Int × Int} (h : CLFees.claimable f id = some c) :
    ∃ (pos : Position) (r : Rec) (total : V2), pos ∈ f.pool.positions ∧ pos.id = id ∧ getRec f.acc.recs id = some r ∧
      (∀ s, get s total = rewardI (get s r.unclaimed) (get s (insideF f pos.lower pos.upper) - get s r.snap) r.shares ∧
        0 ≤ get s (insideF f pos.lower pos.upper) - get s r.snap) ∧
      c = (claimAmt f.pool.scale total.a, claimAmt f.pool.scale total.b) := by
  unfold CLFees.claimable findPos at h
  simp only [Option.bind_eq_some_iff, Option.map_eq_some_iff] at h
  obtain ⟨pos, hfind, ⟨a', c'⟩, hcl, e⟩ := h
  simp only at e; subst e
  obtain ⟨hmem, hid⟩ := find_id hfind
  obtain ⟨r, total, hr, htot, hc, _⟩ := prepareClaim_spec hcl
  exact ⟨pos, r, total, hmem, hid, hr, fun s => ⟨(htot s).1, (htot s).2.1⟩, hc⟩

/-! ## initial state -/

theorem initF_full {spacing spf scale : Int} (hs : 0 < spacing) (hspf : SpfOK spf) : FullInv (initF spacing spf scale) := by
  have hc := initPool_core spacing spf
  have hcore : InvCore (initF spacing spf scale).pool :=
    InvCore.of_eq (tk := []) (ps := []) (sp := spacing) (n := 1) rfl rfl rfl rfl hc.sorted hc.gross hc.net hc.stored hc.pos (fun _ => ⟨rfl, rfl⟩)
  refine ⟨⟨hcore, ⟨hs, fun h => absurd rfl h⟩, ?_⟩, hspf, ⟨?_, ?_, ?_⟩⟩
  · exact initPool_active spacing spf
  · intro q hq; cases hq
  · intro q hq; cases hq
  · intro id h; cases h

end OsmoVerif.CLFeesP
