/- Well-formedness invariant of the sum-tree store and correctness of every query under it. -/
import OsmoVerif.Proofs.SumTreeBasic

namespace OsmoVerif.SumTree
open OsmoVerif.Spec

/-! ### the invariant -/

/-- what a level looks like from above: its node keys with the accumulation of each node -/
def summary (lv : Level) : List Child := lv.map (fun n => (n.1, acc n.2))

/-- a node is non-empty, is stored under the key of its first child, and respects the fan-out -/
def NodeOK (m : Nat) (n : Key × List Child) : Prop :=
  ∃ c rest, n.2 = c :: rest ∧ n.1 = c.1 ∧ n.2.length ≤ m

/-- level `lv` sits correctly on top of a level whose summary is `lower`: the children lists
concatenate to `lower` — same keys in the same order AND every child accumulation equals the
accumulation of the child node (the leaf value at the bottom). -/
def Linked (m : Nat) (lower : List Child) (lv : Level) : Prop :=
  (lv.map (·.2)).flatten = lower ∧ ∀ n ∈ lv, NodeOK m n

/-- levels ascending; the top level has exactly one node -/
def WFup (m : Nat) : List Child → List Level → Prop
  | lower, [] => lower.length = 1
  | lower, lv :: up => Linked m lower lv ∧ WFup m (summary lv) up

/-- sorted keys starting with the empty-key sentinel -/
def Good (l : List Child) : Prop := SortedA l ∧ ∃ v rest, l = ([], v) :: rest

/-- the store invariant -/
structure WF (s : Store) : Prop where
  m2 : 2 ≤ s.m
  good : Good s.leaves
  nonempty : s.levels ≠ []
  up : WFup s.m s.leaves s.levels

/-- abstraction: the sorted map a store represents -/
def abs (s : Store) : SortedMap.SMap := s.leaves

/-- the same chain read downwards (`desc` = levels in descending order above the leaves `L`) -/
def lowerOf (rest : List Level) (L : List Child) : List Child :=
  match rest with
  | [] => L
  | lv :: _ => summary lv

def WFdown (m : Nat) : List Level → List Child → Prop
  | [], _ => True
  | lv :: rest, L => Linked m (lowerOf rest L) lv ∧ WFdown m rest L

theorem lowerOf_append_single (desc : List Level) (lv : Level) (L : List Child) :
    lowerOf (desc ++ [lv]) L = lowerOf desc (summary lv) := by
  cases desc <;> rfl

theorem WFdown_append_single {m : Nat} {lv : Level} {L : List Child} (hl : Linked m L lv) :
    ∀ desc, WFdown m desc (summary lv) → WFdown m (desc ++ [lv]) L := by
  intro desc
  induction desc with
  | nil => intro _; exact ⟨hl, trivial⟩
  | cons d ds ih =>
    intro h
    refine ⟨?_, ih h.2⟩
    have := lowerOf_append_single ds lv L
    show Linked m (lowerOf (ds ++ [lv]) L) d
    rw [this]; exact h.1

theorem WFup_down {m : Nat} : ∀ (levels : List Level) (L : List Child), WFup m L levels →
    WFdown m levels.reverse L ∧ (lowerOf levels.reverse L).length = 1 := by
  intro levels
  induction levels with
  | nil => intro L h; exact ⟨trivial, h⟩
  | cons lv up ih =>
    intro L h
    obtain ⟨h1, h2⟩ := ih (summary lv) h.2
    rw [List.reverse_cons]
    exact ⟨WFdown_append_single h.1 _ h1, by rw [lowerOf_append_single]; exact h2⟩

/-! ### consequences of `Linked` -/

theorem acc_summary (lv : Level) : acc (summary lv) = acc (lv.map (·.2)).flatten := by
  induction lv with
  | nil => rfl
  | cons n rest ih =>
    simp only [summary, List.map_cons, List.flatten_cons, acc, acc_append] at ih ⊢
    rw [ih]

theorem sortedA_sublist {β : Type} {a b : List (Key × β)} (h : a.Sublist b) (hs : SortedA b) : SortedA a :=
  List.Pairwise.sublist h hs

/-- node keys of a linked level, paired with anything, are a sublist of the lower keys -/
theorem keys_sublist {m : Nat} : ∀ (lv : Level) (lower : List Child), Linked m lower lv →
    (lv.map (·.1)).Sublist (lower.map (·.1)) := by
  intro lv
  induction lv with
  | nil => intro lower _; simp
  | cons n rest ih =>
    intro lower h
    obtain ⟨hf, hn⟩ := h
    obtain ⟨c, r, hc, hk, _⟩ := hn n List.mem_cons_self
    have hrest : Linked m (rest.map (·.2)).flatten rest := ⟨rfl, fun x hx => hn x (List.mem_cons_of_mem _ hx)⟩
    have := ih _ hrest
    subst hf
    simp only [List.map_cons, List.flatten_cons, hc, List.cons_append, List.map_append, hk]
    refine List.Sublist.cons_cons _ ?_
    exact List.Sublist.trans this (List.sublist_append_right _ _)

theorem sortedA_iff_keys {β : Type} (l : List (Key × β)) : SortedA l ↔ (l.map (·.1)).Pairwise (· < ·) := by
  simp [SortedA, List.pairwise_map]

theorem good_summary {m : Nat} {lower : List Child} {lv : Level} (hg : Good lower) (hl : Linked m lower lv) :
    Good (summary lv) := by
  constructor
  · rw [sortedA_iff_keys]
    have : (summary lv).map (·.1) = lv.map (·.1) := by simp [summary]
    rw [this]
    exact List.Pairwise.sublist (keys_sublist lv lower hl) ((sortedA_iff_keys lower).mp hg.1)
  · obtain ⟨v, rest, hlow⟩ := hg.2
    obtain ⟨hf, hn⟩ := hl
    cases lv with
    | nil => simp [hlow] at hf
    | cons n ns =>
      obtain ⟨c, r, hc, hk, _⟩ := hn n List.mem_cons_self
      simp only [List.map_cons, List.flatten_cons, hc, List.cons_append, hlow] at hf
      have : c.1 = [] := by
        have := (List.cons.inj hf).1
        rw [this]
      exact ⟨acc n.2, summary ns, by simp [summary, hk, this]⟩

theorem good_lowerOf {m : Nat} {L : List Child} (hg : Good L) : ∀ desc, WFdown m desc L → Good (lowerOf desc L) := by
  intro desc
  induction desc with
  | nil => intro _; exact hg
  | cons lv rest ih => intro h; exact good_summary (ih h.2) h.1

/-! ### the reference sums on sorted lists -/

theorem sumIf_append (p : Key → Bool) (a b : SortedMap.SMap) :
    SortedMap.sumIf p (a ++ b) = SortedMap.sumIf p a + SortedMap.sumIf p b := by
  induction a with
  | nil => simp [SortedMap.sumIf]
  | cons c cs ih => obtain ⟨j, v⟩ := c; simp only [List.cons_append, SortedMap.sumIf, ih]; omega

theorem sumIf_all {p : Key → Bool} {a : List Child} (h : ∀ n ∈ a, p n.1 = true) : SortedMap.sumIf p a = acc a := by
  induction a with
  | nil => rfl
  | cons c cs ih =>
    obtain ⟨j, v⟩ := c
    have := h (j, v) List.mem_cons_self
    simp only at this
    simp only [SortedMap.sumIf, acc, this, if_true, ih (fun n hn => h n (List.mem_cons_of_mem _ hn))]

theorem sumIf_none {p : Key → Bool} {a : List Child} (h : ∀ n ∈ a, p n.1 = false) : SortedMap.sumIf p a = 0 := by
  induction a with
  | nil => rfl
  | cons c cs ih =>
    obtain ⟨j, v⟩ := c
    have := h (j, v) List.mem_cons_self
    simp only at this
    simp [SortedMap.sumIf, this, ih (fun n hn => h n (List.mem_cons_of_mem _ hn))]

theorem find?_eq_get? (l : List Child) (k : Key) : SortedMap.find? l k = get? l k := by
  induction l with
  | nil => rfl
  | cons c cs ih => obtain ⟨j, v⟩ := c; simp only [SortedMap.find?, get?, ih]

/-- the reference split of `A ++ (p,a) :: B` when `A < p ≤ k < B` -/
theorem spec_split_mid {A B : List Child} {p k : Key} {a : Int}
    (hA : ∀ n ∈ A, n.1 < p) (hp : ¬ k < p) (hB : ∀ n ∈ B, k < n.1) :
    SortedMap.split (A ++ (p, a) :: B) k =
      if p = k then (acc A, a, acc B) else (acc A + a, 0, acc B) := by
  have hAk : ∀ n ∈ A, n.1 < k := fun n hn => klt_le_trans (hA n hn) hp
  have e1 : SortedMap.sumIf (fun j => decide (j < k)) A = acc A :=
    sumIf_all (fun n hn => by simpa using hAk n hn)
  have e2 : SortedMap.sumIf (fun j => decide (j < k)) B = 0 :=
    sumIf_none (fun n hn => by simpa using klt_asymm (hB n hn))
  have e3 : SortedMap.sumIf (fun j => decide (k < j)) A = 0 :=
    sumIf_none (fun n hn => by simpa using klt_asymm (hAk n hn))
  have e4 : SortedMap.sumIf (fun j => decide (k < j)) B = acc B :=
    sumIf_all (fun n hn => by simpa using hB n hn)
  have hgetA : get? (A ++ (p, a) :: B) k = get? ((p, a) :: B) k := get?_append_of_lt hAk
  have hgetB : get? B k = none := get?_none_of_forall_ne (fun n hn => (klt_ne (hB n hn)).symm)
  unfold SortedMap.split SortedMap.sumLt SortedMap.sumGt SortedMap.get
  rw [sumIf_append, sumIf_append, find?_eq_get?, hgetA]
  simp only [SortedMap.sumIf, e1, e2, e3, e4, get?]
  by_cases hpk : p = k
  · subst hpk
    simp [klt_irrefl]
  · have hlt : p < k := by
      rcases klt_tri p k with h | h | h
      · exact h
      · exact absurd h hpk
      · exact absurd h hp
    simp [hpk, hlt, hp, hgetB]

/-! ### `accumulationSplit` is correct on every well-formed tree (induction over the levels) -/

theorem accSplit_correct {m : Nat} {L : List Child} (hg : Good L) :
    ∀ (desc : List Level), WFdown m desc L →
    ∀ (A : List Child) (p : Key) (a : Int) (B : List Child) (k : Key),
      lowerOf desc L = A ++ (p, a) :: B → ¬ k < p → (∀ n ∈ B, k < n.1) →
      ∃ l e r, accSplit L desc p k = some (l, e, r) ∧ (l + acc A, e, r + acc B) = SortedMap.split L k := by
  intro desc
  induction desc with
  | nil =>
    intro _ A p a B k hL hp hB
    simp only [lowerOf] at hL
    have hs : SortedA (A ++ (p, a) :: B) := hL ▸ hg.1
    have hA : ∀ n ∈ A, n.1 < p := fun n hn =>
      (List.pairwise_append.mp hs).2.2 n hn (p, a) List.mem_cons_self
    have hget : get? L p = some a := by rw [hL]; exact get?_mid hA
    rw [hL, spec_split_mid hA hp hB]
    simp only [accSplit, ← hL, hget]
    by_cases hpk : p = k
    · subst hpk
      refine ⟨0, a, 0, by simp [klt_irrefl], by simp⟩
    · have hlt : p < k := by
        rcases klt_tri p k with h | h | h
        · exact h
        · exact absurd h hpk
        · exact absurd h hp
      refine ⟨a, 0, 0, by simp [hlt], by simp [hpk]; omega⟩
  | cons lv rest ih =>
    intro hwf A p a B k hsum hp hB
    obtain ⟨hlink, hrest⟩ := hwf
    have hgl : Good (lowerOf rest L) := good_lowerOf hg rest hrest
    have hgs : Good (summary lv) := good_summary hgl hlink
    simp only [lowerOf] at hsum
    -- split the level around the node `p`
    obtain ⟨lvA, lvR, hlv, hA, hR⟩ := List.map_eq_append_iff.mp hsum
    obtain ⟨n, lvB, hlvR, hn, hBs⟩ := List.map_eq_cons_iff.mp hR
    obtain ⟨np, cs⟩ := n
    simp only [Prod.mk.injEq] at hn
    obtain ⟨hnp, hacc⟩ := hn
    subst hnp hlvR hlv
    have hsS : SortedA (A ++ (np, a) :: B) := hsum ▸ hgs.1
    have hAlt : ∀ x ∈ lvA, x.1 < np := by
      intro x hx
      have : (x.1, acc x.2) ∈ A := by rw [← hA]; exact List.mem_map_of_mem hx
      exact (List.pairwise_append.mp hsS).2.2 _ this (np, a) List.mem_cons_self
    have hget : get? (lvA ++ (np, cs) :: lvB) np = some cs := get?_mid hAlt
    -- the lower level is  flat lvA ++ cs ++ flat lvB
    have hflat : lowerOf rest L = (lvA.map (·.2)).flatten ++ (cs ++ (lvB.map (·.2)).flatten) := by
      rw [← hlink.1]; simp
    have hsl : SortedA ((lvA.map (·.2)).flatten ++ (cs ++ (lvB.map (·.2)).flatten)) := hflat ▸ hgl.1
    have hscs : SortedA cs := (List.pairwise_append.mp (List.pairwise_append.mp hsl).2.1).1
    obtain ⟨c0, r0, hc0, hk0, _⟩ := hlink.2 (np, cs) (by simp)
    simp only at hc0 hk0
    obtain ⟨hnz, ch, hch, hchle, hdrop⟩ := find_pick cs c0 r0 hc0 hscs (hk0 ▸ hp)
    -- everything in flat lvB is > k
    have hBgt : ∀ x ∈ (lvB.map (·.2)).flatten, k < x.1 := by
      intro x hx
      cases lvB with
      | nil => simp at hx
      | cons nb lvB' =>
        obtain ⟨cb, rb, hcb, hkb, _⟩ := hlink.2 nb (by simp)
        have hkb' : k < cb.1 := by
          have : (nb.1, acc nb.2) ∈ B := by rw [← hBs]; simp
          exact hkb ▸ hB _ this
        have hsB : SortedA ((List.map (·.2) (nb :: lvB')).flatten) :=
          (List.pairwise_append.mp (List.pairwise_append.mp hsl).2.1).2.1
        simp only [List.map_cons, List.flatten_cons, hcb, List.cons_append] at hsB hx
        rcases List.mem_cons.mp hx with hx | hx
        · exact hx ▸ hkb'
        · exact klt_trans hkb' ((List.pairwise_cons.mp hsB).1 x hx)
    -- decomposition of cs around the picked child
    have hcs : cs = cs.take (pickIdx cs k) ++ ch :: cs.drop (pickIdx cs k + 1) := by
      have hlt : pickIdx cs k < cs.length := by
        rcases Nat.lt_or_ge (pickIdx cs k) cs.length with h | h
        · exact h
        · rw [List.getElem?_eq_none h] at hch; cases hch
      have hget := List.getElem?_eq_some_iff.mp hch
      obtain ⟨h1, h2⟩ := hget
      conv => lhs; rw [← List.take_append_drop (pickIdx cs k) cs]
      rw [List.drop_eq_getElem_cons h1, h2]
    have hlow : lowerOf rest L =
        ((lvA.map (·.2)).flatten ++ cs.take (pickIdx cs k)) ++ (ch.1, ch.2) ::
          (cs.drop (pickIdx cs k + 1) ++ (lvB.map (·.2)).flatten) := by
      rw [hflat]; conv => lhs; rw [hcs]
      simp
    have hB' : ∀ x ∈ cs.drop (pickIdx cs k + 1) ++ (lvB.map (·.2)).flatten, k < x.1 := by
      intro x hx
      rcases List.mem_append.mp hx with hx | hx
      · exact hdrop x hx
      · exact hBgt x hx
    obtain ⟨l, e, r, hrec, hspec⟩ := ih hrest _ ch.1 ch.2 _ k hlow hchle hB'
    refine ⟨l + acc (cs.take (pickIdx cs k)), e, r + acc (cs.drop (pickIdx cs k + 1)), ?_, ?_⟩
    · simp only [accSplit, hget]
      have hnz' : (!(find cs k).2 && decide ((find cs k).1 = 0)) = false := by
        cases hb : (!(find cs k).2 && decide ((find cs k).1 = 0))
        · rfl
        · exact absurd hb hnz
      simp only [hnz', Bool.false_eq_true, if_false]
      have : (if (find cs k).2 = true then (find cs k).1 else (find cs k).1 - 1) = pickIdx cs k := rfl
      rw [this, hch]
      simp only [hrec]
    · rw [← hspec]
      have e1 : acc A = acc (lvA.map (·.2)).flatten := by rw [← hA]; exact acc_summary lvA
      have e2 : acc B = acc (lvB.map (·.2)).flatten := by rw [← hBs]; exact acc_summary lvB
      simp only [acc_append, e1, e2]
      congr 1
      · omega
      · congr 1; omega


/-! ### the public queries -/

theorem splitAcc_correct {s : Store} (h : WF s) (k : Key) :
    splitAcc s k = some (SortedMap.split (abs s) k) := by
  obtain ⟨hd, hlen⟩ := WFup_down s.levels s.leaves h.up
  have hne : s.levels.reverse ≠ [] := by simpa using h.nonempty
  cases hrev : s.levels.reverse with
  | nil => exact absurd hrev hne
  | cons top rest =>
    rw [hrev] at hd hlen
    have hgs : Good (lowerOf (top :: rest) s.leaves) := good_lowerOf h.good _ hd
    simp only [lowerOf] at hlen hgs
    obtain ⟨v, r, hsum⟩ := hgs.2
    have hr : r = [] := by
      rw [hsum] at hlen; simp at hlen; exact hlen
    subst hr
    cases top with
    | nil => simp [summary] at hsum
    | cons n ns =>
      have hns : ns = [] := by
        have := congrArg List.length hsum
        simp [summary] at this; exact this
      subst hns
      obtain ⟨np, cs⟩ := n
      have hnp : np = [] := by
        simp [summary] at hsum; exact hsum.1
      subst hnp
      have hdesc : descLevels s = [([], cs)] :: rest := by
        simp [descLevels, hrev]
      have hroot : rootKey s = some [] := by
        simp [rootKey, hdesc]
      obtain ⟨l, e, r, hacc, hspec⟩ :=
        accSplit_correct h.good _ hd [] [] v [] k (by simpa [lowerOf] using hsum) (knot_lt_nil k)
          (by intro n hn; cases hn)
      simp only [splitAcc, hroot, hdesc, hacc, abs]
      rw [← hspec]; simp [acc]

theorem get_correct (s : Store) (k : Key) : get s k = SortedMap.get (abs s) k := by
  simp only [get, SortedMap.get, abs, find?_eq_get?]; rfl

theorem iterate_correct (s : Store) : iterate s = SortedMap.iterate (abs s) := rfl

theorem sumIf_eq_get {L : List Child} (hs : SortedA L) (k : Key) :
    SortedMap.sumIf (fun j => decide (j = k)) L = SortedMap.get L k := by
  induction L with
  | nil => rfl
  | cons c rest ih =>
    obtain ⟨j, v⟩ := c
    have hs' := List.pairwise_cons.mp hs
    by_cases hj : j = k
    · subst hj
      have : SortedMap.sumIf (fun i => decide (i = j)) rest = 0 :=
        sumIf_none (fun n hn => by simpa using (klt_ne (hs'.1 n hn)).symm)
      simp [SortedMap.sumIf, SortedMap.get, SortedMap.find?, this]
    · have := ih hs'.2
      simp only [SortedMap.get] at this
      simp [SortedMap.sumIf, SortedMap.get, SortedMap.find?, hj, this]

theorem sumIf_tri (L : List Child) (k : Key) :
    SortedMap.sumIf (fun j => decide (¬ j < k)) L =
      SortedMap.sumIf (fun j => decide (j = k)) L + SortedMap.sumIf (fun j => decide (k < j)) L ∧
    SortedMap.sumIf (fun j => decide (¬ k < j)) L =
      SortedMap.sumIf (fun j => decide (j < k)) L + SortedMap.sumIf (fun j => decide (j = k)) L ∧
    SortedMap.sumIf (fun _ => true) L =
      SortedMap.sumIf (fun j => decide (j < k)) L + SortedMap.sumIf (fun j => decide (j = k)) L +
        SortedMap.sumIf (fun j => decide (k < j)) L := by
  induction L with
  | nil => simp [SortedMap.sumIf]
  | cons c rest ih =>
    obtain ⟨j, v⟩ := c
    obtain ⟨i1, i2, i3⟩ := ih
    simp only [SortedMap.sumIf, i1, i2, i3]
    rcases klt_tri j k with h | h | h
    · have h1 : j ≠ k := klt_ne h
      have h2 : ¬ k < j := klt_asymm h
      simp [h, h1, h2]; omega
    · subst h
      simp [klt_irrefl]; omega
    · have h1 : j ≠ k := (klt_ne h).symm
      have h2 : ¬ j < k := klt_asymm h
      simp [h, h1, h2]; omega

theorem sumGe_eq {L : List Child} (hs : SortedA L) (k : Key) :
    SortedMap.sumGe L k = SortedMap.get L k + SortedMap.sumGt L k := by
  unfold SortedMap.sumGe SortedMap.sumGt; rw [(sumIf_tri L k).1, sumIf_eq_get hs]

theorem sumLe_eq {L : List Child} (hs : SortedA L) (k : Key) :
    SortedMap.sumLe L k = SortedMap.sumLt L k + SortedMap.get L k := by
  unfold SortedMap.sumLe SortedMap.sumLt; rw [(sumIf_tri L k).2.1, sumIf_eq_get hs]

theorem total_eq {L : List Child} (hs : SortedA L) (k : Key) :
    SortedMap.total L = SortedMap.sumLt L k + SortedMap.get L k + SortedMap.sumGt L k := by
  unfold SortedMap.total SortedMap.sumLt SortedMap.sumGt; rw [(sumIf_tri L k).2.2, sumIf_eq_get hs]

/-- `SubsetAccumulation(lo, hi)` with both bounds given (non-nil) -/
theorem subset_correct {s : Store} (h : WF s) (lo hi : Key) :
    subset s (Ptr.of lo) (Ptr.of hi) = some (SortedMap.subset (abs s) lo hi) := by
  simp only [subset, Ptr.of, Bool.false_and, Bool.false_eq_true, if_false, splitAcc_correct h,
    SortedMap.split, SortedMap.subset, sumGe_eq h.good.1, abs]

/-- `SubsetAccumulation(nil, hi)` / `PrefixSum(hi)` -/
theorem prefixSum_correct {s : Store} (h : WF s) (k : Ptr) :
    prefixSum s k = some (SortedMap.prefixSum (abs s) k.key) := by
  simp only [prefixSum, subset, Ptr.nil, Bool.true_and, decide_true, if_true, splitAcc_correct h,
    SortedMap.split, SortedMap.prefixSum, sumLe_eq h.good.1, abs]

/-- `SubsetAccumulation(lo, nil)` -/
theorem subset_open_right_correct {s : Store} (h : WF s) (lo : Key) :
    subset s (Ptr.of lo) Ptr.nil = some (SortedMap.sumGe (abs s) lo) := by
  simp only [subset, Ptr.of, Ptr.nil, Bool.false_and, Bool.false_eq_true, if_false, Bool.true_and,
    decide_true, if_true, splitAcc_correct h, SortedMap.split, sumGe_eq h.good.1, abs]

theorem sumLt_nil (L : List Child) : SortedMap.sumLt L [] = 0 :=
  sumIf_none (fun n _ => by simpa using knot_lt_nil n.1)

/-- F3: what `TotalAccumulatedValue` returns as coded: the value stored at the empty key -/
theorem total_correct {s : Store} (h : WF s) :
    total s = some (SortedMap.total (abs s)) := by
  unfold total
  rw [splitAcc_correct h []]
  simp only [Option.map_some, SortedMap.split]
  exact congrArg some (total_eq h.good.1 []).symm

end OsmoVerif.SumTree
