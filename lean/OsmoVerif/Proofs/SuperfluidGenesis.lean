/-
x/superfluid genesis over `Model/SuperfluidGenesis.lean`: on every state satisfying the C11 invariant (connections
point to existing intermediary accounts, live only on existing locks) export → import does not panic and gives the
SAME state, provided the multipliers live on the denominations `< nDenoms` and no two intermediary accounts share a
key (a KV store keyed by address guarantees it; the model's list does not prove it).  Core only.
-/
import OsmoVerif.Proofs.SuperfluidInv
import OsmoVerif.Model.SuperfluidGenesis
namespace OsmoVerif.Superfluid

theorem findAcc_none_iff {l : List (AccKey × Nat)} {k : AccKey} : findAcc l k = none ↔ k ∉ l.map (·.1) := by
  induction l with
  | nil => simp [findAcc]
  | cons hd r ih =>
    obtain ⟨k', g⟩ := hd
    simp only [findAcc, List.map_cons, List.mem_cons, not_or]
    by_cases h : k' = k
    · simp [h]
    · simp only [if_neg h, ih]
      exact ⟨fun hr => ⟨fun e => h e.symm, hr⟩, fun hr => hr.2⟩

theorem setAcc_fresh {l : List (AccKey × Nat)} {a : AccKey × Nat} (h : a.1 ∉ l.map (·.1)) : setAcc l a = l ++ [a] := by
  induction l with
  | nil => rfl
  | cons hd r ih =>
    obtain ⟨k, g⟩ := hd
    simp only [List.map_cons, List.mem_cons, not_or] at h
    simp only [setAcc, if_neg (show ¬ k = a.1 from fun e => h.1 e.symm), ih h.2, List.cons_append]

theorem foldl_setAcc_nodup : ∀ (l pre : List (AccKey × Nat)), ((pre ++ l).map (·.1)).Nodup → l.foldl setAcc pre = pre ++ l
  | [], pre, _ => by simp
  | a :: r, pre, h => by
    have ha : a.1 ∉ pre.map (·.1) := by
      rw [List.map_append, List.map_cons] at h
      intro hm
      exact (List.nodup_append.mp h).2.2 _ hm _ List.mem_cons_self rfl
    rw [List.foldl_cons, setAcc_fresh ha, foldl_setAcc_nodup r (pre ++ [a]) (by simpa [List.append_assoc] using h)]
    simp [List.append_assoc]

theorem foldl_upd_mults (f : Nat → Int) : ∀ (n : Nat) (d : Nat),
    ((List.range n).filterMap fun d => if f d = 0 then none else some (d, f d)).foldl (fun m p => upd m p.1 p.2) (fun _ => 0) d =
      if d < n then f d else 0 := by
  intro n
  induction n with
  | zero => intro d; simp
  | succ n ih =>
    intro d
    rw [List.range_succ, List.filterMap_append, List.foldl_append]
    by_cases hz : f n = 0
    · simp only [List.filterMap_cons, hz, if_true, List.filterMap_nil, List.foldl_nil, ih d]
      by_cases h1 : d < n
      · simp [h1, Nat.lt_succ_of_lt h1]
      · by_cases h2 : d = n
        · subst h2; simp [hz]
        · have : ¬ d < n + 1 := by omega
          simp [h1, this]
    · simp only [List.filterMap_cons, hz, if_false, List.filterMap_nil, List.foldl_cons, List.foldl_nil, upd]
      by_cases h2 : d = n
      · subst h2; simp
      · rw [if_neg h2, ih d]
        by_cases h1 : d < n
        · simp [h1, Nat.lt_succ_of_lt h1]
        · have : ¬ d < n + 1 := by omega
          simp [h1, this]

/-- the connection loop, on entries whose accounts exist: it writes exactly the listed entries. -/
theorem setConns_ok : ∀ (cs : List (Nat × AccKey)) (s : State), (∀ c ∈ cs, (findAcc s.accs c.2).isSome = true) →
    setConns s cs = some { s with conns := cs.foldl (fun m c => upd m c.1 (some c.2)) s.conns }
  | [], s, _ => rfl
  | (id, k) :: r, s, h => by
    have h1 := h (id, k) List.mem_cons_self
    simp only [setConns]
    cases hf : findAcc s.accs k with
    | none => rw [hf] at h1; cases h1
    | some g =>
      simp only
      have ih := setConns_ok r { s with conns := upd s.conns id (some k) } (fun c hc => h c (List.mem_cons_of_mem _ hc))
      rw [ih]
      rfl

theorem foldl_upd_conns (f : Nat → Option AccKey) : ∀ (n : Nat) (id : Nat),
    ((List.range n).filterMap fun i => (f i).map fun k => (i, k)).foldl (fun m c => upd m c.1 (some c.2)) (fun _ => none) id =
      if id < n then f id else none := by
  intro n
  induction n with
  | zero => intro id; simp
  | succ n ih =>
    intro id
    rw [List.range_succ, List.filterMap_append, List.foldl_append]
    cases hf : f n with
    | none =>
      simp only [List.filterMap_cons, hf, Option.map_none, List.filterMap_nil, List.foldl_nil, ih id]
      by_cases h1 : id < n
      · simp [h1, Nat.lt_succ_of_lt h1]
      · by_cases h2 : id = n
        · subst h2; simp [hf]
        · have : ¬ id < n + 1 := by omega
          simp [h1, this]
    | some k =>
      simp only [List.filterMap_cons, hf, Option.map_some, List.filterMap_nil, List.foldl_cons, List.foldl_nil, upd]
      by_cases h2 : id = n
      · subst h2; simp [hf]
      · rw [if_neg h2, ih id]
        by_cases h1 : id < n
        · simp [h1, Nat.lt_succ_of_lt h1]
        · have : ¬ id < n + 1 := by omega
          simp [h1, this]

/-- **export → import of x/superfluid is the identity** (and does not panic). -/
theorem exportImport_eq {s : State} {n : Nat} (hi : Inv s) (hm : ∀ d, n ≤ d → s.mult d = 0)
    (hn : (s.accs.map (·.1)).Nodup) : exportImport n s = some s := by
  unfold exportImport initGenesis exportGenesis freshOf
  simp only
  rw [foldl_setAcc_nodup s.accs [] (by simpa using hn), List.nil_append]
  rw [setConns_ok]
  · congr 1
    have e1 : (((List.range n).filterMap fun d => if s.mult d = 0 then none else some (d, s.mult d)).foldl
        (fun m p => upd m p.1 p.2) (fun _ => 0)) = s.mult := by
      funext d
      rw [foldl_upd_mults s.mult n d]
      split
      · rfl
      · exact (hm d (by omega)).symm
    have e2 : (((List.range (s.lastLockId + 1)).filterMap fun id => (s.conns id).map fun k => (id, k)).foldl
        (fun m c => upd m c.1 (some c.2)) (fun _ => none)) = s.conns := by
      funext id
      rw [foldl_upd_conns s.conns (s.lastLockId + 1) id]
      split
      · rfl
      · have hl := hi.lockOK id
        rw [hi.bound id (Or.inr (by omega))] at hl
        simp only [LockOK] at hl
        exact hl.2.symm
    simp only [e1, e2]
  · intro c hc
    obtain ⟨id, _, e⟩ := List.mem_filterMap.mp hc
    cases hk : s.conns id with
    | none => rw [hk] at e; cases e
    | some k =>
      rw [hk] at e
      simp only [Option.map_some, Option.some.injEq] at e
      subst e
      exact (hi.connAcc id k hk).2

end OsmoVerif.Superfluid
