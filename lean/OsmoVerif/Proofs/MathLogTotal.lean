/-
`LogBase2` returns a value on every positive representable `BigDec` (no fuel exhaustion, no bit-length panic).
-/
import OsmoVerif.Proofs.MathLogMono

namespace OsmoVerif.MathM
open OsmoVerif.Num OsmoVerif.Gen OsmoVerif.Spec

theorem chk_of_abs_le {v : Int} (h : |v| ≤ 5000 * P36) : chk v = some v := by
  apply chk_of_fits
  apply lt_fitsBits
  have : (5000 * P36).natAbs < 2 ^ Osmomath.maxDecBitLen := by decide +kernel
  have h2 : v.natAbs ≤ (5000 * P36).natAbs := by
    have hP := P36_pos
    rcases abs_cases v with ⟨e, _⟩ | ⟨e, _⟩ <;> rw [e] at h <;> omega
  omega

theorem log2NormUp_total : ∀ (f : Nat) (x y : Int), 0 < x → (∃ j, j < f ∧ P36 ≤ x * 2 ^ j) →
    |y| + f * P36 ≤ 2000 * P36 →
    ∃ x' y', log2NormUp f x y = some (x', y') ∧ |y'| ≤ 2000 * P36 := by
  intro f
  induction f with
  | zero => rintro x y _ ⟨j, hj, _⟩; omega
  | succ f ih =>
    intro x y hx ⟨j, hj, hle⟩ hy
    have hP := P36_pos
    unfold log2NormUp
    by_cases hlt : x < P36
    · rw [if_pos hlt]
      have hj0 : j ≠ 0 := by rintro rfl; simp at hle; omega
      obtain ⟨j', rfl⟩ : ∃ j', j = j' + 1 := ⟨j - 1, by omega⟩
      have hy' : |y + -P36| + f * P36 ≤ 2000 * P36 := by
        have := abs_add_le y (-P36)
        rw [abs_neg, abs_of_pos hP] at this
        push_cast at hy; rw [Int.add_mul] at hy; omega
      have hfit : BigDec.add y (-P36) = some (y + -P36) := by
        unfold BigDec.add
        apply chk_of_abs_le
        have : (0 : Int) ≤ f * P36 := Int.mul_nonneg (by omega) (by omega)
        omega
      rw [hfit, Option.bind_some]
      exact ih _ _ (by omega) ⟨j', by omega, by rw [pow_succ] at hle; rw [Int.mul_assoc, Int.mul_comm 2]; exact hle⟩ hy'
    · rw [if_neg hlt]
      refine ⟨x, y, rfl, ?_⟩
      have : (0 : Int) ≤ (f + 1 : Nat) * P36 := Int.mul_nonneg (by omega) (by omega)
      omega

theorem log2NormDown_total : ∀ (f : Nat) (x y : Int), P36 ≤ x → x < P36 * 2 ^ f →
    |y| + f * P36 ≤ 4500 * P36 →
    ∃ x' y', log2NormDown f x y = some (x', y') ∧ |y'| ≤ 4500 * P36 := by
  intro f
  induction f with
  | zero => intro x y h1 h2 _; simp at h2; omega
  | succ f ih =>
    intro x y h1 h2 hy
    have hP := P36_pos
    unfold log2NormDown
    by_cases hge : x ≥ 2 * P36
    · rw [if_pos hge]
      have hy' : |y + P36| + f * P36 ≤ 4500 * P36 := by
        have := abs_add_le y P36
        rw [abs_of_pos hP] at this
        push_cast at hy; rw [Int.add_mul] at hy; omega
      have hfit : BigDec.add y P36 = some (y + P36) := by
        unfold BigDec.add
        apply chk_of_abs_le
        have : (0 : Int) ≤ f * P36 := Int.mul_nonneg (by omega) (by omega)
        omega
      rw [hfit, Option.bind_some]
      refine ih _ _ (by omega) ?_ hy'
      have e : P36 * 2 ^ (f + 1) = 2 * (P36 * 2 ^ f) := by ring
      omega
    · rw [if_neg hge]
      refine ⟨x, y, rfl, ?_⟩
      have : (0 : Int) ≤ (f + 1 : Nat) * P36 := Int.mul_nonneg (by omega) (by omega)
      omega

theorem log2Iter_total : ∀ (f : Nat) (x y b : Int), P36 ≤ x → x < 2 * P36 → 0 ≤ b →
    |y| + 2 * b ≤ 5000 * P36 → ∃ r, log2Iter f x y b = some r := by
  intro f
  induction f with
  | zero => intro x y b _ _ _ _; exact ⟨y, rfl⟩
  | succ f ih =>
    intro x y b h1 h2 hb hy
    have hP := P36_pos
    have hmul : BigDec.mul x x = some (chopRound P36 (x * x)) := by
      unfold BigDec.mul
      have hhe := chopRound_isHalfEven P36 (x * x) P36_pos P36_even
      obtain ⟨a, b', _⟩ := hhe
      have hsq1 : P36 * P36 ≤ x * x := by nlinarith
      have hsq2 : x * x ≤ (2 * P36 - 1) * (2 * P36 - 1) := by nlinarith
      apply chk_of_abs_le
      have l1 : P36 ≤ chopRound P36 (x * x) := by
        by_contra hc
        have : chopRound P36 (x * x) * P36 ≤ (P36 - 1) * P36 := Int.mul_le_mul_of_nonneg_right (by omega) (by omega)
        nlinarith
      have l2 : chopRound P36 (x * x) < 4 * P36 := by
        by_contra hc
        have : (4 * P36) * P36 ≤ chopRound P36 (x * x) * P36 := Int.mul_le_mul_of_nonneg_right (by omega) (by omega)
        nlinarith
      rw [abs_of_nonneg (by omega)]; omega
    obtain ⟨r1, r2⟩ := sq_range h1 h2 hmul
    unfold log2Iter
    rw [hmul]
    simp only [Option.bind_some, bind]
    by_cases hge : chopRound P36 (x * x) ≥ 2 * P36
    · rw [if_pos hge]
      have hfit : BigDec.add y b = some (y + b) := by
        unfold BigDec.add
        apply chk_of_abs_le
        have := abs_add_le y b
        rw [abs_of_nonneg hb] at this
        omega
      rw [hfit]
      refine ih _ _ _ (by omega) (by omega) (by omega) ?_
      have := abs_add_le y b
      rw [abs_of_nonneg hb] at this
      omega
    · rw [if_neg hge]
      exact ih _ _ _ r1 (by omega) (by omega) (by omega)

/-- `LogBase2` is total on positive representable values (`BitLen ≤ 1144`). -/
theorem logBase2_total' {x : Int} (hx : 0 < x) (hfit : x < 2 ^ 1144) : ∃ r, logBase2 x = some r := by
  have hP := P36_pos
  unfold logBase2
  rw [if_neg (by omega)]
  obtain ⟨x1, y1, hu, hy1⟩ := log2NormUp_total 2000 x 0 hx ⟨120, by norm_num, by
    have h1 : P36 ≤ 2 ^ 120 := by decide +kernel
    have : 1 * (2 : Int) ^ 120 ≤ x * 2 ^ 120 := Int.mul_le_mul_of_nonneg_right (by omega) (by positivity)
    omega⟩ (by simp)
  obtain ⟨m, rfl, _, hx1, hm⟩ := log2NormUp_spec _ _ _ _ _ hx hu
  have hx1lt : x * 2 ^ m < P36 * 2 ^ 2000 := by
    have hbig : (2 : Int) ^ 1144 ≤ P36 * 2 ^ 2000 := by decide +kernel
    rcases hm with rfl | hlt
    · simp only [pow_zero, Int.mul_one]; omega
    · have : 2 * P36 ≤ (2 : Int) ^ 1144 := by decide +kernel
      omega
  obtain ⟨x2, y2, hd, hy2⟩ := log2NormDown_total 2000 _ y1 hx1 hx1lt (by push_cast; omega)
  obtain ⟨m', rfl, _, hx2, hx2'⟩ := log2NormDown_spec _ _ _ _ _ hx1 hd
  have hb : (0 : Int) ≤ oneHalf36 := by decide +kernel
  have h2b : 2 * oneHalf36 = P36 := by decide +kernel
  obtain ⟨r, hr⟩ := log2Iter_total Osmomath.maxLog2Iterations _ y2 oneHalf36 hx2 hx2' hb (by omega)
  refine ⟨r, ?_⟩
  simp only [hu, hd, Option.bind_some, bind]
  exact hr

end OsmoVerif.MathM
