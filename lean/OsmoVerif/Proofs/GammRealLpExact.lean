/- Balancer single-asset join / exit: the base and exponent actually used against the EXACT ones, and the conditional
accuracy against the exact formulas `S·(B^W − 1)` (join) and `S·(1 − B^W)/(1 − exitFee)` (exit). -/
import OsmoVerif.Proofs.GammRealShare

namespace OsmoVerif.GammMath
open OsmoVerif.Num OsmoVerif.MathM OsmoVerif.Gen OsmoVerif.Spec

/-- exact `feeRatio`: `1 − (1 − W)·s`. -/
noncomputable def feeRatioExact (W s : ℝ) : ℝ := 1 - (1 - W) * s
/-- exact base of the single-asset join: `(A + amt·feeRatio)/A`, `W = w/W_total` the exact normalized weight. -/
noncomputable def joinBase (A amt w Wt spread : Int) : ℝ :=
  ((A : ℝ) + (amt : ℝ) * feeRatioExact (wRatio w Wt) (dv spread)) / (A : ℝ)
/-- exact base of the single-asset exit: `(A − out/feeRatio)/A`. -/
noncomputable def exitBase (A o w Wt spread : Int) : ℝ :=
  ((A : ℝ) - (o : ℝ) / feeRatioExact (wRatio w Wt) (dv spread)) / (A : ℝ)

/-- `feeRatio` against the exact one: one `Mul` rounding plus the `Quo` rounding of the normalized weight. -/
theorem feeRatio_vs_exact {w Wt nw spread fr : Int} (hnw : Dec.quo (toDec w) (toDec Wt) = some nw)
    (hfr : feeRatio nw spread = some fr) (s0 : 0 ≤ spread) (s1 : spread ≤ P18) :
    |dv fr - feeRatioExact (wRatio w Wt) (dv spread)| ≤ mulErr + quoErr := by
  have h1 := feeRatio_dv_error hfr
  have h2 := wRatio_error hnw
  have hs0 : 0 ≤ dv spread := dv_nonneg s0
  have hs1 : dv spread ≤ 1 := by have := dv_le s1; rwa [dv_P18] at this
  unfold feeRatioExact
  have e : dv fr - (1 - (1 - wRatio w Wt) * dv spread) =
      (dv fr - (1 - (1 - dv nw) * dv spread)) + (dv nw - wRatio w Wt) * dv spread := by ring
  rw [e]
  refine le_trans (abs_add_le _ _) ?_
  have : |(dv nw - wRatio w Wt) * dv spread| ≤ quoErr := by
    rw [abs_mul, abs_of_nonneg hs0]
    calc |dv nw - wRatio w Wt| * dv spread ≤ quoErr * 1 :=
          mul_le_mul h2 hs1 hs0 quoErr_pos.le
      _ = quoErr := mul_one _
  linarith

/-- join: base used against the exact base: `quoErr + (amt/A)·(mulErr + quoErr)`. -/
theorem joinBase_error {p : BalPool} {amt spread : Int} {asset : BalAsset} {nw fr y pw : Int}
    (hc : JoinCall p amt spread asset nw fr y pw) (hA : 0 < asset.amount) (ha : 0 ≤ amt)
    (s0 : 0 ≤ spread) (s1 : spread ≤ P18) :
    |dv y - joinBase asset.amount amt asset.weight p.totalWeight spread| ≤
      quoErr + (amt : ℝ) / (asset.amount : ℝ) * (mulErr + quoErr) := by
  have hA' : (0 : ℝ) < asset.amount := by exact_mod_cast hA
  have ha' : (0 : ℝ) ≤ amt := by exact_mod_cast ha
  obtain ⟨_, he⟩ := Dec_quo_dv_error hc.hy
  rw [dv_add, dv_toDec, dv_int_mul] at he
  have hf := feeRatio_vs_exact hc.hnw hc.hfr s0 s1
  unfold joinBase
  generalize feeRatioExact (wRatio asset.weight p.totalWeight) (dv spread) = F at *
  have e : dv y - ((asset.amount : ℝ) + (amt : ℝ) * F) / (asset.amount : ℝ) =
      (dv y - ((asset.amount : ℝ) + (amt : ℝ) * dv fr) / (asset.amount : ℝ)) +
        (amt : ℝ) / (asset.amount : ℝ) * (dv fr - F) := by field_simp; ring
  rw [e]
  refine le_trans (abs_add_le _ _) ?_
  have : |(amt : ℝ) / (asset.amount : ℝ) * (dv fr - F)| ≤ (amt : ℝ) / (asset.amount : ℝ) * (mulErr + quoErr) := by
    rw [abs_mul, abs_of_nonneg (div_nonneg ha' hA'.le)]
    exact mul_le_mul_of_nonneg_left hf (div_nonneg ha' hA'.le)
  linarith

/-- CONDITIONAL, join against the EXACT formula `S·(B^W − 1)`: bases in `[1, 2]`, exponents in `[0, 1]`, so
`δ = 2·(κ + quoErr)`, `κ = quoErr + (amt/A)·(mulErr + quoErr)`. -/
theorem join_vs_exact {p : BalPool} {amt spread T t : Int} {asset : BalAsset} {nw fr y pw : Int}
    (hc : JoinCall p amt spread asset nw fr y pw) (ht : IsTrunc ((pw - P18) * T) P18 t)
    {ε : ℝ} (hacc : |dv pw - dv y ^ dv nw| ≤ ε)
    (hA : 0 < asset.amount) (ha : 0 ≤ amt) (s0 : 0 ≤ spread) (s1 : spread ≤ P18)
    (hw0 : 0 ≤ asset.weight) (hw1 : asset.weight ≤ p.totalWeight) (hW : 0 < p.totalWeight) (hT : 0 ≤ T)
    (hB2 : joinBase asset.amount amt asset.weight p.totalWeight spread ≤ 2) :
    let X := joinBase asset.amount amt asset.weight p.totalWeight spread ^ wRatio asset.weight p.totalWeight
    let δ := 2 * (quoErr + (amt : ℝ) / (asset.amount : ℝ) * (mulErr + quoErr) + quoErr)
    (T : ℝ) * (X - (ε + δ) - 1) - 1 < t ∧ (t : ℝ) ≤ max ((T : ℝ) * (X + (ε + δ) - 1)) 0 := by
  intro X δ
  have hA' : (0 : ℝ) < asset.amount := by exact_mod_cast hA
  have ha' : (0 : ℝ) ≤ amt := by exact_mod_cast ha
  have hW' : (0 : ℝ) < p.totalWeight := by exact_mod_cast hW
  have hw0' : (0 : ℝ) ≤ asset.weight := by exact_mod_cast hw0
  have hw1' : (asset.weight : ℝ) ≤ p.totalWeight := by exact_mod_cast hw1
  have hWd : 0 < toDec p.totalWeight := Int.mul_pos hW P18_pos
  have hnw0 : 0 ≤ nw := Dec_quo_nonneg hc.hnw (Int.mul_nonneg hw0 (Int.le_of_lt P18_pos)) hWd
  have hnw1 : nw ≤ P18 := Dec_quo_le_one hc.hnw (Int.mul_le_mul_of_nonneg_right hw1 (Int.le_of_lt P18_pos)) hWd
  obtain ⟨hf0, hf1⟩ := feeRatio_range hc.hfr hnw0 hnw1 s0 s1
  obtain ⟨hy1, _⟩ := join_base_le_ratio hc.hy hA ha hf0 hf1
  obtain ⟨_, hy2⟩ := pow_base_dv hc.hpw
  have hE0 : 0 ≤ wRatio asset.weight p.totalWeight := by unfold wRatio; positivity
  have hE1 : wRatio asset.weight p.totalWeight ≤ 1 := by unfold wRatio; rw [div_le_one hW']; exact hw1'
  have he1 : dv nw ≤ 1 := by have := dv_le hnw1; rwa [dv_P18] at this
  have hs0 : 0 ≤ dv spread := dv_nonneg s0
  have hs1 : dv spread ≤ 1 := by have := dv_le s1; rwa [dv_P18] at this
  have hF0 : 0 ≤ feeRatioExact (wRatio asset.weight p.totalWeight) (dv spread) := by
    unfold feeRatioExact
    have : (1 - wRatio asset.weight p.totalWeight) * dv spread ≤ 1 * 1 :=
      mul_le_mul (by linarith) hs1 hs0 (by norm_num)
    linarith
  have hB1 : 1 ≤ joinBase asset.amount amt asset.weight p.totalWeight spread := by
    unfold joinBase
    rw [le_div_iff₀ hA']
    have := mul_nonneg ha' hF0
    linarith
  have hδ := rpow_perturb (β := 1) (M := 1) one_pos le_rfl hy1 hB1 hy2.le hB2 (dv_nonneg hnw0) hE0 he1 hE1
    (joinBase_error hc hA ha s0 s1) (wRatio_error hc.hnw)
  have hδ' : |dv y ^ dv nw - X| ≤ δ := by
    refine le_trans hδ (le_of_eq ?_)
    simp only [δ, Real.rpow_one]; ring
  exact trunc_of_pow_accuracy ht hT (accuracy_transfer hacc hδ')

/-- exit: base used against the exact base, for `feeRatio` values at least `φ > 0`:
`quoErr + (quoErr + out·(mulErr + quoErr)/φ²)/A`. -/
theorem exitBase_error {p : BalPool} {denom : String} {amtOut : Int} {a : BalAsset} {nw fr outFee y pw x : Int}
    (hc : ExitCall p denom amtOut a nw fr outFee y pw x) (hA : 0 < a.amount) (ho : 0 ≤ amtOut)
    (s0 : 0 ≤ p.swapFee) (s1 : p.swapFee ≤ P18) {φ : ℝ} (hφ : 0 < φ) (hφ1 : φ ≤ dv fr)
    (hφ2 : φ ≤ feeRatioExact (wRatio a.weight p.totalWeight) (dv p.swapFee)) :
    |dv y - exitBase a.amount amtOut a.weight p.totalWeight p.swapFee| ≤
      quoErr + (quoErr + (amtOut : ℝ) * (mulErr + quoErr) / (φ * φ)) / (a.amount : ℝ) := by
  have hA' : (0 : ℝ) < a.amount := by exact_mod_cast hA
  have ho' : (0 : ℝ) ≤ amtOut := by exact_mod_cast ho
  obtain ⟨_, he⟩ := Dec_quo_dv_error hc.hy
  obtain ⟨_, hf⟩ := Dec_quo_dv_error hc.hof
  rw [dv_sub, dv_toDec] at he
  rw [dv_toDec] at hf
  have hfe := feeRatio_vs_exact hc.hnw hc.hfr s0 s1
  unfold exitBase
  generalize feeRatioExact (wRatio a.weight p.totalWeight) (dv p.swapFee) = F at *
  have hF0 : 0 < F := lt_of_lt_of_le hφ hφ2
  have hf0 : 0 < dv fr := lt_of_lt_of_le hφ hφ1
  -- out/fr against out/F
  have h3 : |(amtOut : ℝ) / dv fr - (amtOut : ℝ) / F| ≤ (amtOut : ℝ) * (mulErr + quoErr) / (φ * φ) := by
    have e : (amtOut : ℝ) / dv fr - (amtOut : ℝ) / F = (amtOut : ℝ) * (F - dv fr) / (dv fr * F) := by
      field_simp
    rw [e, abs_div, abs_mul, abs_of_nonneg ho', abs_of_pos (mul_pos hf0 hF0), abs_sub_comm]
    have hden : φ * φ ≤ dv fr * F := mul_le_mul hφ1 hφ2 hφ.le hf0.le
    calc (amtOut : ℝ) * |dv fr - F| / (dv fr * F) ≤ (amtOut : ℝ) * (mulErr + quoErr) / (dv fr * F) :=
          div_le_div_of_nonneg_right (mul_le_mul_of_nonneg_left hfe ho') (mul_pos hf0 hF0).le
      _ ≤ (amtOut : ℝ) * (mulErr + quoErr) / (φ * φ) :=
          div_le_div_of_nonneg_left (mul_nonneg ho' (by have := mulErr_pos; have := quoErr_pos; linarith))
            (mul_pos hφ hφ) hden
  have h4 : |dv outFee - (amtOut : ℝ) / F| ≤ quoErr + (amtOut : ℝ) * (mulErr + quoErr) / (φ * φ) :=
    accuracy_transfer hf h3
  have e : dv y - ((a.amount : ℝ) - (amtOut : ℝ) / F) / (a.amount : ℝ) =
      (dv y - ((a.amount : ℝ) - dv outFee) / (a.amount : ℝ)) - (dv outFee - (amtOut : ℝ) / F) / (a.amount : ℝ) := by
    field_simp; ring
  rw [e]
  refine le_trans (abs_sub _ _) ?_
  rw [abs_div, abs_of_pos hA']
  have := div_le_div_of_nonneg_right h4 hA'.le
  linarith

/-- CONDITIONAL, exit against the EXACT formula `S·(1 − B^W)/(1 − exitFee)`: bases in `[β, 1]`, exponents in `[0, 1]`,
`δ = 2·(κ + quoErr)/β`, `κ` the bound of `exitBase_error`. -/
theorem exit_vs_exact {p : BalPool} {denom : String} {amtOut s : Int} {a : BalAsset} {nw fr outFee y pw x : Int}
    (hc : ExitCall p denom amtOut a nw fr outFee y pw x) (hs : s = ⌊dv x⌋)
    (hx : |dv x - (1 - dv pw) * (p.totalShares : ℝ) / (1 - dv p.exitFee)| ≤ quoErr)
    {ε β φ : ℝ} (hacc : |dv pw - dv y ^ dv nw| ≤ ε)
    (hA : 0 < a.amount) (ho : 0 ≤ amtOut) (s0 : 0 ≤ p.swapFee) (s1 : p.swapFee ≤ P18) (he1 : p.exitFee < P18)
    (hw0 : 0 ≤ a.weight) (hw1 : a.weight ≤ p.totalWeight) (hW : 0 < p.totalWeight) (hS : 0 ≤ p.totalShares)
    (hφ : 0 < φ) (hφ1 : φ ≤ dv fr) (hφ2 : φ ≤ feeRatioExact (wRatio a.weight p.totalWeight) (dv p.swapFee))
    (hβ : 0 < β) (hβ1 : β ≤ 1) (hβy : β ≤ dv y) (hβB : β ≤ exitBase a.amount amtOut a.weight p.totalWeight p.swapFee) :
    let X := exitBase a.amount amtOut a.weight p.totalWeight p.swapFee ^ wRatio a.weight p.totalWeight
    let δ := 2 * (quoErr + (quoErr + (amtOut : ℝ) * (mulErr + quoErr) / (φ * φ)) / (a.amount : ℝ) + quoErr) / β
    (1 - X - (ε + δ)) * (p.totalShares : ℝ) / (1 - dv p.exitFee) - quoErr - 1 < s ∧
      (s : ℝ) ≤ (1 - X + (ε + δ)) * (p.totalShares : ℝ) / (1 - dv p.exitFee) + quoErr := by
  intro X δ
  have hA' : (0 : ℝ) < a.amount := by exact_mod_cast hA
  have ho' : (0 : ℝ) ≤ amtOut := by exact_mod_cast ho
  have hW' : (0 : ℝ) < p.totalWeight := by exact_mod_cast hW
  have hw0' : (0 : ℝ) ≤ a.weight := by exact_mod_cast hw0
  have hw1' : (a.weight : ℝ) ≤ p.totalWeight := by exact_mod_cast hw1
  have hWd : 0 < toDec p.totalWeight := Int.mul_pos hW P18_pos
  have hnw0 : 0 ≤ nw := Dec_quo_nonneg hc.hnw (Int.mul_nonneg hw0 (Int.le_of_lt P18_pos)) hWd
  have hnw1 : nw ≤ P18 := Dec_quo_le_one hc.hnw (Int.mul_le_mul_of_nonneg_right hw1 (Int.le_of_lt P18_pos)) hWd
  obtain ⟨_, hy2⟩ := pow_base_dv hc.hpw
  have hE0 : 0 ≤ wRatio a.weight p.totalWeight := by unfold wRatio; positivity
  have hE1 : wRatio a.weight p.totalWeight ≤ 1 := by unfold wRatio; rw [div_le_one hW']; exact hw1'
  have hee1 : dv nw ≤ 1 := by have := dv_le hnw1; rwa [dv_P18] at this
  have hF0 : 0 < feeRatioExact (wRatio a.weight p.totalWeight) (dv p.swapFee) := lt_of_lt_of_le hφ hφ2
  have hB2 : exitBase a.amount amtOut a.weight p.totalWeight p.swapFee ≤ 2 := by
    unfold exitBase
    rw [div_le_iff₀ hA']
    have := div_nonneg ho' hF0.le
    linarith
  have hδ := rpow_perturb (M := 1) hβ hβ1 hβy hβB hy2.le hB2 (dv_nonneg hnw0) hE0 hee1 hE1
    (exitBase_error hc hA ho s0 s1 hφ hφ1 hφ2) (wRatio_error hc.hnw)
  have hδ' : |dv y ^ dv nw - X| ≤ δ := by
    refine le_trans hδ (le_of_eq ?_)
    simp only [δ, Real.rpow_one]; ring
  have hd : 0 < 1 - dv p.exitFee := by have := dv_lt he1; rw [dv_P18] at this; linarith
  exact floor_quo_of_pow_accuracy hs hx hS hd (accuracy_transfer hacc hδ')

/-- shares-out → token-in: the base against `(S + sharesOut)/S` (one `Quo`), the exponent against `1/W` for normalized
weights at least `ω > 0`: `quoErr·(1 + 1/ω²)` (the `Quo` of `1/nw` plus the propagated `Quo` of `nw`). -/
theorem shareOut_base_exponent_error {p : BalPool} {denom : String} {so spread : Int} {a : BalAsset}
    {nw wr y pw fr q : Int} (hc : ShareOutCall p denom so spread a nw wr y pw fr q)
    {ω : ℝ} (hω : 0 < ω) (h1 : ω ≤ dv nw) (h2 : ω ≤ wRatio a.weight p.totalWeight) :
    |dv y - ((p.totalShares : ℝ) + (so : ℝ)) / (p.totalShares : ℝ)| ≤ quoErr ∧
    |dv wr - 1 / wRatio a.weight p.totalWeight| ≤ quoErr * (1 + 1 / (ω * ω)) := by
  constructor
  · obtain ⟨_, he⟩ := Dec_quo_dv_error hc.hy
    rwa [dv_add, dv_toDec, dv_toDec] at he
  · obtain ⟨_, he⟩ := Dec_quo_dv_error hc.hwr
    rw [dv_P18] at he
    have hn := wRatio_error hc.hnw
    generalize wRatio a.weight p.totalWeight = Wn at *
    have hn0 : 0 < dv nw := lt_of_lt_of_le hω h1
    have hW0 : 0 < Wn := lt_of_lt_of_le hω h2
    have h3 : |1 / dv nw - 1 / Wn| ≤ quoErr / (ω * ω) := by
      have e : 1 / dv nw - 1 / Wn = (Wn - dv nw) / (dv nw * Wn) := by field_simp
      rw [e, abs_div, abs_of_pos (mul_pos hn0 hW0), abs_sub_comm]
      calc |dv nw - Wn| / (dv nw * Wn) ≤ quoErr / (dv nw * Wn) :=
            div_le_div_of_nonneg_right hn (mul_pos hn0 hW0).le
        _ ≤ quoErr / (ω * ω) :=
            div_le_div_of_nonneg_left quoErr_pos.le (mul_pos hω hω) (mul_le_mul h1 h2 hω.le hn0.le)
    have := accuracy_transfer he h3
    have e2 : quoErr * (1 + 1 / (ω * ω)) = quoErr + quoErr / (ω * ω) := by ring
    rw [e2]; exact this

end OsmoVerif.GammMath
