/-
C04 (stableswap invariant), part 8: exact-out (`calcInAmtGivenOut`, `SwapInAmtGivenOut`) step by step.

The token-out is scaled RoundUp, the solver runs with `yIn = −tout` (its `x` is the IN reserve), the result is
divided by `1 − spread` rounding up, descaled (`MulInt64(sf).Dec()` — this TRUNCATES to 18 decimals) and only then
`Ceil`ed.  The truncation before the ceiling can lose up to `10^-18` token units: the integer charged satisfies
`tokenIn/sf > solver amount − 10^-18/sf`, not `≥ solver amount`.
-/
import OsmoVerif.Proofs.GammSSOut2
import OsmoVerif.Proofs.NumLemmas2

set_option linter.unusedSimpArgs false

namespace OsmoVerif.GammMath.SS
open OsmoVerif.Num OsmoVerif.MathM OsmoVerif.Gen OsmoVerif.Spec

/-- `QuoRoundUp` by a positive divisor is the ceiling. -/
theorem quoRoundUp_pos {a b r : Int} (hb : 0 < b) (h : BigDec.quoRoundUp a b = some r) :
    (r - 1) * b < a * P36 ∧ a * P36 ≤ r * b := by
  unfold BigDec.quoRoundUp at h
  rw [if_neg (by omega)] at h
  have hr := (chk_some h).1
  have := incRemDiv_isCeil (a * P36) b (by omega)
  rw [sgnMul_of_pos _ hb] at this
  have e : (b.natAbs : Int) = b := by omega
  rw [e, ← hr] at this
  exact this

theorem quoRoundUpMut_eq (a b : Int) : BigDec.quoRoundUpMut a b = BigDec.quoRoundUp a b := rfl

/-- FULL: RoundUp scaling is at least the exact quotient `i/u`. -/
theorem scaled_up_rq {i u r : Int} (hu : 0 < u) (h : BigDec.quoRoundUp (i * P36) (u * P36) = some r) :
    (i : ℚ) / u ≤ rq r ∧ rq r < (i : ℚ) / u + eps := by
  obtain ⟨c1, c2⟩ := quoRoundUp_pos (Int.mul_pos hu P36_pos) h
  have k2 : i * P36 ≤ r * u := by
    have : i * P36 * P36 ≤ r * u * P36 := by rw [Int.mul_assoc r u P36]; exact c2
    exact Int.le_of_mul_le_mul_right this P36_pos
  have k1 : (r - 1) * u < i * P36 := by
    have : (r - 1) * u * P36 < i * P36 * P36 := by rw [Int.mul_assoc (r - 1) u P36]; exact c1
    exact Int.lt_of_mul_lt_mul_right this (Int.le_of_lt P36_pos)
  have huq : (0 : ℚ) < u := by exact_mod_cast hu
  have q2 : (i : ℚ) * 10 ^ 36 ≤ r * u := by rw [← P36_cast]; exact_mod_cast k2
  have q1 : ((r : ℚ) - 1) * u < i * 10 ^ 36 := by rw [← P36_cast]; exact_mod_cast k1
  unfold rq eps
  constructor
  · rw [div_le_div_iff₀ huq (by positivity)]; exact q2
  · have : (i : ℚ) / u + 1 / 10 ^ 36 = ((i : ℚ) * 10 ^ 36 + u) / (u * 10 ^ 36) := by field_simp
    rw [this, div_lt_div_iff₀ (by positivity) (by positivity)]
    nlinarith

/-- everything `Pool.CalcInAmtGivenOut` computes on the way to `tin`. -/
theorem ssCalcIn_spec {p : SSPool} {dIn dOut : String} {amt spread tin : Int}
    (h : ssCalcIn p [(dOut, amt)] dIn spread = .ok tin) :
    ∃ aIn aOut x0 y0 rem w tout cfmmIn inAmt dd,
      findSS p.assets dIn = some aIn ∧ findSS p.assets dOut = some aOut ∧ dIn ≠ dOut ∧
      0 < aIn.sf ∧ 0 < aOut.sf ∧
      (∀ c ∈ othersOf p dIn dOut, 0 < c.sf) ∧
      x0 = (aIn.amount * P36).tdiv aIn.sf ∧ y0 = (aOut.amount * P36).tdiv aOut.sf ∧
      List.Forall₂ (fun c r => r = (c.amount * P36).tdiv c.sf) (othersOf p dIn dOut) rem ∧
      sumSquares rem = some w ∧
      BigDec.quoRoundUp (amt * P36) (aOut.sf * P36) = some tout ∧
      solveCfmmMulti x0 y0 w (-tout) = some cfmmIn ∧
      ((oneMinus spread).bind fun om => BigDec.quoRoundUpMut (-cfmmIn) om) = some inAmt ∧
      dd = (inAmt * aIn.sf).tdiv Pdiff ∧ inCeil dd = .ok tin := by
  unfold ssCalcIn at h
  simp only at h
  cases hd : ssInDec p dOut amt dIn spread with
  | error e => simp [hd, bind, Except.bind] at h
  | ok dd =>
    simp only [hd, bind, Except.bind] at h
    unfold ssInDec at hd
    cases hrs : scaledReserves p dIn dOut Gen.GammMath.RoundDown with
    | error e => simp [hrs, bind, Except.bind] at hd
    | ok rs =>
      obtain ⟨aIn, aOut, x0, y0, rem, hIn, hOut, hne, sfIn, sfOut, sfO, ers, hx0, hy0, hrem⟩ :=
        scaledReserves_spec hrs
      subst ers
      simp only [hrs, bind, Except.bind] at hd
      rw [scaleCoin_found amt _ hOut] at hd
      cases htout : divIntByU64 amt aOut.sf Gen.GammMath.RoundUp with
      | error e => simp [htout] at hd
      | ok tout =>
        simp only [htout] at hd
        cases hsol : solveCfmm x0 y0 rem (-tout) with
        | none => simp [hsol, pn] at hd
        | some cfmmIn =>
          simp only [hsol, pn] at hd
          cases hamm : ((oneMinus spread).bind fun om => BigDec.quoRoundUpMut (-cfmmIn) om) with
          | none => simp [hamm] at hd
          | some inAmt =>
            simp only [hamm] at hd
            have hdd := pn_ok hd
            unfold solveCfmm at hsol
            cases hw : sumSquares rem with
            | none => simp [hw] at hsol
            | some w =>
              simp only [hw, Option.bind_some] at hsol
              refine ⟨aIn, aOut, x0, y0, rem, w, tout, cfmmIn, inAmt, dd, hIn, hOut, hne, sfIn, sfOut, sfO,
                (divIntByU64_down hx0).2, (divIntByU64_down hy0).2, ?_, hw, (divIntByU64_up htout).2, hsol, hamm,
                descale_found hIn hdd, h⟩
              exact hrem.imp fun _ _ hcr => (divIntByU64_down hcr).2

/-- `SwapInAmtGivenOut`: the new reserves. -/
theorem ssSwapIn_spec {p p' : SSPool} {dIn dOut : String} {amt spread tin : Int}
    (h : ssSwapIn p [(dOut, amt)] dIn spread = .ok (tin, p')) :
    ssCalcIn p [(dOut, amt)] dIn spread = .ok tin ∧
    validLiquidity (p.assets.map fun a => { a with amount := a.amount + amountOf [(dIn, tin)] a.denom }) = .ok () ∧
    p'.assets = p.assets.map (swapOutAsset dIn dOut tin amt) ∧
    p'.totalShares = p.totalShares ∧
    ∀ a ∈ p.assets, 0 < a.amount + amountOf [(dIn, tin)] a.denom - amountOf [(dOut, amt)] a.denom := by
  unfold ssSwapIn at h
  cases hc : ssCalcIn p [(dOut, amt)] dIn spread with
  | error e => simp [hc, bind, Except.bind] at h
  | ok t =>
    simp only [hc, bind, Except.bind] at h
    cases ha : ssAddLiq p [(dIn, t)] with
    | error e => simp [ha] at h
    | ok post =>
      simp only [ha] at h
      cases hv : validLiquidity post with
      | error e => simp [hv] at h
      | ok u =>
        simp only [hv] at h
        cases hs : ssSubLiq post [(dOut, amt)] with
        | error e => simp [hs] at h
        | ok as' =>
          simp only [hs, pure, Except.pure] at h
          injection h with h
          injection h with h1 h2
          subst h1
          have hpost := ssAddLiq_spec ha
          obtain ⟨e1, e2⟩ := ssSubLiq_spec hs
          subst hpost
          refine ⟨rfl, hv, ?_, ?_, ?_⟩
          · rw [← h2]; simp only; rw [e1, List.map_map]; rfl
          · rw [← h2]
          · intro a ha
            exact e2 _ (List.mem_map.mpr ⟨a, ha, rfl⟩)

/-- the facts (D) for exact-out, at the level of `CalcInAmtGivenOut`. -/
theorem ssCalcIn_point {p : SSPool} {dIn dOut : String} {amt spread tin : Int}
    (hs : 0 ≤ spread) (hs1 : spread < P18) (h : ssCalcIn p [(dOut, amt)] dIn spread = .ok tin) :
    ∃ aIn aOut x0 y0 w tout cfmmIn rem,
      findSS p.assets dIn = some aIn ∧ findSS p.assets dOut = some aOut ∧ dIn ≠ dOut ∧
      0 < aIn.sf ∧ 0 < aOut.sf ∧ (∀ c ∈ othersOf p dIn dOut, 0 < c.sf) ∧
      x0 = (aIn.amount * P36).tdiv aIn.sf ∧ y0 = (aOut.amount * P36).tdiv aOut.sf ∧
      List.Forall₂ (fun c r => r = (c.amount * P36).tdiv c.sf) (othersOf p dIn dOut) rem ∧
      sumSquares rem = some w ∧ solveCfmmMulti x0 y0 w (-tout) = some cfmmIn ∧
      0 < tin ∧ 0 < aIn.amount ∧ 0 < aOut.amount ∧
      (amt : ℚ) / aOut.sf ≤ rq tout ∧
      -rq cfmmIn - 1 / (10 ^ 18 * (aIn.sf : ℚ)) < (tin : ℚ) / aIn.sf ∧
      amt < aOut.amount := by
  obtain ⟨aIn, aOut, x0, y0, rem, w, tout, cfmmIn, inAmt, dd, hIn, hOut, hne, sfIn, sfOut, sfO, hx0, hy0, hrem, hw,
    htout, hsol, hamm, hdd, hcl⟩ := ssCalcIn_spec h
  obtain ⟨_, hyf, hx0p, hy0p, _, _⟩ := solver_post_exact_partial hsol
  obtain ⟨i1, i2, _⟩ := inCeil_spec hcl
  have amIn : 0 < aIn.amount := by
    have := pos_of_tdiv_pos sfIn (hx0 ▸ hx0p)
    have := P36_pos
    by_contra hc
    have : aIn.amount * P36 ≤ 0 := Int.mul_nonpos_of_nonpos_of_nonneg (by omega) (by omega)
    omega
  have amOut : 0 < aOut.amount := by
    have := pos_of_tdiv_pos sfOut (hy0 ▸ hy0p)
    have := P36_pos
    by_contra hc
    have : aOut.amount * P36 ≤ 0 := Int.mul_nonpos_of_nonpos_of_nonneg (by omega) (by omega)
    omega
  obtain ⟨u1, _⟩ := scaled_up_rq sfOut htout
  -- tout < y0 ≤ reserve
  have hlt : amt < aOut.amount := by
    obtain ⟨by1, _, _⟩ := scaled_down_rq sfOut (Int.le_of_lt amOut) hy0
    have : rq tout < rq y0 := rq_lt_rq.mpr (by omega)
    have sfq : (0 : ℚ) < aOut.sf := by exact_mod_cast sfOut
    have : (amt : ℚ) / aOut.sf < (aOut.amount : ℚ) / aOut.sf := by linarith
    rw [div_lt_div_iff_of_pos_right sfq] at this
    exact_mod_cast this
  -- the amount charged
  unfold oneMinus at hamm
  cases ho : Dec.sub P18 spread with
  | none => simp [ho] at hamm
  | some om =>
    simp only [ho, Option.map_some, Option.bind_some] at hamm
    have hom := Dec_sub_spec ho
    have hompos : 0 < om * Pdiff := Int.mul_pos (by omega) Pdiff_pos
    have homle : om * Pdiff ≤ P36 := by
      rw [hom, ← P18_mul_Pdiff]
      exact Int.mul_le_mul_of_nonneg_right (by omega) (Int.le_of_lt Pdiff_pos)
    rw [quoRoundUpMut_eq] at hamm
    obtain ⟨_, c2⟩ := quoRoundUp_pos hompos hamm
    -- dd > 0, hence inAmt·sf > 0
    have hddpos : 0 < dd := by
      have : 0 ≤ (tin - 1) * P18 := Int.mul_nonneg (by omega) (Int.le_of_lt P18_pos)
      omega
    have hxs : 0 < inAmt * aIn.sf := pos_of_tdiv_pos Pdiff_pos (hdd ▸ hddpos)
    have hinpos : 0 < inAmt := by
      by_contra hc
      have : inAmt * aIn.sf ≤ 0 := Int.mul_nonpos_of_nonpos_of_nonneg (by omega) (by omega)
      omega
    -- inAmt ≥ −cfmmIn
    have hge : -cfmmIn ≤ inAmt := by
      by_contra hc
      have h1 : inAmt * (om * Pdiff) ≤ inAmt * P36 := Int.mul_le_mul_of_nonneg_left homle (by omega)
      have h2 : (inAmt + 1) * P36 ≤ -cfmmIn * P36 := Int.mul_le_mul_of_nonneg_right (by omega) (Int.le_of_lt P36_pos)
      rw [Int.add_mul] at h2
      have := P36_pos
      omega
    -- inAmt·sf < tin·10^36 + 10^18
    obtain ⟨_, f2, _⟩ := tdiv_floor Pdiff_pos (Int.le_of_lt hxs)
    rw [← hdd] at f2
    have key : inAmt * aIn.sf < tin * P36 + Pdiff := by
      have : (dd + 1) * Pdiff ≤ (tin * P18 + 1) * Pdiff :=
        Int.mul_le_mul_of_nonneg_right (by omega) (Int.le_of_lt Pdiff_pos)
      rw [Int.add_mul (tin * P18), Int.mul_assoc, P18_mul_Pdiff] at this
      omega
    have sfiq : (0 : ℚ) < aIn.sf := by exact_mod_cast sfIn
    have keyq : (inAmt : ℚ) * aIn.sf < tin * 10 ^ 36 + 10 ^ 18 := by
      have e18 : ((Pdiff : Int) : ℚ) = 10 ^ 18 := by rw [Pdiff_val]; norm_num
      rw [← P36_cast, ← e18]; exact_mod_cast key
    have q : -rq cfmmIn - 1 / (10 ^ 18 * (aIn.sf : ℚ)) < (tin : ℚ) / aIn.sf := by
      have h1 : -rq cfmmIn ≤ rq inAmt := by rw [← rq_neg]; exact rq_le_rq.mpr hge
      have h2 : rq inAmt < (tin : ℚ) / aIn.sf + 1 / (10 ^ 18 * (aIn.sf : ℚ)) := by
        unfold rq
        have : (tin : ℚ) / aIn.sf + 1 / (10 ^ 18 * (aIn.sf : ℚ))
            = ((tin : ℚ) * 10 ^ 36 + 10 ^ 18) / (aIn.sf * 10 ^ 36) := by
          field_simp
        rw [this, div_lt_div_iff₀ (by positivity) (by positivity)]
        nlinarith
      linarith
    exact ⟨aIn, aOut, x0, y0, w, tout, cfmmIn, rem, hIn, hOut, hne, sfIn, sfOut, sfO, hx0, hy0, hrem, hw, hsol,
      i1, amIn, amOut, u1, q, hlt⟩

end OsmoVerif.GammMath.SS
