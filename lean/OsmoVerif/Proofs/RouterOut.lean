/- Helper lemmas for C05, exact-out side: the reversed estimate loop = structural backward pass, the indexed
execution loop = hop-after-hop composition, split loop = legs in sequence. Core only. -/
import OsmoVerif.Spec.Router
import OsmoVerif.Proofs.RouterIn

namespace OsmoVerif.Router
variable {σ : Type}

/-! ### `createMultihopExpectedSwapOuts` -/

/-- `expectedInsRev` that also returns what it would ask of the next (earlier) hop. -/
def expectedInsRevAux (P : Pools σ) (c : FeeCfg) :
    List StepOut → Denom → Int → List Int → σ → Except Err (List Int × (Denom × Int))
  | [], d, o, acc, _ => .ok (acc, (d, o))
  | st :: rest, d, o, acc, s =>
    match P.calcIn st.pool st.inDenom d o s with
    | .error e => .error e
    | .ok tin =>
      match calcTakerFeeExactOut tin (getTradingPairTakerFee c st.inDenom d) with
      | none => .error .fee
      | some (after, _) => expectedInsRevAux P c rest st.inDenom after (after :: acc) s

theorem aux_cons (P : Pools σ) (c : FeeCfg) (st : StepOut) (rest : List StepOut) (d : Denom) (o : Int)
    (acc : List Int) (s : σ) :
    expectedInsRevAux P c (st :: rest) d o acc s =
      match P.calcIn st.pool st.inDenom d o s with
      | .error e => .error e
      | .ok tin =>
        match calcTakerFeeExactOut tin (getTradingPairTakerFee c st.inDenom d) with
        | none => .error .fee
        | some (after, _) => expectedInsRevAux P c rest st.inDenom after (after :: acc) s := by
  rw [expectedInsRevAux]

theorem expectedIns_cons (P : Pools σ) (c : FeeCfg) (st : StepOut) (rest : List StepOut) (dOut : Denom) (out : Int)
    (s : σ) :
    expectedIns P c (st :: rest) dOut out s =
      match expectedIns P c rest dOut out s with
      | .error e => .error e
      | .ok (ins, (d, a)) =>
        match P.calcIn st.pool st.inDenom d a s with
        | .error e => .error e
        | .ok tin =>
          match calcTakerFeeExactOut tin (getTradingPairTakerFee c st.inDenom d) with
          | none => .error .fee
          | some (after, _) => .ok (after :: ins, (st.inDenom, after)) := by
  rw [expectedIns]
  cases expectedIns P c rest dOut out s with
  | error e => rfl
  | ok v =>
    obtain ⟨ins, d, a⟩ := v
    simp only
    cases P.calcIn st.pool st.inDenom d a s with
    | error e => rfl
    | ok tin =>
      simp only
      cases calcTakerFeeExactOut tin (getTradingPairTakerFee c st.inDenom d) with
      | none => rfl
      | some v => rfl

def fstOf (r : Except Err (List Int × (Denom × Int))) : Except Err (List Int) :=
  match r with
  | .error e => .error e
  | .ok (l, _) => .ok l

theorem expectedInsRev_eq_aux (P : Pools σ) (c : FeeCfg) :
    ∀ (l : List StepOut) (d : Denom) (o : Int) (acc : List Int) (s : σ),
      expectedInsRev P c l d o acc s = fstOf (expectedInsRevAux P c l d o acc s) := by
  intro l
  induction l with
  | nil => intro d o acc s; simp [expectedInsRev, expectedInsRevAux, fstOf]
  | cons st rest ih =>
    intro d o acc s
    unfold expectedInsRev expectedInsRevAux
    cases h1 : P.calcIn st.pool st.inDenom d o s with
    | error e => simp [fstOf]
    | ok tin =>
      simp only
      cases h2 : calcTakerFeeExactOut tin (getTradingPairTakerFee c st.inDenom d) with
      | none => simp [fstOf]
      | some v => obtain ⟨after, f⟩ := v; simp only; exact ih _ _ _ _

theorem aux_append (P : Pools σ) (c : FeeCfg) :
    ∀ (xs ys : List StepOut) (d : Denom) (o : Int) (acc : List Int) (s : σ),
      expectedInsRevAux P c (xs ++ ys) d o acc s =
        match expectedInsRevAux P c xs d o acc s with
        | .error e => .error e
        | .ok (acc', (d', o')) => expectedInsRevAux P c ys d' o' acc' s := by
  intro xs
  induction xs with
  | nil => intro ys d o acc s; simp [expectedInsRevAux]
  | cons st rest ih =>
    intro ys d o acc s
    simp only [List.cons_append]
    rw [aux_cons, aux_cons]
    cases h1 : P.calcIn st.pool st.inDenom d o s with
    | error e => simp
    | ok tin =>
      simp only
      cases h2 : calcTakerFeeExactOut tin (getTradingPairTakerFee c st.inDenom d) with
      | none => simp
      | some v => obtain ⟨after, f⟩ := v; simp only; exact ih _ _ _ _ _

/-- the reversed accumulator loop computes the structural backward pass. -/
theorem aux_reverse (P : Pools σ) (c : FeeCfg) :
    ∀ (l : List StepOut) (dOut : Denom) (out : Int) (s : σ),
      expectedInsRevAux P c l.reverse dOut out [] s = expectedIns P c l dOut out s := by
  intro l
  induction l with
  | nil => intro dOut out s; simp [expectedInsRevAux, expectedIns]
  | cons st rest ih =>
    intro dOut out s
    rw [List.reverse_cons, aux_append, ih, expectedIns_cons]
    cases h : expectedIns P c rest dOut out s with
    | error e => simp
    | ok v =>
      obtain ⟨ins, d, a⟩ := v
      simp only
      rw [aux_cons]
      cases h1 : P.calcIn st.pool st.inDenom d a s with
      | error e => simp
      | ok tin =>
        simp only
        cases h2 : calcTakerFeeExactOut tin (getTradingPairTakerFee c st.inDenom d) with
        | none => simp
        | some v => obtain ⟨after, f⟩ := v; simp [expectedInsRevAux]

theorem createMultihop_eq (P : Pools σ) (c : FeeCfg) (route : List StepOut) (dOut : Denom) (out : Int) (s : σ) :
    createMultihopExpectedSwapOuts P c route dOut out s = fstOf (expectedIns P c route dOut out s) := by
  unfold createMultihopExpectedSwapOuts
  rw [expectedInsRev_eq_aux, aux_reverse]

theorem expectedIns_length (P : Pools σ) (c : FeeCfg) :
    ∀ (l : List StepOut) (dOut : Denom) (out : Int) (s : σ) (ins : List Int) (need : Denom × Int),
      expectedIns P c l dOut out s = .ok (ins, need) → ins.length = l.length := by
  intro l
  induction l with
  | nil => intro dOut out s ins need h; simp [expectedIns] at h; simp [h.1.symm]
  | cons st rest ih =>
    intro dOut out s ins need h
    unfold expectedIns at h
    cases h0 : expectedIns P c rest dOut out s with
    | error e => rw [h0] at h; cases h
    | ok v =>
      obtain ⟨ins', d, a⟩ := v
      rw [h0] at h
      simp only at h
      split at h
      · cases h
      · split at h
        · cases h
        · injection h with h
          injection h with h1 _
          subst h1
          simp [ih _ _ _ _ _ h0]

/-- what a non-empty suffix needs is its first hop's estimate, in that hop's input denom. -/
theorem expectedIns_cons_need (P : Pools σ) (c : FeeCfg) (st : StepOut) (rest : List StepOut) (dOut : Denom)
    (out : Int) (s : σ) (ins : List Int) (d : Denom) (a : Int)
    (h : expectedIns P c (st :: rest) dOut out s = .ok (ins, (d, a))) :
    d = st.inDenom ∧ ∃ tl, ins = a :: tl := by
  unfold expectedIns at h
  split at h
  · cases h
  · split at h
    · cases h
    · split at h
      · cases h
      · injection h with h
        injection h with h1 h2
        injection h2 with h3 h4
        exact ⟨h3.symm, ⟨_, by rw [← h1, h4]⟩⟩

/-! ### the execution loop -/

theorem zip_drop_cons {α β : Type} (l1 : List α) (l2 : List β) (i : Nat) (h1 : i < l1.length) (h2 : i < l2.length) :
    (l1.zip l2).drop i = (l1[i], l2[i]) :: (l1.zip l2).drop (i + 1) := by
  have hz : i < (l1.zip l2).length := by simp [List.length_zip]; omega
  rw [List.drop_eq_getElem_cons hz, List.getElem_zip]

theorem routeOutLoop_eq (P : Pools σ) (c : FeeCfg) (sender : Addr) (route : List StepOut) (ins : List Int)
    (dOut : Denom) (out : Int) (hlen : ins.length = route.length) :
    ∀ (k i : Nat) (tin : Int) (acc : List HopRec) (s : σ), i + k = route.length →
      routeOutLoop P c sender route ins dOut out k i tin acc s =
        finishOut i tin acc (composeOut P c sender ((route.zip ins).drop i) dOut out s) := by
  intro k
  induction k with
  | zero =>
    intro i tin acc s hik
    have : (route.zip ins).drop i = [] := by
      apply List.drop_eq_nil_of_le; simp [List.length_zip]; omega
    rw [this]
    simp [routeOutLoop, composeOut, finishOut]
  | succ k ih =>
    intro i tin acc s hik
    have hi : i < route.length := by omega
    have hi' : i < ins.length := by omega
    unfold routeOutLoop
    rw [List.getElem?_eq_getElem hi, List.getElem?_eq_getElem hi']
    simp only
    rw [zip_drop_cons route ins i hi hi']
    cases k with
    | zero =>
      have hlast : ¬ (i ≠ route.length - 1) := by omega
      rw [if_neg hlast]
      have hnil : (route.zip ins).drop (i + 1) = [] := by
        apply List.drop_eq_nil_of_le; simp [List.length_zip]; omega
      rw [hnil]
      simp only
      unfold composeOut
      cases h : hopExactOut P c sender route[i] ins[i] dOut out s with
      | error e => simp [finishOut]
      | ok v =>
        obtain ⟨⟨after, rec⟩, s'⟩ := v
        simp only
        rw [ih (i + 1) _ _ s' (by omega), hnil]
        simp only [composeOut, finishOut]
        by_cases h0 : i = 0 <;> simp [h0]
    | succ k' =>
      have hnl : i ≠ route.length - 1 := by omega
      have hj : i + 1 < route.length := by omega
      have hj' : i + 1 < ins.length := by omega
      rw [if_pos hnl, List.getElem?_eq_getElem hj, List.getElem?_eq_getElem hj']
      simp only
      rw [zip_drop_cons route ins (i + 1) hj hj']
      unfold composeOut
      cases h : hopExactOut P c sender route[i] ins[i] route[i + 1].inDenom ins[i + 1] s with
      | error e => simp [finishOut]
      | ok v =>
        obtain ⟨⟨after, rec⟩, s'⟩ := v
        simp only
        rw [ih (i + 1) _ _ s' (by omega), zip_drop_cons route ins (i + 1) hj hj']
        cases h2 : composeOut P c sender ((route[i + 1], ins[i + 1]) :: (route.zip ins).drop (i + 1 + 1)) dOut out s' with
        | error e => simp [finishOut]
        | ok v2 =>
          obtain ⟨rs, s''⟩ := v2
          simp only [finishOut]
          by_cases h0 : i = 0 <;> simp [h0]

/-! ### split routes -/

theorem splitOutLoop_spec (P : Pools σ) (c : FeeCfg) (sender : Addr) (dOut : Denom) :
    ∀ (legs : List LegOut) (total : Int) (acc : List HopRec) (s : σ) (t : Int) (recs : List HopRec) (s' : σ),
      splitOutLoop P c sender dOut legs total acc s = .ok ((t, recs), s') →
      ∃ outs, legsOut P c sender dOut legs s = .ok (outs, s') ∧
        t = total + listSum (outs.map (·.1)) ∧ recs = acc ++ flattenRecs outs := by
  intro legs
  induction legs with
  | nil =>
    intro total acc s t recs s' h
    unfold splitOutLoop at h
    injection h with h
    injection h with h1 h2
    injection h1 with h3 h4
    exact ⟨[], by simp [legsOut, h2], by simp [listSum, h3], by simp [flattenRecs, h4]⟩
  | cons l rest ih =>
    intro total acc s t recs s' h
    unfold splitOutLoop at h
    split at h
    · cases h
    · rename_i hneg
      cases h1 : routeExactAmountOut P c sender l.route intMaxValue dOut l.amount s with
      | error e => rw [h1] at h; cases h
      | ok r =>
        obtain ⟨⟨y, rs⟩, s1⟩ := r
        rw [h1] at h
        simp only at h
        split at h
        · cases h
        · rename_i tt htt
          have htt' : tt = total + y := by
            unfold Num.chkInt at htt
            split at htt
            · injection htt with htt; exact htt.symm
            · cases htt
          obtain ⟨outs, ho, hsum, hrecs⟩ := ih tt (acc ++ rs) s1 t recs s' h
          refine ⟨(y, rs) :: outs, ?_, ?_, ?_⟩
          · unfold legsOut
            rw [if_neg hneg, h1]
            simp only
            rw [ho]
          · simp [listSum]; omega
          · simp [flattenRecs, hrecs]

theorem splitOutLoop_error (P : Pools σ) (c : FeeCfg) (sender : Addr) (dOut : Denom) :
    ∀ (legs : List LegOut) (total : Int) (acc : List HopRec) (s : σ) (e : Err),
      legsOut P c sender dOut legs s = .error e →
      ∃ e', splitOutLoop P c sender dOut legs total acc s = .error e' := by
  intro legs
  induction legs with
  | nil => intro _ _ _ _ h; simp [legsOut] at h
  | cons l rest ih =>
    intro total acc s e h
    unfold legsOut at h
    unfold splitOutLoop
    split
    · exact ⟨_, rfl⟩
    · rename_i hneg
      rw [if_neg hneg] at h
      cases h1 : routeExactAmountOut P c sender l.route intMaxValue dOut l.amount s with
      | error e1 => exact ⟨_, rfl⟩
      | ok r =>
        obtain ⟨⟨y, rs⟩, s1⟩ := r
        rw [h1] at h
        simp only at h ⊢
        split
        · exact ⟨_, rfl⟩
        · rename_i tt _
          cases h2 : legsOut P c sender dOut rest s1 with
          | error e2 => exact ih tt (acc ++ rs) s1 e2 h2
          | ok r2 => rw [h2] at h; obtain ⟨a, b⟩ := r2; simp at h

/-- `hopExactOut` decomposed. -/
theorem hopExactOut_ok {P : Pools σ} {c : FeeCfg} {sender : Addr} {st : StepOut} {maxIn : Int} {dOut : Denom}
    {out after : Int} {rec : HopRec} {s s' : σ}
    (h : hopExactOut P c sender st maxIn dOut out s = .ok ((after, rec), s')) :
    ∃ cur delivered f s1, P.swapOut st.pool sender st.inDenom dOut out s = .ok ((cur, delivered), s1) ∧
      cur ≤ maxIn ∧ chargeTakerFee P c sender st.inDenom cur dOut false s1 = .ok ((after, f), s') ∧
      rec = ⟨st.pool, st.inDenom, cur, f, dOut, delivered⟩ := by
  unfold hopExactOut at h
  split at h
  · cases h
  · rename_i cur delivered s1 hs
    split at h
    · cases h
    · rename_i hle
      split at h
      · cases h
      · rename_i after' f s2 hc
        injection h with h
        injection h with h1 h2
        injection h1 with h3 h4
        subst h3; subst h2
        exact ⟨cur, delivered, f, s1, hs, by omega, hc, h4.symm⟩

end OsmoVerif.Router
