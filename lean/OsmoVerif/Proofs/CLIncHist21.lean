/-
C08 (incentives, histories) helpers, part 21: the clocks.  Along histories whose block-time advances are non-negative,
`LastLiquidityUpdate ≤ now` and every join time ≤ now (so position ages are never negative and claims never fail on the age
check).  Core only.
-/
import OsmoVerif.Proofs.CLIncHist20

namespace OsmoVerif.CLIncP
open OsmoVerif.Num OsmoVerif.CL OsmoVerif.CLPool OsmoVerif.CLFees OsmoVerif.CLInc OsmoVerif.CLFeesP OsmoVerif.CLBook
open OsmoVerif.Accum (amt sorted hev)
open OsmoVerif.Gen

structure TimeInv (i : Inc) : Prop where
  last : i.last ≤ i.now
  join : ∀ e ∈ i.join, e.2 ≤ i.now

/-- the block time never goes back. -/
def TimeOK (ops : List IOp) : Prop := ∀ ns, IOp.advance ns ∈ ops → 0 ≤ ns

theorem sync_time {f : Fees} {i i1 : Inc} {liq : Int} (hp : IncPart f i) (ht : TimeInv i) (hs : sync i liq = some i1) : TimeInv i1 := by
  obtain ⟨_, _, n1, _, j1, _⟩ := sync_part hp hs
  refine ⟨?_, by rw [j1, n1]; exact ht.join⟩
  rcases sync_last hs with e | e
  · rw [e]; exact ht.last
  · rw [e, n1]

theorem createI_time {s s' : Full} {owner : String} {l u a0 a1 m0 m1 : Int} {id : Nat} {x0 x1 liq lo up : Int}
    (hi : IncInv s) (hc' : InvCore s'.fees.pool) (ht : TimeInv s.inc)
    (h : CLInc.createPositionMin s owner l u a0 a1 m0 m1 = some (s', id, x0, x1, liq, lo, up)) : TimeInv s'.inc := by
  obtain ⟨_, i1, hsync, _, en, _, _, ej, el, _⟩ := createMinI_part hi.fees hc' hi.inc h
  have t1 := sync_time hi.inc ht hsync
  refine ⟨by rw [el, en]; exact t1.last, fun e he => ?_⟩
  rw [ej] at he
  rw [en]
  rcases List.mem_append.mp he with he | he
  · exact t1.join e he
  · simp only [List.mem_singleton] at he; subst he; exact Int.le_refl _

theorem withdrawI_time {s s' : Full} {owner : String} {id : Nat} {req o0 o1 : Int}
    (hi : IncInv s) (hf' : FullInv s'.fees) (ht : TimeInv s.inc)
    (h : CLInc.withdrawPosition s owner id req = some (s', o0, o1)) : TimeInv s'.inc := by
  obtain ⟨pos, i1, i2, coll, forf, byUp, b, i3, i4, T, _, _, _, _, hsync, _, _, _, _, _, _, _, einc, _, q3, _, q5, q6, _⟩ :=
    withdrawI_part hi.fees hf' hi.inc h
  have t1 := sync_time hi.inc ht hsync
  rw [einc]
  exact ⟨by show i4.last ≤ i4.now; rw [q6, q3]; exact t1.last, by show ∀ e ∈ i4.join, e.2 ≤ i4.now; rw [q5, q3]; exact t1.join⟩

theorem applyI_time {s s' : Full} {op : IOp} (hi : IncInv s) (ht : TimeInv s.inc) (h : applyI s op = some s')
    (hadv : ∀ ns, op = .advance ns → 0 ≤ ns) : TimeInv s'.inc := by
  have sf := applyI_facts hi h
  have hf' := sf.inv.fees
  cases op with
  | fee fop =>
    cases fop with
    | create o l u a0 a1 =>
      simp only [applyI, Option.map_eq_some_iff] at h
      obtain ⟨⟨s1, id, x0, x1, liq, lo, up⟩, h, e⟩ := h
      simp only at e; subst e
      exact createI_time hi hf'.pool.core ht h
    | withdraw o id liq =>
      simp only [applyI, Option.map_eq_some_iff] at h
      obtain ⟨⟨s1, o0, o1⟩, h, e⟩ := h
      simp only at e; subst e
      exact withdrawI_time hi hf' ht h
    | add o id a0 a1 =>
      simp only [applyI, Option.map_eq_some_iff] at h
      obtain ⟨⟨s2, nid, x0, x1⟩, h, e⟩ := h
      simp only at e; subst e
      obtain ⟨pos, s1, w0, w1, liq, lo, up, hfind, hw, hne, hc⟩ := addI_spec h
      have hwf := withdrawI_fees hw
      have hap : applyF s.fees (.withdraw o id pos.liq) = some s1.fees := by simp only [applyF, hwf, Option.map_some]
      obtain ⟨hf1, sf1⟩ := apply_facts hi.fees hap
      have f1 := withdrawI_facts hi hf1 sf1 hw
      exact createI_time f1.inv hf'.pool.core (withdrawI_time hi hf1 ht hw) hc
    | transfer sd id n =>
      simp only [applyI, CLInc.transferPosition, Option.map_eq_some_iff] at h
      obtain ⟨f', _, e⟩ := h
      subst e; exact ht
    | swap og zfo spec =>
      simp only [applyI, Option.map_eq_some_iff] at h
      obtain ⟨⟨s1, ain, aout, fee⟩, h, e⟩ := h
      simp only at e; subst e
      unfold CLInc.swap at h
      simp only [Option.bind_eq_some_iff] at h
      obtain ⟨⟨f', ai, ao, fe⟩, _, trs, _, h⟩ := h
      simp only at h
      split at h
      · simp only [Option.some.injEq, Prod.mk.injEq] at h
        obtain ⟨e1, _⟩ := h
        subst e1; exact ht
      · simp only [Option.bind_eq_some_iff, Option.map_eq_some_iff, Prod.mk.injEq] at h
        obtain ⟨i1, hsync, trk, _, e1, _⟩ := h
        subst e1
        have t1 := sync_time hi.inc ht hsync
        exact ⟨t1.last, t1.join⟩
    | collect sd id =>
      simp only [applyI, CLInc.collectSpread, Option.map_eq_some_iff] at h
      obtain ⟨⟨s1, c0, c1⟩, ⟨⟨f', d0, d1⟩, _, e0⟩, e⟩ := h
      simp only [Prod.mk.injEq] at e0
      obtain ⟨e0, _, _⟩ := e0
      simp only at e; subst e; subst e0
      exact ht
  | incentive id d a r st u =>
    simp only [applyI] at h
    unfold createIncentive at h
    split at h
    · cases h
    · split at h
      · cases h
      · split at h
        · cases h
        · split at h
          · cases h
          · simp only [Option.bind_eq_some_iff, Option.map_eq_some_iff] at h
            obtain ⟨i1, hsync, b, _, e⟩ := h
            subst e
            have t1 := sync_time hi.inc ht hsync
            exact ⟨t1.last, t1.join⟩
  | advance ns =>
    simp only [applyI, Option.some.injEq] at h
    subst h
    have := hadv ns rfl
    exact ⟨by show s.inc.last ≤ s.inc.now + ns; have := ht.last; omega,
      fun e he => by show e.2 ≤ s.inc.now + ns; have := ht.join e he; omega⟩
  | sync =>
    simp only [applyI, syncNow, Option.map_eq_some_iff] at h
    obtain ⟨i1, hsync, e⟩ := h
    subst e
    exact sync_time hi.inc ht hsync
  | icollect sd id =>
    simp only [applyI, Option.map_eq_some_iff] at h
    obtain ⟨⟨s1, c, f⟩, h, e⟩ := h
    simp only at e; subst e
    unfold collectIncentives at h
    simp only [Option.bind_eq_some_iff] at h
    obtain ⟨pos, hfind, h⟩ := h
    split at h
    · cases h
    · simp only [Option.bind_eq_some_iff, Option.map_eq_some_iff, Prod.mk.injEq] at h
      obtain ⟨i1, hsync, ⟨i2, coll, forf, byUp⟩, hclaim, b, _, e, _, _⟩ := h
      subst e
      have t1 := sync_time hi.inc ht hsync
      obtain ⟨_, _, c3, c4, _, c6⟩ := claimAll_frame hclaim
      exact ⟨by show i2.last ≤ i2.now; rw [c3, c4]; exact t1.last, by show ∀ e ∈ i2.join, e.2 ≤ i2.now; rw [c6, c4]; exact t1.join⟩

theorem runI_time {s : Full} (ops : List IOp) (hi : IncInv s) (ht : TimeInv s.inc) (hok : TimeOK ops) : TimeInv (runI s ops).inc := by
  induction ops generalizing s with
  | nil => exact ht
  | cons op ops ih =>
    have sf := stepI_facts op hi
    have h1 : TimeInv (stepI s op).inc := by
      rcases stepI_cases s op with h | ⟨s', h, e⟩
      · rw [h]; exact ht
      · rw [e]; exact applyI_time hi ht h (fun ns e => hok ns (by rw [e]; exact List.mem_cons_self))
    exact ih sf.inv h1 (fun ns hns => hok ns (List.mem_cons_of_mem _ hns))

end OsmoVerif.CLIncP
