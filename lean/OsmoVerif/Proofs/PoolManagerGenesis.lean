/-
C19 / x/poolmanager genesis: lemmas about `Model/PoolManagerGenesis.lean`.
* KV association lists (`kget`/`kset`/`kdel`), the import loops as lookups.
* `FeeEq` (same default, whitelist and `GetTradingPairTakerFee` for every pair) makes every function of the router model
  (`Model/Router.lean`) equal; `PairsEq` (same override store, by lookup) is the stronger relation that also survives a change
  of the default taker fee.
* `PMSimG R`: equality of everything the genesis carries, by lookup, with `R` on the fee configuration; a bisimulation.
Core only.
-/
import OsmoVerif.Model.PoolManagerGenesis

namespace OsmoVerif.Router
open OsmoVerif.Num

/-! ## KV lists -/
section KV
variable {κ α : Type} [DecidableEq κ]

theorem kget_cons (k k' : κ) (v : α) (r : List (κ × α)) :
    kget k ((k', v) :: r) = if k' = k then some v else kget k r := rfl

theorem kget_kdel (k k' : κ) : ∀ (l : List (κ × α)), kget k (kdel k' l) = if k' = k then none else kget k l
  | [] => by
    unfold kdel
    simp only [List.filter_nil, kget]
    split <;> rfl
  | (k'', v) :: r => by
    have ih := kget_kdel k k' r
    unfold kdel at ih ⊢
    by_cases h1 : k'' = k'
    · have e : List.filter (fun p : κ × α => decide (p.1 ≠ k')) ((k'', v) :: r) =
          List.filter (fun p : κ × α => decide (p.1 ≠ k')) r := by
        rw [List.filter_cons_of_neg]; simp [h1]
      rw [e, ih, kget_cons]
      by_cases h2 : k' = k
      · rw [if_pos h2, if_pos h2]
      · rw [if_neg h2, if_neg h2, if_neg (by rw [h1]; exact h2)]
    · have e : List.filter (fun p : κ × α => decide (p.1 ≠ k')) ((k'', v) :: r) =
          (k'', v) :: List.filter (fun p : κ × α => decide (p.1 ≠ k')) r := by
        rw [List.filter_cons_of_pos]; simp [h1]
      rw [e, kget_cons, ih, kget_cons]
      by_cases h2 : k'' = k
      · rw [if_pos h2, if_pos h2, if_neg (fun e => h1 (by rw [h2, e]))]
      · rw [if_neg h2, if_neg h2]

theorem kget_kset (k k' : κ) (v : α) (l : List (κ × α)) :
    kget k (kset k' v l) = if k' = k then some v else kget k l := by
  unfold kset
  rw [kget_cons, kget_kdel]
  by_cases h : k' = k
  · rw [if_pos h, if_pos h]
  · rw [if_neg h, if_neg h, if_neg h]

theorem kget_none_of_not_mem {k : κ} : ∀ {l : List (κ × α)}, k ∉ l.map Prod.fst → kget k l = none
  | [], _ => rfl
  | (k', v') :: t, h => by
    rw [kget_cons]
    have h1 : k' ≠ k := fun e => h (by rw [e]; exact List.mem_cons_self)
    rw [if_neg h1]
    exact kget_none_of_not_mem (fun m => h (List.mem_cons_of_mem _ m))

theorem kdel_keys_sublist (k : κ) (l : List (κ × α)) : ((kdel k l).map Prod.fst).Sublist (l.map Prod.fst) :=
  (List.filter_sublist).map _

theorem kset_nodup (k : κ) (v : α) {l : List (κ × α)} (h : (l.map Prod.fst).Nodup) : ((kset k v l).map Prod.fst).Nodup := by
  unfold kset
  rw [List.map_cons, List.nodup_cons]
  refine ⟨fun m => ?_, h.sublist (kdel_keys_sublist k l)⟩
  obtain ⟨x, hx, hk⟩ := List.mem_map.mp m
  unfold kdel at hx
  have := (List.mem_filter.mp hx).2
  simp only [ne_eq, decide_not, Bool.not_eq_eq_eq_not, Bool.not_true, decide_eq_false_iff_not] at this
  exact this hk

/-- the import loop `for e in l { store.Set(e.key, e.value) }` on distinct keys, as lookups -/
theorem foldl_kset_lookup (k : κ) : ∀ (l acc : List (κ × α)), (l.map Prod.fst).Nodup →
    kget k (l.foldl (fun a e => kset e.1 e.2 a) acc) = match kget k l with | some v => some v | none => kget k acc
  | [], _, _ => rfl
  | (k0, v0) :: r, acc, hn => by
    rw [List.map_cons, List.nodup_cons] at hn
    rw [List.foldl_cons, foldl_kset_lookup k r _ hn.2, kget_cons]
    by_cases e : k0 = k
    · subst e
      rw [if_pos rfl, kget_none_of_not_mem hn.1]
      simp only [kget_kset, if_true]
    · rw [if_neg e]
      simp only [kget_kset, if_neg e]

theorem foldl_kset_nodup : ∀ (l acc : List (κ × α)), (acc.map Prod.fst).Nodup →
    ((l.foldl (fun a e => kset e.1 e.2 a) acc).map Prod.fst).Nodup
  | [], _, h => h
  | e :: r, acc, h => foldl_kset_nodup r _ (kset_nodup e.1 e.2 h)

end KV

theorem lookupPair_eq_kget (k : Denom × Denom) : ∀ (l : List ((Denom × Denom) × Int)), lookupPair k l = kget k l
  | [] => rfl
  | (k', v) :: r => by
    unfold lookupPair kget
    rw [lookupPair_eq_kget k r]

theorem coinOf_kset (l : Coins) (d d' : Denom) (v : Int) :
    coinOf (kset d' v l) d = if d' = d then v else coinOf l d := by
  unfold coinOf
  rw [kget_kset]
  by_cases e : d' = d
  · rw [if_pos e, if_pos e]
  · rw [if_neg e, if_neg e]

/-- the import loop of a tracker (`Increase…ByDenom` per exported coin on the empty store), as lookups -/
theorem foldl_increase_lookup (d : Denom) : ∀ (l acc : Coins), (l.map Prod.fst).Nodup →
    (∀ e ∈ l, kget e.1 acc = none) →
    kget d (l.foldl (fun a c => increaseCoin a c.1 c.2) acc) = match kget d l with | some v => some v | none => kget d acc
  | [], _, _, _ => rfl
  | (d0, v0) :: r, acc, hn, hacc => by
    rw [List.map_cons, List.nodup_cons] at hn
    have hfresh : coinOf acc d0 = 0 := by
      unfold coinOf; rw [hacc (d0, v0) List.mem_cons_self]
    have hacc' : ∀ e ∈ r, kget e.1 (increaseCoin acc d0 v0) = none := by
      intro e he
      unfold increaseCoin
      rw [kget_kset]
      have : d0 ≠ e.1 := fun h => hn.1 (by rw [h]; exact List.mem_map.mpr ⟨e, he, rfl⟩)
      rw [if_neg this]
      exact hacc e (List.mem_cons_of_mem _ he)
    rw [List.foldl_cons, foldl_increase_lookup d r _ hn.2 hacc', kget_cons]
    unfold increaseCoin
    rw [hfresh, Int.zero_add]
    by_cases e : d0 = d
    · subst e
      rw [if_pos rfl, kget_none_of_not_mem hn.1]
      simp only [kget_kset, if_true]
    · rw [if_neg e]
      simp only [kget_kset, if_neg e]

theorem foldl_increase_nodup : ∀ (l acc : Coins), (acc.map Prod.fst).Nodup →
    ((l.foldl (fun a c => increaseCoin a c.1 c.2) acc).map Prod.fst).Nodup
  | [], _, h => h
  | e :: r, acc, h => foldl_increase_nodup r _ (kset_nodup e.1 _ h)

/-! ## the override store -/

theorem setDenomPairTakerFee_default (c : FeeCfg) (d0 d1 : Denom) (f : Int) :
    (setDenomPairTakerFee c d0 d1 f).default = c.default ∧ (setDenomPairTakerFee c d0 d1 f).whitelist = c.whitelist := by
  unfold setDenomPairTakerFee
  simp only
  split <;> exact ⟨rfl, rfl⟩

/-- `SetDenomPairTakerFee`, as lookups: delete when the fee is the current default, else write -/
theorem setDenomPairTakerFee_lookup (c : FeeCfg) (d0 d1 : Denom) (f : Int) (k : Denom × Denom) :
    kget k (setDenomPairTakerFee c d0 d1 f).pairs =
      if (d0, d1) = k then (if f = c.default then none else some f) else kget k c.pairs := by
  unfold setDenomPairTakerFee
  simp only
  by_cases hf : f = c.default
  · rw [if_pos hf, if_pos hf]
    exact kget_kdel k (d0, d1) c.pairs
  · rw [if_neg hf, if_neg hf]
    exact kget_kset k (d0, d1) f c.pairs

theorem setDenomPairTakerFee_nodup (c : FeeCfg) (d0 d1 : Denom) (f : Int) (h : (c.pairs.map Prod.fst).Nodup) :
    ((setDenomPairTakerFee c d0 d1 f).pairs.map Prod.fst).Nodup := by
  unfold setDenomPairTakerFee
  simp only
  split
  · exact h.sublist (kdel_keys_sublist (d0, d1) c.pairs)
  · exact kset_nodup (d0, d1) f h

/-- the import loop of the override store: an override equal to the default is NOT restored -/
theorem foldl_setPair_lookup (k : Denom × Denom) : ∀ (l : List ((Denom × Denom) × Int)) (c : FeeCfg), (l.map Prod.fst).Nodup →
    (l.foldl (fun c e => setDenomPairTakerFee c e.1.1 e.1.2 e.2) c).default = c.default ∧
    (l.foldl (fun c e => setDenomPairTakerFee c e.1.1 e.1.2 e.2) c).whitelist = c.whitelist ∧
    kget k (l.foldl (fun c e => setDenomPairTakerFee c e.1.1 e.1.2 e.2) c).pairs =
      match kget k l with
      | some f => if f = c.default then none else some f
      | none => kget k c.pairs
  | [], _, _ => ⟨rfl, rfl, rfl⟩
  | ((a, b), f0) :: r, c, hn => by
    rw [List.map_cons, List.nodup_cons] at hn
    obtain ⟨h1, h2, h3⟩ := foldl_setPair_lookup k r (setDenomPairTakerFee c a b f0) hn.2
    obtain ⟨e1, e2⟩ := setDenomPairTakerFee_default c a b f0
    rw [List.foldl_cons]
    refine ⟨h1.trans e1, h2.trans e2, ?_⟩
    rw [h3, e1, kget_cons, setDenomPairTakerFee_lookup]
    by_cases e : (a, b) = k
    · subst e
      rw [if_pos rfl, if_pos rfl, kget_none_of_not_mem hn.1]
    · rw [if_neg e, if_neg e]

theorem foldl_setPair_nodup : ∀ (l : List ((Denom × Denom) × Int)) (c : FeeCfg), (c.pairs.map Prod.fst).Nodup →
    ((l.foldl (fun c e => setDenomPairTakerFee c e.1.1 e.1.2 e.2) c).pairs.map Prod.fst).Nodup
  | [], _, h => h
  | e :: r, c, h => foldl_setPair_nodup r _ (setDenomPairTakerFee_nodup c e.1.1 e.1.2 e.2 h)

/-! ## relations on the fee configuration -/

/-- everything the ROUTER reads of the configuration -/
structure FeeEq (c1 c2 : FeeCfg) : Prop where
  dflt : c1.default = c2.default
  wl : c1.whitelist = c2.whitelist
  fee : ∀ a b, getTradingPairTakerFee c1 a b = getTradingPairTakerFee c2 a b

/-- the same override store (by lookup) -/
structure PairsEq (c1 c2 : FeeCfg) : Prop where
  dflt : c1.default = c2.default
  wl : c1.whitelist = c2.whitelist
  pairs : ∀ k, kget k c1.pairs = kget k c2.pairs

theorem getFee_kget (c : FeeCfg) (a b : Denom) :
    getTradingPairTakerFee c a b = match kget (a, b) c.pairs with | some v => v | none => c.default := by
  unfold getTradingPairTakerFee
  rw [lookupPair_eq_kget]
  cases kget (a, b) c.pairs <;> rfl

theorem PairsEq.feeEq {c1 c2 : FeeCfg} (h : PairsEq c1 c2) : FeeEq c1 c2 :=
  ⟨h.dflt, h.wl, fun a b => by rw [getFee_kget, getFee_kget, h.pairs, h.dflt]⟩

theorem FeeEq.refl (c : FeeCfg) : FeeEq c c := ⟨rfl, rfl, fun _ _ => rfl⟩
theorem PairsEq.refl (c : FeeCfg) : PairsEq c c := ⟨rfl, rfl, fun _ => rfl⟩

/-- `SetDenomPairTakerFee` keeps both relations -/
theorem FeeEq.setPair {c1 c2 : FeeCfg} (h : FeeEq c1 c2) (d0 d1 : Denom) (f : Int) :
    FeeEq (setDenomPairTakerFee c1 d0 d1 f) (setDenomPairTakerFee c2 d0 d1 f) := by
  obtain ⟨e1, e2⟩ := setDenomPairTakerFee_default c1 d0 d1 f
  obtain ⟨e3, e4⟩ := setDenomPairTakerFee_default c2 d0 d1 f
  refine ⟨by rw [e1, e3, h.dflt], by rw [e2, e4, h.wl], fun a b => ?_⟩
  rw [getFee_kget, getFee_kget, setDenomPairTakerFee_lookup, setDenomPairTakerFee_lookup, e1, e3, ← h.dflt]
  by_cases e : (d0, d1) = (a, b)
  · rw [if_pos e, if_pos e]
  · rw [if_neg e, if_neg e]
    have := h.fee a b
    rw [getFee_kget, getFee_kget, ← h.dflt] at this
    exact this

theorem PairsEq.setPair {c1 c2 : FeeCfg} (h : PairsEq c1 c2) (d0 d1 : Denom) (f : Int) :
    PairsEq (setDenomPairTakerFee c1 d0 d1 f) (setDenomPairTakerFee c2 d0 d1 f) := by
  obtain ⟨e1, e2⟩ := setDenomPairTakerFee_default c1 d0 d1 f
  obtain ⟨e3, e4⟩ := setDenomPairTakerFee_default c2 d0 d1 f
  refine ⟨by rw [e1, e3, h.dflt], by rw [e2, e4, h.wl], fun k => ?_⟩
  rw [setDenomPairTakerFee_lookup, setDenomPairTakerFee_lookup, h.pairs, h.dflt]

/-! ## `FeeEq` configurations are indistinguishable by the router model -/

section RouterCongr
variable {σ : Type} (P : Pools σ) {c1 c2 : FeeCfg} (h : FeeEq c1 c2)
include h

theorem chargeTakerFee_congr (sender : Addr) (dIn : Denom) (amount : Int) (dOut : Denom) (exactIn : Bool) (s : σ) :
    chargeTakerFee P c1 sender dIn amount dOut exactIn s = chargeTakerFee P c2 sender dIn amount dOut exactIn s := by
  unfold chargeTakerFee
  rw [h.wl, h.fee]

theorem swapExactAmountIn_congr (sender : Addr) (pool : PoolId) (dIn : Denom) (amount : Int) (dOut : Denom) (minOut : Int) (s : σ) :
    swapExactAmountIn P c1 sender pool dIn amount dOut minOut s = swapExactAmountIn P c2 sender pool dIn amount dOut minOut s := by
  unfold swapExactAmountIn
  rw [chargeTakerFee_congr P h]

theorem routeInLoop_congr (sender : Addr) (n : Nat) (minOut : Int) : ∀ (route : List StepIn) (i : Nat) (dIn : Denom) (amt : Int)
    (acc : List HopRec) (s : σ),
    routeInLoop P c1 sender n minOut i route dIn amt acc s = routeInLoop P c2 sender n minOut i route dIn amt acc s
  | [], _, _, _, _, _ => rfl
  | st :: rest, i, dIn, amt, acc, s => by
    unfold routeInLoop
    rw [swapExactAmountIn_congr P h]
    cases swapExactAmountIn P c2 sender st.pool dIn amt st.outDenom (if n - 1 = i then minOut else 1) s with
    | error e => rfl
    | ok r =>
      obtain ⟨⟨y, rec⟩, s'⟩ := r
      exact routeInLoop_congr sender n minOut rest (i + 1) st.outDenom y (rec :: acc) s'

theorem routeExactAmountIn_congr (sender : Addr) (route : List StepIn) (dIn : Denom) (amount minOut : Int) (s : σ) :
    routeExactAmountIn P c1 sender route dIn amount minOut s = routeExactAmountIn P c2 sender route dIn amount minOut s := by
  unfold routeExactAmountIn
  rw [routeInLoop_congr P h]

theorem splitInLoop_congr (sender : Addr) (dIn : Denom) : ∀ (legs : List LegIn) (total : Int) (acc : List HopRec) (s : σ),
    splitInLoop P c1 sender dIn legs total acc s = splitInLoop P c2 sender dIn legs total acc s
  | [], _, _, _ => rfl
  | l :: rest, total, acc, s => by
    unfold splitInLoop
    rw [routeExactAmountIn_congr P h]
    split
    · rfl
    · cases routeExactAmountIn P c2 sender l.route dIn l.amount 0 s with
      | error e => rfl
      | ok r =>
        obtain ⟨⟨y, recs⟩, s'⟩ := r
        simp only
        cases chkInt (total + y) with
        | none => rfl
        | some t => exact splitInLoop_congr sender dIn rest t (acc ++ recs) s'

theorem splitRouteExactAmountIn_congr (sender : Addr) (legs : List LegIn) (dIn : Denom) (minOut : Int) (s : σ) :
    splitRouteExactAmountIn P c1 sender legs dIn minOut s = splitRouteExactAmountIn P c2 sender legs dIn minOut s := by
  unfold splitRouteExactAmountIn
  rw [splitInLoop_congr P h]

theorem estimateInLoop_congr (applyFee : Bool) : ∀ (route : List StepIn) (dIn : Denom) (amt : Int) (s : σ),
    estimateInLoop P c1 applyFee route dIn amt s = estimateInLoop P c2 applyFee route dIn amt s
  | [], _, _, _ => rfl
  | st :: rest, dIn, amt, s => by
    unfold estimateInLoop
    rw [h.fee]
    split
    · rfl
    · split
      · rfl
      · split
        · rfl
        · exact estimateInLoop_congr applyFee rest st.outDenom _ s

theorem multihopEstimateOutGivenExactAmountIn_congr (applyFee : Bool) (route : List StepIn) (dIn : Denom) (amount : Int) (s : σ) :
    multihopEstimateOutGivenExactAmountIn P c1 applyFee route dIn amount s =
      multihopEstimateOutGivenExactAmountIn P c2 applyFee route dIn amount s := by
  unfold multihopEstimateOutGivenExactAmountIn
  rw [estimateInLoop_congr P h]

theorem expectedInsRev_congr : ∀ (route : List StepOut) (dOut : Denom) (out : Int) (acc : List Int) (s : σ),
    expectedInsRev P c1 route dOut out acc s = expectedInsRev P c2 route dOut out acc s
  | [], _, _, _, _ => rfl
  | st :: rest, dOut, out, acc, s => by
    unfold expectedInsRev
    rw [h.fee]
    split
    · rfl
    · split
      · rfl
      · exact expectedInsRev_congr rest st.inDenom _ _ s

theorem createMultihopExpectedSwapOuts_congr (route : List StepOut) (dOut : Denom) (out : Int) (s : σ) :
    createMultihopExpectedSwapOuts P c1 route dOut out s = createMultihopExpectedSwapOuts P c2 route dOut out s := by
  unfold createMultihopExpectedSwapOuts
  rw [expectedInsRev_congr P h]

theorem hopExactOut_congr (sender : Addr) (st : StepOut) (maxIn : Int) (dOut : Denom) (out : Int) (s : σ) :
    hopExactOut P c1 sender st maxIn dOut out s = hopExactOut P c2 sender st maxIn dOut out s := by
  unfold hopExactOut
  split
  · rfl
  · split
    · rfl
    · rw [chargeTakerFee_congr P h]

theorem routeOutLoop_congr (sender : Addr) (route : List StepOut) (ins : List Int) (dOut : Denom) (out : Int) :
    ∀ (k i : Nat) (tin : Int) (acc : List HopRec) (s : σ),
    routeOutLoop P c1 sender route ins dOut out k i tin acc s = routeOutLoop P c2 sender route ins dOut out k i tin acc s
  | 0, _, _, _, _ => rfl
  | k + 1, i, tin, acc, s => by
    unfold routeOutLoop
    split
    · split
      · rfl
      · rw [hopExactOut_congr P h]
        split
        · rfl
        · exact routeOutLoop_congr sender route ins dOut out k (i + 1) _ _ _
    · rfl

theorem routeExactAmountOut_congr (sender : Addr) (route : List StepOut) (maxIn : Int) (dOut : Denom) (out : Int) (s : σ) :
    routeExactAmountOut P c1 sender route maxIn dOut out s = routeExactAmountOut P c2 sender route maxIn dOut out s := by
  unfold routeExactAmountOut
  rw [createMultihopExpectedSwapOuts_congr P h]
  split
  · split
    · rfl
    · split
      · rfl
      · exact routeOutLoop_congr P h sender route _ dOut out _ _ _ _ _
  · rfl

theorem multihopEstimateInGivenExactAmountOut_congr (route : List StepOut) (dOut : Denom) (out : Int) (s : σ) :
    multihopEstimateInGivenExactAmountOut P c1 route dOut out s = multihopEstimateInGivenExactAmountOut P c2 route dOut out s := by
  unfold multihopEstimateInGivenExactAmountOut
  rw [createMultihopExpectedSwapOuts_congr P h]

theorem splitOutLoop_congr (sender : Addr) (dOut : Denom) : ∀ (legs : List LegOut) (total : Int) (acc : List HopRec) (s : σ),
    splitOutLoop P c1 sender dOut legs total acc s = splitOutLoop P c2 sender dOut legs total acc s
  | [], _, _, _ => rfl
  | l :: rest, total, acc, s => by
    unfold splitOutLoop
    rw [routeExactAmountOut_congr P h]
    split
    · rfl
    · cases routeExactAmountOut P c2 sender l.route intMaxValue dOut l.amount s with
      | error e => rfl
      | ok r =>
        obtain ⟨⟨x, recs⟩, s'⟩ := r
        simp only
        cases chkInt (total + x) with
        | none => rfl
        | some t => exact splitOutLoop_congr sender dOut rest t (acc ++ recs) s'

theorem splitRouteExactAmountOut_congr (sender : Addr) (legs : List LegOut) (dOut : Denom) (maxIn : Int) (s : σ) :
    splitRouteExactAmountOut P c1 sender legs dOut maxIn s = splitRouteExactAmountOut P c2 sender legs dOut maxIn s := by
  unfold splitRouteExactAmountOut
  rw [splitOutLoop_congr P h]

end RouterCongr

/-! ## the simulation -/

/-- equal in everything the genesis carries (stores by lookup, volumes by `GetTotalVolumeForPool`), `R` on the fee
configuration; the three stores without genesis field are NOT related -/
structure PMSimG (R : FeeCfg → FeeCfg → Prop) (s t : PMState) : Prop where
  next : s.nextPoolId = t.nextPoolId
  cfg : R s.cfg t.cfg
  adm : s.feeAdmins = t.feeAdmins
  cfee : s.creationFee = t.creationFee
  routes : ∀ id, kget id s.routes = kget id t.routes
  stakers : ∀ d, kget d s.stakers = kget d t.stakers
  community : ∀ d, kget d s.community = kget d t.community
  burn : ∀ d, kget d s.burn = kget d t.burn
  height : s.trackerHeight = t.trackerHeight
  vol : ∀ id, getVolume s id = getVolume t id

/-- one key per store entry (what a KV store gives for free) -/
structure PMWF (s : PMState) : Prop where
  routes : (s.routes.map Prod.fst).Nodup
  stakers : (s.stakers.map Prod.fst).Nodup
  community : (s.community.map Prod.fst).Nodup
  burn : (s.burn.map Prod.fst).Nodup
  volumes : (s.volumes.map Prod.fst).Nodup
  pairs : (s.cfg.pairs.map Prod.fst).Nodup
  next : 0 < s.nextPoolId
  dflt : validDefaultTakerFee s.cfg.default = true
  volRoutes : ∀ id, (kget id s.volumes).isSome = true → (kget id s.routes).isSome = true

theorem increase_lookup_congr {l1 l2 : Coins} (h : ∀ d, kget d l1 = kget d l2) (d0 : Denom) (x : Int) (d : Denom) :
    kget d (increaseCoin l1 d0 x) = kget d (increaseCoin l2 d0 x) := by
  unfold increaseCoin coinOf
  rw [kget_kset, kget_kset, h d0, h d]

theorem getVolume_addVolume (s : PMState) (id : PoolId) (d : Denom) (x : Int) (id' : PoolId) :
    getVolume (addVolume s id d x) id' = if id = id' then increaseCoin (getVolume s id) d x else getVolume s id' := by
  unfold addVolume
  show (match kget id' (kset id (increaseCoin (getVolume s id) d x) s.volumes) with | some v => v | none => []) = _
  rw [kget_kset]
  by_cases e : id = id'
  · rw [if_pos e, if_pos e]
  · rw [if_neg e, if_neg e]; rfl

/-- every operation keeps `PMSimG R` (with equal outcomes) as long as `R` survives what the operation does to the
configuration: `hset` for `SetDenomPairTakerFee`, `hpar` for a parameter change -/
theorem pmStep_sim {R : FeeCfg → FeeCfg → Prop}
    (hset : ∀ c1 c2 d0 d1 f, R c1 c2 → R (setDenomPairTakerFee c1 d0 d1 f) (setDenomPairTakerFee c2 d0 d1 f))
    {s t : PMState} (h : PMSimG R s t) (o : PMOp)
    (hpar : ∀ d wl adm fee, o = .setParams d wl adm fee → validDefaultTakerFee d = true →
      R { s.cfg with default := d, whitelist := wl } { t.cfg with default := d, whitelist := wl }) :
    PMSimG R (pmStep s o).1 (pmStep t o).1 ∧ (pmStep s o).2 = (pmStep t o).2 := by
  cases o with
  | createPool ty =>
    refine ⟨⟨by simp only [pmStep, h.next], h.cfg, h.adm, h.cfee, fun id => ?_, h.stakers, h.community, h.burn, h.height, h.vol⟩,
      by simp only [pmStep, h.next]⟩
    simp only [pmStep, kget_kset, h.next, h.routes]
  | setParams d wl adm fee =>
    by_cases hv : validDefaultTakerFee d = true
    · have e1 : pmStep s (.setParams d wl adm fee) =
          ({ s with cfg := { s.cfg with default := d, whitelist := wl }, feeAdmins := adm, creationFee := fee }, .ok) := by
        simp only [pmStep, hv, if_true]
      have e2 : pmStep t (.setParams d wl adm fee) =
          ({ t with cfg := { t.cfg with default := d, whitelist := wl }, feeAdmins := adm, creationFee := fee }, .ok) := by
        simp only [pmStep, hv, if_true]
      rw [e1, e2]
      exact ⟨⟨h.next, hpar d wl adm fee rfl hv, rfl, rfl, h.routes, h.stakers, h.community, h.burn, h.height, h.vol⟩, rfl⟩
    · have e1 : pmStep s (.setParams d wl adm fee) = (s, .err) := by simp only [pmStep, hv, Bool.false_eq_true, if_false]
      have e2 : pmStep t (.setParams d wl adm fee) = (t, .err) := by simp only [pmStep, hv, Bool.false_eq_true, if_false]
      rw [e1, e2]
      exact ⟨h, rfl⟩
  | setPairFee sender d0 d1 f =>
    by_cases hs : sender ∈ s.feeAdmins
    · have e1 : pmStep s (.setPairFee sender d0 d1 f) = ({ s with cfg := setDenomPairTakerFee s.cfg d0 d1 f }, .ok) := by
        simp only [pmStep, hs, if_true]
      have e2 : pmStep t (.setPairFee sender d0 d1 f) = ({ t with cfg := setDenomPairTakerFee t.cfg d0 d1 f }, .ok) := by
        simp only [pmStep, ← h.adm, hs, if_true]
      rw [e1, e2]
      exact ⟨⟨h.next, hset _ _ d0 d1 f h.cfg, h.adm, h.cfee, h.routes, h.stakers, h.community, h.burn, h.height, h.vol⟩, rfl⟩
    · have e1 : pmStep s (.setPairFee sender d0 d1 f) = (s, .err) := by simp only [pmStep, hs, if_false]
      have e2 : pmStep t (.setPairFee sender d0 d1 f) = (t, .err) := by simp only [pmStep, ← h.adm, hs, if_false]
      rw [e1, e2]
      exact ⟨h, rfl⟩
  | track k d x =>
    cases k with
    | stakers =>
      exact ⟨⟨h.next, h.cfg, h.adm, h.cfee, h.routes, increase_lookup_congr h.stakers d x, h.community, h.burn, h.height, h.vol⟩, rfl⟩
    | community =>
      exact ⟨⟨h.next, h.cfg, h.adm, h.cfee, h.routes, h.stakers, increase_lookup_congr h.community d x, h.burn, h.height, h.vol⟩, rfl⟩
    | burn =>
      exact ⟨⟨h.next, h.cfg, h.adm, h.cfee, h.routes, h.stakers, h.community, increase_lookup_congr h.burn d x, h.height, h.vol⟩, rfl⟩
  | setTrackerHeight hh =>
    exact ⟨⟨h.next, h.cfg, h.adm, h.cfee, h.routes, h.stakers, h.community, h.burn, rfl, h.vol⟩, rfl⟩
  | volume id d x =>
    by_cases hr : (kget id s.routes).isSome = true
    · have e1 : pmStep s (.volume id d x) = (addVolume s id d x, .ok) := by simp only [pmStep, hr, if_true]
      have e2 : pmStep t (.volume id d x) = (addVolume t id d x, .ok) := by simp only [pmStep, ← h.routes id, hr, if_true]
      rw [e1, e2]
      refine ⟨⟨h.next, h.cfg, h.adm, h.cfee, h.routes, h.stakers, h.community, h.burn, h.height, fun id' => ?_⟩, rfl⟩
      rw [getVolume_addVolume, getVolume_addVolume, h.vol id, h.vol id']
    · have e1 : pmStep s (.volume id d x) = (s, .err) := by simp only [pmStep, hr, Bool.false_eq_true, if_false]
      have e2 : pmStep t (.volume id d x) = (t, .err) := by
        simp only [pmStep, ← h.routes id, hr, Bool.false_eq_true, if_false]
      rw [e1, e2]
      exact ⟨h, rfl⟩
  | setAgreement d pct =>
    exact ⟨⟨h.next, h.cfg, h.adm, h.cfee, h.routes, h.stakers, h.community, h.burn, h.height, h.vol⟩, rfl⟩
  | registerAlloyed id =>
    exact ⟨⟨h.next, h.cfg, h.adm, h.cfee, h.routes, h.stakers, h.community, h.burn, h.height, h.vol⟩, rfl⟩
  | accrue sd fd x =>
    exact ⟨⟨h.next, h.cfg, h.adm, h.cfee, h.routes, h.stakers, h.community, h.burn, h.height, h.vol⟩, rfl⟩

/-- `PMWF` along histories -/
theorem pmStep_wf {s : PMState} (h : PMWF s) (o : PMOp) : PMWF (pmStep s o).1 := by
  cases o with
  | createPool ty =>
    refine ⟨kset_nodup _ _ h.routes, h.stakers, h.community, h.burn, h.volumes, h.pairs, Nat.succ_pos _, h.dflt, fun id hv => ?_⟩
    simp only [pmStep, kget_kset]
    split
    · rfl
    · exact h.volRoutes id hv
  | setParams d wl adm fee =>
    by_cases hv : validDefaultTakerFee d = true
    · have e1 : pmStep s (.setParams d wl adm fee) =
          ({ s with cfg := { s.cfg with default := d, whitelist := wl }, feeAdmins := adm, creationFee := fee }, .ok) := by
        simp only [pmStep, hv, if_true]
      rw [e1]
      exact ⟨h.routes, h.stakers, h.community, h.burn, h.volumes, h.pairs, h.next, hv, h.volRoutes⟩
    · have e1 : pmStep s (.setParams d wl adm fee) = (s, .err) := by simp only [pmStep, hv, Bool.false_eq_true, if_false]
      rw [e1]; exact h
  | setPairFee sender d0 d1 f =>
    by_cases hs : sender ∈ s.feeAdmins
    · have e1 : pmStep s (.setPairFee sender d0 d1 f) = ({ s with cfg := setDenomPairTakerFee s.cfg d0 d1 f }, .ok) := by
        simp only [pmStep, hs, if_true]
      rw [e1]
      exact ⟨h.routes, h.stakers, h.community, h.burn, h.volumes, setDenomPairTakerFee_nodup _ _ _ _ h.pairs, h.next,
        by rw [(setDenomPairTakerFee_default s.cfg d0 d1 f).1]; exact h.dflt, h.volRoutes⟩
    · have e1 : pmStep s (.setPairFee sender d0 d1 f) = (s, .err) := by simp only [pmStep, hs, if_false]
      rw [e1]; exact h
  | track k d x =>
    cases k with
    | stakers => exact ⟨h.routes, kset_nodup _ _ h.stakers, h.community, h.burn, h.volumes, h.pairs, h.next, h.dflt, h.volRoutes⟩
    | community => exact ⟨h.routes, h.stakers, kset_nodup _ _ h.community, h.burn, h.volumes, h.pairs, h.next, h.dflt, h.volRoutes⟩
    | burn => exact ⟨h.routes, h.stakers, h.community, kset_nodup _ _ h.burn, h.volumes, h.pairs, h.next, h.dflt, h.volRoutes⟩
  | setTrackerHeight hh => exact ⟨h.routes, h.stakers, h.community, h.burn, h.volumes, h.pairs, h.next, h.dflt, h.volRoutes⟩
  | volume id d x =>
    by_cases hr : (kget id s.routes).isSome = true
    · have e1 : pmStep s (.volume id d x) = (addVolume s id d x, .ok) := by simp only [pmStep, hr, if_true]
      rw [e1]
      refine ⟨h.routes, h.stakers, h.community, h.burn, kset_nodup _ _ h.volumes, h.pairs, h.next, h.dflt, fun id' hv => ?_⟩
      simp only [addVolume, kget_kset] at hv
      by_cases e : id = id'
      · rw [← e]; exact hr
      · rw [if_neg e] at hv; exact h.volRoutes id' hv
    · have e1 : pmStep s (.volume id d x) = (s, .err) := by simp only [pmStep, hr, Bool.false_eq_true, if_false]
      rw [e1]; exact h
  | setAgreement d pct => exact ⟨h.routes, h.stakers, h.community, h.burn, h.volumes, h.pairs, h.next, h.dflt, h.volRoutes⟩
  | registerAlloyed id => exact ⟨h.routes, h.stakers, h.community, h.burn, h.volumes, h.pairs, h.next, h.dflt, h.volRoutes⟩
  | accrue sd fd x => exact ⟨h.routes, h.stakers, h.community, h.burn, h.volumes, h.pairs, h.next, h.dflt, h.volRoutes⟩

theorem pmRun_wf {s : PMState} (h : PMWF s) : ∀ ops, PMWF (pmRun s ops)
  | [] => h
  | o :: os => pmRun_wf (pmStep_wf h o) os

theorem pmInit_wf : PMWF pmInit :=
  ⟨List.nodup_nil, List.nodup_nil, List.nodup_nil, List.nodup_nil, List.nodup_nil, List.nodup_nil, Nat.one_pos, by decide,
    fun _ h => by cases h⟩

/-! ## the import of an export -/

/-- what the imported override store answers: the exported override unless it EQUALS the default taker fee -/
def importedPair (s : PMState) (k : Denom × Denom) : Option Int :=
  match kget k s.cfg.pairs with
  | some f => if f = s.cfg.default then none else some f
  | none => none

/-- the state `InitGenesis` builds from the export of `s` -/
def pmImported (s : PMState) : PMState :=
  { nextPoolId := s.nextPoolId, feeAdmins := s.feeAdmins, creationFee := s.creationFee,
    routes := s.routes.foldl (fun a r => kset r.1 r.2 a) [],
    stakers := s.stakers.foldl (fun a c => increaseCoin a c.1 c.2) [],
    community := s.community.foldl (fun a c => increaseCoin a c.1 c.2) [],
    burn := s.burn.foldl (fun a c => increaseCoin a c.1 c.2) [],
    trackerHeight := s.trackerHeight,
    volumes := (s.routes.map fun r => (r.1, getVolume s r.1)).foldl (fun a v => kset v.1 v.2 a) [],
    cfg := s.cfg.pairs.foldl (fun c e => setDenomPairTakerFee c e.1.1 e.1.2 e.2) ⟨s.cfg.default, [], s.cfg.whitelist⟩ }

theorem pmExportImport_some {s : PMState} (h : PMWF s) : pmExportImport s = some (pmImported s) := by
  have hnext : s.nextPoolId ≠ 0 := Nat.pos_iff_ne_zero.mp h.next
  unfold pmExportImport pmInitGenesis pmExportGenesis pmImported
  simp only [hnext, h.dflt, if_false, Bool.not_true, Bool.false_eq_true]

theorem pmImported_pairs {s : PMState} (h : PMWF s) :
    (pmImported s).cfg.default = s.cfg.default ∧ (pmImported s).cfg.whitelist = s.cfg.whitelist ∧
    ∀ k, kget k (pmImported s).cfg.pairs = importedPair s k := by
  obtain ⟨p1, p2, _⟩ := foldl_setPair_lookup ("", "") s.cfg.pairs ⟨s.cfg.default, [], s.cfg.whitelist⟩ h.pairs
  refine ⟨p1, p2, fun k => ?_⟩
  show kget k (s.cfg.pairs.foldl (fun c e => setDenomPairTakerFee c e.1.1 e.1.2 e.2) ⟨s.cfg.default, [], s.cfg.whitelist⟩).pairs = _
  rw [(foldl_setPair_lookup k s.cfg.pairs ⟨s.cfg.default, [], s.cfg.whitelist⟩ h.pairs).2.2]
  unfold importedPair
  cases kget k s.cfg.pairs <;> rfl

theorem pmImported_volumes {s : PMState} (h : PMWF s) (id : PoolId) :
    kget id (pmImported s).volumes = if (kget id s.routes).isSome then some (getVolume s id) else none := by
  have hvolkeys : ((s.routes.map fun r => (r.1, getVolume s r.1)).map Prod.fst) = s.routes.map Prod.fst := by
    rw [List.map_map]; rfl
  show kget id ((s.routes.map fun r => (r.1, getVolume s r.1)).foldl (fun a v => kset v.1 v.2 a) []) = _
  rw [foldl_kset_lookup id _ [] (by rw [hvolkeys]; exact h.routes)]
  have : ∀ (l : List (PoolId × Nat)), kget id (l.map fun r => (r.1, getVolume s r.1)) =
      if (kget id l).isSome then some (getVolume s id) else none := by
    intro l
    induction l with
    | nil => rfl
    | cons r rs ih =>
      rw [List.map_cons, kget_cons, kget_cons, ih]
      by_cases e : r.1 = id
      · rw [if_pos e, if_pos e, e]; rfl
      · rw [if_neg e, if_neg e]
  rw [this]
  by_cases e : (kget id s.routes).isSome = true
  · rw [if_pos e]
  · rw [if_neg e]; rfl

/-- **export → import, exactly**: on a well-formed store `InitGenesis` does not panic; the imported store equals the exported
one by lookup in every store the genesis carries, EXCEPT that overrides equal to the default taker fee are gone; every exported
pool has a (possibly empty) volume entry; the share agreements, alloyed-pool registrations and skim accumulators are EMPTY. -/
theorem pmExportImport_eq {s : PMState} (h : PMWF s) :
    pmExportImport s = some (pmImported s) ∧ PMSimG FeeEq s (pmImported s) ∧
      (∀ k, kget k (pmImported s).cfg.pairs = importedPair s k) ∧
      (∀ id, kget id (pmImported s).volumes = if (kget id s.routes).isSome then some (getVolume s id) else none) ∧
      (pmImported s).agreements = [] ∧ (pmImported s).alloyed = [] ∧ (pmImported s).accrued = [] ∧ PMWF (pmImported s) := by
  obtain ⟨p1, p2, p3⟩ := pmImported_pairs h
  have hvol := pmImported_volumes h
  refine ⟨pmExportImport_some h, ⟨rfl, ⟨p1.symm, p2.symm, fun a b => ?_⟩, rfl, rfl, fun id => ?_, fun d => ?_, fun d => ?_, fun d => ?_,
    rfl, fun id => ?_⟩, p3, hvol, rfl, rfl, rfl, ?_⟩
  · rw [getFee_kget, getFee_kget, p3, p1]
    unfold importedPair
    cases kget (a, b) s.cfg.pairs with
    | none => rfl
    | some f =>
      simp only
      by_cases e : f = s.cfg.default
      · rw [if_pos e, e]
      · rw [if_neg e]
  · show _ = kget id (s.routes.foldl (fun a r => kset r.1 r.2 a) [])
    rw [foldl_kset_lookup id s.routes [] h.routes]
    cases kget id s.routes <;> rfl
  · show _ = kget d (s.stakers.foldl (fun a c => increaseCoin a c.1 c.2) [])
    rw [foldl_increase_lookup d s.stakers [] h.stakers (fun _ _ => rfl)]
    cases kget d s.stakers <;> rfl
  · show _ = kget d (s.community.foldl (fun a c => increaseCoin a c.1 c.2) [])
    rw [foldl_increase_lookup d s.community [] h.community (fun _ _ => rfl)]
    cases kget d s.community <;> rfl
  · show _ = kget d (s.burn.foldl (fun a c => increaseCoin a c.1 c.2) [])
    rw [foldl_increase_lookup d s.burn [] h.burn (fun _ _ => rfl)]
    cases kget d s.burn <;> rfl
  · unfold getVolume
    rw [hvol]
    cases hr : kget id s.routes with
    | none =>
      simp only [Option.isSome_none, Bool.false_eq_true, if_false]
      cases hv : kget id s.volumes with
      | none => rfl
      | some v =>
        have := h.volRoutes id (by rw [hv]; rfl)
        rw [hr] at this
        cases this
    | some ty => simp only [Option.isSome_some, if_true]; rfl
  · refine ⟨foldl_kset_nodup _ _ List.nodup_nil, foldl_increase_nodup _ _ List.nodup_nil, foldl_increase_nodup _ _ List.nodup_nil,
      foldl_increase_nodup _ _ List.nodup_nil, foldl_kset_nodup _ _ List.nodup_nil, foldl_setPair_nodup _ _ List.nodup_nil,
      h.next, by rw [p1]; exact h.dflt, fun id hv => ?_⟩
    rw [hvol] at hv
    show (kget id (s.routes.foldl (fun a r => kset r.1 r.2 a) [])).isSome = true
    rw [foldl_kset_lookup id s.routes [] h.routes]
    cases hr : kget id s.routes with
    | none => rw [hr] at hv; simp at hv
    | some ty => rfl

end OsmoVerif.Router
