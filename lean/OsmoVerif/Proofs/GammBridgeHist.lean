/-
Bridge C02 ⟷ C04, part 5: liquidity messages, the whole-message theorem `step_bridge`, and histories.
-/
import OsmoVerif.Proofs.GammBridgeSteps

namespace OsmoVerif.Gamm
open OsmoVerif.Ledger OsmoVerif.Ledger.Bank OsmoVerif.Num

/-! ## liquidity messages -/

/-- `MsgJoinPool` whose pool-model result is Model/Gamm's: the pool joined EXACTLY the coins the keeper transfers
(`join_in_contract`), so the history stays inside the contract. -/
theorem joinPool_bridge (cfg : Cfg) {s s' : State} {u id : Nat} {shareOut : Int} {maxs : Coins} {math : Option (Int × Coins)} {p : Pool}
    (h : joinPool s u id shareOut maxs math = some s') (hp : getPool s.pools id = some p) (hok : PoolsOK s)
    (ht : ∀ needed, getMaximalNoSwapLPAmount p shareOut = some needed → (Call.joinNoSwap p id needed math).tied cfg = true) :
    PoolsOK s' ∧ s'.clean = s.clean := by
  have h0 := h
  unfold joinPool at h
  simp only [Option.bind_eq_bind, Option.bind_eq_some_iff, require_eq_some] at h
  obtain ⟨p0, hp0, needed, hn, _, _, ⟨sh, joined⟩, hm, p', hrec, happ⟩ := h
  rw [hp] at hp0; injection hp0 with hp0; subst hp0
  subst hm
  have hpk := hok id p hp
  have htie := ht needed hn
  simp only [Call.tied, Option.map_some, decide_eq_true_eq] at htie
  have hj := gmJoinNoSwap_joined (cfg id) hpk hn htie.symm
  obtain ⟨ratio, hr, hf⟩ := getMaximalNoSwapLPAmount_spec hpk hn
  obtain ⟨hk, hall⟩ := forall₂_keys hf
  have hmemN : ∀ c ∈ needed, c.1 ∈ keys p.reserves := by
    intro c hc
    rw [← hk]; simp only [keys, List.mem_map]; exact ⟨c, hc, rfl⟩
  have hjn : joined = needed := nameCoins_inj p.reserves hpk.nodup joined needed hj (recJoin_keys hrec) hmemN
  subst hjn
  have hc := joinPool_clean h0 hp
  rw [hn] at hc
  obtain ⟨r1, _⟩ := recJoin_PoolOK hrec hpk (fun c hc => by have := (hall c hc).1; omega)
  unfold applyJoin at happ
  simp only [Option.bind_eq_bind, Option.bind_eq_some_iff] at happ
  obtain ⟨b1, _, b2, _, happ⟩ := happ
  injection happ with happ; subst happ
  exact ⟨hok.setPool r1 rfl, by rw [hc]; simp⟩

theorem applyJoin_frame {s s' : State} {u id : Nat} {p' : Pool} {n : Int} {cs : Coins} {ok : Bool}
    (h : applyJoin s u id p' n cs ok = some s') : s'.pools = setPool s.pools id p' ∧ s'.clean = (s.clean && ok) := by
  unfold applyJoin at h
  simp only [Option.bind_eq_bind, Option.bind_eq_some_iff] at h
  obtain ⟨b1, _, b2, _, h⟩ := h
  injection h with h; subst h
  exact ⟨rfl, rfl⟩

theorem applyExit_frame {s s' : State} {u id : Nat} {p' : Pool} {n : Int} {cs : Coins} {ok : Bool}
    (h : applyExit s u id p' n cs ok = some s') : s'.pools = setPool s.pools id p' ∧ s'.clean = (s.clean && ok) := by
  unfold applyExit at h
  simp only [Option.bind_eq_bind, Option.bind_eq_some_iff] at h
  obtain ⟨b1, _, b2, _, h⟩ := h
  injection h with h; subst h
  exact ⟨rfl, rfl⟩

theorem joinSwapExternAmountIn_bridge {s s' : State} {u id : Nat} {din : Denom} {amt minShares : Int} {math : Option Int}
    (h : joinSwapExternAmountIn s u id din amt minShares math = some s') (hok : PoolsOK s) :
    PoolsOK s' ∧ s'.clean = s.clean := by
  unfold joinSwapExternAmountIn at h
  simp only [Option.bind_eq_bind, Option.bind_eq_some_iff, require_eq_some] at h
  obtain ⟨p, hp, sh, _, p', hrec, _, _, _, _, happ⟩ := h
  obtain ⟨f1, f2⟩ := applyJoin_frame happ
  -- the bank refuses a non-positive coin
  have hamt : 0 < amt := by
    unfold applyJoin at happ
    simp only [Option.bind_eq_bind, Option.bind_eq_some_iff] at happ
    obtain ⟨b1, hb1, _⟩ := happ
    simp only [Bank.sendCoins, Option.bind_eq_some_iff] at hb1
    obtain ⟨b0, hb0, _⟩ := hb1
    exact (send_pos hb0).1
  obtain ⟨r1, _⟩ := recJoin_PoolOK hrec (hok id p hp) (fun c hc => by
    simp only [List.mem_singleton] at hc; subst hc; simp only; omega)
  exact ⟨hok.setPool r1 f1, by rw [f2, Bool.and_true]⟩

theorem joinSwapShareAmountOut_bridge {s s' : State} {u id : Nat} {din : Denom} {shareOut maxIn : Int} {math : Option Int}
    (h : joinSwapShareAmountOut s u id din shareOut maxIn math = some s') (hok : PoolsOK s) :
    PoolsOK s' ∧ s'.clean = s.clean := by
  unfold joinSwapShareAmountOut at h
  simp only [Option.bind_eq_bind, Option.bind_eq_some_iff, require_eq_some, decide_eq_true_eq] at h
  obtain ⟨p, hp, _, _, tin, _, _, _, _, h0, p', hrec, happ⟩ := h
  obtain ⟨f1, f2⟩ := applyJoin_frame happ
  obtain ⟨r1, _⟩ := recJoin_PoolOK hrec (hok id p hp) (fun c hc => by
    split at hc
    · cases hc
    · simp only [List.mem_singleton] at hc; subst hc; exact h0)
  exact ⟨hok.setPool r1 f1, by rw [f2, Bool.and_true]⟩

/-- `MsgExitPool` whose pool-model result is Model/Gamm's: no exit amount is a whole reserve (`exit_in_contract`). -/
theorem exitPool_bridge (cfg : Cfg) {s s' : State} {u id : Nat} {shareIn : Int} {mins cs : Coins} {math : Option Coins} {p : Pool}
    (h : exitPool s u id shareIn mins math = some (s', cs)) (hp : getPool s.pools id = some p) (hok : PoolsOK s)
    (ht : (Call.exit p id shareIn math).tied cfg = true) :
    PoolsOK s' ∧ s'.clean = s.clean := by
  have h0 := h
  unfold exitPool at h
  simp only [Option.bind_eq_bind, Option.bind_eq_some_iff, require_eq_some] at h
  obtain ⟨p0, hp0, _, _, _, _, ec, hm, ⟨p', ok⟩, hrec, _, _, s1, happ, h⟩ := h
  injection h with h; injection h with h1 h2; subst h1; subst h2
  rw [hp] at hp0; injection hp0 with hp0; subst hp0
  subst hm
  have hpk := hok id p hp
  simp only [Call.tied, Option.map_some, decide_eq_true_eq] at ht
  obtain ⟨c1, c2⟩ := gmExit_contract (cfg id) hpk ht.symm
  rw [names_nameCoins] at c1
  obtain ⟨r1, r2⟩ := recExit_PoolOK hrec hpk
  have hnd : denomsNodup ec = true := denomsNodup_of_names ec (c1.nodup hpk.nodup)
  have hne : ∀ c, c ∈ ec → c.2 ≠ p.res c.1 := by
    intro c hc
    obtain ⟨a, ha, _, hlt⟩ := c2 (dname c.1) c.2 (by
      simp only [nameCoins, List.mem_map]; exact ⟨c, hc, rfl⟩)
    simp only [nameCoins, List.mem_map, Prod.mk.injEq] at ha
    obtain ⟨r, hr, hrn, hra⟩ := ha
    have hrk : r.1 ∈ keys p.reserves := by simp only [keys, List.mem_map]; exact ⟨r, hr, rfl⟩
    have e := eq_of_dname_eq p.reserves hpk.nodup r.1 c.1 hrk (r2 c hc) hrn
    have : p.res c.1 = a := by
      show aget p.reserves c.1 = a
      rw [← e, ← hra]; exact aget_of_mem p.reserves hpk.nodup r.1 r.2 hr
    omega
  have hc := exitPool_clean h0 hp hnd hne
  obtain ⟨f1, _⟩ := applyExit_frame happ
  exact ⟨hok.setPool r1 f1, hc⟩

theorem exitPool_pool {s s' : State} {u id : Nat} {shareIn : Int} {mins cs : Coins} {math : Option Coins}
    (h : exitPool s u id shareIn mins math = some (s', cs)) : ∃ p, getPool s.pools id = some p := by
  unfold exitPool at h
  simp only [Option.bind_eq_bind, Option.bind_eq_some_iff] at h
  obtain ⟨p, hp, _⟩ := h
  exact ⟨p, hp⟩

theorem exitSwapLoop_bridge {u id : Nat} {dout : Denom} : ∀ (cs : Coins) (ms : List (Option Int)) {s s' : State} {acc t : Int},
    exitSwapLoop s u id dout acc cs ms = some (s', t) → PoolsOK s →
    PoolsOK s' ∧ s'.clean = (s.clean && (exitSwapCalls s u id dout cs ms).all (fun c => !c.entireReserve)) ∧
    ∀ c ∈ exitSwapCalls s u id dout cs ms, c.recOK
  | [], _, s, s', acc, t, h, hok => by
    simp only [exitSwapLoop] at h; injection h with h; injection h with h1 _; subst h1
    exact ⟨hok, by simp [exitSwapCalls], fun c hc => by simp [exitSwapCalls] at hc⟩
  | (d, a) :: cs, ms, s, s', acc, t, h, hok => by
    simp only [exitSwapLoop] at h
    simp only [exitSwapCalls]
    split at h
    · rename_i hd
      rw [if_pos hd]
      exact exitSwapLoop_bridge cs ms h hok
    · rename_i hd
      rw [if_neg hd]
      split at h
      · cases h
      · rename_i m ms'
        simp only [Option.bind_eq_bind, Option.bind_eq_some_iff] at h
        obtain ⟨⟨s1, o⟩, h1, h2⟩ := h
        obtain ⟨p, hp⟩ := gammSwapIn_pool h1
        obtain ⟨a1, a2⟩ := gammSwapIn_bridge h1 hp hok
        obtain ⟨b1, b2, b3⟩ := exitSwapLoop_bridge cs ms' h2 a1
        refine ⟨b1, ?_, ?_⟩
        · simp only [poolCall_some hp, h1, List.all_append, List.all_cons, List.all_nil, Bool.and_true]
          rw [b2, a2, Bool.and_assoc]
        · intro c hc
          simp only [poolCall_some hp, h1, List.mem_append, List.mem_singleton] at hc
          rcases hc with hc | hc
          · rw [hc]; exact hok _ _ hp
          · exact b3 c hc

/-- `MsgExitSwapExternAmountOut` whose pool-model result is Model/Gamm's: the amount out is below the reserve. -/
theorem exitSwapExternAmountOut_bridge (cfg : Cfg) (hcfg : CfgOK cfg) {s s' : State} {u id : Nat} {dout : Denom} {amtOut : Int}
    {math : Option Int} {p : Pool}
    (h : exitSwapExternAmountOut s u id dout amtOut math = some s') (hp : getPool s.pools id = some p) (hok : PoolsOK s)
    (ht : (Call.exitSwapOut p id dout amtOut math).tied cfg = true) :
    PoolsOK s' ∧ s'.clean = s.clean := by
  unfold exitSwapExternAmountOut at h
  simp only [Option.bind_eq_bind, Option.bind_eq_some_iff, require_eq_some, decide_eq_true_eq] at h
  obtain ⟨p0, hp0, _, _, sh, hm, _, _, ⟨p', ok⟩, hrec, happ⟩ := h
  rw [hp] at hp0; injection hp0 with hp0; subst hp0
  subst hm
  have hpk := hok id p hp
  simp only [Call.tied, decide_eq_true_eq] at ht
  obtain ⟨r1, r2⟩ := recExit_PoolOK hrec hpk
  obtain ⟨f1, f2⟩ := applyExit_frame happ
  refine ⟨hok.setPool r1 f1, ?_⟩
  rw [f2]
  have hokk : ok = true := by
    unfold recExit at hrec
    cases h1 : recSubCoins p (if amtOut = 0 then [] else [(dout, amtOut)]) with
    | none => rw [h1] at hrec; cases hrec
    | some r =>
      rw [h1] at hrec
      simp only [Option.map_some] at hrec
      injection hrec with hrec; injection hrec with _ h3
      rw [← h3]
      refine recSubCoins_ok_of _ (p := p) (p' := r.1) (ok := r.2) (by rw [h1]) ?_ ?_
      · split <;> rfl
      · intro c hc
        split at hc
        · cases hc
        · simp only [List.mem_singleton] at hc; subst hc
          have hmem := r2 (dout, amtOut) (by rw [if_neg (by assumption)]; exact List.mem_singleton.mpr rfl)
          have := gmExitSwapOut_lt cfg hcfg id hpk hmem ht
          exact Int.ne_of_lt this
  rw [hokk, Bool.and_true]

/-- names of the initial liquidity of a `createPool` message are pairwise distinct (always true on a real chain,
where a denom IS its name; the structured `Denom` of the model could otherwise contain `tok "gamm/pool/1"` next to
`share 1`). -/
def Msg.namesOK : Msg → Prop
  | .createPool _ _ liq => (names liq).Nodup
  | _ => True

theorem createPool_bridge {s s' : State} {u : Nat} {kind : Kind} {liq : Coins}
    (h : createPool s u kind liq = some s') (hok : PoolsOK s) (hn : (names liq).Nodup) :
    PoolsOK s' ∧ s'.clean = s.clean := by
  unfold createPool at h
  simp only [Option.bind_eq_bind, Option.bind_eq_some_iff, require_eq_some] at h
  obtain ⟨_, hv, b1, _, b2, _, b3, _, h⟩ := h
  injection h with h; subst h
  refine ⟨hok.setPool (p' := ⟨kind, liq, Gen.Gamm.InitPoolSharesSupply⟩) ⟨hn, ?_⟩ rfl, rfl⟩
  simp only [validLiquidity, Bool.and_eq_true, List.all_eq_true, decide_eq_true_eq] at hv
  exact fun c hc => hv.1.2 c hc

/-! ## the whole message -/

/-- FULL. Every successful message from a state with `PoolOK` records, whose pool-model results are those of
Model/Gamm (`tied`), keeps the records `PoolOK`, and it leaves the pool-math contract (`clean`) EXACTLY when one of
its balancer `SwapOutAmtGivenIn` calls answered with the entire out-reserve. -/
theorem step_bridge (cfg : Cfg) (hcfg : CfgOK cfg) {s s' : State} {m : Msg} (h : step s m = some s')
    (hok : PoolsOK s) (hn : m.namesOK) (ht : ∀ c ∈ calls s m, c.tiedLP cfg = true) :
    PoolsOK s' ∧ s'.clean = (s.clean && (calls s m).all (fun c => !c.entireReserve)) ∧
    ∀ c ∈ calls s m, c.recOK := by
  cases m with
  | createPool u k liq =>
    obtain ⟨r1, r2⟩ := createPool_bridge h hok hn
    exact ⟨r1, by simp [calls, r2], fun c hc => by simp [calls] at hc⟩
  | joinPool u id sh maxs mt =>
    simp only [step] at h
    have h0 := h
    unfold joinPool at h0
    simp only [Option.bind_eq_bind, Option.bind_eq_some_iff] at h0
    obtain ⟨p, hp, needed, hnd, _⟩ := h0
    have hcalls : calls s (.joinPool u id sh maxs mt) = [.joinNoSwap p id needed mt] := by
      simp only [calls, hp, hnd]
    obtain ⟨r1, r2⟩ := joinPool_bridge cfg h hp hok (fun nd hnd' => by
      rw [hnd] at hnd'; injection hnd' with hnd'; subst hnd'
      exact ht (.joinNoSwap p id needed mt) (by rw [hcalls]; exact List.mem_singleton.mpr rfl))
    exact ⟨r1, by rw [hcalls, r2]; simp [Call.entireReserve], fun c hc => by
      rw [hcalls] at hc; simp only [List.mem_singleton] at hc; rw [hc]; trivial⟩
  | joinSwapExternAmountIn u id d a ms mt =>
    simp only [step] at h
    obtain ⟨r1, r2⟩ := joinSwapExternAmountIn_bridge h hok
    refine ⟨r1, ?_, fun c hc => by
      simp only [calls] at hc; obtain ⟨p, hc⟩ := mem_poolCall hc; rw [hc]; trivial⟩
    rw [r2, all_not_entire (fun c hc => by
      simp only [calls] at hc; obtain ⟨p, hc⟩ := mem_poolCall hc; rw [hc]; rfl), Bool.and_true]
  | joinSwapShareAmountOut u id d sh mx mt =>
    simp only [step] at h
    obtain ⟨r1, r2⟩ := joinSwapShareAmountOut_bridge h hok
    refine ⟨r1, ?_, fun c hc => by
      simp only [calls] at hc; obtain ⟨p, hc⟩ := mem_poolCall hc; rw [hc]; trivial⟩
    rw [r2, all_not_entire (fun c hc => by
      simp only [calls] at hc; obtain ⟨p, hc⟩ := mem_poolCall hc; rw [hc]; rfl), Bool.and_true]
  | exitPool u id sh mins mt =>
    simp only [step, Option.map_eq_some_iff] at h
    obtain ⟨⟨s1, cs⟩, h, hs⟩ := h
    simp only at hs; subst hs
    obtain ⟨p, hp⟩ := exitPool_pool h
    have hcalls : calls s (.exitPool u id sh mins mt) = [.exit p id sh mt] := by
      simp only [calls, poolCall_some hp]
    obtain ⟨r1, r2⟩ := exitPool_bridge cfg h hp hok (ht (.exit p id sh mt) (by rw [hcalls]; exact List.mem_singleton.mpr rfl))
    exact ⟨r1, by rw [hcalls, r2]; simp [Call.entireReserve], fun c hc => by
      rw [hcalls] at hc; simp only [List.mem_singleton] at hc; rw [hc]; trivial⟩
  | exitSwapShareAmountIn u id d sh mn mt ms =>
    simp only [step, Option.map_eq_some_iff] at h
    obtain ⟨⟨s2, tot⟩, h, hs⟩ := h
    simp only at hs; subst hs
    unfold exitSwapShareAmountIn at h
    simp only [Option.bind_eq_bind, Option.bind_eq_some_iff, require_eq_some] at h
    obtain ⟨⟨s1, ec⟩, h1, ⟨s2', tot'⟩, h2, _, _, h⟩ := h
    injection h with h; injection h with h3 _; subst h3
    obtain ⟨p, hp⟩ := exitPool_pool h1
    have hcalls : calls s (.exitSwapShareAmountIn u id d sh mn mt ms) =
        [.exit p id sh mt] ++ exitSwapCalls s1 u id d ec ms := by
      simp only [calls, poolCall_some hp, h1]
    obtain ⟨a1, a2⟩ := exitPool_bridge cfg h1 hp hok (ht (.exit p id sh mt) (by rw [hcalls]; simp))
    obtain ⟨b1, b2, b3⟩ := exitSwapLoop_bridge ec ms h2 a1
    refine ⟨b1, ?_, ?_⟩
    · rw [hcalls, List.all_append, b2, a2]
      simp [Call.entireReserve]
    · intro c hc
      rw [hcalls] at hc
      simp only [List.mem_append, List.mem_singleton] at hc
      rcases hc with hc | hc
      · rw [hc]; trivial
      · exact b3 c hc
  | exitSwapExternAmountOut u id d a mt =>
    simp only [step] at h
    have h0 := h
    unfold exitSwapExternAmountOut at h0
    simp only [Option.bind_eq_bind, Option.bind_eq_some_iff] at h0
    obtain ⟨p, hp, _⟩ := h0
    have hcalls : calls s (.exitSwapExternAmountOut u id d a mt) = [.exitSwapOut p id d a mt] := by
      simp only [calls, poolCall_some hp]
    obtain ⟨r1, r2⟩ := exitSwapExternAmountOut_bridge cfg hcfg h hp hok (ht (.exitSwapOut p id d a mt) (by rw [hcalls]; exact List.mem_singleton.mpr rfl))
    exact ⟨r1, by rw [hcalls, r2]; simp [Call.entireReserve], fun c hc => by
      rw [hcalls] at hc; simp only [List.mem_singleton] at hc; rw [hc]; trivial⟩
  | swapExactAmountIn u d a mn hops =>
    simp only [step, Option.map_eq_some_iff] at h
    obtain ⟨⟨s1, out⟩, h, hs⟩ := h
    simp only at hs; subst hs
    unfold routeExactAmountIn at h
    split at h
    · cases h
    · exact routeInLoop_bridge hops h hok
  | swapExactAmountOut u mx d a hops =>
    simp only [step, Option.map_eq_some_iff] at h
    obtain ⟨⟨s1, paid⟩, h, hs⟩ := h
    simp only at hs; subst hs
    unfold routeExactAmountOut at h
    simp only [Option.bind_eq_bind, Option.bind_eq_some_iff] at h
    obtain ⟨_, _, ins, hins, h⟩ := h
    split at h
    · cases h
    · rename_i e0 es
      obtain ⟨r1, r2⟩ := routeOutLoop_bridge hops _ h hok
      refine ⟨r1, ?_, fun c hc => by
        simp only [calls, hins, List.mem_append] at hc
        rcases hc with hc | hc
        · exact estCalls_recOK _ _ _ c hc
        · exact routeOutCalls_recOK _ _ _ c hc⟩
      rw [r2, all_not_entire (fun c hc => by
        simp only [calls, hins, List.mem_append] at hc
        rcases hc with hc | hc
        · exact estCalls_not_entire _ _ _ c hc
        · exact routeOutCalls_not_entire _ _ _ c hc), Bool.and_true]
  | bankSend u dst d a =>
    simp only [step] at h
    unfold bankSend at h
    simp only [Option.bind_eq_bind, Option.bind_eq_some_iff] at h
    obtain ⟨b, _, h⟩ := h
    injection h with h; subst h
    exact ⟨hok.of_pools rfl, by simp [calls], fun c hc => by simp [calls] at hc⟩

/-! ## histories -/

def opCalls (s : State) : Op → List Call
  | .msg m => calls s m
  | _ => []

/-- **the pool-math results of a history are those of Model/Gamm**: every pool-model result on every op line is the
result of the Model/Gamm function applied to the pool record in the state in which the keeper makes that call. -/
def mathIsGamm (cfg : Cfg) : State → List Op → Bool
  | _, [] => true
  | s, o :: os => (opCalls s o).all (Call.tied cfg) && mathIsGamm cfg (applyOp s o) os

/-- the weaker tie that the ledger theorems need (`Call.tiedLP`). -/
def lpMathIsGamm (cfg : Cfg) : State → List Op → Bool
  | _, [] => true
  | s, o :: os => (opCalls s o).all (Call.tiedLP cfg) && lpMathIsGamm cfg (applyOp s o) os

theorem lpMathIsGamm_of_mathIsGamm (cfg : Cfg) : ∀ (ops : List Op) (s : State), mathIsGamm cfg s ops = true →
    lpMathIsGamm cfg s ops = true
  | [], _, _ => rfl
  | o :: os, s, h => by
    simp only [mathIsGamm, Bool.and_eq_true, List.all_eq_true] at h
    simp only [lpMathIsGamm, Bool.and_eq_true, List.all_eq_true]
    exact ⟨fun c hc => Call.tiedLP_of_tied (h.1 c hc), lpMathIsGamm_of_mathIsGamm cfg os _ h.2⟩

/-- the F13 events of a history: the balancer `SwapOutAmtGivenIn` calls of SUCCESSFUL messages that answered with the
entire out-reserve. -/
def entireReserveSwaps : State → List Op → List Call
  | _, [] => []
  | s, o :: os =>
    (match o with
     | .msg m => if (step s m).isSome then (calls s m).filter Call.entireReserve else []
     | _ => []) ++ entireReserveSwaps (applyOp s o) os

/-- every `createPool` of the history lists pairwise distinct denom names. -/
def OpsNamesOK (ops : List Op) : Prop := ∀ m, Op.msg m ∈ ops → m.namesOK

theorem all_not_eq_filter_isEmpty (l : List Call) :
    l.all (fun c => !c.entireReserve) = (l.filter Call.entireReserve).isEmpty := by
  induction l with
  | nil => rfl
  | cons c l ih =>
    simp only [List.all_cons, List.filter_cons]
    cases hc : c.entireReserve with
    | true => simp
    | false => simpa using ih

theorem applyOp_bridge (cfg : Cfg) (hcfg : CfgOK cfg) (s : State) (o : Op) (hok : PoolsOK s)
    (hn : ∀ m, o = .msg m → m.namesOK) (ht : (opCalls s o).all (Call.tiedLP cfg) = true) :
    PoolsOK (applyOp s o) ∧
    (applyOp s o).clean = (s.clean && (entireReserveSwaps s [o]).isEmpty) := by
  cases o with
  | msg m =>
    simp only [applyOp, apply, entireReserveSwaps, List.append_nil]
    cases hs : step s m with
    | none => simp [hok]
    | some s' =>
      obtain ⟨r1, r2, _⟩ := step_bridge cfg hcfg hs hok (hn m rfl) (fun c hc => by
        rw [List.all_eq_true] at ht; exact ht c hc)
      simp only [Option.isSome_some, if_true]
      exact ⟨r1, by rw [r2, all_not_eq_filter_isEmpty]⟩
  | fund u n a =>
    simp only [applyOp, entireReserveSwaps, List.append_nil, List.isEmpty_nil, Bool.and_true]
    unfold fund
    cases hb : s.bank.mint (.user u) (.tok n) a with
    | none => exact ⟨hok, rfl⟩
    | some b => exact ⟨hok.of_pools rfl, rfl⟩
  | setParams p =>
    simp only [applyOp, entireReserveSwaps, List.append_nil, List.isEmpty_nil, Bool.and_true]
    exact ⟨hok.of_pools rfl, trivial⟩

theorem isEmpty_append' {α : Type} (l1 l2 : List α) : (l1 ++ l2).isEmpty = (l1.isEmpty && l2.isEmpty) := by
  cases l1 <;> simp

theorem entireReserveSwaps_cons (s : State) (o : Op) (os : List Op) :
    entireReserveSwaps s (o :: os) = entireReserveSwaps s [o] ++ entireReserveSwaps (applyOp s o) os := by
  simp only [entireReserveSwaps, List.append_nil]

/-- FULL. Over ANY history whose pool-math results are those of Model/Gamm: the final state is inside the pool-math
contract iff no F13 event happened; all records keep distinct names and positive reserves. -/
theorem runOps_bridge (cfg : Cfg) (hcfg : CfgOK cfg) : ∀ (ops : List Op) (s : State), PoolsOK s → OpsNamesOK ops →
    lpMathIsGamm cfg s ops = true →
    PoolsOK (runOps s ops) ∧ (runOps s ops).clean = (s.clean && (entireReserveSwaps s ops).isEmpty)
  | [], s, hok, _, _ => ⟨hok, by simp [runOps, entireReserveSwaps]⟩
  | o :: os, s, hok, hn, hm => by
    simp only [lpMathIsGamm, Bool.and_eq_true] at hm
    obtain ⟨a1, a2⟩ := applyOp_bridge cfg hcfg s o hok (fun m hm' => hn m (by rw [hm']; exact List.mem_cons_self ..)) hm.1
    obtain ⟨b1, b2⟩ := runOps_bridge cfg hcfg os (applyOp s o) a1 (fun m hm' => hn m (List.mem_cons_of_mem _ hm')) hm.2
    refine ⟨b1, ?_⟩
    simp only [runOps]
    rw [b2, a2, entireReserveSwaps_cons s o os, isEmpty_append', Bool.and_assoc]

/-- every F13 event of such a history is a TIED balancer `SwapOutAmtGivenIn` call on a record with distinct names and
positive reserves. -/
theorem runOps_events (cfg : Cfg) (hcfg : CfgOK cfg) : ∀ (ops : List Op) (s : State), PoolsOK s → OpsNamesOK ops →
    mathIsGamm cfg s ops = true →
    ∀ c ∈ entireReserveSwaps s ops, c.tied cfg = true ∧ c.recOK ∧ c.entireReserve = true
  | [], s, _, _, _, c, hc => by simp [entireReserveSwaps] at hc
  | o :: os, s, hok, hn, hm, c, hc => by
    simp only [mathIsGamm, Bool.and_eq_true] at hm
    have hlp : (opCalls s o).all (Call.tiedLP cfg) = true := by
      have := hm.1
      rw [List.all_eq_true] at this ⊢
      exact fun c hc => Call.tiedLP_of_tied (this c hc)
    obtain ⟨a1, _⟩ := applyOp_bridge cfg hcfg s o hok (fun m hm' => hn m (by rw [hm']; exact List.mem_cons_self ..)) hlp
    simp only [entireReserveSwaps, List.mem_append] at hc
    rcases hc with hc | hc
    · cases o with
      | msg m =>
        simp only at hc
        cases hs : step s m with
        | none => rw [hs] at hc; simp at hc
        | some s' =>
          rw [hs] at hc
          simp only [Option.isSome_some, if_true, List.mem_filter] at hc
          have ht := hm.1
          simp only [opCalls, List.all_eq_true] at ht
          obtain ⟨_, _, r3⟩ := step_bridge cfg hcfg hs hok (hn m (List.mem_cons_self ..))
            (fun c hc => Call.tiedLP_of_tied (ht c hc))
          exact ⟨ht c hc.1, r3 c hc.1, hc.2⟩
      | fund u n a => simp at hc
      | setParams p => simp at hc
    · exact runOps_events cfg hcfg os (applyOp s o) a1 (fun m hm' => hn m (List.mem_cons_of_mem _ hm')) hm.2 c hc

/-! ### prefixes -/

theorem runOps_append : ∀ (a b : List Op) (s : State), runOps s (a ++ b) = runOps (runOps s a) b
  | [], _, _ => rfl
  | o :: os, b, s => by simp only [List.cons_append, runOps]; exact runOps_append os b _

theorem lpMathIsGamm_append (cfg : Cfg) : ∀ (a b : List Op) (s : State),
    lpMathIsGamm cfg s (a ++ b) = (lpMathIsGamm cfg s a && lpMathIsGamm cfg (runOps s a) b)
  | [], _, _ => by simp [lpMathIsGamm, runOps]
  | o :: os, b, s => by
    simp only [List.cons_append, lpMathIsGamm, runOps, lpMathIsGamm_append cfg os b, Bool.and_assoc]

theorem mathIsGamm_append (cfg : Cfg) : ∀ (a b : List Op) (s : State),
    mathIsGamm cfg s (a ++ b) = (mathIsGamm cfg s a && mathIsGamm cfg (runOps s a) b)
  | [], _, _ => by simp [mathIsGamm, runOps]
  | o :: os, b, s => by
    simp only [List.cons_append, mathIsGamm, runOps, mathIsGamm_append cfg os b, Bool.and_assoc]

theorem entireReserveSwaps_append : ∀ (a b : List Op) (s : State),
    entireReserveSwaps s (a ++ b) = entireReserveSwaps s a ++ entireReserveSwaps (runOps s a) b
  | [], _, _ => by simp [entireReserveSwaps, runOps]
  | o :: os, b, s => by
    simp only [List.cons_append, entireReserveSwaps, runOps, entireReserveSwaps_append os b, List.append_assoc]

theorem init_PoolsOK (n : Nat) : PoolsOK { nextPoolId := n } := by
  intro id p h; simp [getPool] at h

end OsmoVerif.Gamm
