/- C10 helper lemmas, part 5: byte-lexicographic order and separator-delimited fields (store key ranges). -/
import OsmoVerif.Spec.TwapKeys

namespace OsmoVerif.Twap.Keys

theorem lt_nil_right (a : Bytes) : ¬ lt a [] := by cases a <;> simp [lt]

theorem lt_cons_cons (a b : Nat) (as bs : Bytes) : lt (a :: as) (b :: bs) ↔ (a < b ∨ (a = b ∧ lt as bs)) := Iff.rfl

theorem lt_irrefl : ∀ a : Bytes, ¬ lt a a := by
  intro a
  induction a with
  | nil => exact fun h => h
  | cons x xs ih =>
    rw [lt_cons_cons]
    rintro (h | ⟨_, h⟩)
    · omega
    · exact ih h

/-- a common prefix cancels. -/
theorem lt_append_left : ∀ (p x y : Bytes), lt (p ++ x) (p ++ y) ↔ lt x y := by
  intro p
  induction p with
  | nil => intro x y; exact Iff.rfl
  | cons a as ih =>
    intro x y
    show lt (a :: (as ++ x)) (a :: (as ++ y)) ↔ _
    rw [lt_cons_cons, ih]
    constructor
    · rintro (h | ⟨_, h⟩)
      · omega
      · exact h
    · exact fun h => Or.inr ⟨rfl, h⟩

/-- an extension is not below what it extends. -/
theorem not_lt_append_self : ∀ (p r : Bytes), ¬ lt (p ++ r) p := by
  intro p
  induction p with
  | nil => intro r; exact lt_nil_right _
  | cons a as ih =>
    intro r
    show ¬ lt (a :: (as ++ r)) (a :: as)
    rw [lt_cons_cons]
    rintro (h | ⟨_, h⟩)
    · omega
    · exact ih r h

/-- **the range `[lo, lo ++ t)` holds exactly the extensions `lo ++ r` with `r` below `t`.** -/
theorem range_of_prefix : ∀ (lo t k : Bytes), (¬ lt k lo ∧ lt k (lo ++ t)) ↔ ∃ r, k = lo ++ r ∧ lt r t := by
  intro lo
  induction lo with
  | nil =>
    intro t k
    constructor
    · rintro ⟨_, h⟩; exact ⟨k, rfl, h⟩
    · rintro ⟨r, e, h⟩; subst e; exact ⟨lt_nil_right _, h⟩
  | cons x xs ih =>
    intro t k
    cases k with
    | nil =>
      constructor
      · rintro ⟨h, _⟩; exact absurd (show lt [] (x :: xs) from trivial) h
      · rintro ⟨r, e, _⟩; cases e
    | cons y ys =>
      show (¬ lt (y :: ys) (x :: xs) ∧ lt (y :: ys) (x :: (xs ++ t))) ↔ _
      rw [lt_cons_cons, lt_cons_cons]
      constructor
      · rintro ⟨h1, h2⟩
        have hyx : y = x := by
          rcases h2 with h2 | ⟨h2, _⟩
          · exact absurd (Or.inl h2) h1
          · exact h2
        subst hyx
        have h2' : lt ys (xs ++ t) := by
          rcases h2 with h2 | ⟨_, h2⟩
          · omega
          · exact h2
        have h1' : ¬ lt ys xs := fun h => h1 (Or.inr ⟨rfl, h⟩)
        obtain ⟨r, e, hr⟩ := (ih t ys).mp ⟨h1', h2'⟩
        exact ⟨r, by rw [e]; rfl, hr⟩
      · rintro ⟨r, e, hr⟩
        have e' : y :: ys = x :: (xs ++ r) := e
        injection e' with e1 e2
        subst e1
        obtain ⟨a, b⟩ := (ih t ys).mpr ⟨r, e2, hr⟩
        refine ⟨?_, Or.inr ⟨rfl, b⟩⟩
        rintro (h | ⟨_, h⟩)
        · omega
        · exact a h

/-- fields that stay below the separator are determined by the separator positions. -/
theorem field_unique {sep : Nat} : ∀ {u v x y : Bytes}, Below sep u → Below sep v →
    u ++ sep :: x = v ++ sep :: y → u = v ∧ x = y := by
  intro u
  induction u with
  | nil =>
    intro v x y _ hv h
    cases v with
    | nil => injection h with _ h2; exact ⟨rfl, h2⟩
    | cons b bs =>
      have h' : sep :: x = b :: (bs ++ sep :: y) := h
      injection h' with h1 _
      have := hv b List.mem_cons_self
      omega
  | cons a as ih =>
    intro v x y hu hv h
    cases v with
    | nil =>
      have h' : a :: (as ++ sep :: x) = sep :: y := h
      injection h' with h1 _
      have := hu a List.mem_cons_self
      omega
    | cons b bs =>
      have h' : a :: (as ++ sep :: x) = b :: (bs ++ sep :: y) := h
      injection h' with h1 h2
      obtain ⟨e1, e2⟩ := ih (fun c hc => hu c (List.mem_cons_of_mem _ hc)) (fun c hc => hv c (List.mem_cons_of_mem _ hc)) h2
      exact ⟨by rw [h1, e1], e2⟩

/-- equal lengths: below `t` extended by one byte = not above `t`. -/
theorem lt_snoc_of_same_length (c : Nat) : ∀ {k t : Bytes}, k.length = t.length → (lt k (t ++ [c]) ↔ ¬ lt t k) := by
  intro k
  induction k with
  | nil =>
    intro t h
    cases t with
    | nil => exact ⟨fun _ => lt_nil_right _, fun _ => trivial⟩
    | cons _ _ => cases h
  | cons a as ih =>
    intro t h
    cases t with
    | nil => cases h
    | cons b bs =>
      have hl : as.length = bs.length := by simpa using h
      show lt (a :: as) (b :: (bs ++ [c])) ↔ ¬ lt (b :: bs) (a :: as)
      rw [lt_cons_cons, lt_cons_cons, ih hl]
      constructor
      · rintro (h1 | ⟨h1, h2⟩)
        · rintro (h3 | ⟨h3, _⟩) <;> omega
        · rintro (h3 | ⟨_, h4⟩)
          · omega
          · exact h2 h4
      · intro h1
        rcases Nat.lt_trichotomy a b with h2 | h2 | h2
        · exact Or.inl h2
        · exact Or.inr ⟨h2, fun h3 => h1 (Or.inr ⟨h2.symm, h3⟩)⟩
        · exact absurd (Or.inl h2) h1

/-- **a range `[P ++ a1|a2|a3|, (P ++ a1|a2|a3|) ++ t)` over keys of the form `P ++ k1|k2|k3|kt`** (three
separator-terminated fields after a fixed prefix): a key is inside iff its three fields are the range's and its
tail is below `t`. -/
theorem three_field_range {sep : Nat} {P a1 a2 a3 k1 k2 k3 kt t : Bytes}
    (ha1 : Below sep a1) (ha2 : Below sep a2) (ha3 : Below sep a3)
    (hk1 : Below sep k1) (hk2 : Below sep k2) (hk3 : Below sep k3) :
    (¬ lt (P ++ (k1 ++ sep :: (k2 ++ sep :: (k3 ++ sep :: kt)))) (P ++ (a1 ++ sep :: (a2 ++ sep :: (a3 ++ [sep])))) ∧
      lt (P ++ (k1 ++ sep :: (k2 ++ sep :: (k3 ++ sep :: kt)))) ((P ++ (a1 ++ sep :: (a2 ++ sep :: (a3 ++ [sep])))) ++ t)) ↔
    (k1 = a1 ∧ k2 = a2 ∧ k3 = a3 ∧ lt kt t) := by
  rw [range_of_prefix]
  constructor
  · rintro ⟨r, e, hr⟩
    have e' : k1 ++ sep :: (k2 ++ sep :: (k3 ++ sep :: kt)) = a1 ++ sep :: (a2 ++ sep :: (a3 ++ sep :: r)) := by
      have := e
      simp only [List.append_assoc, List.cons_append, List.nil_append] at this
      exact List.append_cancel_left this
    obtain ⟨e1, e'⟩ := field_unique hk1 ha1 e'
    obtain ⟨e2, e'⟩ := field_unique hk2 ha2 e'
    obtain ⟨e3, e4⟩ := field_unique hk3 ha3 e'
    exact ⟨e1, e2, e3, e4 ▸ hr⟩
  · rintro ⟨e1, e2, e3, h⟩
    subst e1 e2 e3
    exact ⟨kt, by simp only [List.append_assoc, List.cons_append, List.nil_append], h⟩

end OsmoVerif.Twap.Keys
