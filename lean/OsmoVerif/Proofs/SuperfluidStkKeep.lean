/- C11 over the staking model: an unstaking marker that has not matured survives every call, slashes included.
Core only. -/
import OsmoVerif.Proofs.SuperfluidStkRefresh

namespace OsmoVerif.Superfluid
open OsmoVerif.Num

theorem synths_superfluidDelegateS {s s' : SState} {sender id val : Nat} (hc : superfluidDelegateS s sender id val = .ok s') :
    s.b.synths id = [] ∧ ∀ j, j ≠ id → s'.b.synths j = s.b.synths j := by
  obtain ⟨l, s3, amt, _, _, _, _, _, _, _, h7, _, _, h10⟩ := superfluidDelegateS_ok hc
  obtain ⟨h0, ho⟩ := synths_createSynth h7
  dsimp only at h0 ho
  rw [synths_getOrCreateAcc] at h0 ho
  refine ⟨h0, fun j hj => ?_⟩
  rw [(mintS_bank h10).same.synths]
  exact ho j hj

theorem synths_undelegateCommonS {s s' : SState} {sender id : Nat} {key : AccKey} (hc : undelegateCommonS s sender id = .ok (s', key)) :
    s.b.conns id = some key ∧ ∀ j, j ≠ id → s'.b.synths j = s.b.synths j := by
  obtain ⟨l, s2, amt, _, _, _, hk, h3, _, h5⟩ := undelegateCommonS_ok hc
  refine ⟨hk, fun j hj => ?_⟩
  rw [(burnS_bank h5).same.synths]
  exact (deleteSynth_same h3).2 j hj

theorem synths_superfluidUndelegateS {s s' : SState} {sender id : Nat} (hc : superfluidUndelegateS s sender id = .ok s') :
    (∃ key, s.b.conns id = some key) ∧ ∀ j, j ≠ id → s'.b.synths j = s.b.synths j := by
  obtain ⟨s1, key, b', h1, hb, hs'⟩ := superfluidUndelegateS_ok hc
  subst hs'
  obtain ⟨hk, ho⟩ := synths_undelegateCommonS h1
  refine ⟨⟨key, hk⟩, fun j hj => ?_⟩
  show b'.synths j = s.b.synths j
  rw [(synths_createSynth hb).2 j hj, ho j hj]

theorem synths_addedState (b : State) (id : Nat) (l : Lock) (a : Int) : (addedState b id l a).synths = b.synths := by
  unfold addedState; split <;> rfl

theorem synths_addTokensToLockS {s s' : SState} {sender id : Nat} {a : Int} (hc : addTokensToLockS s sender id a = .ok s') :
    s'.b.synths = s.b.synths := by
  obtain ⟨l, _, _, _, _, hh⟩ := addTokensToLockS_ok hc
  rw [(increaseHookS_bank hh).same.synths]
  exact synths_addedState _ _ _ _

theorem keep_undelegateAndUnbondS {s s' : SState} {id' sender nid : Nat} {amount : Int} (h : Inv s.b)
    (hc : superfluidUndelegateAndUnbondLockS s id' sender amount = .ok (s', nid))
    {id : Nat} {x : Synth} (hx : x ∈ s.b.synths id) (hu : x.kind = .unbonding) : x ∈ s'.b.synths id := by
  unfold superfluidUndelegateAndUnbondLockS at hc
  split at hc
  · cases hc
  · split at hc
    · cases hc
    · split at hc
      · cases hc
      · split at hc
        · cases hc
        · split at hc
          · cases hc
          · rename_i key hkey
            have hne : id ≠ id' := by
              intro e; subst e; exact h.conn_no_unbonding hkey hx hu
            split at hc
            · cases hc
            · rename_i s1 hu1
              have c1 := superfluidUndelegateS_core h hu1
              have y1 := (synths_superfluidUndelegateS hu1).2 id hne
              split at hc
              · cases hc
              · rename_i s2 nid' hb
                obtain ⟨_, _, _, _, _, _, hbu⟩ := unbondLock_ok hb
                obtain ⟨y2, _, hn2⟩ := synths_beginUnlock hbu
                have x2 : x ∈ s2.synths id := by rw [y2, y1]; exact hx
                split at hc
                · split at hc
                  · cases hc
                  · injection hc with hc
                    injection hc with hc _
                    subst hc; exact x2
                · split at hc
                  · cases hc
                  · rename_i hnid
                    split at hc
                    · cases hc
                    · rename_i s3 hd
                      split at hc
                      · cases hc
                      · rename_i s4 hdel
                        split at hc
                        · cases hc
                        · rename_i s5 hcs
                          injection hc with hc
                          injection hc with hc _
                          subst hc
                          have hnew : nid' = s.b.lastLockId + 1 := by
                            rcases hn2 with e | e
                            · exact absurd e hnid
                            · rw [e, c1.last]
                          have hne2 : id ≠ nid' := by
                            intro e
                            rw [e, hnew] at hx
                            rw [h.fresh_nosynth (by omega)] at hx
                            cases hx
                          show x ∈ s5.synths id
                          rw [(synths_createSynth hcs).2 id hne2,
                            (synths_superfluidDelegateS (s := { s1 with b := s3 }) hdel).2 id hne]
                          show x ∈ s3.synths id
                          rw [(deleteSynth_same hd).2 id hne]
                          exact x2

/-- **an unstaking marker that has not matured survives every call — validator slashes included.** -/
theorem keep_applyOpS {s s' : SState} {op : OpS} (h : Inv s.b) (hc : applyOpS s op = .ok s')
    {id : Nat} {x : Synth} (hx : x ∈ s.b.synths id) (hu : x.kind = .unbonding) (hnm : isMatured s.b.now x = false) :
    x ∈ s'.b.synths id := by
  cases op with
  | slash v p f sk =>
    unfold applyOpS at hc
    obtain ⟨q, hq, hqs⟩ := map_ok hc
    subst hqs
    obtain ⟨r, hr, hqr⟩ := map_ok (show (slashS s v p f sk).map _ = .ok q from hq)
    subst hqr
    rcases slashS_ok h (show slashS s v p f sk = .ok (r.1, r.2) from hr) with ⟨_, e⟩ | ⟨_, _, _, _, b1, _, f1, e⟩
    · show x ∈ r.1.b.synths id
      rw [e]; exact hx
    · show x ∈ r.1.b.synths id
      rw [e]
      show x ∈ b1.synths id
      rw [f1.synths]; exact hx
  | epochO ups order =>
    unfold applyOpS at hc
    obtain ⟨q, hq, hqs⟩ := map_ok hc
    subst hqs
    obtain ⟨r, hr, hqr⟩ := map_ok (show (epochOS s ups order).map _ = .ok q from hq)
    subst hqr
    obtain ⟨_, b1, full, h1, hb, _, _⟩ := epochOS_ok hr
    obtain ⟨f, _⟩ := updateMults_spec ups s.b b1 full h.mult0 h1
    show x ∈ r.b.synths id
    rw [hb.same.synths, f.synths]; exact hx
  | slashRefill v p f sk t =>
    unfold applyOpS at hc
    obtain ⟨q, hq, hqs⟩ := map_ok hc
    subst hqs
    obtain ⟨r, hr, hqr⟩ := map_ok (show (slashRefillS s v p f sk t).map _ = .ok q from hq)
    subst hqr
    obtain ⟨_, _, _, _, b1, _, f1, hh⟩ := slashRefillS_ok h (show slashRefillS s v p f sk t = .ok (r.1, r.2) from hr)
    show x ∈ r.1.b.synths id
    rw [(refillHooks_bank _ _ _ hh).same.synths]
    show x ∈ b1.synths id
    rw [f1.synths]; exact hx
  | base op =>
    by_cases hf : ledgerFree op = true
    · obtain ⟨h1, _⟩ := applyOpS_ledgerFree hf hc
      exact keep_applyOp h h1 hx hu hnm
    · unfold applyOpS at hc
      obtain ⟨q, hq, hqs⟩ := map_ok hc
      subst hqs
      cases op with
      | addToLock snd id' a =>
        obtain ⟨r, hr, hqr⟩ := map_ok (show (addTokensToLockS s snd id' a).map _ = .ok q from hq)
        subst hqr
        show x ∈ r.b.synths id
        rw [synths_addTokensToLockS hr]; exact hx
      | delegate snd id' v =>
        obtain ⟨r, hr, hqr⟩ := map_ok (show (superfluidDelegateS s snd id' v).map _ = .ok q from hq)
        subst hqr
        obtain ⟨h0, ho⟩ := synths_superfluidDelegateS hr
        by_cases e : id = id'
        · subst e; rw [h0] at hx; cases hx
        · show x ∈ r.b.synths id
          rw [ho id e]; exact hx
      | undelegate snd id' =>
        obtain ⟨r, hr, hqr⟩ := map_ok (show (superfluidUndelegateS s snd id').map _ = .ok q from hq)
        subst hqr
        obtain ⟨⟨key, hk⟩, ho⟩ := synths_superfluidUndelegateS hr
        by_cases e : id = id'
        · subst e; exact (h.conn_no_unbonding hk hx hu).elim
        · show x ∈ r.b.synths id
          rw [ho id e]; exact hx
      | undelegateAndUnbond snd id' a =>
        obtain ⟨r, hr, hqr⟩ := map_ok (show (superfluidUndelegateAndUnbondLockS s id' snd a).map _ = .ok q from hq)
        subst hqr
        exact keep_undelegateAndUnbondS h (show superfluidUndelegateAndUnbondLockS s id' snd a = .ok (r.1, r.2) from hr) hx hu
      | epoch ups =>
        obtain ⟨r, hr, hqr⟩ := map_ok (show (epochS s ups).map _ = .ok q from hq)
        subst hqr
        obtain ⟨b1, full, h1, hb, _, _⟩ := epochS_ok hr
        obtain ⟨f, _⟩ := updateMults_spec ups s.b b1 full h.mult0 h1
        show x ∈ r.b.synths id
        rw [hb.same.synths, f.synths]; exact hx
      | lock _ _ _ _ _ => exact absurd rfl hf
      | unbond _ _ => exact absurd rfl hf
      | beginUnlock _ _ _ => exact absurd rfl hf
      | withdraw _ => exact absurd rfl hf
      | endBlock => exact absurd rfl hf
      | advance _ => exact absurd rfl hf

end OsmoVerif.Superfluid
