/-
Totality of the geometric strategy on the supported price range: the recorded logarithms of prices in
`[0, MaxSpotPrice]` lie in `[−60, 128]`, so does their truncated mean, `Exp2`'s domain `[0, 2^9]` is never left, the
reciprocal and the 8-figure rounding return; and the two strategies of a query share their endpoint records
(`getTwap_eq_endpoints`), so an answered arithmetic query has an answered geometric one.
-/
import OsmoVerif.Proofs.TwapGeomMean
import OsmoVerif.Proofs.TwapQuery

namespace OsmoVerif.Twap
open OsmoVerif.MathM OsmoVerif.Num OsmoVerif.Gen OsmoVerif.Spec Real

/-! ### range of the recorded logarithm -/

theorem logBase2_min_price : logBase2 (1 * Pdiff) = some (-59794705707972522261665749730809023183) := by
  decide +kernel

theorem logBase2_max_price : logBase2 (Twap.MaxSpotPrice * Pdiff) = some 127999999999999999999999999999999999956 := by
  decide +kernel

/-- `twapLog` of a price in `[10^-18, MaxSpotPrice]` lies in `[−60, 128]`. -/
theorem logW_range {r : TwapRecord} (h : PriceOK r) : -60 * P18 ≤ logW r ∧ logW r ≤ 128 * P18 := by
  by_cases hz : r.sp0 = 0
  · rw [logW_zero hz]; decide
  · have hpos : 0 < r.sp0 := by have := h.1; omega
    obtain ⟨l, hl⟩ := twapLog_total hpos h.2
    have e : logW r = l := by unfold logW; rw [hl]
    obtain ⟨_, L, hL, rfl⟩ := twapLog_unfold hl
    rw [e]
    have m1 := logBase2_monotone (Int.mul_le_mul_of_nonneg_right (by omega : 1 ≤ r.sp0) (Int.le_of_lt Pdiff_pos))
      logBase2_min_price hL
    have m2 := logBase2_monotone (Int.mul_le_mul_of_nonneg_right h.2 (Int.le_of_lt Pdiff_pos)) hL logBase2_max_price
    have t1 := Int.tdiv_le_tdiv Pdiff_pos m1
    have t2 := Int.tdiv_le_tdiv Pdiff_pos m2
    have c1 : -60 * P18 ≤ (-59794705707972522261665749730809023183 : Int).tdiv Pdiff := by decide
    have c2 : (127999999999999999999999999999999999956 : Int).tdiv Pdiff ≤ 128 * P18 := by decide
    omega

/-- a truncated mean of values in `[lo, hi]` (with `lo ≤ 0 ≤ hi`) lies in `[lo, hi]`. -/
theorem tdiv_mean_range {S W lo hi : Int} (hW : 0 < W) (h1 : lo * W ≤ S) (h2 : S ≤ hi * W) :
    lo ≤ S.tdiv W ∧ S.tdiv W ≤ hi := by
  have t1 := Int.tdiv_le_tdiv hW h1
  have t2 := Int.tdiv_le_tdiv hW h2
  rw [Int.mul_tdiv_cancel _ (by omega)] at t1 t2
  exact ⟨t1, t2⟩

/-! ### the closing computation returns -/

/-- `geomFinish` returns for every mean exponent in `[−128, 128]`: `Exp2`'s domain `[0, 2^9]` is not left, the result
is at least 0.99 (so the reciprocal exists and fits) and at most `2^129` (so `SigFigRound` fits). -/
theorem geomFinish_total (q0 : Bool) {m : Int} (h1 : -128 * P18 ≤ m) (h2 : m ≤ 128 * P18) :
    ∃ res, geomFinish q0 m = some res := by
  have hP18 : P18 = 10 ^ 18 := by decide
  have hPd : Pdiff = 10 ^ 18 := by decide
  have hP36 : P36 = 10 ^ 36 := by decide
  have hn0 : (0 : Int) ≤ (m.natAbs : Int) := by omega
  have hn1 : (m.natAbs : Int) ≤ 128 * 10 ^ 18 := by rw [hP18] at h1 h2; omega
  have he0 : 0 ≤ (m.natAbs : Int) * Pdiff := Int.mul_nonneg hn0 (Int.le_of_lt Pdiff_pos)
  have he1 : (m.natAbs : Int) * Pdiff ≤ 128 * 10 ^ 36 := by
    have := Int.mul_le_mul_of_nonneg_right hn1 (Int.le_of_lt Pdiff_pos)
    rw [hPd] at this ⊢; omega
  obtain ⟨R, hR⟩ := OsmoVerif.Props.C13Exp2.exp2_some_iff.mpr
    ⟨he0, by have : Osmomath.maxSupportedExponent = 512 * 10 ^ 36 := by decide
             omega⟩
  -- size of R from the relative error
  have hE := OsmoVerif.Props.C13Exp2.exp2_rel_error_sharp hR
  set X : ℝ := (((m.natAbs : Int) * Pdiff : Int) : ℝ) / 10 ^ 36 with hX
  have hX0 : 0 ≤ X := by
    rw [hX]; have : (0 : ℝ) ≤ (((m.natAbs : Int) * Pdiff : Int) : ℝ) := by exact_mod_cast he0
    exact div_nonneg this (by norm_num)
  have hX1 : X ≤ 128 := by
    rw [hX, div_le_iff₀ (by positivity)]
    have : ((((m.natAbs : Int) * Pdiff : Int)) : ℝ) ≤ ((128 * 10 ^ 36 : Int) : ℝ) := by exact_mod_cast he1
    push_cast at this ⊢; linarith
  have ht1 : (1 : ℝ) ≤ (2 : ℝ) ^ X := Real.one_le_rpow (by norm_num) hX0
  have ht2 : (2 : ℝ) ^ X ≤ 2 ^ 128 := by
    calc (2 : ℝ) ^ X ≤ (2 : ℝ) ^ (128 : ℝ) := Real.rpow_le_rpow_of_exponent_le (by norm_num) hX1
      _ = 2 ^ 128 := by rw [show (128 : ℝ) = ((128 : ℕ) : ℝ) by norm_num, Real.rpow_natCast]
  obtain ⟨l, u⟩ := abs_le.mp hE
  have hRlo : (10 : ℝ) ^ 35 ≤ (R : ℝ) := by
    have : (99 : ℝ) / 100 ≤ (R : ℝ) / 10 ^ 36 := by nlinarith
    rw [le_div_iff₀ (by positivity)] at this
    linarith
  have hRhi : (R : ℝ) ≤ 2 ^ 129 * 10 ^ 36 := by
    have : (R : ℝ) / 10 ^ 36 ≤ 2 ^ 129 := by nlinarith
    rwa [div_le_iff₀ (by positivity)] at this
  have hRloZ : (10 : Int) ^ 35 ≤ R := by
    have h : (((10 : Int) ^ 35 : Int) : ℝ) ≤ (R : ℝ) := by rw [Int.cast_pow, Int.cast_ofNat]; exact hRlo
    exact Int.cast_le.mp h
  have hRhiZ : R ≤ 2 ^ 129 * 10 ^ 36 := by
    have h : (R : ℝ) ≤ (((2 : Int) ^ 129 * (10 : Int) ^ 36 : Int) : ℝ) := by
      rw [Int.cast_mul, Int.cast_pow, Int.cast_pow, Int.cast_ofNat, Int.cast_ofNat]; exact hRhi
    exact Int.cast_le.mp h
  -- the value handed to SigFigRound
  have hsig : ∀ R' : Int, 0 ≤ R' → R' ≤ 2 ^ 129 * 10 ^ 36 →
      ∃ res, sigFigRound (R'.tdiv Pdiff) Twap.SpotPriceSigFigs = some res := by
    intro R' h0 h1
    have hD0 : 0 ≤ R'.tdiv Pdiff := Int.tdiv_nonneg h0 (Int.le_of_lt Pdiff_pos)
    have hD1 : R'.tdiv Pdiff ≤ 2 ^ 129 * 10 ^ 18 := by
      have := Int.tdiv_le_tdiv Pdiff_pos h1
      have e : (2 ^ 129 * 10 ^ 36 : Int).tdiv Pdiff = 2 ^ 129 * 10 ^ 18 := by decide +kernel
      omega
    rcases Int.lt_or_eq_of_le hD0 with hpos | hz
    · rw [spotPriceSigFigs_eq]
      exact OsmoVerif.Props.C13SigFig.sigFigRound_total hpos (by decide)
        (by have : (2 : Int) ^ 129 * 10 ^ 18 * 10 ^ 8 < 2 ^ 255 * 10 ^ 18 := by decide +kernel
            have : R'.tdiv Pdiff * 10 ^ 8 ≤ 2 ^ 129 * 10 ^ 18 * 10 ^ 8 := Int.mul_le_mul_of_nonneg_right hD1 (by decide)
            omega)
        (by decide +kernel)
    · rw [← hz]; exact ⟨0, rfl⟩
  have hgf : geomFinish q0 m =
      (if ((decide (m < 0) && q0) || (!decide (m < 0) && !q0)) = true then BigDec.quo P36 R else some R).bind
        fun R' => sigFigRound (R'.tdiv Pdiff) Twap.SpotPriceSigFigs := by
    unfold geomFinish; rw [hR]; rfl
  rw [hgf]
  by_cases hinv : ((decide (m < 0) && q0) || (!decide (m < 0) && !q0)) = true
  · rw [if_pos hinv]
    -- the reciprocal
    have hq : ∃ R', BigDec.quo P36 R = some R' ∧ 0 ≤ R' ∧ R' ≤ 2 ^ 129 * 10 ^ 36 := by
      unfold BigDec.quo
      rw [if_neg (by omega)]
      obtain ⟨a, b, _⟩ := chopRound_isHalfEven P36 ((P36 * (P36 * P36)).tdiv R) P36_pos P36_even
      set t := (P36 * (P36 * P36)).tdiv R with ht
      set q := chopRound P36 t with hq
      have ht0 : 0 ≤ t := Int.tdiv_nonneg (by decide) (by omega)
      have ht1 : t ≤ 10 ^ 73 := by
        have hmul : t * R ≤ P36 * (P36 * P36) := by
          have := (tdiv_isTrunc (P36 * (P36 * P36)) R (by omega)).1 (by decide)
          exact this.1
        have hc : P36 * (P36 * P36) = 10 ^ 73 * 10 ^ 35 := by decide +kernel
        by_contra hgt
        have : (10 ^ 73 + 1) * (10 : Int) ^ 35 ≤ t * R :=
          Int.mul_le_mul (by omega) hRloZ (by decide) (by omega)
        have : (10 : Int) ^ 73 * 10 ^ 35 < (10 ^ 73 + 1) * 10 ^ 35 := by decide +kernel
        omega
      rw [hP36] at a b
      have hq0 : 0 ≤ q := by
        by_contra hc
        have : q * 10 ^ 36 ≤ (-1) * 10 ^ 36 := Int.mul_le_mul_of_nonneg_right (by omega) (by decide)
        omega
      have hq1 : q ≤ 10 ^ 38 := by
        by_contra hc
        have : (10 ^ 38 + 1) * (10 : Int) ^ 36 ≤ q * 10 ^ 36 := Int.mul_le_mul_of_nonneg_right (by omega) (by decide)
        have : (10 : Int) ^ 73 < (10 ^ 38 + 1) * 10 ^ 36 - 10 ^ 36 := by decide +kernel
        omega
      have habs : |q| ≤ 5000 * P36 := by
        rw [abs_of_nonneg hq0, hP36]
        have : (10 : Int) ^ 38 ≤ 5000 * 10 ^ 36 := by decide
        omega
      refine ⟨q, chk_of_abs_le habs, hq0, ?_⟩
      have : (10 : Int) ^ 38 ≤ 2 ^ 129 * 10 ^ 36 := by decide +kernel
      omega
    obtain ⟨R', hq', r0, r1⟩ := hq
    rw [hq', Option.bind_some]
    exact hsig R' r0 r1
  · rw [if_neg hinv, Option.bind_some]
    exact hsig R (by omega) hRhiZ

/-! ### the two strategies share their endpoint records -/

/-- the start and end records of `getTwap` (independent of the strategy and the quote asset). -/
def endpoints (s : Store) (now a b : Int) : Res (TwapRecord × TwapRecord) :=
  if a > b then .err
  else if b = now then
    (getInterpolatedRecord s now a).bind fun A => (getMostRecentRecord s now).bind fun B => .ok (A, B)
  else if b > now then .err
  else (getInterpolatedRecord s now a).bind fun A => (getInterpolatedRecord s now b).bind fun B => .ok (A, B)

theorem getTwap_eq_endpoints (s : Store) (now a b : Int) (q0 : Bool) (st : Strategy) :
    getTwap s now a b q0 st = (endpoints s now a b).bind fun p => computeTwap p.1 p.2 q0 st := by
  unfold getTwap endpoints
  split
  · rfl
  · rename_i hab
    split
    · rename_i hbn
      subst hbn
      unfold getTwapToNow
      rw [if_neg hab]
      cases getInterpolatedRecord s b a with
      | err => rfl
      | panic => rfl
      | ok A =>
        simp only [Res.bind]
        cases getMostRecentRecord s b with
        | err => rfl
        | panic => rfl
        | ok B => rfl
    · split
      · rfl
      · cases getInterpolatedRecord s now a with
        | err => rfl
        | panic => rfl
        | ok A =>
          simp only [Res.bind]
          cases getInterpolatedRecord s now b with
          | err => rfl
          | panic => rfl
          | ok B => rfl

theorem endpoints_of_ok {s : Store} {now a b : Int} {q0 : Bool} {st : Strategy} {res : Int × Bool}
    (h : getTwap s now a b q0 st = .ok res) :
    ∃ A B, endpoints s now a b = .ok (A, B) ∧ computeTwap A B q0 st = .ok res := by
  rw [getTwap_eq_endpoints] at h
  cases he : endpoints s now a b with
  | err => rw [he] at h; cases h
  | panic => rw [he] at h; cases h
  | ok p => rw [he] at h; exact ⟨p.1, p.2, rfl, h⟩

/-- anatomy of the endpoint records (as `getTwap_ok`, for the records themselves). -/
theorem endpoints_ok {s : Store} {now a b : Int} {A B : TwapRecord} (wf : WF s)
    (hnow : ∀ r ∈ s.hist, r.time ≤ now) (h : endpoints s now a b = .ok (A, B)) :
    a ≤ b ∧ ∃ ra rb, recAtOrBefore s.hist a = some ra ∧ recAtOrBefore s.hist b = some rb ∧
      interp (inherit ra a) a = some A ∧
      (interp (inherit rb b) b = some B ∨ (b = now ∧ interp rb b = some B)) := by
  unfold endpoints at h
  split at h
  · cases h
  · rename_i hab
    split at h
    · rename_i hbn
      subst hbn
      cases hA : getInterpolatedRecord s b a with
      | err => rw [hA] at h; cases h
      | panic => rw [hA] at h; cases h
      | ok A' =>
        rw [hA] at h
        simp only [Res.bind] at h
        obtain ⟨ra, hra, hiA⟩ := getInterpolatedRecord_ok hA
        unfold getMostRecentRecord at h
        cases hr : s.recent with
        | none => rw [hr] at h; cases h
        | some rb =>
          rw [hr] at h
          simp only at h
          cases hiB : interp rb b with
          | none => rw [hiB] at h; cases h
          | some B' =>
            rw [hiB] at h
            simp only [Res.ofOpt] at h
            injection h with h
            injection h with hA' hB'
            subst hA'; subst hB'
            have hl : s.hist.getLast? = some rb := by rw [← wf.recent, hr]
            exact ⟨by omega, ra, rb, hra, recAtOrBefore_last wf.chain hl hnow, hiA, Or.inr ⟨rfl, hiB⟩⟩
    · split at h
      · cases h
      · cases hA : getInterpolatedRecord s now a with
        | err => rw [hA] at h; cases h
        | panic => rw [hA] at h; cases h
        | ok A' =>
          rw [hA] at h
          simp only [Res.bind] at h
          cases hB : getInterpolatedRecord s now b with
          | err => rw [hB] at h; cases h
          | panic => rw [hB] at h; cases h
          | ok B' =>
            rw [hB] at h
            simp only at h
            injection h with h
            injection h with hA' hB'
            subst hA'; subst hB'
            obtain ⟨ra, hra, hiA⟩ := getInterpolatedRecord_ok hA
            obtain ⟨rb, hrb, hiB⟩ := getInterpolatedRecord_ok hB
            exact ⟨by omega, ra, rb, hra, hrb, hiA, Or.inl hiB⟩

end OsmoVerif.Twap
