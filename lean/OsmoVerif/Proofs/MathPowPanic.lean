/-
`PowApprox` PANICS inside the documented domain (finding F10), proved ANALYTICALLY (150000 loop iterations are out of
reach of kernel evaluation): for the base `1.999999999999999999` (`x = 1 − 10^-18`) and the exponent `a = 0.02` the true
terms are `|C(a,k)|·x^k = (a/k)·Π_{i<k}(1 − a/i)·x^k ≥ (a/k)·(1 − a·H_{k−1})·(1 − k·10^-18) ≥ 9·10^-8` for every
`k ≤ 150000` (`H_k ≤ 1 + ln k ≤ 13.5`: Mathlib's `harmonic_le_one_add_log`), the computed terms are within
`k·(2·mulErr + quoErr) < 10^-12` of them, so the stopping rule `term < 10^-8` never fires, no term rounds to zero, and
the iteration limit is hit.  Mathlib reals; nothing here is used by the executable model.
-/
import OsmoVerif.Proofs.MathPowMid
import Mathlib.NumberTheory.Harmonic.Bounds
import Mathlib.Analysis.Complex.ExponentialBounds

namespace OsmoVerif.MathM
open OsmoVerif.Num OsmoVerif.Gen OsmoVerif.GammMath

theorem harmonic_nonneg_real (k : ℕ) : (0 : ℝ) ≤ harmonic k := by
  have : (0 : ℚ) ≤ harmonic k := by
    induction k with
    | zero => simp
    | succ n ih => rw [harmonic_succ]; positivity
  exact_mod_cast this

theorem harmonic_le_small {k : ℕ} (hk : k ≤ 150000) : (harmonic k : ℝ) ≤ 27 / 2 := by
  rcases Nat.eq_zero_or_pos k with h0 | hpos
  · subst h0; simp; norm_num
  · have h1 := harmonic_le_one_add_log k
    have hk' : (k : ℝ) ≤ 2 ^ 18 := by
      have : ((k : ℕ) : ℝ) ≤ ((150000 : ℕ) : ℝ) := by exact_mod_cast hk
      push_cast at this; linarith only [this, show (150000 : ℝ) ≤ 2 ^ 18 by norm_num]
    have h2 : Real.log k ≤ Real.log ((2 : ℝ) ^ 18) := Real.log_le_log (by exact_mod_cast hpos) hk'
    rw [Real.log_pow] at h2
    have h3 := Real.log_two_lt_d9
    push_cast at h2
    linarith only [h1, h2, h3]

/-- lower bound of the true terms: `(k+1)·|C(a,k+1)|·x^(k+1) ≥ a·(1 − a·H_k)·(1 − (k+1)·u)` for `x = 1 − u`. -/
theorem pterm_lower {a u : ℝ} (ha0 : 0 < a) (ha1 : a ≤ 1 / 50) (hu0 : 0 ≤ u) (hu : u ≤ 1 / 10 ^ 18) :
    ∀ k : ℕ, k ≤ 150000 →
      a * (1 - a * (harmonic k : ℝ)) * (1 - ((k : ℝ) + 1) * u) ≤ ((k : ℝ) + 1) * |pterm a (1 - u) (k + 1)| := by
  intro k
  induction k with
  | zero =>
    intro _
    rw [abs_pterm_succ]
    have : pterm a (1 - u) 0 = 1 := rfl
    rw [this, abs_one, abs_of_nonneg (by linarith only [hu0, hu, show (1 : ℝ) / 10 ^ 18 ≤ 1 by norm_num] : (0 : ℝ) ≤ 1 - u)]
    simp only [harmonic_zero, Rat.cast_zero, Nat.cast_zero, mul_zero, sub_zero, zero_add, mul_one, one_mul, div_one]
    rw [abs_of_pos ha0]
  | succ k ih =>
    intro hk
    have ih := ih (by omega)
    have hH := harmonic_le_small (k := k) (by omega)
    have hH0 : (0 : ℝ) ≤ harmonic k := harmonic_nonneg_real k
    have hk0 : (0 : ℝ) ≤ k := by positivity
    have hkr : (k : ℝ) ≤ 150000 := by
      have : ((k + 1 : ℕ) : ℝ) ≤ ((150000 : ℕ) : ℝ) := by exact_mod_cast hk
      push_cast at this; linarith only [this]
    rw [abs_pterm_succ]
    have hX0 : (0 : ℝ) ≤ 1 - u := by linarith only [hu, show (1 : ℝ) / 10 ^ 18 ≤ 1 by norm_num]
    have hac : |a - ((k + 1 : ℕ) : ℝ)| = (k : ℝ) + 1 - a := by
      push_cast; rw [abs_sub_comm, abs_of_nonneg (by linarith only [ha1, hk0])]
    rw [hac, abs_of_nonneg hX0]
    have e : (((k + 1 : ℕ) : ℝ) + 1) * (|pterm a (1 - u) (k + 1)| * (((k : ℝ) + 1 - a) / (((k + 1 : ℕ) : ℝ) + 1)) * (1 - u)) =
        (((k : ℝ) + 1) * |pterm a (1 - u) (k + 1)|) * ((1 - a / ((k : ℝ) + 1)) * (1 - u)) := by
      push_cast; field_simp
    rw [e, harmonic_succ]
    push_cast
    -- (1 − p)(1 − q) ≥ 1 − p − q twice
    have hr : 0 ≤ a / ((k : ℝ) + 1) := by positivity
    have hr1 : a / ((k : ℝ) + 1) ≤ a := div_le_self ha0.le (by linarith only [hk0])
    have hA : 0 ≤ 1 - a * (harmonic k : ℝ) := by nlinarith only [hH, ha1, ha0, hH0]
    have hB : 0 ≤ 1 - ((k : ℝ) + 1) * u := by nlinarith only [hkr, hu, hu0, hk0]
    have hf0 : 0 ≤ (1 - a / ((k : ℝ) + 1)) * (1 - u) := mul_nonneg (by linarith only [hr1, ha1]) hX0
    have h1 : a * (1 - a * (harmonic k : ℝ)) * (1 - ((k : ℝ) + 1) * u) * ((1 - a / ((k : ℝ) + 1)) * (1 - u)) ≤
        (((k : ℝ) + 1) * |pterm a (1 - u) (k + 1)|) * ((1 - a / ((k : ℝ) + 1)) * (1 - u)) :=
      mul_le_mul_of_nonneg_right ih hf0
    refine le_trans ?_ h1
    have e2 : a * ((k : ℝ) + 1)⁻¹ = a / ((k : ℝ) + 1) := by ring
    have hAr : 0 ≤ (1 - a * (harmonic k : ℝ)) * (a / ((k : ℝ) + 1)) := mul_nonneg hA hr
    have hP : (1 - a * ((harmonic k : ℝ) + ((k : ℝ) + 1)⁻¹)) ≤ (1 - a * (harmonic k : ℝ)) * (1 - a / ((k : ℝ) + 1)) := by
      rw [mul_add, e2]; nlinarith only [mul_nonneg (mul_nonneg ha0.le hH0) hr]
    have hQ : (1 - ((k : ℝ) + 1 + 1) * u) ≤ (1 - ((k : ℝ) + 1) * u) * (1 - u) := by
      nlinarith only [mul_nonneg (mul_nonneg (by linarith only [hk0] : (0 : ℝ) ≤ (k : ℝ) + 1) hu0) hu0]
    have hP0 : 0 ≤ (1 - a * (harmonic k : ℝ)) * (1 - a / ((k : ℝ) + 1)) := mul_nonneg hA (by linarith only [hr1, ha1])
    have hQ0 : 0 ≤ 1 - ((k : ℝ) + 1 + 1) * u := by nlinarith only [hkr, hu, hu0, hk0]
    have hP1 : 0 ≤ 1 - a * ((harmonic k : ℝ) + ((k : ℝ) + 1)⁻¹) := by
      have : ((k : ℝ) + 1)⁻¹ ≤ 1 := inv_le_one_of_one_le₀ (by linarith only [hk0])
      nlinarith only [hH, ha1, ha0, hH0, this]
    calc a * (1 - a * ((harmonic k : ℝ) + ((k : ℝ) + 1)⁻¹)) * (1 - ((k : ℝ) + 1 + 1) * u)
        ≤ a * ((1 - a * (harmonic k : ℝ)) * (1 - a / ((k : ℝ) + 1))) * ((1 - ((k : ℝ) + 1) * u) * (1 - u)) := by
          apply mul_le_mul (mul_le_mul_of_nonneg_left hP ha0.le) hQ hQ0 (mul_nonneg ha0.le hP0)
      _ = _ := by ring

/-- for `a = 1/50`, `x = 1 − 10^-18`: every term up to the iteration limit is at least `9·10^-8`. -/
theorem pterm_ge_of_near_two {k : ℕ} (hk1 : 1 ≤ k) (hk : k ≤ 150000) :
    9 / 10 ^ 8 ≤ |pterm (1 / 50) (1 - 1 / 10 ^ 18) k| := by
  obtain ⟨j, rfl⟩ : ∃ j, k = j + 1 := ⟨k - 1, by omega⟩
  have h := pterm_lower (a := 1 / 50) (u := 1 / 10 ^ 18) (by norm_num) le_rfl (by positivity) le_rfl j (by omega)
  have hH := harmonic_le_small (k := j) (by omega)
  have hj0 : (0 : ℝ) ≤ j := by positivity
  have hjr : (j : ℝ) + 1 ≤ 150000 := by
    have : ((j + 1 : ℕ) : ℝ) ≤ ((150000 : ℕ) : ℝ) := by exact_mod_cast hk
    push_cast at this; exact this
  have hT0 := abs_nonneg (pterm (1 / 50) (1 - 1 / 10 ^ 18) (j + 1))
  have h1 : (1 : ℝ) / 50 * (1 - 1 / 50 * (27 / 2)) * (1 - 150000 * (1 / 10 ^ 18)) ≤
      1 / 50 * (1 - 1 / 50 * (harmonic j : ℝ)) * (1 - ((j : ℝ) + 1) * (1 / 10 ^ 18)) := by
    apply mul_le_mul
    · apply mul_le_mul_of_nonneg_left _ (by norm_num); linarith only [hH]
    · nlinarith only [hjr]
    · norm_num
    · apply mul_nonneg (by norm_num); linarith only [hH]
  have h2 : ((j : ℝ) + 1) * |pterm (1 / 50) (1 - 1 / 10 ^ 18) (j + 1)| ≤
      150000 * |pterm (1 / 50) (1 - 1 / 10 ^ 18) (j + 1)| := mul_le_mul_of_nonneg_right hjr hT0
  have h3 : (9 : ℝ) / 10 ^ 8 * 150000 ≤ 1 / 50 * (1 - 1 / 50 * (27 / 2)) * (1 - 150000 * (1 / 10 ^ 18)) := by norm_num
  linarith only [h, h1, h2, h3]

/-- the loop NEVER stops before the iteration limit when every true term is at least `2·10^-8`. -/
theorem powApproxLoop_panics {xr er : Int} {xneg : Bool} (hx0 : 0 ≤ xr) (hx1 : dv xr ≤ 1) (he0 : 0 ≤ er)
    (he1 : er ≤ P18)
    (hT : ∀ k : ℕ, 1 ≤ k → k ≤ Osmomath.powIterationLimit →
      2 / 10 ^ 8 ≤ |pterm (dv er) (sg xneg * dv xr) k|) :
    ∀ (fuel k : ℕ) (i term sum bigK : Int) (neg : Bool), fuel + k = Osmomath.powIterationLimit + 2 →
      k < Osmomath.powIterationLimit → i = k + 1 → bigK = k * P18 → 0 ≤ term →
      |sg neg * dv term - pterm (dv er) (sg xneg * dv xr) k| ≤ k * (2 * mulErr + quoErr) →
      |dv sum| ≤ 2 * (k + 1) →
      powApproxLoop xr xneg er Osmomath.powPrecision fuel i term sum neg bigK = none := by
  have hX0 := dv_nonneg hx0
  have ha0 : 0 ≤ dv er := dv_nonneg he0
  have ha1 : dv er ≤ 1 := by have := dv_le he1; rwa [dv_P18] at this
  have hy1 : |sg xneg * dv xr| ≤ 1 := by rw [abs_sg_mul, abs_of_nonneg hX0]; exact hx1
  have hE0 : 0 < 2 * mulErr + quoErr := by have := mulErr_pos; have := quoErr_pos; linarith
  have hE : 2 * mulErr + quoErr ≤ 4 / 10 ^ 18 := by unfold mulErr quoErr; norm_num
  have hprec : dv Osmomath.powPrecision = 1 / 10 ^ 8 := by
    rw [powPrecision_val]; unfold dv; norm_num
  have hL := powIterationLimit_val
  generalize hA : dv er = a at *
  generalize hY : sg xneg * dv xr = y at *
  generalize hEE : 2 * mulErr + quoErr = E at *
  intro fuel
  induction fuel with
  | zero => intro k _ _ _ _ _ hf hk; omega
  | succ f ih =>
    intro k i term sum bigK neg hf hk hi hb ht0 hterm hsum
    have hk0 : (0 : ℝ) ≤ k := by positivity
    have hkr : (k : ℝ) + 1 ≤ 150000 := by
      have : ((k + 1 : ℕ) : ℝ) ≤ ((150000 : ℕ) : ℝ) := by rw [hL] at hk; exact_mod_cast hk
      push_cast at this; exact this
    have hkE : (k : ℝ) * E ≤ 1 / 10 ^ 12 := by nlinarith only [hkr, hE, hE0, hk0]
    have hk1E : ((k : ℝ) + 1) * E ≤ 1 / 10 ^ 12 := by nlinarith only [hkr, hE, hE0, hk0]
    have hP1 : |pterm a y k| ≤ 1 := (abs_pterm_le_pow ha0 ha1 k).trans (pow_le_one₀ (abs_nonneg _) hy1)
    have hT0 := dv_nonneg ht0
    have hTP : |dv term - abs (pterm a y k)| ≤ k * E := by
      have := abs_abs_sub_abs_le_abs_sub (sg neg * dv term) (pterm a y k)
      rw [abs_sg_mul, abs_of_nonneg hT0] at this
      exact this.trans hterm
    obtain ⟨hTP1, hTP2⟩ := abs_le.mp hTP
    -- the stopping rule does not fire
    have hge : term ≥ Osmomath.powPrecision := by
      apply int_ge_of_dv
      rw [hprec]
      rcases Nat.eq_zero_or_pos k with h0 | hpos
      · subst h0
        have : pterm a y 0 = 1 := rfl
        rw [this, abs_one, Nat.cast_zero, zero_mul] at hTP1
        linarith only [hTP1, show (1 : ℝ) / 10 ^ 8 - 1 / 10 ^ 18 < 1 by norm_num]
      · have := hT k hpos hk.le
        linarith only [this, hTP1, hkE, show (1 : ℝ) / 10 ^ 8 + 1 / 10 ^ 12 ≤ 2 / 10 ^ 8 by norm_num]
    have hdb : dv bigK = k := by rw [hb, dv_P18_mul]; norm_cast
    obtain ⟨c, cn, hc, hc0, hcs⟩ := absDiffSign_spec (a := er) (b := bigK) (by
      rw [hA, hdb, abs_le]
      have : (150000 : ℝ) ≤ 10 ^ 40 := by norm_num
      constructor <;> linarith only [ha0, ha1, hk0, hkr, this])
    rw [hA, hdb] at hcs
    have hC0 := dv_nonneg hc0
    have hCabs : dv c = |a - k| := by rw [← hcs, abs_sg_mul, abs_of_nonneg hC0]
    have hCK : dv c ≤ k + 1 := by
      rw [hCabs, abs_le]; constructor <;> linarith only [ha0, ha1, hk0]
    obtain ⟨t1, t2, t3, h1, h2, h3, h30, herr⟩ :=
      powTerm_step (k := k) ht0 (by linarith only [hTP2, hP1, hkE, show (1 : ℝ) / 10 ^ 12 ≤ 1 by norm_num])
        hc0 hCK hx0 hx1 (by omega)
    rw [hEE] at herr
    have hstep := signed_step (n := neg) (nx := xneg) (nc := cn) (P := pterm a y k) hC0 hCK
      (by positivity : (0 : ℝ) < (k : ℝ) + 1) hX0 hx1 (by positivity : (0 : ℝ) ≤ (k : ℝ) * E) herr hterm
    have hpt : pterm a y (k + 1) = pterm a y k * (sg cn * dv c) * y / ((k : ℝ) + 1) := by
      rw [hcs]; rfl
    rw [hY, ← hpt] at hstep
    have hstep' : |sg neg * sg xneg * sg cn * dv t3 - pterm a y (k + 1)| ≤ ((k + 1 : ℕ) : ℝ) * E := by
      push_cast; linarith only [hstep]
    have hT30 := dv_nonneg h30
    have hT3P : |dv t3 - abs (pterm a y (k + 1))| ≤ ((k : ℝ) + 1) * E := by
      have e3 : sg neg * sg xneg * sg cn * dv t3 = sg neg * (sg xneg * (sg cn * dv t3)) := by ring
      have := abs_abs_sub_abs_le_abs_sub (sg neg * sg xneg * sg cn * dv t3) (pterm a y (k + 1))
      rw [e3, abs_sg_mul, abs_sg_mul, abs_sg_mul, abs_of_nonneg hT30, ← e3] at this
      have h' := this.trans hstep'
      push_cast at h'; exact h'
    obtain ⟨hT3a, hT3b⟩ := abs_le.mp hT3P
    have hPn := hT (k + 1) (by omega) (by omega)
    have hP1' : |pterm a y (k + 1)| ≤ 1 :=
      (abs_pterm_le_pow ha0 ha1 (k + 1)).trans (pow_le_one₀ (abs_nonneg _) hy1)
    -- the new term is not zero
    have hz : t3 ≠ 0 := by
      intro h0
      rw [h0, dv_zero] at hT3a
      linarith only [hT3a, hPn, hk1E, show (1 : ℝ) / 10 ^ 12 < 2 / 10 ^ 8 by norm_num]
    subst hi
    rw [powApproxLoop_iter hge hc h1 h2 h3, if_neg hz]
    have hsgn := sg_xor neg xneg cn
    generalize (if cn then !(if xneg then !neg else neg) else (if xneg then !neg else neg)) = neg2 at hsgn ⊢
    rw [← hsgn] at hstep'
    have hT3 : |dv t3| ≤ 2 := by
      rw [abs_of_nonneg hT30]
      linarith only [hT3b, hP1', hk1E, show (1 : ℝ) / 10 ^ 12 ≤ 1 by norm_num]
    have hS7 : |dv sum| ≤ 10 ^ 7 := by
      linarith only [hsum, hkr, show (2 : ℝ) * 150000 ≤ 10 ^ 7 by norm_num]
    obtain ⟨hbig1, hbig2⟩ := abs_pm_le_big hS7 hT3
    have hsum' : ∃ s', (if neg2 = true then Dec.sub sum t3 else Dec.add sum t3) = some s' ∧
        |dv s'| ≤ 2 * (((k + 1 : ℕ) : ℝ) + 1) := by
      have hb1 := abs_add_le (dv sum) (dv t3)
      have hb2 := abs_sub (dv sum) (dv t3)
      cases neg2 with
      | true =>
        refine ⟨sum - t3, ?_, ?_⟩
        · rw [if_pos rfl]; exact Dec_sub_total hbig2
        · rw [dv_sub]; push_cast; linarith only [hb2, hsum, hT3]
      | false =>
        refine ⟨sum + t3, ?_, ?_⟩
        · rw [if_neg (by simp)]; exact Dec_add_total hbig1
        · rw [dv_add]; push_cast; linarith only [hb1, hsum, hT3]
    obtain ⟨s', hs', hs'v⟩ := hsum'
    rw [hs', Option.bind_some]
    by_cases hlim : (k : Int) + 1 = (Osmomath.powIterationLimit : Int)
    · rw [if_pos hlim]
    · rw [if_neg hlim]
      exact ih (k + 1) _ t3 s' _ neg2 (by omega) (by omega) (by push_cast; ring) (by push_cast; ring) h30 hstep' hs'v

/-- `Pow(1.999999999999999999, 0.02)` hits the 150000-iteration limit: an in-domain PANIC (finding F10). -/
theorem pow_near_two_panics : pow 1999999999999999999 20000000000000000 = none := by
  have hx : absDiffSign 1999999999999999999 P18 = some (999999999999999999, false) := by decide +kernel
  have hdx : dv 999999999999999999 = 1 - 1 / 10 ^ 18 := by unfold dv; norm_num
  have hde : dv 20000000000000000 = 1 / 50 := by unfold dv; norm_num
  have hloop := powApproxLoop_panics (xr := 999999999999999999) (er := 20000000000000000) (xneg := false)
    (by decide) (by rw [hdx]; norm_num) (by decide) (by decide)
    (by
      intro k hk1 hk
      rw [hde, sg_false, one_mul, hdx]
      rw [powIterationLimit_val] at hk
      exact le_trans (by norm_num) (pterm_ge_of_near_two hk1 hk))
    (Osmomath.powIterationLimit + 2) 0 1 P18 P18 0 false (by omega) (by decide) (by norm_num) (by norm_num)
    P18_pos.le
    (by
      have : pterm (dv 20000000000000000) (sg false * dv 999999999999999999) 0 = 1 := rfl
      rw [this, sg_false, one_mul, dv_P18, sub_self, abs_zero]; simp)
    (by rw [dv_P18]; norm_num)
  rw [pow_unfold (n := 0) (fr := 20000000000000000) (by decide) (by decide) (by decide) (by decide) (by decide)
    (by decide)]
  have hp : decPower 1999999999999999999 0 = some P18 := by unfold decPower; rw [if_pos rfl]
  rw [hp, Option.bind_some, if_neg (by decide),
    powApprox_eq (by decide) (by decide) (by decide) hx, hloop]
  rfl

end OsmoVerif.MathM
