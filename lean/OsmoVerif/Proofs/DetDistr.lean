/- helper lemmas for C19: distributionInfo and the scatter loop.  Core only. -/
import OsmoVerif.Proofs.DetMech

namespace OsmoVerif.Det
open List

/-- two `distributionInfo` values that differ only in the iteration order of the owner→id map -/
structure MapEq {C : Type} (d d' : DistrInfo C) : Prop where
  next : d.nextID = d'.nextID
  addr : d.idToAddr = d'.idToAddr
  coins : d.idToCoins = d'.idToCoins
  perm : d.ownerToID ~ d'.ownerToID
  nodup : (d.ownerToID.map Prod.fst).Nodup

theorem MapEq.refl_of_nodup {C : Type} (d : DistrInfo C) (h : (d.ownerToID.map Prod.fst).Nodup) : MapEq d d :=
  ⟨rfl, rfl, rfl, Perm.refl _, h⟩

theorem MapEq.lookup_eq {C : Type} {d d' : DistrInfo C} (h : MapEq d d') (o : String) :
    lookup d.ownerToID o = lookup d'.ownerToID o := lookup_perm h.perm h.nodup o

/-- one `addLockRewards` call: same outcome, and the results again differ only in map order.  The new entry may
be placed ANYWHERE in the second map (`ins`), as a Go map insertion does. -/
theorem addLockRewards_mapEq {C : Type} (add : C → C → C) (valid : String → Bool) {d d' : DistrInfo C}
    (h : MapEq d d') (o r : String) (c : C) :
    (addLockRewards add valid d o r c = none ∧ addLockRewards add valid d' o r c = none) ∨
    (∃ e e', addLockRewards add valid d o r c = some e ∧ addLockRewards add valid d' o r c = some e' ∧ MapEq e e') := by
  unfold addLockRewards
  rw [← h.lookup_eq o, ← h.coins]
  cases hl : lookup d.ownerToID o with
  | some id =>
    simp only
    cases hc : d.idToCoins[id]? with
    | none => exact Or.inl ⟨rfl, rfl⟩
    | some old =>
      refine Or.inr ⟨_, _, rfl, rfl, ?_⟩
      exact ⟨h.next, h.addr, by simp only [h.coins], h.perm, h.nodup⟩
  | none =>
    simp only
    cases hv : valid r with
    | false => exact Or.inl ⟨by simp, by simp⟩
    | true =>
      simp only [if_true]
      refine Or.inr ⟨_, _, rfl, rfl, ?_⟩
      refine ⟨by simp only [h.next], by simp only [h.addr], by simp only [h.coins], ?_, ?_⟩
      · simp only [h.next]; exact Perm.cons _ h.perm
      · simp only [List.map_cons, List.nodup_cons]
        exact ⟨(lookup_none_iff _ _).mp hl, h.nodup⟩

theorem runLocks_mapEq {C : Type} (add : C → C → C) (valid : String → Bool) (ls : List (String × String × C)) :
    ∀ {d d' : DistrInfo C}, MapEq d d' →
    (runLocks add valid d ls = none ∧ runLocks add valid d' ls = none) ∨
    (∃ e e', runLocks add valid d ls = some e ∧ runLocks add valid d' ls = some e' ∧ MapEq e e') := by
  induction ls with
  | nil => intro d d' h; exact Or.inr ⟨d, d', rfl, rfl, h⟩
  | cons x rest ih =>
    intro d d' h
    obtain ⟨o, r, c⟩ := x
    simp only [runLocks]
    rcases addLockRewards_mapEq add valid h o r c with ⟨h1, h2⟩ | ⟨e, e', h1, h2, he⟩
    · rw [h1, h2]; exact Or.inl ⟨rfl, rfl⟩
    · rw [h1, h2]; exact ih he

/-- writes to distinct slots commute -/
theorem scatter_step_comm {L : Type} (o : List (Option L)) (x y : Int × L)
    (hxy : x.1 = y.1 → 0 ≤ x.1 → x = y) :
    (fun (o : List (Option L)) (e : Int × L) => if e.1 < 0 then o else o.set e.1.toNat (some e.2))
      ((fun (o : List (Option L)) (e : Int × L) => if e.1 < 0 then o else o.set e.1.toNat (some e.2)) o x) y =
    (fun (o : List (Option L)) (e : Int × L) => if e.1 < 0 then o else o.set e.1.toNat (some e.2))
      ((fun (o : List (Option L)) (e : Int × L) => if e.1 < 0 then o else o.set e.1.toNat (some e.2)) o y) x := by
  simp only
  by_cases hx : x.1 < 0 <;> by_cases hy : y.1 < 0
  · simp [hx, hy]
  · simp [hx, hy]
  · simp [hx, hy]
  · simp only [hx, hy, if_false]
    by_cases he : x.1 = y.1
    · have := hxy he (by omega); subst this; rfl
    · have : x.1.toNat ≠ y.1.toNat := by omega
      exact List.set_comm _ _ this

end OsmoVerif.Det
