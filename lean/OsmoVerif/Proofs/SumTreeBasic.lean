/- Basic lemmas for the sum-tree model: key order, sorted association lists, node functions. -/
import OsmoVerif.Model.SumTree
import OsmoVerif.Spec.SortedMap

namespace OsmoVerif.SumTree

/-! ### the key order (only these five facts are used about `<` on keys) -/
theorem klt_irrefl (a : Key) : ¬ a < a := List.lt_irrefl a
theorem klt_trans {a b c : Key} : a < b → b < c → a < c := List.lt_trans
theorem klt_asymm {a b : Key} : a < b → ¬ b < a := List.lt_asymm
theorem klt_tri (a b : Key) : a < b ∨ a = b ∨ b < a := by
  by_cases h1 : a < b
  · exact Or.inl h1
  · by_cases h2 : b < a
    · exact Or.inr (Or.inr h2)
    · exact Or.inr (Or.inl (List.le_antisymm (List.not_lt.mp h2) (List.not_lt.mp h1)))
theorem knot_lt_nil (a : Key) : ¬ a < [] := List.not_lt_nil a
theorem klt_ne {a b : Key} (h : a < b) : a ≠ b := fun e => klt_irrefl b (e ▸ h)
/-- `a ≤ b` (written `¬ b < a`) and `b < c` give `a < c` -/
theorem kle_lt_trans {a b c : Key} (h1 : ¬ b < a) (h2 : b < c) : a < c := by
  rcases klt_tri a b with h | h | h
  · exact klt_trans h h2
  · exact h ▸ h2
  · exact absurd h h1
theorem klt_le_trans {a b c : Key} (h1 : a < b) (h2 : ¬ c < b) : a < c := by
  rcases klt_tri b c with h | h | h
  · exact klt_trans h1 h
  · exact h ▸ h1
  · exact absurd h h2

/-! ### sorted association lists -/
section assoc
variable {β : Type}

/-- strictly ascending keys -/
def SortedA (l : List (Key × β)) : Prop := l.Pairwise (fun a b => a.1 < b.1)

theorem get?_none_of_forall_ne {l : List (Key × β)} {k : Key} (h : ∀ n ∈ l, n.1 ≠ k) : get? l k = none := by
  induction l with
  | nil => rfl
  | cons n rest ih =>
    obtain ⟨q, w⟩ := n
    have hq : q ≠ k := h (q, w) (List.mem_cons_self)
    simp only [get?, hq, if_false]
    exact ih (fun n hn => h n (List.mem_cons_of_mem _ hn))

theorem get?_append_of_lt {A B : List (Key × β)} {k : Key} (h : ∀ n ∈ A, n.1 < k) :
    get? (A ++ B) k = get? B k := by
  induction A with
  | nil => rfl
  | cons n rest ih =>
    obtain ⟨q, w⟩ := n
    have hq : q ≠ k := klt_ne (h (q, w) List.mem_cons_self)
    simp only [List.cons_append, get?, hq, if_false]
    exact ih (fun n hn => h n (List.mem_cons_of_mem _ hn))

theorem get?_mid {A B : List (Key × β)} {k : Key} {v : β} (h : ∀ n ∈ A, n.1 < k) :
    get? (A ++ (k, v) :: B) k = some v := by
  rw [get?_append_of_lt h]; simp [get?]

theorem put_append_of_lt {A B : List (Key × β)} {k : Key} {v : β} (h : ∀ n ∈ A, n.1 < k) :
    put (A ++ B) k v = A ++ put B k v := by
  induction A with
  | nil => rfl
  | cons n rest ih =>
    obtain ⟨q, w⟩ := n
    have hlt : q < k := h (q, w) List.mem_cons_self
    have hq : q ≠ k := klt_ne hlt
    have hq' : ¬ k < q := klt_asymm hlt
    simp only [List.cons_append, put, hq, hq', if_false]
    rw [ih (fun n hn => h n (List.mem_cons_of_mem _ hn))]

theorem put_of_lt_all {B : List (Key × β)} {k : Key} {v : β} (h : ∀ n ∈ B, k < n.1) :
    put B k v = (k, v) :: B := by
  cases B with
  | nil => rfl
  | cons n rest =>
    obtain ⟨q, w⟩ := n
    have hlt : k < q := h (q, w) List.mem_cons_self
    have hq : q ≠ k := fun e => klt_irrefl k (e ▸ hlt)
    simp [put, hq, hlt]

theorem put_append_of_gt {A B : List (Key × β)} {k : Key} {v : β} (h : ∀ n ∈ B, k < n.1) :
    put (A ++ B) k v = put A k v ++ B := by
  induction A with
  | nil => simp [put, put_of_lt_all h]
  | cons n rest ih =>
    obtain ⟨q, w⟩ := n
    simp only [List.cons_append, put]
    split
    · rfl
    · split
      · rfl
      · rw [ih]; rfl

theorem put_head_same {B : List (Key × β)} {k : Key} {w v : β} : put ((k, w) :: B) k v = (k, v) :: B := by
  simp [put]

theorem map_put {γ : Type} (f : β → γ) (l : List (Key × β)) (k : Key) (v : β) :
    (put l k v).map (fun n => (n.1, f n.2)) = put (l.map (fun n => (n.1, f n.2))) k (f v) := by
  induction l with
  | nil => rfl
  | cons n rest ih =>
    obtain ⟨q, w⟩ := n
    simp only [put, List.map_cons]
    split
    · rfl
    · split
      · rfl
      · simp only [List.map_cons, ih]

theorem mem_put {l : List (Key × β)} {k : Key} {v : β} {x : Key × β} (h : x ∈ put l k v) :
    x = (k, v) ∨ x ∈ l := by
  induction l with
  | nil => simp [put] at h; exact Or.inl h
  | cons n rest ih =>
    obtain ⟨q, w⟩ := n
    simp only [put] at h
    split at h
    · rcases List.mem_cons.mp h with h | h
      · exact Or.inl h
      · exact Or.inr (List.mem_cons_of_mem _ h)
    · split at h
      · rcases List.mem_cons.mp h with h | h
        · exact Or.inl h
        · exact Or.inr h
      · rcases List.mem_cons.mp h with h | h
        · exact Or.inr (h ▸ List.mem_cons_self)
        · rcases ih h with h | h
          · exact Or.inl h
          · exact Or.inr (List.mem_cons_of_mem _ h)

theorem sortedA_put {l : List (Key × β)} (hs : SortedA l) (k : Key) (v : β) : SortedA (put l k v) := by
  induction l with
  | nil => simp [put, SortedA]
  | cons n rest ih =>
    obtain ⟨q, w⟩ := n
    have hs' := List.pairwise_cons.mp hs
    simp only [put]
    split
    · next he =>
      subst he
      exact List.pairwise_cons.mpr ⟨hs'.1, hs'.2⟩
    · split
      · next hne hlt =>
        refine List.pairwise_cons.mpr ⟨?_, hs⟩
        intro a ha
        rcases List.mem_cons.mp ha with ha | ha
        · subst ha; exact hlt
        · exact klt_trans hlt (hs'.1 a ha)
      · next hne hnlt =>
        refine List.pairwise_cons.mpr ⟨?_, ih hs'.2⟩
        intro a ha
        rcases mem_put ha with ha | ha
        · subst ha
          rcases klt_tri q k with h | h | h
          · exact h
          · exact absurd h hne
          · exact absurd h hnlt
        · exact hs'.1 a ha

end assoc

/-! ### node functions -/

theorem acc_append (a b : List Child) : acc (a ++ b) = acc a + acc b := by
  induction a with
  | nil => simp [acc]
  | cons c cs ih => simp only [List.cons_append, acc, ih]; omega

theorem setAcc_find_eq_put {cs : List Child} {k : Key} {a : Int} (h : (find cs k).2 = true) :
    setAcc cs (find cs k).1 a = put cs k a := by
  induction cs with
  | nil => simp [find] at h
  | cons c rest ih =>
    obtain ⟨q, w⟩ := c
    simp only [find] at h ⊢
    simp only [put]
    split
    · next he => subst he; rfl
    · next hne =>
      simp only [hne, if_false] at h
      split
      · next hlt => simp [hlt] at h
      · next hlt =>
        simp only [hlt, if_false] at h
        simp only [setAcc, ih h]

theorem insertAt_find_eq_put {cs : List Child} {k : Key} {a : Int} (h : (find cs k).2 = false) :
    insertAt cs (find cs k).1 (k, a) = put cs k a := by
  induction cs with
  | nil => simp [find, insertAt, put]
  | cons c rest ih =>
    obtain ⟨q, w⟩ := c
    simp only [find] at h ⊢
    simp only [put]
    split
    · next he => simp [he] at h
    · next hne =>
      simp only [hne, if_false] at h
      split
      · next hlt => simp [insertAt]
      · next hlt =>
        simp only [hlt, if_false] at h
        simp only [insertAt, ih h]

theorem find_true_of_mem {cs : List Child} {k : Key} (hs : SortedA cs) (h : ∃ c ∈ cs, c.1 = k) :
    (find cs k).2 = true := by
  induction cs with
  | nil => obtain ⟨c, hc, _⟩ := h; cases hc
  | cons c rest ih =>
    have hs' := List.pairwise_cons.mp hs
    simp only [find]
    split
    · rfl
    · next hne =>
      have h' : ∃ c ∈ rest, c.1 = k := by
        obtain ⟨d, hd, e⟩ := h
        rcases List.mem_cons.mp hd with hd | hd
        · subst hd; exact absurd e hne
        · exact ⟨d, hd, e⟩
      have hnlt : ¬ k < c.1 := by
        obtain ⟨d, hd, e⟩ := h'
        exact e ▸ klt_asymm (hs'.1 d hd)
      simp only [hnlt, if_false]
      exact ih hs'.2 h'

theorem find_false_of_not_mem {cs : List Child} {k : Key} (h : ∀ c ∈ cs, c.1 ≠ k) :
    (find cs k).2 = false := by
  induction cs with
  | nil => rfl
  | cons c rest ih =>
    have hne : c.1 ≠ k := h c List.mem_cons_self
    simp only [find, hne, if_false]
    split
    · rfl
    · exact ih (fun d hd => h d (List.mem_cons_of_mem _ hd))

/-- the child index `accumulationSplit` descends into -/
def pickIdx (cs : List Child) (k : Key) : Nat :=
  if (find cs k).2 then (find cs k).1 else (find cs k).1 - 1

/-- on a sorted node whose first key is `≤ k`, `find` never yields `-1`, and the picked child
is the last one with key `≤ k`. -/
theorem find_pick {k : Key} : ∀ (cs : List Child) (c0 : Child) (rest : List Child), cs = c0 :: rest →
    SortedA cs → ¬ k < c0.1 →
    ¬ ((!(find cs k).2 && (find cs k).1 = 0) = true) ∧
    ∃ ch, cs[pickIdx cs k]? = some ch ∧ ¬ k < ch.1 ∧ (∀ c ∈ cs.drop (pickIdx cs k + 1), k < c.1) := by
  intro cs
  induction cs with
  | nil => intro c0 rest h; cases h
  | cons c rest ih =>
    intro c0 rest0 h hs hle
    cases h
    have hs' := List.pairwise_cons.mp hs
    by_cases he : c.1 = k
    · have hf : find (c :: rest) k = (0, true) := by simp [find, he]
      refine ⟨by simp [hf], c, by simp [pickIdx, hf], hle, ?_⟩
      simp only [pickIdx, hf]
      intro d hd
      simp at hd
      exact he ▸ hs'.1 d hd
    · have hf : find (c :: rest) k = ((find rest k).1 + 1, (find rest k).2) := by
        simp [find, he, hle]
      cases hrest : rest with
      | nil =>
        subst hrest
        have hf' : find [c] k = (1, false) := by rw [hf]; simp [find]
        refine ⟨by simp [hf'], c, by simp [pickIdx, hf'], hle, ?_⟩
        simp [pickIdx, hf']
      | cons c1 rest1 =>
        subst hrest
        by_cases hle1 : k < c1.1
        · have hne1 : c1.1 ≠ k := fun e => klt_irrefl k (e ▸ hle1)
          have hf1 : find (c1 :: rest1) k = (0, false) := by simp [find, hne1, hle1]
          have hf' : find (c :: c1 :: rest1) k = (1, false) := by rw [hf, hf1]
          refine ⟨by simp [hf'], c, by simp [pickIdx, hf'], hle, ?_⟩
          simp only [pickIdx, hf']
          intro d hd
          simp at hd
          rcases hd with hd | hd
          · subst hd; exact hle1
          · exact klt_trans hle1 ((List.pairwise_cons.mp hs'.2).1 d hd)
        · obtain ⟨hnz, ch, hget, hch, hdrop⟩ := ih c1 rest1 rfl hs'.2 hle1
          have hpick : pickIdx (c :: c1 :: rest1) k = pickIdx (c1 :: rest1) k + 1 := by
            simp only [pickIdx, hf]
            cases hb : (find (c1 :: rest1) k).2
            · simp [hb] at hnz ⊢
              omega
            · simp
          refine ⟨by rw [hf]; simp, ch, ?_, hch, ?_⟩
          · rw [hpick]; simpa using hget
          · rw [hpick]; simpa using hdrop

end OsmoVerif.SumTree
