/-
Helper lemmas for Props/C14RoundTrip (1/3): the price → tick search `Tick.calculatePriceToTick` on the launch
range of prices `[10^-12, 10^38]` (raw `[10^24, 10^74]`), characterised arithmetically.

* `tickExp_tab`: the whole geometric-spacing table (68 entries, indices −30 … 37) in the uniform shape
  `(10^e, 10^(e+1), 10^(e−6), 9·10^6·(e−36))`, `e = 36 + index` — a finite table checked by kernel evaluation;
* `findGeoUp_eq` / `findGeoDown_eq`: the two linear searches return the spacing that contains the price;
* `priceToTick_core`: for EVERY raw price `p0 ∈ [10^24, 10^74]` the function returns a tick `c`, and with
  `p = ⌊p0⌋₁₈ = (10^6 + k)·10^(e−6) + ρ`, `0 ≤ ρ < 10^(e−6)` (position `k` inside spacing `e`):
  `c ∈ {q, q+1}`, `q = 9·10^6·(e−36) + k`, and `c = q` unless `ρ` is within half an increment of the next tick
  (the half-even `Quo` at 36 decimals can round the quotient up to the next integer before `TruncateInt64`).
Proof file: single Mathlib tactic modules only.
-/
import OsmoVerif.Model.Tick
import OsmoVerif.Proofs.NumLemmas
import OsmoVerif.Proofs.TickLemmas
import Mathlib.Tactic.Ring
import Mathlib.Tactic.Linarith
import Mathlib.Tactic.Positivity
import Mathlib.Tactic.NormNum

namespace OsmoVerif.Tick
open OsmoVerif.Num OsmoVerif.MathM OsmoVerif.Gen OsmoVerif.Spec

/-! ## the geometric-spacing table -/

/-- every entry of `tickExpCache` (indices −30 … 37), `e = 36 + index`. -/
theorem tickExp_tab : ∀ e : Nat, e < 74 → 6 ≤ e →
    tickExp ((e : Int) - 36) = some (10 ^ e, 10 ^ (e + 1), 10 ^ (e - 6), 9000000 * ((e : Int) - 36)) := by
  have h : ∀ e : Fin 74, 6 ≤ e.val → tickExp ((e.val : Int) - 36) =
      some (10 ^ e.val, 10 ^ (e.val + 1), 10 ^ (e.val - 6), 9000000 * ((e.val : Int) - 36)) := by decide +kernel
  exact fun e h1 h2 => h ⟨e, h1⟩ h2

theorem pow10_pos (n : Nat) : (0 : Int) < 10 ^ n := by positivity

theorem pow10_le {m n : Nat} (h : m ≤ n) : (10 : Int) ^ m ≤ 10 ^ n := by
  obtain ⟨k, rfl⟩ := Nat.exists_eq_add_of_le h
  rw [Int.pow_add]
  have a := pow10_pos m
  have b : (1 : Int) ≤ 10 ^ k := by have := pow10_pos k; omega
  nlinarith

theorem pow10_split {m n : Nat} (h : m ≤ n) : (10 : Int) ^ n = 10 ^ m * 10 ^ (n - m) := by
  rw [← Int.pow_add]; congr 1; omega

/-! ## the two spacing searches -/

theorem findGeoUp_eq {p : Int} {e : Nat} (he : e ≤ 73) (hlo : 10 ^ e < p) (hhi : p ≤ 10 ^ (e + 1)) :
    ∀ (n i f : Nat), 36 ≤ i → i + n = e → n < f →
      findGeoUp f p ((i : Int) - 36) = tickExp ((e : Int) - 36) := by
  intro n
  induction n with
  | zero =>
    intro i f hi hie hf
    obtain ⟨f', rfl⟩ : ∃ f', f = f' + 1 := ⟨f - 1, by omega⟩
    have : i = e := by omega
    subst this
    unfold findGeoUp
    rw [tickExp_tab i (by omega) (by omega)]
    simp only [Option.bind_some]
    rw [if_neg (by omega)]
  | succ n ih =>
    intro i f hi hie hf
    obtain ⟨f', rfl⟩ : ∃ f', f = f' + 1 := ⟨f - 1, by omega⟩
    unfold findGeoUp
    rw [tickExp_tab i (by omega) (by omega)]
    simp only [Option.bind_some]
    have : (10 : Int) ^ (i + 1) ≤ 10 ^ e := pow10_le (by omega)
    rw [if_pos (by omega)]
    have e1 : (i : Int) - 36 + 1 = ((i + 1 : Nat) : Int) - 36 := by push_cast; omega
    rw [e1]
    exact ih (i + 1) f' (by omega) (by omega) (by omega)

theorem findGeoDown_eq {p : Int} {e : Nat} (he : 6 ≤ e) (hlo : 10 ^ e ≤ p) (hhi : e < 35 → p < 10 ^ (e + 1)) :
    ∀ (n i f : Nat), i ≤ 35 → i = e + n → n < f →
      findGeoDown f p ((i : Int) - 36) = tickExp ((e : Int) - 36) := by
  intro n
  induction n with
  | zero =>
    intro i f hi hie hf
    obtain ⟨f', rfl⟩ : ∃ f', f = f' + 1 := ⟨f - 1, by omega⟩
    have : i = e := by omega
    subst this
    unfold findGeoDown
    rw [tickExp_tab i (by omega) (by omega)]
    simp only [Option.bind_some]
    rw [if_neg (by omega)]
  | succ n ih =>
    intro i f hi hie hf
    obtain ⟨f', rfl⟩ : ∃ f', f = f' + 1 := ⟨f - 1, by omega⟩
    unfold findGeoDown
    rw [tickExp_tab i (by omega) (by omega)]
    simp only [Option.bind_some]
    have h1 : (10 : Int) ^ (e + 1) ≤ 10 ^ i := pow10_le (by omega)
    have h2 := hhi (by omega)
    rw [if_pos (by omega)]
    have e1 : (i : Int) - 36 - 1 = ((i - 1 : Nat) : Int) - 36 := by omega
    rw [e1]
    exact ih (i - 1) f' (by omega) (by omega) (by omega)

/-- which spacing a price above one lies in. -/
theorem spacing_up_exists : ∀ (n : Nat) (p : Int), 10 ^ 36 < p → p ≤ 10 ^ (37 + n) →
    ∃ e : Nat, 36 ≤ e ∧ e ≤ 36 + n ∧ 10 ^ e < p ∧ p ≤ 10 ^ (e + 1) := by
  intro n
  induction n with
  | zero => intro p h1 h2; exact ⟨36, by omega, by omega, h1, h2⟩
  | succ n ih =>
    intro p h1 h2
    rcases Int.lt_or_le (10 ^ (37 + n)) p with h | h
    · exact ⟨37 + n, by omega, by omega, h, by rwa [show 37 + n + 1 = 37 + (n + 1) by omega]⟩
    · obtain ⟨e, a, b, c, d⟩ := ih p h1 h
      exact ⟨e, a, by omega, c, d⟩

/-- which spacing a price at or below one lies in (the search starts at index −1, so the price one itself
falls into spacing −1 as its maximum). -/
theorem spacing_down_exists : ∀ (n : Nat) (p : Int), n ≤ 35 → 10 ^ (35 - n) ≤ p → p ≤ 10 ^ 36 →
    ∃ e : Nat, 35 - n ≤ e ∧ e ≤ 35 ∧ 10 ^ e ≤ p ∧ p ≤ 10 ^ (e + 1) ∧ (e < 35 → p < 10 ^ (e + 1)) := by
  intro n
  induction n with
  | zero => intro p _ h1 h2; exact ⟨35, by omega, by omega, h1, h2, by omega⟩
  | succ n ih =>
    intro p hn h1 h2
    rcases Int.lt_or_le p (10 ^ (35 - n)) with h | h
    · have e1 : 35 - (n + 1) + 1 = 35 - n := by omega
      exact ⟨35 - (n + 1), by omega, by omega, h1, by rw [e1]; omega, fun _ => by rw [e1]; exact h⟩
    · obtain ⟨e, a, b, c, d, f⟩ := ih p (by omega) h h2
      exact ⟨e, by omega, b, c, d, f⟩

/-! ## unfolding `calculatePriceToTick` once the intermediate values are known -/

theorem consts2 : CL.MinSpotPriceBigDec = 10 ^ 24 ∧ P36 = 10 ^ 36 ∧ Pdiff = 10 ^ 18 ∧
    Osmomath.DecPrecision = 18 ∧ Osmomath.BigDecPrecision = 36 := by decide +kernel

theorem priceToTick_unfold {p0 a filled : Int} {e : Nat}
    (h1 : 10 ^ 24 ≤ p0) (h2 : p0 ≤ 10 ^ 74) (hne : p0 ≠ 10 ^ 36)
    (hgeo : (if p0.tdiv (10 ^ 18) * 10 ^ 18 > 10 ^ 36 then findGeoUp 64 (p0.tdiv (10 ^ 18) * 10 ^ 18) 0
              else findGeoDown 64 (p0.tdiv (10 ^ 18) * 10 ^ 18) (-1)) =
            some (10 ^ e, 10 ^ (e + 1), 10 ^ (e - 6), 9000000 * ((e : Int) - 36)))
    (hsub : BigDec.sub (p0.tdiv (10 ^ 18) * 10 ^ 18) (10 ^ e) = some a)
    (hquo : BigDec.quo a (10 ^ (e - 6)) = some filled)
    (hti : (filled.tdiv (10 ^ 36)).natAbs < 2 ^ 63) :
    calculatePriceToTick p0 = some (filled.tdiv (10 ^ 36) + 9000000 * ((e : Int) - 36)) := by
  obtain ⟨_, _, _, _, _, c6, c7⟩ := tick_consts
  obtain ⟨d1, d2, d3, d4, d5⟩ := consts2
  unfold calculatePriceToTick
  rw [if_neg (by omega), c6, c7, if_neg (by omega), d2, if_neg hne, d1, if_pos (by omega)]
  unfold BigDec.chopPrecision
  rw [d4, d5, if_neg (by omega)]
  simp only [bind, Option.bind_some]
  have e18 : (10 : Int) ^ (36 - 18) = 10 ^ 18 := by norm_num
  rw [e18]
  by_cases hc : p0.tdiv (10 ^ 18) * 10 ^ 18 > 10 ^ 36
  · rw [if_pos hc] at hgeo ⊢
    rw [hgeo]
    simp only [Option.bind_some, hsub, hquo]
    rw [if_pos hti]
  · rw [if_neg hc] at hgeo ⊢
    rw [hgeo]
    simp only [Option.bind_some, hsub, hquo]
    rw [if_pos hti]

/-! ## the quotient: half-even `Quo` followed by `TruncateInt64` -/

theorem fits_small {x : Int} (h0 : 0 ≤ x) (h1 : x ≤ 10 ^ 75) :
    fitsBits Osmomath.maxDecBitLen x = true := by
  apply lt_fitsBits
  have : ((10 : Int) ^ 75).natAbs < 2 ^ Osmomath.maxDecBitLen := by decide +kernel
  omega

/-- `Quo` by the increment `10^(e−6)` of a value `k·inc + ρ`, then truncation: `k` or `k+1`; `k` when `2ρ ≤ inc`. -/
theorem quo_trunc {k ρ : Int} {e : Nat} (he : 6 ≤ e) (he2 : e ≤ 73)
    (hk0 : 0 ≤ k) (hk1 : k ≤ 9000000) (hr0 : 0 ≤ ρ) (hr1 : ρ < 10 ^ (e - 6)) :
    ∃ filled, BigDec.quo (k * 10 ^ (e - 6) + ρ) (10 ^ (e - 6)) = some filled ∧
      (filled.tdiv (10 ^ 36) = k ∨ filled.tdiv (10 ^ 36) = k + 1) ∧
      (2 * ρ ≤ 10 ^ (e - 6) → filled.tdiv (10 ^ 36) = k) := by
  obtain ⟨d1, d2, d3, d4, d5⟩ := consts2
  have hinc := pow10_pos (e - 6)
  have hsplit : (10 : Int) ^ 72 = 10 ^ (e - 6) * 10 ^ (78 - e) := by
    rw [← Int.pow_add]; congr 1; omega
  have hm := pow10_pos (78 - e)
  -- the exact pre-rounding value
  have hX : ((k * 10 ^ (e - 6) + ρ) * (P36 * P36)).tdiv (10 ^ (e - 6)) = k * 10 ^ 72 + ρ * 10 ^ (78 - e) := by
    have : (k * 10 ^ (e - 6) + ρ) * (P36 * P36) = (k * 10 ^ 72 + ρ * 10 ^ (78 - e)) * 10 ^ (e - 6) := by
      rw [d2, show (10 : Int) ^ 36 * 10 ^ 36 = 10 ^ 72 by norm_num, hsplit]; ring
    rw [this]; exact Int.mul_tdiv_cancel _ (by omega)
  have hY0 : 0 ≤ ρ * 10 ^ (78 - e) := Int.mul_nonneg hr0 (by omega)
  have hY1 : ρ * 10 ^ (78 - e) < 10 ^ 72 := by
    rw [hsplit]; exact Int.mul_lt_mul_of_pos_right hr1 hm
  have hhe := chopRound_isHalfEven P36 (k * 10 ^ 72 + ρ * 10 ^ (78 - e)) P36_pos P36_even
  rw [d2] at hhe
  generalize hf : chopRound (10 ^ 36) (k * 10 ^ 72 + ρ * 10 ^ (78 - e)) = filled at hhe
  obtain ⟨u1, u2, _⟩ := hhe
  generalize hYd : ρ * 10 ^ (78 - e) = Y at *
  have lo : k * 10 ^ 36 ≤ filled := by omega
  have hi : filled ≤ (k + 1) * 10 ^ 36 := by omega
  refine ⟨filled, ?_, ?_, ?_⟩
  · unfold BigDec.quo
    rw [if_neg (by omega), hX, d2, hf]
    exact chk_of_fits (fits_small (by omega) (by omega))
  · rw [Int.tdiv_eq_ediv_of_nonneg (by omega)]; omega
  · intro hsmall
    have : 2 * Y ≤ 10 ^ 72 := by
      have := Int.mul_le_mul_of_nonneg_right hsmall (Int.le_of_lt hm)
      rw [← hsplit, Int.mul_assoc, hYd] at this
      exact this
    rw [Int.tdiv_eq_ediv_of_nonneg (by omega)]; omega

/-! ## the candidate tick of a price on the launch range -/

theorem priceToTick_core {p0 : Int} (h1 : 10 ^ 24 ≤ p0) (h2 : p0 ≤ 10 ^ 74) :
    ∃ (e : Nat) (k ρ c : Int), calculatePriceToTick p0 = some c ∧ 24 ≤ e ∧ e ≤ 73 ∧
      0 ≤ k ∧ k ≤ 9000000 ∧ 0 ≤ ρ ∧ ρ < 10 ^ (e - 6) ∧
      p0.tdiv (10 ^ 18) * 10 ^ 18 = (10 ^ 6 + k) * 10 ^ (e - 6) + ρ ∧ (k = 9000000 → ρ = 0) ∧
      (c = 9000000 * ((e : Int) - 36) + k ∨ c = 9000000 * ((e : Int) - 36) + k + 1) ∧
      (2 * ρ ≤ 10 ^ (e - 6) → c = 9000000 * ((e : Int) - 36) + k) := by
  by_cases hone : p0 = 10 ^ 36
  · subst hone
    refine ⟨36, 0, 0, 0, by decide +kernel, by omega, by omega, by omega, by omega, by omega, by norm_num,
      by decide +kernel, fun _ => rfl, by omega, fun _ => by omega⟩
  -- the chopped price
  generalize hp : p0.tdiv (10 ^ 18) * 10 ^ 18 = p
  have hp1 : 10 ^ 24 ≤ p ∧ p ≤ p0 := by
    rw [← hp, Int.tdiv_eq_ediv_of_nonneg (by omega)]; omega
  -- its spacing
  have hsp : ∃ e : Nat, 24 ≤ e ∧ e ≤ 73 ∧ 10 ^ e ≤ p ∧ p ≤ 10 ^ (e + 1) ∧
      (if p > 10 ^ 36 then findGeoUp 64 p 0 else findGeoDown 64 p (-1)) = tickExp ((e : Int) - 36) := by
    rcases Int.lt_or_le (10 ^ 36) p with hgt | hle
    · obtain ⟨e, a, b, c, d⟩ := spacing_up_exists 37 p hgt (by omega)
      refine ⟨e, by omega, by omega, by omega, d, ?_⟩
      rw [if_pos hgt]
      have := findGeoUp_eq (by omega) c d (e - 36) 36 64 (by omega) (by omega) (by omega)
      simpa using this
    · obtain ⟨e, a, b, c, d, f⟩ := spacing_down_exists 11 p (by omega) (by omega) hle
      refine ⟨e, by omega, by omega, c, d, ?_⟩
      rw [if_neg (by omega)]
      have := findGeoDown_eq (by omega) c f (35 - e) 35 64 (by omega) (by omega) (by omega)
      simpa using this
  obtain ⟨e, he1, he2, hlo, hhi, hgeo⟩ := hsp
  rw [tickExp_tab e (by omega) (by omega)] at hgeo
  have hinc := pow10_pos (e - 6)
  have hE : (10 : Int) ^ e = 10 ^ 6 * 10 ^ (e - 6) := by
    rw [← Int.pow_add]; congr 1; omega
  have hE1 : (10 : Int) ^ (e + 1) = 10 ^ 7 * 10 ^ (e - 6) := by
    rw [← Int.pow_add]; congr 1; omega
  -- position inside the spacing
  have hdm := Int.mul_ediv_add_emod (p - 10 ^ e) (10 ^ (e - 6))
  have hr0 := Int.emod_nonneg (p - 10 ^ e) (by omega : (10 : Int) ^ (e - 6) ≠ 0)
  have hr1 := Int.emod_lt_of_pos (p - 10 ^ e) hinc
  generalize hk : (p - 10 ^ e) / 10 ^ (e - 6) = k at hdm
  generalize hρ : (p - 10 ^ e) % 10 ^ (e - 6) = ρ at hdm hr0 hr1
  have hk0 : 0 ≤ k := by
    by_contra hc
    have : 10 ^ (e - 6) * k ≤ 10 ^ (e - 6) * (-1) := Int.mul_le_mul_of_nonneg_left (by omega) (by omega)
    omega
  have hk1 : k ≤ 9000000 ∧ (k = 9000000 → ρ = 0) := by
    have hb : 10 ^ (e - 6) * k + ρ ≤ 9000000 * 10 ^ (e - 6) := by
      rw [hE1] at hhi; rw [hE] at hdm; omega
    constructor
    · by_contra hc
      have : 10 ^ (e - 6) * 9000001 ≤ 10 ^ (e - 6) * k := Int.mul_le_mul_of_nonneg_left (by omega) (by omega)
      omega
    · intro hk9; subst hk9; omega
  have hpdec : p = (10 ^ 6 + k) * 10 ^ (e - 6) + ρ := by
    rw [Int.add_mul, ← hE, Int.mul_comm k]; omega
  have ha : p - 10 ^ e = k * 10 ^ (e - 6) + ρ := by rw [Int.mul_comm k]; omega
  obtain ⟨filled, hquo, hti, hsmall⟩ := quo_trunc (k := k) (ρ := ρ) (e := e) (by omega) he2 hk0 hk1.1 hr0 hr1
  have hsub : BigDec.sub p (10 ^ e) = some (k * 10 ^ (e - 6) + ρ) := by
    unfold BigDec.sub
    rw [ha]
    apply chk_of_fits
    apply fits_small
    · have := Int.mul_nonneg hk0 (Int.le_of_lt hinc); omega
    · rw [← ha]; have := pow10_pos e; omega
  have hnat : (filled.tdiv (10 ^ 36)).natAbs < 2 ^ 63 := by rcases hti with h | h <;> rw [h] <;> omega
  have hres := priceToTick_unfold h1 h2 hone (by rw [hp]; exact hgeo) (by rw [hp]; exact hsub) hquo hnat
  refine ⟨e, k, ρ, _, hres, he1, he2, hk0, hk1.1, hr0, hr1, hpdec, hk1.2, ?_, ?_⟩
  · rcases hti with h | h <;> rw [h] <;> omega
  · intro hs; rw [hsmall hs]; omega

end OsmoVerif.Tick
