/-
Bridge C02 ⟷ C04, part 2: the pool RECORD of Model/GammKeeper seen as a pool of Model/Gamm.

`Model/GammKeeper` (C02) keeps of a pool only what the ledger property needs: kind, reserves, total shares; the
numbers the pool math produced arrive on the op lines.  `Model/Gamm` (C04) is the bit-exact pool math on pools that
also carry weights / scaling factors / fees.  Here:
  * `PoolCfg` / `Cfg`  the static part of a pool (per pool id: weights, scaling factors, swap fee; exit fee is 0 on
                       every pool `InitializePool` accepts), `dname` the bank denom string of a structured denom;
  * `toBal` / `toSS`   the Model/Gamm pool of a record;
  * `gm*`              every pool-model call the keeper makes, as the Model/Gamm function applied to the record
                       (`none` = the Go call returned an error or panicked);
  * `PoolOK`           the record invariant the composition needs (distinct denom NAMES, positive reserves) and its
                       preservation by the record updates;
  * look-ups: `findAsset (toBal c p).assets (dname d)` is the asset with amount `p.res d`, etc.
Core + the C04 helper lemmas.
-/
import OsmoVerif.Proofs.GammContract
import OsmoVerif.Proofs.GammBridgeMath

namespace OsmoVerif.Gamm
open OsmoVerif.Ledger OsmoVerif.Num

/-- the static configuration of a pool (what the record of Model/GammKeeper does not carry). -/
structure PoolCfg where
  weight : Denom → Int      -- balancer: internal weight (user weight · 2^30) of each asset
  sf : Denom → Int          -- stableswap: scaling factor of each asset
  swapFee : Int             -- raw Dec; the pool's spread factor

/-- configuration of every pool id. -/
abbrev Cfg := Nat → PoolCfg

/-- the bank denom string: `gamm/pool/<id>` for a share denom, the token name otherwise. -/
def dname : Denom → String
  | .tok n => n
  | .share id => "gamm/pool/" ++ toString id

def nameCoins (cs : Coins) : GammMath.Coins := cs.map fun c => (dname c.1, c.2)

def balAssets (c : PoolCfg) (rs : Coins) : List GammMath.BalAsset :=
  rs.map fun r => (⟨dname r.1, r.2, c.weight r.1⟩ : GammMath.BalAsset)

/-- the balancer pool of Model/Gamm behind a record (total weight = Σ weights, as `SetInitialPoolAssets`). -/
def toBal (c : PoolCfg) (p : Pool) : GammMath.BalPool :=
  ⟨balAssets c p.reserves, (balAssets c p.reserves).foldl (fun s a => s + a.weight) 0, p.totalShares, c.swapFee, 0⟩

def ssAssets (c : PoolCfg) (rs : Coins) : List GammMath.SSAsset :=
  rs.map fun r => (⟨dname r.1, r.2, c.sf r.1⟩ : GammMath.SSAsset)

/-- the stableswap pool of Model/Gamm behind a record. -/
def toSS (c : PoolCfg) (p : Pool) : GammMath.SSPool := ⟨ssAssets c p.reserves, p.totalShares⟩

/-! ## every pool-model call of the keeper, computed by Model/Gamm -/

/-- `SwapOutAmtGivenIn(tokenIn, tokenOutDenom, spread)` → amount out. -/
def gmSwapOut (c : PoolCfg) (p : Pool) (din : Denom) (a : Int) (dout : Denom) : Option Int :=
  match p.kind with
  | .balancer => (GammMath.balSwapOut (toBal c p) [(dname din, a)] (dname dout) c.swapFee).toOption.map (·.1)
  | .stableswap => (GammMath.ssSwapOut (toSS c p) [(dname din, a)] (dname dout) c.swapFee).toOption.map (·.1)

/-- `SwapInAmtGivenOut(tokenOut, tokenInDenom, spread)` → amount in. -/
def gmSwapIn (c : PoolCfg) (p : Pool) (din dout : Denom) (b : Int) : Option Int :=
  match p.kind with
  | .balancer => (GammMath.balSwapIn (toBal c p) [(dname dout, b)] (dname din) c.swapFee).toOption.map (·.1)
  | .stableswap => (GammMath.ssSwapIn (toSS c p) [(dname dout, b)] (dname din) c.swapFee).toOption.map (·.1)

/-- `CalcInAmtGivenOut` (the router's estimate pass). -/
def gmCalcIn (c : PoolCfg) (p : Pool) (din dout : Denom) (b : Int) : Option Int :=
  match p.kind with
  | .balancer => (GammMath.balCalcIn (toBal c p) [(dname dout, b)] (dname din) c.swapFee).toOption
  | .stableswap => (GammMath.ssCalcIn (toSS c p) [(dname dout, b)] (dname din) c.swapFee).toOption

/-- `JoinPoolNoSwap(neededLpLiquidity)` → (shares, coins added to the record). -/
def gmJoinNoSwap (c : PoolCfg) (p : Pool) (needed : Coins) : Option (Int × GammMath.Coins) :=
  match p.kind with
  | .balancer =>
    match GammMath.balCalcJoinNoSwap (toBal c p) (nameCoins needed) with
    | .ok (s, joined) =>
      match GammMath.balIncrease (toBal c p) s joined with
      | .ok _ => some (s, joined)
      | .error _ => none
    | .error _ => none
  | .stableswap =>
    match GammMath.ssCalcJoinNoSwap (toSS c p) (nameCoins needed) with
    | .ok (s, joined) =>
      match GammMath.ssUpdateForJoin (toSS c p) joined s with
      | .ok _ => some (s, joined)
      | .error _ => none
    | .error _ => none

/-- `JoinPool(sdk.Coins{tokenIn})` → shares (single-asset join). -/
def gmJoinSingle (c : PoolCfg) (p : Pool) (din : Denom) (amt : Int) : Option Int :=
  match p.kind with
  | .balancer => (GammMath.balJoin (toBal c p) [(dname din, amt)] c.swapFee).toOption.map (·.1)
  | .stableswap => (GammMath.ssJoinInternal (toSS c p) [(dname din, amt)] c.swapFee).toOption.map (·.1)

/-- `CalcTokenInShareAmountOut` (balancer only: the `PoolAmountOutExtension`). -/
def gmTokenInShareOut (c : PoolCfg) (p : Pool) (din : Denom) (shareOut : Int) : Option Int :=
  match p.kind with
  | .balancer => (GammMath.balTokenInShareOut (toBal c p) (dname din) shareOut c.swapFee).toOption
  | .stableswap => none

/-- `ExitPool(shares, exitFee = 0)` → exit coins. -/
def gmExit (c : PoolCfg) (p : Pool) (shareIn : Int) : Option GammMath.Coins :=
  match p.kind with
  | .balancer => (GammMath.balExit (toBal c p) shareIn 0).toOption.map (·.1)
  | .stableswap => (GammMath.ssExit (toSS c p) shareIn 0).toOption.map (·.1)

/-- `ExitSwapExactAmountOut(tokenOut, shareInMaxAmount)` → shares in (balancer only). -/
def gmExitSwapOut (c : PoolCfg) (p : Pool) (dout : Denom) (amtOut maxShares : Int) : Option Int :=
  match p.kind with
  | .balancer => (GammMath.balExitSwapOut (toBal c p) (dname dout) amtOut maxShares).toOption.map (·.1)
  | .stableswap => none

/-! ## the record invariant -/

def keys (rs : Coins) : List Denom := rs.map (·.1)
def names (rs : Coins) : List String := rs.map fun c => dname c.1

/-- distinct denom NAMES and positive reserves. -/
structure PoolOK (p : Pool) : Prop where
  nodup : (names p.reserves).Nodup
  pos : ∀ c ∈ p.reserves, 0 < c.2

def PoolsOK (s : State) : Prop := ∀ id p, getPool s.pools id = some p → PoolOK p

/-- what the composition needs of the static configuration: positive weights, swap fee in [0, 1]. -/
structure CfgOK (cfg : Cfg) : Prop where
  weight_pos : ∀ id d, 0 < (cfg id).weight d
  fee : ∀ id, 0 ≤ (cfg id).swapFee ∧ (cfg id).swapFee ≤ P18

/-! ### association-list facts -/

theorem afind_isSome_iff_mem_keys : ∀ (l : Coins) (d : Denom), (afind? l d).isSome = true ↔ d ∈ keys l
  | [], d => by simp [afind?, keys]
  | (k, v) :: t, d => by
    simp only [afind?, keys, List.map_cons, List.mem_cons]
    split
    · rename_i h; subst h; simp
    · rename_i h
      have := afind_isSome_iff_mem_keys t d
      simp only [keys] at this
      rw [this]
      constructor
      · exact Or.inr
      · rintro (h1 | h1)
        · exact absurd h1.symm h
        · exact h1

theorem keys_aset : ∀ (l : Coins) (d : Denom) (v : Int), d ∈ keys l → keys (aset l d v) = keys l
  | [], d, v, h => by simp [keys] at h
  | (k, w) :: t, d, v, h => by
    simp only [aset]
    split
    · rename_i hk; subst hk; simp [keys]
    · rename_i hk
      simp only [keys, List.map_cons, List.mem_cons] at h ⊢
      rcases h with h | h
      · exact absurd h.symm hk
      · have := keys_aset t d v h
        simp only [keys] at this
        rw [this]

theorem mem_aset : ∀ (l : Coins) (d : Denom) (v : Int) (c : Denom × Int), c ∈ aset l d v → c ∈ l ∨ c = (d, v)
  | [], d, v, c, h => by simp [aset] at h; exact Or.inr h
  | (k, w) :: t, d, v, c, h => by
    simp only [aset] at h
    split at h
    · rcases List.mem_cons.mp h with h | h
      · exact Or.inr h
      · exact Or.inl (List.mem_cons_of_mem _ h)
    · rcases List.mem_cons.mp h with h | h
      · exact Or.inl (h ▸ List.mem_cons_self ..)
      · rcases mem_aset t d v c h with h | h
        · exact Or.inl (List.mem_cons_of_mem _ h)
        · exact Or.inr h

theorem names_eq_of_keys {l l' : Coins} (h : keys l = keys l') : names l = names l' := by
  have : names l = (keys l).map dname := by simp [names, keys, List.map_map]
  have h2 : names l' = (keys l').map dname := by simp [names, keys, List.map_map]
  rw [this, h2, h]

theorem Pool.has_iff (p : Pool) (d : Denom) : p.has d = true ↔ d ∈ keys p.reserves :=
  afind_isSome_iff_mem_keys p.reserves d

theorem PoolOK.setRes {p : Pool} (h : PoolOK p) {d : Denom} {v : Int} (hd : p.has d = true) (hv : 0 < v) :
    PoolOK (p.setRes d v) := by
  have hk := keys_aset p.reserves d v ((p.has_iff d).mp hd)
  refine ⟨?_, ?_⟩
  · show (names (aset p.reserves d v)).Nodup
    rw [names_eq_of_keys hk]; exact h.nodup
  · intro c hc
    rcases mem_aset p.reserves d v c hc with h1 | h1
    · exact h.pos c h1
    · rw [h1]; exact hv

theorem keys_setRes {p : Pool} {d : Denom} {v : Int} (hd : p.has d = true) : keys (p.setRes d v).reserves = keys p.reserves :=
  keys_aset p.reserves d v ((p.has_iff d).mp hd)

/-- a key of an association list with positive values has a positive value. -/
theorem aget_pos_of_mem : ∀ (l : Coins) (d : Denom), (∀ c ∈ l, 0 < c.2) → d ∈ keys l → 0 < aget l d
  | [], d, _, h => by simp [keys] at h
  | (k, v) :: t, d, hpos, h => by
    simp only [aget]
    split
    · exact hpos (k, v) (List.mem_cons_self ..)
    · rename_i hk
      simp only [keys, List.map_cons, List.mem_cons] at h
      rcases h with h | h
      · exact absurd h.symm hk
      · exact aget_pos_of_mem t d (fun c hc => hpos c (List.mem_cons_of_mem _ hc)) h

theorem PoolOK.res_pos {p : Pool} (h : PoolOK p) {d : Denom} (hd : p.has d = true) : 0 < p.res d :=
  aget_pos_of_mem p.reserves d h.pos ((p.has_iff d).mp hd)

/-- equal names of two keys of a pool with distinct names: equal denoms. -/
theorem eq_of_dname_eq : ∀ (l : Coins), (names l).Nodup → ∀ d d', d ∈ keys l → d' ∈ keys l → dname d = dname d' → d = d'
  | [], _, d, _, h, _, _ => by simp [keys] at h
  | (k, v) :: t, hnd, d, d', h, h', he => by
    simp only [names, List.map_cons, List.nodup_cons, List.mem_map, not_exists, not_and] at hnd
    simp only [keys, List.map_cons, List.mem_cons, List.mem_map] at h h'
    rcases h with h | ⟨c, hc, h⟩ <;> rcases h' with h' | ⟨c', hc', h'⟩
    · rw [h, h']
    · subst h; subst h'
      exact absurd he.symm (hnd.1 c' hc')
    · subst h; subst h'
      exact absurd he (hnd.1 c hc)
    · refine eq_of_dname_eq t hnd.2 d d' ?_ ?_ he
      · simp only [keys, List.mem_map]; exact ⟨c, hc, h⟩
      · simp only [keys, List.mem_map]; exact ⟨c', hc', h'⟩

/-! ### look-ups in the Model/Gamm pool of a record -/

theorem findAsset_balAssets (c : PoolCfg) : ∀ (l : Coins), (names l).Nodup → ∀ d, d ∈ keys l →
    GammMath.findAsset (balAssets c l) (dname d) = some ⟨dname d, aget l d, c.weight d⟩
  | [], _, d, h => by simp [keys] at h
  | (k, v) :: t, hnd, d, h => by
    simp only [GammMath.findAsset, balAssets, List.map_cons, List.find?_cons, aget]
    by_cases hk : k = d
    · subst hk; simp
    · have hne : dname k ≠ dname d := by
        intro he
        exact hk (eq_of_dname_eq ((k, v) :: t) hnd k d (by simp [keys]) h he)
      simp only [hne, decide_false, hk, if_false]
      simp only [keys, List.map_cons, List.mem_cons] at h
      rcases h with h | h
      · exact absurd h.symm hk
      · have hnd' : (names t).Nodup := by
          simp only [names, List.map_cons, List.nodup_cons] at hnd; exact hnd.2
        have := findAsset_balAssets c t hnd' d h
        simp only [GammMath.findAsset, balAssets] at this
        exact this

theorem findSS_ssAssets (c : PoolCfg) : ∀ (l : Coins), (names l).Nodup → ∀ d, d ∈ keys l →
    GammMath.findSS (ssAssets c l) (dname d) = some ⟨dname d, aget l d, c.sf d⟩
  | [], _, d, h => by simp [keys] at h
  | (k, v) :: t, hnd, d, h => by
    simp only [GammMath.findSS, ssAssets, List.map_cons, List.find?_cons, aget]
    by_cases hk : k = d
    · subst hk; simp
    · have hne : dname k ≠ dname d := by
        intro he
        exact hk (eq_of_dname_eq ((k, v) :: t) hnd k d (by simp [keys]) h he)
      simp only [hne, decide_false, hk, if_false]
      simp only [keys, List.map_cons, List.mem_cons] at h
      rcases h with h | h
      · exact absurd h.symm hk
      · have hnd' : (names t).Nodup := by
          simp only [names, List.map_cons, List.nodup_cons] at hnd; exact hnd.2
        have := findSS_ssAssets c t hnd' d h
        simp only [GammMath.findSS, ssAssets] at this
        exact this

theorem amountOf_nameCoins : ∀ (l : Coins), (names l).Nodup → ∀ d, d ∈ keys l →
    GammMath.amountOf (nameCoins l) (dname d) = aget l d
  | [], _, d, h => by simp [keys] at h
  | (k, v) :: t, hnd, d, h => by
    simp only [GammMath.amountOf, nameCoins, List.map_cons, List.find?_cons, aget]
    by_cases hk : k = d
    · subst hk; simp
    · have hne : dname k ≠ dname d := by
        intro he
        exact hk (eq_of_dname_eq ((k, v) :: t) hnd k d (by simp [keys]) h he)
      simp only [hne, decide_false, hk, if_false]
      simp only [keys, List.map_cons, List.mem_cons] at h
      rcases h with h | h
      · exact absurd h.symm hk
      · have hnd' : (names t).Nodup := by
          simp only [names, List.map_cons, List.nodup_cons] at hnd; exact hnd.2
        have := amountOf_nameCoins t hnd' d h
        simp only [GammMath.amountOf, nameCoins] at this
        exact this

/-- with positive reserves nothing is filtered: the balancer liquidity is the named record. -/
theorem balLiquidity_toBal (c : PoolCfg) {p : Pool} (h : PoolOK p) :
    GammMath.balLiquidity (toBal c p) = nameCoins p.reserves := by
  have : ∀ (l : Coins), (∀ x ∈ l, 0 < x.2) →
      (balAssets c l).filterMap (fun a => if a.amount = 0 then none else some (a.denom, a.amount)) = nameCoins l := by
    intro l
    induction l with
    | nil => intro _; rfl
    | cons x t ih =>
      intro hp
      have hx := hp x (List.mem_cons_self ..)
      have hne : x.2 ≠ 0 := by omega
      simp only [balAssets, List.map_cons, List.filterMap_cons, hne, if_false, nameCoins]
      have := ih (fun y hy => hp y (List.mem_cons_of_mem _ hy))
      simp only [balAssets, nameCoins] at this
      rw [this]
  exact this p.reserves h.pos

theorem ssLiquidity_toSS (c : PoolCfg) (p : Pool) : GammMath.ssLiquidity (toSS c p) = nameCoins p.reserves := by
  simp [GammMath.ssLiquidity, toSS, ssAssets, nameCoins, List.map_map]

/-- a weight of a list of assets with non-negative weights is at most their sum. -/
theorem weight_le_total (c : PoolCfg) (hw : ∀ d, 0 < c.weight d) (l : Coins) (d : Denom) (hd : d ∈ keys l) :
    c.weight d ≤ (balAssets c l).foldl (fun s a => s + a.weight) 0 := by
  have gen : ∀ (l : Coins) (acc : Int), acc ≤ (balAssets c l).foldl (fun s a => s + a.weight) acc := by
    intro l
    induction l with
    | nil => intro acc; exact Int.le_refl _
    | cons x t ih =>
      intro acc
      simp only [balAssets, List.map_cons, List.foldl_cons]
      have := ih (acc + c.weight x.1)
      simp only [balAssets] at this
      have := hw x.1
      omega
  have : ∀ (l : Coins) (acc : Int), d ∈ keys l → acc + c.weight d ≤ (balAssets c l).foldl (fun s a => s + a.weight) acc := by
    intro l
    induction l with
    | nil => intro acc h; simp [keys] at h
    | cons x t ih =>
      intro acc h
      simp only [balAssets, List.map_cons, List.foldl_cons]
      simp only [keys, List.map_cons, List.mem_cons] at h
      rcases h with h | h
      · have := gen t (acc + c.weight x.1)
        simp only [balAssets] at this
        rw [h]; exact this
      · have := ih (acc + c.weight x.1) h
        simp only [balAssets] at this
        have := hw x.1
        omega
  have := this l 0 hd
  omega

end OsmoVerif.Gamm
