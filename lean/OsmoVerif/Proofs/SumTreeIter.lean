/- Bounded iteration of the sum-tree model (`Tree.Iterator(begin, end)` / `ReverseIterator`): the store
iterator's seek-and-scan over the sorted leaf level selects exactly the keys of the range. -/
import OsmoVerif.Proofs.SumTreeWF

namespace OsmoVerif.SumTree
open OsmoVerif.Spec

/-- the upper-bound test of `scan` / `SortedMap.range` -/
def below (hi : Option Key) (kv : Key × Int) : Bool :=
  match hi with
  | none => true
  | some h => decide (kv.1 < h)

theorem scan_def (lo : Key) (hi : Option Key) (l : List (Key × Int)) :
    scan lo hi l = (l.dropWhile (fun kv => decide (kv.1 < lo))).takeWhile (below hi) := rfl

theorem range_def (m : SortedMap.SMap) (lo : Key) (hi : Option Key) :
    SortedMap.range m lo hi = m.filter (fun kv => decide (¬ kv.1 < lo) && below hi kv) := rfl

/-- on a sorted list, scanning while below the bound selects exactly the keys below the bound -/
theorem takeWhile_below_eq_filter (hi : Option Key) :
    ∀ {l : List (Key × Int)}, SortedA l → l.takeWhile (below hi) = l.filter (below hi) := by
  intro l
  induction l with
  | nil => intro _; rfl
  | cons c rest ih =>
    intro hs
    have hs' := List.pairwise_cons.mp hs
    by_cases hc : below hi c = true
    · rw [List.takeWhile_cons_of_pos hc, List.filter_cons_of_pos hc, ih hs'.2]
    · rw [List.takeWhile_cons_of_neg hc, List.filter_cons_of_neg hc]
      symm
      rw [List.filter_eq_nil_iff]
      intro x hx hbx
      apply hc
      cases hi with
      | none => rfl
      | some h =>
        simp only [below, decide_eq_true_eq] at hbx ⊢
        exact klt_trans (hs'.1 x hx) hbx

/-- once a key is `≥ lo`, every later key of a sorted list is -/
theorem filter_ge_of_head_ge {lo : Key} {c : Key × Int} {rest : List (Key × Int)} (hs : SortedA (c :: rest))
    (hc : ¬ c.1 < lo) (p : Key × Int → Bool) :
    (c :: rest).filter (fun kv => decide (¬ kv.1 < lo) && p kv) = (c :: rest).filter p := by
  apply List.filter_congr
  intro x hx
  have hge : ¬ x.1 < lo := by
    rcases List.mem_cons.mp hx with rfl | hx'
    · exact hc
    · exact fun hlt => hc (klt_trans ((List.pairwise_cons.mp hs).1 x hx') hlt)
  simp [hge]

/-- seek-and-scan over a sorted leaf list = the filtered sorted list -/
theorem scan_eq_range (lo : Key) (hi : Option Key) :
    ∀ {l : List (Key × Int)}, SortedA l → scan lo hi l = SortedMap.range l lo hi := by
  intro l
  induction l with
  | nil => intro _; rfl
  | cons c rest ih =>
    intro hs
    have hs' := List.pairwise_cons.mp hs
    by_cases hc : c.1 < lo
    · have e1 : (c :: rest).dropWhile (fun kv => decide (kv.1 < lo)) =
          rest.dropWhile (fun kv => decide (kv.1 < lo)) := by
        rw [List.dropWhile_cons]; simp [hc]
      have e2 : (c :: rest).filter (fun kv => decide (¬ kv.1 < lo) && below hi kv) =
          rest.filter (fun kv => decide (¬ kv.1 < lo) && below hi kv) := by
        rw [List.filter_cons]; simp [hc]
      have := ih hs'.2
      rw [scan_def, range_def] at this
      rw [scan_def, range_def, e1, e2]
      exact this
    · have e1 : (c :: rest).dropWhile (fun kv => decide (kv.1 < lo)) = c :: rest := by
        rw [List.dropWhile_cons]; simp [hc]
      rw [scan_def, range_def, e1, filter_ge_of_head_ge hs hc]
      exact takeWhile_below_eq_filter hi hs

theorem takeWhile_true {α : Type} (l : List α) : l.takeWhile (fun _ => true) = l := by
  induction l with
  | nil => rfl
  | cons c rest ih => rw [List.takeWhile_cons]; simp [ih]

theorem scan_nil_none (l : List (Key × Int)) : scan [] none l = l := by
  have h1 : l.dropWhile (fun kv => decide (kv.1 < ([] : Key))) = l := by
    cases l with
    | nil => rfl
    | cons c rest => rw [List.dropWhile_cons]; simp
  rw [scan_def, h1]
  exact takeWhile_true l

end OsmoVerif.SumTree
