/- C17 helper lemmas: what a subscriber reads from the epochs keeper inside a signal (`viewsFrom`). -/
import OsmoVerif.Proofs.EpochsTimer
namespace OsmoVerif.Epochs

/-- every hook invocation of one timer: a start-of-epoch invocation happens only in a ticking block, with the
number of the epoch that the STORED (ticked) record carries; an end-of-epoch invocation carries the number of
the epoch the timer was in before the block. -/
theorem processTimer_call_spec (t h : Int) (scr : Script) (e : EpochInfo) (subs : List Store) (c : Call)
    (hc : c ∈ (processTimer t h scr e subs).calls) :
    c.timer = e.identifier ∧ ticks t e = true ∧
    (c.kind = .epochStart → (processTimer t h scr e subs).info = pureStep t h e ∧
        c.epoch = (pureStep t h e).currentEpoch) ∧
    (c.kind = .epochEnd → e.epochCountingStarted = true ∧ c.epoch = e.currentEpoch) := by
  by_cases h1 : t < e.startTime
  · simp [processTimer, h1] at hc
  · have h1' : e.startTime ≤ t := by omega
    by_cases hs : e.epochCountingStarted = true
    · by_cases h2 : e.currentEpochStartTime + e.duration < t
      · have ht : ticks t e = true := by simp [ticks, h1', h2]
        simp only [processTimer, h1, hs, h2, ht, pureStep] at hc ⊢
        simp only [if_false, if_true, Bool.not_true, Bool.or_false, decide_true, Bool.false_eq_true] at hc ⊢
        by_cases hp1 : (runHooksFrom (scr e.identifier Kind.epochEnd) 0 subs).panicked = true
        · simp only [hp1, if_true] at hc ⊢
          obtain ⟨i, _, rfl⟩ := (mem_mkCalls _ _ _ _ _).1 hc
          simp
        · have hp1' : (runHooksFrom (scr e.identifier Kind.epochEnd) 0 subs).panicked = false := by
            cases hq : (runHooksFrom (scr e.identifier Kind.epochEnd) 0 subs).panicked <;> simp_all
          simp only [hp1', Bool.false_eq_true, if_false] at hc ⊢
          rcases List.mem_append.1 hc with hc | hc
          · obtain ⟨i, _, rfl⟩ := (mem_mkCalls _ _ _ _ _).1 hc
            simp
          · obtain ⟨i, _, rfl⟩ := (mem_mkCalls _ _ _ _ _).1 hc
            simp
      · simp [processTimer, h1, hs, h2] at hc
    · have hs' : e.epochCountingStarted = false := by
        cases hq : e.epochCountingStarted <;> simp_all
      have ht : ticks t e = true := by simp [ticks, h1', hs']
      simp only [processTimer, h1, hs', ht, pureStep] at hc ⊢
      simp only [if_false, if_true, Bool.not_false, Bool.or_true, Bool.not_true, Bool.false_eq_true] at hc ⊢
      obtain ⟨i, _, rfl⟩ := (mem_mkCalls _ _ _ _ _).1 hc
      simp

/-- every view of a block belongs to an invocation of some timer of the iterated list. -/
theorem mem_viewsFrom (t h : Int) (scr : Script) : ∀ (l done : List EpochInfo) (subs : List Store) (v : View),
    v ∈ viewsFrom t h scr done l subs →
    ∃ e ∈ l, ∃ subs', v.call ∈ (processTimer t h scr e subs').calls ∧
      v.own = seenDuring e (processTimer t h scr e subs').info v.call.kind ∧
      v.sinceStart = h - v.own.currentEpochStartHeight := by
  intro l
  induction l with
  | nil => intro done subs v hv; simp [viewsFrom] at hv
  | cons e rest ih =>
    intro done subs v hv
    simp only [viewsFrom] at hv
    have hhead : ∀ v, v ∈ (processTimer t h scr e subs).calls.map (fun c =>
        ({ call := c, own := seenDuring e (processTimer t h scr e subs).info c.kind,
           all := done ++ seenDuring e (processTimer t h scr e subs).info c.kind :: rest,
           sinceStart := h - (seenDuring e (processTimer t h scr e subs).info c.kind).currentEpochStartHeight } : View)) →
        ∃ e' ∈ e :: rest, ∃ subs', v.call ∈ (processTimer t h scr e' subs').calls ∧
          v.own = seenDuring e' (processTimer t h scr e' subs').info v.call.kind ∧
          v.sinceStart = h - v.own.currentEpochStartHeight := by
      intro v hv
      obtain ⟨c, hc, rfl⟩ := List.mem_map.1 hv
      exact ⟨e, List.mem_cons_self, subs, hc, rfl, rfl⟩
    split at hv
    · exact hhead v hv
    · rcases List.mem_append.1 hv with hv | hv
      · exact hhead v hv
      · obtain ⟨e', he', subs', h1, h2, h3⟩ := ih _ _ v hv
        exact ⟨e', List.mem_cons_of_mem _ he', subs', h1, h2, h3⟩

end OsmoVerif.Epochs
