/-
C03 helpers, part 7: the side conditions `CL.StepOK` of the whole-swap curve comparison are discharged from the
C07 invariants (`CLBook.TicksOK`, price/tick agreement `Agree`, `LA` = "liquidity is the active liquidity at the
current tick and the iterator holds the initialised ticks ahead") for EVERY step of a swap that runs with the
execution/estimate sqrt-price limit: by induction over the loop iterations, re-using `target_facts`, `body_mono`,
`body_agree`, `body_pos`, `body_LA` of Proofs/CLBook*.lean / CLSolvSwap.lean.  The recorded run additionally is
monotone in the swap direction and never passes its targets (`StepGood`).
-/
import OsmoVerif.Proofs.CLSolvSwap

namespace OsmoVerif.CLSolv
open OsmoVerif.CLPool OsmoVerif.CLBook OsmoVerif.CL OsmoVerif.Num OsmoVerif.Tick OsmoVerif.Gen OsmoVerif.Spec
open OsmoVerif.Props

/-- what the C07 invariants give for one recorded step (`sp` price before, `next` price after): the side
conditions `StepOK`, positive prices, and the step moves in the swap direction without passing its target (for
zero-for-one the target is at least the execution floor `10^30` = sqrt price `10^-6`). -/
def StepGood (og zfo : Bool) (sp target liq next : Int) : Prop :=
  StepOK og zfo sp target liq ∧ 0 < sp ∧ 0 < next ∧
  (if zfo then 1000000000000000000000000000000 ≤ target ∧ target ≤ next ∧ next ≤ sp
    else sp ≤ next ∧ next ≤ target)

/-- `StepGood` for a recorded step. -/
def RecGood (og zfo : Bool) (e : StepRec) : Prop :=
  StepGood og zfo e.st.pool.sqrtPrice e.target e.st.pool.liquidity e.res.sqrtPriceNext

theorem RecGood.ok {og zfo : Bool} {e : StepRec} (h : RecGood og zfo e) :
    StepOK og zfo e.st.pool.sqrtPrice e.target e.st.pool.liquidity := h.1

/-- one successful iteration in a pool that satisfies the C07 invariants: the invariants hold again and the
iteration is a `Run` step whose record is `StepGood`. -/
theorem body_good {og zfo : Bool} {spf limit spacing : Int} {tl : Ticks} {ps : List Position}
    {st st1 : SwapSt} {nt net : Int} {rest ahead1 : Ticks} {c : Bool}
    (hok : TicksOK spacing tl ps) (hspf : SpfOK spf)
    (hlimit : sqrtPriceLimit (execPriceLimit zfo) zfo = some limit)
    (hb : loopBody og zfo spf limit st ((nt, net) :: rest) = some (st1, ahead1, c))
    (hrem : st.remaining > 1) (ha : Agree spacing st.pool.sqrtPrice st.pool.tick) (hpos : 0 < st.pool.sqrtPrice)
    (hla : LA zfo tl ps st.pool ((nt, net) :: rest)) :
    Agree spacing st1.pool.sqrtPrice st1.pool.tick ∧ 0 < st1.pool.sqrtPrice ∧ LA zfo tl ps st1.pool ahead1 ∧
    ∃ target r, TargetFrom zfo limit target ∧
      stepOf og zfo spf st.pool.sqrtPrice target st.pool.liquidity st.remaining = some r ∧
      Advances og st r st1 ∧ StepGood og zfo st.pool.sqrtPrice target st.pool.liquidity r.sqrtPriceNext := by
  have hrel := loopBody_spec hb
  have hliq : 0 ≤ st.pool.liquidity := by
    rw [hla.1]
    apply sumBy_nonneg
    intro q hq
    have := hok.liqPos q hq
    simp only [onPos, actW]; split <;> omega
  have hmono : (if zfo then st1.pool.sqrtPrice ≤ st.pool.sqrtPrice else st.pool.sqrtPrice ≤ st1.pool.sqrtPrice) := by
    refine body_mono hrel hspf hrem hliq hpos ?_
    intro nextSp hsp
    obtain ⟨t1, t2, _, _⟩ := target_facts hok hlimit ha hla hsp
    exact ⟨t1, t2⟩
  have hagree := body_agree hrel ha
  have hpos1 := body_pos hrel hpos
  have hla1 := body_LA hok hrel ha hla hmono
  refine ⟨hagree, hpos1, hla1, ?_⟩
  obtain ⟨nextTick, net', rest', nextSp, r, hcons, hsp, hstep, hadv⟩ := loopBody_decomp hb
  have ent : nt = nextTick := by injection hcons with h1 _; injection h1
  subst ent
  obtain ⟨nextSp2, r2, hsp2, hstep2, hr2, hcase⟩ := hrel
  have ens : nextSp2 = nextSp := by rw [hsp] at hsp2; injection hsp2 with e; exact e.symm
  subst ens
  have er : r2 = r := by
    unfold stepOf targetOf at hstep
    rw [hstep] at hstep2; injection hstep2 with e; exact e.symm
  subst er
  obtain ⟨t1, t2, _, _⟩ := target_facts hok hlimit ha hla hsp
  have htgt : targetOf zfo limit nextSp2 = nextSp2 := t1
  refine ⟨targetOf zfo limit nextSp2, r2, ⟨nt, nextSp2, hsp, rfl⟩, hstep, hadv, ?_⟩
  rw [htgt, hr2]
  have hbr : if zfo then nextSp2 ≤ st1.pool.sqrtPrice ∧ st1.pool.sqrtPrice ≤ st.pool.sqrtPrice
      else st.pool.sqrtPrice ≤ st1.pool.sqrtPrice ∧ st1.pool.sqrtPrice ≤ nextSp2 := by
    rcases hcase with ⟨_, e1, _, _, _⟩ | ⟨_, _, hguard, _, _, _⟩
    · cases zfo
      · simp only [Bool.false_eq_true, ↓reduceIte] at hmono ⊢; omega
      · simp only [↓reduceIte] at hmono ⊢; omega
    · cases zfo
      · simp only [Bool.false_eq_true, ↓reduceIte] at hmono hguard ⊢; omega
      · simp only [↓reduceIte] at hmono hguard ⊢; omega
  refine ⟨⟨hliq, fun _ => ?_⟩, hpos, hpos1, ?_⟩
  · cases zfo
    · simpa using t2
    · simp only [↓reduceIte] at t2 ⊢; exact t2.2
  · cases zfo
    · simp only [Bool.false_eq_true, ↓reduceIte] at hbr ⊢; exact hbr
    · simp only [↓reduceIte] at hbr t2 ⊢; exact ⟨t2.1, hbr.1, hbr.2⟩

/-- the whole loop: a successful run from a state that satisfies the C07 invariants is a `Run` all of whose
recorded steps are `RecGood`. -/
theorem swapLoop_run_good {og zfo : Bool} {spf limit spacing : Int} {tl : Ticks} {ps : List Position}
    (hok : TicksOK spacing tl ps) (hspf : SpfOK spf)
    (hlimit : sqrtPriceLimit (execPriceLimit zfo) zfo = some limit) :
    ∀ (fuel : Nat) (st : SwapSt) (ahead : Ticks) (s c : Nat) (st' : SwapSt) (s' c' : Nat),
      swapLoop og zfo spf limit fuel st ahead s c = some (st', s', c') →
      Agree spacing st.pool.sqrtPrice st.pool.tick → 0 < st.pool.sqrtPrice → LA zfo tl ps st.pool ahead →
      ∃ tr, Run og zfo spf limit st tr st' ∧ s' = s + tr.length ∧ ∀ e ∈ tr, RecGood og zfo e := by
  intro fuel
  induction fuel with
  | zero => intro st ahead s c st' s' c' h; cases h
  | succ fuel ih =>
    intro st ahead s c st' s' c' h ha hpos hla
    unfold swapLoop at h
    split at h
    · rename_i hcond
      cases hb : loopBody og zfo spf limit st ahead with
      | none => rw [hb] at h; cases h
      | some res =>
        obtain ⟨st1, ahead1, c1⟩ := res
        rw [hb] at h
        simp only at h
        cases ahead with
        | nil => rw [loopBody_nil] at hb; cases hb
        | cons x rest =>
          obtain ⟨nt, net⟩ := x
          obtain ⟨b1, b2, b3, target, r, htgt, hstep, hadv, hgood⟩ := body_good hok hspf hlimit hb hcond.1 ha hpos hla
          obtain ⟨tr, hrun, hlen, hall⟩ := ih _ _ _ _ _ _ _ h b1 b2 b3
          refine ⟨⟨st, target, r⟩ :: tr, Run.cons hcond.1 htgt hstep hadv hrun, ?_, ?_⟩
          · rw [List.length_cons]; omega
          · intro e he
            rcases List.mem_cons.mp he with rfl | he
            · exact hgood
            · exact hall e he
    · injection h with h
      injection h with h1 h2
      injection h2 with h2 _
      subst h1
      exact ⟨[], Run.nil _, by simp [h2], fun e he => by cases he⟩

/-- with no initialised tick ahead the loop either stops at once or fails. -/
theorem swapLoop_nil_ahead {og zfo : Bool} {spf limit : Int} (fuel : Nat) {st st' : SwapSt} {s c s' c' : Nat}
    (h : swapLoop og zfo spf limit fuel st [] s c = some (st', s', c')) : st' = st ∧ s' = s := by
  cases fuel with
  | zero => cases h
  | succ fuel =>
    unfold swapLoop at h
    split at h
    · rw [loopBody_nil] at h; cases h
    · injection h with h
      injection h with h1 h2
      injection h2 with h2 _
      exact ⟨h1.symm, h2.symm⟩

/-- `computeSwap` in terms of ANY description of its loop as a run with a property `Q` of the trace
(`CL.computeSwap_run` with the run supplied by the caller). -/
theorem computeSwap_run_with {Q : List StepRec → Prop} {ogi zfo : Bool} {spf pl : Int} {pool : PoolSt} {ticks : Ticks}
    {specified : Int} {r : SwapOut} (h : computeSwap ogi zfo spf pl pool ticks specified = some r)
    (hloop : ∀ limit st' s' c', sqrtPriceLimit pl zfo = some limit →
      swapLoop ogi zfo spf limit (2 * ticks.length + CL.swapNoProgressLimit + 8)
        { remaining := specified * P18, calculated := 0, pool := pool, spreadTotal := 0, noProgress := 0 }
        (ticksAhead zfo ticks pool.tick) 0 0 = some (st', s', c') →
      ∃ tr, Run ogi zfo spf limit
        { remaining := specified * P18, calculated := 0, pool := pool, spreadTotal := 0, noProgress := 0 } tr st' ∧
        s' = 0 + tr.length ∧ Q tr) :
    ∃ (limit : Int) (tr : List StepRec) (st' : SwapSt),
      sqrtPriceLimit pl zfo = some limit ∧
      (if zfo then CL.MinSqrtPriceBigDec ≤ limit ∧ limit ≤ pool.sqrtPrice
        else pool.sqrtPrice ≤ limit ∧ limit ≤ CL.MaxSqrtPriceBigDec) ∧
      Run ogi zfo spf limit
        { remaining := specified * P18, calculated := 0, pool := pool, spreadTotal := 0, noProgress := 0 } tr st' ∧
      tr.length = r.steps ∧ r.pool = st'.pool ∧ 0 ≤ st'.remaining ∧ r.spreadRewards = sumCharge tr ∧
      IsCeil (sumIn ogi tr + sumCharge tr) P18 r.amountIn ∧ IsTrunc (sumOut ogi tr) P18 r.amountOut ∧
      (if ogi then sumIn ogi tr + sumCharge tr = specified * P18 - st'.remaining
        else sumOut ogi tr = specified * P18 - st'.remaining) ∧ Q tr := by
  rw [computeSwap_eq] at h
  obtain ⟨limit, hlim, h1⟩ := Option.bind_eq_some_iff.mp h
  obtain ⟨u, hval, h2⟩ := Option.bind_eq_some_iff.mp h1
  have hv : if zfo then CL.MinSqrtPriceBigDec ≤ limit ∧ limit ≤ pool.sqrtPrice
      else pool.sqrtPrice ≤ limit ∧ limit ≤ CL.MaxSqrtPriceBigDec := by
    cases zfo
    · rw [if_neg (by decide)] at hval ⊢
      have := (CL.ite_none_eq_some hval).1
      omega
    · rw [if_pos rfl] at hval ⊢
      have := (CL.ite_none_eq_some hval).1
      omega
  obtain ⟨x, hx, h3⟩ := Option.bind_eq_some_iff.mp h2
  clear h h1 h2
  obtain ⟨st', steps, crossed⟩ := x
  obtain ⟨tr, hrun, hlen, hq⟩ := hloop limit st' steps crossed hlim hx
  obtain ⟨s1, s2⟩ := hrun.sums
  refine ⟨limit, tr, st', hlim, hv, hrun, ?_⟩
  unfold finishSwap at h3
  obtain ⟨hneg, h4⟩ := CL.ite_none_eq_some h3
  simp only at hneg h4 s1 s2
  cases ogi
  · rw [if_neg (by decide)] at h4 s2 ⊢
    obtain ⟨ain, hain, h5⟩ := Option.bind_eq_some_iff.mp h4
    obtain ⟨got, hgot, h6⟩ := Option.bind_eq_some_iff.mp h5
    obtain ⟨aout, haout, h7⟩ := Option.bind_eq_some_iff.mp h6
    cases h7
    have eg := dec_sub_exact hgot
    have c1 := dec_ceil_truncateInt_ceil hain
    have c2 := dec_truncateInt_trunc haout
    have e1 : st'.calculated = sumIn false tr + sumCharge tr := by omega
    have e2 : got = sumOut false tr := by omega
    rw [e1] at c1; rw [e2] at c2
    exact ⟨by simp only; omega, rfl, by omega, by simp only; omega, c1, c2, by omega, hq⟩
  · rw [if_pos rfl] at h4 s2 ⊢
    obtain ⟨used, hused, h5⟩ := Option.bind_eq_some_iff.mp h4
    obtain ⟨ain, hain, h6⟩ := Option.bind_eq_some_iff.mp h5
    obtain ⟨aout, haout, h7⟩ := Option.bind_eq_some_iff.mp h6
    cases h7
    have eg := dec_sub_exact hused
    have c1 := dec_ceil_truncateInt_ceil hain
    have c2 := dec_truncateInt_trunc haout
    have e1 : used = sumIn true tr + sumCharge tr := by omega
    have e2 : st'.calculated = sumOut true tr := by omega
    rw [e1] at c1; rw [e2] at c2
    exact ⟨by simp only; omega, rfl, by omega, by simp only; omega, c1, c2, by omega, hq⟩

/-- the limits an executed swap (`GetPriceLimit`) and an estimate (`0`) pass resolve to the same sqrt price. -/
def ExecOrEstimate (zfo : Bool) (pl : Int) : Prop := pl = 0 ∨ pl = execPriceLimit zfo

theorem ExecOrEstimate.limit {zfo : Bool} {pl : Int} (h : ExecOrEstimate zfo pl) :
    sqrtPriceLimit pl zfo = sqrtPriceLimit (execPriceLimit zfo) zfo := by
  rcases h with rfl | rfl
  · exact (limit_exec_eq_estimate zfo).symm
  · rfl

/-- every swap computed (executed or estimated) on a pool state that satisfies the C07 invariants is a run all of
whose steps are `RecGood`; a pool without positions has no tick to step to, the run is empty. -/
theorem computeSwap_run_good {p : Pool} (hinv : Inv p) (hspf : SpfOK p.spf) {ogi zfo : Bool} {pl specified : Int}
    {r : SwapOut} (hpl : ExecOrEstimate zfo pl)
    (h : computeSwap ogi zfo p.spf pl ⟨p.sqrtPrice, p.tick, p.liquidity⟩ (tickList p) specified = some r) :
    ∃ (limit : Int) (tr : List StepRec) (st' : SwapSt),
      sqrtPriceLimit pl zfo = some limit ∧
      (if zfo then CL.MinSqrtPriceBigDec ≤ limit ∧ limit ≤ p.sqrtPrice
        else p.sqrtPrice ≤ limit ∧ limit ≤ CL.MaxSqrtPriceBigDec) ∧
      Run ogi zfo p.spf limit
        { remaining := specified * P18, calculated := 0, pool := ⟨p.sqrtPrice, p.tick, p.liquidity⟩, spreadTotal := 0,
          noProgress := 0 } tr st' ∧
      tr.length = r.steps ∧ r.pool = st'.pool ∧ 0 ≤ st'.remaining ∧ r.spreadRewards = sumCharge tr ∧
      IsCeil (sumIn ogi tr + sumCharge tr) P18 r.amountIn ∧ IsTrunc (sumOut ogi tr) P18 r.amountOut ∧
      (if ogi then sumIn ogi tr + sumCharge tr = specified * P18 - st'.remaining
        else sumOut ogi tr = specified * P18 - st'.remaining) ∧
      ∀ e ∈ tr, RecGood ogi zfo e := by
  apply computeSwap_run_with (Q := fun tr => ∀ e ∈ tr, RecGood ogi zfo e) h
  intro limit st' s' c' hlim hl
  rw [hpl.limit] at hlim
  by_cases hne : p.positions = []
  · have hticks : tickList p = [] := by
      unfold tickList
      cases ht : p.ticks with
      | nil => rfl
      | cons x xs =>
        obtain ⟨q, hq, _⟩ := (hinv.core.stored x.tick).mp ⟨x, by rw [ht]; exact List.mem_cons_self, rfl⟩
        rw [hne] at hq; cases hq
    have hah : ticksAhead zfo (tickList p) p.tick = [] := by rw [hticks]; cases zfo <;> rfl
    rw [hah] at hl
    obtain ⟨e1, e2⟩ := swapLoop_nil_ahead _ hl
    subst e1
    exact ⟨[], Run.nil _, by simp [e2], fun e he => by cases he⟩
  · exact swapLoop_run_good (ticksOK_of_core hinv.core) hspf hlim _ _ _ _ _ _ _ _ hl
      (hinv.price.2 hne).1 (hinv.price.2 hne).2 ⟨hinv.active, rfl⟩

/-- the limit is positive (zero-for-one: at least the minimum sqrt price; one-for-zero: at least the pool's price). -/
theorem limit_pos_of_valid {zfo : Bool} {limit P : Int} (hP : 0 < P)
    (hv : if zfo then CL.MinSqrtPriceBigDec ≤ limit ∧ limit ≤ P else P ≤ limit ∧ limit ≤ CL.MaxSqrtPriceBigDec) :
    0 < limit := by
  cases zfo
  · rw [if_neg (by decide)] at hv; omega
  · rw [if_pos rfl] at hv
    have : (0 : Int) < CL.MinSqrtPriceBigDec := by decide
    omega

/-- the curve comparison for a run all of whose steps are `RecGood`. -/
theorem curve_of_run_good {ogi zfo : Bool} {spf limit : Int} {st st' : SwapSt} {tr : List StepRec} {ain aout : Int}
    (hs0 : 0 ≤ spf) (hs1 : spf < P18) (hlim : 0 < st.pool.sqrtPrice → 0 < limit)
    (hrun : Run ogi zfo spf limit st tr st') (hgood : ∀ e ∈ tr, RecGood ogi zfo e)
    (c1 : IsCeil (sumIn ogi tr + sumCharge tr) P18 ain) (c2 : IsTrunc (sumOut ogi tr) P18 aout) :
    (aout : ℚ) * 10 ^ 18 ≤ sumExactOut zfo tr ∧ sumExactIn zfo tr ≤ (ain : ℚ) * 10 ^ 18 := by
  have hok : ∀ e ∈ tr, StepOK ogi zfo e.st.pool.sqrtPrice e.target e.st.pool.liquidity := fun e he => (hgood e he).ok
  cases tr with
  | nil =>
    -- no step: both sums are zero
    simp only [sumIn, sumOut, sumCharge, Int.add_zero] at c1 c2
    have e1 := ceil_zero P18_pos c1
    have e2 := trunc_zero P18_pos c2
    rw [e1, e2]; simp [sumExactIn, sumExactOut]
  | cons e0 tr0 =>
    have hpos : 0 < st.pool.sqrtPrice := by
      have := (hgood e0 List.mem_cons_self).2.1
      have hpath := hrun.path
      simp only [Path] at hpath
      rw [hpath.1] at this; exact this
    obtain ⟨_, hc⟩ := hrun.curve hs0 hs1 hpos (hlim hpos) hok
    obtain ⟨o0, ch0⟩ := sums_nonneg (ogi := ogi) (e0 :: tr0)
      (fun e he => ⟨(hc e he).2.2.2.2.2.1, (hc e he).2.2.2.2.2.2⟩)
    obtain ⟨a, b⟩ := sums_vs_exact (ogi := ogi) (zfo := zfo) (e0 :: tr0)
      (fun e he => ⟨(hc e he).1, (hc e he).2.1, (hc e he).2.2.1, (hc e he).2.2.2.2.1⟩)
    have ho := (c2.1 o0).1
    have hi : sumIn ogi (e0 :: tr0) ≤ ain * P18 := by have := c1.2; omega
    rw [P18_eq] at ho hi
    constructor
    · calc (aout : ℚ) * 10 ^ 18 ≤ (sumOut ogi (e0 :: tr0) : ℚ) := by exact_mod_cast ho
        _ ≤ sumExactOut zfo (e0 :: tr0) := b
    · calc sumExactIn zfo (e0 :: tr0) ≤ (sumIn ogi (e0 :: tr0) : ℚ) := a
        _ ≤ (ain : ℚ) * 10 ^ 18 := by exact_mod_cast hi

/-- the unconditional whole-swap curve comparison on a state that satisfies the C07 invariants. -/
theorem swap_vs_exact_curve_of_inv {p : Pool} (hinv : Inv p) (hspf : SpfOK p.spf) {ogi zfo : Bool}
    {pl specified : Int} {r : SwapOut} (hpl : ExecOrEstimate zfo pl)
    (h : computeSwap ogi zfo p.spf pl ⟨p.sqrtPrice, p.tick, p.liquidity⟩ (tickList p) specified = some r) :
    ∃ (limit : Int) (tr : List StepRec) (st' : SwapSt),
      Run ogi zfo p.spf limit
        { remaining := specified * P18, calculated := 0, pool := ⟨p.sqrtPrice, p.tick, p.liquidity⟩, spreadTotal := 0,
          noProgress := 0 } tr st' ∧
      Path p.sqrtPrice tr r.pool.sqrtPrice ∧ tr.length = r.steps ∧
      (∀ e ∈ tr, StepOK ogi zfo e.st.pool.sqrtPrice e.target e.st.pool.liquidity) ∧
      (r.amountOut : ℚ) * 10 ^ 18 ≤ sumExactOut zfo tr ∧ sumExactIn zfo tr ≤ (r.amountIn : ℚ) * 10 ^ 18 := by
  obtain ⟨limit, tr, st', _, hv, hrun, hlen, hp, _, _, c1, c2, _, hgood⟩ := computeSwap_run_good hinv hspf hpl h
  obtain ⟨hs0, hs1⟩ := spfOK_lt hspf
  exact ⟨limit, tr, st', hrun, by rw [hp]; exact hrun.path, hlen, fun e he => (hgood e he).ok,
    curve_of_run_good hs0 hs1 (fun hpos => limit_pos_of_valid hpos hv) hrun hgood c1 c2⟩

end OsmoVerif.CLSolv
