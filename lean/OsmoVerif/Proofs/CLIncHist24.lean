/-
C08 (incentives, histories) helpers, part 24: closed form of a record's remaining amount over a history, its presence in the
record list, and what an emission slot is.  Core only.
-/
import OsmoVerif.Proofs.CLIncHist23

namespace OsmoVerif.CLIncP
open OsmoVerif.Num OsmoVerif.CL OsmoVerif.CLPool OsmoVerif.CLFees OsmoVerif.CLInc OsmoVerif.CLFeesP OsmoVerif.CLBook
open OsmoVerif.Accum (amt sorted hev)
open OsmoVerif.Gen

theorem stepRec_fields (s : Full) (op : IOp) (r : IncRec) :
    (stepRec s op r).rate = r.rate ∧ (stepRec s op r).id = r.id ∧ (stepRec s op r).denom = r.denom ∧
    (stepRec s op r).uptime = r.uptime ∧ (stepRec s op r).start = r.start := by
  rcases stepRec_cases s op r with ⟨h1, _⟩ | ⟨el, _, h2⟩
  · rw [h1]; exact ⟨rfl, rfl, rfl, rfl, rfl⟩
  · rw [h2]; exact ⟨rfl, rfl, rfl, rfl, rfl⟩

/-- `max(rem − σ, 0)`. -/
def clamp (rem σ : Int) : Int := if σ ≤ rem then rem - σ else 0

theorem clamp_zero {rem : Int} (h : 0 ≤ rem) : clamp rem 0 = rem := by unfold clamp; rw [if_pos h, Int.sub_zero]

theorem clamp_nonneg (rem σ : Int) : 0 ≤ clamp rem σ := by unfold clamp; split <;> omega

theorem clamp_clamp {rem σ τ : Int} (hσ : 0 ≤ σ) (hτ : 0 ≤ τ) : clamp (clamp rem σ) τ = clamp rem (σ + τ) := by
  unfold clamp
  by_cases c1 : σ ≤ rem
  · rw [if_pos c1]
    by_cases c2 : τ ≤ rem - σ
    · rw [if_pos c2, if_pos (by omega)]; omega
    · rw [if_neg c2, if_neg (by omega)]
  · rw [if_neg c1]
    by_cases c2 : τ ≤ 0
    · rw [if_pos c2, if_neg (by omega)]; omega
    · rw [if_neg c2, if_neg (by omega)]

theorem stepRec_clamp (s : Full) (op : IOp) (r : IncRec) (hrem : 0 ≤ r.remaining) (hslot : 0 ≤ slotOf s op r) :
    stepRec s op r = { r with remaining := clamp r.remaining (slotOf s op r) } := stepRec_closed s op r hrem hslot

/-- **closed form**: remaining amount after a history = max(remaining at the start − Σ slots, 0); nothing else changes. -/
theorem evolve_closed {s : Full} (hi : IncInv s) (ops : List IOp) (r : IncRec) (hrem : 0 ≤ r.remaining) (hrate : 0 ≤ r.rate) :
    0 ≤ slotSum s ops r ∧ evolveRec s ops r = { r with remaining := clamp r.remaining (slotSum s ops r) } := by
  induction ops generalizing s r with
  | nil =>
    refine ⟨Int.le_refl _, ?_⟩
    show r = { r with remaining := clamp r.remaining 0 }
    rw [clamp_zero hrem]
  | cons op ops ih =>
    have hσ := slotOf_nonneg s op r hi hrate
    have h1 := stepRec_clamp s op r hrem hσ
    have hf := stepRec_fields s op r
    have hm1 : 0 ≤ (stepRec s op r).remaining := by rw [h1]; exact clamp_nonneg _ _
    obtain ⟨i1, i2⟩ := ih (stepI_facts op hi).inv (stepRec s op r) hm1 (by rw [hf.1]; exact hrate)
    refine ⟨by show 0 ≤ slotOf s op r + slotSum (stepI s op) ops (stepRec s op r); omega, ?_⟩
    show evolveRec (stepI s op) ops (stepRec s op r) =
      { r with remaining := clamp r.remaining (slotOf s op r + slotSum (stepI s op) ops (stepRec s op r)) }
    rw [i2]
    have e : ∀ (x : IncRec) (τ : Int), 0 ≤ τ → x = { r with remaining := clamp r.remaining (slotOf s op r) } →
        ({ x with remaining := clamp x.remaining τ } : IncRec) = { r with remaining := clamp r.remaining (slotOf s op r + τ) } := by
      intro x τ hτ hx
      subst hx
      simp only
      rw [clamp_clamp hσ hτ]
    exact e _ _ i1 h1

/-- **a record stays in the list exactly as long as it holds something**: every record of the start state, evolved
independently of everything else by the messages, is in the record list at the end if its remaining amount is positive. -/
theorem record_evolves {s : Full} (hi : IncInv s) (hpos : PosRecs s.inc) (ops : List IOp) {r : IncRec} (hr : r ∈ s.inc.records)
    (hlive : 0 < (evolveRec s ops r).remaining) : evolveRec s ops r ∈ (runI s ops).inc.records := by
  induction ops generalizing s r with
  | nil => exact hr
  | cons op ops ih =>
    have sf := stepI_facts op hi
    have hrate : 0 ≤ r.rate := (hi.inc.recsOK r hr).1
    have hrem : 0 ≤ r.remaining := (hi.inc.recsOK r hr).2
    have hσ := slotOf_nonneg s op r hi hrate
    have h1 := stepRec_clamp s op r hrem hσ
    have hf := stepRec_fields s op r
    have hm1 : 0 ≤ (stepRec s op r).remaining := by rw [h1]; exact clamp_nonneg _ _
    obtain ⟨t1, t2⟩ := evolve_closed sf.inv ops (stepRec s op r) hm1 (by rw [hf.1]; exact hrate)
    have hlive' : 0 < (evolveRec (stepI s op) ops (stepRec s op r)).remaining := hlive
    have hpos1 : 0 < (stepRec s op r).remaining := by
      rw [t2] at hlive'
      have hcl : 0 < clamp (stepRec s op r).remaining (slotSum (stepI s op) ops (stepRec s op r)) := hlive'
      unfold clamp at hcl
      split at hcl <;> omega
    have hmem : stepRec s op r ∈ (stepI s op).inc.records := by
      cases h : applyI s op with
      | none =>
        have hst : stepI s op = s := by unfold stepI; rw [h]
        rw [hst]
        unfold stepRec
        rw [h]
        simp only [Option.isSome_none, Bool.false_eq_true, false_and, ↓reduceIte]
        exact hr
      | some s' =>
        have e : stepI s op = s' := by unfold stepI; rw [h]
        rw [e]
        have hx := applyI_records_exact hi hpos h
        rw [hx]
        have hsome : (applyI s op).isSome = true := by rw [h]; rfl
        have hsyn : syncsOp s op = true → stepRec s op r ∈ syncedRecs s := by
          intro hs
          unfold syncedRecs
          refine List.mem_filter.mpr ⟨?_, by simpa using hpos1⟩
          have : stepRec s op r = syncRec s.inc s.fees.pool.liquidity r := by
            unfold stepRec; rw [if_pos ⟨hsome, hs⟩]
          rw [this]
          exact List.mem_map_of_mem hr
        cases hn : newRecOf op with
        | some nr =>
          simp only
          apply mem_insertRec.mpr
          right
          apply hsyn
          cases op with
          | incentive id d a rt st u => rfl
          | fee fop => simp [newRecOf] at hn
          | advance ns => simp [newRecOf] at hn
          | sync => simp [newRecOf] at hn
          | icollect sd id => simp [newRecOf] at hn
        | none =>
          simp only
          by_cases hs : syncsOp s op = true
          · rw [if_pos hs]; exact hsyn hs
          · rw [if_neg hs]
            have : stepRec s op r = r := by
              unfold stepRec; rw [if_neg (fun c => hs c.2)]
            rw [this]; exact hr
    have hposS : PosRecs (stepI s op).inc := by
      rcases stepI_cases s op with h | ⟨s', h, e⟩
      · rw [h]; exact hpos
      · rw [e]; exact applyI_posRecs hi hpos h
    exact ih sf.inv hposS hmem hlive'

/-- **what an emission slot is**: a non-zero slot means the message succeeded and brought the accumulators to now, at least one
unit of liquidity was active, time had elapsed since the last update, the record had started — and the slot is
`⌊(now − last)·10⁹ · rate / 10¹⁸⌋` raw units, i.e. rate × elapsed seconds truncated to 18 decimals. -/
theorem slot_spec {s : Full} {op : IOp} {r : IncRec} (h : slotOf s op r ≠ 0) :
    (applyI s op).isSome ∧ syncsOp s op = true ∧ P18 ≤ s.fees.pool.liquidity ∧ r.start < s.inc.now ∧ s.inc.last < s.inc.now ∧
    r.uptime < 6 ∧ slotOf s op r = ((s.inc.now - s.inc.last) * 1000000000 * r.rate).tdiv P18 := by
  unfold slotOf at h ⊢
  by_cases hc : (applyI s op).isSome = true ∧ syncsOp s op = true
  · rw [if_pos hc] at h ⊢
    cases hE : elapsedOf s.inc with
    | none => rw [hE] at h; exact absurd rfl h
    | some el =>
      rw [hE] at h
      simp only at h ⊢
      by_cases h1 : el = 0 ∨ s.fees.pool.liquidity < P18 ∨ ¬ r.uptime < 6
      · rw [if_pos h1] at h; exact absurd rfl h
      · rw [if_neg h1] at h ⊢
        have hel := elapsed_exact hE
        cases he : emitOne s.inc.now el s.fees.pool.liquidity s.inc.factor r.uptime r with
        | none => rw [he] at h; exact absurd rfl h
        | some res =>
          cases res with
          | none => rw [he] at h; exact absurd rfl h
          | some pr =>
            obtain ⟨perLiq, rem⟩ := pr
            obtain ⟨hst, _, _, _⟩ := emitOne_rem he
            simp only [not_or, Decidable.not_not] at h1
            -- elapsed ≥ 0 since the sync succeeded
            obtain ⟨i1, hi1⟩ := synced_of_success hc
            have hpos : 0 ≤ el := by
              rcases Int.lt_or_le el 0 with hneg | hge
              · exfalso
                unfold sync at hi1
                have hE' : Dec.quo ((s.inc.now - s.inc.last) * P18) (1000000000 * P18) = some el := hE
                rw [hE'] at hi1
                simp only [Option.bind_some] at hi1
                rw [if_neg (by omega), if_pos hneg] at hi1
                cases hi1
              · exact hge
            refine ⟨hc.1, hc.2, by omega, hst, by omega, h1.2.2, ?_⟩
            unfold emitted
            rw [hel]
  · rw [if_neg hc] at h; exact absurd rfl h

/-- no slot without liquidity: the record is not consumed by idle time. -/
theorem slot_zero_of_no_liquidity {s : Full} {op : IOp} (r : IncRec) (hl : s.fees.pool.liquidity < P18) :
    slotOf s op r = 0 ∧ stepRec s op r = r := by
  constructor
  · unfold slotOf
    split
    · cases elapsedOf s.inc with
      | none => rfl
      | some el => simp only; rw [if_pos (Or.inr (Or.inl hl))]
    · rfl
  · unfold stepRec
    split
    · exact syncRec_no_liquidity hl r
    · rfl

end OsmoVerif.CLIncP
