/-
Bridge C02 ⟷ C04, part 6: finding F13 characterised through the actual balancer math.
A TIED balancer `SwapOutAmtGivenIn` call answers with the entire out-reserve iff `Pow` returned a value ≤ 0;
with equal weights that never happens.
-/
import OsmoVerif.Proofs.GammBridgeHist

namespace OsmoVerif.Gamm
open OsmoVerif.Ledger OsmoVerif.Num OsmoVerif.MathM

theorem mem_keys_of_aget_ne_zero : ∀ (l : Coins) (d : Denom), aget l d ≠ 0 → d ∈ keys l
  | [], d, h => by simp [aget] at h
  | (k, v) :: t, d, h => by
    simp only [aget] at h
    simp only [keys, List.map_cons, List.mem_cons]
    split at h
    · rename_i hk; exact Or.inl hk.symm
    · exact Or.inr (mem_keys_of_aget_ne_zero t d h)

theorem findAsset_balAssets_mem (c : PoolCfg) (l : Coins) (n : String) {a : GammMath.BalAsset}
    (h : GammMath.findAsset (balAssets c l) n = some a) : ∃ r ∈ l, a = ⟨dname r.1, r.2, c.weight r.1⟩ := by
  unfold GammMath.findAsset at h
  have := List.mem_of_find?_eq_some h
  simp only [balAssets, List.mem_map] at this
  obtain ⟨r, hr, he⟩ := this
  exact ⟨r, hr, he.symm⟩

/-- `applySwap` of Model/Gamm refuses to pay more than the out-reserve. -/
theorem balApplySwap_ok_le {P P' : GammMath.BalPool} {dIn dOut : String} {amtIn amtOut : Int} {aOut : GammMath.BalAsset}
    (h : GammMath.balApplySwap P dIn amtIn dOut amtOut = .ok P') (ho : GammMath.findAsset P.assets dOut = some aOut) :
    amtOut ≤ aOut.amount := by
  unfold GammMath.balApplySwap at h
  rw [ho] at h
  split at h
  · rename_i aIn aOut' _ h2
    injection h2 with h2; subst h2
    cases h1 : GammMath.iadd aIn.amount amtIn with
    | error e => simp [h1, bind, Except.bind] at h
    | ok nIn =>
      cases h2 : GammMath.isub aOut.amount amtOut with
      | error e => simp [h1, h2, bind, Except.bind] at h
      | ok nOut =>
        simp only [h1, h2, bind, Except.bind] at h
        have hn : nOut = aOut.amount - amtOut := by
          unfold GammMath.isub at h2; exact GammMath.chkInt_some (GammMath.pn_ok h2)
        split at h
        · cases h
        · split at h
          · cases h
          · omega
  · cases h

/-- a TIED balancer `SwapOutAmtGivenIn` call with a result: Model/Gamm's `CalcOutAmtGivenIn` returned it and
`applySwap` accepted it. -/
theorem tied_swapIn_balancer {cfg : Cfg} {p : Pool} {id : Nat} {din dout : Denom} {a out : Int}
    (hk : p.kind = .balancer) (ht : (Call.swapIn p id din a dout (some out)).tied cfg = true) :
    ∃ P', GammMath.balCalcOut (toBal (cfg id) p) [(dname din, a)] (dname dout) (cfg id).swapFee = .ok out ∧
      GammMath.balApplySwap (toBal (cfg id) p) (dname din) a (dname dout) out = .ok P' := by
  simp only [Call.tied, decide_eq_true_eq] at ht
  unfold gmSwapOut at ht
  rw [hk] at ht
  obtain ⟨P', h⟩ := toOption_map_fst_some ht.symm
  obtain ⟨P'', h1, h2, _⟩ := Props.C04.swap_out_pool_receives_whole_input h
  exact ⟨P'', h1, h2⟩

/-- FULL (F13, exact characterisation). For a TIED balancer `SwapOutAmtGivenIn` call on a record with distinct names and
positive reserves whose out-denom is a pool asset: with `pw` the value `Pow` returned for the base
`resIn/(resIn + in·(1−spread))` and the exponent `wIn/wOut`, the call answers with the ENTIRE out-reserve iff `pw ≤ 0`. -/
theorem entireReserve_iff_pow_nonpos {cfg : Cfg} {p : Pool} {id : Nat} {din dout : Denom} {a out : Int}
    (hp : PoolOK p) (hk : p.kind = .balancer) (hd : dout ∈ keys p.reserves)
    (ht : (Call.swapIn p id din a dout (some out)).tied cfg = true) :
    ∃ aIn wr y pw, GammMath.findAsset (toBal (cfg id) p).assets (dname din) = some aIn ∧
      Dec.quo (GammMath.toDec aIn.weight) (GammMath.toDec ((cfg id).weight dout)) = some wr ∧
      Dec.quo (GammMath.toDec aIn.amount) (a * (P18 - (cfg id).swapFee) + GammMath.toDec aIn.amount) = some y ∧
      pow y wr = some pw ∧ 0 < out ∧ out ≤ p.res dout ∧
      ((Call.swapIn p id din a dout (some out)).entireReserve = true ↔ pw ≤ 0) := by
  obtain ⟨P', hc, ha⟩ := tied_swapIn_balancer hk ht
  obtain ⟨aIn, aOut, wr, y, pw, h1, h2, h3, h4, h5, h6⟩ := GammMath.balCalcOut_vs_reserve hc
  have hf : GammMath.findAsset (toBal (cfg id) p).assets (dname dout) = some ⟨dname dout, aget p.reserves dout, (cfg id).weight dout⟩ :=
    findAsset_balAssets (cfg id) p.reserves hp.nodup dout hd
  rw [hf] at h2; injection h2 with h2; subst h2
  have hR : 0 < aget p.reserves dout := aget_pos_of_mem p.reserves dout hp.pos hd
  have hle := balApplySwap_ok_le ha hf
  obtain ⟨_, _, _, _, _, _, _, _, _, _, t0, _⟩ := Props.C04.balCalcOut_spec hc
  obtain ⟨e1, e2, _⟩ := h6 hR
  refine ⟨aIn, wr, y, pw, h1, h3, h4, h5, t0, hle, ?_⟩
  simp only [Call.entireReserve, hk, decide_true, Bool.true_and, decide_eq_true_eq]
  show out = aget p.reserves dout ↔ pw ≤ 0
  simp only at e1 e2 hle
  constructor
  · intro h; exact (e2.mp h).1
  · intro h
    have : ¬ out < aget p.reserves dout := fun hlt => by have := e1.mp hlt; omega
    omega

/-- the converse reading used on histories: an F13 event is a `Pow ≤ 0` event. -/
theorem pow_nonpos_of_entireReserve {cfg : Cfg} {c : Call} (ht : c.tied cfg = true) (hr : c.recOK) (he : c.entireReserve = true) :
    ∃ y wr pw, pow y wr = some pw ∧ pw ≤ 0 := by
  cases c with
  | swapIn p id din a dout m =>
    cases m with
    | none => simp [Call.entireReserve] at he
    | some out =>
      have he' := he
      simp only [Call.entireReserve, Bool.and_eq_true, decide_eq_true_eq] at he'
      obtain ⟨hk, ho⟩ := he'
      have hp : PoolOK p := hr
      obtain ⟨P', hc, _⟩ := tied_swapIn_balancer hk ht
      obtain ⟨_, _, _, _, _, _, _, _, _, _, t0, _⟩ := Props.C04.balCalcOut_spec hc
      have hd : dout ∈ keys p.reserves := mem_keys_of_aget_ne_zero p.reserves dout (by
        show p.res dout ≠ 0; omega)
      obtain ⟨_, wr, y, pw, _, _, _, h5, _, _, hiff⟩ := entireReserve_iff_pow_nonpos hp hk hd ht
      exact ⟨y, wr, pw, h5, hiff.mp he⟩
  | _ => simp [Call.entireReserve] at he

/-- all assets of every balancer pool have the same weight. -/
def EqualWeights (cfg : Cfg) : Prop := ∀ id d d', (cfg id).weight d = (cfg id).weight d'

/-- FULL, unconditional for EQUAL-WEIGHT pools: a TIED `SwapOutAmtGivenIn` call is never an F13 event. -/
theorem not_entireReserve_of_equal_weights {cfg : Cfg} (hcfg : CfgOK cfg) (hw : EqualWeights cfg) {c : Call}
    (ht : c.tied cfg = true) (hr : c.recOK) : c.entireReserve = false := by
  cases hc : c.entireReserve with
  | false => rfl
  | true =>
    exfalso
    cases c with
    | swapIn p id din a dout m =>
      cases m with
      | none => simp [Call.entireReserve] at hc
      | some out =>
        have he' := hc
        simp only [Call.entireReserve, Bool.and_eq_true, decide_eq_true_eq] at he'
        obtain ⟨hk, ho⟩ := he'
        have hp : PoolOK p := hr
        obtain ⟨P', hcalc, _⟩ := tied_swapIn_balancer hk ht
        obtain ⟨aIn, aOut, _, _, _, h1, h2, _, _, _, t0, _⟩ := Props.C04.balCalcOut_spec hcalc
        have hd : dout ∈ keys p.reserves := mem_keys_of_aget_ne_zero p.reserves dout (by
          show p.res dout ≠ 0; omega)
        have hf : GammMath.findAsset (toBal (cfg id) p).assets (dname dout) = some ⟨dname dout, aget p.reserves dout, (cfg id).weight dout⟩ :=
          findAsset_balAssets (cfg id) p.reserves hp.nodup dout hd
        obtain ⟨r, _, hr'⟩ := findAsset_balAssets_mem (cfg id) p.reserves (dname din) h1
        have hlt := GammMath.balCalcOut_lt_reserve_equal_weights hcalc h1 hf
          (by rw [hr']; exact hw id r.1 dout) (by rw [hr']; exact hcfg.weight_pos id r.1)
          (aget_pos_of_mem p.reserves dout hp.pos hd)
        simp only at hlt
        have : p.res dout = aget p.reserves dout := rfl
        omega
    | _ => simp [Call.entireReserve] at hc

/-- over a whole history of equal-weight pools (and stableswap pools) there is no F13 event at all. -/
theorem entireReserveSwaps_nil_of_equal_weights (cfg : Cfg) (hcfg : CfgOK cfg) (hw : EqualWeights cfg)
    (ops : List Op) (s : State) (hok : PoolsOK s) (hn : OpsNamesOK ops) (hm : mathIsGamm cfg s ops = true) :
    entireReserveSwaps s ops = [] := by
  rw [List.eq_nil_iff_forall_not_mem]
  intro c hc
  obtain ⟨t1, t2, t3⟩ := runOps_events cfg hcfg ops s hok hn hm c hc
  rw [not_entireReserve_of_equal_weights hcfg hw t1 t2] at t3
  cases t3

end OsmoVerif.Gamm
